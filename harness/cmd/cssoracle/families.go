package main

// Per-property value interpreters: shorthand -> longhand expansion with initial values.
// Every canon returns labelled atoms, or a reason why the value is outside the grammar it knows
// (=> "not judged" on the input side, "output-not-in-grammar" on the output side).

import (
	"math/big"
	"sort"
	"strings"
)

func familyOf(prop string) string {
	switch prop {
	case "margin", "padding", "border-width":
		return "box4"
	case "border-color":
		return "border-color"
	case "border", "border-top", "border-right", "border-bottom", "border-left", "column-rule":
		return "border"
	case "outline":
		return "outline"
	case "color", "caret-color", "outline-color", "fill", "stroke":
		return "color"
	case "background-color":
		return "background-color"
	case "border-left-color", "border-right-color", "border-top-color", "border-bottom-color", "text-decoration-color", "text-emphasis-color":
		return "color-cc"
	case "text-shadow":
		return "text-shadow"
	case "text-decoration":
		return "text-decoration"
	case "text-emphasis":
		return "text-emphasis"
	case "background":
		return "background"
	case "background-position":
		return "bgpos"
	case "background-repeat":
		return "bgrepeat"
	case "background-size":
		return "bgsize"
	case "box-shadow":
		return "box-shadow"
	case "flex":
		return "flex"
	case "flex-basis":
		return "flex-basis"
	case "order", "flex-grow", "flex-shrink":
		return "flex-num"
	case "font-weight":
		return "font-weight"
	case "font-family":
		return "font-family"
	case "font":
		return "font"
	case "unicode-range":
		return "unicode-range"
	case "filter", "-ms-filter":
		return "ms-filter"
	}
	return ""
}

func lab(a Atom, l string) Atom { a.Lbl = l + ":"; return a }

func kw(s string) Atom { return Atom{K: 'i', S: s} }

func zeroAtom() Atom { return Atom{K: 'n', N: ri(0)} }

func pctAtom(v int64) Atom { return Atom{K: 'n', N: ri(v), U: "%"} }

// lenAtom: <length-percentage> | math function. Unitless zero is a zero length.
func lenAtom(n *Node, ctx *Ctx) (Atom, bool) {
	switch n.T.K {
	case KNumber:
		if n.T.Num == nil || n.T.Num.Sign() != 0 {
			return Atom{}, false
		}
		return Atom{K: 'n', N: ri(0), Nd: n}, true
	case KDimension:
		// an unknown unit is taken as a length unit the oracle has not heard of (kept verbatim);
		// angles, times etc. are not lengths
		if c := unitClass(strings.ToLower(n.T.Val)); n.T.Num == nil || c != "length" && c != "unknown" {
			return Atom{}, false
		}
		return numAtom(n, true, ctx), true
	case KPercentage:
		return numAtom(n, true, ctx), n.T.Num != nil
	case KFunction:
		if isMathFn(strings.ToLower(n.T.Val)) && n.Closed && !hasSubstitution(n.Kids) {
			return nodeAtom(n, false, false, false, ctx), true
		}
	}
	return Atom{}, false
}

func colorAtom(n *Node) (Atom, bool) {
	c, ok := colorOf(*n)
	if !ok {
		return Atom{}, false
	}
	return Atom{K: 'c', C: c, Nd: n}, true
}

func wideOnly(cs []*Node) (Atom, bool) {
	if len(cs) == 1 && cs[0].T.K == KIdent && cssWide[strings.ToLower(cs[0].T.Val)] {
		return Atom{K: 'i', S: strings.ToLower(cs[0].T.Val), Lbl: "wide:"}, true
	}
	return Atom{}, false
}

func canonFamily(fam, prop string, d *Decl, ctx *Ctx) ([]Atom, string) {
	if hasSubstitution(d.Nodes) {
		return nil, "substitution-function"
	}
	cs := components(d.Nodes)
	if len(cs) == 0 {
		return nil, "empty"
	}
	switch fam {
	case "box4":
		return canonBox4(cs, ctx)
	case "border-color":
		return canonBorderColor(cs, ctx)
	case "border":
		return canonBorder(cs, ctx, false)
	case "outline":
		return canonBorder(cs, ctx, true)
	case "color":
		return canonColors(cs, d, ctx, "")
	case "background-color":
		return canonColors(cs, d, ctx, "transparent")
	case "color-cc":
		return canonColors(cs, d, ctx, "currentcolor")
	case "text-shadow":
		return canonColors(cs, d, ctx, "")
	case "text-decoration":
		return canonTextDecoration(cs, ctx)
	case "text-emphasis":
		return canonTextEmphasis(cs, ctx)
	case "background":
		return canonBackground(cs, ctx)
	case "bgpos":
		return canonLayers(cs, ctx, func(l []*Node) ([]Atom, string) {
			x, y, why := bgpos(l, ctx)
			return []Atom{lab(x, "x"), lab(y, "y")}, why
		})
	case "bgrepeat":
		return canonLayers(cs, ctx, bgrepeat)
	case "bgsize":
		return canonLayers(cs, ctx, func(l []*Node) ([]Atom, string) { return bgsize(l, ctx) })
	case "box-shadow":
		return canonBoxShadow(cs, ctx)
	case "flex":
		return canonFlex(cs, ctx)
	case "flex-basis":
		return canonFlexBasis(cs, ctx)
	case "flex-num":
		return canonFlexNum(cs, prop, ctx)
	case "font-weight":
		return canonFontWeight(cs, ctx)
	case "font-family":
		if a, ok := wideOnly(cs); ok {
			return []Atom{a}, ""
		}
		return canonFamilies(cs)
	case "font":
		return canonFont(cs, ctx)
	case "unicode-range":
		return canonUnicodeRange(d)
	case "ms-filter":
		return canonMSFilter(d, prop)
	}
	return nil, "no-family"
}

// ---- 4-side boxes ----

func expand4(v []Atom) []Atom {
	var t, r, b, l Atom
	switch len(v) {
	case 1:
		t, r, b, l = v[0], v[0], v[0], v[0]
	case 2:
		t, r, b, l = v[0], v[1], v[0], v[1]
	case 3:
		t, r, b, l = v[0], v[1], v[2], v[1]
	case 4:
		t, r, b, l = v[0], v[1], v[2], v[3]
	}
	return []Atom{lab(t, "top"), lab(r, "right"), lab(b, "bottom"), lab(l, "left")}
}

func canonBox4(cs []*Node, ctx *Ctx) ([]Atom, string) {
	if a, ok := wideOnly(cs); ok {
		return []Atom{a}, ""
	}
	if len(cs) > 4 {
		return nil, "too-many-values"
	}
	var v []Atom
	for _, c := range cs {
		if a, ok := lenAtom(c, ctx); ok {
			v = append(v, a)
		} else if isIdent(c, "auto", "thin", "medium", "thick") {
			v = append(v, kw(lowerIdent(c)))
		} else {
			return nil, "unknown-component"
		}
	}
	return expand4(v), ""
}

func canonBorderColor(cs []*Node, ctx *Ctx) ([]Atom, string) {
	if len(cs) == 1 && isIdent(cs[0], "initial") {
		cc := Atom{K: 'c', C: &Color{Special: "currentcolor"}}
		return expand4([]Atom{cc}), ""
	}
	if a, ok := wideOnly(cs); ok {
		return []Atom{a}, ""
	}
	if len(cs) > 4 {
		return nil, "too-many-values"
	}
	var v []Atom
	for _, c := range cs {
		a, ok := colorAtom(c)
		if !ok {
			return nil, "unknown-component"
		}
		v = append(v, a)
	}
	return expand4(v), ""
}

// ---- border / outline / column-rule: <width> || <style> || <color> ----

var lineStyles = map[string]bool{"none": true, "hidden": true, "dotted": true, "dashed": true, "solid": true, "double": true, "groove": true, "ridge": true, "inset": true, "outset": true}

func canonBorder(cs []*Node, ctx *Ctx, outline bool) ([]Atom, string) {
	if a, ok := wideOnly(cs); ok {
		return []Atom{a}, ""
	}
	if len(cs) > 3 {
		return nil, "too-many-values"
	}
	var width, style, color *Atom
	for _, c := range cs {
		id := lowerIdent(c)
		switch {
		case id == "thin" || id == "medium" || id == "thick":
			if width != nil {
				return nil, "duplicate-width"
			}
			a := kw(id)
			width = &a
		case lineStyles[id] || outline && id == "auto":
			if style != nil {
				return nil, "duplicate-style"
			}
			a := kw(id)
			style = &a
		case outline && id == "invert":
			if color != nil {
				return nil, "duplicate-color"
			}
			a := kw(id)
			color = &a
		default:
			if a, ok := colorAtom(c); ok {
				if color != nil {
					return nil, "duplicate-color"
				}
				color = &a
			} else if a, ok := lenAtom(c, ctx); ok && a.U != "%" {
				if width != nil {
					return nil, "duplicate-width"
				}
				width = &a
			} else {
				return nil, "unknown-component"
			}
		}
	}
	if width == nil {
		a := kw("medium")
		width = &a
	}
	if style == nil {
		a := kw("none")
		style = &a
	}
	if color == nil {
		if outline {
			a := kw("invert")
			color = &a
		} else {
			a := Atom{K: 'c', C: &Color{Special: "currentcolor"}}
			color = &a
		}
	}
	return []Atom{lab(*width, "width"), lab(*style, "style"), lab(*color, "color")}, ""
}

// ---- colour-valued properties: every component that is a colour is compared as a colour ----

func canonColors(cs []*Node, d *Decl, ctx *Ctx, initial string) ([]Atom, string) {
	if len(cs) == 1 && initial != "" && isIdent(cs[0], "initial") {
		switch initial {
		case "transparent":
			return []Atom{lab(Atom{K: 'c', C: &Color{R: ri(0), G: ri(0), B: ri(0), A: ri(0), Quant: true}}, "color")}, ""
		case "currentcolor":
			return []Atom{lab(Atom{K: 'c', C: &Color{Special: "currentcolor"}}, "color")}, ""
		}
	}
	var out []Atom
	for _, c := range cs {
		if a, ok := colorAtom(c); ok {
			out = append(out, lab(a, "color"))
		} else {
			out = append(out, nodeAtom(c, true, false, true, ctx))
		}
	}
	return out, ""
}

// ---- text-decoration: <line> || <style> || <color> || <thickness> ----

func canonTextDecoration(cs []*Node, ctx *Ctx) ([]Atom, string) {
	if a, ok := wideOnly(cs); ok {
		return []Atom{a}, ""
	}
	var lines []string
	var style, color, thick *Atom
	none := false
	for _, c := range cs {
		id := lowerIdent(c)
		switch {
		case id == "none":
			if none {
				return nil, "duplicate-none"
			}
			none = true
		case id == "underline" || id == "overline" || id == "line-through" || id == "blink":
			lines = append(lines, id)
		case id == "solid" || id == "double" || id == "dotted" || id == "dashed" || id == "wavy":
			if style != nil {
				return nil, "duplicate-style"
			}
			a := kw(id)
			style = &a
		case id == "auto" || id == "from-font":
			if thick != nil {
				return nil, "duplicate-thickness"
			}
			a := kw(id)
			thick = &a
		default:
			if a, ok := colorAtom(c); ok {
				if color != nil {
					return nil, "duplicate-color"
				}
				color = &a
			} else if a, ok := lenAtom(c, ctx); ok {
				if thick != nil {
					return nil, "duplicate-thickness"
				}
				thick = &a
			} else {
				return nil, "unknown-component"
			}
		}
	}
	if none && len(lines) > 0 {
		return nil, "none-with-lines"
	}
	sort.Strings(lines)
	for i := 1; i < len(lines); i++ {
		if lines[i] == lines[i-1] {
			return nil, "duplicate-line"
		}
	}
	l := "none"
	if len(lines) > 0 {
		l = strings.Join(lines, "+")
	}
	if style == nil {
		a := kw("solid")
		style = &a
	}
	if color == nil {
		a := Atom{K: 'c', C: &Color{Special: "currentcolor"}}
		color = &a
	}
	if thick == nil {
		a := kw("auto")
		thick = &a
	}
	return []Atom{lab(kw(l), "line"), lab(*style, "style"), lab(*color, "color"), lab(*thick, "thickness")}, ""
}

// ---- text-emphasis: <style> || <color> ----

func canonTextEmphasis(cs []*Node, ctx *Ctx) ([]Atom, string) {
	if a, ok := wideOnly(cs); ok {
		return []Atom{a}, ""
	}
	var color *Atom
	var fill, shape string
	var str *Atom
	none := false
	for _, c := range cs {
		id := lowerIdent(c)
		switch {
		case id == "none":
			if none {
				return nil, "duplicate-none"
			}
			none = true
		case id == "filled" || id == "open":
			if fill != "" {
				return nil, "duplicate-fill"
			}
			fill = id
		case id == "dot" || id == "circle" || id == "double-circle" || id == "triangle" || id == "sesame":
			if shape != "" {
				return nil, "duplicate-shape"
			}
			shape = id
		case c.T.K == KString:
			if str != nil {
				return nil, "duplicate-string"
			}
			a := Atom{K: 's', S: c.T.Val}
			str = &a
		default:
			if a, ok := colorAtom(c); ok {
				if color != nil {
					return nil, "duplicate-color"
				}
				color = &a
			} else {
				return nil, "unknown-component"
			}
		}
	}
	kinds := 0
	if none {
		kinds++
	}
	if fill != "" || shape != "" {
		kinds++
	}
	if str != nil {
		kinds++
	}
	if kinds > 1 {
		return nil, "conflicting-style"
	}
	var style Atom
	switch {
	case str != nil:
		style = *str
	case fill != "" || shape != "":
		if fill == "" {
			fill = "filled"
		}
		if shape == "" {
			shape = "shape-default" // depends on writing mode
		}
		style = kw(fill + "+" + shape)
	default:
		style = kw("none")
	}
	if color == nil {
		a := Atom{K: 'c', C: &Color{Special: "currentcolor"}}
		color = &a
	}
	return []Atom{lab(style, "style"), lab(*color, "color")}, ""
}

// ---- comma separated layer lists ----

func canonLayers(cs []*Node, ctx *Ctx, f func([]*Node) ([]Atom, string)) ([]Atom, string) {
	if a, ok := wideOnly(cs); ok {
		return []Atom{a}, ""
	}
	var out []Atom
	for li, layer := range splitCommas(cs) {
		if len(layer) == 0 {
			return nil, "empty-layer"
		}
		as, why := f(layer)
		if why != "" {
			return nil, why
		}
		if li > 0 {
			out = append(out, Atom{K: 'd', S: ","})
		}
		out = append(out, as...)
	}
	return out, ""
}

// ---- background-position (css-backgrounds-3 3.6) ----

func isHKw(s string) bool { return s == "left" || s == "right" }
func isVKw(s string) bool { return s == "top" || s == "bottom" }
func isPosKw(s string) bool {
	return isHKw(s) || isVKw(s) || s == "center"
}

// posOffset: offset atom with zero normalised (0, 0px and 0% coincide for positions).
func posOffset(n *Node, ctx *Ctx) (Atom, bool) {
	a, ok := lenAtom(n, ctx)
	if !ok {
		return a, false
	}
	if a.K == 'n' && a.N.Sign() == 0 {
		a.U = ""
	}
	return a, true
}

// edgeOffset turns (edge keyword, offset) into a canonical coordinate.
func edgeOffset(edge string, off *Atom) Atom {
	switch edge {
	case "center":
		return pctAtom(50)
	case "left", "top":
		if off == nil {
			return zeroAtom()
		}
		return *off
	}
	// right / bottom
	if off == nil || off.K == 'n' && off.N.Sign() == 0 {
		return pctAtom(100)
	}
	if off.K == 'n' && off.U == "%" {
		v := new(big.Rat).Sub(ri(100), off.N)
		a := Atom{K: 'n', N: v, U: "%"}
		if v.Sign() == 0 {
			a.U = ""
		}
		return a
	}
	// length from the far edge: not expressible from the near edge
	return Atom{K: 'f', S: "from-far-edge", Kids: []Atom{*off}, Closed: true}
}

func bgpos(l []*Node, ctx *Ctx) (x Atom, y Atom, why string) {
	type item struct {
		kw  string
		off *Atom
	}
	var its []item
	for _, c := range l {
		if id := lowerIdent(c); isPosKw(id) {
			its = append(its, item{kw: id})
		} else if a, ok := posOffset(c, ctx); ok {
			aa := a
			its = append(its, item{off: &aa})
		} else {
			return x, y, "position:unknown-component"
		}
	}
	switch len(its) {
	case 1:
		it := its[0]
		switch {
		case it.off != nil:
			return *it.off, pctAtom(50), ""
		case isVKw(it.kw):
			return pctAtom(50), edgeOffset(it.kw, nil), ""
		default:
			return edgeOffset(it.kw, nil), pctAtom(50), ""
		}
	case 2:
		a, b := its[0], its[1]
		if a.off == nil && b.off == nil {
			if isVKw(a.kw) || isHKw(b.kw) {
				a, b = b, a
			}
			if isVKw(a.kw) || isHKw(b.kw) {
				return x, y, "position:invalid-keywords"
			}
			return edgeOffset(a.kw, nil), edgeOffset(b.kw, nil), ""
		}
		if a.off == nil && isVKw(a.kw) || b.off == nil && isHKw(b.kw) {
			return x, y, "position:invalid-order"
		}
		if a.off != nil {
			x = *a.off
		} else {
			x = edgeOffset(a.kw, nil)
		}
		if b.off != nil {
			y = *b.off
		} else {
			y = edgeOffset(b.kw, nil)
		}
		return x, y, ""
	case 3, 4:
		// [ center | [left|right] <lp>? ] && [ center | [top|bottom] <lp>? ]
		type eo struct {
			e   string
			off *Atom
		}
		var ps []eo
		for i := 0; i < len(its); {
			if its[i].off != nil {
				return x, y, "position:offset-without-edge"
			}
			if i+1 < len(its) && its[i+1].off != nil {
				if its[i].kw == "center" {
					return x, y, "position:center-with-offset"
				}
				ps = append(ps, eo{its[i].kw, its[i+1].off})
				i += 2
			} else {
				ps = append(ps, eo{its[i].kw, nil})
				i++
			}
		}
		if len(ps) != 2 {
			return x, y, "position:invalid-3-4-value"
		}
		a, b := ps[0], ps[1]
		if isVKw(a.e) || isHKw(b.e) {
			a, b = b, a
		}
		if isVKw(a.e) || isHKw(b.e) {
			return x, y, "position:invalid-keywords"
		}
		return edgeOffset(a.e, a.off), edgeOffset(b.e, b.off), ""
	}
	return x, y, "position:wrong-count"
}

// ---- background-repeat ----

func bgrepeat(l []*Node) ([]Atom, string) {
	var v []string
	for _, c := range l {
		v = append(v, lowerIdent(c))
	}
	ok := func(s string) bool { return s == "repeat" || s == "space" || s == "round" || s == "no-repeat" }
	switch len(v) {
	case 1:
		switch {
		case v[0] == "repeat-x":
			return []Atom{lab(kw("repeat"), "repeat-x"), lab(kw("no-repeat"), "repeat-y")}, ""
		case v[0] == "repeat-y":
			return []Atom{lab(kw("no-repeat"), "repeat-x"), lab(kw("repeat"), "repeat-y")}, ""
		case ok(v[0]):
			return []Atom{lab(kw(v[0]), "repeat-x"), lab(kw(v[0]), "repeat-y")}, ""
		}
	case 2:
		if ok(v[0]) && ok(v[1]) {
			return []Atom{lab(kw(v[0]), "repeat-x"), lab(kw(v[1]), "repeat-y")}, ""
		}
	}
	return nil, "repeat:unknown"
}

// ---- background-size ----

func bgsize(l []*Node, ctx *Ctx) ([]Atom, string) {
	one := func(c *Node) (Atom, bool) {
		if isIdent(c, "auto") {
			return kw("auto"), true
		}
		return posOffset(c, ctx) // a zero percentage and a zero length are the same size
	}
	switch len(l) {
	case 1:
		if isIdent(l[0], "cover", "contain") {
			return []Atom{lab(kw(lowerIdent(l[0])), "size")}, ""
		}
		if a, ok := one(l[0]); ok {
			return []Atom{lab(a, "width"), lab(kw("auto"), "height")}, ""
		}
	case 2:
		a, ok1 := one(l[0])
		b, ok2 := one(l[1])
		if ok1 && ok2 {
			return []Atom{lab(a, "width"), lab(b, "height")}, ""
		}
	}
	return nil, "size:unknown"
}

// ---- background shorthand ----

func isImageNode(c *Node) bool {
	if c.T.K == KURL {
		return true
	}
	if c.T.K == KFunction {
		n := strings.ToLower(c.T.Val)
		return n == "url" || strings.HasSuffix(n, "-gradient") || n == "image-set" || n == "-webkit-image-set" || n == "image" || n == "cross-fade" || n == "element"
	}
	return false
}

func isPosNode(c *Node, ctx *Ctx) bool {
	if isPosKw(lowerIdent(c)) {
		return true
	}
	_, ok := lenAtom(c, ctx)
	return ok
}

func canonBackground(cs []*Node, ctx *Ctx) ([]Atom, string) {
	if a, ok := wideOnly(cs); ok {
		return []Atom{a}, ""
	}
	layers := splitCommas(cs)
	var out []Atom
	for li, l := range layers {
		if len(l) == 0 {
			return nil, "empty-layer"
		}
		var image, px, py, attach, color *Atom
		var size, rep []Atom
		var boxes []string
		i := 0
		for i < len(l) {
			c := l[i]
			id := lowerIdent(c)
			switch {
			case id == "none" || isImageNode(c):
				if image != nil {
					return nil, "duplicate-image"
				}
				var a Atom
				if id == "none" {
					a = kw("none")
				} else {
					a = nodeAtom(c, false, false, false, ctx)
				}
				image = &a
				i++
			case id == "repeat-x" || id == "repeat-y" || id == "repeat" || id == "space" || id == "round" || id == "no-repeat":
				if rep != nil {
					return nil, "duplicate-repeat"
				}
				j := i + 1
				if id != "repeat-x" && id != "repeat-y" && j < len(l) {
					if id2 := lowerIdent(l[j]); id2 == "repeat" || id2 == "space" || id2 == "round" || id2 == "no-repeat" {
						j++
					}
				}
				r, why := bgrepeat(l[i:j])
				if why != "" {
					return nil, why
				}
				rep = r
				i = j
			case id == "scroll" || id == "fixed" || id == "local":
				if attach != nil {
					return nil, "duplicate-attachment"
				}
				a := kw(id)
				attach = &a
				i++
			case id == "border-box" || id == "padding-box" || id == "content-box":
				if len(boxes) == 2 {
					return nil, "too-many-boxes"
				}
				boxes = append(boxes, id)
				i++
			case isPosNode(c, ctx):
				if px != nil {
					return nil, "duplicate-position"
				}
				j := i
				for j < len(l) && j-i < 4 && isPosNode(l[j], ctx) {
					j++
				}
				x, y, why := bgpos(l[i:j], ctx)
				if why != "" {
					return nil, why
				}
				px, py = &x, &y
				i = j
				if i < len(l) && isDelim(l[i], "/") {
					i++
					j = i
					for j < len(l) && j-i < 2 && (isIdent(l[j], "auto") || func() bool { _, ok := lenAtom(l[j], ctx); return ok }()) {
						j++
					}
					if j == i && i < len(l) && isIdent(l[i], "cover", "contain") {
						j = i + 1
					}
					if j == i {
						return nil, "size:missing"
					}
					s, why := bgsize(l[i:j], ctx)
					if why != "" {
						return nil, why
					}
					size = s
					i = j
				}
			default:
				if a, ok := colorAtom(c); ok {
					if color != nil {
						return nil, "duplicate-color"
					}
					if li != len(layers)-1 {
						return nil, "color-in-non-final-layer"
					}
					color = &a
					i++
				} else {
					return nil, "unknown-component"
				}
			}
		}
		if image == nil {
			a := kw("none")
			image = &a
		}
		if px == nil {
			x, y := zeroAtom(), zeroAtom()
			px, py = &x, &y
		}
		if size == nil {
			size = []Atom{lab(kw("auto"), "width"), lab(kw("auto"), "height")}
		}
		if len(size) == 1 { // cover / contain
			size = append(size, lab(kw("-"), "height"))
			size[0].Lbl = "width:"
		}
		if rep == nil {
			rep = []Atom{lab(kw("repeat"), "repeat-x"), lab(kw("repeat"), "repeat-y")}
		}
		if attach == nil {
			a := kw("scroll")
			attach = &a
		}
		origin, clip := "padding-box", "border-box"
		switch len(boxes) {
		case 1:
			origin, clip = boxes[0], boxes[0]
		case 2:
			origin, clip = boxes[0], boxes[1]
		}
		if li > 0 {
			out = append(out, Atom{K: 'd', S: ","})
		}
		out = append(out, lab(*image, "image"), lab(*px, "position-x"), lab(*py, "position-y"), size[0], size[1], rep[0], rep[1], lab(*attach, "attachment"), lab(kw(origin), "origin"), lab(kw(clip), "clip"))
		if li == len(layers)-1 {
			if color == nil {
				a := Atom{K: 'c', C: &Color{R: ri(0), G: ri(0), B: ri(0), A: ri(0), Quant: true}}
				color = &a
			}
			out = append(out, lab(*color, "color"))
		}
	}
	return out, ""
}

// ---- box-shadow ----

func canonBoxShadow(cs []*Node, ctx *Ctx) ([]Atom, string) {
	if len(cs) == 1 && isIdent(cs[0], "none", "initial") {
		return []Atom{lab(kw("none"), "shadow")}, ""
	}
	if a, ok := wideOnly(cs); ok {
		return []Atom{a}, ""
	}
	return canonLayers(cs, ctx, func(l []*Node) ([]Atom, string) {
		inset := false
		var lens []Atom
		var color *Atom
		lensDone := false
		for _, c := range l {
			if isIdent(c, "inset") {
				if inset {
					return nil, "shadow:duplicate-inset"
				}
				inset = true
				if len(lens) > 0 {
					lensDone = true
				}
			} else if a, ok := lenAtom(c, ctx); ok && a.U != "%" {
				if lensDone {
					return nil, "shadow:split-lengths"
				}
				lens = append(lens, a)
			} else if a, ok := colorAtom(c); ok {
				if color != nil {
					return nil, "shadow:duplicate-color"
				}
				color = &a
				if len(lens) > 0 {
					lensDone = true
				}
			} else {
				return nil, "shadow:unknown-component"
			}
		}
		if len(lens) < 2 || len(lens) > 4 {
			return nil, "shadow:wrong-length-count"
		}
		for len(lens) < 4 {
			lens = append(lens, zeroAtom())
		}
		in := "outset"
		if inset {
			in = "inset"
		}
		if color == nil {
			a := Atom{K: 'c', C: &Color{Special: "currentcolor"}}
			color = &a
		}
		return []Atom{lab(kw(in), "inset"), lab(lens[0], "x"), lab(lens[1], "y"), lab(lens[2], "blur"), lab(lens[3], "spread"), lab(*color, "color")}, ""
	})
}

// ---- flex ----

func flexBasisAtom(c *Node, ctx *Ctx) (Atom, bool) {
	if isIdent(c, "auto", "content", "max-content", "min-content", "fit-content") {
		return kw(lowerIdent(c)), true
	}
	a, ok := lenAtom(c, ctx)
	if !ok {
		return a, false
	}
	if a.K == 'n' && a.N.Sign() == 0 {
		if !ctx.Strict {
			return kw("zero"), true
		}
		if a.U == "%" {
			return kw("zero-percentage"), true
		}
		return kw("zero-length"), true
	}
	return a, true
}

func omittedBasis(ctx *Ctx) Atom {
	if !ctx.Strict {
		return kw("zero")
	}
	// css-flexbox-1 says "0", every browser implements 0%; the strict reading follows the browsers
	return kw("zero-percentage")
}

func canonFlex(cs []*Node, ctx *Ctx) ([]Atom, string) {
	mk := func(g, s, b Atom) ([]Atom, string) {
		return []Atom{lab(g, "grow"), lab(s, "shrink"), lab(b, "basis")}, ""
	}
	num := func(v int64) Atom { return Atom{K: 'n', N: ri(v)} }
	if len(cs) == 1 {
		switch lowerIdent(cs[0]) {
		case "none":
			return mk(num(0), num(0), kw("auto"))
		case "auto":
			return mk(num(1), num(1), kw("auto"))
		case "initial":
			return mk(num(0), num(1), kw("auto"))
		}
	}
	if a, ok := wideOnly(cs); ok {
		return []Atom{a}, ""
	}
	if len(cs) > 3 {
		return nil, "too-many-values"
	}
	var nums []Atom
	var basis *Atom
	for i, c := range cs {
		if c.T.K == KNumber && c.T.Num != nil && c.T.Num.Sign() >= 0 {
			// unitless zero after two flex factors is the basis
			if len(nums) == 2 && c.T.Num.Sign() == 0 && basis == nil {
				b, _ := flexBasisAtom(c, ctx)
				basis = &b
				continue
			}
			if len(nums) == 2 {
				return nil, "too-many-numbers"
			}
			if basis != nil && i != 1 && len(nums) == 0 && i != len(cs)-1 {
				// basis first, numbers after: fine
			}
			nums = append(nums, Atom{K: 'n', N: c.T.Num})
			continue
		}
		b, ok := flexBasisAtom(c, ctx)
		if !ok {
			return nil, "unknown-component"
		}
		if basis != nil {
			return nil, "duplicate-basis"
		}
		if len(nums) == 1 && i == 1 && len(cs) == 3 {
			return nil, "basis-between-factors"
		}
		basis = &b
	}
	g, s := num(1), num(1)
	if len(nums) > 0 {
		g = nums[0]
	}
	if len(nums) > 1 {
		s = nums[1]
	}
	if basis == nil {
		b := omittedBasis(ctx)
		basis = &b
	}
	return mk(g, s, *basis)
}

func canonFlexBasis(cs []*Node, ctx *Ctx) ([]Atom, string) {
	if len(cs) != 1 {
		return nil, "wrong-count"
	}
	if isIdent(cs[0], "initial") {
		return []Atom{lab(kw("auto"), "basis")}, ""
	}
	if a, ok := wideOnly(cs); ok {
		return []Atom{a}, ""
	}
	b, ok := flexBasisAtom(cs[0], ctx)
	if !ok {
		return nil, "unknown-component"
	}
	return []Atom{lab(b, "basis")}, ""
}

func canonFlexNum(cs []*Node, prop string, ctx *Ctx) ([]Atom, string) {
	if len(cs) != 1 {
		return nil, "wrong-count"
	}
	if isIdent(cs[0], "initial") {
		v := int64(0)
		if prop == "flex-shrink" {
			v = 1
		}
		return []Atom{lab(Atom{K: 'n', N: ri(v)}, "value")}, ""
	}
	if a, ok := wideOnly(cs); ok {
		return []Atom{a}, ""
	}
	if cs[0].T.K == KNumber && cs[0].T.Num != nil {
		return []Atom{lab(Atom{K: 'n', N: cs[0].T.Num}, "value")}, ""
	}
	return nil, "unknown-component"
}

// ---- fonts ----

func canonFontWeight(cs []*Node, ctx *Ctx) ([]Atom, string) {
	if len(cs) != 1 {
		return nil, "wrong-count"
	}
	a, ok := fontWeightAtom(cs[0])
	if !ok {
		return nil, "unknown-component"
	}
	return []Atom{lab(a, "weight")}, ""
}

func fontWeightAtom(c *Node) (Atom, bool) {
	switch lowerIdent(c) {
	case "normal":
		return Atom{K: 'n', N: ri(400)}, true
	case "bold":
		return Atom{K: 'n', N: ri(700)}, true
	case "bolder", "lighter", "inherit", "initial", "unset", "revert":
		return kw(lowerIdent(c)), true
	}
	if c.T.K == KNumber && c.T.Num != nil {
		return Atom{K: 'n', N: c.T.Num}, true
	}
	return Atom{}, false
}

var genericFamilies = map[string]bool{"serif": true, "sans-serif": true, "monospace": true, "cursive": true, "fantasy": true, "system-ui": true, "ui-serif": true, "ui-sans-serif": true, "ui-monospace": true, "ui-rounded": true, "emoji": true, "math": true, "fangsong": true,
	"inherit": true, "initial": true, "unset": true, "revert": true, "revert-layer": true, "default": true}

func asciiLower(s string) string {
	b := []byte(s)
	for i, c := range b {
		if c >= 'A' && c <= 'Z' {
			b[i] = c + 32
		}
	}
	return string(b)
}

// canonFamilies: comma separated list of <family-name> (string | ident+) and generic keywords.
// Family names match case-insensitively (css-fonts-4 5.1), so they are ASCII-lowercased.
func canonFamilies(cs []*Node) ([]Atom, string) {
	var out []Atom
	for _, g := range splitCommas(cs) {
		if len(g) == 0 {
			return nil, "family:empty"
		}
		if len(g) == 1 && g[0].T.K == KString {
			out = append(out, lab(Atom{K: 's', S: asciiLower(g[0].T.Val)}, "family"))
			continue
		}
		var words []string
		for _, c := range g {
			if c.T.K != KIdent {
				return nil, "family:unknown-component"
			}
			words = append(words, asciiLower(c.T.Val))
		}
		if len(words) == 1 && genericFamilies[words[0]] {
			out = append(out, lab(Atom{K: 'i', S: words[0]}, "family"))
		} else {
			out = append(out, lab(Atom{K: 's', S: strings.Join(words, " ")}, "family"))
		}
	}
	return out, ""
}

var fontSizeKw = map[string]bool{"xx-small": true, "x-small": true, "small": true, "medium": true, "large": true, "x-large": true, "xx-large": true, "xxx-large": true, "larger": true, "smaller": true, "math": true}
var fontStretchKw = map[string]bool{"ultra-condensed": true, "extra-condensed": true, "condensed": true, "semi-condensed": true, "semi-expanded": true, "expanded": true, "extra-expanded": true, "ultra-expanded": true}

func canonFont(cs []*Node, ctx *Ctx) ([]Atom, string) {
	if len(cs) == 1 {
		if isIdent(cs[0], "caption", "icon", "menu", "message-box", "small-caption", "status-bar") {
			return []Atom{lab(kw(lowerIdent(cs[0])), "system")}, ""
		}
		if a, ok := wideOnly(cs); ok {
			return []Atom{a}, ""
		}
	}
	style, variant, stretch := kw("normal"), kw("normal"), kw("normal")
	weight := Atom{K: 'n', N: ri(400)}
	seen := map[string]bool{}
	i := 0
	normals := 0
	var size *Atom
	for i < len(cs) && size == nil {
		c := cs[i]
		id := lowerIdent(c)
		set := func(what string) bool {
			if seen[what] {
				return false
			}
			seen[what] = true
			return true
		}
		switch {
		case id == "normal":
			normals++
			i++
		case id == "italic" || id == "oblique":
			if !set("style") {
				return nil, "font:duplicate-style"
			}
			style = kw(id)
			i++
			if id == "oblique" && i < len(cs) && cs[i].T.K == KDimension && unitClass(strings.ToLower(cs[i].T.Val)) == "angle" {
				style = Atom{K: 'f', S: "oblique", Kids: []Atom{numAtom(cs[i], false, ctx)}, Closed: true}
				i++
			}
		case id == "small-caps":
			if !set("variant") {
				return nil, "font:duplicate-variant"
			}
			variant = kw(id)
			i++
		case id == "bold" || id == "bolder" || id == "lighter":
			if !set("weight") {
				return nil, "font:duplicate-weight"
			}
			weight, _ = fontWeightAtom(c)
			i++
		case fontStretchKw[id]:
			if !set("stretch") {
				return nil, "font:duplicate-stretch"
			}
			stretch = kw(id)
			i++
		case c.T.K == KNumber && c.T.Num != nil && c.T.Num.Sign() > 0:
			if !set("weight") {
				return nil, "font:duplicate-weight"
			}
			weight = Atom{K: 'n', N: c.T.Num}
			i++
		case fontSizeKw[id]:
			a := kw(id)
			size = &a
			i++
		default:
			a, ok := lenAtom(c, ctx)
			if !ok {
				return nil, "font:no-size"
			}
			size = &a
			i++
		}
	}
	if size == nil {
		return nil, "font:no-size"
	}
	if normals+len(seen) > 4 {
		return nil, "font:too-many-normals"
	}
	lh := kw("normal")
	if i < len(cs) && isDelim(cs[i], "/") {
		i++
		if i >= len(cs) {
			return nil, "font:no-line-height"
		}
		c := cs[i]
		switch {
		case isIdent(c, "normal"):
		case c.T.K == KNumber && c.T.Num != nil:
			lh = Atom{K: 'n', N: c.T.Num, U: "x"} // multiplier, distinct from a zero length
		default:
			a, ok := lenAtom(c, ctx)
			if !ok {
				return nil, "font:bad-line-height"
			}
			if a.K == 'n' && a.U == "" {
				a.U = "x" // 0px line-height and 0 compute to the same used value
			}
			lh = a
		}
		i++
	}
	if i >= len(cs) {
		return nil, "font:no-family"
	}
	fams, why := canonFamilies(cs[i:])
	if why != "" {
		return nil, why
	}
	out := []Atom{lab(style, "style"), lab(variant, "variant"), lab(weight, "weight"), lab(stretch, "stretch"), lab(*size, "size"), lab(lh, "line-height")}
	return append(out, fams...), ""
}

// ---- unicode-range ----

func canonUnicodeRange(d *Decl) ([]Atom, string) {
	raw := strings.TrimSpace(d.RawValue)
	if strings.EqualFold(raw, "initial") {
		return []Atom{{K: 'i', S: "0-10ffff", Lbl: "range:"}}, ""
	}
	type iv struct{ a, b int64 }
	var ivs []iv
	for _, part := range strings.Split(raw, ",") {
		p := strings.TrimSpace(part)
		if len(p) < 3 || (p[0] != 'u' && p[0] != 'U') || p[1] != '+' {
			return nil, "urange:syntax"
		}
		p = p[2:]
		var a, b int64
		if k := strings.IndexByte(p, '-'); k >= 0 {
			x, ok1 := parseHex(p[:k])
			y, ok2 := parseHex(p[k+1:])
			if !ok1 || !ok2 {
				return nil, "urange:syntax"
			}
			a, b = x, y
		} else {
			q := strings.IndexByte(p, '?')
			if q < 0 {
				x, ok := parseHex(p)
				if !ok {
					return nil, "urange:syntax"
				}
				a, b = x, x
			} else {
				if len(p) > 6 || strings.Trim(p[q:], "?") != "" {
					return nil, "urange:syntax"
				}
				var x int64
				if q > 0 {
					var ok bool
					x, ok = parseHex(p[:q])
					if !ok {
						return nil, "urange:syntax"
					}
				}
				n := uint(len(p) - q)
				a = x << (4 * n)
				b = a + (int64(1) << (4 * n)) - 1
			}
		}
		if a > b || b > 0x10FFFF {
			return nil, "urange:invalid-interval"
		}
		ivs = append(ivs, iv{a, b})
	}
	sort.Slice(ivs, func(i, j int) bool { return ivs[i].a < ivs[j].a })
	var merged []iv
	for _, v := range ivs {
		if n := len(merged); n > 0 && v.a <= merged[n-1].b+1 {
			if v.b > merged[n-1].b {
				merged[n-1].b = v.b
			}
		} else {
			merged = append(merged, v)
		}
	}
	var sb strings.Builder
	for i, v := range merged {
		if i > 0 {
			sb.WriteByte(',')
		}
		sb.WriteString(strings.ToLower(big.NewInt(v.a).Text(16) + "-" + big.NewInt(v.b).Text(16)))
	}
	return []Atom{{K: 'i', S: sb.String(), Lbl: "range:"}}, ""
}

func parseHex(s string) (int64, bool) {
	if len(s) == 0 || len(s) > 6 {
		return 0, false
	}
	var v int64
	for i := 0; i < len(s); i++ {
		c := s[i]
		switch {
		case c >= '0' && c <= '9':
			v = v*16 + int64(c-'0')
		case c >= 'a' && c <= 'f':
			v = v*16 + int64(c-'a') + 10
		case c >= 'A' && c <= 'F':
			v = v*16 + int64(c-'A') + 10
		default:
			return 0, false
		}
	}
	return v, true
}

// ---- IE filters: README "shorten MS alpha function" ----

func canonMSFilter(d *Decl, prop string) ([]Atom, string) {
	s := d.RawValue
	if prop == "-ms-filter" {
		cs := components(d.Nodes)
		if len(cs) != 1 || cs[0].T.K != KString {
			return nil, "ms-filter:not-a-string"
		}
		s = cs[0].T.Val
	}
	var b strings.Builder
	for i := 0; i < len(s); i++ {
		if c := s[i]; c != ' ' && c != '\t' && c != '\n' {
			b.WriteByte(c)
		}
	}
	t := b.String()
	const long = "progid:DXImageTransform.Microsoft.Alpha("
	if len(t) >= len(long) && strings.EqualFold(t[:len(long)], long) {
		t = "alpha(" + t[len(long):]
	}
	return []Atom{{K: 'i', S: strings.ToLower(t), Lbl: "filter:"}}, ""
}
