package main

// Declaration generators: one value grammar per property family the minifier special-cases,
// plus arbitrary other declarations.

import (
	"fmt"
	"regexp"
	"strings"
)

// sp: a separator that is whitespace in every tokenizer's eyes.
func (g *Gen) sp() string {
	switch g.r.Intn(14) {
	case 0:
		return "  "
	case 1:
		return "\n"
	case 2:
		return "\t"
	case 3:
		return " /* c */ "
	case 4:
		return "/**/ "
	}
	return " "
}

// osp: optional whitespace
func (g *Gen) osp() string { return g.pick("", "", "", " ", "  ", "\n") }

var reEndsHexEscape = regexp.MustCompile(`\\[0-9a-fA-F]{1,6}$`)

func (g *Gen) join(parts []string) string {
	var b strings.Builder
	for i, p := range parts {
		if i > 0 {
			sep := g.sp()
			// N20: a comment directly after a hex escape, then white space: the minifier writes one
			// space, which the escape swallows
			if !g.known && sep[0] == '/' && reEndsHexEscape.MatchString(parts[i-1]) {
				sep = " "
			}
			b.WriteString(sep)
		}
		b.WriteString(p)
	}
	return b.String()
}

func (g *Gen) commaJoin(parts []string) string {
	var b strings.Builder
	for i, p := range parts {
		if i > 0 {
			b.WriteString(g.osp() + "," + g.osp())
		}
		b.WriteString(p)
	}
	return b.String()
}

func (g *Gen) shuffle(xs []string) []string {
	for i := len(xs) - 1; i > 0; i-- {
		j := g.r.Intn(i + 1)
		xs[i], xs[j] = xs[j], xs[i]
	}
	return xs
}

// subset picks each optional part with probability 1/2, at least min parts, shuffled.
func (g *Gen) subset(min int, opts ...func() string) []string {
	for {
		var out []string
		for _, f := range opts {
			if g.r.Bool() {
				out = append(out, f())
			}
		}
		if len(out) >= min {
			return g.shuffle(out)
		}
	}
}

func (g *Gen) wide() string { return g.randCase(g.pick("inherit", "initial", "unset", "revert")) }

func (g *Gen) calcExpr() string {
	a, b := g.length(), g.length()
	if g.chance(1, 10) { // (N13 = K92 repaired: newer math functions with zero arguments are part of the default stream)
		return g.pick("hypot(0px, 3px)", "abs(0px)", "round(0.0em, 1px)", "mod(0px, 3px)", "sign(0px)")
	}
	switch g.r.Intn(6) {
	case 0:
		return fmt.Sprintf("calc(%s + %s)", a, b)
	case 1:
		return fmt.Sprintf("calc( %s - %s )", a, b)
	case 2:
		return fmt.Sprintf("calc(%s*%s)", a, g.absNumber(false))
	case 3:
		return fmt.Sprintf("calc((%s + %s) / %s)", a, b, g.pick("2", "3", "1.50", "0.5"))
	case 4:
		return fmt.Sprintf("%s(%s, %s)", g.pick("min", "max"), a, b)
	}
	return fmt.Sprintf("clamp(%s, %s + 1px, %s)", a, g.pick("2vw", "5%", "1em"), b)
}

func (g *Gen) varExpr() string {
	switch g.r.Intn(4) {
	case 0:
		return "var(--x)"
	case 1:
		return fmt.Sprintf("var(--gap, %s)", g.length())
	case 2:
		return "env(safe-area-inset-top, 0px)"
	}
	return "var( --Main-Color ," + g.pick(" ", "") + g.color() + ")"
}

// lengthish: a length, sometimes calc()
func (g *Gen) lengthish() string {
	if g.chance(1, 14) {
		return g.calcExpr()
	}
	return g.length()
}

// ---- the property table ----

type propGen struct {
	name string
	w    int
	f    func(g *Gen) string
}

var propTable []propGen
var propTotal int

func init() {
	add := func(w int, f func(g *Gen) string, names ...string) {
		for _, n := range names {
			propTable = append(propTable, propGen{n, w, f})
			propTotal += w
		}
	}
	add(6, (*Gen).vBox4Margin, "margin")
	add(5, (*Gen).vBox4Padding, "padding")
	add(4, (*Gen).vBorderWidth, "border-width")
	add(4, (*Gen).vBorderColor, "border-color")
	add(2, (*Gen).vBorderStyle, "border-style")
	add(3, (*Gen).vBorder, "border")
	add(1, (*Gen).vBorder, "border-top", "border-right", "border-bottom", "border-left", "column-rule")
	add(4, (*Gen).vOutline, "outline")
	add(5, (*Gen).vColor, "color")
	add(3, (*Gen).vColor, "background-color")
	add(1, (*Gen).vColor, "border-left-color", "border-right-color", "border-top-color", "border-bottom-color", "text-decoration-color", "text-emphasis-color", "caret-color", "outline-color")
	add(1, (*Gen).vPaint, "fill", "stroke")
	add(8, (*Gen).vBackground, "background")
	add(6, (*Gen).vBgPositionList, "background-position")
	add(3, (*Gen).vBgRepeatList, "background-repeat")
	add(3, (*Gen).vBgSizeList, "background-size")
	add(1, (*Gen).vBgImage, "background-image")
	add(1, func(g *Gen) string { return g.randCase(g.pick("scroll", "fixed", "local")) }, "background-attachment")
	add(1, func(g *Gen) string { return g.randCase(g.pick("border-box", "padding-box", "content-box")) }, "background-origin", "background-clip")
	add(5, (*Gen).vBoxShadow, "box-shadow")
	add(3, (*Gen).vTextShadow, "text-shadow")
	add(4, (*Gen).vTextDecoration, "text-decoration")
	add(2, (*Gen).vTextEmphasis, "text-emphasis")
	add(6, (*Gen).vFlex, "flex")
	add(3, (*Gen).vFlexBasis, "flex-basis")
	add(1, (*Gen).vFlexNum, "flex-grow", "flex-shrink", "order")
	add(1, func(g *Gen) string {
		return g.join([]string{g.randCase(g.pick("row", "row-reverse", "column", "column-reverse")), g.randCase(g.pick("nowrap", "wrap", "wrap-reverse"))}[:1+g.r.Intn(2)])
	}, "flex-flow")
	add(6, (*Gen).vFont, "font")
	add(4, (*Gen).vFontFamily, "font-family")
	add(3, (*Gen).vFontWeight, "font-weight")
	add(1, func(g *Gen) string { return g.integer() }, "z-index", "orphans", "widows", "counter-increment", "counter-reset")
	add(2, (*Gen).vTransition, "transition", "animation")
	add(1, func(g *Gen) string { return g.time() }, "transition-duration", "animation-delay", "transition-delay")
	add(3, (*Gen).vTransform, "transform")
	add(1, func(g *Gen) string {
		return g.commaJoin([]string{g.pick("auto", "transform", "opacity", "scroll-position", "Contents", "top"), "left"}[:1+g.r.Intn(2)])
	}, "will-change")
	add(2, (*Gen).vFilter, "filter")
	add(1, (*Gen).vMSFilter, "-ms-filter")
	add(1, (*Gen).vQuotes, "quotes")
	add(2, (*Gen).vContent, "content")
	add(4, (*Gen).vUnicodeRange, "unicode-range")
	add(2, (*Gen).vSrc, "src")
	add(3, func(g *Gen) string { return g.lengthish() }, "width", "height", "top", "left", "line-height", "font-size", "letter-spacing", "margin-top", "padding-left", "border-radius", "min-width", "max-height", "text-indent", "word-spacing")
	add(1, func(g *Gen) string { return g.number() }, "opacity", "line-height", "zoom", "*zoom", "flex-grow", "animation-iteration-count", "tab-size", "stroke-width", "fill-opacity")
	add(1, func(g *Gen) string { return g.angle() }, "rotate", "image-orientation", "offset-rotate")
	add(1, func(g *Gen) string { return g.randCase("oblique") + " " + g.angle() }, "font-style")
	add(1, func(g *Gen) string { return g.lengthish() }, "_height", "*width", "-webkit-border-radius", "-moz-box-shadow-x")
	add(1, func(g *Gen) string { return "expression(document.body.clientWidth > 800 ? \"800px\" : \"auto\")" }, "width")
	add(1, func(g *Gen) string { return g.vGridTemplate() }, "grid-template-columns", "grid-template-areas", "grid-area")
	add(1, func(g *Gen) string { return g.url() }, "cursor", "list-style-image", "mask-image", "border-image-source")
	add(2, func(g *Gen) string { return g.url() + g.sp() + g.pick("no-repeat", "auto", "x", "2x") }, "cursor", "-webkit-mask")
	add(10, (*Gen).vUnknown, "")
	add(5, (*Gen).vCustom, "--")
}

func (g *Gen) pickProp() propGen {
	k := g.r.Intn(propTotal)
	for _, p := range propTable {
		if k < p.w {
			return p
		}
		k -= p.w
	}
	return propTable[0]
}

// declaration renders one "name:value[!important]".
func (g *Gen) declaration() string {
	p := g.pickProp()
	name := p.name
	val := p.f(g)
	switch name {
	case "":
		name = g.pick("foo", "x-y", "-webkit-thing", "grid-gap", "gap", "inset", "aspect-ratio", "scroll-margin", "mask", "clip-path", "object-position", "perspective-origin", "transform-origin", "border-spacing", "size", "columns", "stroke-dasharray", "shape-outside", "offset", "translate", "scale")
	case "--":
		name = g.pick("--x", "--Main-Color", "--gap", "--a-b_c", "--0", "--É")
	default:
		if g.chance(1, 10) {
			name = g.randCase(name)
		}
	}
	if g.chance(1, 25) && name[0] != '-' && name[0] != '*' {
		val = g.wide()
	}
	imp := ""
	if g.chance(1, 6) {
		imp = g.pick("!important", " !important", " ! important", "!  important", " !IMPORTANT", "!Important", "\n!important", " !important ")
		if strings.HasPrefix(name, "--") {
			imp = g.pick(" !important", "!important")
		}
	}
	return name + g.pick("", "", "", " ") + ":" + g.osp() + val + imp
}

// ---- boxes ----

func (g *Gen) pool(f func() string, n int) []string {
	k := 1 + g.r.Intn(3)
	base := make([]string, k)
	for i := range base {
		base[i] = f()
	}
	out := make([]string, n)
	for i := range out {
		out[i] = base[g.r.Intn(k)]
	}
	return out
}

func (g *Gen) vBox4Margin() string {
	return g.join(g.pool(func() string {
		if g.chance(1, 8) {
			return g.randCase("auto")
		}
		return g.lengthish()
	}, 1+g.r.Intn(4)))
}

func (g *Gen) vBox4Padding() string {
	return g.join(g.pool(func() string {
		if g.chance(1, 4) { // same value in a different notation
			return g.pick("0", "0px", "0.0em", "1px", "1.0px", "+1px", "01px", "10%", "10.0%", ".5em", "0.5em", "0.50em")
		}
		return g.posLength()
	}, 1+g.r.Intn(4)))
}

func (g *Gen) lineWidth() string {
	if g.chance(1, 3) {
		return g.randCase(g.pick("thin", "medium", "thick"))
	}
	return g.pureLength()
}

func (g *Gen) vBorderWidth() string { return g.join(g.pool(g.lineWidth, 1+g.r.Intn(4))) }

func (g *Gen) lineStyle() string {
	return g.randCase(g.pick("none", "none", "hidden", "dotted", "dashed", "solid", "solid", "double", "groove", "ridge", "inset", "outset"))
}

func (g *Gen) vBorderStyle() string { return g.join(g.pool(g.lineStyle, 1+g.r.Intn(4))) }

func (g *Gen) vBorderColor() string {
	n := 1 + g.r.Intn(4)
	vals := g.pool(g.color, n)
	if !g.known && n > 1 {
		// N02: currentcolor inside a multi-value list becomes "initial"
		for i, v := range vals {
			if strings.EqualFold(v, "currentcolor") {
				vals[i] = "red"
			}
		}
		// all-equal lists collapse to one value, which is fine
	}
	return g.join(vals)
}

func (g *Gen) vBorder() string {
	return g.join(g.subset(1, g.lineWidth, g.lineStyle, g.color))
}

func (g *Gen) vOutline() string {
	return g.join(g.subset(1, g.lineWidth, func() string {
		if g.chance(1, 8) {
			return "auto"
		}
		return g.lineStyle()
	}, func() string {
		if g.chance(1, 5) {
			return g.randCase("invert")
		}
		return g.color()
	}))
}

func (g *Gen) vColor() string { return g.color() }

func (g *Gen) vPaint() string {
	switch g.r.Intn(6) {
	case 0:
		return g.pick("none", "context-fill", "url(#grad)", "url(#a) red")
	}
	return g.color()
}

// ---- backgrounds ----

func (g *Gen) posOffsetVal() string {
	switch g.r.Intn(8) {
	case 0:
		return g.pick("0", "0%", "0px", "0.0%", "-0px")
	case 1:
		return g.pick("50%", "100%", "50.0%", "100.0%", "25%", "75%", "10%", "99%", "1%")
	case 2:
		return g.pick("10.5%", "0.5%", "33.3%", "99.9%", "12.50%", "5%", "20%", "100%") // (N03 = K83 repaired: fractions too)
	case 3:
		return g.pick("-10%", "110%", "200%")
	case 4:
		return g.lengthish()
	}
	return g.length()
}

// posOffsetFar: an offset usable after right/bottom. By default a percentage there is a plain
// integer below 1000 (N03: the minifier reads it with ParseInt after number shortening).
func (g *Gen) posOffsetFar() string {
	for {
		v := g.posOffsetVal()
		return v // (N03 = K83 repaired: any percentage may follow right / bottom)
	}
}

func (g *Gen) vBgPosition() string {
	h := func() string { return g.randCase(g.pick("left", "right", "center")) }
	v := func() string { return g.randCase(g.pick("top", "bottom", "center")) }
	he := func() string { return g.randCase(g.pick("left", "right")) }
	ve := func() string { return g.randCase(g.pick("top", "bottom")) }
	off := g.posOffsetVal
	sp := g.sp
	edgeOff := func(e string) string {
		if strings.EqualFold(e, "right") || strings.EqualFold(e, "bottom") {
			return e + sp() + g.posOffsetFar()
		}
		return e + sp() + off()
	}
	switch g.r.Intn(10) {
	case 0:
		return g.pick(h(), v(), off())
	case 1:
		return h() + sp() + v()
	case 2:
		return v() + sp() + h()
	case 3, 4:
		return off() + sp() + off()
	case 5:
		return g.pick(h()+sp()+off(), off()+sp()+v())
	case 6, 7: // 4 values
		a, b := edgeOff(he()), edgeOff(ve())
		if false { // K20 (right <pct> together with bottom <pct>) is repaired in /repo: the shape is generated by default
			// K20: right <pct> together with bottom <pct>
			la, lb := strings.ToLower(a), strings.ToLower(b)
			if strings.HasPrefix(la, "right") && strings.HasSuffix(la, "%") && strings.HasPrefix(lb, "bottom") && strings.HasSuffix(lb, "%") {
				b = g.randCase("top") + sp() + off()
			}
		}
		if g.r.Bool() {
			return a + sp() + b
		}
		return b + sp() + a
	default: // 3 values
		switch g.r.Intn(4) {
		case 0:
			return edgeOff(he()) + sp() + v()
		case 1:
			return h() + sp() + edgeOff(ve())
		case 2:
			return edgeOff(ve()) + sp() + h()
		}
		return v() + sp() + edgeOff(he())
	}
}

func (g *Gen) layers(f func() string) string {
	n := 1
	if g.chance(1, 4) {
		n = 2 + g.r.Intn(2)
	}
	parts := make([]string, n)
	for i := range parts {
		parts[i] = f()
	}
	return g.commaJoin(parts)
}

// N16: in a background-position list a 3/4-value layer after the first one makes the minifier
// delete a zero from an earlier layer; by default such layers only come first.
func (g *Gen) vBgPositionList() string {
	if true { // (N16 = K95 repaired: 3 / 4-value layers anywhere in the list)
		return g.layers(g.vBgPosition)
	}
	first := true
	return g.layers(func() string {
		for {
			p := g.vBgPosition()
			if first || len(strings.Fields(stripComments(p))) <= 2 {
				first = false
				return p
			}
		}
	})
}

func stripComments(s string) string {
	for {
		i := strings.Index(s, "/*")
		if i < 0 {
			return s
		}
		j := strings.Index(s[i+2:], "*/")
		if j < 0 {
			return s[:i]
		}
		s = s[:i] + " " + s[i+2+j+2:]
	}
}

func (g *Gen) vBgRepeat() string {
	if g.chance(1, 4) {
		return g.randCase(g.pick("repeat-x", "repeat-y"))
	}
	k := func() string {
		return g.randCase(g.pick("repeat", "repeat", "no-repeat", "no-repeat", "space", "round"))
	}
	if g.r.Bool() {
		return k()
	}
	return k() + g.sp() + k()
}

func (g *Gen) vBgRepeatList() string { return g.layers(g.vBgRepeat) }

func (g *Gen) vBgSize() string {
	one := func() string {
		if g.chance(1, 3) {
			return g.randCase("auto")
		}
		return g.posLength()
	}
	switch g.r.Intn(5) {
	case 0:
		return g.randCase(g.pick("cover", "contain"))
	case 1:
		return one()
	}
	return one() + g.sp() + one()
}

// vBgSizeShorthand: N14 - inside the background shorthand a two-value size is minified as if it
// were a position (second 50% dropped, 0 0 removed); by default only sizes that survive that.
func (g *Gen) vBgSizeShorthand() string {
	if g.chance(1, 3) { // (N14 = K93 repaired: every two-value size)
		if g.chance(1, 2) {
			return g.pick("50% 50%", "100% 50%", "0 0", "10px 50%", "0px 0%")
		}
		return g.vBgSize()
	}
	switch g.r.Intn(4) {
	case 0:
		return g.randCase(g.pick("cover", "contain"))
	case 1:
		return g.pick(g.posLength(), g.randCase("auto"))
	case 2:
		return g.pick(g.posLength(), g.randCase("auto")) + g.sp() + g.randCase("auto")
	}
	return g.pick(g.posLength(), g.randCase("auto")) + g.sp() + g.absNumber(false) + g.pick("px", "em", "rem")
}

func (g *Gen) vBgSizeList() string { return g.layers(g.vBgSize) }

func (g *Gen) gradient() string {
	stops := []string{g.color(), g.color() + " " + g.percentage()}
	if g.r.Bool() {
		stops = append(stops, g.color())
	}
	dir := g.pick("", "to right, ", "45deg, ", "0deg, ", "to bottom left, ", "0.25turn, ")
	return g.pick("linear-gradient", "repeating-linear-gradient", "-webkit-linear-gradient", "radial-gradient") + "(" + dir + g.commaJoin(stops) + ")"
}

func (g *Gen) vBgImage() string {
	switch g.r.Intn(5) {
	case 0:
		return g.randCase("none")
	case 1:
		return g.gradient()
	}
	return g.url()
}

func (g *Gen) vBgLayer(final bool) string {
	opts := []func() string{
		g.vBgImage,
		func() string {
			p := g.vBgPosition()
			if g.chance(1, 3) {
				p += g.pick("/", " / ", " /", "/ ") + g.vBgSizeShorthand()
			}
			return p
		},
		g.vBgRepeat,
		func() string { return g.randCase(g.pick("scroll", "scroll", "fixed", "local")) },
		func() string {
			b := func() string { return g.randCase(g.pick("border-box", "padding-box", "padding-box", "content-box")) }
			if g.r.Bool() {
				return b()
			}
			return b() + g.sp() + b()
		},
	}
	if final {
		opts = append(opts, g.color)
	}
	return g.join(g.subset(1, opts...))
}

func (g *Gen) vBackground() string {
	if g.chance(1, 60) { // N21 (panic, repaired in /repo)
		return "padding-box border-box border-box"
	}
	n := 1
	if g.chance(1, 5) {
		n = 2 + g.r.Intn(2)
	}
	parts := make([]string, n)
	for i := range parts {
		parts[i] = g.vBgLayer(i == n-1)
	}
	return g.commaJoin(parts)
}

// ---- shadows ----

func (g *Gen) shadowLen() string {
	if g.chance(1, 3) {
		return g.pick("0", "0px", "0em", "0.0px", "-0")
	}
	for {
		s := g.length()
		if !strings.HasSuffix(s, "%") {
			return s
		}
	}
}

func (g *Gen) vBoxShadow() string {
	if g.chance(1, 12) {
		return g.randCase(g.pick("none", "initial"))
	}
	return g.layers(func() string {
		n := 2 + g.r.Intn(3)
		lens := make([]string, n)
		for i := range lens {
			lens[i] = g.shadowLen()
		}
		parts := []string{g.join(lens)}
		if g.r.Bool() {
			parts = append(parts, g.color())
		}
		if g.chance(1, 3) {
			parts = append(parts, g.randCase("inset"))
		}
		return g.join(g.shuffle(parts))
	})
}

func (g *Gen) vTextShadow() string {
	if g.chance(1, 12) {
		return "none"
	}
	return g.layers(func() string {
		n := 2 + g.r.Intn(2)
		lens := make([]string, n)
		for i := range lens {
			lens[i] = g.shadowLen()
		}
		parts := []string{g.join(lens)}
		if g.chance(2, 3) {
			parts = append(parts, g.color())
		}
		return g.join(g.shuffle(parts))
	})
}

// ---- text-decoration / emphasis ----

func (g *Gen) vTextDecoration() string {
	line := func() string {
		if g.chance(1, 4) {
			return g.randCase("none")
		}
		ls := g.shuffle([]string{"underline", "overline", "line-through"})[:1+g.r.Intn(2)]
		for i := range ls {
			ls[i] = g.randCase(ls[i])
		}
		return g.join(ls)
	}
	return g.join(g.subset(1, line, func() string { return g.randCase(g.pick("solid", "solid", "double", "dotted", "dashed", "wavy")) }, g.color,
		func() string {
			if g.chance(1, 2) {
				return g.pick("auto", "from-font")
			}
			return g.posLength()
		}))
}

func (g *Gen) vTextEmphasis() string {
	style := func() string {
		switch g.r.Intn(4) {
		case 0:
			return g.randCase("none")
		case 1:
			return g.cssString()
		case 2:
			return g.randCase(g.pick("filled", "open")) + g.sp() + g.randCase(g.pick("dot", "circle", "double-circle", "triangle", "sesame"))
		}
		return g.randCase(g.pick("filled", "open", "dot", "circle", "sesame"))
	}
	return g.join(g.subset(1, style, g.color))
}

// ---- flex ----

func (g *Gen) flexFactor() string {
	return g.pick("0", "1", "1", "2", "3", "10", "0.5", ".5", "1.0", "01", "+1", "0.0", "12")
}

func (g *Gen) flexBasisVal() string {
	switch g.r.Intn(6) {
	case 0:
		return g.randCase(g.pick("auto", "auto", "content"))
	case 1:
		return g.pick("0px", "0%", "0em", "0.0px", "0.0%", "0PX")
	case 2:
		return g.calcExpr()
	}
	return g.posLength()
}

func (g *Gen) vFlex() string {
	switch g.r.Intn(9) {
	case 0:
		return g.randCase(g.pick("none", "auto", "initial"))
	case 1:
		return g.flexFactor()
	case 2:
		return g.flexFactor() + g.sp() + g.flexFactor()
	case 3:
		return g.flexFactor() + g.sp() + g.flexBasisVal()
	case 4:
		return g.flexBasisVal()
	case 5:
		return g.pick("0", "1") + g.sp() + g.pick("0", "1") + g.sp() + g.randCase("auto")
	case 6:
		return g.flexFactor() + g.sp() + g.flexFactor() + g.sp() + g.pick("0", "0px", "0%", "0em")
	}
	return g.flexFactor() + g.sp() + g.flexFactor() + g.sp() + g.flexBasisVal()
}

func (g *Gen) vFlexBasis() string {
	if g.chance(1, 6) {
		return g.randCase("initial")
	}
	return g.flexBasisVal()
}

func (g *Gen) vFlexNum() string {
	if g.chance(1, 4) {
		return g.randCase("initial")
	}
	return g.pick("0", "1", "2", "10", "+1", "01")
}

// ---- fonts ----

func (g *Gen) familyName() string {
	switch g.r.Intn(10) {
	case 0, 1:
		return g.randCase(g.pick("serif", "sans-serif", "monospace", "cursive", "fantasy", "system-ui"))
	case 2, 3:
		return g.quote(g.pick("Times New Roman", "Helvetica Neue", "Arial", "Segoe UI", "DejaVu Sans Mono", "Font Awesome 5 Free", "Arial Black", "a  b", "1st Font", "Foo-Bar", "it's", "Ünicode", "-apple-system", "A\"B", "x,y", "Courier New", "ARIAL"))
	case 4:
		return g.pick("Times New Roman", "Helvetica Neue", "Segoe UI", "Arial Black", "Courier New")
	case 5:
		if g.known { // K23
			return g.quote(g.pick("inherit", "serif", "initial", "sans-serif", "monospace", "default", "unset", "Serif"))
		}
		return g.quote("Georgia")
	case 6:
		return g.pick("-apple-system", "BlinkMacSystemFont", "Roboto", "Ubuntu")
	}
	return g.pick("Arial", "Helvetica", "Verdana", "Georgia", "Tahoma", "arial", "ARIAL", "Menlo", "Consolas")
}

func (g *Gen) vFontFamily() string {
	n := 1 + g.r.Intn(4)
	parts := make([]string, n)
	for i := range parts {
		parts[i] = g.familyName()
	}
	return g.commaJoin(parts)
}

func (g *Gen) vFontWeight() string {
	return g.pick(g.randCase("normal"), g.randCase("bold"), "bolder", "lighter", "400", "700", "100", "900", "550", "400.0", "1", "1000", "7e2")
}

func (g *Gen) fontSize() string {
	switch g.r.Intn(5) {
	case 0:
		return g.randCase(g.pick("xx-small", "x-small", "small", "medium", "large", "x-large", "xx-large", "larger", "smaller"))
	case 1:
		return g.pick("0", "0px", "100%", "1em", "12px", "1.0em", ".8em", "12PX")
	}
	return g.posLength()
}

func (g *Gen) vFont() string {
	if g.chance(1, 14) {
		return g.randCase(g.pick("caption", "icon", "menu", "message-box", "small-caption", "status-bar"))
	}
	pre := g.subset(0,
		func() string { return g.randCase(g.pick("italic", "oblique", "normal")) },
		func() string { return g.randCase(g.pick("small-caps", "normal")) },
		func() string {
			return g.pick(g.randCase("bold"), g.randCase("normal"), "400", "700", "bolder", "lighter", "100", "900", "550")
		},
		func() string { return g.randCase(g.pick("condensed", "expanded", "normal", "ultra-condensed")) },
	)
	s := g.join(pre)
	if s != "" {
		s += g.sp()
	}
	s += g.fontSize()
	if g.known && g.chance(1, 12) { // N17
		return s + " " + g.pick("-foo bar", "-apple system, serif", "-x y z")
	}
	if g.chance(1, 2) {
		s += g.pick("/", " / ", "/ ", " /") + g.pick(g.randCase("normal"), "1", "1.5", "1.50", "0", "120%", "20px", "0px", "2em", "400")
	}
	return s + g.sp() + g.vFontFamily()
}

// ---- misc ----

func (g *Gen) vTransition() string {
	return g.layers(func() string {
		return g.join(g.subset(1,
			func() string { return g.pick("all", "opacity", "transform", "none", "Fade-In", "slide") },
			g.time,
			func() string {
				return g.pick("ease", "linear", "ease-in-out", "cubic-bezier(0.25, 0.10, .25, 1.0)", "steps(4, end)", "cubic-bezier(.4,0,.2,1)")
			},
		))
	})
}

func (g *Gen) vTransform() string {
	n := 1 + g.r.Intn(3)
	parts := make([]string, n)
	for i := range parts {
		switch g.r.Intn(7) {
		case 0:
			parts[i] = "translate(" + g.length() + g.osp() + "," + g.osp() + g.length() + ")"
		case 1:
			parts[i] = g.pick("rotate", "rotateZ", "skewX") + "(" + g.angle() + ")"
		case 2:
			parts[i] = "scale(" + g.number() + ")"
		case 3:
			parts[i] = "translateX(" + g.lengthish() + ")"
		case 4:
			parts[i] = "matrix(1.0, 0, 0.0, 1, " + g.number() + ", " + g.number() + ")"
		case 5:
			parts[i] = "translate3d(0px,0,0)"
		default:
			parts[i] = g.pick("rotate(0)", "rotate(0deg)", "skew(0, 0)", "perspective(500px)", "scale3d(1, 1, 1)", "translate(-50%, -50%)")
		}
	}
	if g.r.Bool() {
		return strings.Join(parts, g.sp())
	}
	return strings.Join(parts, "")
}

func (g *Gen) vFilter() string {
	switch g.r.Intn(6) {
	case 0:
		return "progid:DXImageTransform.Microsoft.Alpha(Opacity=" + g.pick("50", "80", "0", "100") + ")"
	case 1:
		return "progid:DXImageTransform.Microsoft.gradient(startColorstr='#80000000', endColorstr='#80000000')"
	case 2:
		return "alpha(opacity=" + g.pick("50", "80") + ")"
	case 3:
		return "progid:DXImageTransform.Microsoft.Alpha(" + g.pick("opacity", "OPACITY") + "=50)"
	}
	return g.join([]string{"blur(" + g.pureLength() + ")", "drop-shadow(" + g.shadowLen() + " " + g.shadowLen() + " " + g.color() + ")", "hue-rotate(" + g.angle() + ")", "brightness(" + g.percentage() + ")"}[:1+g.r.Intn(4)])
}

func (g *Gen) vMSFilter() string {
	q := g.pick("\"", "'")
	return q + g.pick("progid:DXImageTransform.Microsoft.Alpha(Opacity=50)", "progid:DXImageTransform.Microsoft.Alpha(Opacity=5)", "alpha(opacity=50)", "progid:DXImageTransform.Microsoft.Blur(pixelradius=2)") + q
}

func (g *Gen) vQuotes() string {
	if g.chance(1, 5) {
		return g.pick("none", "auto")
	}
	return g.join([]string{g.cssString(), g.cssString(), g.cssString(), g.cssString()}[:2*(1+g.r.Intn(2))])
}

func (g *Gen) vContent() string {
	switch g.r.Intn(6) {
	case 0:
		return g.pick("none", "normal", "open-quote", "counter(item)", "counter(item) \". \"", "attr(data-x)", "counters(a, \".\")")
	case 1:
		return g.url()
	case 2:
		return g.cssString() + g.sp() + g.cssString()
	}
	return g.cssString()
}

func (g *Gen) urange() string {
	hex := func(max int) string {
		v := g.r.Intn(max + 1)
		switch g.r.Intn(4) {
		case 0:
			return fmt.Sprintf("%x", v)
		case 1:
			return fmt.Sprintf("%04X", v)
		case 2:
			return fmt.Sprintf("%06x", v)
		}
		return fmt.Sprintf("%X", v)
	}
	u := g.pick("U+", "U+", "u+")
	switch g.r.Intn(8) {
	case 0:
		return u + g.pick("0-7F", "0000-00FF", "0-10FFFF", "000000-10ffff", "100-17F", "0-FF", "80-FF", "0131", "2000-206F", "20AC", "FEFF", "FFFD", "10000-10FFFF")
	case 1:
		return u + g.pick("4??", "??", "?", "1??", "00??", "1????", "10????", "0?", "F?", "2???", "????", "?????", "??????")
	case 2, 3:
		a := g.r.Intn(0x3000)
		b := a + g.r.Intn(0x200)
		return fmt.Sprintf("%s%X-%X", u, a, b)
	case 4:
		a := g.r.Intn(0x10FFFF)
		return fmt.Sprintf("%s%x-%x", u, a, a+g.r.Intn(0x10FFFF-a+1))
	case 5: // small numbers: adjacent and overlapping ranges are likely
		a := g.r.Intn(64)
		return fmt.Sprintf("%s%X-%X", u, a, a+g.r.Intn(16))
	case 6:
		return u + fmt.Sprintf("%X", g.r.Intn(80))
	}
	return u + hex(0x10FFFF)
}

func fullRange(u string) bool {
	c, why := canonUnicodeRange(&Decl{RawValue: u})
	return why == "" && c[0].S == "0-10ffff"
}

func (g *Gen) vUnicodeRange() string {
	n := 1 + g.r.Intn(5)
	parts := make([]string, n)
	for i := range parts {
		parts[i] = g.urange()
	}
	// N15: the whole code space next to other ranges is printed as "initial" inside a list
	for false && !g.known && n > 1 && fullRange(strings.Join(parts, ",")) { // (N15 = K94 repaired: no longer avoided)
		parts[g.r.Intn(n)] = g.pick("U+41", "U+100-1FF", "u+2??")
	}
	return g.commaJoin(parts)
}

func (g *Gen) vSrc() string {
	one := func() string {
		switch g.r.Intn(4) {
		case 0:
			return "local(" + g.pick("\"Foo Bar\"", "'Foo'", "Foo Bar", "\"Foo-Bar\"") + ")"
		case 1:
			return g.url()
		}
		return g.url() + g.sp() + "format(" + g.pick("\"woff2\"", "'woff'", "\"embedded-opentype\"", "truetype") + ")"
	}
	return g.layers(one)
}

func (g *Gen) vGridTemplate() string {
	return g.pick("[full-start] minmax(1em, 1fr) [main-start] minmax(0, 40em) [main-end]", "repeat(3, 1fr)", "\"a a\" \"b c\"", "1 / 2 / 3 / 4", "repeat(auto-fill, minmax(100.0px, 1fr))", "1fr 2fr", "0fr 10.0px", "a / span 2", "[a] 0px [b]")
}

// unknown properties: random component values
func (g *Gen) component() string {
	switch g.r.Intn(22) {
	case 0, 1:
		return g.number()
	case 2, 3:
		return g.length()
	case 4:
		return g.percentage()
	case 5:
		return g.otherDim()
	case 6:
		return g.color()
	case 7:
		return g.pick("auto", "none", "Foo", "bar-baz", "_x", "a1", "RED", "Transparent", "inherit", "-x", "é")
	case 8:
		return g.cssString()
	case 9:
		return g.url()
	case 10:
		return g.calcExpr()
	case 11:
		return g.varExpr()
	case 12:
		return "fn(" + g.length() + g.osp() + "," + g.osp() + g.number() + g.sp() + g.pick("a", "1", "#fff") + ")"
	case 13:
		return g.pick("/", ",", "/", ",")
	case 14:
		return g.colorFunction()
	case 15:
		return g.pick("#id", "#FFF", "#AbCdEf", "#12", "#abcde")
	case 16:
		return g.pick("[a b]", "(1 + 2)", "[ x ]", "( a )")
	case 17:
		return g.time()
	case 18:
		return g.angle()
	case 19:
		if g.noExp {
			return g.pick("1.5x", "2dppx")
		}
		return g.pick("1.5x", "2dppx", "1e3px", "1E+3PX", "+.5e-2em")
	case 20:
		return g.pick("/ *", "/ * x", "1 / *", "/") // N10 (repaired in /repo)
	}
	return g.weirdToken()
}

// weirdToken: legal but unusual tokens (IE hacks, escapes, odd delimiters).
func (g *Gen) weirdToken() string {
	switch g.r.Intn(12) {
	case 0:
		return g.pick("U+26", "u+0-7f", "U+4??", "u+1F600")
	case 1:
		return g.pick("r\\65 d", "\\31 23", "a\\+b", "\\72 ed", "R\\45 D", "\\-x", "a\\ b", "\\0000e9")
	case 2:
		if g.known { // N18: units that are not made of letters only
			return g.pick("1E1E1", "0\\9", "10px\\9", "0px\\9", "1e3px\\9", "1.50em\\9", "0.50e5e5", "1px2", "01x-y", "1.0a_b", "0a-b", "00.5p\\78")
		}
		return g.pick("red\\9", "\\9", "a\\0/")
	case 3:
		return g.pick("red\\9", "\\0/", "!ie", "\\9")
	case 4:
		return g.pick("#\\31 23", "#a\\62 c", "#-x", "#--", "#_")
	case 5:
		return g.pick("--x", "--", "-", "+", "-->", "<!--", "%", "&", "~", "|", "||", "^", "$", "*", "<", ">", "?", "@foo", "@")
	case 6:
		return g.pick("a ~= b", "a|=b", "x ^= y", "a$=b", "a *= b", "a=b", "a = b", "a:b", "a : b")
	case 7:
		return g.pick("1.", "1.a", ".a", "1..2", "1.5.5", "+-1", "-+1", "--1", "1-", "1+", "1 -1", "1 - 1", "1 +1", "1 + 1", "1-1", "1+1", "a -1", "a-1", "a - 1", "a+1", "a +1")
	case 8:
		if g.noExp {
			return g.pick("1ex", "1em", "1x")
		}
		return g.pick("1e", "1e+", "1e-", "1ex", "1em", "1e1x", "0e0", "0e", "00e1", "1e0", "1.0e0", ".0e-0", "1e+0px")
	case 9:
		return g.pick("'a\\'b'", "\"a\\\"b\"", "'\\27'", "\"\\22\"", "'a\\\nb'", "\"\\\n\"", "\"\\\\\"")
	case 10:
		return g.pick("a!b", "a ! b", "!a", "a,,b", "a//b", "a / / b", ",a", "a/")
	}
	if g.known && g.chance(1, 3) { // N19: the sign is the only separator
		return g.pick("calc(1px+2px)", "fn(1+2)", "translate(1px+2px)")
	}
	return g.pick("calc(1px +2px)", "calc(1px - -2px)", "calc(-1 * (2px + 3px))", "calc( (1px) )", "CALC(1PX + 2Px)", "calc(1e1px + 0px)", "calc(0px)", "calc(0 * 1px)", "calc(100%/3 - 2*1em - 2*1px)")
}

func (g *Gen) vUnknown() string {
	n := 1 + g.r.Intn(5)
	parts := make([]string, 0, n)
	for i := 0; i < n; i++ {
		parts = append(parts, g.component())
	}
	if !g.known {
		for i := range parts {
			// N10: "/" followed by "*" opens a comment once the white space between them is dropped
			// (N10 — "/" followed by "*" — is repaired in /repo and generated)
			// a hex escape owns the white space character that follows it: give it one of its own
			if reEndsHexEscape.MatchString(parts[i]) {
				parts[i] += " "
			}
		}
	}
	// separators must not start or end the value
	for len(parts) > 0 && (parts[0] == "/" || parts[0] == ",") {
		parts = parts[1:]
	}
	for len(parts) > 0 && (parts[len(parts)-1] == "/" || parts[len(parts)-1] == ",") {
		parts = parts[:len(parts)-1]
	}
	if len(parts) == 0 {
		return g.length()
	}
	return g.join(parts)
}

func (g *Gen) vCustom() string {
	switch g.r.Intn(8) {
	case 0:
		return g.pick("", " ", "  ")
	case 1:
		return "{ a: b; c: d }"
	case 2:
		return g.pick("0px", "0.50em", "+1.0", "#FF0000", "RED", "rgb(255, 0, 0)", "1e3", "0.0", "calc( 1px + 2px )", "\"str\"", "url( a.png )", "a  b", "[x]", "(0px)", "!x")
	case 3:
		return g.vUnknown() + g.pick("", " ", "  ")
	case 4:
		return g.color()
	case 5:
		if g.known { // N06
			return g.pick("a/**/b", "1/**/2", "/**/a/**/b")
		}
		return "/* c */" + g.pick(" 1px", "a /**/b", " x /* y */ z")
	}
	return g.length()
}
