package main

// Stylesheet level generators: selectors, at-rules, nesting, inline lists, malformed mutations.

import (
	"fmt"
	"strings"
)

func (g *Gen) typeName() string {
	n := g.pick("div", "a", "p", "span", "h1", "li", "body", "html", "svg", "input", "td", "clipPath", "linearGradient", "foreignObject", "x-widget", "*")
	if g.chance(1, 12) {
		return g.pick("svg|", "*|", "|") + n
	}
	if n != "*" && g.chance(1, 8) {
		return strings.ToUpper(n)
	}
	return n
}

func (g *Gen) attrSel() string {
	name := g.pick("href", "type", "data-x", "lang", "class", "title", "viewBox", "DATA-Y", "i", "aria-label")
	o, c := g.pick("[", "[", "[ "), g.pick("]", "]", " ]")
	if g.chance(1, 4) {
		return o + name + c
	}
	op := g.pick("=", "=", "~=", "|=", "^=", "$=", "*=")
	var val string
	switch g.r.Intn(5) {
	case 0:
		val = g.pick("text", "en", "a", "Foo", "x-y", "_b", "i", "s")
	case 1:
		val = g.quote(g.pick("text", "en", "Foo", "x-y", "abc", "i"))
	default:
		val = g.quote(g.pick("a b", "1", "http://", ".pdf", "", "a]b", "it's", "x\"y", "-", "--x", "-1", "a.b", "é", "a,b", "{", "1a"))
	}
	sp := g.pick("", "", " ")
	flag := ""
	if g.chance(1, 5) {
		flag = g.pick(" i", " I", " i ")
		if strings.HasPrefix(val, "\"") || strings.HasPrefix(val, "'") {
			flag = g.pick(" i", "i", " I")
		}
		if g.known && g.chance(1, 2) {
			flag = g.pick(" s", " S") // N05
		}
	}
	return o + name + sp + op + sp + val + flag + c
}

func (g *Gen) pseudo() string {
	switch g.r.Intn(16) {
	case 0:
		return ":not(" + g.osp() + g.compound() + g.osp() + ")"
	case 1:
		return ":nth-child(" + g.pick("2n+1", "2n + 1", "odd", "EVEN", "3", "-n+3", "n", "2N+1", " 2n+1 ", "2n -1", "+3n", "2n+0", "n + 2") + ")"
	case 2:
		return g.pick(":nth-of-type(2)", ":nth-last-child(2n)", ":nth-last-of-type(odd)")
	case 3:
		return ":lang(" + g.pick("en", "EN", "fr-CA", "\"de\"") + ")"
	case 4:
		return g.pick("::before", "::after", ":before", "::BEFORE", "::first-line", "::placeholder", "::selection", "::-webkit-scrollbar", "::-moz-focus-inner")
	case 5:
		return g.pick(":is", ":where", ":matches", ":-webkit-any") + "(" + g.compound() + g.osp() + "," + g.osp() + g.compound() + ")"
	case 6:
		return ":has(" + g.pick("> ", "", "+ ", "~ ") + g.compound() + ")"
	case 7:
		return g.pick("::part(label)", "::part(Label)", "::slotted(span)", ":host(.dark)", ":host", "::highlight(Name)", ":state(Checked)", ":dir(RTL)")
	}
	return g.pick(":hover", ":focus", ":HOVER", ":first-child", ":last-child", ":active", ":visited", ":checked", ":disabled", ":root", ":empty", ":Focus-Within", ":link", ":target")
}

func (g *Gen) compound() string {
	var b strings.Builder
	if g.chance(3, 5) {
		b.WriteString(g.typeName())
	}
	n := g.r.Intn(3)
	if b.Len() == 0 && n == 0 {
		n = 1
	}
	for i := 0; i < n; i++ {
		switch g.r.Intn(8) {
		case 0, 1, 2:
			b.WriteString("." + g.pick("foo", "Bar", "a-b", "_x", "btn-primary", "COL", "é", "\\31 0", "a\\:b", "-x", "i", "s"))
		case 3:
			b.WriteString("#" + g.pick("main", "A1", "x-y", "Foo", "abc", "fff", "F00"))
		case 4:
			b.WriteString(g.attrSel())
		default:
			b.WriteString(g.pseudo())
		}
	}
	return b.String()
}

func (g *Gen) complexSelector() string {
	n := 1 + g.r.Intn(3)
	var b strings.Builder
	for i := 0; i < n; i++ {
		if i > 0 {
			switch g.r.Intn(6) {
			case 0:
				b.WriteString(g.pick(">", " > ", "> ", " >"))
			case 1:
				b.WriteString(g.pick("+", " + ", "+ "))
			case 2:
				b.WriteString(g.pick("~", " ~ ", " ~"))
			case 3:
				b.WriteString(g.pick("  ", "\n", " /* c */ ", "\t"))
			default:
				b.WriteString(" ")
			}
		}
		b.WriteString(g.compound())
	}
	return b.String()
}

func (g *Gen) selectorList() string {
	if g.known && g.chance(1, 40) { // N06: a comment is the only separator between two identifiers
		return g.pick("div/**/p", "a/* c */b .x", ":not(a/**/b)")
	}
	n := 1
	if g.chance(1, 3) {
		n = 2 + g.r.Intn(2)
	}
	parts := make([]string, n)
	for i := range parts {
		parts[i] = g.complexSelector()
	}
	return strings.Join(parts, g.pick(",", ", ", " , ", ",\n"))
}

func (g *Gen) declBlock(n int) string {
	var b strings.Builder
	b.WriteString("{" + g.osp())
	for i := 0; i < n; i++ {
		if g.chance(1, 20) {
			b.WriteString("/* note */")
		}
		b.WriteString(g.declaration())
		if i < n-1 || g.chance(1, 2) {
			b.WriteString(g.osp() + ";" + g.pick("", "", " ", "\n  ", ";"))
		}
	}
	b.WriteString(g.osp() + "}")
	return b.String()
}

func (g *Gen) styleRule() string {
	return g.selectorList() + g.osp() + g.declBlock(g.r.Intn(5))
}

func (g *Gen) mediaQuery() string {
	feat := func() string {
		return "(" + g.osp() + g.pick("min-width", "max-width", "min-height", "orientation", "min-resolution", "-webkit-min-device-pixel-ratio", "prefers-color-scheme", "hover", "width", "aspect-ratio") + g.pick(":", ": ", " : ") +
			g.pick("100px", "0px", "0", "40.0em", "landscape", "2dppx", "192dpi", "1.5", "dark", "hover", "16/9", "1e3px", "calc(100px + 1em)") + g.osp() + ")"
	}
	switch g.r.Intn(8) {
	case 0:
		return g.pick("screen", "print", "all", "SCREEN", "only screen", "not print")
	case 1:
		return feat()
	case 2:
		return g.pick("screen", "only screen", "not all") + " and " + feat()
	case 3:
		return feat() + " and " + feat()
	case 4:
		return "screen and " + feat() + g.pick(",", ", ", " , ") + "print and " + feat()
	case 5:
		return g.pick("(width >= 600px)", "(400px <= width <= 700px)", "(min-width:100px) and (max-width:200px)", "not (hover)", "(hover) or (pointer: fine)")
	case 6:
		return feat() + g.pick(",", ", ") + feat()
	}
	return "screen"
}

func (g *Gen) supportsCond() string {
	d := func() string {
		return "(" + g.osp() + g.pick("display:grid", "display: flex", "--x: 0px", "color:RED", "margin: 0px 0px", "position:sticky", "transform: rotate(0deg)") + g.osp() + ")"
	}
	switch g.r.Intn(5) {
	case 0:
		return d()
	case 1:
		return "not " + d()
	case 2:
		return d() + " and " + d()
	case 3:
		return d() + " or (" + d() + " and " + d() + ")"
	}
	return g.pick("selector(:focus-visible)", "(display:grid) and (not (display:inline-grid))", "not (not (a:b))")
}

func (g *Gen) ruleList(depth int) string {
	n := 1 + g.r.Intn(3)
	var b strings.Builder
	for i := 0; i < n; i++ {
		b.WriteString(g.osp())
		if depth < 2 && g.chance(1, 5) {
			b.WriteString(g.blockAtRule(depth + 1))
		} else {
			b.WriteString(g.styleRule())
		}
	}
	b.WriteString(g.osp())
	return b.String()
}

func (g *Gen) fontFace() string {
	ds := g.subset(1,
		func() string { return "font-family:" + g.osp() + g.familyName() },
		func() string { return "src:" + g.osp() + g.vSrc() },
		func() string { return "unicode-range:" + g.osp() + g.vUnicodeRange() },
		func() string { return "font-weight:" + g.vFontWeight() },
		func() string { return "font-display: swap" },
		func() string { return "font-style:" + g.pick("normal", "italic", "oblique 10deg 20deg") },
	)
	return g.pick("@font-face", "@FONT-FACE", "@font-face ") + "{" + g.osp() + strings.Join(ds, g.osp()+";"+g.osp()) + g.pick("", ";", " ; ") + "}"
}

func (g *Gen) keyframes() string {
	name := g.pick("fade", "Slide-In", "spin", "\"quoted\"", "x1")
	at := g.pick("@keyframes", "@-webkit-keyframes", "@KEYFRAMES", "@-moz-keyframes")
	n := 1 + g.r.Intn(3)
	var b strings.Builder
	for i := 0; i < n; i++ {
		sel := g.pick("from", "to", "0%", "50%", "100%", "0%,100%", "0%, 50%", "33.3%", "from, to", "12.50%")
		b.WriteString(g.osp() + sel + g.osp() + g.declBlock(1+g.r.Intn(2)))
	}
	return at + " " + name + g.osp() + "{" + b.String() + g.osp() + "}"
}

func (g *Gen) opaqueAtRule() string {
	switch g.r.Intn(7) {
	case 0:
		return "@layer " + g.pick("base", "base.sub", "a") + " {" + g.osp() + "a{color:red}" + g.osp() + ".b { margin : 0px }" + g.osp() + "}"
	case 1:
		return "@container " + g.pick("(min-width: 400px)", "card (width > 30em)") + "{ .a{" + g.declaration() + "} }"
	case 2:
		return "@font-feature-values Font One { @styleset { nice-style: 12; } }"
	case 3:
		return "@property --x { syntax: '<length>'; inherits: false; initial-value: 0px }"
	case 4:
		return "@counter-style thumbs { system: cyclic; symbols: \"*\"; suffix: \" \" }"
	case 5:
		if g.known { // N06: comment is the only separator
			return "@unknown { " + g.pick("a/**/b", "1/**/2", "x/* c */y 1px", "#a/**/b") + " }"
		}
		return "@unknown { a /* c */ b ; c:d }"
	}
	return "@-ms-viewport{width:device-width}"
}

func (g *Gen) blockAtRule(depth int) string {
	switch g.r.Intn(12) {
	case 0, 1, 2, 3:
		return g.pick("@media", "@media", "@MEDIA", "@Media") + g.pick(" ", " ", "  ", "\n") + g.mediaQuery() + g.osp() + "{" + g.ruleList(depth) + "}"
	case 4, 5:
		return g.pick("@supports", "@SUPPORTS") + " " + g.supportsCond() + g.osp() + "{" + g.ruleList(depth) + "}"
	case 6, 7:
		return g.fontFace()
	case 8:
		return g.keyframes()
	case 9:
		pre := g.pick("", " :first", " :left", " toc", " :FIRST", ":right")
		return "@page" + pre + g.osp() + "{" + g.osp() + g.pick("margin:", "margin :") + g.vBox4Margin() + g.pick("", ";", ";size:A4 landscape", "; size: 8.5in 11.0in;") + g.osp() + "}"
	case 10:
		return "@-moz-document url-prefix() {" + g.ruleList(depth) + "}"
	}
	return g.opaqueAtRule()
}

func (g *Gen) statementAtRule() string {
	switch g.r.Intn(6) {
	case 0:
		return "@import " + g.pick("url(foo.css)", "url( foo.css )", "url( \"foo.css\" )", "url( 'foo.css' )", "url(x)", "url( y )", "url()", "url(\"foo.css\")", "url('a b.css')", "\"foo.css\"", "'foo.css'", "url(http://example.com/very/long/path/style.css)", "URL(foo-bar-baz.css)", "url(a\\)b.css)", "url(\"a\\\"b.css\")") + g.pick("", "", " screen", " print, screen", " screen and (orientation:landscape)", " supports(display:grid) screen", " layer(base)") + g.osp() + ";"
	case 1:
		return "@namespace " + g.pick("svg url(http://www.w3.org/2000/svg)", "\"http://www.w3.org/1999/xhtml\"", "Foo \"urn:x\"") + ";"
	case 2:
		return "@layer " + g.pick("a, b", "base", "a.b , c") + ";"
	}
	return "@import " + g.quote("theme.css") + ";"
}

// Stylesheet renders a whole stylesheet.
func (g *Gen) Stylesheet() string {
	var b strings.Builder
	if g.chance(1, 12) {
		b.WriteString(g.pick("@charset \"utf-8\";", "@charset \"UTF-8\";", "@CHARSET 'iso-8859-1';"))
	}
	if g.chance(1, 6) {
		b.WriteString(g.statementAtRule())
	}
	n := 1 + g.r.Intn(4)
	for i := 0; i < n; i++ {
		b.WriteString(g.pick("", "", "\n", " ", "\n\n"))
		switch g.r.Intn(14) {
		case 0, 1, 2:
			b.WriteString(g.blockAtRule(0))
		case 3:
			b.WriteString(g.pick("/* comment */", "/*! license */", "/**/", "<!--", "-->", "/*# sourceMappingURL=a.css.map */"))
			b.WriteString(g.styleRule())
		default:
			b.WriteString(g.styleRule())
		}
	}
	b.WriteString(g.pick("", "", "\n"))
	return b.String()
}

// OneRule renders a stylesheet with a single rule and a single declaration (cheap, dense cases).
func (g *Gen) OneRule() string {
	return g.pick("a", ".x", "div p") + "{" + g.declaration() + "}"
}

// InlineList renders a style attribute value.
func (g *Gen) InlineList() string {
	n := 1 + g.r.Intn(4)
	var b strings.Builder
	b.WriteString(g.pick("", "", " ", ";"))
	for i := 0; i < n; i++ {
		b.WriteString(g.declaration())
		if i < n-1 || g.chance(1, 3) {
			b.WriteString(g.osp() + ";" + g.pick("", " ", ";", "\n"))
		}
	}
	return b.String()
}

// Malformed derives broken input from a valid one.
func (g *Gen) Malformed(base string) string {
	b := []byte(base)
	specials := "{}()[]\"'\\;:!@/*#.,+-<>%&|~^$=\x00\n\r\f\t uU?eE0123456789"
	k := 1 + g.r.Intn(4)
	for i := 0; i < k && len(b) > 0; i++ {
		p := g.r.Intn(len(b))
		switch g.r.Intn(8) {
		case 0: // delete a byte
			b = append(b[:p], b[p+1:]...)
		case 1: // insert a special
			b = append(b[:p], append([]byte{specials[g.r.Intn(len(specials))]}, b[p:]...)...)
		case 2: // replace
			b[p] = specials[g.r.Intn(len(specials))]
		case 3: // truncate
			b = b[:p]
		case 4: // duplicate a slice
			q := p + g.r.Intn(len(b)-p+1)
			b = append(b[:q], append(append([]byte{}, b[p:q]...), b[q:]...)...)
		case 5: // delete a slice
			q := p + g.r.Intn(min(len(b)-p, 12)+1)
			b = append(b[:p], b[q:]...)
		case 6: // insert a fragment
			frag := g.pick("/*", "*/", "url(", "\\", "!important", "@media", "{{", "}}", "--", "-->", "<!--", "\\\n", "\"\n", "U+", "1e", "1e999999999", ".", "--x:", "rgb(", "calc((", "\xff\xfe", "é", ";;", "!ie", "\\9")
			b = append(b[:p], append([]byte(frag), b[p:]...)...)
		default: // random byte
			b[p] = byte(g.r.Intn(256))
		}
	}
	return string(b)
}

func min(a, b int) int {
	if a < b {
		return a
	}
	return b
}

var _ = fmt.Sprint
