package main

// Generators for primitive values: numbers in every notation, dimensions, colours, strings, urls.

import (
	"encoding/base64"
	"fmt"
	"strings"

	"verifharness/internal/vh"
)

type Gen struct {
	r      *vh.Rand
	known  bool // allow shapes of known defects
	noExp  bool // no exponent notation (KeepCSS2 runs; N01)
	avoid9 bool // K29: no leading 9s when KeepCSS2 and Precision>0
}

func (g *Gen) pick(xs ...string) string { return xs[g.r.Intn(len(xs))] }
func (g *Gen) chance(p, q int) bool     { return g.r.Chance(p, q) }

// randCase randomly changes the ASCII case of a keyword.
func (g *Gen) randCase(s string) string {
	switch g.r.Intn(8) {
	case 0:
		return strings.ToUpper(s)
	case 1:
		b := []byte(s)
		for i := range b {
			if g.r.Bool() && b[i] >= 'a' && b[i] <= 'z' {
				b[i] -= 32
			}
		}
		return string(b)
	case 2:
		if len(s) > 0 && s[0] >= 'a' && s[0] <= 'z' {
			return string(s[0]-32) + s[1:]
		}
	}
	return s
}

// digits returns n random digits, first non-zero.
func (g *Gen) digits(n int) string {
	b := make([]byte, n)
	for i := range b {
		b[i] = byte('0' + g.r.Intn(10))
	}
	if n > 0 && b[0] == '0' {
		b[0] = byte('1' + g.r.Intn(9))
	}
	if g.avoid9 && n > 0 && b[0] == '9' {
		b[0] = byte('1' + g.r.Intn(8))
	}
	return string(b)
}

// absNumber: an unsigned number in a random notation. zero: force value zero.
func (g *Gen) absNumber(zero bool) string {
	var ip, fp string
	if zero {
		ip = g.pick("0", "0", "00", "")
		fp = g.pick("", "", "0", "00", "000")
		if ip == "" && fp == "" {
			ip = "0"
		}
	} else {
		switch g.r.Intn(10) {
		case 0, 1, 2:
			ip = g.digits(1 + g.r.Intn(3))
		case 3:
			ip = g.pick("1", "10", "100", "1000", "10000", "1000000", "255", "50", "99", "999", "12", "400", "700")
		case 4, 5:
			ip = g.pick("0", "", "1", g.digits(1+g.r.Intn(2)))
			fp = g.pick("5", "25", "05", "005", "0001", "125", "75", "333", "50", "500", g.digits(1+g.r.Intn(4)), "0"+g.digits(1+g.r.Intn(2)))
		case 6:
			ip = g.digits(1 + g.r.Intn(9))
		case 7:
			ip = g.pick("", "0")
			fp = strings.Repeat("0", g.r.Intn(8)) + g.digits(1+g.r.Intn(3))
		case 8:
			ip = g.digits(1+g.r.Intn(3)) + strings.Repeat("0", g.r.Intn(7))
		default:
			ip = g.digits(1 + g.r.Intn(2))
			fp = g.digits(1+g.r.Intn(3)) + g.pick("", "0", "00")
		}
		if g.avoid9 {
			ip = strings.ReplaceAll(ip, "9", "8")
			fp = strings.ReplaceAll(fp, "9", "8")
		}
		if g.chance(1, 8) && ip != "" {
			ip = g.pick("0", "00") + ip
		}
		if ip == "" && fp == "" {
			ip = "1"
		}
	}
	s := ip
	if fp != "" {
		s += "." + fp
	}
	if !g.noExp && g.chance(1, 6) {
		e := g.pick("e", "E") + g.pick("", "", "+", "-") + g.pick("0", "1", "2", "3", "5", "00", "02", "10", "12", "20")
		s += e
	}
	return s
}

func (g *Gen) sign() string { return g.pick("", "", "", "", "+", "-") }

func (g *Gen) number() string    { return g.sign() + g.absNumber(g.chance(1, 8)) }
func (g *Gen) posNumber() string { return g.pick("", "", "+") + g.absNumber(g.chance(1, 10)) }
func (g *Gen) integer() string {
	return g.sign() + g.pick("0", "1", "2", "3", "10", "100", "999", "01", "0010", g.digits(1+g.r.Intn(5)))
}

var lengthUnitList = []string{"px", "px", "px", "em", "rem", "%", "vh", "vw", "vmin", "vmax", "cm", "mm", "in", "pt", "pc", "ch", "ex", "q"}

func (g *Gen) unitCase(u string) string {
	if g.chance(1, 6) {
		return g.randCase(u)
	}
	return u
}

// length: <length-percentage>, may be zero in every notation
func (g *Gen) length() string {
	if g.chance(1, 5) {
		return g.zeroLength()
	}
	return g.sign() + g.absNumber(false) + g.unitCase(g.pick(lengthUnitList...))
}

func (g *Gen) posLength() string {
	if g.chance(1, 5) {
		return g.zeroLength()
	}
	return g.absNumber(false) + g.unitCase(g.pick(lengthUnitList...))
}

// pureLength: no percentage
func (g *Gen) pureLength() string {
	for {
		s := g.posLength()
		if !strings.HasSuffix(s, "%") {
			return s
		}
	}
}

func (g *Gen) zeroLength() string {
	z := g.pick("", "", "+", "-") + g.absNumber(true)
	if g.chance(1, 3) {
		return z // unitless
	}
	return z + g.unitCase(g.pick(lengthUnitList...))
}

func (g *Gen) percentage() string { return g.sign() + g.absNumber(g.chance(1, 6)) + "%" }

func (g *Gen) angle() string {
	return g.sign() + g.absNumber(g.chance(1, 6)) + g.unitCase(g.pick("deg", "deg", "rad", "grad", "turn"))
}
func (g *Gen) time() string {
	return g.pick("", "", "+", "-") + g.absNumber(g.chance(1, 4)) + g.unitCase(g.pick("s", "ms"))
}
func (g *Gen) otherDim() string {
	return g.absNumber(g.chance(1, 4)) + g.unitCase(g.pick("hz", "khz", "dpi", "dpcm", "dppx", "fr", "x", "s", "ms", "deg", "rad", "grad", "turn"))
}

// ---- colours ----

var colorNames []string

func init() {
	for k := range named {
		colorNames = append(colorNames, k)
	}
	sortStrings(colorNames)
}

func sortStrings(xs []string) {
	for i := 1; i < len(xs); i++ {
		for j := i; j > 0 && xs[j] < xs[j-1]; j-- {
			xs[j], xs[j-1] = xs[j-1], xs[j]
		}
	}
}

func (g *Gen) hexDigits(n int) string {
	b := make([]byte, n)
	up := g.chance(1, 3)
	mixed := g.chance(1, 6)
	for i := range b {
		d := "0123456789abcdef"[g.r.Intn(16)]
		if (up || mixed && g.r.Bool()) && d >= 'a' {
			d -= 32
		}
		b[i] = d
	}
	return string(b)
}

// nearNamedHex: the hex value of a named colour, exactly or one step off in one channel
// (catches wrong keys / values in the colour tables).
func (g *Gen) nearNamedHex() string {
	name := colorNames[g.r.Intn(len(colorNames))]
	for g.r.Bool() && len(name) > 6 { // names shorter than #rrggbb are the ones worth rewriting to
		name = colorNames[g.r.Intn(len(colorNames))]
	}
	v := named[name]
	c := [3]int{int(v[0]), int(v[1]), int(v[2])}
	if g.chance(2, 3) {
		k := g.r.Intn(3)
		if g.r.Bool() && c[k] < 255 {
			c[k]++
		} else if c[k] > 0 {
			c[k]--
		}
	}
	f := "#%02x%02x%02x"
	if g.chance(1, 3) {
		f = "#%02X%02X%02X"
	}
	return fmt.Sprintf(f, c[0], c[1], c[2])
}

func (g *Gen) hexColor() string {
	if g.chance(1, 3) {
		return g.nearNamedHex()
	}
	switch g.r.Intn(10) {
	case 0:
		return "#" + g.hexDigits(3)
	case 1:
		return "#" + g.hexDigits(4)
	case 2, 3:
		return "#" + g.hexDigits(6)
	case 4:
		return "#" + g.hexDigits(8)
	case 5: // doubled digits -> 3-digit form
		h := g.hexDigits(3)
		return "#" + string([]byte{h[0], h[0], h[1], h[1], h[2], h[2]})
	case 6:
		h := g.hexDigits(4)
		b := []byte{h[0], h[0], h[1], h[1], h[2], h[2], h[3], h[3]}
		if g.chance(1, 2) { // all pairs doubled but one: must NOT collapse
			k := g.r.Intn(4)
			d := g.hexDigits(1)[0]
			if d != b[2*k] {
				b[2*k+g.r.Intn(2)] = d
			}
		}
		return "#" + string(b)
	case 7: // alpha ff / 00
		return "#" + g.hexDigits(6) + g.pick("ff", "FF", "00", "fF")
	case 8: // hex values that have a shorter name
		return g.pick("#ff0000", "#F00", "#f00", "#000080", "#008000", "#008080", "#4b0082", "#800000", "#800080", "#808000", "#808080", "#a0522d", "#a52a2a", "#c0c0c0", "#cd853f", "#d2b48c", "#da70d6", "#dda0dd", "#ee82ee", "#f0e68c", "#f0ffff", "#f5deb3", "#f5f5dc", "#fa8072", "#faf0e6", "#ff6347", "#ff7f50", "#ffa500", "#ffc0cb", "#ffd700", "#ffe4c4", "#fffafa", "#fffff0", "#FFA500", "#ff0000ff", "#FF0000FF")
	}
	return g.pick("#000", "#fff", "#FFFFFF", "#000000", "#0000", "#00000000", "#ffffffff", "#abc", "#aabbcc", "#AABBCC", "#aabbccdd", "#abcd")
}

func (g *Gen) colorKeyword() string {
	if g.known && g.chance(1, 12) {
		return "lightslateblue" // K21
	}
	if g.chance(1, 8) {
		return g.randCase(g.pick("transparent", "currentcolor", "currentColor"))
	}
	return g.randCase(colorNames[g.r.Intn(len(colorNames))])
}

func (g *Gen) byteArg() string {
	switch g.r.Intn(8) {
	case 0:
		return g.pick("0", "255", "128", "127", "51", "102", "153", "204", "256", "300", "-1", "-20", "00", "0255")
	case 1:
		return fmt.Sprintf("%d.%s", g.r.Intn(256), g.pick("0", "5", "4", "6", "49", "51", "25", "75"))
	case 2:
		if !g.noExp {
			return g.pick("1e2", "2.55e2", "1.28E2", "5e1", "0e0", "25.5e1")
		}
	}
	return fmt.Sprint(g.r.Intn(256))
}

func (g *Gen) pctArg() string {
	switch g.r.Intn(6) {
	case 0:
		return g.pick("0%", "20%", "40%", "60%", "80%", "100%", "50%", "10%", "30%", "70%", "90%", "110%", "-5%", "0.0%", "100.0%")
	case 1:
		return fmt.Sprintf("%d.%d%%", g.r.Intn(100), g.r.Intn(10))
	case 2:
		return fmt.Sprintf("%d%%", 20*g.r.Intn(6))
	}
	return fmt.Sprintf("%d%%", g.r.Intn(101))
}

func (g *Gen) alphaArg() string {
	switch g.r.Intn(5) {
	case 0:
		return g.pick("1", "1.0", "1.00", "100%", "0", "0.0", "0%", ".0", "2", "150%", "-1", "-0.5")
	case 1:
		return g.pick(".5", "0.5", "0.50", "50%", ".05", "0.05", "5%", ".005", "0.005", ".25", "25%", "10%", ".1", "0.75", ".999", "0.001", "99%", "0.5%")
	case 2:
		return fmt.Sprintf("%d%%", g.r.Intn(101))
	}
	return fmt.Sprintf("%s.%d", g.pick("", "0"), 1+g.r.Intn(99))
}

func (g *Gen) colorFunction() string {
	modern := g.chance(1, 3)
	sep := ","
	if modern {
		sep = " "
	} else {
		sep = g.pick(",", ", ", " , ", ",  ")
	}
	withAlpha := g.chance(1, 2)
	alphaZero := false
	var a, b, c, name string
	if g.chance(2, 3) {
		name = "rgb"
		if withAlpha && g.chance(2, 3) {
			name = "rgba"
		}
		if g.chance(1, 3) {
			a, b, c = g.pctArg(), g.pctArg(), g.pctArg()
		} else {
			a, b, c = g.byteArg(), g.byteArg(), g.byteArg()
		}
		if g.chance(1, 12) {
			a, b, c = "0", "0", "0"
		}
		if g.chance(1, 10) {
			// channels below zero (clamped to 0 when the colour is computed) next to positive ones: the arguments must be
			// judged one by one, not by their sum; mostly with an alpha of zero (the `transparent` rewrite)
			n := fmt.Sprint(1 + g.r.Intn(255))
			perm := [][3]string{{"-" + n, n, "0"}, {n, "-" + n, "0"}, {"0", "-" + n, n}, {"-" + n, "0", n}, {"-1", "0", "1"}, {"-" + n, "-" + n, g.byteArg()}}[g.r.Intn(6)]
			a, b, c = perm[0], perm[1], perm[2]
			if g.chance(3, 4) {
				withAlpha = true
				name = g.pick("rgba", "rgb")
				alphaZero = true
			}
		}
	} else {
		name = "hsl"
		if withAlpha && g.chance(2, 3) {
			name = "hsla"
		}
		switch g.r.Intn(6) {
		case 0:
			a = g.pick("0", "360", "720", "-120", "120", "240", "60", "180", "300", "30", "480", "-30", "359.9", "0.5")
		case 1:
			a = g.pick("120deg", "0.5turn", "200grad", "90DEG", "-90deg", "1turn")
		default:
			a = fmt.Sprint(g.r.Intn(361))
		}
		b, c = g.pctArg(), g.pctArg()
		if modern && g.chance(1, 6) { // (N04 = K84 repaired) numbers for saturation / lightness
			b, c = fmt.Sprint(g.r.Intn(101)), fmt.Sprint(g.r.Intn(101))
		}
	}
	name = g.randCase(name)
	s := name + "(" + g.pick("", "", " ") + a + sep + b + sep + c
	if withAlpha {
		al := g.alphaArg()
		if alphaZero {
			al = g.pick("0", "0", "0.0", "0%", ".0")
		}
		if modern {
			s += g.pick(" / ", "/", " /", "/ ") + al
		} else {
			s += sep + al
		}
	}
	return s + g.pick("", "", " ") + ")"
}

func (g *Gen) color() string {
	switch g.r.Intn(10) {
	case 0, 1, 2:
		return g.colorKeyword()
	case 3, 4, 5:
		return g.hexColor()
	}
	return g.colorFunction()
}

// ---- strings, urls ----

func (g *Gen) quote(s string) string {
	if g.r.Bool() {
		return "\"" + strings.ReplaceAll(strings.ReplaceAll(s, "\\", "\\\\"), "\"", "\\\"") + "\""
	}
	return "'" + strings.ReplaceAll(strings.ReplaceAll(s, "\\", "\\\\"), "'", "\\'") + "'"
}

func (g *Gen) stringContent() string {
	return g.pick("", "a", "abc", "a b", "Hello World", "»", "it's", "say \"hi\"", "a/*b*/c", "1px", "a;b", "a{b}", "x  y", "—", "<", "url(x)", "a,b", "100%", "é", "-")
}

func (g *Gen) cssString() string {
	s := g.quote(g.stringContent())
	switch g.r.Intn(12) {
	case 0: // escapes
		q := s[:1]
		return q + g.pick("\\201C", "\\a ", "\\A", "\\41 b", "\\000041b", "a\\\nb", "\\\\", "\\f101", "\\e900 x", "a\\62 c") + q
	}
	return s
}

func (g *Gen) urlPath() string {
	return g.pick("a.png", "img/bg.png", "../x/y.gif", "http://example.com/a.jpg", "//cdn.example.com/f.woff2", "#id", "a b.png", "a(b).png", "it's.png", "a\"b.png", "font.eot?#iefix", "x.svg#frag", "%20a.png", "a,b.png", "é.png", "a;b.png", "verylongname-with-many-characters.webp", "/")
}

func needsQuotes(p string) bool { return strings.ContainsAny(p, " ()'\"\\\n\t") }

func (g *Gen) url() string {
	if g.chance(1, 4) {
		return g.dataURL()
	}
	p := g.urlPath()
	fn := g.pick("url", "url", "url", "URL", "Url")
	if needsQuotes(p) || g.r.Bool() {
		return fn + "(" + g.pick("", "", " ") + g.quote(p) + g.pick("", "", " ") + ")"
	}
	return fn + "(" + g.pick("", "", " ", "  ") + p + g.pick("", "", " ") + ")"
}

func (g *Gen) payload() []byte {
	switch g.r.Intn(8) {
	case 0:
		return []byte("<svg xmlns=\"http://www.w3.org/2000/svg\" viewBox=\"0 0 8 8\"><path d=\"M0 0h8v8z\" fill=\"#f00\"/></svg>")
	case 1:
		return []byte("<svg xmlns='http://www.w3.org/2000/svg'><circle r='4'/></svg>")
	case 2:
		n := g.r.Intn(40)
		b := make([]byte, n)
		for i := range b {
			b[i] = byte(g.r.Intn(256))
		}
		return b
	case 3:
		return []byte(g.pick("", "a", "hello world", "a%b", "100% #1 & more", "x=y;z", "a,b,c", "Tab\there", "line\nbreak", "{\"a\":[1,2]}", "ünï", "a\\b", "a`b^c|d[e]f{g}h", "<>", "f(x)=1", "a(b)c d", "translate(5 5) rotate(45)", ")(", "a(b"))
	case 4:
		return []byte("GIF89a\x01\x00\x01\x00\x80\x00\x00\xff\xff\xff\x00\x00\x00!\xf9\x04\x01\x00\x00\x00\x00,\x00\x00\x00\x00\x01\x00\x01\x00\x00\x02\x02D\x01\x00;")
	case 5:
		if g.known {
			return []byte(g.pick("I'm here", "say \"x\" and 'y'", "f(x) = 'a'", "a+b", "1 + 1")) // N07 / K40
		}
		return []byte(g.pick("plain text without specials", "I'm here", "say \"x\" and 'y'", "f(x) = 'a'")) // (N07 = K87 repaired: quotes in the payload)
	case 6:
		return []byte(strings.Repeat(g.pick("ab", "<p>", "%", " ", "x y"), 1+g.r.Intn(12)))
	}
	return []byte("body{color:red}")
}

const pctSafe = "abcdefghijklmnopqrstuvwxyzABCDEFGHIJKLMNOPQRSTUVWXYZ0123456789-_.!~*/:=@$;,"

// percentEncode for an unquoted or quoted CSS url: everything outside a conservative safe set.
func (g *Gen) percentEncode(b []byte) string {
	var sb strings.Builder
	for _, c := range b {
		if strings.IndexByte(pctSafe, c) >= 0 || g.known && c == '+' && g.r.Bool() {
			sb.WriteByte(c) // a literal '+' is K40
		} else {
			if g.r.Bool() {
				fmt.Fprintf(&sb, "%%%02X", c)
			} else {
				fmt.Fprintf(&sb, "%%%02x", c)
			}
		}
	}
	return sb.String()
}

func (g *Gen) dataURL() string {
	mt := g.pick("", "text/plain", "image/svg+xml", "image/png", "image/gif", "application/octet-stream", "font/woff2", "TEXT/PLAIN", "Image/SVG+XML", "text/plain;charset=us-ascii", "text/plain;charset=US-ASCII", "text/plain;charset=utf-8", ";charset=us-ascii", "text/html;charset=us-ascii;x=y", "application/x-font-woff;charset=utf-8", "text/css")
	if !g.known && strings.HasPrefix(mt, ";") && mt != ";charset=us-ascii" {
		mt = "text/plain"
	}
	if g.known && g.chance(1, 6) {
		mt = g.pick(";charset=utf-8", ";charset=UTF-8;x=y") // N12
	}
	p := g.payload()
	if mt == "text/css" {
		p = []byte(g.pick("a{color:#ff0000}", "a { margin : 0px 0px }", "b{}", "@media screen{a{b:c}}"))
	}
	var uri string
	if g.r.Bool() {
		uri = "data:" + mt + ";base64" + "," + base64.StdEncoding.EncodeToString(p)
	} else {
		uri = "data:" + mt + "," + g.percentEncode(p)
	}
	if g.chance(1, 10) {
		uri = "DATA:" + uri[5:]
	}
	fn := g.pick("url", "url", "URL")
	if g.known && g.chance(1, 10) { // N11: CSS escapes inside the data URI
		return fn + "(\"data:text/plain," + g.pick("a\\\"b%20cdefghijklmnop", "a\\62 c%20cdefghijklmnop", "x\\)y%20zzzzzzzzzzzz") + "\")"
	}
	if g.r.Bool() {
		q := g.pick("\"", "'")
		return fn + "(" + q + uri + q + ")"
	}
	return fn + "(" + uri + ")"
}
