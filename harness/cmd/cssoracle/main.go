// Command cssoracle searches for inputs on which the CSS minifier changes the meaning of a
// stylesheet (property C04, and the CSS parts of C09, C11, C16, C18).
//
//	cssoracle -seed N -n COUNT -out DIR [-tier quick|thorough] [-witness FILE] [-known]
package main

import (
	"encoding/json"
	"flag"
	"fmt"
	"hash/fnv"
	"os"
	"path/filepath"
	"runtime"
	"runtime/debug"
	"sort"
	"strconv"
	"sync"
	"sync/atomic"
	"time"

	"verifharness/internal/vh"
)

const quickN = 40000
const thoroughN = 600000

type caseResult struct {
	idx       int
	input     string
	cfg       Config
	malformed bool
	verdict   Verdict
	kind      string
	dur       time.Duration
}

type sample struct {
	Input   string            `json:"input"`
	Options map[string]string `json:"options"`
	Inline  bool              `json:"inline"`
	Output  string            `json:"output"`
}

func pickConfig(r *vh.Rand, inline bool) Config {
	cfg := Config{Keep: r.Bool(), Inline: inline}
	if r.Chance(1, 6) {
		cfg.Prec = []int{1, 2, 3, 4, 5, 6, 8, 15, 17}[r.Intn(9)]
	}
	if inline && r.Chance(1, 3) {
		cfg.InlineField = true
	}
	return cfg
}

func makeCase(seed uint64, idx int, known bool) (input string, cfg Config, malformed bool, kind string) {
	r := vh.NewRand(seed*0x1000193 + uint64(idx)*0x9E3779B1 + 7)
	k := r.Intn(100)
	inline := k >= 70 && k < 92
	cfg = pickConfig(r, inline)
	g := &Gen{r: r.Fork(), known: known}
	g.noExp = false // (N01 = K81 repaired: exponents also occur in KeepCSS2 runs)
	g.avoid9 = cfg.Keep && cfg.Prec > 0 && !known
	switch {
	case k < 35:
		input, kind = g.Stylesheet(), "stylesheet"
	case k < 70:
		input, kind = g.OneRule(), "one-rule"
	case k < 92:
		input, kind = g.InlineList(), "inline"
	default:
		malformed = true
		kind = "malformed"
		cfg.Inline = r.Chance(1, 4)
		for {
			if cfg.Inline {
				input = g.Malformed(g.InlineList())
			} else {
				input = g.Malformed(g.Stylesheet())
			}
			if known || !n21Shape(input) {
				break
			}
		}
	}
	return
}

// evalMalformed: only "no panic" and "second pass accepted".
func evalMalformed(input string, cfg Config) Verdict {
	v := Verdict{Stats: newStats()}
	out, err, pan := runMinify(input, cfg)
	if pan != "" {
		v.Finding = &Finding{Kind: "panic", Sig: "panic:first-pass", Detail: pan, InPart: input}
		return v
	}
	if err != nil {
		v.Rejected = true
		return v
	}
	v.Output = out
	_, err2, pan2 := runMinify(out, cfg)
	if pan2 != "" {
		v.Finding = &Finding{Kind: "panic", Sig: "panic:second-pass", Detail: pan2, InPart: input, OutPart: out}
	} else if err2 != nil {
		v.Finding = &Finding{Kind: "second-pass", Sig: "second-pass:rejected", Detail: err2.Error(), InPart: input, OutPart: out}
	}
	return v
}

func sizeBucket(n int) string {
	switch {
	case n < 32:
		return "<32"
	case n < 128:
		return "32-127"
	case n < 512:
		return "128-511"
	case n < 2048:
		return "512-2047"
	}
	return ">=2048"
}

func printable(s string) string {
	b := make([]rune, 0, len(s))
	for _, r := range s {
		if r == '\n' || r == '\t' || r >= 0x20 && r != 0x7f && r != 0xFFFD {
			b = append(b, r)
		} else {
			b = append(b, []rune(fmt.Sprintf("\\x%02x", r))...)
		}
	}
	return string(b)
}

func toViolation(f *Finding, input string, cfg Config, idx int, out string) vh.Violation {
	kind := "oracle"
	if f.Kind == "panic" || f.Kind == "timeout" {
		kind = f.Kind
	}
	obs, exp := f.OutPart, ""
	switch f.Kind {
	case "decl":
		exp = "a declaration meaning the same as `" + f.InPart + "`"
	case "selector":
		exp = "a selector equivalent to `" + f.InPart + "`"
	case "atrule":
		exp = "an at-rule equivalent to `" + f.InPart + "`"
	case "panic":
		obs, exp = "panic", "no panic"
	case "second-pass":
		obs, exp = "second pass: "+f.Detail, "the minifier accepts its own output"
	case "option":
		exp = "option honoured"
	default:
		exp = "same rule / declaration sequence as the input"
	}
	opts := cfg.Options()
	opts["inline"] = strconv.FormatBool(cfg.Inline)
	// C09: whatever else differs, an output with bad-string / bad-url tokens that the input does not have is syntactically invalid
	invalid := ""
	if bad := badTokens(out); bad != "" && badTokens(input) == "" {
		invalid = "invalid-output:" + bad + " "
	}
	return vh.Violation{Kind: kind, Signature: f.Signature(), Input: printable(input), InputHex: vh.Hex([]byte(input)), Options: opts,
		Observed: printable(obs), Expected: exp, Detail: printable(invalid + "output: " + out + "\noracle: " + f.Sig + "\n" + f.Detail), Case: idx}
}

func badTokens(src string) string {
	for _, t := range Tokenize(preprocess(src)) {
		if t.K == KBadURL {
			return "bad-url"
		}
		if t.K == KBadString {
			return "bad-string"
		}
	}
	return ""
}

func main() {
	seed := flag.Uint64("seed", 1, "seed")
	n := flag.Int("n", 0, "number of cases (0 = tier default)")
	outDir := flag.String("out", "", "output directory")
	tier := flag.String("tier", "quick", "quick|thorough")
	witness := flag.String("witness", "", "evaluate exactly the case in this JSON file")
	known := flag.Bool("known", false, "also generate the shapes of known defects and judge them strictly")
	maxPerSig := flag.Int("max-per-signature", 3, "violations reported per signature")
	flag.Parse()
	debug.SetGCPercent(400)
	if *outDir == "" {
		fmt.Fprintln(os.Stderr, "cssoracle: -out is required")
		os.Exit(2)
	}
	if err := os.MkdirAll(*outDir, 0o755); err != nil {
		fmt.Fprintln(os.Stderr, "cssoracle:", err)
		os.Exit(2)
	}
	resPath := filepath.Join(*outDir, "result.json")
	if *witness != "" {
		if err := runWitness(*witness, resPath); err != nil {
			fmt.Fprintln(os.Stderr, "cssoracle:", err)
			os.Exit(2)
		}
		return
	}
	if *n <= 0 {
		*n = quickN
		if *tier == "thorough" {
			*n = thoroughN
		}
	}
	res := &vh.Result{Engine: "cssoracle", Seed: *seed, Tier: *tier,
		Rule: "evaluations = (input, options, mode) triples from the well-formed stream that the minifier accepted and the oracle compared; distinct_nontrivial = distinct inputs (FNV-64 of the bytes) among them whose output differs from the input; the malformed stream (no panic + second pass only) is counted in extra.malformed"}

	workers := runtime.NumCPU()
	if workers > 16 {
		workers = 16
	}
	var next int64 = -1
	results := make([]*caseResult, *n)
	type busy struct {
		since time.Time
		desc  string
	}
	cur := make([]atomic.Value, workers)
	var wg sync.WaitGroup
	for w := 0; w < workers; w++ {
		wg.Add(1)
		go func(w int) {
			defer wg.Done()
			for {
				i := int(atomic.AddInt64(&next, 1))
				if i >= *n {
					cur[w].Store(busy{})
					return
				}
				input, cfg, malformed, kind := makeCase(*seed, i, *known)
				cur[w].Store(busy{time.Now(), fmt.Sprintf("case %d (%s) %q", i, cfg, input)})
				cr := &caseResult{idx: i, input: input, cfg: cfg, malformed: malformed, kind: kind}
				t0 := time.Now()
				if malformed {
					cr.verdict = evalMalformed(input, cfg)
				} else {
					cr.verdict = Evaluate(input, cfg, *known)
				}
				if f := cr.verdict.Finding; f != nil {
					classify(f, input, cfg)
				}
				cr.dur = time.Since(t0)
				results[i] = cr
			}
		}(w)
	}
	tStart := time.Now()
	done := make(chan struct{})
	go func() { wg.Wait(); close(done) }()
	timedOut := ""
wait:
	for {
		select {
		case <-done:
			break wait
		case <-time.After(500 * time.Millisecond):
			for w := range cur {
				if b, ok := cur[w].Load().(busy); ok && !b.since.IsZero() && time.Since(b.since) > 30*time.Second {
					timedOut = b.desc
					break wait
				}
			}
		}
	}
	if timedOut != "" {
		res.Violations = append(res.Violations, vh.Violation{Kind: "timeout", Signature: "timeout:minify", Input: timedOut, Observed: "no result after 30 s", Expected: "termination"})
		res.Write(resPath)
		fmt.Println("cssoracle: timeout on", timedOut)
		os.Exit(0)
	}

	if os.Getenv("CSSORACLE_DEBUG") != "" {
		fmt.Println("evaluation phase:", time.Since(tStart))
	}
	distinct := map[uint64]bool{}
	perSig := map[string]int{}
	malformedN, rejected := 0, 0
	njTotal := 0
	type pending struct {
		cr *caseResult
	}
	var toShrink []pending
	var slowest *caseResult
	for _, cr := range results {
		if cr == nil {
			continue
		}
		if slowest == nil || cr.dur > slowest.dur {
			slowest = cr
		}
		res.Hist("case_kind", cr.kind)
		res.Hist("size_bucket", sizeBucket(len(cr.input)))
		v := cr.verdict
		if cr.malformed {
			malformedN++
			if v.Rejected {
				res.Hist("malformed", "rejected")
			} else {
				res.Hist("malformed", "accepted")
			}
		} else if v.Rejected {
			rejected++
		} else if v.Finding == nil || v.Finding.Kind != "panic" {
			res.Evaluations++
			res.Hist("config", fmt.Sprintf("keep=%v prec=%s inline=%v", cr.cfg.Keep, precBucket(cr.cfg.Prec), cr.cfg.Inline))
			if v.Changed {
				h := fnv.New64a()
				h.Write([]byte(cr.input))
				distinct[h.Sum64()] = true
			}
			for k, c := range v.Stats.Families {
				res.Histograms = ensure(res.Histograms, "property_family")
				res.Histograms["property_family"][k] += c
			}
			for k, c := range v.Stats.Fired {
				res.Histograms = ensure(res.Histograms, "rewrite_fired")
				res.Histograms["rewrite_fired"][k] += c
			}
			for k, c := range v.Stats.AtRules {
				res.Histograms = ensure(res.Histograms, "at_rule")
				res.Histograms["at_rule"][k] += c
			}
			for _, r := range v.Stats.NJ {
				res.Hist("not_judged", r)
				njTotal++
			}
			if len(res.Samples) < 3 && v.Changed && v.Finding == nil && len(cr.input) < 400 && cr.idx%7 == 3 {
				res.Samples = append(res.Samples, sample{cr.input, cr.cfg.Options(), cr.cfg.Inline, v.Output})
			}
		}
		if v.Finding != nil {
			sig := v.Finding.Signature()
			res.Hist("violation_signature", sig)
			perSig[sig]++
			if perSig[sig] <= *maxPerSig {
				toShrink = append(toShrink, pending{cr})
			}
		}
	}
	// shrink (in parallel) and report
	viol := make([]vh.Violation, len(toShrink))
	var wg2 sync.WaitGroup
	sem := make(chan struct{}, workers)
	for i, p := range toShrink {
		wg2.Add(1)
		sem <- struct{}{}
		go func(i int, cr *caseResult) {
			defer wg2.Done()
			defer func() { <-sem }()
			f := cr.verdict.Finding
			input, out := cr.input, cr.verdict.Output
			if !cr.malformed || f.Kind == "panic" {
				si, sf := Shrink(cr.input, cr.cfg, *known, f)
				if sf != nil {
					input, f = si, sf
					out, _, _ = runMinify(input, cr.cfg)
				}
			}
			viol[i] = toViolation(f, input, cr.cfg, cr.idx, out)
			if input != cr.input {
				viol[i].Detail += "\noriginal input: " + printable(cr.input)
			}
		}(i, p.cr)
	}
	wg2.Wait()
	res.Violations = append(res.Violations, viol...)
	res.DistinctNontrivial = len(distinct)
	res.NotJudged = njTotal
	if slowest != nil && os.Getenv("CSSORACLE_DEBUG") != "" {
		fmt.Printf("slowest case %d: %v (%s) %q\n", slowest.idx, slowest.dur, slowest.cfg, slowest.input)
	}
	res.Extra = map[string]interface{}{"malformed": malformedN, "rejected": rejected, "cases": *n, "known_mode": *known, "workers": workers}
	if res.Extra == nil {
		res.Extra = map[string]interface{}{}
	}
	runBoxCases(*outDir, res.Extra)
	runHexCases(*seed, 4000, *outDir, res.Extra)
	runDimCases(*seed, 8000, *outDir, res.Extra)
	if err := res.Write(resPath); err != nil {
		fmt.Fprintln(os.Stderr, "cssoracle:", err)
		os.Exit(2)
	}
	sigs := make([]string, 0, len(perSig))
	for s := range perSig {
		sigs = append(sigs, s)
	}
	sort.Strings(sigs)
	fmt.Printf("cssoracle: seed=%d cases=%d evaluations=%d distinct_nontrivial=%d not_judged=%d malformed=%d violations=%d\n", *seed, *n, res.Evaluations, res.DistinctNontrivial, njTotal, malformedN, len(res.Violations))
	for _, s := range sigs {
		fmt.Printf("  %6d  %s\n", perSig[s], s)
	}
}

func precBucket(p int) string {
	if p == 0 {
		return "0"
	}
	return ">0"
}

func ensure(h map[string]map[string]int, name string) map[string]map[string]int {
	if h == nil {
		h = map[string]map[string]int{}
	}
	if h[name] == nil {
		h[name] = map[string]int{}
	}
	return h
}

type witnessFile struct {
	Input    string            `json:"input"`
	InputHex string            `json:"input_hex"`
	Options  map[string]string `json:"options"`
	Inline   bool              `json:"inline"`
	Strict   *bool             `json:"strict"`
}

func runWitness(path, resPath string) error {
	b, err := os.ReadFile(path)
	if err != nil {
		return err
	}
	var w witnessFile
	if err := json.Unmarshal(b, &w); err != nil {
		return err
	}
	input := w.Input
	if w.InputHex != "" {
		input = string(vh.Unhex(w.InputHex))
	}
	cfg := Config{Inline: w.Inline}
	if v, ok := w.Options["KeepCSS2"]; ok {
		cfg.Keep, _ = strconv.ParseBool(v)
	}
	if v, ok := w.Options["Precision"]; ok {
		cfg.Prec, _ = strconv.Atoi(v)
	}
	if v, ok := w.Options["Inline"]; ok {
		if t, _ := strconv.ParseBool(v); t {
			cfg.Inline, cfg.InlineField = true, true
		}
	}
	if v, ok := w.Options["inline"]; ok {
		if t, _ := strconv.ParseBool(v); t {
			cfg.Inline = true
		}
	}
	strict := true
	if w.Strict != nil {
		strict = *w.Strict
	}
	res := &vh.Result{Engine: "cssoracle", Tier: "witness", Rule: "one (input, options, mode) triple evaluated strictly"}
	v := Evaluate(input, cfg, strict)
	if !v.Rejected {
		res.Evaluations = 1
		if v.Changed {
			res.DistinctNontrivial = 1
		}
	}
	res.NotJudged = len(v.Stats.NJ)
	for _, r := range v.Stats.NJ {
		res.Hist("not_judged", r)
	}
	res.Samples = append(res.Samples, sample{input, cfg.Options(), cfg.Inline, v.Output})
	if v.Finding != nil {
		classify(v.Finding, input, cfg)
		res.Violations = append(res.Violations, toViolation(v.Finding, input, cfg, 0, v.Output))
		fmt.Printf("cssoracle: witness VIOLATION %s\n  in : %s\n  out: %s\n", v.Finding.Signature(), printable(input), printable(v.Output))
	} else {
		fmt.Printf("cssoracle: witness ok (rejected=%v)\n  in : %s\n  out: %s\n", v.Rejected, printable(input), printable(v.Output))
	}
	return res.Write(resPath)
}
