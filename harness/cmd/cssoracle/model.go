package main

// Correspondence data for the Coq model Css/CssBox.v: EVERY list of one to four values over four distinct lengths, for
// margin, padding and border-width, through the real css.Minify; the extracted box_collapse must give the same list.

import (
	"bytes"
	"fmt"
	"os"
	"path/filepath"
	"strings"

	"github.com/tdewolff/minify/v2"
	cssmin "github.com/tdewolff/minify/v2/css"
)

func runBoxCases(outDir string, extra map[string]interface{}) {
	fin, _ := os.Create(filepath.Join(outDir, "cases.in"))
	fout, _ := os.Create(filepath.Join(outDir, "cases.go.out"))
	defer fin.Close()
	defer fout.Close()
	syms := []string{"1px", "2px", "3em", "4%"}
	idx := map[string]string{"1px": "1", "2px": "2", "3em": "3", "4%": "4"}
	m := minify.New()
	n := 0
	for _, prop := range []string{"margin", "padding", "border-width"} {
		for ln := 1; ln <= 4; ln++ {
			total := 1
			for i := 0; i < ln; i++ {
				total *= 4
			}
			for k := 0; k < total; k++ {
				var vals, ids []string
				x := k
				for i := 0; i < ln; i++ {
					vals = append(vals, syms[x%4])
					ids = append(ids, idx[syms[x%4]])
					x /= 4
				}
				src := "a{" + prop + ":" + strings.Join(vals, " ") + "}"
				var out bytes.Buffer
				if err := (&cssmin.Minifier{}).Minify(m, &out, strings.NewReader(src), nil); err != nil {
					continue
				}
				o := out.String()
				o = strings.TrimSuffix(strings.TrimPrefix(o, "a{"+prop+":"), "}")
				var got []string
				for _, t := range strings.Fields(o) {
					if id, ok := idx[t]; ok {
						got = append(got, id)
					} else {
						got = append(got, "?"+t)
					}
				}
				fmt.Fprintf(fin, "cssbox\t%s\n", strings.Join(ids, ","))
				fmt.Fprintf(fout, "%s\n", strings.Join(got, ","))
				n++
			}
		}
	}
	extra["cssbox_cases_exhaustive"] = n
}

// Correspondence data for the Coq model Css/CssColor.v (hash-token branch of minifyColor): structured and random hash
// colours through the real css.Minify in a `color:` declaration.
func runHexCases(seed uint64, n int, outDir string, extra map[string]interface{}) {
	fin, _ := os.OpenFile(filepath.Join(outDir, "cases.in"), os.O_APPEND|os.O_WRONLY, 0o644)
	fout, _ := os.OpenFile(filepath.Join(outDir, "cases.go.out"), os.O_APPEND|os.O_WRONLY, 0o644)
	defer fin.Close()
	defer fout.Close()
	m := minify.New()
	x := seed*0x9E3779B97F4A7C15 + 12345
	rnd := func(k int) int {
		x ^= x << 13
		x ^= x >> 7
		x ^= x << 17
		return int(x>>11) % k
	}
	digits := "0123456789abcdefABCDEF"
	few := "0fFa8"
	cnt := 0
	emit := func(h string) {
		src := "a{color:" + h + "}"
		var out bytes.Buffer
		if err := (&cssmin.Minifier{}).Minify(m, &out, strings.NewReader(src), nil); err != nil {
			return
		}
		o := strings.TrimSuffix(strings.TrimPrefix(out.String(), "a{color:"), "}")
		fmt.Fprintf(fin, "csshex\t%x\n", h)
		fmt.Fprintf(fout, "%x\n", o)
		cnt++
	}
	// every entry of the hex -> keyword table and its neighbours come from the generator below through `few`; table keys:
	for k := range cssmin.ShortenColorHex {
		emit(k)
		emit(strings.ToUpper(k))
		emit(k + "ff")
		emit(k + "00")
		emit(k + "f0")
	}
	for i := 0; i < n; i++ {
		ln := []int{3, 4, 6, 8, 6, 8, 8}[rnd(7)]
		b := make([]byte, ln)
		alpha := digits
		if rnd(2) == 0 {
			alpha = few
		}
		for j := range b {
			b[j] = alpha[rnd(len(alpha))]
		}
		if ln >= 6 && rnd(3) > 0 { // doubled pairs, possibly all but one
			for j := 0; j+1 < ln; j += 2 {
				b[j+1] = b[j]
			}
			if rnd(2) == 0 {
				b[rnd(ln)] = digits[rnd(len(digits))]
			}
		}
		emit("#" + string(b))
	}
	extra["csshex_cases"] = cnt
}

// Correspondence data for the Coq model Css/CssDim.v (numeric tokens of a declaration value: number, percentage, dimension;
// KeepCSS2 on and off; integer properties; inside a function): generated tokens through the real css.Minify in a
// declaration of an unknown property (so that only minifyTokens acts on them).
func runDimCases(seed uint64, n int, outDir string, extra map[string]interface{}) {
	fin, _ := os.OpenFile(filepath.Join(outDir, "cases.in"), os.O_APPEND|os.O_WRONLY, 0o644)
	fout, _ := os.OpenFile(filepath.Join(outDir, "cases.go.out"), os.O_APPEND|os.O_WRONLY, 0o644)
	defer fin.Close()
	defer fout.Close()
	m := minify.New()
	x := seed*0x9E3779B97F4A7C15 + 777
	rnd := func(k int) int {
		x ^= x << 13
		x ^= x >> 7
		x ^= x << 17
		return int(x>>11) % k
	}
	pick := func(l ...string) string { return l[rnd(len(l))] }
	digits := func(k int) string {
		b := make([]byte, k)
		for i := range b {
			b[i] = "0123456789"[rnd(10)]
			if rnd(3) == 0 {
				b[i] = '0'
			}
		}
		return string(b)
	}
	number := func() string {
		s := pick("", "", "", "+", "-")
		switch rnd(6) {
		case 0:
			s += digits(1 + rnd(4))
		case 1:
			s += digits(rnd(3)) + "." + digits(1+rnd(4))
		case 2:
			s += "0" + pick("", ".0", ".00", "00")
		case 3:
			s += digits(1+rnd(3)) + pick("e", "E") + pick("", "+", "-") + digits(1+rnd(2))
		case 4:
			s += digits(rnd(2)) + "." + digits(1+rnd(3)) + pick("e", "E") + pick("", "-") + digits(1)
		default:
			s += pick("0", "00", "0.0", ".0", "0e5", "0.0e3", "00012", "1000", "10", "0.50", "1.0", "100.0",
				// exponents at and beyond the int64 range: minify.Number gives such numbers back unchanged (K129)
				"0.5e9223372036854775808", "05e9223372036854775807", "0.5e-9223372036854775809", "1e99999999999999999999", "0e9223372036854775808", "00.50e-9223372036854775800")
		}
		return s
	}
	units := []string{"px", "em", "rem", "ex", "ch", "vw", "vh", "vmin", "vmax", "cm", "mm", "q", "in", "pt", "pc", "deg", "grad", "rad", "turn", "s", "ms", "hz", "khz", "dpi", "dpcm", "dppx", "fr", "x", "e", "PX", "Em", "REM", "S", "Q"}
	counts := map[string]int{}
	cnt := 0
	for i := 0; i < n; i++ {
		keep := rnd(3) == 0
		kind := pick("num", "num", "int", "pct", "dim", "dim", "dim", "dimfun", "dimunk")
		tok := number()
		prop, pre, post := "x", "", ""
		switch kind {
		case "int":
			prop = pick("z-index", "orphans", "widows")
		case "pct":
			tok += "%"
		case "dim":
			tok += units[rnd(len(units))]
		case "dimfun": // inside a function the minifier knows: the unit of a zero stays
			tok += units[rnd(len(units))]
			pre, post = pick("min(", "max(", "var(", "calc("), ")"
		case "dimunk": // a function the minifier has no hash for: the unit of a zero stays as well (K92 repaired)
			tok += units[rnd(len(units))]
			pre, post = "f(", ")"
		}
		src := "a{" + prop + ":" + pre + tok + post + "}"
		var out bytes.Buffer
		if err := (&cssmin.Minifier{KeepCSS2: keep}).Minify(m, &out, strings.NewReader(src), nil); err != nil {
			continue
		}
		o := out.String()
		wantPre, wantPost := "a{"+prop+":"+pre, post+"}"
		if !strings.HasPrefix(o, wantPre) || !strings.HasSuffix(o, wantPost) {
			counts["skipped-shape"]++
			continue
		}
		o = strings.TrimSuffix(strings.TrimPrefix(o, wantPre), wantPost)
		k := "0"
		if keep {
			k = "1"
		}
		// whether the implementation dropped the unit of a zero (it misses most opportunities: see Css/CssDim.v); the model
		// accepts a drop only where it is allowed
		drops := "0"
		if o == "0" && tok != "0" && (kind == "dim" || kind == "dimunk" || kind == "dimfun") {
			drops = "1"
			counts["unit-dropped"]++
		}
		fmt.Fprintf(fin, "cssdim\t%s\t%s\t%s\t%x\n", kind, k, drops, tok)
		fmt.Fprintf(fout, "%x\n", o)
		counts[kind]++
		if o != tok {
			counts["rewritten"]++
		}
		cnt++
	}
	// alpha values: the number / percentage token is minified and then written in the shorter of its two spellings
	// (minifyNumberPercentage, Css/CssAlpha.v): `a{color:rgba(1,2,3,A)}` in, the alpha token of the output out
	alphas := 0
	for i := 0; i < n/4; i++ {
		keep := rnd(3) == 0
		var tok string
		switch rnd(5) {
		case 0:
			tok = pick("", "0") + "." + pick("5", "50", "05", "005", "0012", "125", "015", "9", "90", "09", "25", "050", "1", "10", "01", "001")
		case 1:
			tok = pick("50", "5", "10", "90", "12.5", "1", "99", "20", "0.5", "50.0", "05", "7.50") + "%"
		case 2:
			tok = pick("1e-1", "5e-2", "5E-1", "25e-2", "1.5e-1", "50e-1%", "5e1%", "0.5e2%", ".00e99999999999999999999", "0.00E+99999999999999999999", ".001e-9223372036854775808", ".00e5")
		case 3:
			tok = "0." + digits(1+rnd(4))
		default:
			tok = digits(1+rnd(2)) + pick("", "."+digits(1)) + "%"
		}
		src := "a{color:rgba(1,2,3," + tok + ")}"
		var out bytes.Buffer
		if err := (&cssmin.Minifier{KeepCSS2: keep}).Minify(m, &out, strings.NewReader(src), nil); err != nil {
			continue
		}
		o := out.String()
		wantPre, wantPost := "a{color:rgba(1,2,3,", ")}"
		if !strings.HasPrefix(o, wantPre) || !strings.HasSuffix(o, wantPost) {
			counts["alpha-skipped-shape"]++ // fully opaque / transparent values leave the function notation
			continue
		}
		o = strings.TrimSuffix(strings.TrimPrefix(o, wantPre), wantPost)
		k, pc := "0", "0"
		if keep {
			k = "1"
		}
		if strings.HasSuffix(tok, "%") {
			pc = "1"
		}
		fmt.Fprintf(fin, "cssalpha\t%s\t%s\t%x\n", k, pc, tok)
		fmt.Fprintf(fout, "%x\n", o)
		alphas++
	}
	extra["cssdim_cases"] = cnt
	extra["cssalpha_cases"] = alphas
	extra["cssdim_kinds"] = counts
}
