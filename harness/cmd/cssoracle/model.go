package main

// Correspondence data for the Coq model Css/CssBox.v: EVERY list of one to four values over four distinct lengths, for
// margin, padding and border-width, through the real css.Minify; the extracted box_collapse must give the same list.

import (
	"bytes"
	"fmt"
	"os"
	"path/filepath"
	"strings"

	"github.com/tdewolff/minify/v2"
	cssmin "github.com/tdewolff/minify/v2/css"
)

func runBoxCases(outDir string, extra map[string]interface{}) {
	fin, _ := os.Create(filepath.Join(outDir, "cases.in"))
	fout, _ := os.Create(filepath.Join(outDir, "cases.go.out"))
	defer fin.Close()
	defer fout.Close()
	syms := []string{"1px", "2px", "3em", "4%"}
	idx := map[string]string{"1px": "1", "2px": "2", "3em": "3", "4%": "4"}
	m := minify.New()
	n := 0
	for _, prop := range []string{"margin", "padding", "border-width"} {
		for ln := 1; ln <= 4; ln++ {
			total := 1
			for i := 0; i < ln; i++ {
				total *= 4
			}
			for k := 0; k < total; k++ {
				var vals, ids []string
				x := k
				for i := 0; i < ln; i++ {
					vals = append(vals, syms[x%4])
					ids = append(ids, idx[syms[x%4]])
					x /= 4
				}
				src := "a{" + prop + ":" + strings.Join(vals, " ") + "}"
				var out bytes.Buffer
				if err := (&cssmin.Minifier{}).Minify(m, &out, strings.NewReader(src), nil); err != nil {
					continue
				}
				o := out.String()
				o = strings.TrimSuffix(strings.TrimPrefix(o, "a{"+prop+":"), "}")
				var got []string
				for _, t := range strings.Fields(o) {
					if id, ok := idx[t]; ok {
						got = append(got, id)
					} else {
						got = append(got, "?"+t)
					}
				}
				fmt.Fprintf(fin, "cssbox\t%s\n", strings.Join(ids, ","))
				fmt.Fprintf(fout, "%s\n", strings.Join(got, ","))
				n++
			}
		}
	}
	extra["cssbox_cases_exhaustive"] = n
}
