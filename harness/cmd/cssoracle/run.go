package main

// Running the real minifier under one configuration and judging one (input, options, mode) triple.

import (
	"bytes"
	"fmt"
	"regexp"
	"runtime/debug"
	"strconv"
	"strings"

	"github.com/tdewolff/minify/v2"
	"github.com/tdewolff/minify/v2/css"
)

// Config is one option combination.
type Config struct {
	Keep        bool
	Prec        int
	Inline      bool // declaration-list mode
	InlineField bool // use the deprecated Minifier.Inline field instead of params inline=1
}

func (c Config) Options() map[string]string {
	m := map[string]string{"KeepCSS2": strconv.FormatBool(c.Keep), "Precision": strconv.Itoa(c.Prec)}
	if c.Inline {
		if c.InlineField {
			m["Inline"] = "true"
		} else {
			m["params"] = "inline=1"
		}
	}
	return m
}

func (c Config) String() string {
	return fmt.Sprintf("keep=%v,prec=%d,inline=%v,field=%v", c.Keep, c.Prec, c.Inline, c.InlineField)
}

func newM(cfg Config) (*minify.M, *css.Minifier) {
	m := minify.New()
	o := &css.Minifier{KeepCSS2: cfg.Keep, Precision: cfg.Prec}
	if cfg.Inline && cfg.InlineField {
		o.Inline = true
	}
	m.Add("text/css", o)
	return m, o
}

// runMinify returns output, error and (if the library panicked) the panic text.
func runMinify(input string, cfg Config) (out string, err error, panicked string) {
	defer func() {
		if r := recover(); r != nil {
			panicked = fmt.Sprintf("%v\n%s", r, firstLines(string(debug.Stack()), 14))
		}
	}()
	m, _ := newM(cfg)
	var w bytes.Buffer
	mt := "text/css"
	if cfg.Inline && !cfg.InlineField {
		mt = "text/css;inline=1"
	}
	err = m.Minify(mt, &w, strings.NewReader(input))
	return w.String(), err, ""
}

func firstLines(s string, n int) string {
	lines := strings.Split(s, "\n")
	if len(lines) > n {
		lines = lines[:n]
	}
	return strings.Join(lines, "\n")
}

// Verdict of one evaluation.
type Verdict struct {
	Finding  *Finding
	Stats    *Stats
	Output   string
	Rejected bool // the minifier returned an error: input not accepted, nothing to judge
	Changed  bool // output differs from input
}

var urangeDeclRe = regexp.MustCompile(`(?i)unicode-range\s*:[^;}]*`)

func hasExponentNumber(toks []Tok) bool {
	for _, t := range toks {
		switch t.K {
		case KNumber, KPercentage, KDimension:
			if strings.ContainsAny(t.NumRepr, "eE") {
				return true
			}
		}
	}
	return false
}

// Evaluate judges one triple. strict = no oracle-side leniency for known shapes.
func Evaluate(input string, cfg Config, strict bool) Verdict {
	st := newStats()
	v := Verdict{Stats: st}
	out, err, pan := runMinify(input, cfg)
	if pan != "" {
		v.Finding = &Finding{Kind: "panic", Sig: "panic:first-pass", Detail: pan, InPart: input}
		return v
	}
	if err != nil {
		v.Rejected = true
		return v
	}
	v.Output = out
	v.Changed = out != input
	ctx := &Ctx{Strict: strict, Prec: cfg.Prec, Keep: cfg.Keep}
	ctx.Embed = func(mediatype string, payload []byte) ([]byte, bool) {
		defer func() { recover() }()
		m, _ := newM(cfg)
		b, err := m.Bytes(mediatype, append([]byte{}, payload...))
		return b, err == nil
	}
	in := ParseSheet(input, cfg.Inline)
	ou := ParseSheet(out, cfg.Inline)
	if f := compareSheets(in, ou, ctx, st); f != nil {
		v.Finding = f
		return v
	}
	// C16: KeepCSS2 forbids exponent notation that the input did not have
	if cfg.Keep {
		// (unicode-range values such as U+3E-3F only look like numbers to a css-syntax-3 tokenizer)
		ot := Tokenize(preprocess(urangeDeclRe.ReplaceAllString(out, "")))
		if hasExponentNumber(ot) && !hasExponentNumber(Tokenize(preprocess(urangeDeclRe.ReplaceAllString(input, "")))) {
			v.Finding = &Finding{Kind: "option", Sig: "keepcss2:exponent-introduced", InPart: input, OutPart: out}
			return v
		}
		if f := keepInitialCheck(in.Items, ou.Items); f != nil {
			v.Finding = f
			return v
		}
	}
	// C09: the output is accepted again
	_, err2, pan2 := runMinify(out, cfg)
	if pan2 != "" {
		v.Finding = &Finding{Kind: "panic", Sig: "panic:second-pass", Detail: pan2, InPart: input, OutPart: out}
	} else if err2 != nil {
		v.Finding = &Finding{Kind: "second-pass", Sig: "second-pass:rejected", Detail: err2.Error(), InPart: input, OutPart: out}
	}
	return v
}

// keepInitialCheck: with KeepCSS2 "background-color:transparent" must not become the CSS3 keyword initial.
func keepInitialCheck(in, out []Item) *Finding {
	for i := range in {
		if i >= len(out) {
			break
		}
		a, b := in[i], out[i]
		if a.R != nil && b.R != nil {
			if f := keepInitialCheck(a.R.Items, b.R.Items); f != nil {
				return f
			}
		}
		if a.D != nil && b.D != nil && a.D.Name == "background-color" {
			ci, co := components(a.D.Nodes), components(b.D.Nodes)
			if len(co) == 1 && isIdent(co[0], "initial") && !(len(ci) == 1 && isIdent(ci[0], "initial")) {
				return &Finding{Kind: "option", Sig: "keepcss2:initial-introduced", InPart: a.D.Raw, OutPart: b.D.Raw, Prop: a.D.Name}
			}
		}
	}
	return nil
}
