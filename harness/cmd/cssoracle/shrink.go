package main

// Shrinking: reduce a failing stylesheet to the single rule / declaration, then ddmin the tokens,
// always keeping the same signature.

import "strings"

type shrinker struct {
	cfg    Config
	strict bool
	sig    string
	calls  int
	budget int
}

func (s *shrinker) test(input string) *Finding {
	if s.calls >= s.budget {
		return nil
	}
	s.calls++
	v := Evaluate(input, s.cfg, s.strict)
	if v.Finding == nil {
		return nil
	}
	classify(v.Finding, input, s.cfg)
	if v.Finding.Signature() != s.sig {
		return nil
	}
	return v.Finding
}

// Shrink returns a smaller input with the same signature and its finding.
func Shrink(input string, cfg Config, strict bool, f *Finding) (string, *Finding) {
	s := &shrinker{cfg: cfg, strict: strict, sig: f.Signature(), budget: 500}
	best, bestF := input, f
	try := func(c string) bool {
		if len(c) >= len(best) {
			return false
		}
		if nf := s.test(c); nf != nil {
			best, bestF = c, nf
			return true
		}
		return false
	}
	// 1. structural candidates
	var cands []string
	switch f.Kind {
	case "decl":
		d := f.InPart
		if cfg.Inline {
			cands = append(cands, d)
		} else {
			sel := f.Sel
			open, close := "", ""
			for _, w := range f.Wrap {
				open += w + "{"
				close += "}"
			}
			if sel == "" && len(f.Wrap) > 0 { // declaration directly inside an at-rule (@font-face, @page)
				last := f.Wrap[len(f.Wrap)-1]
				cands = append(cands, strings.TrimSpace(last)+"{"+d+"}", open+d+close)
			} else {
				cands = append(cands, "a{"+d+"}", sel+"{"+d+"}", open+"a{"+d+"}"+close, open+sel+"{"+d+"}"+close)
			}
		}
	case "selector":
		cands = append(cands, f.InPart+"{}", f.InPart+"{x:y}")
	case "atrule":
		cands = append(cands, f.InPart+"{}", f.InPart+";", f.InPart)
	}
	for _, c := range cands {
		if try(c) {
			break
		}
	}
	// 2. token-level reduction (greedy ddmin with shrinking window)
	for round := 0; round < 6; round++ {
		toks := Tokenize(preprocess(best))
		if len(toks) > 300 || len(toks) < 2 {
			break
		}
		improved := false
		for size := len(toks) / 2; size >= 1; size /= 2 {
			for i := 0; i+size <= len(toks); {
				cand := rawOf(toks[:i]) + rawOf(toks[i+size:])
				if try(cand) {
					toks = Tokenize(preprocess(best))
					improved = true
				} else {
					i++
				}
				if s.calls >= s.budget {
					return best, bestF
				}
			}
		}
		if !improved {
			break
		}
	}
	return best, bestF
}
