package main

// Independent CSS tokenizer written from css-syntax-3 section 4 (not parse/css).
// Deviations (documented in FINDINGS.md): comments are dropped but remembered as a flag on the
// following token; numbers keep an exact rational value (math/big.Rat).

import (
	"math/big"
	"strings"
	"unicode/utf8"
)

type Kind uint8

const (
	KIdent Kind = iota
	KFunction
	KAtKeyword
	KHash
	KString
	KBadString
	KURL
	KBadURL
	KDelim
	KNumber
	KPercentage
	KDimension
	KWS
	KCDO
	KCDC
	KColon
	KSemicolon
	KComma
	KLBracket
	KRBracket
	KLParen
	KRParen
	KLBrace
	KRBrace
)

var kindNames = [...]string{"ident", "function", "at-keyword", "hash", "string", "bad-string", "url", "bad-url", "delim", "number", "percentage", "dimension", "ws", "CDO", "CDC", "colon", "semicolon", "comma", "[", "]", "(", ")", "{", "}"}

func (k Kind) String() string { return kindNames[k] }

// Tok is one token. Raw is the exact source text (after input preprocessing).
type Tok struct {
	K       Kind
	Raw     string
	Val     string   // unescaped name / string / url value; delim character; unit of a dimension
	Num     *big.Rat // exact value of number / percentage / dimension (nil if exponent is absurdly large)
	NumRepr string   // the numeric part of the source text
	Int     bool     // css-syntax "integer" type flag
	HashID  bool
	Comment bool // a comment stood directly before this token
	Pos     int
}

// preprocess implements css-syntax-3 section 3.3.
func preprocess(s string) string {
	if !strings.ContainsAny(s, "\r\f\x00") {
		return s
	}
	var b strings.Builder
	for i := 0; i < len(s); i++ {
		switch c := s[i]; c {
		case '\r':
			if i+1 < len(s) && s[i+1] == '\n' {
				i++
			}
			b.WriteByte('\n')
		case '\f':
			b.WriteByte('\n')
		case 0:
			b.WriteString("\uFFFD")
		default:
			b.WriteByte(c)
		}
	}
	return b.String()
}

type lexer struct {
	s string
	p int
}

func (l *lexer) at(i int) byte {
	if l.p+i < len(l.s) {
		return l.s[l.p+i]
	}
	return 0
}
func (l *lexer) eof(i int) bool { return l.p+i >= len(l.s) }

func isDigit(c byte) bool { return c >= '0' && c <= '9' }
func isHex(c byte) bool {
	return isDigit(c) || c >= 'a' && c <= 'f' || c >= 'A' && c <= 'F'
}
func isWS(c byte) bool { return c == ' ' || c == '\t' || c == '\n' }
func isIdentStart(c byte) bool {
	return c >= 'a' && c <= 'z' || c >= 'A' && c <= 'Z' || c == '_' || c >= 0x80
}
func isIdentChar(c byte) bool { return isIdentStart(c) || isDigit(c) || c == '-' }

func (l *lexer) validEscape(i int) bool {
	return !l.eof(i) && l.at(i) == '\\' && !(l.eof(i + 1)) && l.at(i+1) != '\n'
}

// validEscapeEOF: css-syntax treats "\" EOF as a valid escape only inside some consumers; for
// "starts with a valid escape" EOF after backslash IS valid (second code point is not newline).
func (l *lexer) validEscape2(i int) bool {
	if l.eof(i) || l.at(i) != '\\' {
		return false
	}
	if l.eof(i + 1) {
		return true
	}
	return l.at(i+1) != '\n'
}

func (l *lexer) wouldStartIdent(i int) bool {
	if l.eof(i) {
		return false
	}
	c := l.at(i)
	switch {
	case c == '-':
		if l.eof(i + 1) {
			return false
		}
		d := l.at(i + 1)
		return isIdentStart(d) || d == '-' || l.validEscape2(i+1)
	case isIdentStart(c):
		return true
	case c == '\\':
		return l.validEscape2(i)
	}
	return false
}

func (l *lexer) startsNumber(i int) bool {
	if l.eof(i) {
		return false
	}
	c := l.at(i)
	if c == '+' || c == '-' {
		if isDigit(l.at(i + 1)) {
			return true
		}
		return l.at(i+1) == '.' && isDigit(l.at(i+2))
	}
	if c == '.' {
		return isDigit(l.at(i + 1))
	}
	return isDigit(c)
}

// consumeEscape: positioned after the backslash.
func (l *lexer) consumeEscape(b *strings.Builder) {
	if l.eof(0) {
		b.WriteString("\uFFFD")
		return
	}
	if isHex(l.at(0)) {
		v := 0
		n := 0
		for n < 6 && !l.eof(0) && isHex(l.at(0)) {
			c := l.at(0)
			switch {
			case c <= '9':
				v = v*16 + int(c-'0')
			case c <= 'F':
				v = v*16 + int(c-'A') + 10
			default:
				v = v*16 + int(c-'a') + 10
			}
			l.p++
			n++
		}
		if !l.eof(0) && isWS(l.at(0)) {
			l.p++
		}
		if v == 0 || v >= 0xD800 && v <= 0xDFFF || v > 0x10FFFF {
			v = 0xFFFD
		}
		b.WriteRune(rune(v))
		return
	}
	r, n := utf8.DecodeRuneInString(l.s[l.p:])
	l.p += n
	if r == utf8.RuneError && n == 1 {
		b.WriteByte(l.s[l.p-1])
		return
	}
	b.WriteRune(r)
}

func (l *lexer) consumeName() string {
	var b strings.Builder
	for !l.eof(0) {
		c := l.at(0)
		if isIdentChar(c) {
			b.WriteByte(c)
			l.p++
		} else if c == '\\' && l.validEscape2(0) {
			l.p++
			l.consumeEscape(&b)
		} else {
			break
		}
	}
	return b.String()
}

const maxExp = 400

func (l *lexer) consumeNumber() (repr string, val *big.Rat, isInt bool) {
	st := l.p
	isInt = true
	if c := l.at(0); c == '+' || c == '-' {
		l.p++
	}
	for isDigit(l.at(0)) {
		l.p++
	}
	if l.at(0) == '.' && isDigit(l.at(1)) {
		isInt = false
		l.p += 2
		for isDigit(l.at(0)) {
			l.p++
		}
	}
	mantEnd := l.p
	exp := 0
	huge := false
	if c := l.at(0); c == 'e' || c == 'E' {
		d := l.at(1)
		k := 1
		if d == '+' || d == '-' {
			k = 2
		}
		if isDigit(l.at(k)) {
			isInt = false
			l.p += k
			es := l.p
			for isDigit(l.at(0)) {
				l.p++
			}
			digs := strings.TrimLeft(l.s[es:l.p], "0")
			if len(digs) > 3 {
				huge = true
			} else {
				for _, ch := range digs {
					exp = exp*10 + int(ch-'0')
				}
				if exp > maxExp {
					huge = true
				}
				if d == '-' {
					exp = -exp
				}
			}
		}
	}
	repr = l.s[st:l.p]
	if huge {
		return repr, nil, isInt
	}
	mant := l.s[st:mantEnd]
	if strings.HasPrefix(mant, "+") {
		mant = mant[1:]
	}
	if strings.HasPrefix(mant, ".") {
		mant = "0" + mant
	} else if strings.HasPrefix(mant, "-.") {
		mant = "-0" + mant[1:]
	}
	r, ok := new(big.Rat).SetString(mant)
	if !ok {
		return repr, nil, isInt
	}
	if exp != 0 {
		p := new(big.Int).Exp(big.NewInt(10), big.NewInt(int64(abs(exp))), nil)
		if exp > 0 {
			r.Mul(r, new(big.Rat).SetInt(p))
		} else {
			r.Quo(r, new(big.Rat).SetInt(p))
		}
	}
	return repr, r, isInt
}

func abs(a int) int {
	if a < 0 {
		return -a
	}
	return a
}

func (l *lexer) consumeNumeric(st int) Tok {
	repr, v, isInt := l.consumeNumber()
	t := Tok{Num: v, NumRepr: repr, Int: isInt, Pos: st}
	if l.wouldStartIdent(0) {
		t.K = KDimension
		t.Val = l.consumeName()
	} else if l.at(0) == '%' && !l.eof(0) {
		l.p++
		t.K = KPercentage
	} else {
		t.K = KNumber
	}
	t.Raw = l.s[st:l.p]
	return t
}

func (l *lexer) consumeString(q byte, st int) Tok {
	var b strings.Builder
	for {
		if l.eof(0) {
			return Tok{K: KString, Raw: l.s[st:l.p], Val: b.String(), Pos: st}
		}
		c := l.at(0)
		switch {
		case c == q:
			l.p++
			return Tok{K: KString, Raw: l.s[st:l.p], Val: b.String(), Pos: st}
		case c == '\n':
			return Tok{K: KBadString, Raw: l.s[st:l.p], Pos: st}
		case c == '\\':
			if l.eof(1) {
				l.p++
			} else if l.at(1) == '\n' {
				l.p += 2
			} else {
				l.p++
				l.consumeEscape(&b)
			}
		default:
			b.WriteByte(c)
			l.p++
		}
	}
}

func (l *lexer) consumeBadURLRemnants() {
	for !l.eof(0) {
		if l.at(0) == ')' {
			l.p++
			return
		}
		if l.validEscape(0) {
			l.p++
			var b strings.Builder
			l.consumeEscape(&b)
		} else {
			l.p++
		}
	}
}

func (l *lexer) consumeURL(st int) Tok {
	for !l.eof(0) && isWS(l.at(0)) {
		l.p++
	}
	var b strings.Builder
	for {
		if l.eof(0) {
			return Tok{K: KURL, Raw: l.s[st:l.p], Val: b.String(), Pos: st}
		}
		c := l.at(0)
		switch {
		case c == ')':
			l.p++
			return Tok{K: KURL, Raw: l.s[st:l.p], Val: b.String(), Pos: st}
		case isWS(c):
			for !l.eof(0) && isWS(l.at(0)) {
				l.p++
			}
			if l.eof(0) {
				return Tok{K: KURL, Raw: l.s[st:l.p], Val: b.String(), Pos: st}
			}
			if l.at(0) == ')' {
				l.p++
				return Tok{K: KURL, Raw: l.s[st:l.p], Val: b.String(), Pos: st}
			}
			l.consumeBadURLRemnants()
			return Tok{K: KBadURL, Raw: l.s[st:l.p], Pos: st}
		case c == '"' || c == '\'' || c == '(' || c <= 8 || c == 0x0B || c >= 0x0E && c <= 0x1F || c == 0x7F:
			l.consumeBadURLRemnants()
			return Tok{K: KBadURL, Raw: l.s[st:l.p], Pos: st}
		case c == '\\':
			if l.validEscape(0) {
				l.p++
				l.consumeEscape(&b)
			} else {
				l.consumeBadURLRemnants()
				return Tok{K: KBadURL, Raw: l.s[st:l.p], Pos: st}
			}
		default:
			b.WriteByte(c)
			l.p++
		}
	}
}

func (l *lexer) consumeIdentLike(st int) Tok {
	name := l.consumeName()
	if strings.EqualFold(name, "url") && l.at(0) == '(' && !l.eof(0) {
		l.p++
		// look past whitespace for a quote
		k := 0
		for !l.eof(k) && isWS(l.at(k)) {
			k++
		}
		if c := l.at(k); !l.eof(k) && (c == '"' || c == '\'') {
			return Tok{K: KFunction, Raw: l.s[st:l.p], Val: name, Pos: st}
		}
		return l.consumeURL(st)
	}
	if l.at(0) == '(' && !l.eof(0) {
		l.p++
		return Tok{K: KFunction, Raw: l.s[st:l.p], Val: name, Pos: st}
	}
	return Tok{K: KIdent, Raw: l.s[st:l.p], Val: name, Pos: st}
}

// Tokenize returns the token list of a (preprocessed) source.
func Tokenize(src string) []Tok {
	l := &lexer{s: src}
	var out []Tok
	comment := false
	emit := func(t Tok) {
		t.Comment = comment
		comment = false
		out = append(out, t)
	}
	simple := func(k Kind, n int) {
		emit(Tok{K: k, Raw: l.s[l.p : l.p+n], Val: l.s[l.p : l.p+n], Pos: l.p})
		l.p += n
	}
	for !l.eof(0) {
		st := l.p
		c := l.at(0)
		// comments
		if c == '/' && l.at(1) == '*' {
			end := strings.Index(l.s[l.p+2:], "*/")
			if end < 0 {
				l.p = len(l.s)
			} else {
				l.p += 2 + end + 2
			}
			comment = true
			continue
		}
		switch {
		case isWS(c):
			for !l.eof(0) && isWS(l.at(0)) {
				l.p++
			}
			emit(Tok{K: KWS, Raw: l.s[st:l.p], Pos: st})
		case c == '"' || c == '\'':
			l.p++
			emit(l.consumeString(c, st))
		case c == '#':
			if !l.eof(1) && (isIdentChar(l.at(1)) || l.validEscape2(1)) {
				id := l.wouldStartIdent(1)
				l.p++
				name := l.consumeName()
				emit(Tok{K: KHash, Raw: l.s[st:l.p], Val: name, HashID: id, Pos: st})
			} else {
				simple(KDelim, 1)
			}
		case c == '(':
			simple(KLParen, 1)
		case c == ')':
			simple(KRParen, 1)
		case c == '+':
			if l.startsNumber(0) {
				emit(l.consumeNumeric(st))
			} else {
				simple(KDelim, 1)
			}
		case c == ',':
			simple(KComma, 1)
		case c == '-':
			if l.startsNumber(0) {
				emit(l.consumeNumeric(st))
			} else if l.at(1) == '-' && l.at(2) == '>' {
				simple(KCDC, 3)
			} else if l.wouldStartIdent(0) {
				emit(l.consumeIdentLike(st))
			} else {
				simple(KDelim, 1)
			}
		case c == '.':
			if l.startsNumber(0) {
				emit(l.consumeNumeric(st))
			} else {
				simple(KDelim, 1)
			}
		case c == ':':
			simple(KColon, 1)
		case c == ';':
			simple(KSemicolon, 1)
		case c == '<':
			if l.at(1) == '!' && l.at(2) == '-' && l.at(3) == '-' {
				simple(KCDO, 4)
			} else {
				simple(KDelim, 1)
			}
		case c == '@':
			if l.wouldStartIdent(1) {
				l.p++
				name := l.consumeName()
				emit(Tok{K: KAtKeyword, Raw: l.s[st:l.p], Val: name, Pos: st})
			} else {
				simple(KDelim, 1)
			}
		case c == '[':
			simple(KLBracket, 1)
		case c == '\\':
			if l.validEscape2(0) {
				emit(l.consumeIdentLike(st))
			} else {
				simple(KDelim, 1)
			}
		case c == ']':
			simple(KRBracket, 1)
		case c == '{':
			simple(KLBrace, 1)
		case c == '}':
			simple(KRBrace, 1)
		case isDigit(c):
			emit(l.consumeNumeric(st))
		case isIdentStart(c):
			emit(l.consumeIdentLike(st))
		default:
			_, n := utf8.DecodeRuneInString(l.s[l.p:])
			if n < 1 {
				n = 1
			}
			simple(KDelim, n)
		}
	}
	return out
}

// Node is a component value: a preserved token, a function with arguments or a simple block.
type Node struct {
	T      Tok
	Kids   []Node
	Closed bool
}

func (n *Node) isFn(names ...string) bool {
	if n.T.K != KFunction {
		return false
	}
	l := strings.ToLower(n.T.Val)
	for _, x := range names {
		if l == x {
			return true
		}
	}
	return false
}

func closerOf(k Kind) Kind {
	switch k {
	case KFunction, KLParen:
		return KRParen
	case KLBracket:
		return KRBracket
	case KLBrace:
		return KRBrace
	}
	return KWS
}

// parseNodes builds component values from a flat token list.
func parseNodes(toks []Tok) []Node {
	ns, _ := parseNodesUntil(toks, 0, KWS)
	return ns
}

func parseNodesUntil(toks []Tok, i int, closer Kind) ([]Node, int) {
	var out []Node
	for i < len(toks) {
		t := toks[i]
		if closer != KWS && t.K == closer {
			return out, i
		}
		switch t.K {
		case KFunction, KLParen, KLBracket, KLBrace:
			kids, j := parseNodesUntil(toks, i+1, closerOf(t.K))
			n := Node{T: t, Kids: kids}
			if j < len(toks) {
				n.Closed = true
				j++
			}
			out = append(out, n)
			i = j
		default:
			out = append(out, Node{T: t})
			i++
		}
	}
	return out, i
}

// rawOf re-serialises a token list from its source text.
func rawOf(toks []Tok) string {
	var b strings.Builder
	for _, t := range toks {
		if t.Comment {
			b.WriteString("/**/")
		}
		b.WriteString(t.Raw)
	}
	return b.String()
}

func nodeRaw(n Node) string {
	var b strings.Builder
	writeNodeRaw(&b, n)
	return b.String()
}

func writeNodeRaw(b *strings.Builder, n Node) {
	if n.T.Comment {
		b.WriteString("/**/")
	}
	b.WriteString(n.T.Raw)
	switch n.T.K {
	case KFunction, KLParen, KLBracket, KLBrace:
		for _, k := range n.Kids {
			writeNodeRaw(b, k)
		}
		if n.Closed {
			switch closerOf(n.T.K) {
			case KRParen:
				b.WriteByte(')')
			case KRBracket:
				b.WriteByte(']')
			case KRBrace:
				b.WriteByte('}')
			}
		}
	}
}

func nodesRaw(ns []Node) string {
	var b strings.Builder
	for _, n := range ns {
		writeNodeRaw(&b, n)
	}
	return b.String()
}

// nodesRawNC: source text without comment markers.
func nodesRawNC(ns []Node) string {
	var b strings.Builder
	for _, n := range ns {
		writeNodeRawNC(&b, n)
	}
	return b.String()
}

func writeNodeRawNC(b *strings.Builder, n Node) {
	b.WriteString(n.T.Raw)
	switch n.T.K {
	case KFunction, KLParen, KLBracket, KLBrace:
		for _, k := range n.Kids {
			writeNodeRawNC(b, k)
		}
		if n.Closed {
			switch closerOf(n.T.K) {
			case KRParen:
				b.WriteByte(')')
			case KRBracket:
				b.WriteByte(']')
			case KRBrace:
				b.WriteByte('}')
			}
		}
	}
}
