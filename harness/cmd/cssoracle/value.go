package main

// Generic value normalisation: component values -> atoms, compared with exact arithmetic.

import (
	"math/big"
	"strings"
)

// Ctx carries the comparison mode.
type Ctx struct {
	Strict bool // no leniency for the oracle-side known shapes (K22, K45, N08 zero angle, N09 zero flex-basis)
	Prec   int  // Precision option (>0: numeric tolerance)
	Keep   bool // KeepCSS2
	Embed  embedFn
}

type Atom struct {
	K      byte // n number, c colour, i ident, s string, u url, f function, b block, d delimiter, w whitespace, h hash, x other
	S      string
	N      *big.Rat
	U      string
	C      *Color
	Kids   []Atom
	Lbl    string
	Nd     *Node
	Closed bool
}

func (a Atom) String() string {
	switch a.K {
	case 'n':
		return a.Lbl + ratStr(a.N) + a.U
	case 'c':
		return a.Lbl + a.C.String()
	case 'f', 'b':
		var parts []string
		for _, k := range a.Kids {
			parts = append(parts, k.String())
		}
		return a.Lbl + a.S + "(" + strings.Join(parts, " ") + ")"
	case 'w':
		return "_"
	case 's':
		return a.Lbl + "\"" + a.S + "\""
	case 'u':
		return a.Lbl + "url<" + a.S + ">"
	}
	return a.Lbl + a.S
}

func atomsString(as []Atom) string {
	var parts []string
	for _, a := range as {
		parts = append(parts, a.String())
	}
	return strings.Join(parts, " ")
}

func ratStr(r *big.Rat) string {
	if r == nil {
		return "?"
	}
	if r.IsInt() {
		return r.Num().String()
	}
	s := r.FloatString(12)
	s = strings.TrimRight(s, "0")
	return strings.TrimSuffix(s, ".")
}

var lengthUnits = map[string]bool{"px": true, "mm": true, "q": true, "cm": true, "in": true, "pt": true, "pc": true, "ch": true, "em": true, "ex": true, "rem": true, "vh": true, "vw": true, "vmin": true, "vmax": true, "vi": true, "vb": true, "lh": true, "rlh": true, "cap": true, "ic": true}
var angleUnits = map[string]bool{"deg": true, "grad": true, "rad": true, "turn": true}

func unitClass(u string) string {
	switch {
	case u == "":
		return "number"
	case u == "%":
		return "percentage"
	case lengthUnits[u]:
		return "length"
	case angleUnits[u]:
		return "angle"
	case u == "s" || u == "ms":
		return "time"
	case u == "hz" || u == "khz":
		return "frequency"
	case u == "dpi" || u == "dpcm" || u == "dppx" || u == "x":
		return "resolution"
	case u == "fr":
		return "flex"
	}
	return "unknown"
}

// isMathFn: css-values-4 math functions; inside them a bare 0 is a <number>, never a <length>,
// and whitespace around + and - is significant.
func isMathFn(name string) bool {
	switch name {
	case "calc", "min", "max", "clamp", "-webkit-calc", "-moz-calc",
		"round", "mod", "rem", "sin", "cos", "tan", "asin", "acos", "atan", "atan2", "pow", "sqrt", "hypot", "log", "exp", "abs", "sign":
		return true
	}
	return false
}

// legacyZeroAngleFn: functions whose grammar accepts a unitless zero for an <angle>
// (css-transforms-1 rotate()/skew*(), css-images-4 gradients "<angle> | <zero>", filter-effects hue-rotate()).
func legacyZeroAngleFn(name string) bool {
	switch name {
	case "rotate", "rotatex", "rotatey", "rotatez", "rotate3d", "skew", "skewx", "skewy", "hue-rotate":
		return true
	}
	return strings.HasSuffix(name, "-gradient")
}

// numAtom: zeroLen says whether a zero <length> may be written without unit at this position.
func numAtom(n *Node, zeroLen bool, ctx *Ctx) Atom { return numAtomA(n, zeroLen, false, ctx) }

// zeroAngle: a zero <angle> may be written without unit here even under the strict reading.
func numAtomA(n *Node, zeroLen bool, zeroAngle bool, ctx *Ctx) Atom {
	t := n.T
	if t.Num == nil {
		return Atom{K: 'x', S: strings.ToLower(t.Raw), Nd: n}
	}
	a := Atom{K: 'n', N: t.Num, Nd: n}
	switch t.K {
	case KPercentage:
		a.U = "%"
	case KDimension:
		a.U = strings.ToLower(t.Val)
		if zeroLen && t.Num.Sign() == 0 {
			if lengthUnits[a.U] || ((!ctx.Strict || zeroAngle) && angleUnits[a.U]) {
				a.U = ""
			}
		}
	}
	return a
}

// genericAtoms normalises a component value list.
// top: declaration top level (zero lengths may drop the unit, as css-values allows for <length>).
// math: inside calc()-like functions whitespace next to + and - is significant.
func genericAtoms(ns []Node, top bool, math bool, zeroLen bool, ctx *Ctx) []Atom {
	return genericAtomsA(ns, top, math, zeroLen, false, ctx)
}

func genericAtomsA(ns []Node, top bool, math bool, zeroLen bool, zeroAngle bool, ctx *Ctx) []Atom {
	out := make([]Atom, 0, len(ns))
	pendingWS := false
	for i := range ns {
		n := &ns[i]
		if n.T.K == KWS {
			pendingWS = true
			continue
		}
		isPM := n.T.K == KDelim && (n.T.Val == "+" || n.T.Val == "-")
		prevPM := len(out) > 0 && out[len(out)-1].K == 'd' && (out[len(out)-1].S == "+" || out[len(out)-1].S == "-")
		if math && pendingWS && len(out) > 0 && (isPM || prevPM) {
			out = append(out, Atom{K: 'w'})
		}
		pendingWS = false
		if k := n.T.K; (k == KDimension) && zeroAngle {
			out = append(out, numAtomA(n, zeroLen, true, ctx))
		} else {
			out = append(out, nodeAtom(n, top, math, zeroLen, ctx))
		}
	}
	return out
}

func nodeAtom(n *Node, top bool, math bool, zeroLen bool, ctx *Ctx) Atom {
	t := n.T
	switch t.K {
	case KNumber, KPercentage, KDimension:
		return numAtom(n, zeroLen, ctx)
	case KIdent:
		return Atom{K: 'i', S: t.Val, Nd: n}
	case KHash:
		return Atom{K: 'h', S: t.Raw, Nd: n}
	case KString:
		return Atom{K: 's', S: t.Val, Nd: n}
	case KURL:
		return Atom{K: 'u', S: t.Val, Nd: n}
	case KFunction:
		name := strings.ToLower(t.Val)
		if name == "url" && n.Closed {
			var str *Node
			okk := true
			for i := range n.Kids {
				k := &n.Kids[i]
				if k.T.K == KWS {
					continue
				}
				if k.T.K == KString && str == nil {
					str = k
				} else {
					okk = false
				}
			}
			if okk && str != nil {
				return Atom{K: 'u', S: str.T.Val, Nd: n}
			}
		}
		if c, ok := colorOf(*n); ok {
			return Atom{K: 'c', C: c, Nd: n}
		}
		// inside an ordinary function a zero <length> may drop its unit like anywhere else; inside
		// math functions it may not
		mf := isMathFn(name)
		return Atom{K: 'f', S: name, Kids: genericAtomsA(n.Kids, false, mf, !mf && name != "var" && name != "env" && name != "attr", legacyZeroAngleFn(name), ctx), Nd: n, Closed: n.Closed}
	case KLParen:
		return Atom{K: 'b', S: "(", Kids: genericAtoms(n.Kids, false, math, zeroLen && !math, ctx), Nd: n, Closed: n.Closed}
	case KLBracket:
		return Atom{K: 'b', S: "[", Kids: genericAtoms(n.Kids, false, false, false, ctx), Nd: n, Closed: n.Closed}
	case KLBrace:
		return Atom{K: 'b', S: "{", Kids: genericAtoms(n.Kids, false, false, false, ctx), Nd: n, Closed: n.Closed}
	case KDelim, KColon, KComma, KSemicolon, KRParen, KRBracket, KRBrace:
		return Atom{K: 'd', S: t.Raw, Nd: n}
	}
	return Atom{K: 'x', S: t.Raw, Nd: n}
}

// numEq compares numbers; with Precision p>0 the output may deviate by half a unit of the p-th
// significant digit of the input.
func numEq(in, out *big.Rat, ctx *Ctx) bool {
	if in.Cmp(out) == 0 {
		return true
	}
	if ctx.Prec <= 0 || in.Sign() == 0 {
		return false
	}
	// E = floor(log10 |in|)
	a := new(big.Rat).Abs(in)
	e := 0
	ten := ri(10)
	one := ri(1)
	for a.Cmp(ten) >= 0 {
		a.Quo(a, ten)
		e++
	}
	for a.Cmp(one) < 0 {
		a.Mul(a, ten)
		e--
	}
	k := e - ctx.Prec + 1
	tol := rf(1, 2)
	p := new(big.Rat).SetInt(new(big.Int).Exp(big.NewInt(10), big.NewInt(int64(abs(k))), nil))
	if k >= 0 {
		tol.Mul(tol, p)
	} else {
		tol.Quo(tol, p)
	}
	return ratAbsDiff(in, out).Cmp(tol) <= 0
}

// atomEq returns "" or a description of the difference.
func atomEq(in, out Atom, ctx *Ctx) string {
	if in.K == 'c' || out.K == 'c' {
		ci, co := in.C, out.C
		if ci == nil && in.Nd != nil && (in.K == 'i' || in.K == 'h') {
			ci, _ = colorOf(*in.Nd)
		}
		if co == nil && out.Nd != nil && (out.K == 'i' || out.K == 'h') {
			co, _ = colorOf(*out.Nd)
		}
		if ci == nil || co == nil {
			return "tokens-changed"
		}
		if d := colorDiff(ci, co, !ctx.Strict && ci.Quant); d != "" { // K45 leniency for 8-bit notations only: function notations keep their channels
			return "color:" + d
		}
		return ""
	}
	if in.K != out.K {
		return "tokens-changed"
	}
	switch in.K {
	case 'n':
		if !numEq(in.N, out.N, ctx) {
			return "number:value-changed"
		}
		if in.U != out.U {
			if out.U == "" && in.N.Sign() == 0 {
				return "zero-unit-dropped:" + unitClass(in.U)
			}
			return "number:unit-changed"
		}
		return ""
	case 'u':
		if in.S == out.S {
			return ""
		}
		return urlDiff(in.S, out.S, ctx.Embed)
	case 'f', 'b':
		if in.S != out.S {
			return "tokens-changed"
		}
		if in.Closed != out.Closed {
			return "block-closing-changed"
		}
		_, why := atomsEq(in.Kids, out.Kids, ctx)
		return why
	case 'w':
		return ""
	default:
		if in.S != out.S {
			switch in.K {
			case 's':
				return "string:value-changed"
			case 'i':
				if strings.EqualFold(in.S, out.S) {
					return "ident:case-changed"
				}
				return "ident:changed"
			case 'h':
				return "hash:changed"
			}
			return "tokens-changed"
		}
	}
	return ""
}

// atomsEq compares two atom lists; returns index of first difference and why ("" = equal).
func atomsEq(in, out []Atom, ctx *Ctx) (int, string) {
	n := len(in)
	if len(out) < n {
		n = len(out)
	}
	for i := 0; i < n; i++ {
		if why := atomEq(in[i], out[i], ctx); why != "" {
			if len(in) > len(out) {
				if f := fusionAt(in, out, i); f != "" {
					return i, f
				}
			}
			if why == "tokens-changed" && (in[i].K == 'w' || out[i].K == 'w') {
				return i, "whitespace:significant-changed"
			}
			if in[i].Lbl != "" && !strings.HasPrefix(why, in[i].Lbl) {
				return i, in[i].Lbl + why
			}
			return i, why
		}
	}
	if len(in) != len(out) {
		if f := fusionAt(in, out, n); f != "" {
			return n, f
		}
		if len(in) > len(out) {
			return n, "tokens-dropped"
		}
		return n, "tokens-added"
	}
	return -1, ""
}

func atomRaw(a Atom) string {
	if a.K == 'w' {
		return " "
	}
	if a.Nd != nil {
		return nodeRaw(*a.Nd)
	}
	return a.S
}

// fusionAt: do two adjacent input tokens appear glued together as one output token?
func fusionAt(in, out []Atom, i int) string {
	if i < len(out) && i+1 < len(in) {
		j := i + 1
		if in[j].K == 'w' && j+1 < len(in) {
			j++
		}
		a, b := atomRawNC(in[i]), atomRawNC(in[j])
		o := atomRawNC(out[i])
		if o != "" && (a+b == o || strings.HasPrefix(o, a+b)) {
			return "fusion:" + kindWord(in[i]) + "+" + kindWord(in[j])
		}
	}
	return ""
}

func kindWord(a Atom) string {
	switch a.K {
	case 'n':
		return "number"
	case 'i':
		return "ident"
	case 'h':
		return "hash"
	case 's':
		return "string"
	case 'd':
		return "delim"
	case 'f':
		return "function"
	case 'c':
		return "color"
	case 'u':
		return "url"
	}
	return "token"
}

// components returns the non-whitespace top-level nodes.
func components(ns []Node) []*Node {
	var out []*Node
	for i := range ns {
		if ns[i].T.K != KWS {
			out = append(out, &ns[i])
		}
	}
	return out
}

func isIdent(n *Node, names ...string) bool {
	if n.T.K != KIdent {
		return false
	}
	l := strings.ToLower(n.T.Val)
	for _, x := range names {
		if l == x {
			return true
		}
	}
	return false
}

func lowerIdent(n *Node) string {
	if n.T.K != KIdent {
		return ""
	}
	return strings.ToLower(n.T.Val)
}

func isDelim(n *Node, c string) bool { return n.T.K == KDelim && n.T.Val == c }

var cssWide = map[string]bool{"inherit": true, "initial": true, "unset": true, "revert": true, "revert-layer": true}

// splitCommas splits components at top-level commas.
func splitCommas(cs []*Node) [][]*Node {
	var out [][]*Node
	cur := []*Node{}
	for _, c := range cs {
		if c.T.K == KComma {
			out = append(out, cur)
			cur = []*Node{}
		} else {
			cur = append(cur, c)
		}
	}
	return append(out, cur)
}

func hasSubstitution(ns []Node) bool {
	for i := range ns {
		n := &ns[i]
		if n.T.K == KFunction {
			switch strings.ToLower(n.T.Val) {
			case "var", "env", "attr":
				return true
			}
		}
		if len(n.Kids) > 0 && hasSubstitution(n.Kids) {
			return true
		}
	}
	return false
}

func atomRawNC(a Atom) string {
	if a.K == 'w' {
		return " "
	}
	if a.Nd != nil {
		return nodesRawNC([]Node{*a.Nd})
	}
	return a.S
}
