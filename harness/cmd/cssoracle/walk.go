package main

// Rule walk following css-syntax-3 section 5 (consume a list of rules / at-rule / qualified rule /
// list of declarations), on top of the independent tokenizer.

import "strings"

type Decl struct {
	Name      string // ASCII-lowercased unless custom property
	Custom    bool
	Nodes     []Node // value without !important, outer whitespace trimmed
	Important bool
	Raw       string // "name:value[!important]" source text
	RawValue  string // source text of the value (trimmed)
}

const (
	BlockNone = iota
	BlockRules
	BlockDecls
	BlockOpaque
)

type Rule struct {
	At        bool
	Name      string // at-rule name, lowercased, without '@'
	Prelude   []Node
	HasBlock  bool
	BlockKind int
	Items     []Item
	Opaque    []Node
	Raw       string
}

// Item is a rule, a declaration or junk (tokens that form neither).
type Item struct {
	D    *Decl
	R    *Rule
	Junk []Node
}

func stripVendor(name string) string {
	if strings.HasPrefix(name, "-") {
		if i := strings.IndexByte(name[1:], '-'); i >= 0 {
			return name[i+2:]
		}
	}
	return name
}

func atBlockKind(name string) int {
	switch stripVendor(name) {
	case "media", "supports", "document", "keyframes":
		return BlockRules
	case "font-face", "page":
		return BlockDecls
	}
	return BlockOpaque
}

func trimWS(ns []Node) []Node {
	for len(ns) > 0 && ns[0].T.K == KWS {
		ns = ns[1:]
	}
	for len(ns) > 0 && ns[len(ns)-1].T.K == KWS {
		ns = ns[:len(ns)-1]
	}
	return ns
}

func isBlock(n Node, k Kind) bool { return n.T.K == k }

// parseRuleList: top = stylesheet level (CDO/CDC dropped).
func parseRuleList(ns []Node, top bool) []Item {
	var items []Item
	i := 0
	for i < len(ns) {
		n := ns[i]
		switch {
		case n.T.K == KWS:
			i++
		case top && (n.T.K == KCDO || n.T.K == KCDC):
			i++
		case n.T.K == KAtKeyword:
			r, j := parseAtRule(ns, i)
			items = append(items, Item{R: r})
			i = j
		default:
			// qualified rule: prelude until {} block
			j := i
			for j < len(ns) && !isBlock(ns[j], KLBrace) {
				j++
			}
			if j >= len(ns) {
				items = append(items, Item{Junk: trimWS(ns[i:])})
				i = j
				break
			}
			r := &Rule{Prelude: trimWS(ns[i:j]), HasBlock: true, BlockKind: BlockDecls}
			r.Items = parseDeclList(ns[j].Kids)
			r.Raw = nodesRaw(ns[i : j+1])
			items = append(items, Item{R: r})
			i = j + 1
		}
	}
	return items
}

func parseAtRule(ns []Node, i int) (*Rule, int) {
	r := &Rule{At: true, Name: strings.ToLower(ns[i].T.Val)}
	j := i + 1
	for j < len(ns) && !isBlock(ns[j], KLBrace) && ns[j].T.K != KSemicolon {
		j++
	}
	r.Prelude = trimWS(ns[i+1 : j])
	if j < len(ns) && isBlock(ns[j], KLBrace) {
		r.HasBlock = true
		r.BlockKind = atBlockKind(r.Name)
		switch r.BlockKind {
		case BlockRules:
			r.Items = parseRuleList(ns[j].Kids, false)
		case BlockDecls:
			r.Items = parseDeclList(ns[j].Kids)
		default:
			r.Opaque = ns[j].Kids
		}
	}
	end := j
	if j < len(ns) {
		end = j + 1
	}
	r.Raw = nodesRaw(ns[i:end])
	return r, end
}

func parseDeclList(ns []Node) []Item {
	var items []Item
	i := 0
	for i < len(ns) {
		n := ns[i]
		switch {
		case n.T.K == KWS || n.T.K == KSemicolon:
			i++
		case n.T.K == KAtKeyword:
			r, j := parseAtRule(ns, i)
			items = append(items, Item{R: r})
			i = j
		default:
			j := i
			for j < len(ns) && ns[j].T.K != KSemicolon {
				j++
			}
			chunk := trimWS(ns[i:j])
			if d := parseDecl(chunk); d != nil {
				items = append(items, Item{D: d})
			} else {
				items = append(items, Item{Junk: chunk})
			}
			i = j
		}
	}
	return items
}

func parseDecl(ns []Node) *Decl {
	if len(ns) == 0 {
		return nil
	}
	k := 0
	name := ""
	// IE hack: a leading '*' delimiter glued to the property name
	if ns[0].T.K == KDelim && ns[0].T.Val == "*" && len(ns) > 1 && ns[1].T.K == KIdent {
		name = "*"
		k = 1
	}
	if ns[k].T.K != KIdent {
		return nil
	}
	name += ns[k].T.Val
	k++
	for k < len(ns) && ns[k].T.K == KWS {
		k++
	}
	if k >= len(ns) || ns[k].T.K != KColon {
		return nil
	}
	val := trimWS(ns[k+1:])
	d := &Decl{Raw: nodesRaw(ns)}
	if strings.HasPrefix(name, "--") {
		d.Custom = true
		d.Name = name
		d.Nodes = val
		d.RawValue = nodesRaw(val)
		return d
	}
	d.Name = strings.ToLower(name)
	// !important
	if n := len(val); n >= 2 && val[n-1].T.K == KIdent && strings.EqualFold(val[n-1].T.Val, "important") {
		m := n - 2
		for m >= 0 && val[m].T.K == KWS {
			m--
		}
		if m >= 0 && val[m].T.K == KDelim && val[m].T.Val == "!" {
			d.Important = true
			val = trimWS(val[:m])
		}
	}
	d.Nodes = val
	d.RawValue = nodesRaw(val)
	return d
}

// Sheet is a parsed input: either a stylesheet (rules) or an inline declaration list.
type Sheet struct {
	Inline bool
	Items  []Item
}

func ParseSheet(src string, inline bool) *Sheet {
	ns := parseNodes(Tokenize(preprocess(src)))
	if inline {
		return &Sheet{Inline: true, Items: parseDeclList(ns)}
	}
	return &Sheet{Items: parseRuleList(ns, true)}
}
