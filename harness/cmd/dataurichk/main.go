// dataurichk: correspondence data and oracle for C18 (minify.DataURI, minify.Mediatype).
//
//	dataurichk -seed N -n COUNT -out DIR [-tier quick|thorough] [-witness FILE]
package main

import (
	"bufio"
	"bytes"
	"encoding/base64"
	"encoding/json"
	"flag"
	"fmt"
	"io"
	"os"
	"path/filepath"
	"strings"

	"github.com/tdewolff/minify/v2"
	"github.com/tdewolff/parse/v2"
	"verifharness/internal/vh"
)

func hexd(b []byte) string {
	if len(b) == 0 {
		return "-"
	}
	return vh.Hex(b)
}

// ---- independent RFC 2397 reading of a data URI (RFC 3986 percent-decoding: '+' stays '+') ----
type duri struct {
	mt     string
	base64 bool
	data   []byte
	valid  bool // payload validly encoded
}

func pctDecode(s string) ([]byte, bool) {
	var out []byte
	valid := true
	for i := 0; i < len(s); i++ {
		if s[i] == '%' {
			if i+2 < len(s)+0 && i+2 <= len(s)-1 && ishex(s[i+1]) && ishex(s[i+2]) {
				out = append(out, unhex(s[i+1])<<4|unhex(s[i+2]))
				i += 2
				continue
			}
			valid = false
		}
		if s[i] <= ' ' || s[i] >= 0x7f || strings.IndexByte("\"<>\\^`{|}[]#", s[i]) >= 0 {
			valid = false
		}
		out = append(out, s[i])
	}
	return out, valid
}
func ishex(c byte) bool { return c >= '0' && c <= '9' || c >= 'a' && c <= 'f' || c >= 'A' && c <= 'F' }
func unhex(c byte) byte {
	switch {
	case c <= '9':
		return c - '0'
	case c <= 'F':
		return c - 'A' + 10
	}
	return c - 'a' + 10
}

func readDataURI(u string) (duri, bool) {
	if len(u) < 5 || u[:5] != "data:" {
		return duri{}, false
	}
	rest := u[5:]
	i := strings.IndexByte(rest, ',')
	if i < 0 {
		return duri{}, false
	}
	hdr, payload := rest[:i], rest[i+1:]
	d := duri{}
	// ";base64" as the last parameter
	parts := strings.Split(hdr, ";")
	if len(parts) > 1 && strings.TrimSpace(parts[len(parts)-1]) == "base64" {
		d.base64 = true
		parts = parts[:len(parts)-1]
	}
	d.mt = strings.Join(parts, ";")
	if d.base64 {
		b, err := base64.StdEncoding.DecodeString(payload)
		if err != nil {
			return duri{}, false
		}
		d.data, d.valid = b, true
	} else {
		d.data, d.valid = pctDecode(payload)
	}
	return d, true
}

// normMT: case-insensitive, whitespace outside quotes removed, default text/plain and charset=us-ascii dropped
func normMT(mt string) string {
	var b strings.Builder
	inq := false
	for i := 0; i < len(mt); i++ {
		c := mt[i]
		if c == '"' {
			inq = !inq
		}
		if !inq && (c == ' ' || c == '\t' || c == '\n' || c == '\r' || c == '\f') {
			continue
		}
		if !inq && c >= 'A' && c <= 'Z' {
			c += 32
		}
		b.WriteByte(c)
	}
	parts := strings.Split(b.String(), ";")
	var out []string
	for i, p := range parts {
		if i == 0 {
			if p == "text/plain" {
				p = ""
			}
			out = append(out, p)
			continue
		}
		if p == "charset=us-ascii" {
			continue
		}
		out = append(out, p)
	}
	s := strings.Join(out, ";")
	return s
}

type stub struct {
	name string
	fn   func([]byte) ([]byte, error)
}

var stubs = []stub{
	{"none", nil},
	{"identity", func(b []byte) ([]byte, error) { return b, nil }},
	{"dropspaces", func(b []byte) ([]byte, error) { return bytes.ReplaceAll(b, []byte(" "), nil), nil }},
	{"fail", func(b []byte) ([]byte, error) { return nil, fmt.Errorf("stub failure") }},
	{"grow", func(b []byte) ([]byte, error) { return append(append([]byte{}, b...), " <x>"...), nil }},
}

func registry(s stub) *minify.M {
	m := minify.New()
	if s.fn != nil {
		m.AddFuncRegexp(regexpAll, func(_ *minify.M, w io.Writer, r io.Reader, _ map[string]string) error {
			in, _ := io.ReadAll(r)
			out, err := s.fn(in)
			if err != nil {
				return err
			}
			w.Write(out)
			return nil
		})
	}
	return m
}

func genMT(r *vh.Rand) string {
	base := r.Pick("", "text/plain", "TEXT/PLAIN", "text/css", "image/svg+xml", "application/octet-stream", "Text/Html", "image/png", "text/plain ", " text/css")
	var b strings.Builder
	b.WriteString(base)
	for i := r.Intn(3); i > 0; i-- {
		b.WriteString(r.Pick(";", "; ", " ;"))
		b.WriteString(r.Pick("charset=us-ascii", "charset=US-ASCII", "charset=utf-8", "charset=us-ascii2", "a=b", "name=\"A b;c\"", "x", "charset=us-ascii ", "x-charset=us-ascii", "mycharset=us-ascii", "a=charset=us-ascii", "name=\"It's B\"", "n='A B'"))
	}
	return b.String()
}

func genPayload(r *vh.Rand) []byte {
	n := r.Intn(40)
	if r.Chance(1, 10) {
		n = r.Intn(600)
	}
	b := make([]byte, n)
	mode := r.Intn(5)
	for i := range b {
		switch mode {
		case 0: // any byte
			b[i] = byte(r.Intn(256))
		case 1: // printable ascii
			b[i] = byte(33 + r.Intn(94))
		case 2: // mostly safe with some escapes
			if r.Chance(1, 6) {
				esc := " \"#%&<>[]\\^`{|}\x7f\x80\xff\n+"
				b[i] = esc[r.Intn(len(esc))]
			} else {
				b[i] = byte('a' + r.Intn(26))
			}
		case 3: // css-like
			css := "a{color: red;} .b#c>d+e~f [x='y'] /**/"
			b[i] = css[r.Intn(len(css))]
		default:
			b[i] = byte(r.Intn(128))
		}
	}
	return b
}

func pctEncodeLoose(r *vh.Rand, p []byte) string {
	var b strings.Builder
	for _, c := range p {
		safe := c > ' ' && c < 0x7f && strings.IndexByte("\"#%<>\\^`{|}[]", c) < 0
		if !safe || r.Chance(1, 10) {
			if r.Bool() {
				fmt.Fprintf(&b, "%%%02X", c)
			} else {
				fmt.Fprintf(&b, "%%%02x", c)
			}
		} else {
			b.WriteByte(c)
		}
	}
	return b.String()
}

type kase struct {
	uri     string
	stubIdx int
}

func genCase(r *vh.Rand) kase {
	p := genPayload(r)
	mt := genMT(r)
	var u string
	switch r.Intn(10) {
	case 0, 1, 2, 3:
		u = "data:" + mt + r.Pick(";base64", ";base64", " ;base64", "; base64") + "," + base64.StdEncoding.EncodeToString(p)
	case 4, 5, 6, 7:
		u = "data:" + mt + "," + pctEncodeLoose(r, p)
	case 8:
		u = "data:" + mt + "," + string(p) // raw, possibly invalid
	default: // malformed
		u = r.Pick("data:", "data", "data:;base64", "data:text/css;base64,@@@", "data:,", "DATA:,x", "data:a/b;base64,QQ", "data:;base64,QQ=", "dat:,", "data:text/plain;charset=us-ascii", "data:x,%", "data:x,%4", "data:x,%zz")
	}
	return kase{uri: u, stubIdx: r.Intn(len(stubs))}
}

func judge(k kase, out []byte) (string, string) {
	in, ok := readDataURI(k.uri)
	realMT, _, perr := parse.DataURI([]byte(k.uri))
	_ = realMT
	if !ok || perr != nil {
		// malformed for either reader: the helper must hand the argument back
		if perr != nil && string(out) != k.uri {
			return "malformed-not-returned", "parse failure but the argument was not returned unchanged"
		}
		return "", ""
	}
	o, ok := readDataURI(string(out))
	if !ok {
		return "output-not-a-data-uri", ""
	}
	known := ""
	if !in.base64 && strings.Contains(k.uri[strings.IndexByte(k.uri, ',')+1:], "+") {
		known = "K40-plus-in-percent-payload"
	}
	want := in.data
	st := stubs[k.stubIdx]
	if st.fn != nil {
		if w, err := st.fn(append([]byte{}, in.data...)); err == nil {
			want = w
		}
	}
	if !bytes.Equal(o.data, want) {
		if st.name == "grow" && string(out) == k.uri {
			return "", "" // a "minifier" that grows its input: the helper keeps the shorter original (not judged)
		}
		if known != "" {
			return known, fmt.Sprintf("payload %q, want %q", o.data, want)
		}
		return "payload-changed", fmt.Sprintf("payload %q, want %q", o.data, want)
	}
	if normMT(o.mt) != normMT(in.mt) {
		if t := strings.TrimLeft(in.mt, " \t"); strings.HasPrefix(t, ";") && len(t) > 1 {
			// K49: parse.DataURI replaces an empty type by text/plain and thereby drops its parameters
			return "K49-empty-type-parameters-dropped", fmt.Sprintf("%q vs %q", o.mt, in.mt)
		}
		return "mediatype-changed", fmt.Sprintf("%q vs %q", o.mt, in.mt)
	}
	if !o.valid && string(out) != k.uri {
		return "output-payload-not-validly-encoded", string(out)
	}
	if in.valid && (st.fn == nil || st.name == "identity" || st.name == "dropspaces" || st.name == "fail") && len(out) > len(k.uri) {
		if !in.base64 && strings.Contains(k.uri[strings.IndexByte(k.uri, ',')+1:], "&") {
			// K50: a raw '&' is valid in a URI but is escaped by the helper (HTML-safe table); the original is only kept
			// when the whole URI is shorter than the PAYLOAD lengths, so the result can grow
			return "K50-raw-ampersand-escaped-longer", fmt.Sprintf("%d > %d", len(out), len(k.uri))
		}
		return "longer", fmt.Sprintf("%d > %d", len(out), len(k.uri))
	}
	// the shorter valid encoding is used
	b64 := 7 + base64.StdEncoding.EncodedLen(len(want))
	pct := len(want)
	for _, c := range want {
		if parse.DataURIEncodingTable[c] {
			pct += 2
		}
	}
	payloadLen := len(out) - strings.IndexByte(string(out), ',') - 1
	if o.base64 {
		payloadLen += 7
	}
	best := b64
	if pct < best {
		best = pct
	}
	if string(out) != k.uri && payloadLen > best {
		return "not-the-shorter-encoding", fmt.Sprintf("payload part %d, best %d", payloadLen, best)
	}
	return "", ""
}

var regexpAll = mustRe(".+") // every media type, but not the empty string: the payload of data:text/plain must be dispatched under its type

func main() {
	seed := flag.Uint64("seed", 1, "")
	n := flag.Int("n", 6000, "")
	outDir := flag.String("out", ".", "")
	tier := flag.String("tier", "quick", "")
	witness := flag.String("witness", "", "")
	flag.Parse()
	os.MkdirAll(*outDir, 0o755)
	res := &vh.Result{Engine: "dataurichk", Seed: *seed, Tier: *tier}
	if *tier == "thorough" && *n == 6000 {
		*n = 150000
	}
	runOne := func(k kase) ([]byte, string) {
		defer func() {
			if e := recover(); e != nil {
				res.Violations = append(res.Violations, vh.Violation{Kind: "panic", Signature: "datauri:panic", Input: k.uri, InputHex: vh.Hex([]byte(k.uri)), Detail: fmt.Sprint(e),
					Options: map[string]string{"stub": stubs[k.stubIdx].name}})
			}
		}()
		m := registry(stubs[k.stubIdx])
		out := minify.DataURI(m, []byte(k.uri))
		return append([]byte{}, out...), ""
	}
	if *witness != "" {
		var w struct {
			Input   string            `json:"input"`
			Options map[string]string `json:"options"`
		}
		bs, _ := os.ReadFile(*witness)
		if err := json.Unmarshal(bs, &w); err != nil {
			panic(err)
		}
		k := kase{uri: w.Input}
		for i, s := range stubs {
			if s.name == w.Options["stub"] {
				k.stubIdx = i
			}
		}
		res.Evaluations = 1
		if w.Options["fn"] == "mediatype" {
			out := minify.Mediatype([]byte(w.Input))
			if string(out) != refMediatype(w.Input) && strings.Count(w.Input, "\"")%2 == 0 && mtSig(w.Input) != "mediatype:long-segment-guard" {
				res.Violations = append(res.Violations, vh.Violation{Kind: "oracle", Signature: mtSig(w.Input), Input: w.Input, Observed: string(out), Expected: refMediatype(w.Input), Options: w.Options})
			}
		} else {
			out, _ := runOne(k)
			if sig, det := judge(k, out); sig != "" {
				if !strings.HasPrefix(sig, "K") {
					sig = "datauri:" + sig
				}
				res.Violations = append(res.Violations, vh.Violation{Kind: "oracle", Signature: sig, Input: k.uri, Observed: string(out), Detail: det, Options: w.Options})
			}
		}
		res.Samples = []interface{}{w.Input}
		res.Write(filepath.Join(*outDir, "result.json"))
		return
	}
	fin, _ := os.Create(filepath.Join(*outDir, "cases.in"))
	fout, _ := os.Create(filepath.Join(*outDir, "cases.go.out"))
	win, wout := bufio.NewWriter(fin), bufio.NewWriter(fout)
	// table and base64 ties (finite: exhaustive)
	for c := 0; c < 256; c++ {
		fmt.Fprintf(win, "needs_escape\t%02x\n", c)
		if parse.DataURIEncodingTable[c] {
			fmt.Fprintln(wout, "1")
		} else {
			fmt.Fprintln(wout, "0")
		}
	}
	r := vh.NewRand(*seed)
	seen := map[string]bool{}
	for i := 0; i < *n; i++ {
		k := genCase(r)
		out, _ := runOne(k)
		res.Evaluations++
		res.Hist("stub", stubs[k.stubIdx].name)
		if string(out) != k.uri {
			res.Hist("outcome", "rewritten")
			if !seen[k.uri] {
				seen[k.uri] = true
				res.DistinctNontrivial++
			}
		} else {
			res.Hist("outcome", "unchanged")
		}
		if sig, det := judge(k, out); sig != "" {
			if !strings.HasPrefix(sig, "K") {
				sig = "datauri:" + sig
			}
			res.Violations = append(res.Violations, vh.Violation{Kind: "oracle", Signature: sig, Input: k.uri, InputHex: vh.Hex([]byte(k.uri)), Observed: string(out), Detail: det, Case: i,
				Options: map[string]string{"stub": stubs[k.stubIdx].name}})
		}
		// correspondence: real front end (parse.DataURI) + stub, then the modelled back end
		mt, data, err := parse.DataURI([]byte(k.uri))
		if err == nil {
			mtc := append([]byte{}, mt...)
			d := append([]byte{}, data...)
			if st := stubs[k.stubIdx]; st.fn != nil {
				if w, e := st.fn(append([]byte{}, d...)); e == nil {
					d = w
				}
			}
			fmt.Fprintf(win, "datauri\t%s\t%s\t%s\n", hexd([]byte(k.uri)), hexd(mtc), hexd(d))
			fmt.Fprintf(wout, "%s\n", hexd(out))
			if i%5 == 0 {
				fmt.Fprintf(win, "b64\t%s\n", hexd(d))
				fmt.Fprintf(wout, "%s\n", hexd([]byte(base64.StdEncoding.EncodeToString(d))))
			}
		}
		if len(res.Samples) < 3 && string(out) != k.uri && len(k.uri) < 120 {
			res.Samples = append(res.Samples, map[string]string{"in": k.uri, "stub": stubs[k.stubIdx].name, "out": string(out)})
		}
		// Mediatype
		ms := genMediatypeString(r)
		mo := minify.Mediatype([]byte(ms))
		res.Evaluations++
		if string(mo) != ms && !seen["mt:"+ms] {
			seen["mt:"+ms] = true
			res.DistinctNontrivial++
		}
		fmt.Fprintf(win, "mediatype_min\t%s\n", hexd([]byte(ms)))
		fmt.Fprintf(wout, "%s\n", hexd(mo))
		if ref := refMediatype(ms); ref != string(mo) && strings.Count(ms, "\"")%2 == 0 && mtSig(ms) != "mediatype:long-segment-guard" {
			res.Violations = append(res.Violations, vh.Violation{Kind: "oracle", Signature: mtSig(ms), Input: ms, InputHex: vh.Hex([]byte(ms)), Observed: string(mo), Expected: ref, Case: i,
				Options: map[string]string{"fn": "mediatype"}})
		} else if strings.Count(ms, "\"")%2 == 0 && !strings.EqualFold(strings.Join(strings.Fields(ref), ""), strings.Join(strings.Fields(string(mo)), "")) || strings.Count(ms, "\"")%2 == 0 && quotedParts(ms) != quotedParts(string(mo)) {
			// beyond the 1024 guard only the CASE of the long unquoted stretch may differ from the reference: the quoted strings
			// stay byte for byte and nothing but white space outside them is dropped
			res.Violations = append(res.Violations, vh.Violation{Kind: "oracle", Signature: "mediatype:quoted-string-or-text-changed-beyond-the-guard", Input: ms, InputHex: vh.Hex([]byte(ms)), Observed: string(mo), Expected: ref, Case: i,
				Options: map[string]string{"fn": "mediatype"}})
		}
	}
	win.Flush()
	wout.Flush()
	fin.Close()
	fout.Close()
	res.Rule = "generated data URIs (media types with parameters/whitespace/case/default text/plain and charset=us-ascii, base64 and percent-encoded and raw payloads over all byte values with several escape densities, malformed forms) x registries (none, identity, space-dropping, failing, growing stub) and media type strings with quoted parameters; distinct_nontrivial = distinct inputs whose result differs from the input"
	if len(res.Violations) > 60 {
		res.Extra = map[string]interface{}{"violations_total": len(res.Violations)}
		res.Violations = res.Violations[:60]
	}
	if err := res.Write(filepath.Join(*outDir, "result.json")); err != nil {
		panic(err)
	}
}

func genMediatypeString(r *vh.Rand) string {
	var b strings.Builder
	n := 1 + r.Intn(5)
	for i := 0; i < n; i++ {
		switch r.Intn(7) {
		case 0:
			b.WriteString(r.Pick("Text/HTML", "text/css", "IMAGE/svg+XML", "a/B"))
		case 1:
			b.WriteString(r.Pick(";", "; ", " ;", " ; "))
		case 2:
			b.WriteString(r.Pick("Charset=UTF-8", "q=0.8", "Name"))
		case 3:
			b.WriteString(r.Pick("\"Quoted String\"", "\"A;B c\"", "\"\"", "=\"X y\"", "\"It's A b\"", "=\"a'B c'D\""))
		case 4:
			b.WriteString(r.Pick(" ", "\t", "\n", "  "))
		case 5:
			b.WriteString(r.Pick("X", "y", "=", "Z9", "'", "'A B'", "O'Neil X"))
		default:
			b.WriteString(r.Pick("\"unterminated", "\""))
		}
	}
	if r.Chance(1, 60) {
		b.WriteString(strings.Repeat("A", 1100))
		b.WriteString(r.Pick("\"q\"", "\"Q  r\"", "; x=\"Hello  World\" ;y=\"Z\"", "\"Q\"  \"R s\""))
	}
	return b.String()
}

// refMediatype: lower-case and strip whitespace outside quoted strings (the documented behaviour)
func refMediatype(s string) string {
	var b strings.Builder
	inq := false
	for i := 0; i < len(s); i++ {
		c := s[i]
		if c == '"' {
			inq = !inq
			b.WriteByte(c)
			continue
		}
		if !inq {
			if c == ' ' || c == '\t' || c == '\n' || c == '\r' || c == '\f' {
				continue
			}
			if c >= 'A' && c <= 'Z' {
				c += 32
			}
		}
		b.WriteByte(c)
	}
	return b.String()
}

// quotedParts: the double-quoted strings of s, in order, with their quotes
func quotedParts(s string) string {
	var b strings.Builder
	in := false
	for i := 0; i < len(s); i++ {
		if s[i] == '"' {
			in = !in
			b.WriteByte('"')
		} else if in {
			b.WriteByte(s[i])
		}
	}
	return b.String()
}

// mtSig: the 1024-byte ToLower guard is the code's own documented shortcut (segments longer than that keep their case)
func mtSig(s string) string {
	seg := 0
	for i := 0; i < len(s); i++ {
		if s[i] == '"' {
			if seg >= 1000 {
				return "mediatype:long-segment-guard"
			}
			seg = 0
		} else {
			seg++
		}
	}
	return "mediatype:differs-from-strip-lower-outside-quotes"
}
