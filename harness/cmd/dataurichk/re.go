package main

import "regexp"

func mustRe(s string) *regexp.Regexp { return regexp.MustCompile(s) }
