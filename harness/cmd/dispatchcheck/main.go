// dispatchcheck: correspondence data and oracle for C15 (media type dispatch of minify.M).
//
//	dispatchcheck -seed N -n COUNT -out DIR [-tier quick|thorough] [-witness FILE]
//
// Each case is a registration history (literal / pattern / command registrations) followed by queries.
// cases.in lines for the extracted Coq model:
//
//	dispatch <history> <mediatype hex> <truth table of the patterns on the split mimetype>
//
// expected line: what the implementation did: served=<id|none> mt=<hex> params=<sorted k=v> match=<L id|P pat id|N>
package main

import (
	"bufio"
	"bytes"
	"encoding/json"
	"flag"
	"fmt"
	"io"
	"os"
	"os/exec"
	"path/filepath"
	"regexp"
	"sort"
	"strings"

	"github.com/tdewolff/minify/v2"
	"github.com/tdewolff/parse/v2"
	"verifharness/internal/vh"
)

type op struct {
	Kind string `json:"kind"` // lit | pat | cmd | cmdpat
	Key  string `json:"key"`  // mimetype or pattern source
	ID   int    `json:"id"`
}

type call struct {
	id     int
	params map[string]string
	hasMap bool
}

var patternFamily = []string{
	`^text/`, `^text/.*$`, `[/+]json$`, `[/+]xml$`, `^application/(.*\+)?json$`, `javascript`, `^.*$`, `^$`, `^text/css$`, `text/html`,
	`^(application|text)/(x-)?(java|ecma|j|live)script(1\.[0-5])?$|^module$`, `^image/svg\+xml$`, `/x-`, `^[a-z]+/[a-z]+$`, `^TEXT/`, `(?i)^text/`,
	`^\*/\*$`, `^text/\*$`, `css|html`, `^application/`, `\+`, `^a`, `e$`, `^.{9}$`, `plain`,
}

var mimePool = []string{
	"text/css", "text/html", "text/plain", "application/json", "application/ld+json", "application/javascript", "text/javascript",
	"image/svg+xml", "application/xml", "text/xml", "application/x-httpd-php", "*/*", "text/*", "a/b", "module", "x", "", "ab", "abc", "TEXT/HTML", "text/Css",
	"application/vnd.api+json", "text/x-template",
}

func genMediatype(r *vh.Rand) string {
	var b strings.Builder
	for i := r.Intn(3); i > 0 && r.Chance(1, 4); i-- {
		b.WriteByte(' ')
	}
	b.WriteString(mimePool[r.Intn(len(mimePool))])
	np := 0
	if r.Chance(1, 2) {
		np = 1 + r.Intn(3)
	}
	sp := func() {
		if r.Chance(1, 3) {
			b.WriteString(strings.Repeat(" ", 1+r.Intn(2)))
		}
	}
	for i := 0; i < np; i++ {
		sp()
		b.WriteByte(';')
		sp()
		b.WriteString(r.Pick("charset", "q", "version", "inline", "k", "", "a b", "charset"))
		if r.Chance(5, 6) {
			sp()
			b.WriteByte('=')
			sp()
			b.WriteString(r.Pick("utf-8", "UTF-8", "1", "0.8", "", "\"quoted\"", "a=b", "x"))
		}
	}
	if r.Chance(1, 8) {
		b.WriteString(r.Pick(" ", ";", " x", "; ", "  ;"))
	}
	return b.String()
}

func sortedParams(p map[string]string) string {
	ks := make([]string, 0, len(p))
	for k := range p {
		ks = append(ks, k)
	}
	sort.Strings(ks)
	var b strings.Builder
	for i, k := range ks {
		if i > 0 {
			b.WriteByte(',')
		}
		b.WriteString(hexd([]byte(k)) + "=" + hexd([]byte(p[k])))
	}
	return b.String()
}

func hexd(b []byte) string {
	if len(b) == 0 {
		return "-"
	}
	return vh.Hex(b)
}

type built struct {
	m     *minify.M
	last  *call
	pats  []string // pattern source per pattern index
	patID []int
	res   []*regexp.Regexp
}

func build(h []op) *built {
	b := &built{m: minify.New()}
	stub := func(id int) minify.MinifierFunc {
		return func(_ *minify.M, w io.Writer, r io.Reader, params map[string]string) error {
			b.last = &call{id: id, params: params, hasMap: params != nil}
			io.Copy(io.Discard, r)
			fmt.Fprintf(w, "served:%d", id)
			return nil
		}
	}
	for _, o := range h {
		switch o.Kind {
		case "lit":
			if o.ID%2 == 0 {
				b.m.AddFunc(o.Key, stub(o.ID))
			} else {
				b.m.Add(o.Key, stub(o.ID))
			}
		case "cmd":
			b.m.AddCmd(o.Key, exec.Command("sh", "-c", fmt.Sprintf("cat >/dev/null; printf served:%d", o.ID)))
		case "pat":
			re := regexp.MustCompile(o.Key)
			if o.ID%2 == 0 {
				b.m.AddFuncRegexp(re, stub(o.ID))
			} else {
				b.m.AddRegexp(re, stub(o.ID))
			}
			b.pats, b.patID, b.res = append(b.pats, o.Key), append(b.patID, o.ID), append(b.res, re)
		case "cmdpat":
			re := regexp.MustCompile(o.Key)
			b.m.AddCmdRegexp(re, exec.Command("sh", "-c", fmt.Sprintf("cat >/dev/null; printf served:%d", o.ID)))
			b.pats, b.patID, b.res = append(b.pats, o.Key), append(b.patID, o.ID), append(b.res, re)
		}
	}
	return b
}

func serHistory(h []op) string {
	var parts []string
	pi := 0
	for _, o := range h {
		switch o.Kind {
		case "lit", "cmd":
			parts = append(parts, fmt.Sprintf("L:%s:%d", hexd([]byte(o.Key)), o.ID))
		default:
			parts = append(parts, fmt.Sprintf("P:%d:%d", pi, o.ID))
			pi++
		}
	}
	return strings.Join(parts, ",")
}

// observe runs the query through the entry points and returns the canonical observation line, plus oracle failures.
func observe(b *built, h []op, mediatype string) (string, []string) {
	var fails []string
	var out bytes.Buffer
	b.last = nil
	err := b.m.Minify(mediatype, &out, strings.NewReader("input"))
	served := "none"
	params := ""
	isCmd := false
	if err == nil {
		var id int
		if _, e := fmt.Sscanf(out.String(), "served:%d", &id); e != nil {
			fails = append(fails, "stub output unreadable: "+out.String())
		}
		served = fmt.Sprint(id)
		if b.last != nil {
			params = sortedParams(b.last.params)
		} else {
			isCmd = true
		}
	} else if err == minify.ErrNotExist {
		if out.Len() != 0 {
			fails = append(fails, "ErrNotExist but bytes were written")
		}
	} else {
		fails = append(fails, "unexpected error: "+err.Error())
	}
	mt, realParams := parse.Mediatype([]byte(mediatype))
	if isCmd {
		params = sortedParams(realParams) // command minifiers do not see params; take the split itself
	}
	// Match must answer what the call uses
	name, mparams, fn := b.m.Match(mediatype)
	matchDesc := "N"
	if fn != nil {
		var mo bytes.Buffer
		b.last = nil
		if e := fn(b.m, &mo, strings.NewReader("x"), mparams); e != nil {
			fails = append(fails, "matched minifier failed: "+e.Error())
		}
		var id int
		fmt.Sscanf(mo.String(), "served:%d", &id)
		if fmt.Sprint(id) != served {
			fails = append(fails, fmt.Sprintf("Match returned minifier %d but the call was served by %s", id, served))
		}
		if name == string(mt) {
			matchDesc = fmt.Sprintf("L:%d", id)
			// a pattern whose source text equals the mimetype is indistinguishable by name; check literal table
			isLit := false
			for _, o := range h {
				if (o.Kind == "lit" || o.Kind == "cmd") && o.Key == string(mt) {
					isLit = true
				}
			}
			if !isLit {
				matchDesc = ""
			}
		}
		if matchDesc == "" || matchDesc == "N" {
			matchDesc = ""
			for i, p := range b.pats {
				if p == name && b.patID[i] == id {
					matchDesc = fmt.Sprintf("P:%d:%d", i, id)
					break
				}
			}
		}
		if sortedParams(mparams) != sortedParams(realParams) {
			fails = append(fails, "Match params differ from the split")
		}
	} else {
		if served != "none" {
			fails = append(fails, "Match says no minifier but the call was served")
		}
		if name != string(mt) {
			fails = append(fails, "Match name for no minifier is not the mimetype")
		}
	}
	// Bytes / String agree with Minify
	bo, berr := b.m.Bytes(mediatype, []byte("input"))
	so, serr := b.m.String(mediatype, "input")
	if (berr == nil) != (err == nil) || (serr == nil) != (err == nil) {
		fails = append(fails, "Bytes/String error differs from Minify")
	} else if err == nil && (string(bo) != out.String() || so != out.String()) {
		fails = append(fails, "Bytes/String output differs from Minify")
	} else if err != nil && (string(bo) != "input" || so != "input") {
		fails = append(fails, "Bytes/String did not return the original on error")
	}
	// independent reference of the documented rules, evaluated on the history
	ref := "none"
	found := false
	for i := len(h) - 1; i >= 0 && !found; i-- {
		if (h[i].Kind == "lit" || h[i].Kind == "cmd") && h[i].Key == string(mt) {
			ref, found = fmt.Sprint(h[i].ID), true
		}
	}
	if !found {
		for _, o := range h {
			if (o.Kind == "pat" || o.Kind == "cmdpat") && regexp.MustCompile(o.Key).Match(mt) {
				ref, found = fmt.Sprint(o.ID), true
				break
			}
		}
	}
	if ref != served {
		fails = append(fails, fmt.Sprintf("served by %s but the documented rules say %s", served, ref))
	}
	line := fmt.Sprintf("served=%s mt=%s params=%s match=%s", served, hexd(mt), params, matchDesc)
	return line, fails
}

func truth(b *built, mediatype string) string {
	mt, _ := parse.Mediatype([]byte(mediatype))
	var s strings.Builder
	for _, re := range b.res {
		if re.Match(mt) {
			s.WriteByte('1')
		} else {
			s.WriteByte('0')
		}
	}
	if s.Len() == 0 {
		return "-"
	}
	return s.String()
}

func genHistory(r *vh.Rand, allowCmd bool) []op {
	n := r.Intn(9)
	var h []op
	for i := 0; i < n; i++ {
		o := op{ID: i + 1}
		switch k := r.Intn(10); {
		case k < 5:
			o.Kind, o.Key = "lit", mimePool[r.Intn(len(mimePool))]
			if len(h) > 0 && r.Chance(1, 3) { // re-register an earlier literal
				for _, p := range h {
					if p.Kind == "lit" || p.Kind == "cmd" {
						o.Key = p.Key
					}
				}
			}
		case k < 9 || !allowCmd:
			o.Kind, o.Key = "pat", patternFamily[r.Intn(len(patternFamily))]
		default:
			if r.Bool() {
				o.Kind, o.Key = "cmd", mimePool[r.Intn(len(mimePool))]
			} else {
				o.Kind, o.Key = "cmdpat", patternFamily[r.Intn(len(patternFamily))]
			}
		}
		h = append(h, o)
	}
	return h
}

func main() {
	seed := flag.Uint64("seed", 1, "")
	n := flag.Int("n", 1500, "")
	outDir := flag.String("out", ".", "")
	tier := flag.String("tier", "quick", "")
	witness := flag.String("witness", "", "")
	flag.Parse()
	os.MkdirAll(*outDir, 0o755)
	res := &vh.Result{Engine: "dispatchcheck", Seed: *seed, Tier: *tier}
	if *tier == "thorough" && *n == 1500 {
		*n = 30000
	}
	if *witness != "" {
		var w struct {
			History   []op   `json:"history"`
			Mediatype string `json:"mediatype"`
		}
		bs, _ := os.ReadFile(*witness)
		if err := json.Unmarshal(bs, &w); err != nil {
			panic(err)
		}
		b := build(w.History)
		line, fails := observe(b, w.History, w.Mediatype)
		res.Evaluations = 1
		for _, f := range fails {
			hj, _ := json.Marshal(w.History)
			res.Violations = append(res.Violations, vh.Violation{Kind: "oracle", Signature: "dispatch:" + strings.SplitN(f, ":", 2)[0], Input: string(hj) + " ? " + w.Mediatype, Observed: line, Detail: f})
		}
		res.Samples = []interface{}{line}
		res.Write(filepath.Join(*outDir, "result.json"))
		return
	}
	fin, _ := os.Create(filepath.Join(*outDir, "cases.in"))
	fout, _ := os.Create(filepath.Join(*outDir, "cases.go.out"))
	win, wout := bufio.NewWriter(fin), bufio.NewWriter(fout)
	r := vh.NewRand(*seed)
	seen := map[string]bool{}
	cmdBudget := 40
	if *tier == "thorough" {
		cmdBudget = 400
	}
	for i := 0; i < *n; i++ {
		allowCmd := cmdBudget > 0 && r.Chance(1, 10)
		h := genHistory(r, allowCmd)
		hasCmd := false
		for _, o := range h {
			if o.Kind == "cmd" || o.Kind == "cmdpat" {
				hasCmd = true
			}
		}
		if hasCmd {
			cmdBudget--
		}
		b := build(h)
		hs := serHistory(h)
		nq := 4
		if hasCmd {
			nq = 2
		}
		for q := 0; q < nq; q++ {
			mt := genMediatype(r)
			if r.Chance(1, 3) && len(h) > 0 { // query a registered literal with decoration
				o := h[r.Intn(len(h))]
				if o.Kind == "lit" || o.Kind == "cmd" {
					mt = o.Key + r.Pick("", "; charset=utf-8", " ;q=1", ";a=b;a=c", " ")
				}
			}
			line, fails := observe(b, h, mt)
			res.Evaluations++
			res.Hist("history_len", fmt.Sprint(len(h)))
			if strings.HasPrefix(line, "served=none") {
				res.Hist("outcome", "ErrNotExist")
			} else if strings.Contains(line, "match=L") {
				res.Hist("outcome", "literal")
			} else {
				res.Hist("outcome", "pattern")
			}
			key := hs + "?" + mt
			if !seen[key] && len(h) >= 2 && !strings.HasPrefix(line, "served=none") {
				seen[key] = true
				res.DistinctNontrivial++
			}
			for _, f := range fails {
				hj, _ := json.Marshal(h)
				res.Violations = append(res.Violations, vh.Violation{Kind: "oracle", Signature: "dispatch:" + strings.SplitN(f, ":", 2)[0], Input: string(hj) + " ? " + mt,
					Observed: line, Detail: f, Case: i, Options: map[string]string{"history": string(hj), "mediatype": mt}})
			}
			fmt.Fprintf(win, "dispatch\t%s\t%s\t%s\n", hs, hexd([]byte(mt)), truth(b, mt))
			fmt.Fprintf(wout, "%s\n", line)
			rmt, rparams := parse.Mediatype([]byte(mt))
			hasMap := "0"
			if rparams != nil {
				hasMap = "1"
			}
			fmt.Fprintf(win, "mediatype\t%s\n", hexd([]byte(mt)))
			fmt.Fprintf(wout, "mt=%s hasmap=%s params=%s\n", hexd(rmt), hasMap, sortedParams(rparams))
			if len(res.Samples) < 3 && len(h) >= 3 {
				res.Samples = append(res.Samples, map[string]interface{}{"history": h, "mediatype": mt, "observed": line})
			}
		}
	}
	win.Flush()
	wout.Flush()
	fin.Close()
	fout.Close()
	res.Rule = "random registration histories (0-8 registrations: literal Add/AddFunc/AddCmd incl. re-registration of the same type, AddRegexp/AddFuncRegexp/AddCmdRegexp from a family of 25 overlapping patterns) each followed by media type queries (case, leading/inner spaces, parameters incl. duplicates and empty keys/values, wildcards, < 3 characters) through Minify, Match, Bytes and String; distinct_nontrivial = distinct (history, query) pairs with at least 2 registrations that were served by some minifier"
	if len(res.Violations) > 50 {
		res.Violations = res.Violations[:50]
	}
	if err := res.Write(filepath.Join(*outDir, "result.json")); err != nil {
		panic(err)
	}
}
