package main

// C11 (embedded content goes through the registered sub-minifier, with the right media type, and the
// result is inserted verbatim / correctly re-escaped) and C16 lexical checks (Keep* options).

import (
	"fmt"
	"strings"

	"golang.org/x/net/html"
	"golang.org/x/net/html/atom"
)

func attrOf(n *html.Node, k string) (string, bool) {
	for _, a := range n.Attr {
		if a.Namespace == "" && a.Key == k {
			return a.Val, true
		}
	}
	return "", false
}

func textOf(n *html.Node) string {
	var sb strings.Builder
	for c := n.FirstChild; c != nil; c = c.NextSibling {
		if c.Type == html.TextNode {
			sb.WriteString(c.Data)
		}
	}
	return sb.String()
}

func elemKids(n *html.Node, reg string, o Options) []*html.Node {
	var out []*html.Node
	for c := n.FirstChild; c != nil; c = c.NextSibling {
		if c.Type == html.ElementNode {
			if droppableEmpty(c, reg, o) {
				continue
			}
			out = append(out, c)
		}
	}
	return out
}

// an attribute-less empty script/style element has no effect; the minifier removes it.
func droppableEmpty(c *html.Node, reg string, o Options) bool {
	// with real sub-minifiers the content may legitimately minify to nothing, and content is not compared anyway
	if c.Namespace != "" || c.Data != "script" && c.Data != "style" {
		return false
	}
	if !(c.FirstChild == nil || reg == "real") {
		return false
	}
	return len(c.Attr) == 0 || len(normAttrs(c, o, reg, true)) == 0
}

func dumpForeign(n *html.Node) string {
	var sb strings.Builder
	var walk func(n *html.Node)
	walk = func(n *html.Node) {
		switch n.Type {
		case html.ElementNode:
			sb.WriteString("<" + nodeName(n))
			for _, a := range n.Attr {
				fmt.Fprintf(&sb, " %s:%s=%q", a.Namespace, a.Key, a.Val)
			}
			sb.WriteString(">")
			for c := n.FirstChild; c != nil; c = c.NextSibling {
				walk(c)
			}
			sb.WriteString("</>")
		case html.TextNode:
			fmt.Fprintf(&sb, "%q", n.Data)
		case html.CommentNode:
			fmt.Fprintf(&sb, "<!--%q-->", n.Data)
		}
	}
	walk(n)
	return sb.String()
}

// scriptMediatype: the media type an embedded script/style block is documented to be minified as.
func blockMediatype(n *html.Node) (mt string, raw string) {
	t, ok := attrOf(n, "type")
	t = asciiTrim(t)
	if !ok || t == "" {
		if n.Data == "script" {
			return "application/javascript", ""
		}
		return "text/css", ""
	}
	ess := t
	if i := strings.IndexByte(ess, ';'); i >= 0 {
		ess = ess[:i]
	}
	ess = asciiTrim(ess)
	return strings.ToLower(ess), ess
}

func checkStubs(c *Case, rec *recorder, ta, tb []*html.Node) (sig, obs, exp string) {
	avail := map[string]int{}
	key := func(mt string, inline bool, in string) string { return fmt.Sprintf("%s|%v|%s", mt, inline, in) }
	for _, cl := range rec.calls {
		avail[key(cl.MT, cl.Inline, cl.In)]++
	}
	var svgCalls, mathCalls []stubCall
	for _, cl := range rec.calls {
		if cl.MT == "image/svg+xml" {
			svgCalls = append(svgCalls, cl)
		}
		if cl.MT == "application/mathml+xml" {
			mathCalls = append(mathCalls, cl)
		}
	}
	consume := func(mt string, inline bool, in string) bool {
		k := key(mt, inline, in)
		if avail[k] > 0 {
			avail[k]--
			return true
		}
		return false
	}
	nearest := func(mt string, inline bool) string {
		for _, cl := range rec.calls {
			if cl.MT == mt && cl.Inline == inline {
				if avail[key(cl.MT, cl.Inline, cl.In)] > 0 {
					return cl.In
				}
			}
		}
		return ""
	}
	var fail func(s, o, e string)
	done := false
	fail = func(s, o, e string) {
		if !done {
			sig, obs, exp = s, o, e
			done = true
		}
	}
	var walk func(a, b *html.Node)
	walk = func(a, b *html.Node) {
		if done {
			return
		}
		ka, kb := elemKids(a, c.Registry, c.Opts), elemKids(b, c.Registry, c.Opts)
		if len(ka) != len(kb) {
			return // cannot happen after the structure check
		}
		for i := range ka {
			ea, eb := ka[i], kb[i]
			if done {
				return
			}
			if ea.Namespace != "" {
				if ea.Data != "svg" && ea.Data != "math" {
					continue
				}
				mt := "image/svg+xml"
				calls := &svgCalls
				if ea.Data == "math" {
					mt = "application/mathml+xml"
					calls = &mathCalls
				}
				if len(*calls) == 0 {
					fail("stub-not-called:"+ea.Data+"-element:"+mt, dumpForeign(eb), "stub called once per "+ea.Data+" element")
					return
				}
				cl := (*calls)[0]
				*calls = (*calls)[1:]
				avail[key(cl.MT, cl.Inline, cl.In)]--
				if !strings.Contains(strings.ToLower(c.Input), strings.ToLower(cl.In)) {
					fail("stub-payload-changed:"+ea.Data+"-element", cl.In, "a substring of the input")
					return
				}
				ctxn := &html.Node{Type: html.ElementNode, Data: "body", DataAtom: atom.Body}
				fr, err := html.ParseFragmentWithOptions(strings.NewReader(cl.In), ctxn, html.ParseOptionEnableScripting(false))
				var got string
				if err == nil {
					for _, f := range fr {
						if f.Type == html.ElementNode {
							got += dumpForeign(f)
						} else if f.Type == html.TextNode && !allWS(f.Data) {
							got += "text"
						}
					}
				}
				if got != dumpForeign(ea) {
					fail("stub-payload-changed:"+ea.Data+"-element", cl.In, "exactly the source of the element: "+dumpForeign(ea))
					return
				}
				wantInline := ea.Data == "svg"
				if cl.Inline != wantInline {
					fail("stub-wrong-params:"+ea.Data+"-element", fmt.Sprint("inline=", cl.Inline), fmt.Sprint("inline=", wantInline))
					return
				}
				h, _ := attrOf(eb, "data-h")
				if h != stubHash(mt, cl.Inline, cl.In) || eb.Data != ea.Data {
					fail("stub-output-not-inserted:"+ea.Data+"-element", dumpForeign(eb), cl.Out)
					return
				}
				continue
			}
			tag := ea.Data
			if tag == "script" || tag == "style" {
				txt := textOf(ea)
				otxt := textOf(eb)
				mt, rawEss := blockMediatype(ea)
				_, amp := attrOf(ea, "amp-boilerplate")
				expectCall := txt != "" && isStubType(mt) && !(tag == "style" && amp)
				if !expectCall {
					if otxt != txt {
						fail("passthrough-changed:"+tag+"-element:"+mt, otxt, txt)
						return
					}
					continue
				}
				if !consume(mt, false, txt) {
					if otxt == txt {
						why := "unminified"
						if rawEss != "" && rawEss != mt {
							why = "type-not-lowercase"
						}
						fail("stub-not-called:"+tag+"-element:"+why, "content passed through unminified (type "+rawEss+")", "minified as "+mt)
						return
					}
					if near := nearest(mt, false); near != "" {
						fail("stub-payload-changed:"+tag+"-element", near, txt)
						return
					}
					fail("stub-not-called:"+tag+"-element:"+mt, otxt, "stub("+txt+")")
					return
				}
				want := stubOutput(mt, false, txt, c.StubAmp)
				if otxt != want {
					fail("stub-output-not-inserted:"+tag+"-element", otxt, want)
					return
				}
				continue
			}
			// attributes
			for _, at := range ea.Attr {
				if at.Namespace != "" {
					continue
				}
				isStyle := at.Key == "style"
				isOn := strings.HasPrefix(at.Key, "on") && len(at.Key) > 2
				if !isStyle && !isOn {
					continue
				}
				ov, present := attrOf(eb, at.Key)
				cls := "style-attr"
				if isOn {
					cls = "event-attr"
				}
				p := asciiTrim(at.Val)
				mt := "text/css"
				if isOn {
					mt = "application/javascript"
					if len(p) >= 11 && strings.EqualFold(p[:11], "javascript:") {
						p = p[11:]
					}
				}
				if c.Opts.TemplateDelims && strings.Contains(at.Val, "{{") {
					// "preserve context within and surrounding the given delimiters": passed through untouched
					if !present || ov != at.Val {
						fail("passthrough-changed:"+cls+":template-action", ov, at.Val)
						return
					}
					continue
				}
				if p == "" {
					consume(mt, true, "") // the minifier may or may not be consulted for an empty payload
					if elemClass(tag) != "html" && present && ov == at.Val {
						continue // not a known HTML element: left alone
					}
					if present && asciiTrim(ov) != "" {
						fail("passthrough-changed:"+cls+":empty", ov, "(absent or empty)")
						return
					}
					continue
				}
				if elemClass(tag) != "html" && present && asciiTrim(ov) == asciiTrim(at.Val) {
					continue // not a known HTML element: left alone, which is fine
				}
				called := consume(mt, true, p)
				if !called {
					if near := nearest(mt, true); near != "" {
						fail("stub-payload-changed:"+cls+":"+valueDiffKind(p, near), near, p)
						return
					}
					if nearest(mt, false) != "" {
						fail("stub-wrong-params:"+cls+":inline-missing", "inline param not set", "inline=1")
						return
					}
					fail("stub-not-called:"+cls, ov, "stub("+p+")")
					return
				}
				want := stubOutput(mt, true, p, c.StubAmp)
				if want == "" {
					if present && ov != "" {
						fail("stub-output-not-inserted:"+cls+":empty-result", ov, "(absent)")
						return
					}
					continue
				}
				if ov != want {
					fail("stub-output-not-inserted:"+cls+":"+valueDiffKind(want, ov), ov, want)
					return
				}
			}
			walk(ea, eb)
		}
	}
	ra := &html.Node{Type: html.DocumentNode}
	rb := &html.Node{Type: html.DocumentNode}
	adopt(ra, ta)
	adopt(rb, tb)
	walk(ra, rb)
	if done {
		return
	}
	for _, cl := range rec.calls {
		if avail[key(cl.MT, cl.Inline, cl.In)] > 0 {
			return "stub-unexpected-call:" + cl.MT, clip(cl.In, 80), "no embedded " + cl.MT + " content with this payload in the document"
		}
	}
	return "", "", ""
}

// ---------------------------------------------------------------- lexical scanning

type lexAttr struct {
	name   string
	quoted bool
	hasVal bool
	val    string
}

type lexTag struct {
	name      string
	end       bool
	attrs     []lexAttr
	emptyPair bool // start tag without attributes directly followed by its end tag
}

// scanAttrs: the attribute part of a raw start tag, following the tokenizer states of the standard.
func scanAttrs(raw string) []lexAttr {
	var out []lexAttr
	i := 1
	for i < len(raw) && !isWS(raw[i]) && raw[i] != '>' && raw[i] != '/' {
		i++
	}
	for i < len(raw) {
		for i < len(raw) && (isWS(raw[i]) || raw[i] == '/') {
			i++
		}
		if i >= len(raw) || raw[i] == '>' {
			break
		}
		st := i
		if raw[i] == '=' {
			i++
		}
		for i < len(raw) && !isWS(raw[i]) && raw[i] != '/' && raw[i] != '>' && raw[i] != '=' {
			i++
		}
		a := lexAttr{name: strings.ToLower(raw[st:i])}
		for i < len(raw) && isWS(raw[i]) {
			i++
		}
		if i < len(raw) && raw[i] == '=' {
			i++
			for i < len(raw) && isWS(raw[i]) {
				i++
			}
			a.hasVal = true
			if i < len(raw) && (raw[i] == '"' || raw[i] == '\'') {
				q := raw[i]
				i++
				st := i
				for i < len(raw) && raw[i] != q {
					i++
				}
				a.quoted = true
				a.val = raw[st:i]
				i++
			} else {
				st := i
				for i < len(raw) && !isWS(raw[i]) && raw[i] != '>' {
					i++
				}
				a.val = raw[st:i]
			}
		}
		out = append(out, a)
	}
	return out
}

// lexTagsWithAdjacency additionally marks attribute-less start tags immediately followed by their end tag.
func lexTagsAdj(src string) []lexTag {
	z := html.NewTokenizer(strings.NewReader(src))
	var out []lexTag
	foreign := ""
	depth := 0
	lastWasStart := false
	for {
		tt := z.Next()
		if tt == html.ErrorToken {
			break
		}
		if tt != html.StartTagToken && tt != html.EndTagToken && tt != html.SelfClosingTagToken {
			lastWasStart = false
			continue
		}
		raw := string(z.Raw())
		nm, _ := z.TagName()
		name := string(nm)
		if name == "noscript" && tt == html.StartTagToken {
			z.NextIsNotRawText()
		}
		if foreign != "" {
			if name == foreign {
				if tt == html.StartTagToken {
					depth++
				} else if tt == html.EndTagToken {
					depth--
					if depth == 0 {
						foreign = ""
					}
				}
			}
			lastWasStart = false
			continue
		}
		if name == "svg" || name == "math" {
			if tt == html.StartTagToken {
				foreign, depth = name, 1
			}
			lastWasStart = false
			continue
		}
		t := lexTag{name: name, end: tt == html.EndTagToken}
		if !t.end {
			t.attrs = scanAttrs(raw)
		}
		if t.end && lastWasStart && len(out) > 0 && out[len(out)-1].name == name && len(out[len(out)-1].attrs) == 0 {
			out[len(out)-1].emptyPair = true
			t.emptyPair = true
		}
		out = append(out, t)
		lastWasStart = !t.end
	}
	return out
}

func checkKeepLexical(c *Case, out string) (sig, obs, exp string, skips []string) {
	o := c.Opts
	if !(o.KeepEndTags || o.KeepDocumentTags || o.KeepQuotes) {
		return
	}
	if o.TemplateDelims {
		// template actions may contain anything, including things that look like tags
		if strings.Contains(c.Input, "{{") {
			skips = append(skips, "c16-lexical:template-actions-present")
			return
		}
	}
	ti, to := lexTagsAdj(c.Input), lexTagsAdj(out)
	removable := func(t lexTag) bool {
		switch t.name {
		case "html", "head", "body":
			return !o.KeepDocumentTags
		case "colgroup":
			return true // documented as "unrequired tag"; see K19 for the empty case
		case "script", "style":
			return t.emptyPair
		}
		return false
	}
	if o.KeepEndTags {
		ci, co := map[string]int{}, map[string]int{}
		for _, t := range ti {
			if t.end && !removable(t) {
				ci[t.name]++
			}
		}
		for _, t := range to {
			if t.end {
				co[t.name]++
			}
		}
		for _, t := range ti {
			if t.end && !removable(t) && co[t.name] < ci[t.name] {
				return "keep-endtags:end-tag-omitted:" + t.name, fmt.Sprintf("%d </%s> in output", co[t.name], t.name), fmt.Sprintf("%d as in input", ci[t.name]), skips
			}
		}
	}
	if o.KeepDocumentTags {
		for _, nm := range []string{"html", "head", "body"} {
			for _, end := range []bool{false, true} {
				ni, no := 0, 0
				for _, t := range ti {
					if t.name == nm && t.end == end {
						ni++
					}
				}
				for _, t := range to {
					if t.name == nm && t.end == end {
						no++
					}
				}
				if no < ni {
					k := "start"
					if end {
						k = "end"
					}
					return "keep-documenttags:" + k + "-tag-dropped:" + nm, fmt.Sprintf("%d in output", no), fmt.Sprintf("%d as in input", ni), skips
				}
			}
		}
	}
	if o.KeepQuotes {
		var si, so []lexTag
		for _, t := range ti {
			if !t.end && !(removable(t) && len(t.attrs) == 0) {
				si = append(si, t)
			}
		}
		for _, t := range to {
			if !t.end {
				so = append(so, t)
			}
		}
		aligned := len(si) == len(so)
		if aligned {
			for i := range si {
				if si[i].name != so[i].name {
					aligned = false
					break
				}
			}
		}
		if !aligned {
			skips = append(skips, "c16-keepquotes:start-tags-not-alignable")
			return
		}
		for i := range si {
			in := map[string]lexAttr{}
			for _, a := range si[i].attrs {
				if _, dup := in[a.name]; !dup {
					in[a.name] = a
				}
			}
			for _, a := range so[i].attrs {
				ia, ok := in[a.name]
				if !ok || !a.hasVal || a.val == "" {
					continue
				}
				// (N08: event-handler attributes under the real JS minifier used to be exempted here; repaired in /repo)
				if ia.quoted && !a.quoted {
					return "keep-quotes:quotes-removed:" + attrClass(a.name), a.name + "=" + a.val, a.name + "=\"…\" (quoted as in the input)", skips
				}
			}
		}
	}
	return
}
