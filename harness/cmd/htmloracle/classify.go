package main

// Labelling of violations with the ids of known defects. A label is given only when the input has the
// lexical shape of the known defect AND a counterfactual run (the option or rewrite that neutralises
// exactly that defect) makes the violation disappear.

import (
	"regexp"
	"strings"

	"golang.org/x/net/html"
	"verifharness/internal/vh"
)

var k16Tags = setOf("rt rp rb rtc li td th tr thead tbody tfoot dd dt option optgroup")

// what may follow the end tag per the optional-tag rules (so that leaving it out is legal)
var k16Follow = map[string]map[string]bool{
	"li": setOf("li"), "dt": setOf("dt dd"), "dd": setOf("dt dd"), "rt": setOf("rt rp"), "rp": setOf("rt rp"), "rb": setOf("rb rt rtc rp"), "rtc": setOf("rb rtc rp"),
	"option": setOf("option optgroup hr"), "optgroup": setOf("optgroup hr"), "td": setOf("td th"), "th": setOf("td th"), "tr": setOf("tr"),
	"thead": setOf("tbody tfoot"), "tbody": setOf("tbody tfoot"), "tfoot": setOf(""),
}

type lexTok struct {
	tt   html.TokenType
	name string
	data string
}

func lexAll(src string) []lexTok {
	z := html.NewTokenizer(strings.NewReader(src))
	var out []lexTok
	for {
		tt := z.Next()
		if tt == html.ErrorToken {
			break
		}
		t := lexTok{tt: tt}
		switch tt {
		case html.StartTagToken, html.EndTagToken, html.SelfClosingTagToken:
			nm, _ := z.TagName()
			t.name = string(nm)
			if t.name == "noscript" && tt == html.StartTagToken {
				z.NextIsNotRawText()
			}
		case html.TextToken, html.CommentToken:
			t.data = string(z.Raw())
		}
		out = append(out, t)
	}
	return out
}

// k16Shape: an end tag of the unconditional-omission class followed by something after which omission is illegal.
func k16Shape(src string, keepComments bool) (string, bool) {
	toks := lexAll(src)
	for i, t := range toks {
		if t.tt != html.EndTagToken || !k16Tags[t.name] {
			continue
		}
		j := i + 1
		for j < len(toks) {
			if toks[j].tt == html.TextToken && allWS(toks[j].data) {
				j++
				continue
			}
			if toks[j].tt == html.CommentToken && !keepComments {
				j++
				continue
			}
			break
		}
		if j >= len(toks) {
			continue
		}
		n := toks[j]
		switch n.tt {
		case html.EndTagToken:
			continue // no more content in the parent (or a stray end tag)
		case html.StartTagToken, html.SelfClosingTagToken:
			if k16Follow[t.name][n.name] {
				continue
			}
			if t.name == "thead" || t.name == "tbody" {
				if n.name == "tr" {
					return t.name + ":implied-tbody-follows", true
				}
			}
			return t.name + ":" + n.name + "-follows", true
		case html.TextToken:
			return t.name + ":text-follows", true
		case html.CommentToken:
			return t.name + ":comment-follows", true
		}
	}
	return "", false
}

// end tags that close an open p element in the tree construction stage (handled by name, "generate implied end tags")
var closesP = setOf("address article aside blockquote body button caption center dd details dialog dir div dl dt fieldset figcaption figure footer form h1 h2 h3 h4 h5 h6 header hgroup html li listing main menu nav object ol pre section summary table tbody td template tfoot th thead tr ul p")

var stdKeepP = setOf("a audio del ins map noscript video")

func k17Shape(src string) (string, bool) {
	toks := lexAll(src)
	for i, t := range toks {
		if t.tt != html.EndTagToken || t.name != "p" {
			continue
		}
		j := i + 1
		for j < len(toks) && (toks[j].tt == html.TextToken && allWS(toks[j].data) || toks[j].tt == html.CommentToken) {
			j++
		}
		// parents named by the standard's rule for p (a, audio, del, ins, map, noscript, video) are handled by
		// the minifier on the pinned tree; a failure there is not the known defect.
		if j < len(toks) && toks[j].tt == html.EndTagToken && !closesP[toks[j].name] && !stdKeepP[toks[j].name] {
			return "</" + toks[j].name + ">", true
		}
	}
	return "", false
}

var k18Re = regexp.MustCompile(`&(?:` + strings.Join(legacyNames, "|") + `)(?:&semi;|&#59;|&#[xX]3[bB];|&#[0-9]+;?|&#[xX][0-9a-fA-F]+;?|&[A-Za-z][A-Za-z0-9]*;)|&[A-Za-z][A-Za-z0-9]*(?:&semi;|&#0*59;|&#[xX]0*3[bB];)`)
var k19StartRe = regexp.MustCompile(`(?i)<colgroup([ \t\n\f\r]*)>`)
var k19Re = regexp.MustCompile(`(?i)<colgroup[ \t\n\f\r]*>`)
var k30Re = regexp.MustCompile(`(?i)\\(?:x3c|u003c|u\{0*3c\})/script`)
var marqueeRe = regexp.MustCompile(`(?i)(</?)marquee`)

// label decides the final signature of a violation. rejudge runs the raw oracle on a variant.
func label(c *Case, v *vh.Violation, rejudge func(*Case) *vh.Violation) {
	sig := v.Signature
	gone := func(variant *Case) bool {
		w := rejudge(variant)
		return w == nil
	}
	structural := strings.HasPrefix(sig, "structure:") || strings.HasPrefix(sig, "text-changed:") || strings.HasPrefix(sig, "words-") || strings.HasPrefix(sig, "keep-comments") || strings.HasPrefix(sig, "line-structure") || strings.HasPrefix(sig, "keep-whitespace:") || strings.HasPrefix(sig, "inline-projection") || strings.HasPrefix(sig, "stub-")
	if c.Registry == "real" && k30Re.MatchString(c.Input) && (sig == "second-pass-error" || structural || strings.HasPrefix(sig, "rawtext-end-moved")) {
		v.Signature = "K30:script-end-tag-materialised:" + sig
		return
	}
	if structural && !c.Opts.KeepEndTags {
		with := *c
		with.Opts.KeepEndTags = true
		next, is17 := k17Shape(c.Input)
		what, is16 := k16Shape(c.Input, c.Opts.KeepComments)
		if is17 && is16 {
			if strings.Contains(sig, "in-p") || strings.Contains(sig, "into:p") {
				is16 = false
			} else {
				is17 = false
			}
		}
		if is17 && strings.Contains(next, "-") {
			is17 = false // the end tag of a custom element: that part of K17 is repaired in /repo, a recurrence is a new violation
		}
		if is17 && gone(&with) {
			v.Signature = "K17:p-endtag-omitted-before:" + next + ":" + sig
			return
		}
		if is16 && gone(&with) {
			v.Signature = "K16:endtag-omission:" + what + ":" + sig
			return
		}
	}
	if k18Re.MatchString(c.Input) && (strings.HasPrefix(sig, "text-changed") || strings.HasPrefix(sig, "attr-value-changed") || strings.HasPrefix(sig, "words-") || strings.HasPrefix(sig, "verbatim")) {
		// counterfactual: terminate the legacy reference properly
		fixed := *c
		fixed.Input = k18Re.ReplaceAllStringFunc(c.Input, func(m string) string {
			i := strings.IndexByte(m[1:], '&') + 1
			return m[:i] + " " + m[i:]
		})
		fixed.Skeleton = ""
		if gone(&fixed) {
			v.Signature = "K18:legacy-reference-terminated-by-replacement:" + sig
			return
		}
	}
	if k19Re.MatchString(c.Input) && (structural || strings.HasPrefix(sig, "attr-")) {
		alt := *c
		alt.Input = k19StartRe.ReplaceAllString(c.Input, "<colgroup class=k19>")
		alt.Skeleton = ""
		if gone(&alt) {
			v.Signature = "K19:attributeless-colgroup-tags-dropped:" + sig
			return
		}
	}
	if marqueeRe.MatchString(c.Input) && (strings.HasPrefix(sig, "words-") || strings.HasPrefix(sig, "keep-whitespace:")) {
		alt := *c
		alt.Input = marqueeRe.ReplaceAllString(c.Input, "${1}span")
		alt.Skeleton = ""
		if gone(&alt) {
			v.Signature = "K39:marquee-treated-as-block:" + sig
			return
		}
	}
	labelNew(c, v, gone)
	if sigID(v.Signature) == "" {
		labelCompound(c, v, gone)
	}
}

// labelCompound: several known shapes in one (already minimised) input. All applicable counterfactual
// rewrites are applied together; if the violation disappears the ids of the shapes present are reported.
func labelCompound(c *Case, v *vh.Violation, gone func(*Case) bool) {
	t := *c
	t.Skeleton = ""
	var ids []string
	add := func(id string) {
		for _, x := range ids {
			if x == id {
				return
			}
		}
		ids = append(ids, id)
	}
	if _, ok := k16Shape(t.Input, t.Opts.KeepComments); ok && !t.Opts.KeepEndTags {
		t.Opts.KeepEndTags = true
		add("K16")
	}
	if _, ok := k17Shape(t.Input); ok && !c.Opts.KeepEndTags {
		t.Opts.KeepEndTags = true
		add("K17")
	}
	if k18Re.MatchString(t.Input) {
		t.Input = k18Re.ReplaceAllStringFunc(t.Input, func(m string) string {
			i := strings.IndexByte(m[1:], '&') + 1
			return m[:i] + " " + m[i:]
		})
		add("K18")
	}
	if k19Re.MatchString(t.Input) {
		t.Input = k19StartRe.ReplaceAllString(t.Input, "<colgroup class=k19>")
		add("K19")
	}
	// (K30, escapes that decode to </script> under the real JS minifier: repaired in /repo, the shape is judged like any other)
	if marqueeRe.MatchString(t.Input) {
		t.Input = marqueeRe.ReplaceAllString(t.Input, "${1}span")
		add("K39")
	}
	if fixed, ok := n01Shape(t.Input); ok {
		t.Input = fixed
		add("N01")
	}
	if n02Re.MatchString(t.Input) {
		t.Input = n02Re.ReplaceAllString(t.Input, "${1}${2}")
		add("N02")
	}
	if n04Re.MatchString(t.Input) && t.Registry != "none" {
		t.Registry = "none"
		add("N04")
	}
	if t.Opts.TemplateDelims && strings.Contains(t.Input, "{{") {
		t.Opts.TemplateDelims = false
		add("N05")
	}
	if n06Re.MatchString(t.Input) {
		t.Input = n06Re.ReplaceAllString(t.Input, "${0}x")
		add("N06")
	}
	if n07Re.MatchString(t.Input) {
		t.Input = n07Re.ReplaceAllString(t.Input, "${0}x")
		add("N07")
	}
	if ampBoilerRe.MatchString(t.Input) {
		t.Input = ampBoilerRe.ReplaceAllString(t.Input, "data-x")
		add("N09")
	}
	if !t.Opts.KeepDocumentTags && bodyHeadRe.MatchString(t.Input) {
		t.Opts.KeepDocumentTags = true
		add("N10")
	}
	if t.StubAmp {
		t.StubAmp = false
		add("N13")
	}
	if len(ids) < 2 {
		return
	}
	if gone(&t) {
		v.Signature = strings.Join(ids, "+") + ":compound:" + v.Signature
	}
}
