package main

// Content-model-aware generator of conforming HTML documents and fragments.
// Everything derives from one vh.Rand. Known defect shapes (K16..K39, N..) are avoided unless
// Gen.Known is set.

import (
	"fmt"
	"sort"
	"strings"

	mhtml "github.com/tdewolff/minify/v2/html"
	xhtml "golang.org/x/net/html"
	"verifharness/internal/vh"
)

type Gen struct {
	r       *vh.Rand
	Known   bool // allow known-defect shapes
	budget  int  // remaining node budget
	ids     int
	used    map[string]bool // element kinds used (histogram)
	hasMain bool
	tmpl    bool // sprinkle {{ }} template actions
}

// content-model context
type ctx struct {
	phrasing    bool // only phrasing content allowed
	noInter     bool // no interactive content (inside a, button, label...)
	noA         bool
	noLabel     bool
	noForm      bool
	noDfn       bool
	noHF        bool // no header/footer
	noSect      bool // no sectioning content / headings (address, th, dt)
	noHeading   bool
	noTable     bool
	noNoscript  bool
	noMedia     bool
	noMain      bool
	noAddress   bool
	noObjectish bool
	depth       int
	parent      string
}

var entityNames []string

func init() {
	for k := range mhtml.EntitiesMap {
		entityNames = append(entityNames, k)
	}
	sort.Strings(entityNames)
}

var fixedRefs = []string{"&amp;", "&lt;", "&gt;", "&quot;", "&apos;", "&nbsp;", "&copy;", "&eacute;", "&semi;", "&colon;", "&hellip;", "&#65;", "&#x41;", "&#X6a;", "&#x1F600;", "&#38;", "&#60;", "&#62;", "&#160;", "&#34;", "&#39;", "&#96;", "&#61;", "&NotEqualTilde;", "&fjlig;", "&ZeroWidthSpace;", "&NewLine;", "&Tab;", "&#10;", "&#32;", "&#9;", "&#8203;", "&#xA0;", "&lpar;", "&excl;", "&DiacriticalGrave;", "&grave;", "&equals;", "&LT;", "&GT;", "&AMP;", "&QUOT;", "&num;", "&percnt;", "&sol;", "&bsol;", "&quest;", "&comma;", "&period;", "&lbrace;", "&rcub;", "&#123;", "&#x7b;&#x7B;"}

var ampCombos = []string{"&amp;lt;", "&amp;#60;", "&#38;amp;", "&amp;amp;", "&amp;copy;", "&#38;#38;", "&amp;&amp;", "&#x26;lt;", "&amp;#x3c;", "&amp;nbsp", "&amp;x", "&amp; ", "&amp;=", "&amp;#", "&AMP;gt;"}

var plainWords = []string{"a", "b", "c", "foo", "bar", "x1", "é", "漢字", "I", "2>1", "a;b", "q=1", "it's", "\"q\"", "`t`", "end.", "-", "--", "->", "a&b", "a&&b", "&", "& ", "&=", "&1", "x&z=2", "]]>", "{", "}}", "%", "a\u00a0b", "\u200b", "\u2028"}

// legacy no-semicolon references and what follows them: the K18 shape
var k18Shapes = []string{"a&lt&semi;b", "&copy&semi;", "&amp&semi;", "&lt&#59;", "&gt&#x3b;x", "&not&semi;"}

func (g *Gen) ref() string {
	switch g.r.Intn(10) {
	case 0, 1:
		return "&" + entityNames[g.r.Intn(len(entityNames))] + ";"
	case 2:
		return ampCombos[g.r.Intn(len(ampCombos))]
	case 3:
		cp := []int{65, 97, 48, 233, 0x4e2d, 0x1F600, 160, 8203, 38, 60, 62, 34, 39, 96, 61, 10, 32, 9, 12, 127 + 33, 9999, 10000, 0x10FFFD - 0x10000}[g.r.Intn(23)]
		if g.r.Bool() {
			return fmt.Sprintf("&#%d;", cp)
		}
		if g.r.Bool() {
			return fmt.Sprintf("&#x%x;", cp)
		}
		return fmt.Sprintf("&#X%04X;", cp)
	}
	return fixedRefs[g.r.Intn(len(fixedRefs))]
}

var braceRepl = strings.NewReplacer("{", "(", "}", ")", "&lbrace;", "(", "&lcub;", "(", "&rbrace;", ")", "&rcub;", ")", "&#123;", "(", "&#x7b;", "(", "&#x7B;", "(", "&#X7B;", "(", "&#X7b;", "(", "&#125;", ")", "&#x7d;", ")", "&#x7D;", ")", "&#X7D;", ")", "&#X7d;", ")")

// noBrace: documents that may be minified with TemplateDelims must not contain stray "{{" / "}}"
// (neither literally nor after reference decoding, because of the second pass).
func (g *Gen) noBrace(s string) string {
	if !g.tmpl {
		return s
	}
	return braceRepl.Replace(s)
}

func (g *Gen) word() string {
	w := g.word0()
	if g.tmpl && !strings.HasPrefix(w, "{{") {
		w = g.noBrace(w)
	}
	return w
}

func (g *Gen) word0() string {
	if g.Known && g.r.Chance(1, 40) {
		return k18Shapes[g.r.Intn(len(k18Shapes))]
	}
	switch g.r.Intn(8) {
	case 0, 1:
		return g.ref()
	case 2:
		return plainWords[g.r.Intn(len(plainWords))] + g.ref()
	case 3:
		if g.tmpl && g.r.Bool() {
			return g.r.Pick("{{ x }}", "{{x}}", "{{ if a }}", "{{ \"s\" }}", "{{ 'a  b' }}", "{{.A | f \"x\"}}")
		}
	}
	return plainWords[g.r.Intn(len(plainWords))]
}

func (g *Gen) ws() string {
	return g.r.Pick(" ", " ", " ", "\n", "  ", "\t", "\n  ", " \n", "\r\n", "\f", " \t ", "\n\n")
}

// text produces running text with the given probability (in 8ths) of whitespace at either edge.
func (g *Gen) text(lead, trail int) string {
	if g.Known && g.r.Chance(1, 30) {
		return k18Shapes[g.r.Intn(len(k18Shapes))] // bypasses fixAmp on purpose
	}
	var sb strings.Builder
	if g.r.Chance(lead, 8) {
		sb.WriteString(g.ws())
	}
	n := 1 + g.r.Intn(3)
	for i := 0; i < n; i++ {
		if i > 0 {
			if g.r.Chance(6, 8) {
				sb.WriteString(g.ws())
			}
		}
		sb.WriteString(g.word())
	}
	if g.r.Chance(trail, 8) {
		sb.WriteString(g.ws())
	}
	s := sb.String()
	if !g.Known {
		s = avoidN01(s)
	}
	// a text node must not let "&" run into a following alphanumeric run that ends in ";" : the word list
	// is built so that this cannot happen inside a word; across words there is either whitespace or a
	// word that starts with a non-alphanumeric... make sure.
	return fixAmp(s)
}

// fixAmp makes every literal "&" that is not the start of one of our generated references harmless:
// a bare ampersand followed by alphanumerics and ";" would be an ambiguous ampersand (non-conforming),
// and one followed by a legacy name prefix would be decoded.
func fixAmp(s string) string {
	var sb strings.Builder
	for i := 0; i < len(s); i++ {
		sb.WriteByte(s[i])
		if s[i] != '&' {
			continue
		}
		// look at the run after &
		j := i + 1
		if j < len(s) && s[j] == '#' {
			continue // numeric (ours are always well-formed) or "&#" + non-digit
		}
		for j < len(s) && isAlnum(s[j]) {
			j++
		}
		if j == i+1 {
			continue // & followed by non-alnum: fine
		}
		if j < len(s) && s[j] == ';' {
			if xhtml.UnescapeString(s[i:j+1]) != s[i:j+1] {
				continue // a complete, existing named reference
			}
			sb.WriteString("amp;") // would be an ambiguous ampersand
			continue
		}
		// bare & + alnum run without ';': conforming only if no legacy name is a prefix of the run
		if hasLegacyPrefix(s[i+1 : j]) {
			sb.WriteString("amp;")
		}
	}
	return sb.String()
}

// avoidN01 separates a reference that decodes to "&" from a following reference that decodes to
// something starting with an alphanumeric or "#" (the pair would be re-read as a new reference).
func avoidN01(s string) string {
	us := units(s)
	var sb strings.Builder
	for i, u := range us {
		sb.WriteString(u)
		if i+1 < len(us) && u[0] == '&' && (len(u) == 1 || xhtml.UnescapeString(u) == "&") {
			nx := us[i+1]
			if len(nx) > 1 && nx[0] == '&' {
				d := xhtml.UnescapeString(nx)
				if d != nx && len(d) > 0 && (isAlnum(d[0]) || d[0] == '#') {
					sb.WriteByte(' ')
				}
			}
		}
	}
	return sb.String()
}

func isAlnum(c byte) bool {
	return c >= '0' && c <= '9' || c >= 'a' && c <= 'z' || c >= 'A' && c <= 'Z'
}

var legacyNames = strings.Fields("AElig AMP Aacute Acirc Agrave Aring Atilde Auml COPY Ccedil ETH Eacute Ecirc Egrave Euml GT Iacute Icirc Igrave Iuml LT Ntilde Oacute Ocirc Ograve Oslash Otilde Ouml QUOT REG THORN Uacute Ucirc Ugrave Uuml Yacute aacute acirc acute aelig agrave amp aring atilde auml brvbar ccedil cedil cent copy curren deg divide eacute ecirc egrave eth euml frac12 frac14 frac34 gt iacute icirc iexcl igrave iquest iuml laquo lt macr micro middot nbsp not ntilde oacute ocirc ograve ordf ordm oslash otilde ouml para plusmn pound quot raquo reg sect shy sup1 sup2 sup3 szlig thorn times uacute ucirc ugrave uml uuml yacute yen yuml")

func hasLegacyPrefix(run string) bool {
	for _, n := range legacyNames {
		if strings.HasPrefix(run, n) {
			return true
		}
	}
	return false
}

func (g *Gen) take() bool {
	if g.budget <= 0 {
		return false
	}
	g.budget--
	return true
}

func (g *Gen) use(tag string) {
	if g.used != nil {
		g.used[tag] = true
	}
}

func (g *Gen) caseMix(tag string) string {
	switch g.r.Intn(12) {
	case 0:
		return strings.ToUpper(tag)
	case 1:
		return strings.ToUpper(tag[:1]) + tag[1:]
	}
	return ""
}

func (g *Gen) elem(tag string) *Node {
	g.use(tag)
	n := &Node{Kind: KElem, Tag: tag}
	if !strings.Contains(tag, "-") { // custom element names must be lower-case in source? (any case parses the same); keep
		n.TagW = g.caseMix(tag)
	}
	n.EndSpace = g.r.Chance(1, 14)
	n.EndUpper = g.r.Chance(1, 14)
	n.OmitEnd = g.r.Chance(1, 2)
	return n
}

func textNode(s string) *Node { return &Node{Kind: KText, Text: s} }

func (g *Gen) comment() *Node {
	var s string
	switch g.r.Intn(8) {
	case 0:
		s = "[if IE]><p>ie  only</p><![endif]"
	case 1:
		s = "[if lt IE 9]> <b> x </b> <![endif]"
	case 2:
		s = "#include file=\"x.html\" "
	case 3:
		s = "#echo var=\"A\""
	case 4:
		s = ""
	case 5:
		s = " a -- b "
	case 6:
		s = "[if !IE]><!"
	default:
		s = " " + g.r.Pick("c", "todo: x", "<b>not a tag</b>", "&amp;", "a > b", "-x-", "[endif]") + " "
	}
	return &Node{Kind: KComment, Text: s}
}

var inlineTags = []string{"span", "b", "i", "em", "strong", "a", "code", "small", "abbr", "cite", "kbd", "mark", "q", "s", "samp", "sub", "sup", "u", "var", "time", "data", "dfn", "bdi", "bdo", "label", "ins", "del", "x-y", "my-el", "slot", "output"}
var atomTags = []string{"img", "br", "wbr", "input", "button", "select", "textarea", "svg", "math", "meter", "progress", "object", "video", "audio", "canvas", "iframe", "embed", "picture", "ruby", "script", "template", "noscript", "datalist", "map"}
var blockTags = []string{"div", "p", "p", "section", "article", "aside", "nav", "header", "footer", "main", "h1", "h2", "h3", "h6", "hgroup", "ul", "ol", "menu", "dl", "blockquote", "pre", "figure", "address", "details", "fieldset", "form", "table", "hr", "dialog", "div", "p"}

func (g *Gen) flowKids(c ctx) []*Node {
	var kids []*Node
	n := 1 + g.r.Intn(4)
	if c.depth <= 0 {
		n = 1 + g.r.Intn(2)
	}
	for i := 0; i < n; i++ {
		if !g.take() {
			break
		}
		switch k := g.r.Intn(10); {
		case k < 3 || c.depth <= 0:
			kids = append(kids, textNode(g.text(3, 3)))
		case k < 6:
			kids = append(kids, g.inlineOrAtom(c)...)
		case k == 6 && g.r.Chance(1, 2):
			kids = append(kids, g.comment())
		case k == 7 && g.r.Chance(1, 2):
			kids = append(kids, textNode(g.ws()))
		default:
			if c.phrasing {
				kids = append(kids, g.inlineOrAtom(c)...)
			} else {
				kids = append(kids, g.block(c))
			}
		}
	}
	return kids
}

func (g *Gen) kidsFor(c ctx) []*Node {
	c.depth--
	return g.flowKids(c)
}

func (g *Gen) phrasingKids(c ctx) []*Node {
	c.phrasing = true
	c.depth--
	return g.flowKids(c)
}

func (g *Gen) inlineOrAtom(c ctx) []*Node {
	if g.r.Chance(2, 5) {
		return []*Node{g.atom(c)}
	}
	tag := inlineTags[g.r.Intn(len(inlineTags))]
	if g.Known && g.r.Chance(1, 25) {
		tag = "marquee" // K39 (obsolete element, still commonly met)
	}
	cc := c
	cc.parent = tag
	switch tag {
	case "a":
		if c.noA || c.noInter {
			tag = "span"
		} else {
			cc.noA, cc.noInter = true, true
		}
	case "label":
		if c.noLabel || c.noInter {
			tag = "span"
		} else {
			cc.noLabel = true
			// label is interactive content itself but may contain one labelable control
			if c.noInter {
				tag = "span"
			}
		}
	case "dfn":
		if c.noDfn {
			tag = "em"
		}
		cc.noDfn = true
	}
	cc.parent = tag
	n := g.elem(tag)
	n.Attrs = g.attrsFor(tag, c)
	switch tag {
	case "a", "ins", "del", "slot", "x-y", "my-el":
		// transparent (a, ins, del, slot) or unconstrained (custom): inherit the parent's model
		if tag == "a" && len(n.Attrs) == 0 && g.r.Bool() {
			n.Attrs = append(n.Attrs, g.mkAttr("href", g.urlVal()))
		}
		if c.phrasing {
			n.Kids = g.phrasingKids(cc)
		} else {
			cc.depth--
			n.Kids = g.flowKids(cc)
			if tag == "slot" { // custom elements: repaired in /repo (K17), slot remains
				g.avoidTrailingP(n)
			} else if (tag == "x-y" || tag == "my-el") && g.r.Chance(1, 2) {
				// a paragraph as the LAST child of a custom element: its end tag must stay (the end tag of an unknown element
				// does not close an open p)
				pn := g.elem("p")
				pn.Kids = []*Node{textNode(g.r.Pick("inside", "in side", "x"))}
				n.Kids = append(n.Kids, pn)
			}
		}
	case "bdo":
		n.Attrs = append(n.Attrs, g.mkAttr("dir", g.r.Pick("ltr", "rtl")))
		n.Kids = g.phrasingKids(cc)
	case "time":
		n.Attrs = append(n.Attrs, g.mkAttr("datetime", g.r.Pick("2020-01-02", "2020-01-02T10:00", " 2020-01-02 ")))
		n.Kids = g.phrasingKids(cc)
	case "data":
		n.Attrs = append(n.Attrs, g.mkAttr("value", g.freeVal()))
		n.Kids = g.phrasingKids(cc)
	default:
		n.Kids = g.phrasingKids(cc)
	}
	if g.r.Chance(1, 6) {
		n.Kids = nil // empty inline element (icon fonts)
	}
	return []*Node{n}
}

// avoidTrailingP: K17 — a p as last child of an element whose end tag does not close it.
func (g *Gen) avoidTrailingP(n *Node) {
	if g.Known {
		return
	}
	for len(n.Kids) > 0 {
		last := n.Kids[len(n.Kids)-1]
		if last.isWSText() || last.Kind == KComment {
			n.Kids = n.Kids[:len(n.Kids)-1]
			continue
		}
		break
	}
	if len(n.Kids) > 0 && n.Kids[len(n.Kids)-1].isElem("p") {
		n.Kids = append(n.Kids, textNode(g.r.Pick("z", " z", "tail")))
	}
}

// lc: N03 — a script/style type that is not lower-case was dropped as default while its content was not minified
// (repaired in /repo: the media type is lower-cased before the lookup); the shape is generated unconditionally now
func (g *Gen) lc(s string) string {
	return s
}

func (g *Gen) rawElem(tag, content string) *Node {
	n := g.elem(tag)
	n.RawText = true
	n.OmitEnd = false
	if content != "" {
		n.Kids = []*Node{textNode(content)}
	}
	return n
}

var scriptBodies = []string{
	"x = 1 ;", "var a = \"<b>\" ;\n", "if (a < b && c > d) { f() }", "document.write('<p>x<\\/p>');", "a = '&amp;' + \"&lt;\";",
	"<!-- \n x = 1 \n-->", "<!-- <script> a() </script> --> b = 2 ;", "var s = \"<\\/script>\";", "  \n  y  =  2  \n ", "y = \"a</scrip>b\"", "x = '</scriptx>'; ",
	"/* </style> */ z()", "var t = `a${b}c`; // c", "a = b + +c ; d = e - -f", "f(\"  \")", "0", "\"use strict\";", "'<\\/SCRIPT' + 'x'",
}

// N02: "</script" followed by something that is not a tag-end character does not end the element
var n02Bodies = []string{"'</SCRIPT' + 'x'", "var a='</script'+'>';", "x = \"</script1\";"}
var k30Bodies = []string{"var a=\"\\x3C/script>\";", "var a = '\\u003C/script\\u003E';", "document.write(\"\\x3Cscript>x()\\x3C/script>\")"}
var styleBodies = []string{
	"a { color : red ; }", "p>b{margin:0 0 0 0}", "/* c */ .x{}", "a::before{content:\"</b>\"}", "<!-- b{c:d} -->", " \n ", "div{background:url( 'a b.png' )}", "@media screen { a { b : c } }", "x{y:'</styl'}", "a{b:c}  /* </script> */",
}
var jsonBodies = []string{"{ \"a\" : 1 , \"b\" : [ 1 , 2 ] }", "[ ]", "{\"@context\":\"https://schema.org\",\"name\":\"<b>x</b> &amp;\"}"}
var rcdataBodies = []string{" a  b ", "x &amp; y", "&lt;/textarea&gt;", "<b>not bold</b>", "line1\nline2\n\n", "\n\nx", "  ", "a</textare>b", "<!-- c -->", "é &eacute; &#233;", "a &lt; b", "tab\there", "</ title>"}

func (g *Gen) script(c ctx) *Node {
	var n *Node
	switch g.r.Intn(10) {
	case 0:
		n = g.rawElem("script", "")
		n.Attrs = append(n.Attrs, g.mkAttr("src", g.urlVal()))
		if g.r.Bool() {
			n.Attrs = append(n.Attrs, g.boolAttr(g.r.Pick("async", "defer", "nomodule")))
		}
	case 1:
		n = g.rawElem("script", jsonBodies[g.r.Intn(len(jsonBodies))])
		n.Attrs = append(n.Attrs, g.mkAttr("type", g.lc(g.r.Pick("application/ld+json", "application/json", "application/ld+json ", "Application/LD+JSON"))))
	case 2:
		n = g.rawElem("script", scriptBodies[g.r.Intn(len(scriptBodies))])
		n.Attrs = append(n.Attrs, g.mkAttr("type", g.lc(g.r.Pick("text/javascript", "application/javascript", "module", "text/javascript", "TEXT/JavaScript", " text/javascript ", "text/javascript;charset=utf-8", "text/ecmascript", "text/x-template", "text/plain", "importmap", "application/javascript; version=1"))))
	case 3:
		n = g.rawElem("script", "")
	default:
		b := scriptBodies[g.r.Intn(len(scriptBodies))]
		if g.Known && g.r.Chance(1, 6) {
			b = k30Bodies[g.r.Intn(len(k30Bodies))]
		} else if g.Known && g.r.Chance(1, 6) {
			b = n02Bodies[g.r.Intn(len(n02Bodies))]
		}
		n = g.rawElem("script", b)
		if g.r.Chance(1, 6) {
			n.Attrs = append(n.Attrs, g.mkAttr("id", g.ident()))
		}
	}
	return n
}

func (g *Gen) style() *Node {
	n := g.rawElem("style", styleBodies[g.r.Intn(len(styleBodies))])
	switch g.r.Intn(8) {
	case 0:
		n.Attrs = append(n.Attrs, g.mkAttr("type", g.lc(g.r.Pick("text/css", "Text/CSS", " text/css"))))
	case 1:
		n.Attrs = append(n.Attrs, g.mkAttr("media", g.r.Pick("all", "screen", "ALL", "screen and (min-width: 1px)", "print, screen")))
	case 2:
		if g.Known { // N09
			n.Attrs = append(n.Attrs, g.boolAttr("amp-boilerplate"))
		}
	case 3:
		n.Kids = nil
	}
	return n
}

func (g *Gen) textarea() *Node {
	body := rcdataBodies[g.r.Intn(len(rcdataBodies))]
	if g.Known && g.tmpl && g.r.Chance(1, 3) {
		body = g.r.Pick("{{ x }}  y", " a  {{ x }}", "&amp;{{x}}&lt;b&gt;") // N05
	}
	n := g.rawElem("textarea", body)
	n.Attrs = g.attrsFor("textarea", ctx{})
	return n
}

var svgBodies = []string{
	`<svg width="10" height="10"><path d="M0 0 L1 1"/></svg>`,
	`<svg viewBox="0 0 1 1"><text x="1"> a  b </text><g><circle r="1"/></g></svg>`,
	`<SVG><title>t</title><desc> d </desc><rect width='1' height="2"></rect></SVG>`,
	`<svg xmlns="http://www.w3.org/2000/svg"><a href="#x"><text>l &amp; m</text></a></svg>`,
	`<svg><foreignObject><p>html  in svg</p></foreignObject></svg>`,
	`<svg><style> a { b : c } </style><!-- c --></svg>`,
	`<svg></svg>`,
	`<svg class="i"><use href="#i"/></svg>`,
}
var mathBodies = []string{
	`<math><mi>x</mi><mo>+</mo><mn>1</mn></math>`,
	`<math display="block"><mrow><mi> y </mi></mrow></math>`,
	`<math><mtext>a  b</mtext><annotation-xml encoding="text/html"><b>x</b></annotation-xml></math>`,
	`<MATH><msup><mi>a</mi><mn>2</mn></msup></MATH>`,
}

func (g *Gen) atom(c ctx) *Node {
	for try := 0; try < 8; try++ {
		tag := atomTags[g.r.Intn(len(atomTags))]
		cc := c
		cc.parent = tag
		switch tag {
		case "img":
			n := g.elem("img")
			n.Void = true
			n.SelfClose = g.r.Intn(4) % 3
			n.Attrs = []Attr{g.mkAttr("src", g.urlVal()), g.mkAttr("alt", g.freeVal())}
			n.Attrs = append(n.Attrs, g.attrsFor("img", c)...)
			return n
		case "br", "wbr":
			n := g.elem(tag)
			n.Void = true
			n.SelfClose = g.r.Intn(4) % 3
			if g.r.Chance(1, 8) {
				n.Attrs = g.globalAttrs(1, c)
			}
			return n
		case "input":
			if c.noInter {
				continue
			}
			n := g.elem("input")
			n.Void = true
			n.SelfClose = g.r.Intn(4) % 3
			n.Attrs = g.attrsFor("input", c)
			return n
		case "button":
			if c.noInter {
				continue
			}
			n := g.elem("button")
			n.Attrs = g.attrsFor("button", c)
			cc.noInter = true
			n.Kids = g.phrasingKids(cc)
			return n
		case "select":
			if c.noInter {
				continue
			}
			return g.selectEl(c)
		case "textarea":
			if c.noInter {
				continue
			}
			return g.textarea()
		case "svg":
			g.use("svg")
			return &Node{Kind: KRaw, Tag: "svg", Text: svgBodies[g.r.Intn(len(svgBodies))]}
		case "math":
			g.use("math")
			return &Node{Kind: KRaw, Tag: "math", Text: mathBodies[g.r.Intn(len(mathBodies))]}
		case "meter", "progress":
			n := g.elem(tag)
			n.Attrs = []Attr{g.mkAttr("value", g.r.Pick("0.5", "1", " .5"))}
			if g.r.Bool() {
				n.Attrs = append(n.Attrs, g.mkAttr("max", g.r.Pick("1", "2.0", "10")))
			}
			n.Kids = []*Node{textNode(g.r.Pick("50%", "half", " 1/2 "))}
			return n
		case "object":
			if c.noObjectish {
				continue
			}
			n := g.elem("object")
			n.Attrs = []Attr{g.mkAttr("data", g.urlVal())}
			if g.r.Bool() {
				n.Attrs = append(n.Attrs, g.mkAttr("type", g.r.Pick("image/png", "text/html", "Image/SVG+XML", "application/pdf ")))
			}
			cc.noObjectish = true
			if c.phrasing {
				n.Kids = g.phrasingKids(cc)
			} else {
				cc.depth--
				n.Kids = g.flowKids(cc)
			}
			return n
		case "video", "audio":
			if c.noMedia || c.noInter {
				continue
			}
			n := g.elem(tag)
			n.Attrs = g.attrsFor(tag, c)
			hasSrc := false
			for _, a := range n.Attrs {
				if strings.EqualFold(a.Name, "src") {
					hasSrc = true
				}
			}
			if !hasSrc {
				k := g.r.Intn(3)
				for i := 0; i < k; i++ {
					s := g.elem("source")
					s.Void = true
					s.Attrs = []Attr{g.mkAttr("src", g.urlVal())}
					if g.r.Bool() {
						s.Attrs = append(s.Attrs, g.mkAttr("type", g.r.Pick("video/mp4", "audio/ogg; codecs=vorbis", "Video/WebM", "video/mp4; codecs=\"avc1.42E01E, mp4a.40.2\"")))
					}
					n.Kids = append(n.Kids, s)
				}
			}
			if g.r.Chance(1, 3) {
				t := g.elem("track")
				t.Void = true
				t.Attrs = []Attr{g.mkAttr("src", g.urlVal()), g.mkAttr("kind", g.r.Pick("subtitles", "captions")), g.mkAttr("srclang", "en")}
				if g.r.Bool() {
					t.Attrs = append(t.Attrs, g.boolAttr("default"))
				}
				n.Kids = append(n.Kids, t)
			}
			cc.noMedia = true
			cc.noInter = c.noInter
			var rest []*Node
			if c.phrasing {
				rest = g.phrasingKids(cc)
			} else {
				cc.depth--
				rest = g.flowKids(cc)
			}
			n.Kids = append(n.Kids, rest...)
			return n
		case "canvas":
			n := g.elem("canvas")
			if c.phrasing {
				n.Kids = g.phrasingKids(cc)
			} else {
				cc.depth--
				n.Kids = g.flowKids(cc)
			}
			return n
		case "iframe":
			if c.noInter {
				continue
			}
			n := g.elem("iframe")
			n.OmitEnd = false
			n.Attrs = []Attr{g.mkAttr("src", g.urlVal())}
			if g.r.Bool() {
				n.Attrs = append(n.Attrs, g.boolAttr("allowfullscreen"))
			}
			if g.r.Chance(1, 3) {
				n.Attrs = append(n.Attrs, g.mkAttr("sandbox", g.r.Pick("", "allow-scripts", " allow-scripts  allow-forms ")))
			}
			return n
		case "embed":
			if c.noInter {
				continue
			}
			n := g.elem("embed")
			n.Void = true
			n.Attrs = []Attr{g.mkAttr("src", g.urlVal())}
			if g.r.Bool() {
				n.Attrs = append(n.Attrs, g.mkAttr("type", g.r.Pick("image/png", "Application/X-Shockwave-Flash", "video/mp4 ")))
			}
			return n
		case "picture":
			n := g.elem("picture")
			k := g.r.Intn(3)
			for i := 0; i < k; i++ {
				s := g.elem("source")
				s.Void = true
				s.Attrs = []Attr{g.mkAttr("srcset", g.r.Pick("a.png", "a.png 1x, b.png 2x", " a.png  1x ,  b.png 2x "))}
				if g.r.Bool() {
					s.Attrs = append(s.Attrs, g.mkAttr("media", g.r.Pick("(min-width: 1px)", "screen")))
				}
				if g.r.Bool() {
					s.Attrs = append(s.Attrs, g.mkAttr("type", g.r.Pick("image/webp", "Image/AVIF")))
				}
				n.Kids = append(n.Kids, s)
				if g.r.Chance(1, 3) {
					n.Kids = append(n.Kids, textNode(g.ws()))
				}
			}
			im := g.elem("img")
			im.Void = true
			im.Keep = true
			im.Attrs = []Attr{g.mkAttr("src", g.urlVal()), g.mkAttr("alt", g.freeVal())}
			n.Kids = append(n.Kids, im)
			return n
		case "ruby":
			return g.ruby(c)
		case "script":
			return g.script(c)
		case "template":
			n := g.elem("template")
			n.OmitEnd = false
			cc = ctx{depth: c.depth - 1, parent: "template"}
			n.Kids = g.flowKids(cc)
			return n
		case "noscript":
			if c.noNoscript {
				continue
			}
			n := g.elem("noscript")
			cc.noNoscript = true
			if c.phrasing {
				n.Kids = g.phrasingKids(cc)
			} else {
				cc.depth--
				n.Kids = g.flowKids(cc)
			}
			return n
		case "datalist":
			n := g.elem("datalist")
			n.Attrs = []Attr{g.mkAttr("id", g.ident())}
			k := g.r.Intn(3)
			for i := 0; i < k; i++ {
				n.Kids = append(n.Kids, g.option(true))
				if g.r.Chance(1, 3) {
					n.Kids = append(n.Kids, textNode(g.ws()))
				}
			}
			return n
		case "map":
			n := g.elem("map")
			n.Attrs = []Attr{g.mkAttr("name", g.ident())}
			if g.r.Bool() {
				a := g.elem("area")
				a.Void = true
				a.Attrs = []Attr{g.mkAttr("shape", g.r.Pick("rect", "circle", "RECT", "poly", "default")), g.mkAttr("coords", g.r.Pick("0,0,1,1", " 0, 0, 1, 1 ", "1,1,5")), g.mkAttr("href", g.urlVal()), g.mkAttr("alt", g.freeVal())}
				n.Kids = append(n.Kids, a)
			}
			var rest []*Node
			if c.phrasing {
				rest = g.phrasingKids(cc)
			} else {
				cc.depth--
				rest = g.flowKids(cc)
			}
			n.Kids = append(n.Kids, rest...)
			return n
		}
	}
	return textNode(g.text(2, 2))
}

func (g *Gen) ruby(c ctx) *Node {
	n := g.elem("ruby")
	cc := c
	cc.parent = "ruby"
	groups := 1
	if g.Known {
		groups = 1 + g.r.Intn(3)
	}
	for gi := 0; gi < groups; gi++ {
		n.Kids = append(n.Kids, textNode(g.r.Pick("漢", "字", "base", "a b", "x ")))
		if g.r.Chance(1, 3) {
			n.Kids = append(n.Kids, g.rtp("rp", "("))
		}
		n.Kids = append(n.Kids, g.rtp("rt", g.r.Pick("kan", "ji", " a ", "x y")))
		if g.r.Chance(1, 4) {
			n.Kids = append(n.Kids, g.rtp("rt", "two"))
		}
		if g.r.Chance(1, 3) {
			n.Kids = append(n.Kids, g.rtp("rp", ")"))
		}
		if g.r.Chance(1, 4) {
			n.Kids = append(n.Kids, textNode(g.ws()))
		}
	}
	return n
}

func (g *Gen) rtp(tag, txt string) *Node {
	n := g.elem(tag)
	n.Kids = []*Node{textNode(txt)}
	return n
}

func (g *Gen) option(inDatalist bool) *Node {
	o := g.elem("option")
	if g.r.Chance(2, 3) {
		o.Attrs = append(o.Attrs, g.mkAttr("value", g.freeVal()))
	}
	if g.r.Chance(1, 4) {
		o.Attrs = append(o.Attrs, g.boolAttr(g.r.Pick("selected", "disabled")))
	}
	if !(inDatalist && g.r.Bool()) {
		o.Kids = []*Node{textNode(g.text(2, 2))}
	}
	return o
}

func (g *Gen) selectEl(c ctx) *Node {
	n := g.elem("select")
	n.OmitEnd = false
	n.Attrs = g.attrsFor("select", c)
	k := g.r.Intn(4)
	sep := func(dst *[]*Node) {
		if g.r.Chance(1, 3) {
			*dst = append(*dst, textNode(g.ws()))
		}
	}
	sep(&n.Kids)
	for i := 0; i < k; i++ {
		if g.r.Chance(1, 4) {
			og := g.elem("optgroup")
			og.Attrs = []Attr{g.mkAttr("label", g.freeVal())}
			sep(&og.Kids)
			kk := g.r.Intn(3)
			for j := 0; j < kk; j++ {
				og.Kids = append(og.Kids, g.option(false))
				sep(&og.Kids)
			}
			n.Kids = append(n.Kids, og)
		} else {
			n.Kids = append(n.Kids, g.option(false))
		}
		sep(&n.Kids)
	}
	return n
}

func (g *Gen) liList(tag string, c ctx) *Node {
	n := g.elem(tag)
	if tag == "ol" && g.r.Chance(1, 3) {
		n.Attrs = append(n.Attrs, g.mkAttr("start", g.r.Pick("1", "3", " 2 ")))
		if g.r.Bool() {
			n.Attrs = append(n.Attrs, g.boolAttr("reversed"))
		}
	}
	k := g.r.Intn(4)
	cc := ctx{depth: c.depth - 1, parent: "li", noForm: c.noForm, noInter: c.noInter, noA: c.noA, noLabel: c.noLabel, noMain: true, noHF: c.noHF, noSect: c.noSect, noHeading: c.noHeading, noNoscript: c.noNoscript, noAddress: c.noAddress, noMedia: c.noMedia, noTable: c.noTable, noDfn: c.noDfn, noObjectish: c.noObjectish}
	for i := 0; i < k; i++ {
		if g.r.Chance(1, 3) {
			n.Kids = append(n.Kids, textNode(g.ws()))
		}
		li := g.elem("li")
		li.Kids = g.flowKids(cc)
		n.Kids = append(n.Kids, li)
		if g.Known && g.r.Chance(1, 8) {
			n.Kids = append(n.Kids, g.script(c)) // K16 shape
		}
	}
	if g.r.Chance(1, 3) {
		n.Kids = append(n.Kids, textNode(g.ws()))
	}
	return n
}

func sub(c ctx, parent string) ctx {
	c.depth--
	c.parent = parent
	c.noMain = true
	return c
}

func (g *Gen) table(c ctx) *Node {
	t := g.elem("table")
	t.OmitEnd = false
	sep := func(dst *[]*Node) {
		if g.r.Chance(1, 3) {
			*dst = append(*dst, textNode(g.ws()))
		}
	}
	cellCtx := sub(c, "td")
	cellCtx.noTable = c.noTable
	sep(&t.Kids)
	if g.r.Chance(1, 4) {
		cp := g.elem("caption")
		cc := sub(c, "caption")
		cc.noTable = true
		cp.Kids = g.flowKids(cc)
		t.Kids = append(t.Kids, cp)
		sep(&t.Kids)
	}
	if g.r.Chance(1, 3) {
		ncg := 1
		if g.Known {
			ncg = 1 + g.r.Intn(2)
		}
		for i := 0; i < ncg; i++ {
			cg := g.elem("colgroup")
			cg.OmitStart = g.r.Bool()
			if g.r.Chance(1, 3) || g.Known && g.r.Chance(1, 3) {
				// span form (no col children); attribute-less empty colgroup is K19
				if !(g.Known && g.r.Bool()) {
					cg.Attrs = []Attr{g.mkAttr("span", g.r.Pick("2", "1", " 3"))}
				}
			} else {
				k := 1 + g.r.Intn(2)
				for j := 0; j < k; j++ {
					col := g.elem("col")
					col.Void = true
					if g.r.Bool() {
						col.Attrs = []Attr{g.mkAttr("span", g.r.Pick("1", "2", "02"))}
					}
					cg.Kids = append(cg.Kids, col)
					sep(&cg.Kids)
				}
				if g.r.Chance(1, 4) {
					cg.Attrs = []Attr{g.mkAttr("class", g.ident())}
				}
			}
			t.Kids = append(t.Kids, cg)
			sep(&t.Kids)
		}
	}
	row := func() *Node {
		tr := g.elem("tr")
		sep(&tr.Kids)
		k := g.r.Intn(3)
		for i := 0; i < k; i++ {
			tag := g.r.Pick("td", "td", "th")
			cell := g.elem(tag)
			if g.r.Chance(1, 3) {
				cell.Attrs = append(cell.Attrs, g.mkAttr(g.r.Pick("colspan", "rowspan"), g.r.Pick("1", "2", " 1", "01", "3 ")))
			}
			if tag == "th" && g.r.Chance(1, 3) {
				cell.Attrs = append(cell.Attrs, g.mkAttr("scope", g.r.Pick("col", "row", "COL")))
			}
			cc := cellCtx
			if tag == "th" {
				cc.noHF, cc.noSect, cc.noHeading = true, true, true
			}
			cell.Kids = g.flowKids(cc)
			tr.Kids = append(tr.Kids, cell)
			sep(&tr.Kids)
			if g.Known && g.r.Chance(1, 10) {
				tr.Kids = append(tr.Kids, g.script(c))
			}
		}
		return tr
	}
	section := func(tag string) *Node {
		s := g.elem(tag)
		sep(&s.Kids)
		k := g.r.Intn(3)
		for i := 0; i < k; i++ {
			s.Kids = append(s.Kids, row())
			sep(&s.Kids)
		}
		return s
	}
	if g.r.Chance(1, 3) {
		t.Kids = append(t.Kids, section("thead"))
		sep(&t.Kids)
	}
	nb := g.r.Intn(3)
	for i := 0; i < nb; i++ {
		tb := section("tbody")
		tb.OmitStart = g.r.Bool()
		if len(tb.Kids) == 0 || !tb.Kids[0].isElem("tr") {
			tb.OmitStart = false
		}
		t.Kids = append(t.Kids, tb)
		sep(&t.Kids)
	}
	if g.r.Chance(1, 4) {
		t.Kids = append(t.Kids, section("tfoot"))
		sep(&t.Kids)
	}
	return t
}

func (g *Gen) block(c ctx) *Node {
	for try := 0; try < 8; try++ {
		tag := blockTags[g.r.Intn(len(blockTags))]
		cc := sub(c, tag)
		switch tag {
		case "div", "blockquote":
			n := g.elem(tag)
			n.Attrs = g.attrsFor(tag, c)
			n.Kids = g.flowKids(cc)
			return n
		case "p":
			n := g.elem("p")
			n.Attrs = g.attrsFor("p", c)
			n.Kids = g.phrasingKids(c)
			return n
		case "section", "article", "aside", "nav":
			if c.noSect {
				continue
			}
			n := g.elem(tag)
			n.Kids = g.flowKids(cc)
			return n
		case "header", "footer":
			if c.noHF {
				continue
			}
			cc.noHF = true
			n := g.elem(tag)
			n.Kids = g.flowKids(cc)
			return n
		case "main":
			if c.noMain || g.hasMain {
				continue
			}
			g.hasMain = true
			n := g.elem("main")
			n.Kids = g.flowKids(cc)
			return n
		case "h1", "h2", "h3", "h6":
			if c.noHeading || c.noSect {
				continue
			}
			n := g.elem(tag)
			n.Kids = g.phrasingKids(c)
			return n
		case "hgroup":
			if c.noHeading || c.noSect {
				continue
			}
			n := g.elem("hgroup")
			h := g.elem("h1")
			h.Keep = true
			h.Kids = g.phrasingKids(c)
			n.Kids = []*Node{h}
			if g.r.Bool() {
				p := g.elem("p")
				p.Kids = g.phrasingKids(c)
				n.Kids = append(n.Kids, textNode(g.ws()), p)
			}
			return n
		case "ul", "ol", "menu":
			return g.liList(tag, c)
		case "dl":
			n := g.elem("dl")
			k := g.r.Intn(3)
			wrap := g.r.Chance(1, 4)
			for i := 0; i < k; i++ {
				var grp []*Node
				if g.r.Chance(1, 3) {
					grp = append(grp, textNode(g.ws()))
				}
				for j := 0; j <= g.r.Intn(2); j++ {
					dt := g.elem("dt")
					dc := cc
					dc.noHF, dc.noSect, dc.noHeading = true, true, true
					dt.Keep = true
					dt.Kids = g.flowKids(dc)
					grp = append(grp, dt)
				}
				for j := 0; j <= g.r.Intn(2); j++ {
					dd := g.elem("dd")
					dd.Keep = true
					dd.Kids = g.flowKids(cc)
					grp = append(grp, dd)
				}
				if wrap {
					d := g.elem("div")
					d.Kids = grp
					n.Kids = append(n.Kids, d)
				} else {
					n.Kids = append(n.Kids, grp...)
				}
			}
			return n
		case "pre":
			n := g.elem("pre")
			n.OmitEnd = false
			pc := c
			pc.depth--
			n.Kids = g.preKids(pc)
			return n
		case "figure":
			n := g.elem("figure")
			n.Kids = g.flowKids(cc)
			if g.r.Bool() {
				fc := g.elem("figcaption")
				fc.Kids = g.flowKids(cc)
				if g.r.Bool() {
					n.Kids = append([]*Node{fc}, n.Kids...)
				} else {
					n.Kids = append(n.Kids, fc)
				}
			}
			return n
		case "address":
			if c.noAddress {
				continue
			}
			cc.noAddress, cc.noHF, cc.noSect, cc.noHeading = true, true, true, true
			n := g.elem("address")
			n.Kids = g.flowKids(cc)
			return n
		case "details":
			if c.noInter {
				continue
			}
			n := g.elem("details")
			if g.r.Bool() {
				n.Attrs = append(n.Attrs, g.boolAttr("open"))
			}
			s := g.elem("summary")
			s.Keep = true
			s.Kids = g.phrasingKids(c)
			n.Kids = append([]*Node{s}, g.flowKids(cc)...)
			return n
		case "fieldset":
			n := g.elem("fieldset")
			if g.r.Bool() {
				l := g.elem("legend")
				l.Kids = g.phrasingKids(c)
				n.Kids = append(n.Kids, l)
			}
			n.Kids = append(n.Kids, g.flowKids(cc)...)
			return n
		case "form":
			if c.noForm {
				continue
			}
			cc.noForm = true
			n := g.elem("form")
			n.Attrs = g.attrsFor("form", c)
			n.Kids = g.flowKids(cc)
			return n
		case "table":
			if c.noTable {
				continue
			}
			return g.table(c)
		case "hr":
			n := g.elem("hr")
			n.Void = true
			n.SelfClose = g.r.Intn(4) % 3
			return n
		case "dialog":
			n := g.elem("dialog")
			if g.r.Bool() {
				n.Attrs = append(n.Attrs, g.boolAttr("open"))
			}
			n.Kids = g.flowKids(cc)
			return n
		}
	}
	n := g.elem("div")
	n.Kids = g.flowKids(sub(c, "div"))
	return n
}

// preKids: phrasing content with arbitrary whitespace that must survive verbatim.
func (g *Gen) preKids(c ctx) []*Node {
	var kids []*Node
	n := 1 + g.r.Intn(3)
	for i := 0; i < n; i++ {
		switch g.r.Intn(4) {
		case 0:
			if c.depth > 0 {
				e := g.elem(g.r.Pick("b", "code", "span", "i"))
				e.Kids = []*Node{textNode(g.r.Pick("  x  ", "\n y\n", "z", " ", "a  b"))}
				kids = append(kids, e)
				continue
			}
			fallthrough
		default:
			kids = append(kids, textNode(g.r.Pick("\n", "\n\n", "  ", "", "\t")+g.text(8, 8)+g.r.Pick("\n", "   ", "", " \n ")))
		}
	}
	return kids
}

// ---------------------------------------------------------------- attributes

func (g *Gen) ident() string {
	g.ids++
	return fmt.Sprintf("%s%d", g.r.Pick("i", "x", "Id", "n-"), g.ids)
}

// encodeVal turns a logical attribute value into conforming source with a random quoting style
// and a random choice of character references.
func (g *Gen) encodeVal(v string) (string, byte) {
	quote := []byte{'"', '"', '\'', 0}[g.r.Intn(4)]
	if v == "" && quote == 0 {
		quote = '"'
	}
	var sb strings.Builder
	rs := []rune(v)
	for i, c := range rs {
		must := false
		switch c {
		case '"':
			must = quote != '\''
		case '\'':
			must = quote != '"'
		case ' ', '\t', '\n', '\f', '\r', '=', '<', '>', '`':
			must = quote == 0
			if c == '\r' {
				must = true // a literal CR would be normalised to LF by the input stream preprocessor
			}
		case '&':
			// a literal & is fine unless what follows could be read as a reference
			must = true
			if i+1 == len(rs) {
				must = false
			} else if nx := rs[i+1]; !(nx < 128 && isAlnum(byte(nx))) && nx != '#' {
				must = false
			}
			if !must && g.r.Bool() {
				must = true
			}
		}
		if !must && g.r.Chance(1, 12) && c < 0x10000 {
			must = true
		}
		if !g.Known && i > 0 && rs[i-1] == '&' && (c < 128 && isAlnum(byte(c)) || c == '#') {
			must = false // N01: "&amp;" followed by a reference that decodes to an alphanumeric
		}
		if !must {
			sb.WriteRune(c)
			continue
		}
		named := map[rune][]string{'"': {"&quot;", "&QUOT;"}, '\'': {"&apos;"}, '&': {"&amp;", "&AMP;"}, '<': {"&lt;", "&LT;"}, '>': {"&gt;", "&GT;"}, '`': {"&grave;", "&DiacriticalGrave;"}, '=': {"&equals;"}, '\n': {"&NewLine;"}, '\t': {"&Tab;"}, ';': {"&semi;"}, ':': {"&colon;"}, '/': {"&sol;"}, '(': {"&lpar;"}, '?': {"&quest;"}, '.': {"&period;"}, ',': {"&comma;"}, '#': {"&num;"}, '%': {"&percnt;"}, 'é': {"&eacute;"}}
		if ns, ok := named[c]; ok && g.r.Bool() {
			sb.WriteString(ns[g.r.Intn(len(ns))])
		} else if g.r.Bool() {
			fmt.Fprintf(&sb, "&#%d;", c)
		} else {
			fmt.Fprintf(&sb, "&#x%X;", c)
		}
	}
	return sb.String(), quote
}

func (g *Gen) plainAttr(name, val string) Attr {
	return Attr{Name: name, Val: val, Quote: '"'}
}

func (g *Gen) mkAttr(name, logical string) Attr {
	logical = g.noBrace(logical)
	v, q := g.encodeVal(logical)
	v = g.noBrace(v)
	a := Attr{Name: name, Val: v, Quote: q}
	if g.r.Chance(1, 10) {
		a.Name = strings.ToUpper(name[:1]) + name[1:]
	}
	if g.r.Chance(1, 16) {
		a.SpEq = true
	}
	if g.tmpl && g.r.Chance(1, 10) && q != 0 && name != "type" && name != "http-equiv" && name != "name" && (name != "content" || g.Known) && name != "style" && !strings.HasPrefix(name, "on") {
		other := "'"
		if q == '\'' {
			other = "\""
		}
		a.Val += g.r.Pick("{{ x }}", "{{ if a }}b{{ end }}", "{{ f "+other+"s"+other+" }}")
	}
	return a
}

func (g *Gen) boolAttr(name string) Attr {
	switch g.r.Intn(4) {
	case 0:
		return Attr{Name: name, Val: name, Quote: '"'}
	case 1:
		return Attr{Name: name, Val: "", Quote: '"'}
	case 2:
		return Attr{Name: strings.ToUpper(name), NoVal: true}
	}
	return Attr{Name: name, NoVal: true}
}

var freeAlphabet = []string{"a", "b", "Z", "1", " ", " ", "\"", "'", "=", "<", ">", "`", "&", "&", ";", "/", "\t", "\n", "é", "#", "x", "lt", "amp", "#60", "gt;", "-", "?", "漢", "{", "}", "%", "+", "\\", "\f"}

func (g *Gen) freeVal() string {
	switch g.r.Intn(6) {
	case 0:
		return g.r.Pick("", "a", "a b", " a ", "it's", "say \"hi\"", "a=b", "a>b", "`", "x&y", "1 < 2", "a&amp;b", "&lt;", "'\"", "\"\"'", "''\"", " ", "a/", "/", "a  b", "\nx\n", "&#38;", "&amp", "&copy", "&copy=1", "q&lt=1", "a&b;c")
	}
	n := 1 + g.r.Intn(6)
	var sb strings.Builder
	for i := 0; i < n; i++ {
		sb.WriteString(freeAlphabet[g.r.Intn(len(freeAlphabet))])
	}
	return sb.String()
}

func (g *Gen) urlVal() string {
	switch g.r.Intn(14) {
	case 0:
		return "http://example.com/a?b=1&c=2"
	case 1:
		return "https://example.com/x y"
	case 2:
		return "HTTP://Example.com/"
	case 3:
		return "HTTPS://example.com/?q=\"a\"&r='b'"
	case 4:
		return " /a/b "
	case 5:
		return "#frag"
	case 6:
		return "//cdn.example.com/x.js"
	case 7:
		return "data:text/plain;base64,SGVsbG8="
	case 8:
		return "data:text/plain,hello%20world"
	case 9:
		return "data:image/gif;base64,R0lGODlhAQABAAAAACw="
	case 10:
		return "mailto:a@b.c?subject=x&body=y"
	case 11:
		return "a.html?x=1&amp=2&lt;=3"
	case 12:
		return "http:x"
	}
	return g.r.Pick("a.png", "/x", "x?y=`z`", "javascript:void(0)", "http://a", "https:", "httpx://y", "../up", "a=b", "?a>b", "x.js ", "\ty")
}

var onBodies = []string{"f()", "javascript:f()", " a = 1 ; ", "JavaScript: g( 'x' )", "return a<b && c>d", "alert(\"x\")", "alert('y')", "x=`t`", "a && b", "if(a & b)c()", "", "javascript:", " ", "s='& '", "w(\"<b>\")"}
var cssBodies = []string{"color: red", " color : red ; ", "background:url('a.png')", "font-family:\"A B\"", "", " ", "content:'\"'", "margin:0 0 0 0;", "a:b;c:d", "width:calc(1px + 2px)", "color:red;;", "x:'& '"}

// N04: "&amp;" directly followed by an alphanumeric stays encoded in the payload handed to the css/js minifier
var n04On = []string{"a&&b", "if(a&&b)c()", "s='&amp;'", "x=a&b", "return a<b&&c>d"}
var n04Css = []string{"x:'&amp;'", "background:url(a?b=1&c=2)"}

func (g *Gen) globalAttrs(max int, c ctx) []Attr {
	var as []Attr
	seen := map[string]bool{}
	n := g.r.Intn(max + 1)
	for i := 0; i < n; i++ {
		var a Attr
		switch g.r.Intn(16) {
		case 0, 1:
			a = g.mkAttr("class", g.r.Pick("a", "a b", " a  b ", "", "A", "a\nb", " ", "x-1 y_2"))
		case 2:
			a = g.mkAttr("id", g.ident())
		case 3, 4:
			a = g.mkAttr("title", g.freeVal())
		case 5:
			b := cssBodies[g.r.Intn(len(cssBodies))]
			if g.Known && g.r.Chance(1, 4) {
				b = n04Css[g.r.Intn(len(n04Css))]
			}
			a = g.mkAttr("style", b)
		case 6:
			b := onBodies[g.r.Intn(len(onBodies))]
			if g.Known && g.r.Chance(1, 4) {
				b = n04On[g.r.Intn(len(n04On))]
			}
			a = g.mkAttr(g.r.Pick("onclick", "onmouseover", "onfocus"), b)
		case 7, 8:
			a = g.mkAttr("data-"+g.r.Pick("x", "v", "long-name"), g.freeVal())
		case 9:
			a = g.mkAttr("lang", g.r.Pick("en", "en-US", "zh-Hant"))
		case 10:
			a = g.mkAttr("dir", g.r.Pick("ltr", "rtl", "auto", "LTR"))
		case 11:
			a = g.mkAttr("hidden", g.r.Pick("", "hidden", "until-found"))
			if g.r.Bool() {
				a = Attr{Name: "hidden", NoVal: true}
			}
		case 12:
			a = g.mkAttr("tabindex", g.r.Pick("0", "-1", " 1 ", "+2"))
		case 13:
			a = g.mkAttr("aria-label", g.freeVal())
		case 14:
			a = g.mkAttr(g.r.Pick("contenteditable", "draggable", "spellcheck", "translate", "autocapitalize"), g.r.Pick("true", "false", "yes", "no", "", "TRUE"))
		case 15:
			a = g.boolAttr(g.r.Pick("itemscope", "inert", "autofocus"))
		}
		k := strings.ToLower(a.Name)
		if seen[k] {
			continue
		}
		seen[k] = true
		as = append(as, a)
	}
	return as
}

func (g *Gen) attrsFor(tag string, c ctx) []Attr {
	var as []Attr
	add := func(a Attr) { as = append(as, a) }
	switch tag {
	case "a":
		if g.r.Chance(3, 4) {
			add(g.mkAttr("href", g.urlVal()))
			if g.r.Chance(1, 4) {
				add(g.mkAttr("target", g.r.Pick("_blank", "_self", " x ")))
			}
			if g.r.Chance(1, 4) {
				add(g.mkAttr("rel", g.r.Pick("noopener", " noopener  noreferrer ", "NoFollow")))
			}
			if g.r.Chance(1, 5) {
				add(g.mkAttr("type", g.r.Pick("text/html", "Text/HTML; charset=UTF-8", " application/pdf")))
			}
		}
	case "img":
		if g.r.Chance(1, 3) {
			add(g.mkAttr("width", g.r.Pick("10", " 10", "010")))
			add(g.mkAttr("height", g.r.Pick("5", "5 ")))
		}
		if g.r.Chance(1, 5) {
			add(g.mkAttr("srcset", g.r.Pick("a.png 1x, b.png 2x", " a.png  1x ,b.png 2x")))
		}
		if g.r.Chance(1, 5) {
			add(g.mkAttr("loading", g.r.Pick("lazy", "eager", "LAZY")))
		}
		if g.r.Chance(1, 8) {
			add(g.boolAttr("ismap"))
		}
	case "input":
		ty := g.r.Pick("", "text", "TEXT", " text ", "checkbox", "radio", "submit", "number", "hidden", "email", "password", "range", "Radio")
		if ty != "" {
			add(g.mkAttr("type", ty))
		}
		if g.r.Chance(1, 2) {
			add(g.mkAttr("name", g.r.Pick("n", "q", "", "a b")))
		}
		if g.r.Chance(1, 2) {
			add(g.mkAttr("value", g.r.Pick("", "on", "off", "v", " v ", g.freeVal())))
		}
		if g.r.Chance(1, 3) {
			add(g.boolAttr(g.r.Pick("checked", "disabled", "readonly", "required", "multiple", "formnovalidate")))
		}
		if g.r.Chance(1, 5) {
			add(g.mkAttr("placeholder", g.freeVal()))
		}
		if g.r.Chance(1, 6) {
			add(g.mkAttr(g.r.Pick("maxlength", "size", "min", "max", "step"), g.r.Pick("1", "10", " 2", "1.50", "any")))
		}
		if g.r.Chance(1, 8) {
			add(g.mkAttr("pattern", g.r.Pick("[a-z]+", "a b", "\\d{2}", "[\"']")))
		}
		if g.r.Chance(1, 8) {
			add(g.mkAttr("autocomplete", g.r.Pick("off", "on", "section-a  email", " off ")))
		}
		if g.r.Chance(1, 10) {
			add(g.mkAttr("accept", g.r.Pick("image/*", "image/png, image/jpeg", "Image/PNG , .jpg")))
		}
		if g.r.Chance(1, 10) {
			add(g.mkAttr("formaction", g.urlVal()))
		}
		if g.r.Chance(1, 10) {
			add(g.mkAttr("formmethod", g.r.Pick("get", "post", "GET")))
		}
		if g.r.Chance(1, 10) {
			add(g.mkAttr("formenctype", g.r.Pick("application/x-www-form-urlencoded", "multipart/form-data", "Text/Plain")))
		}
	case "button":
		if g.r.Chance(1, 2) {
			add(g.mkAttr("type", g.r.Pick("submit", "button", "reset", "SUBMIT", " submit")))
		}
		if g.r.Chance(1, 4) {
			add(g.mkAttr("name", g.r.Pick("b", "")))
		}
		if g.r.Chance(1, 4) {
			add(g.mkAttr("value", g.freeVal()))
		}
		if g.r.Chance(1, 5) {
			add(g.boolAttr("disabled"))
		}
	case "form":
		if g.r.Chance(2, 3) {
			add(g.mkAttr("method", g.r.Pick("get", "post", "GET", "POST", " get ", "dialog")))
		}
		if g.r.Chance(1, 2) {
			add(g.mkAttr("action", g.r.Pick("/submit", "http://example.com/s", " /s ", "?a=1&b=2")))
		}
		if g.r.Chance(1, 3) {
			add(g.mkAttr("enctype", g.r.Pick("application/x-www-form-urlencoded", "multipart/form-data", "Application/X-WWW-Form-Urlencoded", "text/plain")))
		}
		if g.r.Chance(1, 5) {
			add(g.boolAttr("novalidate"))
		}
		if g.r.Chance(1, 6) {
			add(g.mkAttr("accept-charset", g.r.Pick("utf-8", " UTF-8 ")))
		}
		if g.r.Chance(1, 6) {
			add(g.mkAttr("name", g.r.Pick("f", "")))
		}
	case "select":
		if g.r.Chance(1, 3) {
			add(g.mkAttr("name", g.r.Pick("s", "")))
		}
		if g.r.Chance(1, 4) {
			add(g.boolAttr(g.r.Pick("multiple", "required", "disabled")))
		}
		if g.r.Chance(1, 5) {
			add(g.mkAttr("size", g.r.Pick("1", "4", " 2 ")))
		}
	case "textarea":
		if g.r.Chance(1, 2) {
			add(g.mkAttr("rows", g.r.Pick("2", " 3 ")))
			add(g.mkAttr("cols", g.r.Pick("20", "020")))
		}
		if g.r.Chance(1, 4) {
			add(g.mkAttr("wrap", g.r.Pick("soft", "hard", "SOFT")))
		}
		if g.r.Chance(1, 4) {
			add(g.mkAttr("name", g.r.Pick("t", "")))
		}
		if g.r.Chance(1, 4) {
			add(g.mkAttr("placeholder", g.freeVal()))
		}
		if g.r.Chance(1, 5) {
			add(g.boolAttr(g.r.Pick("readonly", "required", "disabled")))
		}
	case "video", "audio":
		if g.r.Chance(1, 2) {
			add(g.mkAttr("src", g.urlVal()))
		}
		if g.r.Chance(1, 2) {
			add(g.boolAttr(g.r.Pick("controls", "autoplay", "loop", "muted", "playsinline")))
		}
		if tag == "video" && g.r.Chance(1, 4) {
			add(g.mkAttr("poster", g.urlVal()))
		}
		if g.r.Chance(1, 4) {
			add(g.mkAttr("preload", g.r.Pick("none", "auto", "metadata", "")))
		}
	case "blockquote":
		if g.r.Chance(1, 4) {
			add(g.mkAttr("cite", g.urlVal()))
		}
	}
	// keep attribute names unique
	seen := map[string]bool{}
	for _, a := range as {
		seen[strings.ToLower(a.Name)] = true
	}
	if g.r.Chance(1, 2) {
		for _, a := range g.globalAttrs(2, c) {
			if !seen[strings.ToLower(a.Name)] {
				seen[strings.ToLower(a.Name)] = true
				as = append(as, a)
			}
		}
	}
	// shuffle
	for i := len(as) - 1; i > 0; i-- {
		j := g.r.Intn(i + 1)
		as[i], as[j] = as[j], as[i]
	}
	return as
}

// ---------------------------------------------------------------- top level

// Fragment generates a body-context fragment. The result is the virtual root.
func (g *Gen) Fragment() *Node {
	root := &Node{Kind: KElem, Tag: "#root"}
	c := ctx{depth: 3 + g.r.Intn(2), parent: "body"}
	root.Kids = g.flowKids(c)
	for len(root.Kids) < 2 && g.budget > 0 {
		root.Kids = append(root.Kids, g.flowKids(c)...)
	}
	return root
}

// Document generates a complete document.
func (g *Gen) Document() *Node {
	root := &Node{Kind: KElem, Tag: "#root"}
	if g.r.Chance(1, 5) {
		root.Kids = append(root.Kids, g.comment())
	}
	dt := g.r.Pick("<!DOCTYPE html>", "<!doctype html>", "<!DOCTYPE HTML>", "<!doctype html >", "<!DOCTYPE html SYSTEM \"about:legacy-compat\">", "<!DOCTYPE HTML PUBLIC \"-//W3C//DTD HTML 4.01//EN\" \"http://www.w3.org/TR/html4/strict.dtd\">", "<!DOCTYPE html PUBLIC \"-//W3C//DTD XHTML 1.0 Strict//EN\" \"http://www.w3.org/TR/xhtml1/DTD/xhtml1-strict.dtd\">", "<!DocType  html>")
	d := &Node{Kind: KDoctype, Text: dt, Keep: true}
	root.Kids = append(root.Kids, d)
	if g.r.Chance(1, 2) {
		root.Kids = append(root.Kids, textNode(g.r.Pick("\n", " ", "\n\n")))
	}
	if g.r.Chance(1, 6) {
		root.Kids = append(root.Kids, g.comment())
	}
	html := g.elem("html")
	html.Keep = true
	html.OmitStart, html.OmitEnd = g.r.Chance(1, 3), g.r.Chance(1, 3)
	if g.r.Chance(1, 2) {
		html.Attrs = []Attr{g.mkAttr("lang", g.r.Pick("en", "en-GB", "nl"))}
		if g.r.Chance(1, 4) {
			html.Attrs = append(html.Attrs, g.mkAttr("class", g.r.Pick("no-js", " a  b ", "")))
		}
	}
	head := g.elem("head")
	head.Keep = true
	head.OmitStart, head.OmitEnd = g.r.Chance(1, 3), g.r.Chance(1, 3)
	body := g.elem("body")
	body.Keep = true
	body.OmitStart, body.OmitEnd = g.r.Chance(1, 3), g.r.Chance(1, 3)
	if g.r.Chance(1, 5) {
		body.Attrs = g.globalAttrs(2, ctx{})
	}
	sep := func(dst *[]*Node) {
		if g.r.Chance(1, 2) {
			*dst = append(*dst, textNode(g.r.Pick("\n", " ", "\n  ", "\n\n")))
		}
	}
	// head content
	sep(&head.Kids)
	hn := 1 + g.r.Intn(5)
	title := false
	for i := 0; i < hn; i++ {
		switch g.r.Intn(9) {
		case 0, 1:
			if !title {
				title = true
				t := g.rawElem("title", g.r.Pick("T", " a  title ", "x &amp; y", "&lt;b&gt;", "<b>t</b>", "a\nb", "é", "t &copy; 2020  ", "{{ .T }}"))
				head.Kids = append(head.Kids, t)
			}
		case 2, 3:
			head.Kids = append(head.Kids, g.meta())
		case 4:
			head.Kids = append(head.Kids, g.link())
		case 5:
			head.Kids = append(head.Kids, g.style())
		case 6:
			head.Kids = append(head.Kids, g.script(ctx{}))
		case 7:
			if g.r.Bool() {
				head.Kids = append(head.Kids, g.comment())
			} else {
				b := g.elem("base")
				b.Void = true
				b.Attrs = []Attr{g.mkAttr("target", "_blank")}
				head.Kids = append(head.Kids, b)
			}
		case 8:
			ns := g.elem("noscript")
			ns.OmitEnd = false
			ns.Kids = []*Node{g.link()}
			if g.r.Bool() {
				ns.Kids = append(ns.Kids, g.style())
			}
			head.Kids = append(head.Kids, ns)
		}
		sep(&head.Kids)
	}
	// body content
	c := ctx{depth: 3 + g.r.Intn(2), parent: "body"}
	body.Kids = g.flowKids(c)
	if !g.Known {
		// N01: "<body>" is dropped even when the body starts with script/style/link/meta/template/noscript
		// (which then land in the head). Keep those away from the first position unless the body tag has attributes.
		for len(body.Attrs) == 0 && len(body.Kids) > 0 {
			f := firstSigIncludingComments(body.Kids)
			if f != nil && (f.isElem("script", "style", "link", "meta", "template", "noscript", "base", "title")) {
				body.Kids = append([]*Node{textNode(g.r.Pick("t", "lead ", "x"))}, body.Kids...)
				continue
			}
			break
		}
	}
	html.Kids = []*Node{head}
	if g.r.Chance(1, 3) {
		html.Kids = append(html.Kids, textNode(g.r.Pick("\n", " ")))
	}
	html.Kids = append(html.Kids, body)
	root.Kids = append(root.Kids, html)
	if g.r.Chance(1, 8) {
		root.Kids = append(root.Kids, g.comment())
	}
	return root
}

func firstSigIncludingComments(kids []*Node) *Node {
	for _, k := range kids {
		if k.isWSText() || k.Kind == KComment {
			continue
		}
		return k
	}
	return nil
}

func (g *Gen) meta() *Node {
	m := g.elem("meta")
	m.Void = true
	m.SelfClose = g.r.Intn(4) % 3
	switch g.r.Intn(8) {
	case 0:
		m.Attrs = []Attr{g.mkAttr("charset", g.r.Pick("utf-8", "UTF-8", " utf-8 "))}
	case 1:
		m.Attrs = []Attr{g.mkAttr("http-equiv", g.r.Pick("content-type", "Content-Type", " content-type ")), g.mkAttr("content", g.r.Pick("text/html; charset=utf-8", "text/html;charset=UTF-8", "text/html; charset=iso-8859-1", "Text/HTML ; Charset=utf-8"))}
	case 2:
		vp := g.r.Pick("width=device-width, initial-scale=1.0", "width=device-width,initial-scale=1", "initial-scale=0.50, maximum-scale=2.00", "width = 320")
		if g.Known { // N11: digits written as character references
			m.Attrs = []Attr{g.mkAttr("name", g.r.Pick("viewport", "Viewport", " viewport")), g.mkAttr("content", vp)}
		} else {
			m.Attrs = []Attr{g.mkAttr("name", g.r.Pick("viewport", "Viewport", " viewport")), g.plainAttr("content", vp)}
		}
	case 3:
		m.Attrs = []Attr{g.mkAttr("name", g.r.Pick("keywords", "Keywords")), g.mkAttr("content", g.r.Pick("a, b, c", "a,b", "x y, z  w", "a ,b"))}
	case 4:
		m.Attrs = []Attr{g.mkAttr("name", "description"), g.mkAttr("content", g.freeVal())}
	case 5:
		m.Attrs = []Attr{g.mkAttr("property", "og:title"), g.mkAttr("content", g.freeVal())}
	case 6:
		m.Attrs = []Attr{g.mkAttr("http-equiv", g.r.Pick("refresh", "x-ua-compatible")), g.mkAttr("content", g.r.Pick("5; url=http://example.com/", "IE=edge", "0;URL='x y'"))}
	case 7:
		m.Attrs = []Attr{g.mkAttr("name", g.r.Pick("generator", "theme-color", "")), g.mkAttr("content", g.r.Pick("", "#fff", "a  b"))}
	}
	if g.r.Bool() {
		m.Attrs[0], m.Attrs[len(m.Attrs)-1] = m.Attrs[len(m.Attrs)-1], m.Attrs[0]
	}
	return m
}

func (g *Gen) link() *Node {
	l := g.elem("link")
	l.Void = true
	l.SelfClose = g.r.Intn(4) % 3
	l.Attrs = []Attr{g.mkAttr("rel", g.r.Pick("stylesheet", "icon", " stylesheet ", "preload", "alternate stylesheet", "Stylesheet")), g.mkAttr("href", g.urlVal())}
	if g.r.Chance(1, 2) {
		l.Attrs = append(l.Attrs, g.mkAttr("type", g.r.Pick("text/css", "Text/CSS", "image/x-icon", " text/css ", "text/css; charset=utf-8")))
	}
	if g.r.Chance(1, 4) {
		l.Attrs = append(l.Attrs, g.mkAttr("media", g.r.Pick("all", "screen", "print and (x)")))
	}
	if g.r.Chance(1, 6) {
		l.Attrs = append(l.Attrs, g.mkAttr("as", g.r.Pick("style", "script")))
	}
	if g.r.Chance(1, 6) {
		l.Attrs = append(l.Attrs, g.mkAttr("crossorigin", g.r.Pick("", "anonymous", "use-credentials")))
	}
	return l
}

// finish: post-pass over the generated tree — unique attribute names per element, and (unless Known)
// separation of the N06/N07 shapes.
func (g *Gen) finish(n *Node) {
	if n.Kind == KElem && len(n.Attrs) > 1 {
		seen := map[string]bool{}
		var as []Attr
		for _, a := range n.Attrs {
			k := strings.ToLower(a.Name)
			if seen[k] {
				continue
			}
			seen[k] = true
			as = append(as, a)
		}
		n.Attrs = as
	}
	for _, k := range n.Kids {
		g.finish(k)
	}
}

// elements after which the minifier does not reset its "omit next leading space" state although a
// rendered atomic box (embed, audio[controls]) or an invisible element (template) separates the texts
func spaceEater(n *Node) bool {
	// embed / audio: repaired in /repo (objectTag); template / datalist remain (finding K107)
	return n.isElem("template", "datalist")
}

var genBlockish = setOf("div p section article aside nav header footer main h1 h2 h3 h4 h5 h6 hgroup ul ol menu li dl dt dd blockquote pre figure figcaption address details summary fieldset legend form table caption colgroup col thead tbody tfoot tr td th hr dialog br option optgroup noscript body html head title style")
var genObjectish = setOf("button canvas iframe img input meter object progress q rt select svg math textarea video wbr marquee embed audio")

// trimNextLeadingSpace walks forward in document order from position (kids,i) and removes the leading white
// space of the first text met before any block or object boundary. Returns true when it is done (stop climbing).
func trimNextLeadingSpace(kids []*Node, i int) bool {
	for j := i; j < len(kids); j++ {
		k := kids[j]
		switch k.Kind {
		case KText:
			us := units(k.Text)
			for len(us) > 0 {
				d := xhtml.UnescapeString(us[0])
				if d != "" && allWS(d) {
					us = us[1:]
					continue
				}
				break
			}
			k.Text = strings.Join(us, "")
			if k.Text == "" {
				continue
			}
			return true
		case KRaw:
			return true
		case KElem:
			if genBlockish[k.Tag] || genObjectish[k.Tag] {
				return true
			}
			if k.RawText {
				continue
			}
			if trimNextLeadingSpace(k.Kids, 0) {
				return true
			}
		}
	}
	return false
}

func (g *Gen) avoidSpaceEaters(n *Node, anc []*Node, idx []int) {
	for i, k := range n.Kids {
		if k.Kind == KElem {
			g.avoidSpaceEaters(k, append(anc, n), append(idx, i))
		}
		if k.Kind == KElem && spaceEater(k) {
			// forward within this parent, then climb while the parents are inline
			if trimNextLeadingSpace(n.Kids, i+1) {
				continue
			}
			cur := n
			for lvl := len(anc) - 1; lvl >= 0; lvl-- {
				if genBlockish[cur.Tag] || genObjectish[cur.Tag] || cur.Tag == "#root" {
					break
				}
				if trimNextLeadingSpace(anc[lvl].Kids, idx[lvl]+1) {
					break
				}
				cur = anc[lvl]
			}
		}
	}
}

func dropEmptyText(n *Node) {
	var ks []*Node
	for _, k := range n.Kids {
		if k.Kind == KText && k.Text == "" && !n.RawText {
			continue
		}
		dropEmptyText(k)
		ks = append(ks, k)
	}
	n.Kids = ks
}

// avoidN01AcrossNodes: adjacent text nodes are one run of character data for the minifier; apply the N01
// separation (and the ampersand hygiene of fixAmp) across the node boundary too.
func avoidN01AcrossNodes(n *Node) {
	if n.RawText {
		return
	}
	for i, k := range n.Kids {
		if k.Kind == KElem {
			avoidN01AcrossNodes(k)
		}
		if i == 0 || k.Kind != KText || n.Kids[i-1].Kind != KText || k.Text == "" || n.Kids[i-1].Text == "" {
			continue
		}
		prev := n.Kids[i-1]
		joined := fixAmp(avoidN01(prev.Text + k.Text))
		if joined != prev.Text+k.Text {
			// keep the node split where it was as far as possible: put everything into the first node
			prev.Text = joined
			k.Text = ""
		}
	}
}

// Finish must be called on every generated tree.
func (g *Gen) Finish(root *Node) {
	g.finish(root)
	if !g.Known {
		avoidN01AcrossNodes(root)
		g.avoidSpaceEaters(root, nil, nil)
		dropEmptyText(root)
	}
}
