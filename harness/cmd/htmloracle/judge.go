package main

// The oracle proper: run the minifier, parse input and output with golang.org/x/net/html,
// compare after normalisation, classify differences into root-cause signatures.

import (
	"fmt"
	"regexp"
	"sort"
	"strings"

	"golang.org/x/net/html"
	"golang.org/x/net/html/atom"

	"verifharness/internal/vh"
)

type Case struct {
	Input    string
	Fragment bool
	Opts     Options
	Registry string // none | stubs | real
	Skeleton string // intended element skeleton from the generator ("" = unknown)
	StubAmp  bool   // stub output contains character-reference look-alikes
	NoTree   bool   // malformed stream: only panic / error / second pass
}

type Verdict struct {
	Judged    bool
	NotJudged string
	Changed   bool
	Output    string
	Viol      *vh.Violation
	C16Skips  []string
}

// x/net/html compares the DOCTYPE name case-sensitively ("<!DOCTYPE HTML>" puts it into quirks mode), whereas the
// standard's tokenizer lower-cases the name. Normalise the name before parsing so that the tree builder
// runs in the mode the standard prescribes.
var doctypeNameRe = regexp.MustCompile(`(?i)(<!doctype[ \t\n\f\r]+)html`)

func parseHTML(src string, fragment bool) ([]*html.Node, error) {
	if loc := doctypeNameRe.FindStringSubmatchIndex(src); loc != nil {
		src = src[:loc[3]] + "html" + src[loc[3]+4:]
	}
	opt := html.ParseOptionEnableScripting(false)
	if fragment {
		ctx := &html.Node{Type: html.ElementNode, Data: "body", DataAtom: atom.Body}
		return html.ParseFragmentWithOptions(strings.NewReader(src), ctx, opt)
	}
	doc, err := html.ParseWithOptions(strings.NewReader(src), opt)
	if err != nil {
		return nil, err
	}
	var roots []*html.Node
	for c := doc.FirstChild; c != nil; c = c.NextSibling {
		roots = append(roots, c)
	}
	return roots, nil
}

var verbatimTags = setOf("pre textarea listing plaintext xmp script style")

func nodeName(n *html.Node) string {
	if n.Namespace != "" {
		return n.Namespace + ":" + n.Data
	}
	return n.Data
}

// item is one entry of a normalised child list.
type item struct {
	el   *html.Node
	text string
}

type cmpCtx struct {
	o   Options
	reg string
}

func wordsOf(s string) string { return strings.Join(asciiFields(s), " ") }

// normKids: comments dropped, adjacent text merged; non-verbatim text reduced to its words.
func normKids(n *html.Node, verbatim bool, reg string, o Options) []item {
	var out []item
	var txt strings.Builder
	has := false
	flush := func() {
		if !has {
			return
		}
		s := txt.String()
		txt.Reset()
		has = false
		if !verbatim {
			s = wordsOf(s)
			if s == "" {
				return
			}
		}
		out = append(out, item{text: s})
	}
	for c := n.FirstChild; c != nil; c = c.NextSibling {
		switch c.Type {
		case html.TextNode:
			txt.WriteString(c.Data)
			has = true
		case html.ElementNode:
			if droppableEmpty(c, reg, o) {
				continue
			}
			flush()
			out = append(out, item{el: c})
		}
	}
	flush()
	return out
}

type diff struct {
	kind   string // structure | attr | text | verbatim
	path   string
	a, b   string
	sig    string
	detail string
}

func attrString(as []nattr) string {
	var sb strings.Builder
	for _, a := range as {
		fmt.Fprintf(&sb, " %s=%q", a.k, a.v)
	}
	return sb.String()
}

func sortAttrs(as []nattr) []nattr {
	sort.SliceStable(as, func(i, j int) bool { return as[i].k < as[j].k })
	return as
}

var knownHTML = setOf("a abbr address area article aside audio b base bdi bdo blockquote body br button canvas caption cite code col colgroup data datalist dd del details dfn dialog div dl dt em embed fieldset figcaption figure footer form h1 h2 h3 h4 h5 h6 head header hgroup hr html i iframe img input ins kbd label legend li link main map mark menu meta meter nav noscript object ol optgroup option output p picture pre progress q rp rt ruby s samp script section select slot small source span strong style sub summary sup table tbody td template textarea tfoot th thead time title tr track u ul var video wbr")

func (cc *cmpCtx) compareAttrs(a, b *html.Node, path string) *diff {
	if a.Namespace != "" {
		// foreign elements: compared only when passed through verbatim
		if cc.reg != "none" {
			return nil
		}
		sa, sb := fmt.Sprint(a.Attr), fmt.Sprint(b.Attr)
		if sa != sb {
			return &diff{kind: "attr", path: path, a: sa, b: sb, sig: "attr-changed:foreign-content"}
		}
		return nil
	}
	na := sortAttrs(normAttrs(a, cc.o, cc.reg, true))
	nb := sortAttrs(normAttrs(b, cc.o, cc.reg, true))
	if cc.reg == "stubs" {
		// style / on* values are judged by the embedded-content check
		strip := func(as []nattr) []nattr {
			var r []nattr
			for _, x := range as {
				if x.k == "style" || strings.HasPrefix(x.k, "on") && len(x.k) > 2 {
					continue
				}
				r = append(r, x)
			}
			return r
		}
		na, nb = strip(na), strip(nb)
	}
	ma := map[string]string{}
	for _, x := range na {
		ma[x.k] = x.v
	}
	mb := map[string]string{}
	for _, x := range nb {
		mb[x.k] = x.v
	}
	ec := elemClass(a.Data)
	for _, x := range na {
		v, ok := mb[x.k]
		if !ok {
			sig := "attr-lost:" + ec + ":" + attrClass(x.k)
			if cc.o.KeepDefaultAttrVals {
				sig = "keep-defaultattrvals:" + sig
			}
			return &diff{kind: "attr", path: path, a: attrString(na), b: attrString(nb), sig: sig, detail: x.k + "=" + fmt.Sprintf("%q", x.v)}
		}
		if v != x.v {
			return &diff{kind: "attr", path: path, a: fmt.Sprintf("%s=%q", x.k, x.v), b: fmt.Sprintf("%s=%q", x.k, v), sig: "attr-value-changed:" + ec + ":" + attrClass(x.k) + ":" + valueDiffKind(x.v, v)}
		}
	}
	for _, x := range nb {
		if _, ok := ma[x.k]; !ok {
			return &diff{kind: "attr", path: path, a: attrString(na), b: attrString(nb), sig: "attr-added:" + ec + ":" + attrClass(x.k), detail: x.k}
		}
	}
	return nil
}

func elemClass(tag string) string {
	switch {
	case strings.Contains(tag, "-"):
		return "custom"
	case !knownHTML[tag]:
		return "unknown"
	}
	return "html"
}

func valueDiffKind(a, b string) string {
	switch {
	case wordsOf(a) == wordsOf(b):
		return "whitespace"
	case strings.EqualFold(a, b):
		return "case"
	case strings.ContainsAny(a, "&") || strings.ContainsAny(b, "&"):
		return "ampersand-or-reference"
	case strings.ContainsAny(a, "\"'`=<>"):
		return "quote-selection"
	case len(b) < len(a) && strings.HasPrefix(a, b):
		return "truncated"
	}
	return "other"
}

func (cc *cmpCtx) skipContent(n *html.Node) bool {
	// embedded content that a registered sub-minifier rewrites is judged elsewhere
	if cc.reg == "none" {
		return false
	}
	if n.Namespace == "" && (n.Data == "script" || n.Data == "style") {
		return true
	}
	if n.Namespace != "" && (n.Data == "svg" || n.Data == "math") {
		return true
	}
	return false
}

func (cc *cmpCtx) compareKids(a, b *html.Node, path string, verbatim bool) *diff {
	ka, kb := normKids(a, verbatim, cc.reg, cc.o), normKids(b, verbatim, cc.reg, cc.o)
	n := len(ka)
	if len(kb) < n {
		n = len(kb)
	}
	desc := func(it item) string {
		if it.el != nil {
			return "<" + nodeName(it.el) + ">"
		}
		return fmt.Sprintf("text %q", clip(it.text, 40))
	}
	for i := 0; i < n; i++ {
		x, y := ka[i], kb[i]
		if (x.el == nil) != (y.el == nil) {
			return &diff{kind: "structure", path: path, a: desc(x), b: desc(y)}
		}
		if x.el == nil {
			if x.text != y.text {
				if verbatim {
					return &diff{kind: "verbatim", path: path, a: x.text, b: y.text, sig: "verbatim-content-changed:" + lastSeg(path)}
				}
				return &diff{kind: "text", path: path, a: x.text, b: y.text}
			}
			continue
		}
		if nodeName(x.el) != nodeName(y.el) {
			return &diff{kind: "structure", path: path, a: desc(x), b: desc(y)}
		}
		p := path + ">" + nodeName(x.el)
		if d := cc.compareAttrs(x.el, y.el, p); d != nil {
			return d
		}
		if cc.skipContent(x.el) {
			continue
		}
		v := verbatim || x.el.Namespace != "" || verbatimTags[x.el.Data]
		if d := cc.compareKids(x.el, y.el, p, v); d != nil {
			return d
		}
	}
	if len(ka) != len(kb) {
		var x, y string
		if len(ka) > n {
			x, y = desc(ka[n]), "(nothing)"
		} else {
			x, y = "(nothing)", desc(kb[n])
		}
		return &diff{kind: "structure", path: path, a: x, b: y}
	}
	return nil
}

func lastSeg(path string) string {
	if i := strings.LastIndexByte(path, '>'); i >= 0 {
		return path[i+1:]
	}
	return path
}

func clip(s string, n int) string {
	if len(s) > n {
		return s[:n] + "…"
	}
	return s
}

// pairs lists (child,parent) facts in document order; used to name what moved where.
func pairs(roots []*html.Node) []string {
	var out []string
	var walk func(n *html.Node, parent string)
	walk = func(n *html.Node, parent string) {
		switch n.Type {
		case html.ElementNode:
			out = append(out, nodeName(n)+"@"+parent)
			if n.Namespace != "" || n.Data == "script" || n.Data == "style" {
				return
			}
			for c := n.FirstChild; c != nil; c = c.NextSibling {
				walk(c, nodeName(n))
			}
		case html.TextNode:
			for _, w := range asciiFields(n.Data) {
				_ = w
				out = append(out, "#text@"+parent)
			}
		case html.DocumentNode:
			for c := n.FirstChild; c != nil; c = c.NextSibling {
				walk(c, parent)
			}
		}
	}
	for _, r := range roots {
		walk(r, "#root")
	}
	return out
}

// structureSignature names the first element/text whose parent changed.
func structureSignature(a, b []*html.Node) string {
	pa, pb := pairs(a), pairs(b)
	count := map[string]int{}
	for _, p := range pa {
		count[p]++
	}
	for _, p := range pb {
		count[p]--
	}
	var missing, extra string
	for _, p := range pa {
		if count[p] > 0 {
			missing = p
			break
		}
	}
	for _, p := range pb {
		if count[p] < 0 {
			extra = p
			break
		}
	}
	split := func(s string) (string, string) {
		i := strings.IndexByte(s, '@')
		return s[:i], s[i+1:]
	}
	switch {
	case missing != "" && extra != "":
		mc, mp := split(missing)
		ec, ep := split(extra)
		if mc == ec {
			return "structure:" + strings.TrimPrefix(mc, "#") + "-moved-into:" + ep + ":from:" + mp
		}
		return "structure:" + strings.TrimPrefix(mc, "#") + "-in-" + mp + "-lost:" + strings.TrimPrefix(ec, "#") + "-in-" + ep + "-added"
	case missing != "":
		mc, mp := split(missing)
		return "structure:" + strings.TrimPrefix(mc, "#") + "-lost-from:" + mp
	case extra != "":
		ec, ep := split(extra)
		return "structure:" + strings.TrimPrefix(ec, "#") + "-added-in:" + ep
	}
	return "structure:order-changed"
}

func comments(roots []*html.Node, reg string) []string {
	var out []string
	var walk func(n *html.Node)
	walk = func(n *html.Node) {
		if n.Type == html.CommentNode {
			out = append(out, n.Data)
		}
		if reg != "none" && n.Type == html.ElementNode && n.Namespace != "" {
			return // rewritten by the svg/mathml minifier
		}
		for c := n.FirstChild; c != nil; c = c.NextSibling {
			walk(c)
		}
	}
	for _, r := range roots {
		walk(r)
	}
	return out
}

func specialComment(d string) bool {
	return strings.HasPrefix(d, "[if ") && strings.Contains(d, "]>") || d == "<![endif]" || len(d) > 1 && d[0] == '#'
}

func normSpecial(d string) string {
	if strings.HasPrefix(d, "[if ") && strings.HasSuffix(d, "<![endif]") {
		return d[:strings.Index(d, "]>")+2] + "…<![endif]" // inner markup is minified recursively
	}
	return d
}

func elementKinds(roots []*html.Node, into map[string]bool) {
	var walk func(n *html.Node)
	walk = func(n *html.Node) {
		if n.Type == html.ElementNode {
			into[nodeName(n)] = true
		}
		for c := n.FirstChild; c != nil; c = c.NextSibling {
			walk(c)
		}
	}
	for _, r := range roots {
		walk(r)
	}
}

func parsedSkeleton(roots []*html.Node) string {
	var sb strings.Builder
	var walk func(n *html.Node)
	walk = func(n *html.Node) {
		if n.Type == html.ElementNode {
			sb.WriteString("<" + n.Data + ">")
			if n.Namespace == "" && !(n.Data == "script" || n.Data == "style" || n.Data == "textarea" || n.Data == "title") {
				for c := n.FirstChild; c != nil; c = c.NextSibling {
					walk(c)
				}
			}
			sb.WriteString("</>")
			return
		}
		for c := n.FirstChild; c != nil; c = c.NextSibling {
			walk(c)
		}
	}
	for _, r := range roots {
		walk(r)
	}
	return sb.String()
}

// Judge evaluates one (document, options, registry) triple.
func Judge(c *Case) (v Verdict) {
	mk := func(kind, sig, obs, exp, detail string) *vh.Violation {
		return &vh.Violation{Kind: kind, Signature: sig, Input: c.Input, InputHex: vh.Hex([]byte(c.Input)), Options: optMap(c), Observed: obs, Expected: exp, Detail: detail}
	}
	reg := newRegistry(c.Registry, c.Opts, c.StubAmp)
	out, err, pan := reg.run(c.Input)
	v.Output = out
	if pan != nil {
		v.Judged = true
		v.Viol = mk("panic", "panic:minify", fmt.Sprint(pan), "no panic", "")
		return
	}
	if err != nil {
		if c.NoTree {
			v.NotJudged = "minify-error-on-malformed-input"
			return
		}
		v.Judged = true
		v.Viol = mk("oracle", "error:first-pass", err.Error(), "no error on conforming input", "")
		return
	}
	v.Changed = out != c.Input
	// C09: the output re-minifies without error (and without panic)
	reg2 := newRegistry(c.Registry, c.Opts, c.StubAmp)
	out2, err2, pan2 := reg2.run(out)
	if pan2 != nil {
		v.Judged = true
		v.Viol = mk("panic", "panic:second-pass", fmt.Sprint(pan2), "no panic", "output: "+out)
		return
	}
	if err2 != nil && c.NoTree && c.Registry == "real" {
		v.NotJudged = "second-pass-error-on-malformed-input-with-real-sub-minifier"
		return
	}
	if err2 != nil {
		v.Judged = true
		v.Viol = mk("oracle", "second-pass-error", err2.Error(), "output re-minifies without error", "output: "+out)
		return
	}
	_ = out2
	if c.NoTree {
		v.Judged = true
		return
	}

	ta, e1 := parseHTML(c.Input, c.Fragment)
	tb, e2 := parseHTML(out, c.Fragment)
	if e1 != nil || e2 != nil {
		v.NotJudged = "tree-builder-error"
		return
	}
	if c.Skeleton != "" {
		if ps := parsedSkeleton(ta); ps != c.Skeleton {
			v.NotJudged = "input-tree-differs-from-intended(generator not conforming or foster parenting)"
			v.Output = "intended " + c.Skeleton + "\nparsed   " + ps
			return
		}
	}
	v.Judged = true
	cc := &cmpCtx{o: c.Opts, reg: c.Registry}

	fail := func(sig, obs, exp, detail string) {
		v.Viol = mk("oracle", sig, obs, exp, detail)
	}

	// doctype
	da, db := doctypeOf(ta), doctypeOf(tb)
	if da != db {
		fail("doctype-changed", db, da, "")
		return
	}
	// element structure, attributes, words per element, verbatim content
	ra := &html.Node{Type: html.DocumentNode}
	rb := &html.Node{Type: html.DocumentNode}
	adopt(ra, ta)
	adopt(rb, tb)
	if d := cc.compareKids(ra, rb, "#root", false); d != nil {
		sig := d.sig
		switch d.kind {
		case "structure":
			sig = structureSignature(ta, tb)
		case "text":
			sig = "text-changed:in-" + lastSeg(d.path) + ":" + textDiffKind(d.a, d.b)
		}
		fail(sig, d.b, d.a, "at "+d.path+" "+d.detail+"\noutput: "+out)
		return
	}
	// "no </script can appear inside emitted script text" is implied by the structure check when the
	// content is compared; with the real registry script text is not compared, so look at the next pass too.

	// comments
	ca, cb := comments(ta, c.Registry), comments(tb, c.Registry)
	if c.Opts.KeepComments {
		if strings.Join(ca, "\x00") != strings.Join(cb, "\x00") {
			fail("keep-comments:comment-lost-or-changed", strings.Join(cb, " | "), strings.Join(ca, " | "), "output: "+out)
			return
		}
	} else if c.Opts.KeepSpecialComments || c.Opts.KeepConditionalComments {
		var sa, sb []string
		for _, x := range ca {
			if specialComment(x) {
				sa = append(sa, normSpecial(x))
			}
		}
		for _, x := range cb {
			if specialComment(x) {
				sb = append(sb, normSpecial(x))
			}
		}
		if strings.Join(sa, "\x00") != strings.Join(sb, "\x00") {
			fail("keep-specialcomments:comment-lost-or-changed", strings.Join(sb, " | "), strings.Join(sa, " | "), "output: "+out)
			return
		}
	}

	// inline formatting projection
	pa, pb := project(ra, false), project(rb, false)
	if sig, det := compareProjection(pa, pb); sig != "" {
		fail(sig, rtoksString(pb, 0, 60), rtoksString(pa, 0, 60), det+"\noutput: "+out)
		return
	}
	if c.Opts.KeepWhitespace {
		pa, pb = project(ra, true), project(rb, true)
		if sig, det := compareProjection(pa, pb); sig != "" {
			fail("keep-whitespace:"+sig, rtoksString(pb, 0, 60), rtoksString(pa, 0, 60), det+"\noutput: "+out)
			return
		}
	}

	// C11 embedded content
	if c.Registry == "stubs" {
		if sig, obs, exp := checkStubs(c, reg.rec, ta, tb); sig != "" {
			fail(sig, obs, exp, "output: "+out)
			return
		}
	}
	// C16 lexical checks
	if sig, obs, exp, skips := checkKeepLexical(c, out); sig != "" {
		fail(sig, obs, exp, "output: "+out)
		return
	} else {
		v.C16Skips = skips
	}
	return
}

func optMap(c *Case) map[string]string {
	m := c.Opts.Map()
	m["registry"] = c.Registry
	if c.Fragment {
		m["fragment"] = "true"
	} else {
		m["fragment"] = "false"
	}
	if c.StubAmp {
		m["stubAmpersand"] = "true"
	}
	return m
}

func doctypeOf(roots []*html.Node) string {
	for _, r := range roots {
		if r.Type == html.DoctypeNode {
			return strings.ToLower(r.Data) // public/system identifiers: "shorten doctype" is documented
		}
	}
	return ""
}

// adopt makes the roots children of a holder without disturbing the nodes (ParseFragment returns parentless nodes;
// Parse returns children of a document node which we detach logically by reading only sibling links).
func adopt(holder *html.Node, roots []*html.Node) {
	if len(roots) == 0 {
		return
	}
	// Roots from Parse are already a sibling chain; roots from ParseFragment are not linked. Link copies of the
	// sibling pointers only.
	for i, r := range roots {
		if i > 0 {
			r.PrevSibling = roots[i-1]
		} else {
			r.PrevSibling = nil
		}
		if i+1 < len(roots) {
			r.NextSibling = roots[i+1]
		} else {
			r.NextSibling = nil
		}
	}
	holder.FirstChild = roots[0]
	holder.LastChild = roots[len(roots)-1]
}

func textDiffKind(a, b string) string {
	ja, jb := strings.ReplaceAll(a, " ", ""), strings.ReplaceAll(b, " ", "")
	switch {
	case ja == jb && len(b) < len(a):
		return "words-joined"
	case ja == jb:
		return "words-split"
	case strings.HasPrefix(a, b):
		return "text-lost"
	case strings.HasPrefix(b, a):
		return "text-gained"
	case strings.ContainsAny(a+b, "&<>;"):
		return "reference-decoding"
	}
	return "other"
}
