// Command htmloracle searches for violations of C03 (plus the HTML parts of C09, C11, C16) in the
// HTML minifier, using golang.org/x/net/html as the independent HTML5 parser.
package main

import (
	"crypto/sha1"
	"encoding/json"
	"flag"
	"fmt"
	"os"
	"path/filepath"
	"runtime/debug"
	"sort"
	"strings"
	"sync"
	"sync/atomic"
	"time"

	"verifharness/internal/vh"
)

type witnessFile struct {
	Input    string            `json:"input"`
	InputHex string            `json:"input_hex,omitempty"`
	Options  map[string]string `json:"options"`
	Fragment bool              `json:"fragment"`
	Registry string            `json:"registry"`
}

type caseOut struct {
	idx       int
	kind      string // fragment | document | malformed
	input     string
	size      int
	evals     int
	judged    int
	notJudged map[string]int
	changed   bool
	optKeys   []string
	regs      []string
	elems     map[string]bool
	c16skips  map[string]int
	viols     []vh.Violation
	sample    map[string]interface{}
}

// judgeLabelled runs the oracle and labels a violation with known ids.
func judgeLabelled(c *Case) Verdict {
	v := Judge(c)
	if v.Viol != nil {
		label(c, v.Viol, func(variant *Case) *vh.Violation {
			w := Judge(variant)
			return w.Viol
		})
	}
	return v
}

func sigID(sig string) string {
	if i := strings.IndexByte(sig, ':'); i > 0 {
		h := sig[:i]
		if len(h) >= 3 && (h[0] == 'K' || h[0] == 'N') && h[1] >= '0' && h[1] <= '9' {
			return h
		}
	}
	return ""
}

func sizeBucket(n int) string {
	switch {
	case n < 64:
		return "<64B"
	case n < 256:
		return "64-255B"
	case n < 1024:
		return "256-1023B"
	case n < 4096:
		return "1-4KiB"
	}
	return ">=4KiB"
}

var allFlags = []func(*Options){
	func(o *Options) { o.KeepComments = true },
	func(o *Options) { o.KeepSpecialComments = true },
	func(o *Options) { o.KeepDefaultAttrVals = true },
	func(o *Options) { o.KeepDocumentTags = true },
	func(o *Options) { o.KeepEndTags = true },
	func(o *Options) { o.KeepQuotes = true },
	func(o *Options) { o.KeepWhitespace = true },
}

func optionSets(r *vh.Rand, tier string, small bool, idx int) []Options {
	var sets []Options
	sets = append(sets, Options{})
	if tier == "thorough" && small {
		for m := 1; m < 1<<len(allFlags); m++ {
			var o Options
			for i, f := range allFlags {
				if m&(1<<i) != 0 {
					f(&o)
				}
			}
			sets = append(sets, o)
		}
	} else {
		// one single-flag set in rotation, plus random combinations
		var single Options
		allFlags[idx%len(allFlags)](&single)
		sets = append(sets, single)
		n := 2
		if tier == "thorough" {
			n = 8
		}
		for k := 0; k < n; k++ {
			var o Options
			for _, f := range allFlags {
				if r.Bool() {
					f(&o)
				}
			}
			sets = append(sets, o)
		}
		all := Options{}
		for _, f := range allFlags {
			f(&all)
		}
		if r.Chance(1, 4) {
			sets = append(sets, all)
		}
	}
	for i := range sets {
		if i == 0 {
			continue
		}
		if r.Chance(1, 16) {
			sets[i].KeepConditionalComments = true // deprecated alias
		}
		if r.Chance(1, 4) {
			sets[i].BaseURL = r.Pick("http", "https")
		}
	}
	return sets
}

func mutate(r *vh.Rand, s string) string {
	b := []byte(s)
	if len(b) == 0 {
		return "<"
	}
	n := 1 + r.Intn(3)
	for k := 0; k < n; k++ {
		switch r.Intn(8) {
		case 0: // truncate
			b = b[:r.Intn(len(b))+1]
		case 1: // flip a byte to a syntax character
			syn := "<>\"'&/=!-? \n`;#\x00{"
			b[r.Intn(len(b))] = syn[r.Intn(len(syn))]
		case 2: // delete a byte
			i := r.Intn(len(b))
			b = append(b[:i], b[i+1:]...)
		case 3: // duplicate a chunk
			i := r.Intn(len(b))
			j := i + r.Intn(len(b)-i+1)
			b = append(b[:j], append(append([]byte{}, b[i:j]...), b[j:]...)...)
		case 4: // insert a stray tag
			i := r.Intn(len(b) + 1)
			t := r.Pick("</p>", "<p>", "</div>", "<table>", "</table>", "<td>", "</li>", "<b>", "</b>", "<script>", "</script>", "<style>", "<textarea>", "<pre>", "</pre>", "<svg>", "</svg>", "<!--", "-->", "<![CDATA[", "<?x", "</", "<a b=\"", "<select>", "<plaintext>", "<math>", "<title>", "<noscript>", "<template>", "</template>", "<iframe>", "<xmp>", "{{", "}}", "&lt", "&#", "&amp")
			b = append(b[:i], append([]byte(t), b[i:]...)...)
		case 5: // swap two chunks
			if len(b) > 4 {
				i := r.Intn(len(b) / 2)
				j := len(b)/2 + r.Intn(len(b)/2)
				b[i], b[j] = b[j], b[i]
			}
		case 6: // cut the middle out (misnesting)
			if len(b) > 8 {
				i := r.Intn(len(b) / 2)
				j := i + r.Intn(len(b)/2)
				b = append(b[:i], b[j:]...)
			}
		case 7: // upper-case a region
			i := r.Intn(len(b))
			j := i + r.Intn(len(b)-i)
			copy(b[i:j], []byte(strings.ToUpper(string(b[i:j]))))
		}
		if len(b) == 0 {
			b = []byte("<")
		}
	}
	return string(b)
}

type runCfg struct {
	tier  string
	known bool
}

// allowKnown: oracle-side exemptions for known defects that cannot be avoided by the generator are lifted
// (set by -known and in witness mode).
var allowKnown bool

var curStart [64]int64 // per worker: unix nano of the running evaluation (0 = idle)
var curCase [64]atomic.Value

func runCase(idx int, cseed uint64, cfg runCfg, worker int) caseOut {
	r := vh.NewRand(cseed)
	co := caseOut{idx: idx, notJudged: map[string]int{}, elems: map[string]bool{}, c16skips: map[string]int{}}
	g := &Gen{r: r.Fork(), Known: cfg.known, used: map[string]bool{}}
	g.tmpl = r.Chance(1, 5)
	switch r.Intn(10) {
	case 0, 1, 2, 3, 4:
		g.budget = 6 + r.Intn(10)
	case 5, 6, 7:
		g.budget = 20 + r.Intn(30)
	default:
		g.budget = 60 + r.Intn(120)
	}
	small := g.budget <= 12
	var root *Node
	k := r.Intn(20)
	fragment := true
	switch {
	case k < 11:
		co.kind = "fragment"
		root = g.Fragment()
	case k < 17:
		co.kind = "document"
		fragment = false
		root = g.Document()
	default:
		co.kind = "malformed"
		if r.Bool() {
			root = g.Fragment()
		} else {
			fragment = false
			root = g.Document()
		}
	}
	g.Finish(root)
	avoid := !cfg.known
	input := Serialize(root, avoid)
	var skb strings.Builder
	skeleton(root, &skb)
	skel := skb.String()
	if co.kind == "malformed" {
		input = mutate(r.Fork(), input)
		skel = ""
	}
	co.input = input
	co.size = len(input)
	for t := range g.used {
		co.elems[t] = true
	}
	or := r.Fork()
	sets := optionSets(or, cfg.tier, small, idx)
	for si, o := range sets {
		if g.tmpl && (si%2 == 1 || or.Chance(1, 3)) {
			o.TemplateDelims = true
		}
		reg := "none"
		switch (si + idx) % 6 {
		case 1, 3:
			reg = "stubs"
		case 5:
			reg = "real"
		}
		c := &Case{Input: input, Fragment: fragment, Opts: o, Registry: reg, Skeleton: skel, NoTree: co.kind == "malformed"}
		if cfg.known && reg == "stubs" && or.Chance(1, 3) {
			c.StubAmp = true
		}
		curCase[worker].Store(c)
		atomic.StoreInt64(&curStart[worker], time.Now().UnixNano())
		v := Judge(c)
		atomic.StoreInt64(&curStart[worker], 0)
		co.evals++
		co.optKeys = append(co.optKeys, o.Key())
		co.regs = append(co.regs, reg)
		for _, s := range v.C16Skips {
			co.c16skips[s]++
		}
		if !v.Judged {
			co.notJudged[v.NotJudged]++
			if strings.HasPrefix(v.NotJudged, "input-tree") && os.Getenv("HTMLORACLE_DEBUG") != "" {
				fmt.Fprintf(os.Stderr, "NOTJUDGED case %d: %q\n%s\n", idx, input, v.Output)
			}
			continue
		}
		co.judged++
		if v.Changed {
			co.changed = true
		}
		if v.Viol != nil {
			v.Viol.Case = idx
			// minimise
			if co.kind != "malformed" && len(co.viols) < 3 {
				sig := v.Viol.Signature
				cc := *c
				minIn, minSk := Shrink(root, avoid, 400, func(in, sk string) bool {
					t := cc
					t.Input, t.Skeleton = in, sk
					w := Judge(&t)
					return w.Viol != nil && w.Viol.Signature == sig
				})
				t := cc
				t.Input, t.Skeleton = minIn, minSk
				// try to drop options / registry
				t = simplifyOptions(t, sig)
				w := judgeLabelled(&t)
				if w.Viol != nil && strings.HasSuffix(w.Viol.Signature, sig) {
					w.Viol.Case = idx
					w.Viol.Detail += "\n(minimised from a " + fmt.Sprint(len(input)) + "-byte generated input)"
					v.Viol = w.Viol
				} else {
					label(c, v.Viol, func(variant *Case) *vh.Violation { return Judge(variant).Viol })
				}
			} else if co.kind == "malformed" {
				label(c, v.Viol, func(variant *Case) *vh.Violation { return Judge(variant).Viol })
			} else {
				continue // enough violations recorded for this document
			}
			co.viols = append(co.viols, *v.Viol)
		} else if co.sample == nil && v.Changed && co.kind != "malformed" && len(input) < 400 {
			co.sample = map[string]interface{}{"input": input, "output": v.Output, "options": optMap(c), "kind": co.kind}
		}
	}
	return co
}

func simplifyOptions(t Case, sig string) Case {
	same := func(c Case) bool {
		w := Judge(&c)
		return w.Viol != nil && w.Viol.Signature == sig
	}
	for _, mod := range []func(*Case){
		func(c *Case) { c.Registry = "none" },
		func(c *Case) { c.Opts.BaseURL = "" },
		func(c *Case) { c.Opts.TemplateDelims = false },
		func(c *Case) { c.Opts.KeepComments = false },
		func(c *Case) { c.Opts.KeepConditionalComments = false },
		func(c *Case) { c.Opts.KeepSpecialComments = false },
		func(c *Case) { c.Opts.KeepDefaultAttrVals = false },
		func(c *Case) { c.Opts.KeepDocumentTags = false },
		func(c *Case) { c.Opts.KeepEndTags = false },
		func(c *Case) { c.Opts.KeepQuotes = false },
		func(c *Case) { c.Opts.KeepWhitespace = false },
		func(c *Case) { c.StubAmp = false },
	} {
		c := t
		mod(&c)
		if same(c) {
			t = c
		}
	}
	return t
}

func main() {
	seed := flag.Uint64("seed", 1, "seed")
	n := flag.Int("n", 30000, "number of generated documents (quick budget: 30000)")
	out := flag.String("out", "", "output directory")
	tier := flag.String("tier", "quick", "quick|thorough")
	witness := flag.String("witness", "", "evaluate exactly the case in this JSON file")
	known := flag.Bool("known", false, "allow the generator to produce known-defect shapes")
	workers := flag.Int("workers", 16, "goroutines")
	modelN := flag.Int("model-n", 1500, "number of attribute-free documents (and attribute values) for the Coq model correspondence")
	dump := flag.Int("dump", -1, "debug: print the generated input of this case index to stderr and exit")
	flag.Parse()
	debug.SetGCPercent(400) // the oracle is allocation-bound; trade memory for wall time
	if *out == "" {
		fmt.Fprintln(os.Stderr, "htmloracle: -out DIR required")
		os.Exit(2)
	}
	if err := os.MkdirAll(*out, 0o755); err != nil {
		fmt.Fprintln(os.Stderr, "htmloracle:", err)
		os.Exit(2)
	}
	// the deprecated KeepConditionalComments option prints to stdout from inside the library
	if devnull, err := os.OpenFile(os.DevNull, os.O_WRONLY, 0); err == nil {
		os.Stdout = devnull
	}
	res := &vh.Result{Engine: "htmloracle", Seed: *seed, Tier: *tier,
		Rule: "Evaluations = (document, options, registry) triples for which the oracle reached a verdict; DistinctNontrivial = distinct conforming-stream inputs (SHA-1) with at least one judged triple whose output differs from the input. Malformed-stream inputs (separately counted in histogram stream/malformed) are judged for panic / error / second pass only and are not counted in DistinctNontrivial."}

	allowKnown = *known || *witness != ""
	if *witness != "" {
		b, err := os.ReadFile(*witness)
		if err != nil {
			fmt.Fprintln(os.Stderr, "htmloracle:", err)
			os.Exit(2)
		}
		var w witnessFile
		if err := json.Unmarshal(b, &w); err != nil {
			fmt.Fprintln(os.Stderr, "htmloracle: witness:", err)
			os.Exit(2)
		}
		if w.Input == "" && w.InputHex != "" {
			w.Input = string(vh.Unhex(w.InputHex))
		}
		if w.Registry == "" {
			w.Registry = "none"
		}
		c := &Case{Input: w.Input, Fragment: w.Fragment, Opts: OptionsFromMap(w.Options), Registry: w.Registry, StubAmp: w.Options["stubAmpersand"] == "true"}
		v := judgeLabelled(c)
		res.Tier = "witness"
		res.Hist("registry", w.Registry)
		res.Hist("options", c.Opts.Key())
		if v.Judged {
			res.Evaluations = 1
			if v.Changed {
				res.DistinctNontrivial = 1
			}
		} else {
			res.NotJudged = 1
			res.Hist("not_judged", v.NotJudged)
		}
		if v.Viol != nil {
			res.Violations = append(res.Violations, *v.Viol)
		}
		res.Samples = append(res.Samples, map[string]interface{}{"input": w.Input, "output": v.Output, "options": optMap(c)})
		if err := res.Write(filepath.Join(*out, "result.json")); err != nil {
			fmt.Fprintln(os.Stderr, "htmloracle:", err)
			os.Exit(2)
		}
		return
	}

	master := vh.NewRand(*seed)
	seeds := make([]uint64, *n)
	for i := range seeds {
		seeds[i] = master.Uint64()
	}
	if *dump >= 0 && *dump < *n {
		co := runCase(*dump, seeds[*dump], runCfg{tier: *tier, known: *known}, 0)
		fmt.Fprintf(os.Stderr, "kind=%s\n%s\n", co.kind, co.input)
		for _, v := range co.viols {
			fmt.Fprintf(os.Stderr, "VIOL %s\n", v.Signature)
		}
		return
	}
	outs := make([]caseOut, *n)
	var next int64 = -1
	var wg sync.WaitGroup
	if *workers > 64 {
		*workers = 64
	}
	cfg := runCfg{tier: *tier, known: *known}
	done := make(chan struct{})
	var timeoutViol atomic.Value
	go func() { // watchdog
		t := time.NewTicker(500 * time.Millisecond)
		defer t.Stop()
		for {
			select {
			case <-done:
				return
			case <-t.C:
				now := time.Now().UnixNano()
				for w := 0; w < *workers; w++ {
					st := atomic.LoadInt64(&curStart[w])
					if st != 0 && now-st > int64(60*time.Second) {
						if c, ok := curCase[w].Load().(*Case); ok {
							timeoutViol.Store(vh.Violation{Kind: "timeout", Signature: "timeout:minify-or-oracle", Input: c.Input, InputHex: vh.Hex([]byte(c.Input)), Options: optMap(c), Observed: "no result after 60 s", Expected: "termination"})
							res.Violations = append(res.Violations, timeoutViol.Load().(vh.Violation))
							res.Write(filepath.Join(*out, "result.json"))
							os.Exit(0)
						}
					}
				}
			}
		}
	}()
	for w := 0; w < *workers; w++ {
		wg.Add(1)
		go func(w int) {
			defer wg.Done()
			for {
				i := int(atomic.AddInt64(&next, 1))
				if i >= *n {
					return
				}
				outs[i] = runCase(i, seeds[i], cfg, w)
			}
		}(w)
	}
	wg.Wait()
	close(done)

	distinct := map[[20]byte]bool{}
	seenSig := map[string]bool{}
	for i := range outs {
		co := &outs[i]
		res.Hist("stream", co.kind)
		res.Hist("size", sizeBucket(co.size))
		for _, k := range co.optKeys {
			res.Hist("options", k)
		}
		for _, k := range co.regs {
			res.Hist("registry", k)
		}
		for k, c := range co.notJudged {
			for j := 0; j < c; j++ {
				res.Hist("not_judged", k)
			}
			res.NotJudged += c
		}
		for k, c := range co.c16skips {
			for j := 0; j < c; j++ {
				res.Hist("c16_lexical_skipped", k)
			}
		}
		for t := range co.elems {
			res.Hist("elements", t)
		}
		res.Evaluations += co.judged
		if co.kind == "malformed" {
			res.Hist("malformed_evaluations", "judged-for-panic-error-second-pass")
		}
		if co.changed && co.judged > 0 && co.kind != "malformed" {
			distinct[sha1.Sum([]byte(co.input))] = true
		}
		for _, v := range co.viols {
			res.Hist("violation_signatures", v.Signature)
			if !seenSig[v.Signature] {
				seenSig[v.Signature] = true
				res.Violations = append(res.Violations, v)
			}
		}
		if co.sample != nil && len(res.Samples) < 3 {
			res.Samples = append(res.Samples, co.sample)
		}
	}
	res.DistinctNontrivial = len(distinct)
	sort.SliceStable(res.Violations, func(i, j int) bool { return res.Violations[i].Signature < res.Violations[j].Signature })
	res.Extra = map[string]interface{}{"documents": *n, "known_shapes_allowed": *known, "workers": *workers}
	runModelCases(*seed, *modelN, *out, res.Extra)
	if err := res.Write(filepath.Join(*out, "result.json")); err != nil {
		fmt.Fprintln(os.Stderr, "htmloracle:", err)
		os.Exit(2)
	}
	fmt.Fprintf(os.Stderr, "htmloracle: seed %d: %d documents, %d evaluations, %d distinct nontrivial, %d not judged, %d distinct violation signatures\n", *seed, *n, res.Evaluations, res.DistinctNontrivial, res.NotJudged, len(res.Violations))
}
