package main

// Correspondence data for the Coq models Html/HtmlWs.v (white-space state machine, tag omission; attribute-free documents)
// and Html/HtmlAttr.v (quote / escape selection).  The token stream is that of the real parse/html lexer; text tokens
// carry what the dependency's white-space / entity helper makes of them; no sub-minifier is registered.

import (
	"bytes"
	"errors"
	"fmt"
	"io"
	"os"
	"path/filepath"
	"strings"

	"github.com/tdewolff/minify/v2"
	htmlmin "github.com/tdewolff/minify/v2/html"
	"github.com/tdewolff/parse/v2"
	phtml "github.com/tdewolff/parse/v2/html"
	"verifharness/internal/vh"
)

func hx(b []byte) string {
	if len(b) == 0 {
		return "-"
	}
	return vh.Hex(b)
}

var mTT = map[phtml.TokenType]int{phtml.ErrorToken: 0, phtml.CommentToken: 1, phtml.DoctypeToken: 2, phtml.StartTagToken: 3, phtml.EndTagToken: 4,
	phtml.TextToken: 5, phtml.SvgToken: 6, phtml.MathToken: 7, phtml.TemplateToken: 8, phtml.StartTagCloseToken: 9, phtml.StartTagVoidToken: 9, phtml.AttributeToken: 10}

var wsBlocks = []string{"div", "p", "ul", "li", "table", "tr", "td", "h1", "section", "blockquote", "dl", "dt", "dd", "ol", "tbody", "thead", "form", "hr", "br", "optgroup", "option", "select", "colgroup", "body", "html", "head"}
var wsInlines = []string{"span", "b", "i", "a", "em", "code", "small", "u", "x-custom", "label", "q", "sub"}
var wsObjects = []string{"img", "input", "button", "textarea", "object", "video", "canvas", "marquee", "iframe", "audio", "embed"}
var wsWords = []string{"a", "b", "word", "x", "&amp;", "&#32;", "é", "1"}
var wsSpaces = []string{" ", "  ", "\n", "\t ", " \n "}

func genWsDoc(r *vh.Rand) string {
	var b strings.Builder
	if r.Intn(6) == 0 {
		b.WriteString("<!DOCTYPE html>")
	}
	n := 2 + r.Intn(14)
	var open []string
	for i := 0; i < n; i++ {
		switch k := r.Intn(22); {
		case k < 8: // text with assorted white space
			if r.Intn(3) == 0 {
				b.WriteString(wsSpaces[r.Intn(len(wsSpaces))])
			}
			for j := 0; j <= r.Intn(3); j++ {
				if j > 0 {
					b.WriteString(wsSpaces[r.Intn(len(wsSpaces))])
				}
				b.WriteString(wsWords[r.Intn(len(wsWords))])
			}
			if r.Intn(3) == 0 {
				b.WriteString(wsSpaces[r.Intn(len(wsSpaces))])
			}
		case k < 10:
			b.WriteString(wsSpaces[r.Intn(len(wsSpaces))])
		case k < 13:
			t := wsBlocks[r.Intn(len(wsBlocks))]
			b.WriteString("<" + t + ">")
			if t != "hr" && t != "br" {
				open = append(open, t)
			}
		case k < 16:
			t := wsInlines[r.Intn(len(wsInlines))]
			b.WriteString("<" + t + ">")
			open = append(open, t)
		case k < 17:
			t := wsObjects[r.Intn(len(wsObjects))]
			b.WriteString("<" + t + ">")
			if t != "img" && t != "input" && t != "embed" {
				open = append(open, t)
			}
		case k < 19:
			if len(open) > 0 {
				j := len(open) - 1
				if r.Intn(5) == 0 {
					j = r.Intn(len(open))
				}
				b.WriteString("</" + open[j] + r.Pick("", "", " ") + ">")
				open = append(open[:j], open[j+1:]...)
			}
		case k < 20:
			b.WriteString(r.Pick("<!-- c -->", "<!---->", "<pre> a  b\n</pre>", "<script> x  y </script>", "<style></style>", "<script></script>", "<title> t  u </title>",
				"<svg> <g/> </svg>", "<math> <mi>x</mi> </math>", "<textarea> a  b </textarea>", "<template> a </template>", "<i></i>", "<select> <option> o </option> </select>"))
		default:
			b.WriteString(r.Pick("<p>", "</p>", "<li>", "</li>", "<td>", "</td>", "</div>", "<div>"))
		}
	}
	s := b.String()
	if r.Intn(12) == 0 && len(s) > 3 { // truncated
		s = s[:r.Intn(len(s))]
	}
	return s
}

func runModelCases(seed uint64, n int, outDir string, extra map[string]interface{}) {
	r := vh.NewRand(seed ^ 0x4711)
	fin, _ := os.Create(filepath.Join(outDir, "cases.in"))
	fout, _ := os.Create(filepath.Join(outDir, "cases.go.out"))
	defer fin.Close()
	defer fout.Close()
	m := minify.New()
	textToks, wfBad, docs := 0, 0, 0
	for k := 0; k < n; k++ {
		src := genWsDoc(r)
		o := &htmlmin.Minifier{KeepWhitespace: r.Intn(4) == 0, KeepEndTags: r.Intn(4) == 0, KeepDocumentTags: r.Intn(4) == 0}
		l := phtml.NewLexer(parse.NewInputBytes([]byte(src)))
		var toks []string
		attr := false
		for {
			tt, data := l.Next()
			if tt == phtml.ErrorToken {
				break
			}
			if tt == phtml.AttributeToken {
				attr = true
				break
			}
			d := append([]byte{}, data...)
			text := append([]byte{}, l.Text()...)
			if tt == phtml.TextToken {
				text = append([]byte{}, d...)
				d = parse.ReplaceMultipleWhitespaceAndEntities(append([]byte{}, d...), htmlmin.EntitiesMap, htmlmin.TextRevEntitiesMap)
				textToks++
				if len(d) == 0 || (parse.IsWhitespace(text[0]) && !parse.IsWhitespace(d[0])) || (parse.IsAllWhitespace(text) && !parse.IsAllWhitespace(d)) {
					wfBad++
				}
			}
			toks = append(toks, fmt.Sprintf("%d:%s:%s", mTT[tt], hx(d), hx(text)))
		}
		if attr {
			continue
		}
		var out bytes.Buffer
		o.Minify(m, &out, bytes.NewReader([]byte(src)), nil)
		b2 := func(b bool) string {
			if b {
				return "1"
			}
			return "0"
		}
		fmt.Fprintf(fin, "htmlws\t%s%s%s\t%s\n", b2(o.KeepWhitespace), b2(o.KeepEndTags), b2(o.KeepDocumentTags), strings.Join(toks, ","))
		fmt.Fprintf(fout, "%s\n", hx(out.Bytes()))
		docs++
	}
	// the same loop with a registry of stub sub-minifiers (Html/HtmlEmbed.v): every subset of {js, css, html, svg, mathml};
	// a stub wraps its payload, and fails on payloads that contain FAIL
	stubNames := []string{"application/javascript", "text/css", "text/html", "image/svg+xml", "application/mathml+xml"}
	regDocs, regFail := 0, 0
	for k := 0; k < n; k++ {
		src := genWsDoc(r)
		// make sure embedded content is frequent
		for j := 0; j < 1+r.Intn(3); j++ {
			pay := r.Pick(" x  y ", "a{b:c}", "FAIL", "1 < 2", " ", "x FAIL y", "<b> i </b>", "")
			emb := r.Pick("<script>"+pay+"</script>", "<style>"+pay+"</style>", "<iframe>"+pay+"</iframe>", "<svg> <g>"+pay+"</g> </svg>", "<math> <mi>"+pay+"</mi> </math>",
				"<textarea>"+pay+"</textarea>", "<title>"+pay+"</title>", "<script>"+pay+"</script> t <style>"+pay+"</style>")
			pos := 0
			if len(src) > 0 {
				pos = r.Intn(len(src) + 1)
				for pos < len(src) && pos > 0 && (src[pos-1] == '<' || strings.LastIndexByte(src[:pos], '<') > strings.LastIndexByte(src[:pos], '>')) {
					pos++ // not inside a tag
				}
			}
			src = src[:pos] + emb + src[pos:]
		}
		bits := r.Intn(32)
		mr := minify.New()
		for i, name := range stubNames {
			if bits&(1<<uint(i)) != 0 {
				tag := string("JCHVM"[i])
				mr.AddFunc(name, func(_ *minify.M, w io.Writer, rd io.Reader, _ map[string]string) error {
					b, _ := io.ReadAll(rd)
					if bytes.Contains(b, []byte("FAIL")) {
						return errors.New("stub failure")
					}
					w.Write([]byte(tag + "("))
					w.Write(b)
					w.Write([]byte(")"))
					return nil
				})
			}
		}
		o := &htmlmin.Minifier{KeepWhitespace: r.Intn(4) == 0, KeepEndTags: r.Intn(4) == 0, KeepDocumentTags: r.Intn(4) == 0}
		l := phtml.NewLexer(parse.NewInputBytes([]byte(src)))
		var toks []string
		attr := false
		for {
			tt, data := l.Next()
			if tt == phtml.ErrorToken {
				break
			}
			if tt == phtml.AttributeToken {
				attr = true
				break
			}
			d := append([]byte{}, data...)
			text := append([]byte{}, l.Text()...)
			if tt == phtml.TextToken {
				text = append([]byte{}, d...)
				d = parse.ReplaceMultipleWhitespaceAndEntities(append([]byte{}, d...), htmlmin.EntitiesMap, htmlmin.TextRevEntitiesMap)
			}
			toks = append(toks, fmt.Sprintf("%d:%s:%s", mTT[tt], hx(d), hx(text)))
		}
		if attr {
			continue
		}
		var out bytes.Buffer
		err := o.Minify(mr, &out, bytes.NewReader([]byte(src)), nil)
		b2 := func(b bool) string {
			if b {
				return "1"
			}
			return "0"
		}
		fmt.Fprintf(fin, "htmlreg\t%s%s%s\t%d\t%s\n", b2(o.KeepWhitespace), b2(o.KeepEndTags), b2(o.KeepDocumentTags), bits, strings.Join(toks, ","))
		if err != nil {
			fmt.Fprintf(fout, "ERR\n")
			regFail++
		} else {
			fmt.Fprintf(fout, "%s\n", hx(out.Bytes()))
		}
		regDocs++
	}
	extra["htmlreg_documents"] = regDocs
	extra["htmlreg_outer_call_failed"] = regFail
	// media-type selection from the type attribute (Html/HtmlSelect.v): literal candidate registrations, each stub
	// writes the name it was registered under
	cands := []string{"text/javascript", "application/javascript", "text/css", "module", "application/ld+json", "text/template", "text/html",
		"TEXT/CSS", "Text/CSS", "Text/JavaScript", "text/x-custom", "application/json", "text/plain"}
	tyVals := []string{"", "text/javascript", "application/javascript", "text/css", "module", "application/ld+json", "text/template", "TEXT/CSS", "Text/CSS",
		"Text/JavaScript", "text/x-custom", "text/css; charset=utf-8", "text/javascript;version=1.8", " text/css", "text/css ", "text/javascript ; a=b", "application/json",
		"text/plain", "text/unknown", "x", "text/ecmascript", "application/x-javascript", "text/html", "TEXT/JAVASCRIPT", "text/css;", ";", "a;b=c", "text/jscript"}
	nt := 0
	for _, tag := range []string{"script", "style", "iframe", "textarea"} {
		for _, ty := range tyVals {
			for _, keepDef := range []bool{false, true} {
				mr := minify.New()
				for _, cnd := range cands {
					name := cnd
					mr.AddFunc(name, func(_ *minify.M, w io.Writer, rd io.Reader, _ map[string]string) error {
						io.ReadAll(rd)
						w.Write([]byte("\x01" + name + "\x02"))
						return nil
					})
				}
				src := "<" + tag + " type=\"" + ty + "\">PAYLOAD</" + tag + ">"
				if ty == "" && nt%2 == 0 {
					src = "<" + tag + ">PAYLOAD</" + tag + ">"
				}
				var out bytes.Buffer
				if err := (&htmlmin.Minifier{KeepDefaultAttrVals: keepDef}).Minify(mr, &out, strings.NewReader(src), nil); err != nil {
					continue
				}
				got := "-"
				if i := bytes.IndexByte(out.Bytes(), 1); i >= 0 {
					if j := bytes.IndexByte(out.Bytes()[i:], 2); j > 0 {
						got = string(out.Bytes()[i+1 : i+j])
					}
				}
				fmt.Fprintf(fin, "htmltype\t%s\t%s\t%s\n", tag, hx([]byte(ty)), hx([]byte(strings.Join(cands, "\n"))))
				fmt.Fprintf(fout, "%s\n", got)
				nt++
			}
		}
	}
	extra["htmltype_cases_exhaustive"] = nt
	// the attribute loop (Html/HtmlAttrLoop.v): ordinary attributes on ordinary elements; both processed forms of every value
	// are computed here with the dependency's helpers, the model chooses by the regenerated trait table
	aTags := []string{"div", "span", "p", "form", "td", "col", "button", "area", "ul", "x-custom", "section", "th", "colgroup", "label"}
	aNames := []string{"class", "id", "dir", "name", "title", "lang", "hidden", "disabled", "checked", "method", "shape", "colspan", "rowspan", "span",
		"action", "data-x", "aria-label", "about", "property", "content", "value", "alt", "role", "width", "type", "readonly", "translate", "tabindex", "rel"}
	aVals := []string{"", "a", "a b", " a ", "x  y", "&amp;", "a&quot;b", "it's", "say \"hi\"", "get", "GET", "rect", "1", "one", "all", "submit", "text", "a=b",
		"1<2", "b>a", "`", "é", "&#39;", "Post", " get ", "RECT", "  ", "a\tb", "a&amp;b", "0"}
	nal := 0
	for k := 0; k < n; k++ {
		tag := aTags[r.Intn(len(aTags))]
		na := 1 + r.Intn(3)
		used := map[string]bool{}
		var src strings.Builder
		src.WriteString("<" + tag)
		var enc []string
		for j := 0; j < na; j++ {
			name := aNames[r.Intn(len(aNames))]
			if used[name] || name == "action" && tag != "form" && r.Intn(2) == 0 {
				continue
			}
			if name == "type" && tag != "button" { // type goes through media-type handling on other elements
				continue
			}
			used[name] = true
			val := aVals[r.Intn(len(aVals))]
			if name == "action" { // a URL attribute: its value handling (trimming, scheme stripping) is outside this model
				val = r.Pick("", "", "a", "x")
			}
			q := byte('"')
			switch r.Intn(4) {
			case 0:
				q = '\''
			case 1:
				if val != "" && !strings.ContainsAny(val, " \t\n\"'`=<>") {
					q = 0
				}
			}
			if q != 0 && strings.IndexByte(val, q) >= 0 {
				if q == '"' {
					q = '\''
				} else {
					q = '"'
				}
				if strings.IndexByte(val, q) >= 0 {
					continue
				}
			}
			src.WriteString(" " + name + "=")
			if q != 0 {
				src.WriteByte(q)
			}
			src.WriteString(val)
			if q != 0 {
				src.WriteByte(q)
			}
			ent := parse.ReplaceEntities([]byte(val), htmlmin.EntitiesMap, nil)
			trim := parse.TrimWhitespace(parse.ReplaceMultipleWhitespaceAndEntities([]byte(val), htmlmin.EntitiesMap, nil))
			enc = append(enc, fmt.Sprintf("%s:%s:%s:%d", hx([]byte(name)), hx(ent), hx(trim), q))
		}
		if len(enc) == 0 {
			if os.Getenv("HTMLORACLE_DEBUG") != "" {
				fmt.Fprintf(os.Stderr, "attrout empty: na=%d tag=%s\n", na, tag)
			}
			continue
		}
		src.WriteString(">x</" + tag + ">")
		o := &htmlmin.Minifier{KeepDefaultAttrVals: r.Intn(3) == 0, KeepQuotes: r.Intn(3) == 0}
		var out, out0 bytes.Buffer
		if err := o.Minify(m, &out, strings.NewReader(src.String()), nil); err != nil {
			if os.Getenv("HTMLORACLE_DEBUG") != "" {
				fmt.Fprintf(os.Stderr, "attrout err: %v %q\n", err, src.String())
			}
			continue
		}
		o.Minify(m, &out0, strings.NewReader("<"+tag+">x</"+tag+">"), nil)
		pre := "<" + tag
		if !strings.HasPrefix(out0.String(), pre+">") { // the element itself is rewritten (attribute-less colgroup is dropped)
			continue
		}
		suffix := out0.String()[len(pre):] // ">x</tag>" or ">x"
		os_ := out.String()
		if !strings.HasPrefix(os_, pre) || !strings.HasSuffix(os_, suffix) {
			if os.Getenv("HTMLORACLE_DEBUG") != "" {
				fmt.Fprintf(os.Stderr, "attrout skip: %q -> %q (suffix %q)\n", src.String(), os_, suffix)
			}
			continue
		}
		attrs := os_[len(pre) : len(os_)-len(suffix)]
		b2 := func(b bool) string {
			if b {
				return "1"
			}
			return "0"
		}
		fmt.Fprintf(fin, "htmlattrout\t%s%s\t%s\t%s\n", b2(o.KeepDefaultAttrVals), b2(o.KeepQuotes), tag, strings.Join(enc, ","))
		fmt.Fprintf(fout, "%s\n", hx([]byte(attrs)))
		nal++
	}
	extra["htmlattrout_cases"] = nal
	// attribute quoting
	alphabet := []byte("ab \t\n\"'<>=`&;#39x/")
	na := 0
	for k := 0; k < n; k++ {
		ln := 1 + r.Intn(8)
		b := make([]byte, ln)
		for i := range b {
			b[i] = alphabet[r.Intn(len(alphabet))]
		}
		if r.Intn(5) == 0 {
			b = []byte(r.Pick("&#39;", "a&#34;b", "it's", "say \"hi\"", "x", "a b", "'\"'", "\"\"'"))
		}
		orig := []byte{0, '"', '\''}[r.Intn(3)]
		must := r.Intn(3) == 0
		var buf []byte
		got := phtml.EscapeAttrVal(&buf, append([]byte{}, b...), orig, must)
		fmt.Fprintf(fin, "htmlattr\t%s\t%d\t%s\n", hx(b), orig, map[bool]string{true: "1", false: "0"}[must])
		fmt.Fprintf(fout, "%s\n", hx(got))
		na++
	}
	extra["htmlws_documents"] = docs
	extra["htmlws_text_tokens_checked"] = textToks
	extra["htmlws_wf_tokens_violations"] = wfBad
	extra["htmlattr_cases"] = na
}
