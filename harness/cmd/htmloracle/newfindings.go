package main

// Labels for defects first found by this tool (N01..). Each entry: lexical shape, and where the
// signature alone is not specific, a counterfactual run.

import (
	"regexp"
	"strings"

	xhtml "golang.org/x/net/html"
	"verifharness/internal/vh"
)

// n01Shape: an ampersand (literal, or a reference decoding to "&") directly followed by a reference decoding to an
// alphanumeric or "#".
// Returns the input with a space inserted between the two (the counterfactual).
func n01Shape(src string) (string, bool) {
	us := units(src)
	var sb strings.Builder
	found := false
	for i, u := range us {
		sb.WriteString(u)
		if i+1 < len(us) && u[0] == '&' && (len(u) == 1 || xhtml.UnescapeString(u) == "&") {
			nx := us[i+1]
			if len(nx) > 1 && nx[0] == '&' {
				d := xhtml.UnescapeString(nx)
				if d != nx && len(d) > 0 && (isAlnum(d[0]) || d[0] == '#') {
					sb.WriteString("-")
					found = true
				}
			}
		}
	}
	return sb.String(), found
}

var n02Re = regexp.MustCompile("(?i)<(/(?:script|style|textarea|title|iframe|xmp))([^a-zA-Z \t\n\f\r/>])")
var n04Re = regexp.MustCompile("(?is)\\s(?:on[a-z]+|style)\\s*=\\s*(?:\"[^\"]*|'[^']*|[^\\s>]*)(?:&amp;|&AMP;|&#0*38;|&#[xX]0*26;)[A-Za-z0-9#]")
var ampBoilerRe = regexp.MustCompile("(?i)amp-boilerplate(?:\\s*=\\s*(?:\"[^\"]*\"|'[^']*'|[^\\s>]*))?")
var bodyHeadRe = regexp.MustCompile("(?is)<body\\s*>(?:\\s|<!--.*?-->)*<(?:script|style|link|meta|template|noscript|base|title|bgsound|basefont|noframes)\\b")

var n06Re = regexp.MustCompile("(?is)<embed\\b[^>]*>|</audio[ \t\n\f\r]*>")
var n07Re = regexp.MustCompile("(?i)</(?:template|datalist)[ \t\n\f\r]*>")
var viewportRe = regexp.MustCompile("(?i)name\\s*=\\s*[\"']?\\s*(?:&[#a-z0-9]+;|[a-z])*viewport|viewport")
var digitRefRe = regexp.MustCompile("&#(?:[xX]0*3[0-9]|0*4[89]|0*5[0-7]);")

func labelNew(c *Case, v *vh.Violation, gone func(*Case) bool) {
	sig := v.Signature
	has := func(p string) bool { return strings.HasPrefix(sig, p) }
	variant := func(mod func(*Case)) *Case {
		t := *c
		t.Skeleton = ""
		mod(&t)
		return &t
	}
	valueish := has("text-changed") || has("attr-value-changed") || has("verbatim") || has("words-") || has("stub-") || has("structure:") || has("passthrough-changed")
	if fixed, ok := n01Shape(c.Input); ok && valueish {
		if gone(variant(func(t *Case) { t.Input = fixed })) {
			v.Signature = "N01:amp-reference-joined-with-following-reference:" + sig
			return
		}
	}
	if n02Re.MatchString(c.Input) {
		if gone(variant(func(t *Case) { t.Input = n02Re.ReplaceAllString(c.Input, "${1}${2}") })) {
			v.Signature = "N02:rawtext-end-tag-without-tag-end-character:" + sig
			return
		}
	}
	if strings.Contains(sig, ":type-not-lowercase") {
		v.Signature = "N03:script-style-type-case:" + sig
		return
	}
	if has("stub-payload-changed:event-attr:ampersand") || has("stub-payload-changed:style-attr:ampersand") {
		v.Signature = "N04:attr-payload-not-fully-decoded:" + sig
		return
	}
	if c.Registry == "real" && n04Re.MatchString(c.Input) && (has("error:first-pass") || has("second-pass-error") || has("attr-")) {
		if gone(variant(func(t *Case) { t.Registry = "none" })) {
			v.Signature = "N04:attr-payload-not-fully-decoded:" + sig
			return
		}
	}
	if c.Opts.TemplateDelims && strings.Contains(c.Input, "{{") && (has("verbatim-content-changed:") || has("passthrough-changed:") || has("stub-not-called:") || has("structure:")) {
		if gone(variant(func(t *Case) { t.Opts.TemplateDelims = false })) {
			v.Signature = "N05:rawtext-with-template-action-treated-as-text:" + sig
			return
		}
	}
	if has("words-joined:") || has("keep-whitespace:words-joined:") {
		if n06Re.MatchString(c.Input) && gone(variant(func(t *Case) { t.Input = n06Re.ReplaceAllString(c.Input, "${0}x") })) {
			v.Signature = "N06:space-after-embed-or-audio-dropped:" + sig
			return
		}
		if n07Re.MatchString(c.Input) && gone(variant(func(t *Case) { t.Input = n07Re.ReplaceAllString(c.Input, "${0}x") })) {
			v.Signature = "N07:space-after-invisible-element-dropped:" + sig
			return
		}
	}
	if c.StubAmp && (has("stub-output-not-inserted:event-attr:ampersand") || has("stub-output-not-inserted:style-attr:ampersand")) {
		if gone(variant(func(t *Case) { t.StubAmp = false })) {
			v.Signature = "N13:sub-minifier-output-not-ampersand-escaped-in-attribute:" + sig
			return
		}
	}
	if has("keep-quotes:quotes-removed:event") && c.Registry == "real" {
		if gone(variant(func(t *Case) { t.Registry = "none" })) {
			v.Signature = "N08:keepquotes-lost-after-js-minifier:" + sig
			return
		}
	}
	if ampBoilerRe.MatchString(c.Input) && (has("verbatim-content-changed:style") || has("passthrough-changed:style") || has("structure:")) {
		if gone(variant(func(t *Case) { t.Input = ampBoilerRe.ReplaceAllString(c.Input, "data-x") })) {
			v.Signature = "N09:amp-boilerplate-style-treated-as-text:" + sig
			return
		}
	}
	if has("attr-value-changed:html:text:content") && digitRefRe.MatchString(c.Input) {
		if gone(variant(func(t *Case) {
			t.Input = digitRefRe.ReplaceAllStringFunc(c.Input, func(m string) string { return xhtml.UnescapeString(m) })
		})) {
			v.Signature = "N11:meta-viewport-number-shortened-before-reference-decoding:" + sig
			return
		}
	}
	if has("attr-value-changed:html:text:content") && c.Opts.TemplateDelims && strings.Contains(c.Input, "{{") {
		if gone(variant(func(t *Case) { t.Opts.TemplateDelims = false })) {
			v.Signature = "N12:meta-content-with-template-action-corrupted:" + sig
			return
		}
	}
	if !c.Opts.KeepDocumentTags && bodyHeadRe.MatchString(c.Input) && has("structure:") {
		if gone(variant(func(t *Case) { t.Opts.KeepDocumentTags = true })) {
			v.Signature = "N10:body-start-tag-dropped-before-head-content:" + sig
			return
		}
	}
}
