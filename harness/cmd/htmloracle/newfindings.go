package main

// Labels for defects first found by this tool (N01..). Each entry: lexical shape + counterfactual.

import (
	"verifharness/internal/vh"
)

func labelNew(c *Case, v *vh.Violation, gone func(*Case) bool) {
}
