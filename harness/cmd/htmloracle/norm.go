package main

// Independent normalisation of attributes, written from the HTML standard and from what the
// minifier's README documents ("strip default attribute values and attribute boolean values",
// "strip some empty attributes", "strip default protocols", "shorten meta charset", "lowercase ... some values").

import (
	"encoding/base64"
	"net/url"
	"regexp"
	"strconv"
	"strings"

	"golang.org/x/net/html"
)

func parseURL(s string) (*url.URL, error) { return url.Parse(s) }

type Options struct {
	KeepComments            bool
	KeepConditionalComments bool
	KeepSpecialComments     bool
	KeepDefaultAttrVals     bool
	KeepDocumentTags        bool
	KeepEndTags             bool
	KeepQuotes              bool
	KeepWhitespace          bool
	TemplateDelims          bool   // {{ }}
	BaseURL                 string // "", "http", "https": scheme of minify.M.URL
}

func (o Options) Map() map[string]string {
	b := func(v bool) string {
		if v {
			return "true"
		}
		return "false"
	}
	m := map[string]string{
		"KeepComments": b(o.KeepComments), "KeepConditionalComments": b(o.KeepConditionalComments), "KeepSpecialComments": b(o.KeepSpecialComments),
		"KeepDefaultAttrVals": b(o.KeepDefaultAttrVals), "KeepDocumentTags": b(o.KeepDocumentTags), "KeepEndTags": b(o.KeepEndTags),
		"KeepQuotes": b(o.KeepQuotes), "KeepWhitespace": b(o.KeepWhitespace), "TemplateDelims": b(o.TemplateDelims),
	}
	if o.BaseURL != "" {
		m["BaseURL"] = o.BaseURL
	}
	return m
}

func OptionsFromMap(m map[string]string) Options {
	t := func(k string) bool { return m[k] == "true" || m[k] == "1" }
	o := Options{KeepComments: t("KeepComments"), KeepConditionalComments: t("KeepConditionalComments"), KeepSpecialComments: t("KeepSpecialComments"),
		KeepDefaultAttrVals: t("KeepDefaultAttrVals"), KeepDocumentTags: t("KeepDocumentTags"), KeepEndTags: t("KeepEndTags"), KeepQuotes: t("KeepQuotes"),
		KeepWhitespace: t("KeepWhitespace"), BaseURL: m["BaseURL"]}
	if v := m["TemplateDelims"]; v != "" && v != "false" && v != "0" {
		o.TemplateDelims = true
	}
	return o
}

func (o Options) Key() string {
	var sb strings.Builder
	for _, f := range []struct {
		n string
		v bool
	}{{"C", o.KeepComments}, {"Cc", o.KeepConditionalComments}, {"S", o.KeepSpecialComments}, {"D", o.KeepDefaultAttrVals}, {"T", o.KeepDocumentTags}, {"E", o.KeepEndTags}, {"Q", o.KeepQuotes}, {"W", o.KeepWhitespace}, {"Tm", o.TemplateDelims}} {
		if f.v {
			sb.WriteString(f.n)
			sb.WriteByte('+')
		}
	}
	if o.BaseURL != "" {
		sb.WriteString("U" + o.BaseURL)
	}
	if sb.Len() == 0 {
		return "default"
	}
	return strings.TrimSuffix(sb.String(), "+")
}

// boolean attributes of the HTML standard (attributes index, "Boolean attribute")
var booleanAttrs = setOf("allowfullscreen async autofocus autoplay checked controls default defer disabled formnovalidate inert ismap itemscope loop multiple muted nomodule novalidate open playsinline readonly required reversed selected shadowrootclonable shadowrootdelegatesfocus shadowrootserializable alpha")

// attributes whose value is a URL (attributes index, "Valid URL potentially surrounded by spaces")
var urlAttrs = setOf("action cite data formaction href itemid manifest poster src profile xmlns background longdesc codebase icon")

// set of space separated tokens / comma separated lists / numbers / keywords: leading, trailing and repeated
// ASCII whitespace is not significant for these (rules for parsing token lists, integers, floating-point numbers,
// enumerated attributes are conforming only without surrounding whitespace; values with whitespace that the
// generator emits are deliberately limited to the list types).
var wsInsensitiveAttrs = setOf("class rel headers itemprop itemref itemtype accesskey sandbox sizes ping blocking for accept accept-charset srcset imagesrcset imagesizes coords media cols colspan rowspan span height width high low max min maxlength minlength optimum rows size start step tabindex type method enctype formenctype formmethod dir lang hreflang charset http-equiv target formtarget autocomplete wrap scope shape kind srclang preload loading decoding crossorigin referrerpolicy as datetime contenteditable draggable spellcheck translate autocapitalize inputmode enterkeyhint list form usemap allow color is popover")

// enumerated / case-insensitive keyword attributes whose value the minifier is documented to lower-case ("lowercase ... some values")
var mediatypeAttrs = setOf("enctype formenctype accept type")

func setOf(s string) map[string]bool {
	m := map[string]bool{}
	for _, f := range strings.Fields(s) {
		m[f] = true
	}
	return m
}

func asciiFields(s string) []string {
	return strings.FieldsFunc(s, func(r rune) bool { return r == ' ' || r == '\t' || r == '\n' || r == '\f' || r == '\r' })
}

func asciiTrim(s string) string { return strings.Trim(s, " \t\n\f\r") }

var numRe = regexp.MustCompile(`[0-9]*\.?[0-9]+`)

func normNumbers(s string) string {
	return numRe.ReplaceAllStringFunc(s, func(x string) string {
		f, err := strconv.ParseFloat(x, 64)
		if err != nil {
			return x
		}
		return strconv.FormatFloat(f, 'g', -1, 64)
	})
}

func stripAllWS(s string) string { return strings.Join(asciiFields(s), "") }

// normMediatype: MIME types are case-insensitive outside quoted strings and whitespace around ";" is not significant.
func normMediatype(s string) string {
	var sb strings.Builder
	inStr := false
	for i := 0; i < len(s); i++ {
		c := s[i]
		if c == '"' {
			inStr = !inStr
		}
		if !inStr {
			if isWS(c) {
				continue
			}
			if c >= 'A' && c <= 'Z' {
				c += 'a' - 'A'
			}
		}
		sb.WriteByte(c)
	}
	return sb.String()
}

// normDataURI decodes a data: URL into "data:<mediatype>|<bytes>"; ok=false when it cannot be decoded.
func normDataURI(s string) (string, bool) {
	rest := s[5:]
	comma := strings.IndexByte(rest, ',')
	if comma < 0 {
		return "", false
	}
	mt, data := rest[:comma], rest[comma+1:]
	b64 := false
	if strings.HasSuffix(strings.ToLower(mt), ";base64") {
		b64 = true
		mt = mt[:len(mt)-7]
	}
	mt = normMediatype(mt)
	mt = strings.TrimSuffix(mt, ";charset=us-ascii")
	if mt == "" || mt == "text/plain" {
		mt = "text/plain"
	}
	var raw []byte
	if b64 {
		d, err := base64.StdEncoding.DecodeString(data)
		if err != nil {
			d, err = base64.RawStdEncoding.DecodeString(data)
			if err != nil {
				return "", false
			}
		}
		raw = d
	} else {
		u, err := url.PathUnescape(data)
		if err != nil {
			return "", false
		}
		raw = []byte(u)
	}
	return "data:" + mt + "|" + string(raw), true
}

func normURL(v string, o Options) string {
	// strip leading and trailing C0 control or space (URL parser), documented trimming
	v = strings.TrimFunc(v, func(r rune) bool { return r <= ' ' })
	low := strings.ToLower(v)
	if strings.HasPrefix(low, "data:") {
		if d, ok := normDataURI(v); ok {
			return d
		}
		return "data:?" // undecodable: do not compare
	}
	// scheme is case-insensitive
	for _, sch := range []string{"http:", "https:"} {
		if strings.HasPrefix(low, sch) {
			v = sch + v[len(sch):]
			// documented: "strip default protocols" relative to the document URL
			if o.BaseURL != "" && sch == o.BaseURL+":" {
				v = v[len(sch):]
			}
		}
	}
	return v
}

type nattr struct{ k, v string }

// elemAttrs returns the normalised attribute list (sorted later by the caller) of an HTML-namespace element.
// side: the same normalisation is applied to input and output trees.
func normAttrs(n *html.Node, o Options, reg string, known bool) []nattr {
	get := func(k string) (string, bool) {
		for _, a := range n.Attr {
			if a.Namespace == "" && a.Key == k {
				return a.Val, true
			}
		}
		return "", false
	}
	tag := n.Data
	var out []nattr
	for _, a := range n.Attr {
		k, v := a.Key, a.Val
		if a.Namespace != "" {
			out = append(out, nattr{a.Namespace + ":" + k, v})
			continue
		}
		// boolean attributes: presence only ("strip ... attribute boolean values")
		if booleanAttrs[k] {
			out = append(out, nattr{k, ""})
			continue
		}
		if urlAttrs[k] {
			v = normURL(v, o)
		} else if wsInsensitiveAttrs[k] {
			v = strings.Join(asciiFields(v), " ")
		}
		if mediatypeAttrs[k] && (k != "type" || tag == "a" || tag == "link" || tag == "embed" || tag == "object" || tag == "source" || tag == "script" || tag == "style") {
			v = normMediatype(v)
		}
		// "strip some empty attributes"
		if asciiTrim(v) == "" {
			switch {
			case k == "class" || k == "id" || k == "name" || k == "dir" || k == "style", strings.HasPrefix(k, "on") && len(k) > 2,
				k == "action" && tag == "form", k == "value" && tag == "input":
				continue
			}
		}
		if k == "style" {
			v = asciiTrim(v)
			if reg == "real" {
				v = "*"
			}
		}
		if strings.HasPrefix(k, "on") && len(k) > 2 {
			v = asciiTrim(v)
			if len(v) >= 11 && strings.EqualFold(v[:11], "javascript:") { // "strip default protocols (... javascript:)"
				v = asciiTrim(v[11:])
				if v == "" {
					continue
				}
			}
			if reg == "real" {
				v = "*"
			}
		}
		// "strip default attribute values"
		if !o.KeepDefaultAttrVals {
			lv := strings.ToLower(v)
			drop := false
			switch k {
			case "type":
				switch tag {
				case "script":
					drop = lv == "text/javascript" || lv == "application/javascript"
				case "style", "link":
					drop = lv == "text/css"
				case "input":
					drop = lv == "text"
				case "button":
					drop = lv == "submit"
				}
			case "method":
				drop = lv == "get"
			case "enctype":
				drop = lv == "application/x-www-form-urlencoded"
			case "colspan", "rowspan", "span":
				drop = v == "1"
			case "shape":
				drop = lv == "rect"
			case "media":
				drop = tag == "style" && lv == "all"
			}
			if drop {
				continue
			}
		}
		if k == "value" && tag == "input" && v == "on" {
			if t, ok := get("type"); ok && strings.EqualFold(asciiTrim(t), "radio") {
				continue // the default value of a radio button is "on"
			}
		}
		if k == "name" && tag == "a" {
			if id, ok := get("id"); ok && id == a.Val {
				continue
			}
		}
		if k == "charset" && tag == "script" {
			if _, ok := get("src"); ok {
				continue
			}
		}
		out = append(out, nattr{k, v})
	}
	if tag == "meta" {
		out = normMeta(out)
	}
	return out
}

// normMeta: "shorten ... meta charset" and the documented content tidying for viewport / keywords / content-type.
func normMeta(as []nattr) []nattr {
	idx := func(k string) int {
		for i, a := range as {
			if a.k == k {
				return i
			}
		}
		return -1
	}
	ci := idx("content")
	if ci < 0 {
		return as
	}
	if hi := idx("http-equiv"); hi >= 0 {
		as[hi].v = strings.ToLower(asciiTrim(as[hi].v))
		if as[hi].v == "content-type" && idx("charset") < 0 {
			c := normMediatype(as[ci].v)
			if c == "text/html;charset=utf-8" {
				return []nattr{{"charset", "utf-8"}}
			}
			as[ci].v = c
		}
	}
	if ni := idx("name"); ni >= 0 {
		nm := strings.ToLower(asciiTrim(as[ni].v))
		if nm == "keywords" || nm == "viewport" {
			as[ni].v = nm
		} else {
			as[ni].v = asciiTrim(as[ni].v)
		}
		switch nm {
		case "keywords":
			as[ci].v = strings.ReplaceAll(as[ci].v, ", ", ",")
		case "viewport":
			as[ci].v = normNumbers(strings.ReplaceAll(as[ci].v, " ", ""))
		}
	}
	if len(as) == 1 && as[0].k == "charset" {
		as[0].v = strings.ToLower(asciiTrim(as[0].v))
	}
	return as
}

// attrClass names the kind of attribute for signatures.
func attrClass(k string) string {
	switch {
	case booleanAttrs[k]:
		return "boolean"
	case urlAttrs[k]:
		return "url"
	case k == "style":
		return "style"
	case strings.HasPrefix(k, "on") && len(k) > 2:
		return "event"
	case strings.HasPrefix(k, "data-"):
		return "data"
	case mediatypeAttrs[k]:
		return "mediatype:" + k
	case wsInsensitiveAttrs[k]:
		return "list-or-keyword:" + k
	}
	return "text:" + k
}
