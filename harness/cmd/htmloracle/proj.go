package main

// Inline-formatting projection of a parsed tree: the sequence of rendered words, the places where
// white space separates them, atomic inline boxes and block boundaries. Written from the CSS
// white-space processing rules and the HTML "Rendering" section (UA style sheet), not from the
// minifier's tables.

import (
	"strings"

	"golang.org/x/net/html"
)

type ptKind uint8

const (
	ptWord  ptKind = iota // a piece of text without white space
	ptSpace               // collapsible white space
	ptBreak               // block boundary / forced line break
	ptObjO                // start of an atomic inline box (replaced element, inline-block)
	ptObjC                // end of it
	ptPre                 // verbatim preformatted text
)

type ptok struct {
	k    ptKind
	s    string // word text, object tag
	edge string // description of the last element boundary crossed before this token ("<b>", "</span>", "" = same text node)
}

// display: block / list-item / table-* / none-with-break in the UA style sheet, plus br and hr.
var uaBlock = setOf("html body address blockquote center dialog div figure figcaption footer form header hr legend listing main p plaintext pre search xmp article aside h1 h2 h3 h4 h5 h6 hgroup nav section dir dd dl dt menu ol ul li table caption colgroup col thead tbody tfoot tr td th details summary fieldset optgroup option br noscript rt")

// display:none in the UA style sheet: contributes nothing, white space collapses across it.
var uaNone = setOf("head script style template datalist title meta link base param area noembed noframes rp source track")

// replaced elements and inline-block boxes: atomic in the inline formatting context.
var uaAtomic = setOf("img input button select textarea svg math meter progress object video audio canvas iframe embed marquee")

type projector struct {
	toks       []ptok
	edge       string
	strictKeep bool // KeepWhitespace variant: ordinary block containers are treated as inline
}

var strictInline = setOf("div p section article aside nav header footer main h1 h2 h3 h4 h5 h6 blockquote figure figcaption address li dd dt ul ol dl menu form fieldset details summary hgroup dialog legend")

func (p *projector) emit(k ptKind, s string) {
	p.toks = append(p.toks, ptok{k: k, s: s, edge: p.edge})
	if k == ptWord || k == ptSpace || k == ptPre {
		p.edge = ""
	}
}

func (p *projector) walk(n *html.Node, pre bool) {
	for c := n.FirstChild; c != nil; c = c.NextSibling {
		switch c.Type {
		case html.TextNode:
			if pre {
				p.emit(ptPre, c.Data)
				continue
			}
			s := c.Data
			i := 0
			for i < len(s) {
				j := i
				if isWS(s[i]) {
					for j < len(s) && isWS(s[j]) {
						j++
					}
					p.emit(ptSpace, "")
				} else {
					for j < len(s) && !isWS(s[j]) {
						j++
					}
					p.emit(ptWord, s[i:j])
				}
				i = j
			}
		case html.ElementNode:
			tag := c.Data
			if c.Namespace != "" {
				// foreign content below an svg/math root is part of that atomic box
				continue
			}
			if tag == "audio" {
				if _, ok := attrOf(c, "controls"); !ok {
					p.edge = "<audio>" // audio:not([controls]) { display: none }
					continue
				}
			}
			switch {
			case uaNone[tag]:
				p.edge = "<" + tag + ">"
				continue
			case tag == "svg" || tag == "math" || tag == "img" || tag == "input" || tag == "embed" || tag == "iframe" || tag == "select" || tag == "textarea":
				p.edge = "<" + tag + ">"
				p.emit(ptObjO, tag)
				p.emit(ptObjC, tag)
				p.edge = "</" + tag + ">"
			case uaAtomic[tag]:
				p.edge = "<" + tag + ">"
				p.emit(ptObjO, tag)
				p.walk(c, pre)
				p.edge = "</" + tag + ">"
				p.emit(ptObjC, tag)
			case uaBlock[tag] && !(p.strictKeep && strictInline[tag]):
				p.edge = "<" + tag + ">"
				p.emit(ptBreak, tag)
				if tag != "br" && tag != "hr" {
					p.walk(c, pre || tag == "pre" || tag == "listing" || tag == "xmp" || tag == "plaintext")
					p.edge = "</" + tag + ">"
					p.emit(ptBreak, tag)
				}
			default:
				p.edge = "<" + tag + ">"
				p.walk(c, pre)
				p.edge = "</" + tag + ">"
			}
		}
	}
}

// normalise applies white-space collapsing: runs of spaces collapse, spaces at block boundaries and at
// the inner edges of atomic boxes vanish, adjacent word pieces join into one rendered word.
type rtok struct {
	k     ptKind
	s     string
	edges []string // boundaries inside / before the token (for diagnostics)
}

func normalise(toks []ptok) []rtok {
	var out []rtok
	pendingSpace := false
	var pendingEdge string
	last := func() *rtok {
		if len(out) == 0 {
			return nil
		}
		return &out[len(out)-1]
	}
	for _, t := range toks {
		switch t.k {
		case ptSpace:
			l := last()
			if l == nil || l.k == ptBreak || l.k == ptObjO {
				continue // leading space in a line / box
			}
			pendingSpace = true
			if t.edge != "" {
				pendingEdge = t.edge
			}
		case ptBreak:
			pendingSpace = false
			if l := last(); l != nil && l.k == ptBreak {
				continue
			}
			out = append(out, rtok{k: ptBreak})
		case ptObjC:
			pendingSpace = false
			out = append(out, rtok{k: ptObjC, s: t.s})
		case ptWord, ptPre, ptObjO:
			if pendingSpace {
				out = append(out, rtok{k: ptSpace, edges: []string{pendingEdge, t.edge}})
				pendingSpace = false
				pendingEdge = ""
			}
			l := last()
			if t.k == ptWord && l != nil && l.k == ptWord {
				l.s += t.s
				l.edges = append(l.edges, t.edge)
				continue
			}
			out = append(out, rtok{k: t.k, s: t.s, edges: []string{t.edge}})
		}
	}
	// trailing break / leading break
	for len(out) > 0 && out[len(out)-1].k == ptBreak {
		out = out[:len(out)-1]
	}
	for len(out) > 0 && out[0].k == ptBreak {
		out = out[1:]
	}
	// space directly before a break was dropped by pendingSpace reset; space after ObjO dropped; done.
	return out
}

func project(holder *html.Node, strict bool) []rtok {
	p := &projector{strictKeep: strict}
	p.walk(holder, false)
	return normalise(p.toks)
}

func rtokString(t rtok) string {
	switch t.k {
	case ptWord:
		return "W(" + t.s + ")"
	case ptSpace:
		return "_"
	case ptBreak:
		return "|"
	case ptObjO:
		return "[" + t.s
	case ptObjC:
		return t.s + "]"
	case ptPre:
		return "PRE(" + t.s + ")"
	}
	return "?"
}

func rtoksString(ts []rtok, from, to int) string {
	if from < 0 {
		from = 0
	}
	if to > len(ts) {
		to = len(ts)
	}
	var sb strings.Builder
	for i := from; i < to; i++ {
		sb.WriteString(rtokString(ts[i]))
	}
	return sb.String()
}

func lastEdge(t rtok) string {
	for i := len(t.edges) - 1; i >= 0; i-- {
		if t.edges[i] != "" {
			return t.edges[i]
		}
	}
	return "text"
}

// compareProjection returns "" when equal, else a signature tail and a human detail.
func compareProjection(a, b []rtok) (sig, detail string) {
	n := len(a)
	if len(b) < n {
		n = len(b)
	}
	i := 0
	for i < n && a[i].k == b[i].k && a[i].s == b[i].s {
		i++
	}
	if i == len(a) && i == len(b) {
		return "", ""
	}
	detail = "input …" + rtoksString(a, i-2, i+4) + "… output …" + rtoksString(b, i-2, i+4) + "…"
	var ta, tb rtok
	if i < len(a) {
		ta = a[i]
	} else {
		ta = rtok{k: ptBreak}
	}
	if i < len(b) {
		tb = b[i]
	} else {
		tb = rtok{k: ptBreak}
	}
	edgeName := func(e string) string {
		e = strings.Trim(e, "<>/")
		if e == "" {
			return "text"
		}
		return e
	}
	switch {
	case ta.k == ptSpace && tb.k != ptSpace:
		// a space between two rendered items disappeared
		left := "start"
		if i > 0 {
			left = kindName(a[i-1])
		}
		right := "end"
		if i+1 < len(a) {
			right = kindName(a[i+1])
		}
		e := ""
		for _, x := range ta.edges {
			if x != "" {
				e = x
			}
		}
		return "words-joined:" + left + "~" + right + ":at-" + boundaryKind(e) + ":" + edgeName(e), detail
	case tb.k == ptSpace && ta.k != ptSpace:
		e := ""
		for _, x := range tb.edges {
			if x != "" {
				e = x
			}
		}
		return "words-split:at-" + boundaryKind(e) + ":" + edgeName(e), detail
	case ta.k == ptWord && tb.k == ptWord:
		if strings.HasPrefix(tb.s, ta.s) {
			return "words-joined:glue:" + edgeName(lastEdge(tb)), detail
		}
		if strings.HasPrefix(ta.s, tb.s) {
			return "words-split:glue:" + edgeName(lastEdge(ta)), detail
		}
		return "text-changed:word", detail
	case ta.k == ptPre || tb.k == ptPre:
		return "pre-content-changed", detail
	case ta.k == ptBreak || tb.k == ptBreak:
		return "line-structure-changed", detail
	}
	return "inline-projection-changed:" + kindName(ta) + "/" + kindName(tb), detail
}

func kindName(t rtok) string {
	switch t.k {
	case ptWord:
		return "word"
	case ptSpace:
		return "space"
	case ptBreak:
		return "break"
	case ptObjO, ptObjC:
		return "box-" + t.s
	case ptPre:
		return "pre"
	}
	return "?"
}

func boundaryKind(e string) string {
	switch {
	case e == "":
		return "text"
	case strings.HasPrefix(e, "</"):
		return "end-tag"
	default:
		return "start-tag"
	}
}
