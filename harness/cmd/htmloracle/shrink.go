package main

// ddmin-style minimisation on the generator tree: remove nodes, attributes, and units of text
// (whole character references or single characters), re-serialise with the optional-tag rules,
// keep a step when the same signature is still reported.

import (
	"strings"
)

type shrinker struct {
	root   *Node
	avoid  bool
	test   func(input, skeleton string) bool
	budget int
}

func (s *shrinker) try() bool {
	if s.budget <= 0 {
		return false
	}
	s.budget--
	in := Serialize(s.root, s.avoid)
	var sb strings.Builder
	skeleton(s.root, &sb)
	return s.test(in, sb.String())
}

// units splits source text into removable units: complete character references, template actions, single runes.
func units(src string) []string {
	var out []string
	for i := 0; i < len(src); {
		if src[i] == '&' {
			j := i + 1
			for j < len(src) && j-i < 40 && (isAlnum(src[j]) || src[j] == '#') {
				j++
			}
			if j < len(src) && src[j] == ';' && j > i+1 {
				out = append(out, src[i:j+1])
				i = j + 1
				continue
			}
		}
		if strings.HasPrefix(src[i:], "{{") {
			if k := strings.Index(src[i:], "}}"); k > 0 {
				out = append(out, src[i:i+k+2])
				i += k + 2
				continue
			}
		}
		_, n := decodeRune(src[i:])
		out = append(out, src[i:i+n])
		i += n
	}
	return out
}

func decodeRune(s string) (rune, int) {
	for i, r := range s {
		if i > 0 {
			return 0, i
		}
		_ = r
	}
	return 0, len(s)
}

func (s *shrinker) shrinkString(get func() string, set func(string), fix func(string) string, minLen int) bool {
	changed := false
	us := units(get())
	chunk := len(us) / 2
	for chunk >= 1 {
		i := 0
		for i < len(us) {
			if len(us)-chunk < minLen {
				break
			}
			end := i + chunk
			if end > len(us) {
				end = len(us)
			}
			cand := append(append([]string{}, us[:i]...), us[end:]...)
			old := get()
			set(fix(strings.Join(cand, "")))
			if s.try() {
				us = cand
				changed = true
			} else {
				set(old)
				i = end
			}
			if s.budget <= 0 {
				return changed
			}
		}
		chunk /= 2
	}
	return changed
}

func fixAttrAmp(v string) string { return fixAmp(v) }

func (s *shrinker) pass(n *Node) bool {
	changed := false
	// remove children (larger chunks first)
	chunk := len(n.Kids)
	for chunk >= 1 {
		i := 0
		for i < len(n.Kids) {
			end := i + chunk
			if end > len(n.Kids) {
				end = len(n.Kids)
			}
			keep := false
			for _, k := range n.Kids[i:end] {
				if k.Keep {
					keep = true
				}
			}
			if keep || n.RawText {
				i = end
				continue
			}
			old := n.Kids
			n.Kids = append(append([]*Node{}, old[:i]...), old[end:]...)
			if s.try() {
				changed = true
			} else {
				n.Kids = old
				i = end
			}
			if s.budget <= 0 {
				return changed
			}
		}
		chunk /= 2
	}
	for _, k := range n.Kids {
		if k.Kind == KElem {
			// attributes
			for i := 0; i < len(k.Attrs); {
				old := k.Attrs
				k.Attrs = append(append([]Attr{}, old[:i]...), old[i+1:]...)
				if s.try() {
					changed = true
				} else {
					k.Attrs = old
					i++
				}
			}
			for i := range k.Attrs {
				a := &k.Attrs[i]
				if a.NoVal || a.Val == "" {
					continue
				}
				if ln := strings.ToLower(a.Name); ln == "style" || strings.HasPrefix(ln, "on") || ln == "type" {
					continue // embedded CSS/JS must stay valid; media types must stay meaningful
				}
				min := 0
				if a.Quote == 0 {
					min = 1
				}
				if s.shrinkString(func() string { return a.Val }, func(v string) { a.Val = v }, fixAttrAmp, min) {
					changed = true
				}
			}
			// cosmetic simplifications
			for _, f := range []func() func(){
				func() func() { o := k.TagW; k.TagW = ""; return func() { k.TagW = o } },
				func() func() { o := k.EndSpace; k.EndSpace = false; return func() { k.EndSpace = o } },
				func() func() { o := k.EndUpper; k.EndUpper = false; return func() { k.EndUpper = o } },
				func() func() { o := k.SelfClose; k.SelfClose = 0; return func() { k.SelfClose = o } },
				func() func() { o := k.OmitEnd; k.OmitEnd = false; return func() { k.OmitEnd = o } },
				func() func() { o := k.OmitStart; k.OmitStart = false; return func() { k.OmitStart = o } },
			} {
				before := Serialize(s.root, s.avoid)
				undo := f()
				if Serialize(s.root, s.avoid) == before {
					continue
				}
				if s.try() {
					changed = true
				} else {
					undo()
				}
			}
			if s.pass(k) {
				changed = true
			}
		} else if k.Kind == KText {
			kk := k
			fix := fixAmp
			if k.Kind == KComment || n.RawText {
				fix = func(x string) string { return x }
			}
			if n.RawText {
				continue // raw text bodies are fixed snippets whose conformance depends on balance
			}
			if s.shrinkString(func() string { return kk.Text }, func(v string) { kk.Text = v }, fix, 1) {
				changed = true
			}
		}
		if s.budget <= 0 {
			break
		}
	}
	return changed
}

// Shrink minimises the tree; returns the minimised input and skeleton.
func Shrink(root *Node, avoid bool, budget int, test func(input, skeleton string) bool) (string, string) {
	s := &shrinker{root: cloneTree(root), avoid: avoid, test: test, budget: budget}
	for s.budget > 0 && s.pass(s.root) {
	}
	var sb strings.Builder
	skeleton(s.root, &sb)
	return Serialize(s.root, avoid), sb.String()
}
