package main

// Registries: "none" (only the HTML minifier), "stubs" (recording stub minifiers for the embedded
// media types), "real" (the registrations used by cmd/minify).

import (
	"bytes"
	"fmt"
	"hash/fnv"
	"io"
	"regexp"

	"github.com/tdewolff/minify/v2"
	"github.com/tdewolff/minify/v2/css"
	mhtml "github.com/tdewolff/minify/v2/html"
	"github.com/tdewolff/minify/v2/js"
	"github.com/tdewolff/minify/v2/json"
	"github.com/tdewolff/minify/v2/svg"
	"github.com/tdewolff/minify/v2/xml"
)

type stubCall struct {
	MT     string
	Inline bool
	In     string
	Out    string
}

type recorder struct {
	calls []stubCall
}

var stubTypes = []string{"text/css", "application/javascript", "text/javascript", "image/svg+xml", "application/ld+json", "application/json", "application/mathml+xml"}

func isStubType(mt string) bool {
	for _, s := range stubTypes {
		if s == mt {
			return true
		}
	}
	return false
}

func stubHash(mt string, inline bool, in string) string {
	h := fnv.New32a()
	fmt.Fprintf(h, "%s|%v|%s", mt, inline, in)
	return fmt.Sprintf("%08x", h.Sum32())
}

// stubOutput is a pure function of (media type, inline flag, payload); it embeds a hash of all three
// and contains characters that need care in the context the result is inserted in.
func stubOutput(mt string, inline bool, in string, ampersand bool) string {
	h := stubHash(mt, inline, in)
	if in == "" {
		return "" // like every real minifier
	}
	if h[7] == '0' && inline && mt != "image/svg+xml" {
		return "" // exercise the "attribute minified to nothing" path
	}
	amp := ""
	if ampersand {
		amp = "a&lt;b&amp;&#65;"
	}
	switch mt {
	case "text/css":
		if inline {
			return "p:'\"" + h + " <>=`" + amp
		}
		return "/*" + h + "*/a>b{c:\"</x>\"}" + amp
	case "application/javascript", "text/javascript":
		if inline {
			return "f(\"" + h + "','`<>=)" + amp
		}
		return "/*" + h + "*/x=\"<b>\"+'</b>'<!y" + amp
	case "image/svg+xml":
		return "<svg data-h=\"" + h + "\"><g/></svg>"
	case "application/mathml+xml":
		return "<math data-h=\"" + h + "\"></math>"
	}
	return "{\"h\":\"" + h + "\"}"
}

type registry struct {
	m   *minify.M
	rec *recorder
}

func newRegistry(kind string, o Options, stubAmp bool) *registry {
	m := minify.New()
	hm := &mhtml.Minifier{
		KeepComments:            o.KeepComments,
		KeepConditionalComments: o.KeepConditionalComments,
		KeepSpecialComments:     o.KeepSpecialComments,
		KeepDefaultAttrVals:     o.KeepDefaultAttrVals,
		KeepDocumentTags:        o.KeepDocumentTags,
		KeepEndTags:             o.KeepEndTags,
		KeepQuotes:              o.KeepQuotes,
		KeepWhitespace:          o.KeepWhitespace,
	}
	if o.TemplateDelims {
		hm.TemplateDelims = mhtml.GoTemplateDelims
	}
	if o.BaseURL != "" {
		u, _ := parseURL(o.BaseURL + "://example.com/dir/page.html")
		m.URL = u
	}
	reg := &registry{m: m, rec: &recorder{}}
	m.Add("text/html", hm)
	switch kind {
	case "stubs":
		for _, mt := range stubTypes {
			mt := mt
			m.AddFunc(mt, func(_ *minify.M, w io.Writer, r io.Reader, params map[string]string) error {
				b, err := io.ReadAll(r)
				if err != nil {
					return err
				}
				inline := params != nil && params["inline"] == "1"
				out := stubOutput(mt, inline, string(b), stubAmp)
				reg.rec.calls = append(reg.rec.calls, stubCall{MT: mt, Inline: inline, In: string(b), Out: out})
				_, err = w.Write([]byte(out))
				return err
			})
		}
	case "real":
		m.Add("text/css", &css.Minifier{})
		m.Add("image/svg+xml", &svg.Minifier{})
		m.AddRegexp(regexp.MustCompile("^(application|text)/(x-)?(java|ecma|j|live)script(1\\.[0-5])?$|^module$"), &js.Minifier{})
		m.AddRegexp(regexp.MustCompile("[/+]json$"), &json.Minifier{})
		m.AddRegexp(regexp.MustCompile("[/+]xml$"), &xml.Minifier{})
	}
	return reg
}

// runMinify runs one HTML minification with panic capture.
func (reg *registry) run(in string) (out string, err error, panicked interface{}) {
	defer func() {
		if p := recover(); p != nil {
			panicked = p
		}
	}()
	var buf bytes.Buffer
	err = reg.m.Minify("text/html", &buf, bytes.NewReader([]byte(in)))
	return buf.String(), err, nil
}
