package main

// Generator-side document tree and its serialiser. The serialiser decides tag omission
// from the optional-tag rules of the HTML standard (section 13.1.2.4), so that a tree stays
// conforming when the shrinker removes nodes.

import (
	"strings"

	xhtml "golang.org/x/net/html"
)

type NKind uint8

const (
	KElem NKind = iota
	KText
	KComment
	KDoctype
	KRaw // verbatim source (svg/math subtree)
)

type Attr struct {
	Name  string // as written
	Val   string // source text of the value (character references as written)
	Quote byte   // 0, '"' or '\''
	NoVal bool   // attribute name only
	SpEq  bool   // write "name = value"
}

type Node struct {
	Kind      NKind
	Tag       string // canonical lower-case name
	TagW      string // as written in the start tag (mixed case allowed)
	Attrs     []Attr
	Kids      []*Node
	Text      string // text source / comment data / doctype source / raw source
	Void      bool
	SelfClose int  // void elements: 0 ">", 1 "/>", 2 " />"
	OmitStart bool // wish; honoured only where the standard allows
	OmitEnd   bool // wish
	EndSpace  bool // "</div >"
	EndUpper  bool // "</DIV>"
	RawText   bool // script/style/textarea/title: Kids is one KText written verbatim
	Keep      bool // shrinker must not remove this node (required by content model)
	effOS     bool
	effOE     bool
}

func isWS(c byte) bool { return c == ' ' || c == '\t' || c == '\n' || c == '\f' || c == '\r' }

func allWS(s string) bool {
	for i := 0; i < len(s); i++ {
		if !isWS(s[i]) {
			return false
		}
	}
	return true
}

// isWSText: text that is white space only after character-reference decoding ("&#9;" is white space
// for the tree construction stage just like a literal tab).
func (n *Node) isWSText() bool {
	if n.Kind != KText {
		return false
	}
	if allWS(n.Text) {
		return true
	}
	if strings.IndexByte(n.Text, '&') < 0 {
		return false
	}
	return allWS(xhtml.UnescapeString(n.Text))
}

// startsWS: the first character of the text (after decoding) is white space.
func (n *Node) startsWS() bool {
	if n.Kind != KText || n.Text == "" {
		return false
	}
	if isWS(n.Text[0]) {
		return true
	}
	if n.Text[0] == '&' {
		d := xhtml.UnescapeString(n.Text)
		return d != "" && isWS(d[0])
	}
	return false
}

func (n *Node) isElem(tags ...string) bool {
	if n == nil || n.Kind != KElem {
		return false
	}
	for _, t := range tags {
		if n.Tag == t {
			return true
		}
	}
	return false
}

// nextSig returns the next sibling after i that is not whitespace-only text (nil if none).
func nextSig(kids []*Node, i int) *Node {
	for j := i + 1; j < len(kids); j++ {
		if !kids[j].isWSText() {
			return kids[j]
		}
	}
	return nil
}

func prevSig(kids []*Node, i int) *Node {
	for j := i - 1; j >= 0; j-- {
		if !kids[j].isWSText() {
			return kids[j]
		}
	}
	return nil
}

var pClosers = []string{"address", "article", "aside", "blockquote", "details", "div", "dl", "fieldset", "figcaption", "figure", "footer", "form", "h1", "h2", "h3", "h4", "h5", "h6", "header", "hgroup", "hr", "main", "menu", "nav", "ol", "p", "pre", "section", "table", "ul"}

// parents in which "</p>" may be left out when the p is the last child: the standard forbids
// a, audio, del, ins, map, noscript, video and autonomous custom elements; we keep to a positive list
// of containers whose end tag is handled by name in the tree construction stage.
var pLastOK = map[string]bool{"div": true, "section": true, "article": true, "aside": true, "nav": true, "header": true, "footer": true, "main": true, "blockquote": true, "li": true, "dd": true, "td": true, "th": true, "body": true, "form": true, "fieldset": true, "figure": true, "figcaption": true, "details": true, "address": true, "dialog": true, "caption": true}

// canOmitEnd implements the end-tag half of the optional-tag rules.
func canOmitEnd(n, parent *Node, kids []*Node, i int) bool {
	var lit *Node // literal next sibling
	if i+1 < len(kids) {
		lit = kids[i+1]
	}
	nx := nextSig(kids, i)
	litWSorComment := lit != nil && (lit.Kind == KComment || lit.startsWS())
	switch n.Tag {
	case "html", "body":
		return lit == nil || lit.Kind != KComment
	case "head":
		if litWSorComment {
			return false
		}
		// if the body start tag is left out as well, what follows is the body's first child
		if lit != nil && lit.isElem("body") && lit.effOS && len(lit.Kids) > 0 {
			f := lit.Kids[0]
			if f.Kind == KComment || f.startsWS() {
				return false
			}
		}
		return true
	case "li":
		return nx == nil || nx.isElem("li")
	case "dt":
		return nx.isElem("dt", "dd")
	case "dd":
		return nx == nil || nx.isElem("dt", "dd")
	case "p":
		if nx == nil {
			return parent != nil && parent.Kind == KElem && pLastOK[parent.Tag]
		}
		return nx.isElem(pClosers...)
	case "rt", "rp":
		return nx == nil || nx.isElem("rt", "rp")
	case "optgroup":
		return nx == nil || nx.isElem("optgroup")
	case "option":
		return nx == nil || nx.isElem("option", "optgroup")
	case "colgroup", "caption":
		return !litWSorComment
	case "thead":
		return nx.isElem("tbody", "tfoot") && !(nx.Tag == "tbody" && nx.OmitStart)
	case "tbody":
		return nx == nil || nx.isElem("tfoot") || nx.isElem("tbody") && !nx.OmitStart
	case "tfoot":
		return nx == nil
	case "tr":
		return nx == nil || nx.isElem("tr")
	case "td", "th":
		return nx == nil || nx.isElem("td", "th")
	}
	return false
}

// canOmitStart implements the start-tag half. avoid==true additionally keeps away from the
// known K16 shape (implied tbody after an explicit </thead>).
func canOmitStart(n, parent *Node, kids []*Node, i int, avoid bool) bool {
	if len(n.Attrs) > 0 {
		return false
	}
	var first *Node
	if len(n.Kids) > 0 {
		first = n.Kids[0]
	}
	switch n.Tag {
	case "html":
		return first == nil || first.Kind != KComment
	case "head":
		return first == nil || first.Kind == KElem
	case "body":
		if first == nil {
			return true
		}
		if first.Kind == KComment || first.startsWS() {
			return false
		}
		if first.isElem("meta", "noscript", "link", "script", "style", "template") {
			return false
		}
		// text directly after an omitted </head> would be fine, but a preceding head whose
		// end tag is omitted and that contains only head content is fine too.
		return true
	case "colgroup":
		if !first.isElem("col") {
			return false
		}
		p := prevSig(kids, i)
		if p.isElem("colgroup") && (p.effOE || avoid) {
			return false
		}
		return true
	case "tbody":
		if !first.isElem("tr") {
			return false
		}
		p := prevSig(kids, i)
		if p.isElem("tbody", "thead", "tfoot") && (p.effOE || avoid) {
			return false
		}
		return true
	}
	return false
}

// resolve computes the effective omission flags for the whole tree.
func resolve(n *Node, avoid bool) {
	for _, k := range n.Kids {
		if k.Kind != KElem {
			continue
		}
		k.effOS, k.effOE = false, false
	}
	// start omission of child i may depend on end omission of child i-1 and vice versa (thead/tbody):
	// end omission rules look only at the wish (OmitStart) of the next sibling, so do ends first.
	for i, k := range n.Kids {
		if k.Kind != KElem {
			continue
		}
		resolve(k, avoid)
		if k.OmitEnd && !k.Void {
			k.effOE = canOmitEnd(k, n, n.Kids, i)
		}
	}
	for i, k := range n.Kids {
		if k.Kind != KElem {
			continue
		}
		if k.OmitStart {
			k.effOS = canOmitStart(k, n, n.Kids, i, avoid)
		}
	}
	// head end omission depends on body.effOS: recompute
	for i, k := range n.Kids {
		if k.isElem("head") && k.OmitEnd {
			k.effOE = canOmitEnd(k, n, n.Kids, i)
		}
	}
}

func writeAttrs(sb *strings.Builder, n *Node) {
	for _, a := range n.Attrs {
		sb.WriteByte(' ')
		sb.WriteString(a.Name)
		if a.NoVal {
			continue
		}
		if a.SpEq {
			sb.WriteString(" = ")
		} else {
			sb.WriteByte('=')
		}
		if a.Quote != 0 {
			sb.WriteByte(a.Quote)
			sb.WriteString(a.Val)
			sb.WriteByte(a.Quote)
		} else {
			sb.WriteString(a.Val)
		}
	}
}

func serializeNode(sb *strings.Builder, n *Node) {
	switch n.Kind {
	case KText, KRaw:
		sb.WriteString(n.Text)
	case KComment:
		sb.WriteString("<!--")
		sb.WriteString(n.Text)
		sb.WriteString("-->")
	case KDoctype:
		sb.WriteString(n.Text)
	case KElem:
		if !n.effOS {
			sb.WriteByte('<')
			if n.TagW != "" {
				sb.WriteString(n.TagW)
			} else {
				sb.WriteString(n.Tag)
			}
			writeAttrs(sb, n)
			if n.Void {
				last := byte(0)
				if len(n.Attrs) > 0 {
					a := n.Attrs[len(n.Attrs)-1]
					if !a.NoVal && a.Quote == 0 {
						last = 'u'
					}
				}
				switch {
				case n.SelfClose == 2 || n.SelfClose == 1 && last == 'u':
					sb.WriteString(" />")
				case n.SelfClose == 1:
					sb.WriteString("/>")
				default:
					sb.WriteByte('>')
				}
			} else {
				sb.WriteByte('>')
			}
		}
		if n.Void {
			return
		}
		for _, k := range n.Kids {
			serializeNode(sb, k)
		}
		if !n.effOE {
			sb.WriteString("</")
			t := n.Tag
			if n.TagW != "" && !n.EndUpper {
				t = n.TagW
			}
			if n.EndUpper {
				t = strings.ToUpper(t)
			}
			sb.WriteString(t)
			if n.EndSpace {
				sb.WriteByte(' ')
			}
			sb.WriteByte('>')
		}
	}
}

// Serialize renders the children of the (virtual) root.
func Serialize(root *Node, avoid bool) string {
	resolve(root, avoid)
	var sb strings.Builder
	for _, k := range root.Kids {
		serializeNode(&sb, k)
	}
	return sb.String()
}

// skeleton renders the intended element structure (what a conforming parser must build).
func skeleton(n *Node, sb *strings.Builder) {
	for _, k := range n.Kids {
		switch k.Kind {
		case KElem:
			sb.WriteByte('<')
			sb.WriteString(k.Tag)
			sb.WriteByte('>')
			if !k.RawText {
				skeleton(k, sb)
			}
			sb.WriteString("</>")
		case KRaw:
			sb.WriteString("<" + k.Tag + "></>")
		}
	}
}

func cloneTree(n *Node) *Node {
	c := *n
	c.Attrs = append([]Attr(nil), n.Attrs...)
	c.Kids = make([]*Node, len(n.Kids))
	for i, k := range n.Kids {
		c.Kids[i] = cloneTree(k)
	}
	return &c
}

func countNodes(n *Node) int {
	c := 1
	for _, k := range n.Kids {
		c += countNodes(k)
	}
	return c
}
