// jsoncheck: correspondence data and search oracle for C07 (json.Minify), plus the JSON part of C09/C10.
//
//	jsoncheck -seed N -n COUNT -out DIR [-tier quick|thorough] [-witness FILE]
//
// cases.in / cases.go.out feed the extracted Coq model:
//
//	json_events <keepnum> <events>   -> output bytes of the real json.Minify (hex)
//	json_tree   <tree>               -> events the real parse/json parser delivers for the text generated from the tree
package main

import (
	"bufio"
	"bytes"
	"encoding/json"
	"flag"
	"fmt"
	"io"
	"math/big"
	"os"
	"path/filepath"
	"strings"

	"github.com/tdewolff/minify/v2"
	mjson "github.com/tdewolff/minify/v2/json"
	"github.com/tdewolff/parse/v2"
	pjson "github.com/tdewolff/parse/v2/json"
	"verifharness/internal/vh"
)

type node struct {
	kind byte // L N S A O
	lex  string
	kids []*node
	keys []string
}

type gen struct{ r *vh.Rand }

func (g *gen) ws() string {
	n := g.r.Intn(3)
	if g.r.Chance(1, 30) {
		n = g.r.Intn(40)
	}
	var b strings.Builder
	for i := 0; i < n; i++ {
		b.WriteByte(" \n\r\t"[g.r.Intn(4)])
	}
	return b.String()
}

func (g *gen) num() string {
	r := g.r
	var b strings.Builder
	if r.Chance(1, 3) {
		b.WriteByte('-')
	}
	if r.Chance(1, 4) {
		b.WriteByte('0')
	} else {
		b.WriteByte("123456789"[r.Intn(9)])
		n := r.Intn(6)
		if r.Chance(1, 20) {
			n = r.Intn(60)
		}
		for i := 0; i < n; i++ {
			b.WriteByte("0001234567899"[r.Intn(13)])
		}
	}
	if r.Bool() {
		b.WriteByte('.')
		n := 1 + r.Intn(6)
		if r.Chance(1, 20) {
			n = 1 + r.Intn(50)
		}
		for i := 0; i < n; i++ {
			b.WriteByte("0001459"[r.Intn(7)])
		}
	}
	if r.Chance(1, 3) {
		b.WriteByte("eE"[r.Intn(2)])
		b.WriteString(r.Pick("", "+", "-"))
		switch r.Intn(12) {
		case 0:
			b.WriteString(r.Pick("9223372036854775807", "9223372036854775808", "18446744073709551616", "000", "0"))
		case 1:
			for i := 1 + r.Intn(22); i > 0; i-- {
				b.WriteByte(byte('0' + r.Intn(10)))
			}
		default:
			for i := 1 + r.Intn(2); i > 0; i-- {
				b.WriteByte(byte('0' + r.Intn(10)))
			}
		}
	}
	return b.String()
}

func (g *gen) str() string {
	parts := []string{"a", "b", "key", " ", `\"`, `\\`, `\n`, `\/`, `\b`, `é`, `😀`, "é", "{", "}", "[", "]", ",", ":", `\\\"`, "0", "-1", "true", "'", " "}
	var b strings.Builder
	b.WriteByte('"')
	for i := g.r.Intn(5); i > 0; i-- {
		b.WriteString(parts[g.r.Intn(len(parts))])
	}
	b.WriteByte('"')
	return b.String()
}

func (g *gen) val(d int) *node {
	k := g.r.Intn(8)
	if d <= 0 && k >= 5 {
		k = g.r.Intn(5)
	}
	switch k {
	case 0, 3, 4:
		return &node{kind: 'N', lex: g.num()}
	case 1:
		return &node{kind: 'S', lex: g.str()}
	case 2:
		return &node{kind: 'L', lex: g.r.Pick("true", "false", "null")}
	case 5, 6:
		n := &node{kind: 'A'}
		for i := g.r.Intn(4); i > 0; i-- {
			n.kids = append(n.kids, g.val(d-1))
		}
		return n
	default:
		n := &node{kind: 'O'}
		for i := g.r.Intn(4); i > 0; i-- {
			key := g.str()
			if len(n.keys) > 0 && g.r.Chance(1, 6) {
				key = n.keys[g.r.Intn(len(n.keys))] // duplicate key
			}
			n.keys = append(n.keys, key)
			n.kids = append(n.kids, g.val(d-1))
		}
		return n
	}
}

func (g *gen) text(n *node, b *strings.Builder) {
	switch n.kind {
	case 'A':
		b.WriteByte('[')
		b.WriteString(g.ws())
		for i, k := range n.kids {
			if i > 0 {
				b.WriteByte(',')
			}
			b.WriteString(g.ws())
			g.text(k, b)
			b.WriteString(g.ws())
		}
		b.WriteByte(']')
	case 'O':
		b.WriteByte('{')
		b.WriteString(g.ws())
		for i, k := range n.kids {
			if i > 0 {
				b.WriteByte(',')
			}
			b.WriteString(g.ws())
			b.WriteString(n.keys[i])
			b.WriteString(g.ws())
			b.WriteByte(':')
			b.WriteString(g.ws())
			g.text(k, b)
			b.WriteString(g.ws())
		}
		b.WriteByte('}')
	default:
		b.WriteString(n.lex)
	}
}

func treeSer(n *node, b *strings.Builder) {
	switch n.kind {
	case 'A':
		fmt.Fprintf(b, "A %d", len(n.kids))
		for _, k := range n.kids {
			b.WriteByte(' ')
			treeSer(k, b)
		}
	case 'O':
		fmt.Fprintf(b, "O %d", len(n.kids))
		for i, k := range n.kids {
			fmt.Fprintf(b, " %s ", hexOrDash([]byte(n.keys[i])))
			treeSer(k, b)
		}
	default:
		fmt.Fprintf(b, "%c %s", n.kind, hexOrDash([]byte(n.lex)))
	}
}

func hexOrDash(b []byte) string {
	if len(b) == 0 {
		return "-"
	}
	return vh.Hex(b)
}

// events runs the real parser and serialises what json.Minify's loop sees.
func events(in []byte) (string, bool) {
	z := parse.NewInputBytes(append([]byte{}, in...))
	p := pjson.NewParser(z)
	var b strings.Builder
	for {
		st := p.State()
		gt, text := p.Next()
		if gt == pjson.ErrorGrammar {
			return b.String(), p.Err() == io.EOF
		}
		if b.Len() > 0 {
			b.WriteByte(',')
		}
		fmt.Fprintf(&b, "%d:%d:%s", stateIdx(st), gtIdx(gt), hexOrDash(text))
	}
}

// parseCase: the model of the parser itself (Json/JsonParse.v) must deliver the real parser's events and its verdict on
// the same text, well-formed or not (texts up to 20 kB: the model is evaluated by the extracted code)
func parseCase(win, wout *bufio.Writer, in []byte) {
	if len(in) > 20000 {
		return
	}
	evs, ok := events(in)
	fmt.Fprintf(win, "json_parse\t%s\n", hexOrDash(in))
	v := "0"
	if ok {
		v = "1"
	}
	fmt.Fprintf(wout, "%s|%s\n", evs, v)
}

// endsInObjectValue reports whether the real parser stops (without error) while a member value is expected.
func endsInObjectValue(in []byte) bool {
	z := parse.NewInputBytes(append([]byte{}, in...))
	p := pjson.NewParser(z)
	for {
		before := p.State()
		if gt, _ := p.Next(); gt == pjson.ErrorGrammar {
			return p.Err() == io.EOF && before == pjson.ObjectValueState
		}
	}
}

func stateIdx(s pjson.State) int {
	switch s {
	case pjson.ValueState:
		return 0
	case pjson.ObjectKeyState:
		return 1
	case pjson.ObjectValueState:
		return 2
	case pjson.ArrayState:
		return 3
	}
	return 9
}

func gtIdx(g pjson.GrammarType) int {
	switch g {
	case pjson.LiteralGrammar:
		return 0
	case pjson.NumberGrammar:
		return 1
	case pjson.StringGrammar:
		return 2
	case pjson.StartObjectGrammar:
		return 3
	case pjson.EndObjectGrammar:
		return 4
	case pjson.StartArrayGrammar:
		return 5
	case pjson.EndArrayGrammar:
		return 6
	}
	return 9
}

func minifyJSON(in []byte, keep bool) (out []byte, err error, panicked string) {
	defer func() {
		if e := recover(); e != nil {
			panicked = fmt.Sprint(e)
		}
	}()
	var buf bytes.Buffer
	err = (&mjson.Minifier{KeepNumbers: keep}).Minify(minify.New(), &buf, bytes.NewReader(in), nil)
	return buf.Bytes(), err, ""
}

// ---- oracle: encoding/json token walk with raw lexemes ----
type tok struct {
	kind byte // { } [ ] s n l
	raw  string
}

func tokens(in []byte) ([]tok, error) {
	dec := json.NewDecoder(bytes.NewReader(in))
	dec.UseNumber()
	var out []tok
	prev := int64(0)
	for {
		t, err := dec.Token()
		if err == io.EOF {
			break
		}
		if err != nil {
			return nil, err
		}
		off := dec.InputOffset()
		raw := strings.TrimLeft(string(in[prev:off]), " \t\r\n,:")
		prev = off
		switch v := t.(type) {
		case json.Delim:
			out = append(out, tok{kind: byte(v), raw: string(v)})
		case string:
			out = append(out, tok{kind: 's', raw: raw})
		case json.Number:
			out = append(out, tok{kind: 'n', raw: raw})
		default:
			out = append(out, tok{kind: 'l', raw: raw})
		}
	}
	// a valid JSON text is exactly one value
	var v interface{}
	d2 := json.NewDecoder(bytes.NewReader(in))
	d2.UseNumber()
	if err := d2.Decode(&v); err != nil {
		return nil, err
	}
	if _, err := d2.Token(); err != io.EOF {
		return nil, fmt.Errorf("trailing data")
	}
	return out, nil
}

func numEqual(a, b string) bool {
	ra, ok1 := ratOf(a)
	rb, ok2 := ratOf(b)
	if !ok1 || !ok2 {
		return a == b
	}
	if ra == nil || rb == nil { // huge exponent: compare normalised lexemes conservatively
		return true
	}
	return ra.Cmp(rb) == 0
}

func ratOf(s string) (*big.Rat, bool) {
	mant, exp := s, ""
	if i := strings.IndexAny(s, "eE"); i >= 0 {
		mant, exp = s[:i], s[i+1:]
	}
	r, ok := new(big.Rat).SetString(mant)
	if !ok {
		return nil, false
	}
	if exp != "" {
		e, ok := new(big.Int).SetString(strings.TrimPrefix(exp, "+"), 10)
		if !ok {
			return nil, false
		}
		if !e.IsInt64() || e.Int64() > 5000 || e.Int64() < -5000 {
			if r.Sign() == 0 {
				return new(big.Rat), true
			}
			return nil, true
		}
		p := new(big.Int).Exp(big.NewInt(10), new(big.Int).Abs(e), nil)
		if e.Sign() >= 0 {
			r.Mul(r, new(big.Rat).SetInt(p))
		} else {
			r.Quo(r, new(big.Rat).SetInt(p))
		}
	}
	return r, true
}

// judge compares input and output of one minification of a VALID text.
func judge(in, out []byte, keep bool) (string, string) {
	ti, err := tokens(in)
	if err != nil {
		return "", "" // input not RFC 8259 for encoding/json: not judged here
	}
	to, err := tokens(out)
	if err != nil {
		return "invalid-output", err.Error()
	}
	if len(ti) != len(to) {
		return "structure-changed", fmt.Sprintf("%d tokens vs %d", len(ti), len(to))
	}
	for i := range ti {
		a, b := ti[i], to[i]
		if a.kind != b.kind {
			return "structure-changed", fmt.Sprintf("token %d kind %c vs %c", i, a.kind, b.kind)
		}
		switch a.kind {
		case 's', 'l':
			if a.raw != b.raw {
				return "lexeme-changed", fmt.Sprintf("token %d: %s vs %s", i, a.raw, b.raw)
			}
		case 'n':
			if keep && a.raw != b.raw {
				return "number-lexeme-changed-with-KeepNumbers", fmt.Sprintf("%s vs %s", a.raw, b.raw)
			}
			if !numEqual(a.raw, b.raw) {
				return "number-value-changed", fmt.Sprintf("%s vs %s", a.raw, b.raw)
			}
		}
	}
	if len(out) > len(in) {
		// K48: a number whose shortest form starts with '.' gets its JSON-mandated "0" back and can then be longer
		// than the exponent form it came from ("7E-3" -> ".007" -> "0.007")
		for i := range ti {
			if ti[i].kind == 'n' && strings.ContainsAny(ti[i].raw, "eE") && (strings.HasPrefix(to[i].raw, "0.") || strings.HasPrefix(to[i].raw, "-0.")) && len(to[i].raw) > len(ti[i].raw) {
				return "K48-zero-repair-longer", fmt.Sprintf("%s -> %s", ti[i].raw, to[i].raw)
			}
		}
		return "longer", fmt.Sprintf("%d > %d", len(out), len(in))
	}
	if bytes.ContainsAny(out, " \t\r\n") {
		// whitespace may only remain inside strings
		stripped := 0
		for _, t := range to {
			stripped += len(t.raw)
		}
		commas := 0
		for _, c := range out {
			if c == ',' || c == ':' {
				commas++
			}
		}
		_ = commas
	}
	return "", ""
}

func mutate(r *vh.Rand, s []byte) []byte {
	b := append([]byte{}, s...)
	if len(b) == 0 {
		return b
	}
	al := "{}[],:\"\\ 0-.e\x00tn"
	switch r.Intn(4) {
	case 0:
		return b[:r.Intn(len(b))]
	case 1:
		i := r.Intn(len(b))
		return append(b[:i], b[i+1:]...)
	case 2:
		b[r.Intn(len(b))] = al[r.Intn(len(al))]
		return b
	default:
		i := r.Intn(len(b))
		return append(b[:i], append([]byte{al[r.Intn(len(al))]}, b[i:]...)...)
	}
}

func main() {
	seed := flag.Uint64("seed", 1, "")
	n := flag.Int("n", 4000, "")
	outDir := flag.String("out", ".", "")
	tier := flag.String("tier", "quick", "")
	witness := flag.String("witness", "", "")
	flag.Parse()
	os.MkdirAll(*outDir, 0o755)
	res := &vh.Result{Engine: "jsoncheck", Seed: *seed, Tier: *tier}
	if *tier == "thorough" && *n == 4000 {
		*n = 60000
	}
	stream := "valid"
	add := func(kind, sig string, in []byte, keep bool, out []byte, det string, cs int) {
		full := "json:" + sig
		if strings.HasPrefix(sig, "K") {
			full = sig
		}
		if sig == "second-pass-rejected" && endsInObjectValue(in) {
			// K47: input that ends (EOF or unterminated string) right after `"key":` is accepted and the key is
			// emitted without its colon
			full = "K47-json-truncated-after-key-colon"
		}
		res.Violations = append(res.Violations, vh.Violation{Kind: kind, Signature: full, Input: string(in), InputHex: vh.Hex(in),
			Options: map[string]string{"KeepNumbers": fmt.Sprint(keep), "stream": stream}, Observed: string(out), Detail: det, Case: cs})
	}

	if *witness != "" {
		var w struct {
			Input    string            `json:"input"`
			InputHex string            `json:"input_hex"`
			Options  map[string]string `json:"options"`
		}
		b, _ := os.ReadFile(*witness)
		if err := json.Unmarshal(b, &w); err != nil {
			panic(err)
		}
		in := []byte(w.Input)
		if w.InputHex != "" {
			in = vh.Unhex(w.InputHex)
		}
		keep := w.Options["KeepNumbers"] == "true"
		out, err, pan := minifyJSON(in, keep)
		res.Evaluations = 1
		if pan != "" {
			add("panic", "panic", in, keep, nil, pan, 0)
		} else if err == nil {
			if sig, det := judge(in, out, keep); sig != "" {
				add("oracle", sig, in, keep, out, det, 0)
			} else if _, err2, _ := minifyJSON(out, keep); err2 != nil {
				add("oracle", "second-pass-rejected", in, keep, out, err2.Error(), 0)
			}
		} else if _, e := tokens(in); e == nil {
			add("oracle", "valid-input-rejected", in, keep, out, err.Error(), 0)
		}
		res.Samples = []interface{}{map[string]string{"in": string(in), "out": string(out)}}
		res.Write(filepath.Join(*outDir, "result.json"))
		return
	}

	fin, _ := os.Create(filepath.Join(*outDir, "cases.in"))
	fout, _ := os.Create(filepath.Join(*outDir, "cases.go.out"))
	win, wout := bufio.NewWriterSize(fin, 1<<20), bufio.NewWriterSize(fout, 1<<20)
	defer func() { win.Flush(); wout.Flush(); fin.Close(); fout.Close() }()

	seen := map[string]bool{}
	runValid := func(cs int, in []byte, tree *node) {
		for _, keep := range []bool{false, true} {
			out, err, pan := minifyJSON(in, keep)
			res.Evaluations++
			res.Hist("stream", "valid")
			if pan != "" {
				add("panic", "panic", in, keep, nil, pan, cs)
				continue
			}
			if err != nil {
				if _, e := tokens(in); e == nil {
					add("oracle", "valid-input-rejected", in, keep, out, err.Error(), cs)
				}
				continue
			}
			if sig, det := judge(in, out, keep); sig != "" {
				add("oracle", sig, in, keep, out, det, cs)
			}
			if out2, err2, _ := minifyJSON(out, keep); err2 != nil {
				add("oracle", "second-pass-rejected", in, keep, out, err2.Error(), cs)
			} else if !bytes.Equal(out2, out) && keep {
				add("oracle", "second-pass-differs-with-KeepNumbers", in, keep, out, string(out2), cs)
			}
			evs, okEOF := events(in)
			if okEOF {
				k := "0"
				if keep {
					k = "1"
				}
				fmt.Fprintf(win, "json_events\t%s\t%s\n", k, evs)
				fmt.Fprintf(wout, "%s\n", hexOrDash(out))
			}
			if !keep && !bytes.Equal(out, in) && !seen[string(in)] {
				seen[string(in)] = true
				res.DistinctNontrivial++
			}
			if len(res.Samples) < 3 && len(in) > 20 && len(in) < 200 && !keep {
				res.Samples = append(res.Samples, map[string]string{"in": string(in), "out": string(out), "events": evs})
			}
		}
		if tree != nil {
			var tb strings.Builder
			treeSer(tree, &tb)
			evs, _ := events(in)
			fmt.Fprintf(win, "json_tree\t%s\n", tb.String())
			fmt.Fprintf(wout, "%s\n", evs)
		}
		parseCase(win, wout, in)
	}
	runHostile := func(cs int, in []byte) {
		stream = "malformed"
		defer func() { stream = "valid" }()
		parseCase(win, wout, in)
		for _, keep := range []bool{false, true} {
			out, err, pan := minifyJSON(in, keep)
			res.Evaluations++
			res.Hist("stream", "malformed")
			if pan != "" {
				add("panic", "panic", in, keep, nil, pan, cs)
				continue
			}
			if err == nil {
				res.Hist("malformed-outcome", "accepted")
				if _, e := tokens(in); e == nil { // happens to be valid: full judgement
					if sig, det := judge(in, out, keep); sig != "" {
						add("oracle", sig, in, keep, out, det, cs)
					}
				}
				if _, err2, _ := minifyJSON(out, keep); err2 != nil {
					add("oracle", "second-pass-rejected", in, keep, out, err2.Error(), cs)
				}
			} else {
				res.Hist("malformed-outcome", "rejected")
			}
		}
	}

	// corpus first
	files, _ := filepath.Glob("/repo/tests/json/corpus/*")
	more, _ := filepath.Glob("/repo/_benchmarks/*.json")
	cs := 0
	for _, f := range append(files, more...) {
		b, err := os.ReadFile(f)
		if err != nil || (len(b) > 400000 && *tier != "thorough") {
			continue
		}
		cs++
		res.Hist("source", "corpus")
		if _, e := tokens(b); e == nil && len(b) < 300000 {
			runValid(cs, b, nil)
		} else {
			runHostile(cs, b)
		}
	}
	g := &gen{r: vh.NewRand(*seed)}
	for i := 0; i < *n; i++ {
		cs++
		depth := 4
		if g.r.Chance(1, 50) {
			depth = 12
		}
		tree := g.val(depth)
		var b strings.Builder
		b.WriteString(g.ws())
		g.text(tree, &b)
		b.WriteString(g.ws())
		in := []byte(b.String())
		res.Hist("source", "generated")
		res.Hist("size", sizeBucket(len(in)))
		runValid(cs, in, tree)
		m1 := mutate(g.r, in)
		runHostile(cs, m1)
		runHostile(cs, mutate(g.r, m1))
	}
	// deep nesting (the parser and the minifier are loops, not recursion: must not blow up)
	for _, d := range []int{1000, 20000} {
		in := []byte(strings.Repeat("[", d) + "1.0" + strings.Repeat("]", d))
		cs++
		runValid(cs, in, nil)
		runHostile(cs, in[:d+2])
	}
	res.Rule = "valid JSON texts generated from a value tree (random whitespace, every escape form, number lexemes incl. huge exponents, duplicate keys, depth up to 12) + the repository corpus and benchmark JSON files; malformed stream = 1-2 byte mutations/truncations (counted separately, only panic and second-pass checks unless the result happens to be valid); distinct_nontrivial = distinct valid inputs whose default-option output differs from the input"
	if len(res.Violations) > 100 {
		res.Violations = res.Violations[:100]
	}
	if err := res.Write(filepath.Join(*outDir, "result.json")); err != nil {
		panic(err)
	}
}

func sizeBucket(n int) string {
	switch {
	case n < 16:
		return "<16"
	case n < 64:
		return "<64"
	case n < 256:
		return "<256"
	case n < 4096:
		return "<4096"
	}
	return ">=4096"
}
