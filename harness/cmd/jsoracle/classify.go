package main

// Root-cause signatures.  A violation is attributed to a known defect when the (minimised)
// input contains that defect's trigger shape (see known.go); otherwise it is "new:<what differed>".

import "strings"

// priority: more specific shapes first.
var knownPriority = []string{"K118", "N12", "K08", "K09", "K10", "N09", "N05", "K13", "K12", "K11", "K06", "K05", "K37", "N08", "N07", "N06", "N04", "N01", "N03", "N10", "N11", "N02", "K04", "K07", "K01", "K02", "K03", "K14", "K38", "K30"}

func classify(input, output string, c config, v verdict) string {
	ids := scanKnown(input)
	if strings.HasPrefix(v.kind, "version:") {
		f := strings.TrimPrefix(v.kind, "version:")
		if f == "exponent" && hasID(ids, "K37") {
			return knownSignatures["K37"]
		}
		if f == "shorthand-property" {
			return knownSignatures["K38"]
		}
		return "new:version:" + f
	}
	for _, id := range knownPriority {
		if !hasID(ids, id) {
			continue
		}
		switch id {
		case "K14":
			if c.Keep {
				continue // with name keeping nothing is renamed: not the with-renaming defect
			}
		case "K37", "K38":
			continue // only version findings
		}
		return knownSignatures[id]
	}
	switch v.kind {
	case "trace", "globals", "completion", "syntax", "reaccept", "timeout", "panic", "idents", "labels", "minify-timeout":
		return "new:" + v.kind
	}
	return "new:" + v.kind
}
