package main

// Evaluation of one (program, configuration) pair: minify in-process, execute input and
// output in node, and apply the C01/C02/C09/C16 checks.

import (
	"bytes"
	"fmt"
	"regexp"
	"sort"
	"strconv"
	"strings"
	"time"

	"github.com/tdewolff/minify/v2"
	"github.com/tdewolff/minify/v2/js"
)

type config struct {
	Keep    bool
	Version int
}

func (c config) String() string {
	return fmt.Sprintf("keep=%v,version=%d", c.Keep, c.Version)
}

func (c config) options() map[string]string {
	return map[string]string{"KeepVarNames": strconv.FormatBool(c.Keep), "Version": strconv.Itoa(c.Version), "Precision": "0"}
}

type minResult struct {
	out      string
	err      error
	panicked string
	timeout  bool
}

func minifyJS(src string, c config) minResult {
	ch := make(chan minResult, 1)
	go func() {
		var res minResult
		defer func() {
			if r := recover(); r != nil {
				res.panicked = fmt.Sprint(r)
			}
			ch <- res
		}()
		m := minify.New()
		var out bytes.Buffer
		res.err = (&js.Minifier{KeepVarNames: c.Keep, Version: c.Version, Precision: 0}).Minify(m, &out, strings.NewReader(src), nil)
		res.out = out.String()
	}()
	select {
	case r := <-ch:
		return r
	case <-time.After(30 * time.Second):
		return minResult{timeout: true}
	}
}

// verdict of one (program, config) evaluation.
type verdict struct {
	judged    bool
	reason    string // not-judged reason
	kind      string // "" = pass; else trace|globals|completion|syntax|timeout|reaccept|version:<f>|idents|labels|panic|minify-timeout
	property  string // C01 C02 C09 C16
	detail    string
	output    string
	inputStat runIn
}

var reEvalish = regexp.MustCompile(`\b(eval|Function)\b`)

type featureInfo struct {
	name string
	year int
}

// features returns the version-gated syntax features used by the token stream.
func features(toks []token) map[string]int {
	f := map[string]int{}
	n := len(toks)
	at := func(i int) token {
		if i < 0 || i >= n {
			return token{k: tPunct}
		}
		return toks[i]
	}
	for i, t := range toks {
		switch t.k {
		case tPunct:
			switch t.s {
			case "??":
				f["nullish-coalescing"] = 2020
			case "?.":
				f["optional-chaining"] = 2020
			case "&&=", "||=", "??=":
				f["logical-assignment"] = 2021
			case "**", "**=":
				f["exponent"] = 2016
			case "=>":
				f["arrow"] = 2015
			case "...":
				f["spread"] = 2015
			}
		case tTemplate:
			f["template"] = 2015
		case tNum:
			if strings.HasSuffix(t.s, "n") {
				f["bigint"] = 2020
			}
			if strings.Contains(t.s, "_") {
				f["numeric-separator"] = 2021
			}
		case tIdent:
			if t.s == "catch" && isPunct(at(i+1), "{") {
				f["optional-catch-binding"] = 2019
			}
			if (t.s == "let" || t.s == "const" || t.s == "class" || t.s == "yield" || t.s == "of" || t.s == "super") && !isPunct(at(i-1), ".") && !isPunct(at(i+1), ":") {
				f["es2015-declarations"] = 2015
			}
			if (t.s == "var" || t.s == "let" || t.s == "const") && (isPunct(at(i+1), "{") || isPunct(at(i+1), "[")) {
				f["destructuring"] = 2015
			}
			// shorthand property / destructuring: {a} {a,b} {x:1,a}
			if !isPunct(at(i-1), ".") && !isPunct(at(i-1), "?.") && (isPunct(at(i-1), "{") || isPunct(at(i-1), ",")) && (isPunct(at(i+1), ",") || isPunct(at(i+1), "}")) && (!jsKeywords[t.s] || t.s == "async" || t.s == "get" || t.s == "set" || t.s == "of" || t.s == "static" || t.s == "let") {
				// find the enclosing brace
				depth := 0
				for k := i - 1; k >= 0; k-- {
					u := toks[k]
					if u.k == tPunct && (u.s == ")" || u.s == "]" || u.s == "}") || u.k == tTemplate && u.tmpl == 3 {
						depth++
					} else if u.k == tPunct && (u.s == "(" || u.s == "[" || u.s == "{") || u.k == tTemplate && u.tmpl == 1 {
						if depth == 0 {
							if u.k == tPunct && u.s == "{" && !u.block && objectLikeStart(at(k+1), at(k+2)) {
								f["shorthand-property"] = 2015
							}
							break
						}
						depth--
					}
				}
			}
		}
	}
	return f
}

// objectLikeStart: the first two tokens after "{" look like the start of an object literal.
func objectLikeStart(f1, f2 token) bool {
	if isPunct(f1, "[") || isPunct(f1, "...") {
		return true
	}
	if f1.k == tIdent || f1.k == tStr || f1.k == tNum {
		if f2.k == tPunct && (f2.s == ":" || f2.s == "," || f2.s == "}" || f2.s == "(") {
			return true
		}
		if f1.k == tIdent && (f1.s == "get" || f1.s == "set" || f1.s == "async" || f1.s == "static") && (f2.k == tIdent || f2.k == tStr || f2.k == tNum || isPunct(f2, "[")) {
			return true
		}
	}
	return isPunct(f1, "*")
}

func objectBracePrev(p token) bool {
	switch p.k {
	case tPunct:
		switch p.s {
		case ")", "]", "}", ";", "{", "=>", "":
			return false
		}
		return true
	case tIdent:
		switch p.s {
		case "return", "typeof", "in", "of", "instanceof", "new", "void", "delete", "throw", "case", "yield", "await", "var", "let", "const":
			return true
		}
		return false
	case tTemplate:
		return p.tmpl == 1 || p.tmpl == 2
	}
	return false
}

func identSet(toks []token, withStrings bool) map[string]bool {
	s := map[string]bool{}
	for _, t := range toks {
		switch t.k {
		case tIdent:
			s[t.s] = true
		case tStr:
			if withStrings && len(t.s) > 2 {
				body := t.s[1 : len(t.s)-1]
				ok := isIdentStart(body[0])
				for i := 1; ok && i < len(body); i++ {
					ok = isIdentPart(body[i])
				}
				if ok {
					s[body] = true
				}
			}
		}
	}
	return s
}

// labelNames returns the identifiers in label position (declarations and break/continue targets).
func labelNames(toks []token) map[string]bool {
	out := map[string]bool{}
	n := len(toks)
	for i, t := range toks {
		if t.k != tIdent || jsKeywords[t.s] {
			continue
		}
		if i > 0 && (isWord(toks[i-1], "break") || isWord(toks[i-1], "continue")) && !t.nl {
			out[t.s] = true
			continue
		}
		if i+1 < n && isPunct(toks[i+1], ":") {
			stmtPos := i == 0
			if i > 0 && t.nl {
				// ASI: a label may start a line after a complete expression statement
				p := toks[i-1]
				if p.k == tIdent || p.k == tNum || p.k == tStr || p.k == tRegex || p.k == tTemplate && (p.tmpl == 0 || p.tmpl == 3) || p.k == tPunct && (p.s == "]" || p.s == "++" || p.s == "--") {
					stmtPos = true
				}
			}
			if i > 0 && !stmtPos {
				p := toks[i-1]
				switch {
				case p.k == tPunct && (p.s == ";" || p.s == "}" || p.s == ")" || p.s == ":"):
					stmtPos = true
				case p.k == tPunct && p.s == "{":
					stmtPos = p.block
				case p.k == tIdent && (p.s == "else" || p.s == "do"):
					stmtPos = true
				}
				if p.k == tPunct && p.s == ":" {
					// `c ? a : b` / `{k: v: ...}` are not label chains unless the previous is a label too
					stmtPos = i >= 2 && toks[i-2].k == tIdent && out[toks[i-2].s]
				}
				if p.k == tPunct && p.s == ")" {
					// conditional operator: (x) ? (y) z : ... cannot occur; but `a?(b):c` has `)` before ':' not before IDENT
					stmtPos = true
				}
			}
			if stmtPos {
				out[t.s] = true
			}
		}
	}
	return out
}

type evaluator struct {
	pool       *pool
	timeout    int // ms for the input run
	outTimeout int // ms for each output run (0: 6x timeout, at least 2500)
}

func (ev *evaluator) outMs() int {
	if ev.outTimeout > 0 {
		return ev.outTimeout
	}
	if ev.timeout*6 < 2500 {
		return 2500
	}
	return ev.timeout * 6
}

// evalProgram evaluates the program under all configs with one runner round trip.
func (ev *evaluator) evalProgram(input string, probes []string, cfgs []config) []verdict {
	vs := make([]verdict, len(cfgs))
	if reEvalish.MatchString(input) {
		for i := range vs {
			vs[i] = verdict{reason: "eval-or-Function"}
		}
		return vs
	}
	inToks := tokenize(input)
	inFeat := features(inToks)
	var outs []string
	idx := map[string]int{}
	which := make([]int, len(cfgs))
	for i, c := range cfgs {
		which[i] = -1
		mr := minifyJS(input, c)
		switch {
		case mr.timeout:
			vs[i] = verdict{judged: true, kind: "minify-timeout", property: "C01", detail: "minifier did not return within 30s"}
			continue
		case mr.panicked != "":
			vs[i] = verdict{judged: true, kind: "panic", property: "C01", detail: mr.panicked}
			continue
		case mr.err != nil:
			vs[i] = verdict{reason: "minifier-rejects", detail: firstLine(mr.err.Error())}
			continue
		}
		vs[i].output = mr.out
		j, ok := idx[mr.out]
		if !ok {
			j = len(outs)
			idx[mr.out] = j
			outs = append(outs, mr.out)
		}
		which[i] = j
	}
	if len(outs) == 0 {
		return vs
	}
	if probes == nil {
		probes = deriveProbes(inToks)
	}
	rep, err := ev.pool.run(&runRequest{Input: input, Outs: outs, Probes: probes, Timeout: ev.timeout, OutTimeout: ev.outMs()})
	if err != nil {
		for i := range vs {
			if which[i] >= 0 {
				vs[i] = verdict{reason: "runner-failure", detail: err.Error(), output: vs[i].output}
			}
		}
		return vs
	}
	for i, c := range cfgs {
		if which[i] < 0 {
			continue
		}
		v := &vs[i]
		v.inputStat = rep.In
		o := rep.Outs[which[i]]
		switch rep.In.Status {
		case "syntax":
			v.reason = "input-syntax-error"
			v.detail = rep.In.Msg
			continue
		case "timeout":
			v.reason = "input-timeout"
		case "tdz":
			v.reason = "input-tdz"
		case "stack":
			v.reason = "input-stack-overflow"
		case "traceoverflow":
			v.reason = "input-trace-overflow"
		case "probe-failure":
			v.reason = "probe-failure"
		case "reflection":
			v.reason = "input-source-text-reflection"
		case "errmsg":
			v.reason = "input-error-message-reflection"
		}
		// C09: output compiles and is accepted again (judged whenever the input parses)
		if !o.Compile {
			v.judged, v.reason = true, ""
			v.kind, v.property, v.detail = "syntax", "C09", o.Detail
			continue
		}
		if v.reason != "" {
			continue
		}
		v.judged = true
		if o.Diff != "" {
			v.kind, v.property, v.detail = o.Diff, "C01", o.Detail
			continue
		}
		if mr2 := minifyJS(v.output, c); mr2.err != nil || mr2.panicked != "" || mr2.timeout {
			v.kind, v.property = "reaccept", "C09"
			if mr2.err != nil {
				v.detail = firstLine(mr2.err.Error())
			} else {
				v.detail = "panic/timeout on second pass: " + mr2.panicked
			}
			continue
		}
		outToks := tokenize(v.output)
		// C16
		if c.Version != 0 {
			outFeat := features(outToks)
			var bad []string
			inputIsES5 := len(inFeat) == 0
			for f, year := range outFeat {
				if year > c.Version && inFeat[f] == 0 {
					if (f == "shorthand-property" || f == "destructuring" || f == "es2015-declarations") && !inputIsES5 {
						continue // heuristic detection: only trusted when the input is plain ES5
					}
					bad = append(bad, f)
				}
			}
			if len(bad) > 0 {
				sort.Strings(bad)
				v.kind, v.property = "version:"+bad[0], "C16"
				v.detail = fmt.Sprintf("output for Version %d uses %s which the input does not", c.Version, strings.Join(bad, ","))
				continue
			}
		}
		// C02
		if c.Keep {
			allowed := identSet(inToks, true)
			allowed["NaN"] = true
			var bad []string
			for id := range identSet(outToks, false) {
				if !allowed[id] && !jsKeywords[id] {
					bad = append(bad, id)
				}
			}
			if len(bad) > 0 {
				sort.Strings(bad)
				v.kind, v.property = "idents", "C02"
				v.detail = "KeepVarNames output introduces identifiers: " + strings.Join(bad, ",")
				continue
			}
		}
		{
			inL := labelNames(inToks)
			var bad []string
			for l := range labelNames(outToks) {
				if !inL[l] {
					bad = append(bad, l)
				}
			}
			if len(bad) > 0 {
				sort.Strings(bad)
				v.kind, v.property = "labels", "C02"
				v.detail = "label names in the output that are not labels of the input: " + clip(strings.Join(bad, ","), 200)
				continue
			}
		}
	}
	return vs
}

func firstLine(s string) string {
	if i := strings.IndexByte(s, '\n'); i >= 0 {
		s = s[:i]
	}
	return clip(s, 200)
}

func clip(s string, n int) string {
	if len(s) > n {
		return s[:n] + "..."
	}
	return s
}

// deriveProbes (witness mode / shrinking): every identifier of the input may be a top-level
// lexical binding; the runner probes them with typeof after the run.
func deriveProbes(toks []token) []string {
	seen := map[string]bool{}
	var out []string
	for i, t := range toks {
		if t.k != tIdent || jsKeywords[t.s] || seen[t.s] {
			continue
		}
		if i > 0 && (isPunct(toks[i-1], ".") || isPunct(toks[i-1], "?.")) {
			continue
		}
		if i > 0 && (isWord(toks[i-1], "let") || isWord(toks[i-1], "const") || isWord(toks[i-1], "class") || isPunct(toks[i-1], ",") || isPunct(toks[i-1], "[") || isPunct(toks[i-1], "{") || isPunct(toks[i-1], ":")) {
			seen[t.s] = true
			out = append(out, t.s)
			if len(out) >= 60 {
				break
			}
		}
	}
	return out
}
