package main

// Grammar-directed generator of deterministic, terminating ECMAScript programs.
// Expressions are built as (text, precedence) pairs and parenthesised only where the grammar
// requires it (plus a few random redundant groups) so that the precedence/associativity
// printing of the minifier is exercised.  A light kind discipline (num/str/bool/obj/arr/fn/big)
// keeps most programs from dying early with a TypeError while still producing some.
// By default every shape listed in known.go (K01..K38, N01..) is avoided by construction and
// additionally rejected by scanKnown(); with known=true they may be produced.

import (
	"fmt"
	"strings"

	"verifharness/internal/vh"
)

type kind int

const (
	kAny kind = iota // any primitive or plain data object (never a function, never a BigInt)
	kNum
	kStr
	kBool
	kObj
	kArr
	kFn
	kBig
	kCls
)

type variable struct {
	name  string
	k     kind
	mut   bool   // may be assigned by generated code
	decl  string // var let const param fn class global catch
	arity int    // for kFn
	gen   bool   // generator function
	meths []string
}

type scope struct {
	vars   []*variable
	isFunc bool
}

type fctx struct {
	isFn      bool // return allowed
	isGen     bool
	isAsync   bool
	isArrow   bool
	method    bool // this is an object
	derived   bool // super.m() allowed
	strict    bool
	args      bool // `arguments` usable
	loop      int
	sw        int
	labels    []string // labels of enclosing labelled statements (break targets)
	loopLbl   []string // labels of enclosing labelled loops (continue targets)
	inFinally int
}

type gen struct {
	r      *vh.Rand
	level  int
	strict bool
	known  bool
	with   bool // program contains `with` (only valid for KeepVarNames configs)
	uid    int
	scopes []*scope
	fn     *fctx
	kinds  map[string]int
	budget int
	probes []string
	noIn   int
	bigs   int
	ws     int // whitespace/comment noise level 0..2
}

type ex struct {
	s      string
	p      int
	coal   bool // top-level ?? (cannot be mixed with || && without parentheses)
	lor    bool // top-level || or &&
	opt    bool // optional chain at member level: must not be wrapped and continued
	call   bool // contains a call at member level (cannot be a `new` callee without parens)
	num    bool // plain decimal integer literal (needs care before '.')
	numlit bool // any numeric literal
}

const (
	pComma   = 1
	pAssign  = 2
	pCond    = 3
	pOr      = 5
	pAnd     = 6
	pBitOr   = 7
	pBitXor  = 8
	pBitAnd  = 9
	pEq      = 10
	pRel     = 11
	pShift   = 12
	pAdd     = 13
	pMul     = 14
	pExp     = 15
	pUnary   = 16
	pPostfix = 17
	pNew     = 18
	pCall    = 19
	pPrimary = 20
)

type globalInfo struct {
	name string
	k    kind
}

// kept in sync with runner.js mkSandbox
var globalsTable = []globalInfo{
	{"g0", kNum}, {"g1", kStr}, {"g2", kAny}, {"g3", kAny}, {"g4", kObj}, {"g5", kArr},
	{"e", kNum}, {"t", kStr}, {"n", kAny}, {"s", kObj}, {"o", kObj}, {"i", kNum}, {"a", kArr}, {"r", kBool},
	{"c", kAny}, {"l", kNum}, {"d", kStr}, {"u", kNum}, {"ee", kNum}, {"te", kStr}, {"et", kNum}, {"tt", kObj},
}

func newGen(r *vh.Rand, known bool) *gen {
	g := &gen{r: r, known: known, kinds: map[string]int{}}
	x := r.Intn(100)
	switch {
	case x < 14:
		g.level = 5
	case x < 28:
		g.level = 2015
	case x < 34:
		g.level = 2016
	case x < 40:
		g.level = 2017
	case x < 46:
		g.level = 2018
	case x < 52:
		g.level = 2019
	case x < 66:
		g.level = 2020
	case x < 76:
		g.level = 2021
	default:
		g.level = 2022
	}
	g.strict = r.Chance(1, 3)
	g.ws = r.Intn(3)
	top := &scope{isFunc: true}
	for _, gi := range globalsTable {
		top.vars = append(top.vars, &variable{name: gi.name, k: gi.k, mut: true, decl: "global"})
	}
	g.scopes = []*scope{top}
	g.fn = &fctx{strict: g.strict}
	return g
}

func (g *gen) strictNow() bool { return g.strict || g.fn != nil && g.fn.strict }

func (g *gen) kindHit(k string) { g.kinds[k]++ }

func (g *gen) fresh(prefix string) string {
	g.uid++
	return fmt.Sprintf("%s%d", prefix, g.uid)
}

func (g *gen) push(isFunc bool) { g.scopes = append(g.scopes, &scope{isFunc: isFunc}) }
func (g *gen) pop()             { g.scopes = g.scopes[:len(g.scopes)-1] }
func (g *gen) cur() *scope      { return g.scopes[len(g.scopes)-1] }
func (g *gen) funcScope() *scope {
	for i := len(g.scopes) - 1; i >= 0; i-- {
		if g.scopes[i].isFunc {
			return g.scopes[i]
		}
	}
	return g.scopes[0]
}
func (g *gen) declare(v *variable) *variable {
	if v.decl == "var" {
		fs := g.funcScope()
		fs.vars = append(fs.vars, v)
		// also make it visible in the current block chain (it is: inner scopes see outer ones)
		return v
	}
	g.cur().vars = append(g.cur().vars, v)
	return v
}

func (g *gen) visible(pred func(*variable) bool) []*variable {
	var out []*variable
	seen := map[string]bool{}
	for i := len(g.scopes) - 1; i >= 0; i-- {
		vs := g.scopes[i].vars
		for j := len(vs) - 1; j >= 0; j-- {
			v := vs[j]
			if seen[v.name] {
				continue
			}
			seen[v.name] = true
			if pred(v) {
				out = append(out, v)
			}
		}
	}
	return out
}

// pickVar prefers locals over globals.
func (g *gen) pickVar(pred func(*variable) bool) *variable {
	vs := g.visible(pred)
	if len(vs) == 0 {
		return nil
	}
	var locals []*variable
	for _, v := range vs {
		if v.decl != "global" {
			locals = append(locals, v)
		}
	}
	if len(locals) > 0 && g.r.Chance(3, 4) {
		// bias to recent declarations
		if g.r.Bool() {
			return locals[g.r.Intn((len(locals)+1)/2)]
		}
		return locals[g.r.Intn(len(locals))]
	}
	return vs[g.r.Intn(len(vs))]
}

func kindOK(have, want kind) bool {
	if have > kCls {
		return false
	}
	if want == kAny {
		return have != kFn && have != kBig && have != kCls
	}
	if want == kObj {
		return have == kObj || have == kArr
	}
	return have == want
}

// ---------- low level text helpers ----------

func needSpace(a, b string) bool {
	if a == "" || b == "" {
		return false
	}
	la, fb := a[len(a)-1], b[0]
	if isIdentPart(la) && isIdentPart(fb) {
		return true
	}
	if la == '+' && fb == '+' || la == '-' && fb == '-' || la == '/' && (fb == '/' || fb == '*') {
		return true
	}
	if la == '<' && strings.HasPrefix(b, "!--") {
		return true
	}
	if strings.HasSuffix(a, "--") && fb == '>' {
		return true
	}
	if isDigit(la) && fb == '.' {
		return true
	}
	if la == '.' && len(a) >= 2 && isDigit(a[len(a)-2]) && isIdentPart(fb) {
		return true
	}
	return false
}

func cat(parts ...string) string {
	var b strings.Builder
	last := ""
	for _, p := range parts {
		if p == "" {
			continue
		}
		if needSpace(last, p) {
			b.WriteByte(' ')
		}
		b.WriteString(p)
		last = p
	}
	return b.String()
}

// sp returns optional insignificant whitespace (or a comment) that is safe between two
// tokens of an expression where no restricted production applies.
func (g *gen) sp() string {
	if g.ws == 0 {
		return ""
	}
	switch g.r.Intn(12 * (3 - g.ws)) {
	case 0, 1, 2:
		return " "
	case 3:
		return "\n"
	case 4:
		if g.r.Chance(1, 3) {
			return g.r.Pick("/*c*/", "/* a\n b */", " // c\n", "\t", "/**/", "  ")
		}
		return " "
	}
	return ""
}

// w prints e so that it can be used where precedence min is required.
func (g *gen) w(e ex, min int) string {
	if e.p < min {
		return "(" + e.s + ")"
	}
	if !e.opt && g.r.Chance(1, 30) {
		return "(" + g.sp() + e.s + g.sp() + ")"
	}
	return e.s
}

func atom(s string) ex { return ex{s: s, p: pPrimary} }

func startsWithAny(s string, prefixes ...string) bool {
	s = strings.TrimLeft(s, " \n\t")
	for _, p := range prefixes {
		if strings.HasPrefix(s, p) {
			if isIdentPart(p[len(p)-1]) && len(s) > len(p) && isIdentPart(s[len(p)]) {
				continue
			}
			return true
		}
	}
	return false
}

// ---------- program ----------

type program struct {
	Text    string
	Strict  bool
	Level   int
	Probes  []string
	Kinds   map[string]int
	HasWith bool
}

func generateProgram(r *vh.Rand, known bool) program {
	g := newGen(r, known)
	g.budget = 60 + r.Intn(160)
	if r.Chance(1, 12) {
		g.budget += 300
	}
	var b strings.Builder
	if g.strict {
		b.WriteString(r.Pick("\"use strict\";", "'use strict';", "'use strict'\n", "\"use strict\"\n;"))
	}
	n := 2 + r.Intn(5)
	body := g.stmtList(n, 3, true)
	b.WriteString(body)
	return program{Text: b.String(), Strict: g.strict, Level: g.level, Probes: g.probes, Kinds: g.kinds, HasWith: g.with}
}
