package main

import (
	"fmt"
	"strings"
)

var dataProps = []string{"a", "b", "c", "x", "y"}

func (g *gen) host() string { return fmt.Sprintf("h%d", g.r.Intn(4)) }

func (g *gen) varOf(k kind) *variable {
	return g.pickVar(func(v *variable) bool { return kindOK(v.k, k) })
}
func (g *gen) mutVarOf(k kind) *variable {
	return g.pickVar(func(v *variable) bool {
		if !v.mut {
			return false
		}
		if k == kAny {
			return v.k == kAny
		}
		return v.k == k
	})
}

// leaf returns a variable reference or literal of the wanted kind.
func (g *gen) leaf(k kind) ex {
	r := g.r
	if k == kAny {
		switch r.Intn(12) {
		case 0, 1, 2:
			k = kNum
		case 3, 4:
			k = kStr
		case 5:
			k = kBool
		case 6:
			return atom(r.Pick("null", "undefined", "null", "undefined", "void 0", "NaN"))
		case 7:
			k = kObj
		default:
			if v := g.varOf(kAny); v != nil {
				return atom(v.name)
			}
			k = kNum
		}
	}
	if k != kBig && k != kCls && r.Chance(3, 5) {
		if v := g.varOf(k); v != nil {
			return atom(v.name)
		}
	}
	switch k {
	case kNum:
		if r.Chance(1, 25) {
			return atom(r.Pick("Infinity", "NaN", "undefined"))
		}
		e := atom(g.numLit())
		e.numlit = true
		if isPlainInt(e.s) {
			e.num = true
		}
		return e
	case kStr:
		return atom(g.strLit())
	case kBool:
		return atom(r.Pick("true", "false"))
	case kObj:
		if v := g.varOf(kObj); v != nil && r.Bool() {
			return atom(v.name)
		}
		return atom(r.Pick("{}", "{a:1}", "{a:1,b:2}", "[]", "[1]", "{a:{b:1}}", "{x:0,y:\"y\"}"))
	case kArr:
		if v := g.varOf(kArr); v != nil && r.Bool() {
			return atom(v.name)
		}
		return atom(r.Pick("[]", "[1]", "[1,2]", "[1,2,3]", "[\"a\",\"b\"]", "[0,,2]", "[[1],[2]]", "[null,undefined]"))
	case kFn:
		if v := g.varOf(kFn); v != nil && !v.gen {
			return atom(v.name)
		}
		if g.level >= 2015 && r.Bool() {
			return ex{s: "()=>1", p: pAssign}
		}
		return atom("function(){return 1}")
	case kBig:
		if v := g.varOf(kBig); v != nil && r.Bool() {
			return atom(v.name)
		}
		return atom(g.bigLit())
	case kCls:
		if v := g.varOf(kCls); v != nil {
			return atom(v.name)
		}
		return atom("Object")
	}
	return atom("0")
}

// isPlainInt: decimal integer literal (digits and separators): a following '.' would be
// taken as its decimal point.
func isPlainInt(s string) bool {
	if s == "" || !isDigit(s[0]) {
		return false
	}
	for i := 0; i < len(s); i++ {
		if !isDigit(s[i]) && s[i] != '_' {
			return false
		}
	}
	return true
}

func (g *gen) bin(l ex, op string, r ex, p int, rightAssoc bool) ex {
	if l.p == pComma && !g.known {
		l = ex{s: "h8((" + l.s + "))", p: pCall, call: true} // N10: (a,b) OP c loses its group
	}
	lm, rm := p, p+1
	if rightAssoc {
		lm, rm = p+1, p
	}
	ls, rs := g.w(l, lm), g.w(r, rm)
	if isIdentPart(op[0]) {
		return ex{s: cat(ls, g.spNoNL(), op, g.spNoNL(), rs), p: p}
	}
	return ex{s: cat(ls, g.sp(), op, g.sp(), rs), p: p}
}

func (g *gen) spNoNL() string {
	s := g.sp()
	if strings.Contains(s, "\n") {
		return " "
	}
	return s
}

// args returns an argument list "(a,b)" with n arguments.
func (g *gen) args(n, d int) string {
	var parts []string
	for i := 0; i < n; i++ {
		if g.level >= 2015 && g.r.Chance(1, 14) {
			parts = append(parts, "..."+g.w(g.expr(kArr, d-1), pCond)) // V8 mis-parses f(a>>=0,...[b]=c)
			continue
		}
		parts = append(parts, g.w(g.expr(kAny, d-1), pAssign))
	}
	s := strings.Join(parts, ","+g.sp())
	if n > 0 && g.level >= 2017 && g.r.Chance(1, 25) {
		s += ","
	}
	return "(" + s + ")"
}

func (g *gen) hostCall(d int) ex {
	return ex{s: g.host() + g.args(g.r.Intn(3), d), p: pCall, call: true}
}

// member builds obj.prop / obj["prop"] / obj?.prop
func (g *gen) member(obj ex, prop string, optional bool) ex {
	r := g.r
	os := g.w(obj, pCall)
	if obj.p == pNew {
		os = "(" + obj.s + ")"
	}
	if obj.num {
		switch r.Intn(3) {
		case 0:
			os = obj.s + "."
		case 1:
			os = "(" + obj.s + ")"
		default:
			os = obj.s + " "
		}
	}
	e := ex{p: pCall, opt: obj.opt || optional, call: obj.call}
	if obj.numlit && !obj.num && !g.known && strings.HasPrefix(os, "(") {
		os = obj.s // N07: (1.0).a / (1n).a are printed as 1.a / 1n..a
	}
	isIdent := prop != "" && isIdentStart(prop[0]) && !strings.ContainsAny(prop, "-. ")
	if optional {
		if isIdent && r.Chance(3, 4) {
			e.s = os + "?." + prop
		} else {
			e.s = os + "?.[" + quoteProp(prop, r.Bool()) + "]"
		}
		return e
	}
	if isIdent && r.Chance(3, 4) {
		e.s = os + g.sp() + "." + prop
		if obj.num && strings.HasSuffix(os, ".") {
			e.s = os + "." + prop
		}
	} else {
		if obj.num && !strings.HasSuffix(os, ")") {
			os = obj.s
		}
		if obj.numlit && isIdent && !g.known {
			// N04: 1["a"] is printed as 1.a
			if obj.num {
				return ex{s: "(" + obj.s + ")." + prop, p: pCall}
			}
			return ex{s: obj.s + "." + prop, p: pCall}
		}
		e.s = os + "[" + quoteProp(prop, r.Bool()) + "]"
	}
	return e
}

func quoteProp(p string, single bool) string {
	if isPlainInt(p) {
		return p
	}
	if single {
		return "'" + p + "'"
	}
	return "\"" + p + "\""
}

func (g *gen) dataProp() string {
	r := g.r
	if r.Chance(1, 10) {
		return r.Pick("0", "1", "2", "a-b", "length")
	}
	if g.known && r.Chance(1, 10) {
		return r.Pick("1.0", ".5", "0.50", "1e3")
	}
	return dataProps[r.Intn(len(dataProps))]
}

// expr generates an expression of (approximately) kind k.
func (g *gen) expr(k kind, d int) ex {
	g.budget--
	if d <= 0 || g.budget <= 0 {
		return g.leaf(k)
	}
	r := g.r
	switch r.Intn(22) {
	case 0:
		return g.condExpr(k, d)
	case 1:
		if r.Bool() {
			return g.commaExpr(k, d)
		}
	case 2:
		if e, ok := g.assignExpr(k, d); ok {
			return e
		}
	case 3:
		return g.logicalExpr(k, d)
	case 4:
		if r.Chance(1, 3) {
			return g.iife(k, d)
		}
		if r.Chance(1, 2) {
			return ex{s: "h8(" + g.w(g.expr(k, d-1), pAssign) + ")", p: pCall, call: true}
		}
	}
	switch k {
	case kNum:
		return g.numExpr(d)
	case kStr:
		return g.strExpr(d)
	case kBool:
		return g.boolExpr(d)
	case kObj:
		return g.objExpr(d)
	case kArr:
		return g.arrExpr(d)
	case kFn:
		return g.fnExpr(d)
	case kBig:
		return g.bigExpr(d)
	case kCls:
		return g.leaf(kCls)
	}
	return g.anyExpr(d)
}

func (g *gen) anyExpr(d int) ex {
	r := g.r
	switch r.Intn(24) {
	case 0, 1, 2, 3, 4:
		return g.numExpr(d)
	case 5, 6, 7:
		return g.strExpr(d)
	case 8, 9:
		return g.boolExpr(d)
	case 10:
		return g.objExpr(d)
	case 11:
		return g.arrExpr(d)
	case 12, 13:
		return g.hostCall(d)
	case 14:
		// call of a local function
		if v := g.varOf(kFn); v != nil && !v.gen {
			return ex{s: v.name + g.args(v.arity, d), p: pCall, call: true}
		}
		return g.hostCall(d)
	case 15, 16, 17:
		// property read
		obj := g.expr(kObj, d-1)
		if g.level >= 2020 && r.Chance(1, 3) {
			e := g.member(obj, g.dataProp(), true)
			if r.Bool() {
				e = g.member(e, g.dataProp(), r.Bool())
			}
			return e
		}
		e := g.member(obj, g.dataProp(), false)
		if g.level >= 2020 && r.Chance(1, 4) {
			e = g.member(e, g.dataProp(), true)
			if r.Chance(1, 3) {
				// optional call
				return ex{s: e.s + "?.()", p: pCall, opt: true, call: true}
			}
		}
		return e
	case 18:
		// computed index
		if r.Bool() {
			return ex{s: g.w(g.expr(kArr, d-1), pCall) + "[" + g.expr(kNum, d-1).s + "]", p: pCall}
		}
		return ex{s: g.w(g.expr(kObj, d-1), pCall) + "[" + g.expr(kStr, d-1).s + "]", p: pCall}
	case 19:
		// void of any operand (K03, repaired: the operand's calls must survive), else of something simple
		if r.Chance(1, 3) {
			return ex{s: cat("void", g.w(g.expr(kAny, d-1), pUnary)), p: pUnary}
		}
		switch r.Intn(3) {
		case 0:
			return ex{s: "void 0", p: pUnary}
		case 1:
			return ex{s: cat("void", g.hostCall(d).s), p: pUnary}
		default:
			if v := g.varOf(kAny); v != nil {
				return ex{s: cat("void", v.name), p: pUnary}
			}
			return ex{s: "void 0", p: pUnary}
		}
	case 20:
		if g.fn.isGen && g.fn.inFinally == 0 {
			switch r.Intn(3) {
			case 0:
				return ex{s: "yield", p: pAssign}
			case 1:
				return ex{s: cat("yield", g.w(g.expr(kAny, d-1), pAssign)), p: pAssign}
			default:
				return ex{s: cat("yield*", g.w(g.expr(kArr, d-1), pAssign)), p: pAssign}
			}
		}
		if g.fn.isAsync {
			return ex{s: cat("await", g.w(g.expr(kAny, d-1), pUnary)), p: pUnary}
		}
		return g.hostCall(d)
	case 21:
		if g.fn.method {
			return g.member(atom("this"), g.dataProp(), false)
		}
		if g.fn.args && !g.fn.isArrow {
			return atom(r.Pick("arguments[0]", "arguments.length", "arguments[1]"))
		}
		return g.leaf(kAny)
	case 22:
		// method call on an instance
		if v := g.pickVar(func(v *variable) bool { return v.k == kObj && len(v.meths) > 0 }); v != nil {
			m := v.meths[r.Intn(len(v.meths))]
			return ex{s: v.name + "." + m + g.args(r.Intn(2), d), p: pCall, call: true}
		}
		return g.leaf(kAny)
	}
	return g.leaf(kAny)
}

func (g *gen) numExpr(d int) ex {
	r := g.r
	switch r.Intn(30) {
	case 0, 1, 2, 3, 4, 5:
		ops := []struct {
			op string
			p  int
		}{{"+", pAdd}, {"-", pAdd}, {"*", pMul}, {"/", pMul}, {"%", pMul}, {"<<", pShift}, {">>", pShift}, {">>>", pShift}, {"&", pBitAnd}, {"|", pBitOr}, {"^", pBitXor}, {"-", pAdd}, {"*", pMul}}
		o := ops[r.Intn(len(ops))]
		return g.bin(g.expr(kNum, d-1), o.op, g.expr(kNum, d-1), o.p, false)
	case 6:
		if g.level >= 2016 {
			l := g.expr(kNum, d-1)
			if !g.known && (strings.HasPrefix(l.s, "++") || strings.HasPrefix(l.s, "--")) {
				l = g.leaf(kNum) // N06: (++a)**b is printed as ++a**b which the minifier's own parser rejects
			}
			ls := g.w(l, pPostfix)
			rr := g.expr(kNum, d-1)
			return ex{s: cat(ls, g.sp(), "**", g.sp(), g.w(rr, pExp)), p: pExp}
		}
		return g.bin(g.expr(kNum, d-1), "*", g.expr(kNum, d-1), pMul, false)
	case 7, 8:
		op := r.Pick("-", "+", "~", "-", "+")
		x := g.expr(kNum, d-1)
		return ex{s: cat(op, g.w(x, pUnary)), p: pUnary}
	case 9:
		op := r.Pick("-", "+", "~")
		x := g.expr(kAny, d-1)
		return ex{s: cat(op, g.w(x, pUnary)), p: pUnary}
	case 10, 11:
		if v := g.mutVarOf(kNum); v != nil {
			switch r.Intn(4) {
			case 0:
				return ex{s: "++" + v.name, p: pUnary}
			case 1:
				return ex{s: "--" + v.name, p: pUnary}
			case 2:
				return ex{s: v.name + "++", p: pPostfix}
			default:
				return ex{s: v.name + "--", p: pPostfix}
			}
		}
		return g.leaf(kNum)
	case 12, 13:
		if v := g.mutVarOf(kNum); v != nil {
			ops := []string{"+=", "-=", "*=", "/=", "%=", "<<=", ">>=", ">>>=", "&=", "|=", "^="}
			if g.level >= 2016 {
				ops = append(ops, "**=")
			}
			op := ops[r.Intn(len(ops))]
			return ex{s: cat(v.name, g.sp(), op, g.sp(), g.w(g.expr(kNum, d-1), pAssign)), p: pAssign}
		}
		return g.leaf(kNum)
	case 14:
		op := r.Pick("-", "*", "/", "%", "|", "&", "^", "<<", ">>>")
		p := map[string]int{"-": pAdd, "*": pMul, "/": pMul, "%": pMul, "|": pBitOr, "&": pBitAnd, "^": pBitXor, "<<": pShift, ">>>": pShift}[op]
		return g.bin(g.expr(kAny, d-1), op, g.expr(kAny, d-1), p, false)
	case 15:
		return g.member(g.expr(kStr, d-1), "length", false)
	case 16:
		return g.member(g.expr(kArr, d-1), "length", false)
	case 17:
		return ex{s: "h4" + g.args(r.Intn(2), d), p: pCall, call: true}
	case 18:
		fn := r.Pick("Math.max", "Math.min", "Math.floor", "Math.round", "Math.sign", "Math.ceil", "Math.sqrt", "Math.hypot")
		n := 1
		if fn == "Math.max" || fn == "Math.min" || fn == "Math.hypot" {
			n = 2
		}
		parts := []string{}
		for i := 0; i < n; i++ {
			parts = append(parts, g.w(g.expr(kNum, d-1), pAssign))
		}
		if r.Chance(1, 10) {
			// Math.pow of numbers: rewritten to ** from ES2016 on only (a version gate), value-preserving for numbers
			return ex{s: "Math.pow(" + g.w(g.expr(kNum, d-1), pAssign) + "," + g.w(g.expr(kNum, d-1), pAssign) + ")", p: pCall, call: true}
		}
		if g.known && r.Chance(1, 3) {
			switch r.Intn(4) {
			case 0:
				return ex{s: "Math.abs(" + g.leaf(kAny).s + ")", p: pCall, call: true}
			case 1:
				return ex{s: "Math.trunc(" + g.w(g.expr(kAny, d-1), pAssign) + ")", p: pCall, call: true}
			case 2:
				return ex{s: "Math.pow(" + g.w(g.expr(kNum, d-1), pAssign) + "," + g.w(g.expr(kNum, d-1), pAssign) + ")", p: pCall, call: true}
			default:
				return ex{s: "+isNaN(" + g.leaf(kAny).s + ")", p: pUnary}
			}
		}
		return ex{s: fn + "(" + strings.Join(parts, ",") + ")", p: pCall, call: true}
	case 19:
		switch r.Intn(4) {
		case 0:
			return ex{s: "parseInt(" + g.w(g.expr(kStr, d-1), pAssign) + ",10)", p: pCall, call: true}
		case 1:
			return ex{s: "parseFloat(" + g.w(g.expr(kStr, d-1), pAssign) + ")", p: pCall, call: true}
		case 2:
			return ex{s: "Number(" + r.Pick("true", "false", "null", "1.50", "10", "0x10", "0b11", "\"12\"", "undefined", "1e3", "0.10") + ")", p: pCall, call: true}
		default:
			return ex{s: "Number(" + g.w(g.expr(kAny, d-1), pAssign) + ")", p: pCall, call: true}
		}
	case 20:
		s := g.expr(kStr, d-1)
		if r.Bool() {
			return ex{s: g.w(s, pCall) + ".charCodeAt(" + r.Pick("0", "1", "") + ")", p: pCall, call: true}
		}
		return ex{s: g.w(s, pCall) + ".indexOf(" + g.w(g.expr(kStr, d-1), pAssign) + ")", p: pCall, call: true}
	case 21:
		// relational/equality results coerced to number through unary plus
		return ex{s: cat("+", g.w(g.boolExpr(d-1), pUnary)), p: pUnary}
	case 22:
		// division / regex ambiguity
		re := g.regexCase()
		l := g.expr(kNum, d-1)
		return ex{s: cat(g.w(l, pMul), g.sp(), "/", g.sp(), re.re+".exec("+re.subj+").length"), p: pMul}
	case 23:
		if g.level >= 2020 && g.bigs >= 0 {
			// BigInt compared or converted to number
			return ex{s: "Number(" + g.w(g.expr(kBig, d-1), pAssign) + ")", p: pCall, call: true}
		}
	}
	return g.leaf(kNum)
}

func (g *gen) bigExpr(d int) ex {
	r := g.r
	switch r.Intn(8) {
	case 0, 1, 2:
		op := r.Pick("+", "-", "*", "/", "%", "&", "|", "^", "<<")
		p := map[string]int{"+": pAdd, "-": pAdd, "*": pMul, "/": pMul, "%": pMul, "|": pBitOr, "&": pBitAnd, "^": pBitXor, "<<": pShift}[op]
		rr := g.expr(kBig, d-1)
		if op == "/" || op == "%" {
			rr = atom(r.Pick("3n", "7n", "0x10n"))
		}
		if op == "<<" {
			rr = atom(r.Pick("1n", "3n"))
		}
		return g.bin(g.expr(kBig, d-1), op, rr, p, false)
	case 3:
		return ex{s: cat("-", g.w(g.expr(kBig, d-1), pUnary)), p: pUnary}
	case 4:
		return ex{s: cat(g.w(g.expr(kBig, d-1), pPostfix), "**", r.Pick("2n", "3n", "0n")), p: pExp}
	case 5:
		return ex{s: "BigInt(" + r.Pick("1", "10", "\"123\"", "0x10") + ")", p: pCall, call: true}
	}
	return g.leaf(kBig)
}

func (g *gen) templateLit(d int) string {
	r := g.r
	var b strings.Builder
	b.WriteByte('`')
	n := r.Intn(4)
	b.WriteString(g.strBody('`', r.Intn(4)))
	for i := 0; i < n; i++ {
		var e ex
		if r.Chance(1, 5) {
			e = g.commaExpr(kAny, d-1)
		} else {
			e = g.expr(g.primKind(), d-1)
		}
		b.WriteString("${" + g.sp() + e.s + g.sp() + "}")
		body := g.strBody('`', r.Intn(4))
		b.WriteString(body)
	}
	b.WriteByte('`')
	return b.String()
}

func (g *gen) primKind() kind {
	switch g.r.Intn(6) {
	case 0, 1:
		return kNum
	case 2, 3:
		return kStr
	case 4:
		return kBool
	}
	return kAny
}

func (g *gen) strExpr(d int) ex {
	r := g.r
	switch r.Intn(24) {
	case 0, 1, 2, 3:
		if r.Bool() {
			return g.bin(g.expr(kStr, d-1), "+", g.expr(g.primKind(), d-1), pAdd, false)
		}
		return g.bin(g.expr(g.primKind(), d-1), "+", g.expr(kStr, d-1), pAdd, false)
	case 4:
		// literal concatenation chains that the minifier merges
		n := 2 + r.Intn(3)
		e := atom(g.strLit())
		if r.Chance(1, 3) {
			// (K136 repaired) the chain starts below another operator: x - "1" + "2" must keep the subtraction
			op := r.Pick("-", "*", "/", "%")
			pp := map[string]int{"-": pAdd, "*": pMul, "/": pMul, "%": pMul}[op]
			e = g.bin(g.leaf(kNum), op, atom("\""+r.Pick("1", "2", "10", "0.5")+"\""), pp, false)
		}
		for i := 1; i < n; i++ {
			var rr ex
			if r.Chance(1, 4) {
				rr = g.leaf(g.primKind())
			} else {
				rr = atom(g.strLit())
			}
			if r.Chance(1, 5) {
				e = g.bin(rr, "+", e, pAdd, false)
			} else {
				e = g.bin(e, "+", rr, pAdd, false)
			}
		}
		return e
	case 5, 6, 7:
		if g.level >= 2015 {
			return atom(g.templateLit(d))
		}
		return g.bin(g.expr(kStr, d-1), "+", g.expr(kNum, d-1), pAdd, false)
	case 8, 9:
		var x ex
		if r.Chance(1, 4) {
			x = g.leaf(kFn)
		} else {
			x = g.expr(kAny, d-1)
		}
		if r.Chance(1, 6) {
			// typeof of an undeclared name must not throw
			x = atom(r.Pick("nope", "undeclared1", "zz9"))
		}
		return ex{s: cat("typeof", g.w(x, pUnary)), p: pUnary}
	case 10:
		return ex{s: "String(" + g.w(g.expr(g.primKind(), d-1), pAssign) + ")", p: pCall, call: true}
	case 11, 12:
		s := g.expr(kStr, d-1)
		m := r.Pick(".toUpperCase()", ".toLowerCase()", ".slice(1)", ".charAt(0)", ".trim()", ".substring(0,2)", ".concat(\"z\")", ".repeat(2)", ".padStart(3)", "[0]")
		if g.level < 2015 && (m == ".repeat(2)" || m == ".padStart(3)") {
			m = ".slice(0,1)"
		}
		return ex{s: g.w(s, pCall) + m, p: pCall, call: true}
	case 13:
		re := g.regexCase()
		switch r.Intn(3) {
		case 0:
			return ex{s: re.subj + ".replace(" + re.re + "," + g.plainStr() + ")", p: pCall, call: true}
		case 1:
			return ex{s: re.subj + ".split(" + re.re + ").join(\"|\")", p: pCall, call: true}
		default:
			return ex{s: "String(" + re.re + ".exec(" + re.subj + "))", p: pCall, call: true}
		}
	case 14:
		return ex{s: "h5" + g.args(r.Intn(2), d), p: pCall, call: true}
	case 15:
		if r.Chance(1, 4) {
			// a parenthesised decimal literal whose shortened form is a plain integer, followed by a member access: the
			// printer must write a second dot (or keep the parentheses)
			lit := r.Pick("1.0", "10.0", "5.", "2.00", "100.0", "3.0e0", "12.50e1", "7.0", "0.0", "1e0", "20e-1", "0.5", "2e3", "1.5")
			acc := r.Pick(".toFixed(1)", ".toString()", ".toString(2)", ".constructor===Number", "[\"toFixed\"](2)", ".toFixed(2)")
			if g.level >= 2020 && r.Chance(1, 6) {
				acc = "?.toString()"
			}
			return ex{s: "(" + lit + ")" + acc, p: pCall, call: true}
		}
		n := g.expr(kNum, d-1)
		ns := g.w(n, pCall)
		if n.num {
			ns = "(" + n.s + ")"
		} else if n.numlit && !g.known {
			ns = n.s
			if strings.HasSuffix(ns, ".") {
				ns += " "
			}
		}
		return ex{s: ns + r.Pick(".toFixed(1)", ".toString()", ".toString(2)", ".toString(16)", ".toPrecision(3)", ".toExponential(1)"), p: pCall, call: true}
	case 16:
		// numeric literal followed by a member access
		lit := g.numLit()
		e := atom(lit)
		e.num = isPlainInt(lit)
		e.numlit = true
		if strings.HasSuffix(lit, ".") || strings.ContainsAny(lit, "xXoObB") && false {
			return atom("\"q\"")
		}
		m := g.member(e, r.Pick("toFixed", "toString"), false)
		return ex{s: m.s + "()", p: pCall, call: true}
	case 17:
		return ex{s: g.w(g.expr(kArr, d-1), pCall) + ".join(" + r.Pick("", "\"-\"", "\"\"", "','") + ")", p: pCall, call: true}
	case 18:
		return ex{s: "JSON.stringify(" + g.w(g.expr(kAny, d-1), pAssign) + ")", p: pCall, call: true}
	case 19:
		if g.level >= 2015 {
			// raw text of tagged templates must not be altered
			return ex{s: "String.raw" + g.templateLit(d), p: pCall, call: true}
		}
	case 20:
		if g.level >= 2020 {
			b := g.expr(kBig, d-1)
			bs := g.w(b, pCall)
			if b.p == pPrimary && !g.known {
				bs = b.s
			}
			return ex{s: bs + ".toString()", p: pCall, call: true}
		}
	}
	return g.leaf(kStr)
}

var cmpOps = []string{"<", ">", "<=", ">="}
var eqOps = []string{"==", "!=", "===", "!=="}

func (g *gen) boolExpr(d int) ex {
	r := g.r
	switch r.Intn(28) {
	case 0, 1, 2:
		k := g.primKind()
		if r.Chance(1, 4) {
			k = kAny
		}
		return g.bin(g.expr(k, d-1), cmpOps[r.Intn(4)], g.expr(k, d-1), pRel, false)
	case 3, 4, 5:
		return g.bin(g.expr(kAny, d-1), eqOps[r.Intn(4)], g.expr(kAny, d-1), pEq, false)
	case 6, 7, 8:
		x := g.expr(kAny, d-1)
		if r.Chance(1, 4) {
			x = g.boolExpr(d - 1)
		}
		if g.isEmptyStr(x) && !g.known {
			x = atom("\"a\"")
		}
		return ex{s: cat("!", g.w(x, pUnary)), p: pUnary}
	case 9:
		x := g.expr(kAny, d-1)
		if g.isEmptyStr(x) && !g.known {
			x = atom("0")
		}
		return ex{s: cat("!!", g.w(x, pUnary)), p: pUnary}
	case 10:
		// De Morgan candidates
		inner := g.logicalOf(kBool, d-1)
		return ex{s: "!(" + inner.s + ")", p: pUnary}
	case 11:
		if g.noIn == 0 {
			key := g.expr(kStr, d-1)
			if r.Bool() {
				key = atom(g.plainStr())
			}
			return ex{s: cat(g.w(key, pRel), "in", g.w(g.expr(kObj, d-1), pShift)), p: pRel}
		}
	case 12:
		c := r.Pick("Object", "Array")
		if v := g.varOf(kCls); v != nil && r.Bool() {
			c = v.name
		}
		return ex{s: cat(g.w(g.expr(kAny, d-1), pRel), "instanceof", c), p: pRel}
	case 13:
		re := g.regexCase()
		if r.Chance(1, 3) {
			return ex{s: re.re + ".test(" + g.w(g.expr(kStr, d-1), pAssign) + ")", p: pCall, call: true}
		}
		return ex{s: re.re + ".test(" + re.subj + ")", p: pCall, call: true}
	case 14:
		return ex{s: "Array.isArray(" + g.w(g.expr(kAny, d-1), pAssign) + ")", p: pCall, call: true}
	case 15:
		return ex{s: "h7" + g.args(r.Intn(2), d), p: pCall, call: true}
	case 16, 17:
		// typeof comparisons (=== is shortened to ==)
		x := g.leaf(kAny)
		if r.Chance(1, 3) {
			x = g.leaf(kFn)
		}
		ty := r.Pick("\"string\"", "\"number\"", "\"undefined\"", "\"object\"", "\"function\"", "'boolean'")
		op := eqOps[r.Intn(4)]
		if r.Bool() {
			return ex{s: cat("typeof", g.w(x, pUnary), g.sp(), op, g.sp(), ty), p: pEq}
		}
		return ex{s: cat(ty, g.sp(), op, g.sp(), "typeof", g.w(x, pUnary)), p: pEq}
	case 18, 19:
		// null / undefined tests on one variable (rewritten to ==null)
		v := g.varOf(kAny)
		if v == nil {
			break
		}
		n := v.name
		switch r.Intn(8) {
		case 0:
			return ex{s: n + "==null", p: pEq}
		case 1:
			return ex{s: n + "!=null", p: pEq}
		case 2:
			return ex{s: n + "===null||" + n + "===undefined", p: pOr, lor: true}
		case 3:
			return ex{s: n + "!==null&&" + n + "!==undefined", p: pAnd, lor: true}
		case 4:
			return ex{s: "undefined===" + n + "||null===" + n, p: pOr, lor: true}
		case 5:
			return ex{s: n + "===void 0", p: pEq}
		case 6:
			return ex{s: n + "==undefined||" + n + "==null", p: pOr, lor: true}
		default:
			return ex{s: n + "!==undefined&&null!==" + n, p: pAnd, lor: true}
		}
	case 20:
		return g.logicalOf(kBool, d)
	case 21:
		s := g.expr(kStr, d-1)
		m := r.Pick(".includes", ".startsWith", ".endsWith")
		if g.level < 2015 {
			return ex{s: g.w(s, pCall) + ".indexOf(" + g.plainStr() + ")>=0", p: pRel}
		}
		return ex{s: g.w(s, pCall) + m + "(" + g.plainStr() + ")", p: pCall, call: true}
	case 22:
		if v := g.varOf(kObj); v != nil && v.decl != "global" {
			return ex{s: cat("delete", v.name+"."+g.dataProp0()), p: pUnary}
		}
	case 23:
		return ex{s: "Object.is(" + g.w(g.expr(kNum, d-1), pAssign) + "," + g.w(g.expr(kNum, d-1), pAssign) + ")", p: pCall, call: true}
	case 24:
		if g.level >= 2020 {
			// BigInt vs Number comparisons
			return g.bin(g.expr(kBig, d-1), r.Pick("<", ">", "==", "<=", "===", "!="), g.expr(kNum, d-1), pRel, false)
		}
	case 25:
		return ex{s: r.Pick("isFinite", "Number.isNaN", "Number.isInteger") + "(" + g.w(g.expr(kNum, d-1), pAssign) + ")", p: pCall, call: true}
	}
	return g.leaf(kBool)
}

func (g *gen) dataProp0() string { return dataProps[g.r.Intn(len(dataProps))] }

func (g *gen) isEmptyStr(e ex) bool {
	s := strings.Trim(e.s, "() \n\t")
	return len(s) >= 2 && (s[0] == '"' || s[0] == '\'') && emptyStringValue(s)
}

// logicalOf builds a || / && / ?? combination over kind k.
func (g *gen) logicalOf(k kind, d int) ex {
	r := g.r
	l := g.expr(k, d-1)
	rr := g.expr(k, d-1)
	op := r.Pick("||", "&&", "||", "&&", "??")
	if op == "??" && g.level < 2020 {
		op = "||"
	}
	switch op {
	case "||":
		ls := g.w(l, pOr)
		if l.coal {
			ls = "(" + l.s + ")"
		}
		rs := g.w(rr, pAnd)
		if rr.coal {
			rs = "(" + rr.s + ")"
		}
		if r.Chance(1, 6) && rr.p >= pOr && !rr.coal { // right-nested with explicit group
			rs = "(" + rr.s + ")"
		}
		return ex{s: cat(ls, g.sp(), "||", g.sp(), rs), p: pOr, lor: true}
	case "&&":
		ls := g.w(l, pAnd)
		rs := g.w(rr, pBitOr)
		if r.Chance(1, 6) && rr.p >= pAnd {
			rs = "(" + rr.s + ")"
		}
		return ex{s: cat(ls, g.sp(), "&&", g.sp(), rs), p: pAnd, lor: true}
	default:
		ls := g.w(l, pBitOr)
		if l.coal && l.p == pOr && r.Bool() {
			ls = l.s
		}
		rs := g.w(rr, pBitOr)
		return ex{s: cat(ls, g.sp(), "??", g.sp(), rs), p: pOr, coal: true}
	}
}

func (g *gen) logicalExpr(k kind, d int) ex {
	if k == kAny && g.r.Bool() {
		// truthiness-driven: cond && value
		l := g.expr(kBool, d-1)
		rr := g.expr(kAny, d-1)
		op := g.r.Pick("&&", "||")
		if op == "&&" {
			return ex{s: cat(g.w(l, pAnd), g.sp(), "&&", g.sp(), g.w(rr, pBitOr)), p: pAnd, lor: true}
		}
		rs := g.w(rr, pAnd)
		if rr.coal {
			rs = "(" + rr.s + ")"
		}
		ls := g.w(l, pOr)
		if l.coal {
			ls = "(" + l.s + ")"
		}
		return ex{s: cat(ls, g.sp(), "||", g.sp(), rs), p: pOr, lor: true}
	}
	return g.logicalOf(k, d)
}

func (g *gen) condTest(d int) ex {
	if g.r.Chance(2, 3) {
		return g.boolExpr(d)
	}
	return g.expr(kAny, d)
}

func (g *gen) stableCallee() string {
	if v := g.pickVar(func(v *variable) bool {
		return v.k == kFn && v.arity >= 1 && !v.gen && (v.decl == "fn" || v.decl == "const")
	}); v != nil && g.r.Bool() {
		return v.name
	}
	return g.host()
}

func (g *gen) condExpr(k kind, d int) ex {
	r := g.r
	mk := func(c, x, y ex) ex {
		cs := g.w(c, pOr)
		if g.isEmptyStr(c) && !g.known {
			cs = "\"a\""
		}
		return ex{s: cat(cs, g.sp(), "?", g.sp(), g.w(x, pAssign), g.sp(), ":", g.sp(), g.w(y, pAssign)), p: pCond}
	}
	switch r.Intn(16) {
	case 0:
		// a?a:b and a?b:a
		if v := g.varOf(k); v != nil {
			if r.Bool() {
				return mk(atom(v.name), atom(v.name), g.expr(k, d-1))
			}
			return mk(atom(v.name), g.expr(k, d-1), atom(v.name))
		}
	case 1:
		// c?a:a
		if v := g.varOf(k); v != nil {
			return mk(g.condTest(d-1), atom(v.name), atom(v.name))
		}
	case 2:
		// nullish shapes: a==null?b:a, a!=null?a:b
		if v := g.varOf(kAny); v != nil && k == kAny {
			n := v.name
			switch r.Intn(5) {
			case 0:
				return mk(ex{s: n + "==null", p: pEq}, g.expr(k, d-1), atom(n))
			case 1:
				return mk(ex{s: n + "!=null", p: pEq}, atom(n), g.expr(k, d-1))
			case 2:
				return mk(ex{s: n + "===null||" + n + "===undefined", p: pOr}, g.expr(k, d-1), atom(n))
			case 3:
				return mk(ex{s: n + "!==undefined&&" + n + "!==null", p: pAnd}, atom(n), g.expr(k, d-1))
			default:
				return mk(ex{s: "null==" + n, p: pEq}, g.expr(k, d-1), atom(n))
			}
		}
	case 3:
		// optional chaining shapes: a==null?undefined:a.b
		if v := g.varOf(kAny); v != nil && k == kAny {
			n := v.name
			acc := n + "." + g.dataProp0()
			if r.Chance(1, 3) {
				acc += "." + g.dataProp0()
			} else if r.Chance(1, 3) {
				acc = n + "[" + g.plainStr() + "]"
			}
			und := r.Pick("undefined", "void 0")
			if r.Bool() {
				return mk(ex{s: n + "==null", p: pEq}, atom(und), ex{s: acc, p: pCall})
			}
			return mk(ex{s: n + "!=null", p: pEq}, ex{s: acc, p: pCall}, atom(und))
		}
	case 4:
		// boolean bodies
		c := g.condTest(d - 1)
		switch r.Intn(6) {
		case 0:
			return mk(c, atom("true"), atom("false"))
		case 1:
			return mk(c, atom("false"), atom("true"))
		case 2:
			return mk(c, atom("true"), g.expr(k, d-1))
		case 3:
			return mk(c, g.expr(k, d-1), atom("false"))
		case 4:
			return mk(c, atom("!0"), g.expr(k, d-1))
		default:
			return mk(c, g.expr(k, d-1), atom("!1"))
		}
	case 5:
		// call merging c?f(x):f(y) with a callee that is never reassigned
		f := g.stableCallee()
		x, y := g.expr(kAny, d-1), g.expr(kAny, d-1)
		return mk(g.condTest(d-1), ex{s: f + "(" + g.w(x, pAssign) + ")", p: pCall}, ex{s: f + "(" + g.w(y, pAssign) + ")", p: pCall})
	case 6:
		// nested with equal false bodies: a?(b?c:d):d
		if v := g.varOf(k); v != nil {
			inner := mk(g.condTest(d-1), g.expr(k, d-1), atom(v.name))
			return mk(g.condTest(d-1), inner, atom(v.name))
		}
	case 7:
		// negated / grouped-comma condition
		c := g.condTest(d - 1)
		if r.Bool() {
			c = ex{s: cat("!", g.w(c, pUnary)), p: pUnary}
		} else {
			c = ex{s: "(" + g.hostCall(d-1).s + "," + g.w(c, pAssign) + ")", p: pPrimary}
		}
		return mk(c, g.expr(k, d-1), g.expr(k, d-1))
	case 8:
		// literal conditions that are folded
		c := atom(r.Pick("0", "1", "\"a\"", "null", "undefined", "!0", "!1", "true", "false", "NaN", "0.0", "0x0", "1e0", "void 0", "!\"a\"", "[]", "0n"))
		if c.s == "0n" && g.level < 2020 {
			c = atom("0")
		}
		return mk(c, g.expr(k, d-1), g.expr(k, d-1))
	}
	// chained conditionals
	if r.Chance(1, 4) {
		return mk(g.condTest(d-1), g.expr(k, d-1), mk(g.condTest(d-1), g.expr(k, d-1), g.expr(k, d-1)))
	}
	return mk(g.condTest(d-1), g.expr(k, d-1), g.expr(k, d-1))
}

func (g *gen) commaExpr(k kind, d int) ex {
	n := 1 + g.r.Intn(2)
	parts := []string{}
	for i := 0; i < n; i++ {
		var e ex
		if g.r.Bool() {
			e = g.hostCall(d - 1)
		} else {
			e = g.expr(kAny, d-1)
		}
		parts = append(parts, g.w(e, pAssign))
	}
	parts = append(parts, g.w(g.expr(k, d-1), pAssign))
	return ex{s: strings.Join(parts, ","+g.sp()), p: pComma}
}

func (g *gen) assignExpr(k kind, d int) (ex, bool) {
	r := g.r
	if k == kFn || k == kCls {
		return ex{}, false
	}
	switch r.Intn(6) {
	case 0, 1, 2:
		v := g.mutVarOf(k)
		if v == nil {
			return ex{}, false
		}
		rhs := g.expr(k, d-1)
		if g.level >= 2021 && g.known && r.Chance(1, 6) {
			// logical assignment in arbitrary positions (K11)
			op := r.Pick("&&=", "||=", "??=")
			var rs string
			if g.known {
				rs = g.w(rhs, pAssign)
				if r.Chance(1, 3) {
					rs = "(" + g.hostCall(d-1).s + "," + rs + ")"
				}
			} else {
				l := g.leaf(k)
				rs = l.s
				if l.p < pPrimary || strings.HasPrefix(rs, "(") {
					rs = v.name
				}
			}
			return ex{s: cat(v.name, op, rs), p: pAssign}, true
		}
		if k == kStr && r.Chance(1, 3) {
			return ex{s: cat(v.name, g.sp(), "+=", g.sp(), g.w(rhs, pAssign)), p: pAssign}, true
		}
		return ex{s: cat(v.name, g.sp(), "=", g.sp(), g.w(rhs, pAssign)), p: pAssign}, true
	case 3, 4:
		// member assignment on a local object
		v := g.pickVar(func(v *variable) bool { return v.k == kObj })
		if v == nil {
			return ex{}, false
		}
		rhs := g.expr(k, d-1)
		if k == kObj || k == kArr {
			return ex{}, false // avoid cycles / kind drift of data props
		}
		tgt := g.member(atom(v.name), g.dataProp0(), false)
		return ex{s: cat(tgt.s, g.sp(), "=", g.sp(), g.w(rhs, pAssign)), p: pAssign}, true
	default:
		if g.level >= 2015 && k == kArr && false {
			a, b := g.mutVarOf(kAny), g.mutVarOf(kAny)
			if a == nil || b == nil || a == b {
				return ex{}, false
			}
			rhs := g.expr(kArr, d-1)
			return ex{s: cat("["+a.name+","+b.name+"]", "=", g.w(rhs, pAssign)), p: pAssign}, true
		}
	}
	return ex{}, false
}

// iife wraps an expression of kind k into an immediately invoked function.
func (g *gen) iife(k kind, d int) ex {
	r := g.r
	p := g.fresh("p")
	argK := g.primKind()
	arg := g.expr(argK, d-1)
	if g.level >= 2015 && r.Bool() {
		fc := &fctx{isFn: true, isArrow: true, strict: g.strictNow(), method: g.fn.method, args: g.fn.args, isAsync: false}
		old := g.fn
		g.fn = fc
		g.push(true)
		g.declare(&variable{name: p, k: argK, mut: true, decl: "param"})
		body := g.expr(k, d-1)
		g.pop()
		g.fn = old
		bs := g.w(body, pAssign)
		if startsWithAny(bs, "{") {
			bs = "(" + bs + ")"
		}
		ps := p
		if r.Bool() {
			ps = "(" + p + ")"
		}
		return ex{s: "(" + ps + g.spNoNLArrow() + "=>" + g.sp() + bs + ")(" + g.w(arg, pAssign) + ")", p: pCall, call: true}
	}
	fc := &fctx{isFn: true, strict: g.strictNow(), args: true}
	old := g.fn
	g.fn = fc
	g.push(true)
	g.declare(&variable{name: p, k: argK, mut: true, decl: "param"})
	body := g.expr(k, d-1)
	g.pop()
	g.fn = old
	f := "function(" + p + "){return " + body.s + "}"
	switch r.Intn(3) {
	case 0:
		return ex{s: "(" + f + ")(" + g.w(arg, pAssign) + ")", p: pCall, call: true}
	case 1:
		return ex{s: "(" + f + "(" + g.w(arg, pAssign) + "))", p: pPrimary, call: true}
	default:
		return ex{s: "(" + f + ").call(null," + g.w(arg, pAssign) + ")", p: pCall, call: true}
	}
}

func (g *gen) spNoNLArrow() string { return "" }

func (g *gen) objLit(d int) string {
	r := g.r
	n := r.Intn(5)
	var parts []string
	for i := 0; i < n; i++ {
		name := g.dataProp0()
		val := func() string {
			v := g.w(g.expr(g.primKind(), d-1), pAssign)
			if !g.known && g.level < 2015 && v != "" && isIdentStart(v[0]) && !strings.ContainsAny(v, " .([+-*/\n") && !jsKeywords[v] {
				return "(" + v + ")" // K38: {a:a} (also after renaming) becomes {a} for every Version
			}
			return v
		}
		switch r.Intn(14) {
		case 0, 1, 2, 3:
			parts = append(parts, name+":"+g.sp()+val())
		case 4:
			parts = append(parts, quoteProp(name, r.Bool())+":"+val())
		case 5:
			parts = append(parts, r.Pick("\"a-b\"", "'c d'", "1", "0", "\"1\"", "0x10", "1e3", "\"\"", "if", "in", "class", "get", "set", "static", "async", "\"é\"", "$", "_")+":"+val())
		case 6:
			if g.level >= 2015 {
				if v := g.pickVar(func(v *variable) bool { return kindOK(v.k, kAny) }); v != nil {
					parts = append(parts, v.name) // shorthand
					continue
				}
			}
			parts = append(parts, name+":"+val())
		case 7:
			if g.level >= 2015 {
				parts = append(parts, "["+g.w(g.expr(kStr, d-1), pAssign)+"]:"+val())
				continue
			}
			parts = append(parts, name+":"+val())
		case 8:
			if g.level >= 2015 {
				parts = append(parts, g.methodText(g.fresh("m"), d, false, false))
				continue
			}
			parts = append(parts, g.fresh("m")+":"+g.funcExprText(d, ""))
		case 9:
			parts = append(parts, "get "+name+"(){"+g.accessorBody(d)+"}")
		case 10:
			q := g.fresh("q")
			parts = append(parts, "set "+name+"("+q+"){h9("+q+")}")
		case 11:
			if g.level >= 2018 {
				parts = append(parts, "..."+g.w(g.expr(kObj, d-1), pAssign))
				continue
			}
			parts = append(parts, name+":"+val())
		case 12:
			parts = append(parts, name+":"+g.w(g.expr(kObj, d-1), pAssign))
		default:
			if g.known && r.Chance(1, 3) {
				parts = append(parts, r.Pick("\"1.0\"", "\".5\"", "\"0.50\"")+":"+val())
				continue
			}
			parts = append(parts, name+":"+val())
		}
	}
	s := strings.Join(parts, ","+g.sp())
	if n > 0 && r.Chance(1, 10) {
		s += ","
	}
	return "{" + s + "}"
}

func (g *gen) accessorBody(d int) string {
	old := g.fn
	g.fn = &fctx{isFn: true, method: true, strict: g.strictNow(), args: true}
	g.push(true)
	e := g.expr(kAny, d-1)
	g.pop()
	g.fn = old
	return "return " + e.s
}

func (g *gen) objExpr(d int) ex {
	r := g.r
	switch r.Intn(14) {
	case 0, 1, 2, 3:
		return atom(g.objLit(d))
	case 4:
		return ex{s: "h6" + g.args(r.Intn(2), d), p: pCall, call: true}
	case 5:
		if v := g.varOf(kCls); v != nil {
			a := g.args(r.Intn(3), d)
			if r.Chance(1, 5) && !g.known {
				return ex{s: cat("new", v.name), p: pNew}
			}
			return ex{s: cat("new", v.name+a), p: pCall}
		}
		return ex{s: "new Object", p: pNew}
	case 6:
		return ex{s: "Object.assign({}," + g.w(g.expr(kObj, d-1), pAssign) + ")", p: pCall, call: true}
	case 7:
		return g.arrExpr(d)
	case 8:
		if g.fn.method {
			return atom("this")
		}
		return atom(r.Pick("g4", "o", "s", "tt", "g4.b", "o.a", "s.a"))
	case 9:
		return ex{s: "JSON.parse(" + r.Pick(`'{"a":1}'`, `"[1,2]"`, `'{"a":{"b":[1]}}'`) + ")", p: pCall, call: true}
	case 10:
		if g.known {
			// K06: new with a call inside the callee
			return ex{s: "new (h8(Object)).constructor", p: pNew}
		}
		nw := r.Pick("Object", "Array", "Object()", "Array(2)", "(Object)", "Array")
		if strings.HasSuffix(nw, ")") && nw != "(Object)" {
			return ex{s: cat("new", nw), p: pCall}
		}
		return ex{s: cat("new", nw), p: pNew}
	}
	return g.leaf(kObj)
}

func (g *gen) arrExpr(d int) ex {
	r := g.r
	switch r.Intn(14) {
	case 0, 1, 2, 3:
		n := r.Intn(4)
		var parts []string
		for i := 0; i < n; i++ {
			switch r.Intn(10) {
			case 0:
				parts = append(parts, "") // hole
			case 1:
				if g.level >= 2015 {
					parts = append(parts, "..."+g.w(g.expr(kArr, d-1), pAssign))
					continue
				}
				fallthrough
			default:
				parts = append(parts, g.w(g.expr(g.primKind(), d-1), pAssign))
			}
		}
		s := strings.Join(parts, ",")
		if n > 0 && (parts[n-1] == "" || r.Chance(1, 10)) {
			s += ","
		}
		return atom("[" + s + "]")
	case 4, 5:
		a := g.expr(kArr, d-1)
		cb := g.callback(d)
		return ex{s: g.w(a, pCall) + r.Pick(".map", ".filter", ".map") + "(" + cb + ")", p: pCall, call: true}
	case 6:
		return ex{s: g.w(g.expr(kArr, d-1), pCall) + r.Pick(".slice(1)", ".slice()", ".concat([9])", ".slice(0,2)"), p: pCall, call: true}
	case 7:
		return ex{s: "Object.keys(" + g.w(g.expr(kObj, d-1), pAssign) + ")", p: pCall, call: true}
	case 8:
		return ex{s: g.w(g.expr(kStr, d-1), pCall) + ".split(\"\")", p: pCall, call: true}
	case 9:
		if v := g.pickVar(func(v *variable) bool { return v.k == kFn && v.gen }); v != nil && g.level >= 2015 {
			return atom("[..." + v.name + g.args(v.arity, d) + "]")
		}
	case 10:
		return ex{s: r.Pick("Array(3)", "new Array(1,2)", "Array.from(\"ab\")", "Array.of(1,2)", "[].concat(1)"), p: pCall, call: true}
	case 11:
		if g.level >= 2015 {
			return ex{s: "h8" + g.templateLit(d), p: pCall, call: true}
		}
	}
	return g.leaf(kArr)
}

// callback returns a one-parameter function expression text.
func (g *gen) callback(d int) string {
	p := g.fresh("p")
	old := g.fn
	arrow := g.level >= 2015 && g.r.Chance(2, 3)
	g.fn = &fctx{isFn: true, isArrow: arrow, strict: g.strictNow(), method: arrow && old.method, args: !arrow || old.args}
	g.push(true)
	g.declare(&variable{name: p, k: kAny, mut: true, decl: "param"})
	body := g.expr(kAny, d-1)
	g.pop()
	g.fn = old
	if arrow {
		bs := g.w(body, pAssign)
		if startsWithAny(bs, "{") {
			bs = "(" + bs + ")"
		}
		return p + "=>" + bs
	}
	return "function(" + p + "){return " + body.s + "}"
}

func (g *gen) fnExpr(d int) ex {
	if v := g.varOf(kFn); v != nil && !v.gen && g.r.Chance(1, 3) {
		return atom(v.name)
	}
	if g.level >= 2015 && g.r.Bool() {
		return ex{s: g.arrowText(d, 1), p: pAssign}
	}
	return atom(g.funcExprText(d, ""))
}
