package main

// Literal generators: numeric, string, template and regular-expression literal forms.

import (
	"fmt"
	"strings"
)

// numLit returns a numeric literal (never negative, never BigInt).
func (g *gen) numLit() string {
	r := g.r
	switch r.Intn(22) {
	case 0, 1, 2, 3:
		return fmt.Sprint(r.Intn(4))
	case 4:
		return fmt.Sprint(r.Intn(1000))
	case 5:
		return r.Pick("1.0", "0.5", ".5", "5.", "0.0", "1.50", "0.25", "10.0", "100.", "0.10", "3.14159", "0.000001", "0.0000001", "123456.789")
	case 6:
		return r.Pick("1e3", "1E3", "1e+3", "1e-3", "1.5e3", "2e0", "1e21", "1e-7", "12e-1", "1.0e1", "0e5", "5e-324", "1.7976931348623157e308", "1e400", ".1e1", "1.e1")
	case 7:
		return r.Pick("0x1F", "0XfF", "0x0", "0xabc", "0xFFFFFFFF", "0x100000000", "0xDEADBEEF", "0x7FFFFFFFFFFFFFFF", "0x1fffffffffffff", "0xCEEEEEEEEE", "0xaaaaaaaaaa", "0x1e", "0xfe0b")
	case 8:
		if g.level >= 2015 {
			return r.Pick("0o17", "0O7", "0o0", "0o777", "0o7777777777", "0o1000000000000000000000")
		}
		return "15"
	case 9:
		if g.level >= 2015 {
			return r.Pick("0b101", "0B1", "0b0", "0b11111111", "0b10000000000000000000000000000000", "0b1111111111111111111111111111111111111111111111111111111111111111")
		}
		return "5"
	case 10:
		if g.level >= 2021 {
			return r.Pick("1_000", "1_0.0_1", "1_0e1_0", "0x1_F", "0b1_01", "0o1_7", "1_000_000", ".0_1", "1_2_3")
		}
		return "1000"
	case 11:
		return r.Pick("1000", "10000", "100000", "1000000", "1200000", "123000", "9007199254740993", "123456789012345680000", "4294967296", "2147483648", "999999999999999999999")
	case 12:
		return r.Pick("0.1", "0.2", "0.30000000000000004", "1.10", "10.50", "0.001", "0.0001", "1.0000000000000002", "100.001")
	default:
		return fmt.Sprint(r.Intn(12))
	}
}

// bigLit returns a BigInt literal (level >= 2020 only).
func (g *gen) bigLit() string {
	r := g.r
	if g.known && r.Chance(1, 6) {
		return r.Pick("0x345266BBF77D5E71n", "0xFFFFFFFFFFn", "0b1111111111111111111111111111111111111111111111111111111111111111n", "0o1000000000000000000000n")
	}
	alts := []string{"0n", "1n", "2n", "10n", "255n", "12345678901234567890n", "0x1Fn", "0XABn", "0b101n", "0o17n", "0x123456789n", "0b11111111n", "0o777n"}
	if g.level >= 2021 {
		alts = append(alts, "1_0n", "0x1_Fn", "1_000_000n")
	}
	return alts[r.Intn(len(alts))]
}

// strPieces builds the body of a string or template literal. q is the delimiter (' " or `).
func (g *gen) strBody(q byte, n int) string {
	r := g.r
	var b strings.Builder
	prevDollar := false // previous piece decodes to '$' or is a backslash-ish thing: a following '{' is avoided (K09)
	prevLt := false     // previous piece decodes to '<': a following '/' is avoided (K30)
	prevNul := false    // previous piece is \0: a following digit is avoided
	legacyOK := q != '`' && !g.strictNow()
	for i := 0; i < n; i++ {
		var p string
		dollar, lt, nul := false, false, false
		switch r.Intn(30) {
		case 0, 1, 2, 3, 4, 5, 6, 7:
			p = r.Pick("a", "b", "c", "x", "Z", "q", "e", "n", "t", "u")
		case 8:
			p = r.Pick("0", "1", "7", "8", "9")
		case 9:
			p = r.Pick(" ", "-", "_", ".", ",", ":", ";", "!", "?", "(", ")", "[", "]", "#", "@", "%", "^", "&", "*", "+", "=", "|", "~", ">", "}")
		case 10:
			p = "/"
		case 11:
			p = "<"
			lt = true
		case 12:
			p = "$"
			dollar = true
		case 13:
			p = "{"
		case 14: // quote characters
			c := r.Pick("'", "\"", "`")
			if c[0] == q {
				p = "\\" + c
			} else if r.Chance(1, 4) {
				p = "\\" + c // unnecessary escape of another quote
			} else {
				p = c
			}
		case 15:
			p = r.Pick("\\n", "\\t", "\\r", "\\b", "\\f", "\\v", "\\\\")
		case 16:
			p = "\\0"
			nul = true
		case 17:
			p = r.Pick("\\x41", "\\x0a", "\\x0A", "\\x0d", "\\x22", "\\x27", "\\x60", "\\x5c", "\\x5C", "\\x00", "\\x7f", "\\xe9", "\\xFF", "\\x09", "\\x20", "\\x7B")
		case 18:
			p = r.Pick("\\u0041", "\\u000a", "\\u000D", "\\u0022", "\\u0027", "\\u0060", "\\u2028", "\\u2029", "\\u00e9", "\\ud83d\\ude00", "\\uD800", "\\u0000", "\\u0009", "\\ufeff", "\\u007b")
		case 19:
			if g.level >= 2015 {
				p = r.Pick("\\u{41}", "\\u{1F600}", "\\u{0}", "\\u{a}", "\\u{000041}", "\\u{22}", "\\u{27}", "\\u{60}", "\\u{10FFFF}", "\\u{d}", "\\u{2028}")
			} else {
				p = "\\u0041"
			}
		case 20:
			p = "\\\n" // line continuation
			dollar = prevDollar
			nul = prevNul
		case 21:
			p = r.Pick("\\a", "\\q", "\\-", "\\/", "\\.", "\\ ", "\\(", "\\e", "\\w", "\\z")
			if strings.HasSuffix(p, "e") || strings.HasSuffix(p, "a") {
				// fine: unnecessary escapes of letters that are not escape characters
			}
		case 22:
			if legacyOK {
				p = r.Pick("\\1", "\\7", "\\12", "\\101", "\\42", "\\47", "\\140", "\\134", "\\177", "\\400", "\\015", "\\00", "\\0")
				if r.Chance(1, 4) { // above \177 (N05, repaired)
					p = r.Pick("\\377", "\\200", "\\251")
				}
				nul = true // conservatively avoid a following digit changing the escape
			} else {
				p = "o"
			}
		case 23:
			p = r.Pick("é", "中", "😀", "ß", "\u00a0", "\u2028", "\u2029", "\ufeff")
			if g.level < 2019 && (p == "\u2028" || p == "\u2029") && q != '`' {
				p = "é"
			}
		case 24:
			if q == '`' {
				p = r.Pick("\n", "\r\n", "\t")
			} else {
				p = "\\n"
			}
		case 25:
			p = r.Pick("\\$", "$$", "\\{", "}")
			if p == "\\$" || p == "$$" {
				dollar = true
			}
		case 26:
			if g.known {
				p = r.Pick("\\u005c", "\\u{5c}", "\\x24{", "\\u0024{", "${", "\\x3C/script>", "\\u005Cn")
				if q == '`' && p == "${" {
					p = "\\${"
				}
			} else {
				p = r.Pick("\\x24", "\\u0024")
				dollar = true
			}
		default:
			p = r.Pick("ab", "xy", "if", "in", "do", "0", "script", "!--", "--", "*/", "/*", "//")
		}
		if p == "" {
			continue
		}
		if !g.known {
			if strings.HasPrefix(p, "<") || strings.HasPrefix(p, "\\x3") {
				lt = lt || p == "<"
			}
		} else if q == '`' && prevDollar && p[0] == '{' {
			continue // would open a substitution
		}
		if q == '`' && prevDollar && p[0] == '{' {
			continue
		}
		if prevNul && isDigit(p[0]) && !legacyOK {
			continue // \0 followed by a digit is valid only as a legacy octal form (K122 / N09 shapes are repaired)
		}
		b.WriteString(p)
		prevDollar, prevLt, prevNul = dollar, lt, nul
		_ = prevLt // (K30 repaired: `<` followed by `/` is no longer avoided)
		if strings.HasSuffix(p, "\\") {
			prevDollar = true
		}
	}
	s := b.String()
	if q == '`' && strings.HasSuffix(s, "$") {
		// harmless, but keep things simple
		s += " "
	}
	return s
}

func (g *gen) strLit() string {
	r := g.r
	q := byte('"')
	if r.Bool() {
		q = '\''
	}
	switch r.Intn(10) {
	case 0:
		return string(q) + string(q)
	case 1, 2, 3:
		return string(q) + r.Pick("a", "b", "abc", "x", "1", "0", "a-b", "k", "length", "use strict", "é", "A1$", " ") + string(q)
	case 4:
		return string(q) + g.strBody(q, 1+r.Intn(12)) + string(q)
	default:
		return string(q) + g.strBody(q, 1+r.Intn(5)) + string(q)
	}
}

// plainStr returns a simple string literal for property names, subjects, etc.
func (g *gen) plainStr() string {
	return `"` + g.r.Pick("a", "b", "c", "abc", "x", "a-b", "1", "k") + `"`
}

type regexCase struct{ re, subj string }

var regexCases = []regexCase{
	{`/a+/g`, `"caab"`}, {`/[/]/`, `"a/b"`}, {`/\//`, `"a/b"`}, {`/[a-z]\d+/i`, `"xA12"`}, {`/a|b/`, `"cb"`},
	{`/\-/`, `"a-b"`}, {`/[\-a]/`, `"x-"`}, {`/[a\-z]/`, `"m-"`}, {`/[a\-]/`, `"-"`}, {`/\$/`, `"a$"`}, {`/^\s*$/`, `"  "`},
	{`/\./`, `"a.b"`}, {`/./s`, `"\n"`}, {`/\w+\b/`, `"ab cd"`}, {`/[\]]/`, `"a]"`}, {`/[\\]/`, `"a\\b"`}, {`/\\/`, `"a\\b"`},
	{`/(a)(b)?/`, `"ab"`}, {`/(?:x)y/`, `"xy"`}, {`/a{1,2}/`, `"aaa"`}, {`/\{/`, `"a{"`}, {`/\}/`, `"a}"`}, {`/[{}]/`, `"}"`},
	{`/\=/`, `"a=b"`}, {`/=/`, `"a=b"`}, {`/\!/`, `"a!"`}, {`/\:/`, `"a:"`}, {`/\,/`, `"a,"`}, {`/\"/`, `"a\"b"`}, {`/\'/`, `"a'b"`},
	{`/[\^a]/`, `"^"`}, {`/[^\^]/`, `"^a"`}, {`/[a^]/`, `"^"`}, {`/\^/`, `"a^"`}, {`/\x41/`, `"A"`}, {`/\u0041/`, `"A"`}, {`/\t/`, `"\t"`},
	{`/\cJ/`, `"\n"`}, {`/[\b]/`, `"\b"`}, {`/\0/`, `"\0"`}, {`/\1(a)/`, `"a"`}, {`/(a)\1/`, `"aa"`}, {`/a\/b/`, `"a/b"`}, {`/[/\]]+/`, `"/]"`},
	{`/\ /`, `"a b"`}, {`/\#/`, `"#"`}, {`/\%/`, `"%"`}, {`/\&/`, `"&"`}, {`/\</`, `"<"`}, {`/\>/`, `">"`}, {`/\@/`, `"@"`}, {`/\_/`, `"_"`},
	{`/\e/`, `"e"`}, {`/\a/`, `"a"`}, {`/\z/`, `"z"`}, {`/\-\d/`, `"-1"`}, {`/[\w\-]/`, `"-"`}, {`/[\d-x]/`, `"-"`}, {`/[a-c\-e]/`, `"d-"`},
	{`/[\-]/`, `"-"`}, {`/[+\-*]/`, `"-"`}, {`/[\^]/`, `"^"`}, {`/[\.]/`, `"a."`}, {`/[\$]/`, `"$"`}, {`/[\/]/`, `"/"`}, {`/a(?=b)/`, `"ab"`}, {`/a(?!b)/`, `"ac"`},
}

var regexCasesNew = []regexCase{
	{`/(?<n>x)\k<n>/`, `"xx"`}, {`/(?<=a)b/`, `"ab"`}, {`/\p{L}/u`, `"é"`}, {`/\u{41}/u`, `"A"`}, {`/./su`, `"\n"`}, {`/a/y`, `"ba"`},
}

func (g *gen) regexCase() regexCase {
	if g.level >= 2018 && g.r.Chance(1, 6) {
		return regexCasesNew[g.r.Intn(len(regexCasesNew))]
	}
	return regexCases[g.r.Intn(len(regexCases))]
}
