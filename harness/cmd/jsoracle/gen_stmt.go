package main

import (
	"fmt"
	"regexp"
	"strings"
)

type stmtText struct {
	s    string
	semi bool // needs a terminator (';' or an ASI-safe newline)
	fn   bool // hoistable function declaration (may be moved later in its list)
}

// joinStmts concatenates statements, using ASI instead of ';' where that is safe.
func (g *gen) joinStmts(list []stmtText, closed bool) string {
	var b strings.Builder
	for i, st := range list {
		b.WriteString(st.s)
		last := i == len(list)-1
		if st.semi {
			next := ""
			if !last {
				next = strings.TrimLeft(list[i+1].s, " \t")
			}
			asiSafe := next != "" && !strings.ContainsAny(next[:1], "([`+-/*.,?=<>&|^%!~\n") && !startsWithAny(next, "in", "instanceof", "of")
			if !last && g.ws > 0 && asiSafe && g.r.Chance(1, 3) && !strings.HasSuffix(st.s, "++") && !strings.HasSuffix(st.s, "--") {
				b.WriteString("\n")
			} else if last && closed && g.r.Chance(1, 2) {
				// last statement of a list: the terminator may be omitted before '}' or EOF
			} else {
				b.WriteString(";")
				if g.ws > 0 && g.r.Chance(1, 3) {
					b.WriteString(g.r.Pick("\n", " ", "\n  ", ";"))
				} else if g.ws > 1 && g.r.Chance(1, 40) {
					b.WriteString(g.r.Pick("<!-- c\n", "\n--> c\n", "\n  --> c\n", "// c\n", "/*! keep */"))
				}
			}
		} else if g.ws > 0 && g.r.Chance(1, 4) {
			b.WriteString(g.r.Pick("\n", " ", ";"))
		}
	}
	return b.String()
}

// stmtList generates n statements in the current scope.
func (g *gen) stmtList(n, d int, top bool) string { return g.stmtListC(n, d, top, false) }

// stmtListC: closed means the list is directly followed by '}' or the end of the program, so
// that the terminator of the last statement may be left out.
func (g *gen) stmtListC(n, d int, top bool, closed bool) string {
	var list []stmtText
	var deferred []stmtText
	for i := 0; i < n; i++ {
		sts := g.stmt(d, top)
		for _, st := range sts {
			if st.fn && g.r.Chance(1, 3) {
				deferred = append(deferred, st) // function declarations are hoisted: place them later
				continue
			}
			list = append(list, st)
		}
		if len(deferred) > 0 && g.r.Chance(1, 3) {
			list = append(list, deferred...)
			deferred = nil
		}
	}
	list = append(list, deferred...)
	return g.joinStmts(list, closed)
}

func one(s string, semi bool) []stmtText { return []stmtText{{s: s, semi: semi}} }

// exprStmtText makes e usable as an expression statement.
func (g *gen) exprStmtText(e ex) string {
	s := e.s
	if startsWithAny(s, "{", "function", "class", "let[", "let [", "async function") {
		if g.r.Bool() || e.p == pComma {
			return "(" + s + ")"
		}
		return "0," + s
	}
	return s
}

func (g *gen) blockBody(n, d int) string {
	g.push(false)
	s := g.stmtListC(n, d, false, true)
	g.pop()
	return s
}

// body returns a statement body for if/loops: a block, or sometimes a single simple statement.
func (g *gen) body(d int) string {
	r := g.r
	if r.Chance(1, 4) {
		// single expression statement without braces
		return g.exprStmtText(g.sideEffectExpr(d)) + ";"
	}
	return "{" + g.blockBody(1+r.Intn(3), d) + "}"
}

// sideEffectExpr returns an expression worth using as a statement.
func (g *gen) sideEffectExpr(d int) ex {
	r := g.r
	switch r.Intn(10) {
	case 0, 1, 2, 3:
		return ex{s: g.host() + g.args(1+r.Intn(2), d), p: pCall}
	case 4, 5:
		if e, ok := g.assignExpr(g.primKind(), d); ok {
			return e
		}
	case 6:
		if e, ok := g.assignExpr(kAny, d); ok {
			return e
		}
	case 7:
		if v := g.mutVarOf(kNum); v != nil {
			return ex{s: r.Pick(v.name+"++", v.name+"--", "++"+v.name, "--"+v.name), p: pPostfix}
		}
	case 8:
		return ex{s: "h9(" + g.w(g.expr(kAny, d), pAssign) + ")", p: pCall}
	}
	return ex{s: g.host() + g.args(1, d), p: pCall}
}

func (g *gen) declKeyword() string {
	if g.level < 2015 {
		return "var"
	}
	return g.r.Pick("var", "let", "const", "let", "var")
}

func (g *gen) declKind() kind {
	switch g.r.Intn(10) {
	case 0, 1, 2:
		return kNum
	case 3, 4:
		return kStr
	case 5:
		return kBool
	case 6:
		return kObj
	case 7:
		return kArr
	}
	return kAny
}

func (g *gen) newVarName(top bool, kw string) string {
	r := g.r
	// occasionally reuse the spelling of the renamer's first names for locals (var only: a
	// let/const would put earlier uses of the global into its temporal dead zone)
	if !top && kw == "var" && r.Chance(1, 8) {
		n := r.Pick("e", "t", "n", "s", "o", "i", "a", "r", "ee", "te")
		clash := false
		for _, sc := range g.scopes[1:] {
			for _, v := range sc.vars {
				if v.name == n {
					clash = true
				}
			}
		}
		if !clash {
			return n
		}
	}
	return g.fresh("v")
}

var reFnDecl = regexp.MustCompile(`^(async )?function(\*?)\s*([A-Za-z0-9_$]+)\(`)

// stmt generates one statement (sometimes a short group).  Function declarations inside
// blocks of sloppy code are turned into var-assigned function expressions: Annex B
// block-function semantics are outside the property's domain.
func (g *gen) stmt(d int, top bool) []stmtText {
	sts := g.stmt0(d, top)
	if g.cur().isFunc || g.strictNow() {
		return sts
	}
	for i := range sts {
		if sts[i].fn {
			sts[i].s = reFnDecl.ReplaceAllString(sts[i].s, "var $3=${1}function$2(")
			sts[i].fn = false
			sts[i].semi = true
		}
	}
	return sts
}

func (g *gen) stmt0(d int, top bool) []stmtText {
	g.budget--
	r := g.r
	if d <= 0 || g.budget <= 0 {
		g.kindHit("expr")
		return one(g.exprStmtText(g.sideEffectExpr(1)), true)
	}
	x := r.Intn(100)
	switch {
	case x < 16:
		g.kindHit("expr")
		if g.level >= 2021 && r.Chance(1, 8) {
			// logical assignment: only as a plain statement with a simple right-hand side (K11)
			if v := g.mutVarOf(g.primKind()); v != nil {
				l := g.leaf(v.k)
				if l.p == pPrimary && !strings.HasPrefix(l.s, "(") && !strings.HasPrefix(l.s, "{") && !strings.HasPrefix(l.s, "[") {
					return one(";"+v.name+r.Pick("&&=", "||=", "??=")+l.s, true)
				}
			}
		}
		if r.Chance(1, 3) {
			return one(g.exprStmtText(g.expr(kAny, d)), true)
		}
		return one(g.exprStmtText(g.sideEffectExpr(d)), true)
	case x < 27:
		return g.varDeclStmt(d, top)
	case x < 30:
		if g.level >= 2015 {
			return g.destructDecl(d, top)
		}
		return g.varDeclStmt(d, top)
	case x < 42:
		return g.ifStmt(d)
	case x < 47:
		return g.forStmt(d)
	case x < 49:
		return g.forInStmt(d)
	case x < 52:
		if g.level >= 2015 {
			return g.forOfStmt(d)
		}
		return g.forStmt(d)
	case x < 55:
		return g.whileStmt(d)
	case x < 58:
		return g.switchStmt(d)
	case x < 63:
		return g.tryStmt(d)
	case x < 74:
		return g.funcDeclStmt(d, top)
	case x < 77:
		if g.level >= 2015 {
			return g.classDeclStmt(d, top)
		}
		return g.funcDeclStmt(d, top)
	case x < 80:
		return g.labelledStmt(d)
	case x < 83:
		g.kindHit("block")
		return one("{"+g.blockBody(2+r.Intn(2), d-1)+"}", false)
	case x < 88:
		return g.jumpStmt(d)
	case x < 97:
		return g.idiom(d, top)
	case x < 98:
		g.kindHit("empty")
		return one(";", false)
	case x < 99:
		if !g.strictNow() && !g.strict && (g.known || r.Chance(1, 3)) && !top {
			return g.withStmt(d)
		}
		return one(g.exprStmtText(g.sideEffectExpr(d)), true)
	default:
		if g.level >= 2015 && r.Bool() {
			return g.generatorStmt(d, top)
		}
		if g.level >= 2017 {
			return g.asyncStmt(d, top)
		}
		return g.funcDeclStmt(d, top)
	}
}

func (g *gen) registerTop(name, kw string, top bool) {
	if top && len(g.scopes) == 1 && (kw == "let" || kw == "const" || kw == "class") {
		g.probes = append(g.probes, name)
	}
}

func (g *gen) varDeclStmt(d int, top bool) []stmtText {
	r := g.r
	kw := g.declKeyword()
	g.kindHit(kw)
	n := 1 + r.Intn(3)
	if r.Chance(2, 3) {
		n = 1
	}
	var parts []string
	var decls []*variable
	for i := 0; i < n; i++ {
		name := g.newVarName(top, kw)
		k := g.declKind()
		if g.level >= 2020 && r.Chance(1, 25) {
			k = kBig
		}
		if kw != "const" && r.Chance(1, 8) {
			// declaration without initialiser, assigned right after
			parts = append(parts, name)
			decls = append(decls, &variable{name: name, k: kAny, mut: true, decl: kw})
			continue
		}
		init := g.expr(k, d)
		parts = append(parts, name+g.sp()+"="+g.sp()+g.w(init, pAssign))
		decls = append(decls, &variable{name: name, k: k, mut: kw != "const", decl: kw})
	}
	for _, v := range decls {
		g.declare(v)
		g.registerTop(v.name, kw, top)
	}
	out := []stmtText{{s: cat(kw, strings.Join(parts, ","+g.sp())), semi: true}}
	// var a; a=5 merging shapes
	for _, v := range decls {
		if v.k == kAny && v.mut && r.Chance(2, 3) {
			out = append(out, stmtText{s: v.name + "=" + g.w(g.expr(kAny, d-1), pAssign), semi: true})
		}
	}
	return out
}

// destructDecl declares variables through patterns over right-hand sides of known shape.
func (g *gen) destructDecl(d int, top bool) []stmtText {
	r := g.r
	kw := g.declKeyword()
	g.kindHit("destructuring")
	a, b, c := g.fresh("v"), g.fresh("v"), g.fresh("v")
	type alt struct {
		pat, rhs string
		names    []string
		kinds    []kind
	}
	lit := func() string { return g.w(g.leaf(g.primKind()), pAssign) }
	alts := []alt{
		{"[" + a + "," + b + "=" + lit() + "]", r.Pick("[1]", "[1,2]", "\"xy\"", "g5", "a"), []string{a, b}, []kind{kAny, kAny}},
		{"[" + a + ",," + b + "]", "[1,2,3]", []string{a, b}, []kind{kNum, kNum}},
		{"[" + a + ",..." + b + "]", r.Pick("[1,2,3]", "g5", "\"abc\""), []string{a, b}, []kind{kAny, kArr}},
		{"{a:" + a + ",b:" + b + "}", r.Pick("g4", "o", "s", "{a:1,b:2}"), []string{a, b}, []kind{kAny, kAny}},
		{"{a:" + a + "=" + lit() + ",..." + b + "}", r.Pick("{a:7,z:8}", "g4", "{}"), []string{a, b}, []kind{kAny, kObj}},
		{"{a:" + a + "=1,b:{c:" + b + "}={c:5}}", r.Pick("g4", "{}", "{b:{c:1}}"), []string{a, b}, []kind{kAny, kAny}},
		{"{[" + g.plainStr() + "]:" + a + ",length:" + b + "}", r.Pick("\"abc\"", "[1,2]"), []string{a, b}, []kind{kAny, kAny}},
		{"[[" + a + "],{x:" + b + "," + c + "=3}]", "[[1],{x:2}]", []string{a, b, c}, []kind{kNum, kNum, kNum}},
		{"{a:" + a + ",a:{b:" + b + "}}", r.Pick("o", "s"), []string{a, b}, []kind{kObj, kAny}},
	}
	if g.level < 2018 {
		alts[4] = alts[3]
	}
	al := alts[r.Intn(len(alts))]
	for i, n := range al.names {
		g.declare(&variable{name: n, k: al.kinds[i], mut: kw != "const", decl: kw})
		g.registerTop(n, kw, top)
	}
	return one(cat(kw, al.pat+g.sp()+"="+g.sp()+al.rhs), true)
}

func (g *gen) ifStmt(d int) []stmtText {
	r := g.r
	g.kindHit("if")
	c := g.condTest(d).s
	simple := func() string { return g.exprStmtText(g.sideEffectExpr(d - 1)) }
	switch r.Intn(14) {
	case 12, 13: // if(a){if(b)S} with a non-expression S: the two conditions are merged into a&&b (operand grouping)
		c2 := g.condTest(d - 1).s
		if r.Chance(1, 2) {
			c2 = g.boolExpr(d-1).s + r.Pick("||", "||", "??", "&&", ",") + g.boolExpr(d-1).s
		}
		inner := "{" + simple() + ";" + simple() + "}"
		if r.Chance(1, 3) {
			inner = "for(;;){" + simple() + ";break}"
		} else if g.fn != nil && g.fn.isFn && g.fn.inFinally == 0 && r.Chance(1, 3) {
			inner = "return " + g.sideEffectExpr(d-1).s
		}
		g.kindHit("if-nested-merge")
		return one("if("+c+"){if("+c2+")"+inner+"}", false)
	case 0: // if(a)b
		return one("if("+c+")"+simple(), true)
	case 1: // if(a)b;else c
		return one("if("+c+")"+simple()+";else "+simple(), true)
	case 2: // if(!a)b;else c
		return one("if(!("+c+"))"+simple()+r.Pick(";", "\n")+"else "+simple(), true)
	case 3: // if(a){b;c}
		return one("if("+c+"){"+simple()+";"+simple()+"}", false)
	case 4: // nested ifs without else
		return one("if("+c+")if("+g.condTest(d-1).s+")"+simple(), true)
	case 5: // if(a){if(b)c}else d
		return one("if("+c+"){if("+g.condTest(d-1).s+")"+simple()+"}else "+simple(), true)
	case 6: // else-if chain
		s := "if(" + c + ")" + g.body(d-1)
		n := 1 + r.Intn(2)
		for i := 0; i < n; i++ {
			s += "else if(" + g.condTest(d-1).s + ")" + g.body(d-1)
		}
		if r.Bool() {
			s += "else " + g.body(d-1)
		}
		return one(s, false)
	case 7: // if(a){}else b  (only with a side-effect-free or call-only condition, K03)
		return one("if("+c+"){}else "+simple(), true)
	case 8: // if(a)b;else{}   (N11, repaired) and the dangling-else shape around it
		if r.Chance(1, 2) {
			return one("if("+c+")"+simple()+";else{}", false)
		}
		if r.Chance(1, 2) {
			return one("if("+c+"){if("+g.condTest(d-1).s+")for(;;){"+simple()+";break}else"+r.Pick("{}", ";")+"}else "+simple(), true)
		}
		return one("if("+c+")"+simple()+";else "+simple(), true)
	default:
		s := "if(" + c + ")" + g.body(d-1)
		if r.Bool() {
			s += "else " + g.body(d-1)
		}
		return one(s, false)
	}
}

func (g *gen) loopEnter(label string) {
	g.fn.loop++
	_ = label
}
func (g *gen) loopExit() { g.fn.loop-- }

func (g *gen) forStmt(d int) []stmtText {
	r := g.r
	g.kindHit("for")
	kw := "var"
	if g.level >= 2015 && r.Bool() {
		kw = "let"
	}
	i := g.fresh("i")
	lim := 1 + r.Intn(3)
	g.push(false)
	iv := &variable{name: i, k: kNum, mut: false, decl: kw}
	g.declare(iv)
	g.loopEnter("")
	var body string
	if r.Chance(1, 5) {
		body = g.exprStmtText(g.sideEffectExpr(d-1)) + ";"
	} else {
		body = "{" + g.blockBody(1+r.Intn(3), d-1) + g.maybeClosure(i) + "}"
	}
	g.loopExit()
	var s string
	switch r.Intn(6) {
	case 0:
		s = fmt.Sprintf("for(%s %s=0;%s<%d;%s++)%s", kw, i, i, lim, i, body)
	case 1:
		s = fmt.Sprintf("for(%s %s=0,%s=%d;%s<%s;++%s)%s", kw, i, i+"n", lim, i, i+"n", i, body)
	case 2:
		s = fmt.Sprintf("for(%s %s=%d;%s>0;%s--)%s", kw, i, lim, i, i, body)
	case 3:
		// expression before the loop that is merged into the init
		s = fmt.Sprintf("%s;for(%s %s=0;%s<%d;%s+=1)%s", g.exprStmtText(g.sideEffectExpr(d-1)), kw, i, i, lim, i, body)
	case 4:
		if kw == "var" {
			s = fmt.Sprintf("var %s;for(%s=0;%s<%d;%s++)%s", i, i, i, lim, i, body)
		} else {
			s = fmt.Sprintf("for(%s %s=0;%s<%d;%s++)%s", kw, i, i, lim, i, body)
		}
	default:
		// `in` inside the initialiser must stay parenthesised
		s = fmt.Sprintf("for(%s %s=(\"a\" in g4)?0:1;%s<%d;%s++)%s", kw, i, i, lim, i, body)
	}
	g.pop()
	if kw == "var" {
		// the counter stays visible after the loop
		g.declare(&variable{name: i, k: kNum, mut: false, decl: "var"})
	}
	return one(s, false)
}

// maybeClosure captures the loop variable in a closure handed to the host.
func (g *gen) maybeClosure(name string) string {
	if g.r.Chance(1, 4) {
		if g.level >= 2015 && g.r.Bool() {
			return ";h9((()=>" + name + ")())"
		}
		return ";h9(function(){return " + name + "}())"
	}
	return ""
}

func (g *gen) forInStmt(d int) []stmtText {
	r := g.r
	g.kindHit("for-in")
	kw := g.declKeyword()
	k := g.fresh("k")
	obj := r.Pick("{x:1,y:2}", "g4", "o", "[7,8]", "\"ab\"", "{}", "{a:1}")
	g.push(false)
	g.declare(&variable{name: k, k: kStr, mut: false, decl: kw})
	g.loopEnter("")
	body := "{" + g.blockBody(1+r.Intn(2), d-1) + "}"
	g.loopExit()
	g.pop()
	if kw == "var" {
		g.declare(&variable{name: k, k: kAny, mut: false, decl: "var"})
	}
	if kw == "var" && r.Chance(1, 4) {
		return one(cat("var", k+";for("+k, "in", obj+")"+body), false)
	}
	return one(cat("for("+kw, k, "in", obj+")"+body), false)
}

func (g *gen) forOfStmt(d int) []stmtText {
	r := g.r
	g.kindHit("for-of")
	kw := g.declKeyword()
	k, k2 := g.fresh("k"), g.fresh("k")
	var src, pat string
	kinds := []kind{kAny, kAny}
	names := []string{k}
	switch r.Intn(7) {
	case 0:
		src, pat = "[1,2]", k
		kinds[0] = kNum
	case 1:
		src, pat = "\"ab\"", k
		kinds[0] = kStr
	case 2:
		src, pat = "[[1,2],[3,4]]", "["+k+","+k2+"]"
		names = []string{k, k2}
		kinds = []kind{kNum, kNum}
	case 3:
		src, pat = "[{a:1},{a:2,b:3}]", "{a:"+k+",b:"+k2+"=0}"
		names = []string{k, k2}
		kinds = []kind{kNum, kNum}
	case 4:
		src, pat = "Object.keys(g4)", k
		kinds[0] = kStr
	case 5:
		src, pat = g.w(g.expr(kArr, d-1), pAssign)+".slice(0,3)", k
	default:
		if v := g.pickVar(func(v *variable) bool { return v.k == kFn && v.gen }); v != nil {
			src, pat = v.name+g.args(v.arity, d-1), k
		} else {
			src, pat = "[1,2,3].slice(1)", k
			kinds[0] = kNum
		}
	}
	g.push(false)
	for i, n := range names {
		g.declare(&variable{name: n, k: kinds[i], mut: false, decl: kw})
	}
	g.loopEnter("")
	body := "{" + g.blockBody(1+r.Intn(2), d-1) + g.maybeClosure(k) + "}"
	g.loopExit()
	g.pop()
	if kw == "var" {
		for _, n := range names {
			g.declare(&variable{name: n, k: kAny, mut: false, decl: "var"})
		}
	}
	return one(cat("for("+kw, pat, "of", src+")"+body), false)
}

func (g *gen) whileStmt(d int) []stmtText {
	r := g.r
	w := g.fresh("w")
	lim := 1 + r.Intn(3)
	kw := "var"
	if g.level >= 2015 && r.Bool() {
		kw = "let"
	}
	g.declare(&variable{name: w, k: kNum, mut: false, decl: kw})
	g.loopEnter("")
	defer g.loopExit()
	if r.Bool() {
		g.kindHit("while")
		body := g.blockBody(1+r.Intn(2), d-1)
		pre := kw + " " + w + "=0;"
		if r.Chance(1, 3) {
			pre = kw + " " + w + "=0;" + g.exprStmtText(g.sideEffectExpr(d-1)) + ";"
		}
		return one(fmt.Sprintf("%swhile(%s<%d){%s++;%s}", pre, w, lim, w, body), false)
	}
	g.kindHit("do-while")
	body := g.blockBody(1+r.Intn(2), d-1)
	if r.Chance(1, 4) {
		// do-while with a single statement body and ASI after the parenthesis
		return []stmtText{{s: fmt.Sprintf("%s %s=0", kw, w), semi: true}, {s: fmt.Sprintf("do %s++;while(%s<%d)", w, w, lim), semi: true}}
	}
	return one(fmt.Sprintf("%s %s=0;do{%s++;%s}while(%s<%d)", kw, w, w, body, w, lim), true)
}

func (g *gen) switchStmt(d int) []stmtText {
	r := g.r
	g.kindHit("switch")
	disc := g.expr(g.primKind(), d-1).s
	n := 1 + r.Intn(4)
	var b strings.Builder
	b.WriteString("switch(" + disc + "){")
	g.fn.sw++
	g.push(false)
	defPos := -1
	if r.Chance(2, 3) {
		defPos = r.Intn(n + 1)
	}
	for i := 0; i <= n; i++ {
		if i == defPos {
			b.WriteString("default:")
		} else if i < n {
			b.WriteString(cat("case", g.w(g.leaf(g.primKind()), pAssign)+":"))
		} else {
			continue
		}
		if r.Chance(1, 6) {
			continue // empty clause falls through
		}
		// clause-local visibility: lexical declarations are not used by later clauses
		mark := len(g.cur().vars)
		body := g.stmtList(1+r.Intn(2), d-1, false)
		hidden := g.cur().vars[mark:]
		g.cur().vars = g.cur().vars[:mark]
		for _, v := range hidden {
			if v.decl == "fn" {
				continue
			}
			// keep the name reserved but unusable
			g.cur().vars = append(g.cur().vars, &variable{name: v.name, k: kCls + 1, decl: v.decl})
		}
		if r.Chance(1, 5) {
			body = "{" + body + "}"
		}
		b.WriteString(body)
		if r.Chance(2, 3) {
			b.WriteString("break;")
		}
	}
	g.pop()
	g.fn.sw--
	b.WriteString("}")
	return one(b.String(), false)
}

func (g *gen) tryStmt(d int) []stmtText {
	r := g.r
	g.kindHit("try")
	var b strings.Builder
	b.WriteString("try{")
	g.push(false)
	b.WriteString(g.stmtList(1+r.Intn(2), d-1, false))
	if r.Chance(1, 2) {
		th := g.w(g.expr(kAny, d-1), pAssign)
		if r.Chance(1, 3) {
			th = r.Pick("new Error(\"x\")", "new TypeError(\"t\")", "{a:1}", "null.a", "undefined_name_1")
		}
		b.WriteString("if(" + g.condTest(d-1).s + ")throw " + th)
	}
	g.pop()
	b.WriteString("}")
	hasCatch := r.Chance(4, 5)
	if hasCatch {
		g.push(false)
		switch {
		case g.level >= 2019 && r.Chance(1, 4):
			b.WriteString("catch{")
		case g.level >= 2015 && r.Chance(1, 8):
			m := g.fresh("c")
			g.declare(&variable{name: m, k: kAny, mut: true, decl: "catch"})
			b.WriteString("catch({name:" + m + "}){")
		default:
			c := g.fresh("c")
			b.WriteString("catch(" + c + "){")
			if r.Chance(2, 3) {
				b.WriteString(r.Pick("h9("+c+");", "h9(typeof "+c+");", "h9("+c+" instanceof Error);"))
			}
		}
		b.WriteString(g.stmtList(1+r.Intn(2), d-1, false))
		g.pop()
		b.WriteString("}")
	}
	if !hasCatch || r.Chance(1, 3) {
		g.push(false)
		g.fn.inFinally++
		b.WriteString("finally{" + g.stmtList(1+r.Intn(2), d-1, false) + "}")
		g.fn.inFinally--
		g.pop()
	}
	return one(b.String(), false)
}

type paramInfo struct {
	text  string
	arity int
}

// funcParts generates parameters and body of a function in a fresh scope.
func (g *gen) funcParts(d int, fc *fctx, nStmts int, exprBody bool) (params string, body string, arity int) {
	r := g.r
	old := g.fn
	g.fn = fc
	g.push(true)
	arity = r.Intn(3)
	var ps []string
	simple := true
	for i := 0; i < arity; i++ {
		p := g.fresh("p")
		k := g.primKind()
		g.declare(&variable{name: p, k: k, mut: true, decl: "param"})
		ps = append(ps, p)
	}
	if g.level >= 2015 && !fc.strictDirective() {
		switch r.Intn(8) {
		case 0: // default value, also with side effects (N02, repaired: such a parameter stays)
			p := g.fresh("p")
			def := r.Pick("1", "\"d\"", "g0", "e", "t", "null", "void 0", "[]", "{}", "-1", "!0")
			if len(ps) > 0 && r.Bool() {
				def = ps[0]
			}
			if r.Chance(1, 3) {
				def = g.hostCall(1).s
			}
			g.declare(&variable{name: p, k: kAny, mut: true, decl: "param"})
			ps = append(ps, p+"="+def)
			simple = false
			if !g.known {
				fc.args = false // N02: dropping the parameter changes arguments mapping
			}
		case 1: // destructured with default (the minifier's parser rejects these in arrow functions)
			if fc.isArrow {
				break
			}
			p, q := g.fresh("p"), g.fresh("p")
			g.declare(&variable{name: p, k: kAny, mut: true, decl: "param"})
			g.declare(&variable{name: q, k: kAny, mut: true, decl: "param"})
			if r.Bool() {
				ps = append(ps, "{a:"+p+",b:"+q+"=2}={a:1}")
			} else {
				ps = append(ps, "["+p+","+q+"]=[1,2]")
			}
			simple = false
		case 2: // rest
			p := g.fresh("p")
			g.declare(&variable{name: p, k: kArr, mut: true, decl: "param"})
			ps = append(ps, "..."+p)
			simple = false
		}
	}
	params = strings.Join(ps, ","+g.sp())
	if exprBody {
		e := g.expr(kAny, d-1)
		body = g.w(e, pAssign)
		if startsWithAny(body, "{") {
			body = "(" + body + ")"
		}
	} else {
		var b strings.Builder
		if simple && !fc.strict && !g.with && r.Chance(1, 12) {
			fc.strict = true
			b.WriteString(r.Pick("\"use strict\";", "'use strict';"))
		}
		b.WriteString(g.stmtList(nStmts, d-1, false))
		if r.Chance(3, 4) && !fc.isCtor() {
			b.WriteString(g.returnText(d - 1))
		}
		body = b.String()
	}
	g.pop()
	g.fn = old
	return
}

func (fc *fctx) strictDirective() bool { return false }
func (fc *fctx) isCtor() bool          { return false }

func (g *gen) returnText(d int) string {
	r := g.r
	switch r.Intn(8) {
	case 0:
		if g.known {
			return r.Pick("return undefined", "return void 0")
		}
		return "return"
	case 1:
		return "return"
	case 2:
		return "return " + g.commaExpr(kAny, d).s
	default:
		e := g.expr(kAny, d)
		if !g.known && (startsWithAny(e.s, "undefined", "void") || strings.Contains(e.s, ",undefined") || strings.Contains(e.s, ",void")) {
			return "return 0"
		}
		return cat("return", e.s)
	}
}

func (g *gen) funcExprText(d int, name string) string {
	fc := &fctx{isFn: true, strict: g.strictNow(), args: true}
	params, body, _ := g.funcParts(d, fc, 1+g.r.Intn(2), false)
	if name != "" {
		return "function " + name + "(" + params + "){" + body + "}"
	}
	return "function(" + params + "){" + body + "}"
}

func (g *gen) arrowText(d int, _ int) string {
	r := g.r
	fc := &fctx{isFn: true, isArrow: true, strict: g.strictNow(), method: g.fn.method, args: g.fn.args && !g.fn.isArrow || g.fn.args}
	if len(g.scopes) == 1 {
		fc.args = false
	}
	exprBody := r.Chance(1, 2)
	params, body, arity := g.funcParts(d, fc, 1+r.Intn(2), exprBody)
	ps := "(" + params + ")"
	if arity == 1 && !strings.ContainsAny(params, ",=.{[ \n/") && r.Bool() {
		ps = params
	}
	if exprBody {
		return ps + "=>" + body
	}
	return ps + "=>{" + body + "}"
}

func (g *gen) funcDeclStmt(d int, top bool) []stmtText {
	r := g.r
	name := g.fresh("f")
	if r.Chance(1, 3) && g.level >= 2015 {
		// function-valued const/let/var
		kw := g.declKeyword()
		g.kindHit("fn-expr-decl")
		var text string
		fc := &fctx{isFn: true, strict: g.strictNow(), args: true}
		var arity int
		if r.Bool() {
			text = g.arrowTextArity(d, &arity)
		} else {
			params, body, a := g.funcParts(d, fc, 1+r.Intn(3), false)
			arity = a
			inner := ""
			if r.Chance(1, 3) {
				inner = " " + g.fresh("fe")
			}
			text = "function" + inner + "(" + params + "){" + body + "}"
		}
		g.declare(&variable{name: name, k: kFn, mut: false, decl: "const", arity: arity})
		g.registerTop(name, kw, top)
		out := []stmtText{{s: cat(kw, name+"="+text), semi: true}}
		out = append(out, g.callStmt(name, arity, d))
		return out
	}
	g.kindHit("function")
	fc := &fctx{isFn: true, strict: g.strictNow(), args: true}
	params, body, arity := g.funcParts(d, fc, 1+r.Intn(4), false)
	g.declare(&variable{name: name, k: kFn, mut: false, decl: "fn", arity: arity})
	out := []stmtText{{s: "function " + name + "(" + params + "){" + body + "}", semi: false, fn: true}}
	out = append(out, g.callStmt(name, arity, d))
	if r.Chance(1, 3) {
		out = append(out, g.callStmt(name, arity, d))
	}
	return out
}

func (g *gen) arrowTextArity(d int, arity *int) string {
	r := g.r
	fc := &fctx{isFn: true, isArrow: true, strict: g.strictNow(), method: g.fn.method, args: g.fn.args}
	if len(g.scopes) == 1 {
		fc.args = false
	}
	exprBody := r.Chance(1, 2)
	params, body, a := g.funcParts(d, fc, 1+r.Intn(3), exprBody)
	*arity = a
	ps := "(" + params + ")"
	if a == 1 && !strings.ContainsAny(params, ",=.{[ \n/") && r.Bool() {
		ps = params
	}
	if exprBody {
		return ps + "=>" + body
	}
	return ps + "=>{" + body + "}"
}

func (g *gen) callStmt(name string, arity, d int) stmtText {
	r := g.r
	n := arity
	if r.Chance(1, 6) {
		n = arity + 1
	} else if r.Chance(1, 8) && arity > 0 {
		n = arity - 1
	}
	call := name + g.args(n, d-1)
	if r.Chance(4, 5) {
		return stmtText{s: g.host() + "(" + call + ")", semi: true}
	}
	return stmtText{s: call, semi: true}
}

func (g *gen) methodText(name string, d int, static bool, derived bool) string {
	fc := &fctx{isFn: true, method: true, derived: derived, strict: g.strictNow(), args: true}
	params, body, _ := g.funcParts(d, fc, 1+g.r.Intn(2), false)
	return name + "(" + params + "){" + body + "}"
}

func (g *gen) classDeclStmt(d int, top bool) []stmtText {
	r := g.r
	g.kindHit("class")
	name := g.fresh("C")
	var base *variable
	if r.Chance(1, 3) {
		base = g.varOf(kCls)
	}
	var b strings.Builder
	b.WriteString("class " + name)
	if base != nil {
		b.WriteString(" extends " + base.name)
	}
	b.WriteString("{")
	var meths []string
	// class bodies are strict
	oldStrict := g.fn.strict
	g.fn.strict = true
	if r.Chance(2, 3) {
		p := g.fresh("p")
		old := g.fn
		g.fn = &fctx{isFn: true, method: true, strict: true, args: true}
		g.push(true)
		g.declare(&variable{name: p, k: kAny, mut: true, decl: "param"})
		b.WriteString("constructor(" + p + "){")
		if base != nil {
			b.WriteString("super(" + p + ");")
		}
		b.WriteString("this." + g.dataProp0() + "=" + g.w(g.expr(g.primKind(), d-1), pAssign) + ";")
		if r.Bool() {
			b.WriteString(g.exprStmtText(g.sideEffectExpr(d-1)) + ";")
		}
		b.WriteString("}")
		g.pop()
		g.fn = old
	}
	nm := 1 + r.Intn(3)
	for i := 0; i < nm; i++ {
		switch r.Intn(12) {
		case 0, 1, 2, 3:
			m := g.fresh("m")
			meths = append(meths, m)
			b.WriteString(g.methodText(m, d-1, false, base != nil))
		case 4:
			b.WriteString("get " + g.dataProp0() + "x(){" + g.accessorBody(d-1) + "}")
		case 5:
			q := g.fresh("q")
			b.WriteString("set " + g.dataProp0() + "y(" + q + "){h9(" + q + ")}")
		case 6:
			b.WriteString("static " + g.methodText(g.fresh("sm"), d-1, true, false))
		case 7:
			if g.level >= 2022 {
				b.WriteString(r.Pick("", "static ") + g.dataProp0() + r.Pick("f", "g") + "=" + g.w(g.expr(g.primKind(), d-1), pAssign) + ";")
			}
		case 8:
			if g.level >= 2022 {
				pn := "#" + g.fresh("pv")
				gm := g.fresh("m")
				meths = append(meths, gm)
				b.WriteString(pn + "=" + g.w(g.leaf(g.primKind()), pAssign) + ";" + gm + "(){return this." + pn + "}")
			}
		case 9:
			if g.level >= 2022 {
				b.WriteString("static{" + g.exprStmtText(g.sideEffectExpr(d-1)) + "}")
			}
		case 10:
			b.WriteString("[" + g.plainStr() + "+\"m\"](){return 1}")
		case 11:
			b.WriteString(r.Pick("'s t'", "\"q\"", "1", "if", "get", "static") + "(){return 2}")
		}
	}
	b.WriteString("}")
	g.fn.strict = oldStrict
	g.declare(&variable{name: name, k: kCls, mut: false, decl: "class"})
	g.registerTop(name, "class", top)
	out := []stmtText{{s: b.String(), semi: false}}
	// instantiate
	inst := g.fresh("v")
	kw := g.declKeyword()
	instArgs := g.args(r.Intn(2), d-1)
	g.declare(&variable{name: inst, k: kObj, mut: false, decl: kw, meths: meths})
	g.registerTop(inst, kw, top)
	out = append(out, stmtText{s: cat(kw, inst+"=new "+name+instArgs), semi: true})
	if len(meths) > 0 {
		out = append(out, stmtText{s: g.host() + "(" + inst + "." + meths[0] + g.args(r.Intn(2), d-1) + ")", semi: true})
	}
	return out
}

func (g *gen) labelledStmt(d int) []stmtText {
	r := g.r
	g.kindHit("label")
	l := g.fresh("lbl_")
	g.fn.labels = append(g.fn.labels, l)
	defer func() { g.fn.labels = g.fn.labels[:len(g.fn.labels)-1] }()
	if r.Bool() {
		// labelled block with conditional break
		g.push(false)
		inner := g.stmtList(1+r.Intn(2), d-1, false)
		brk := "if(" + g.condTest(d-1).s + ")break " + l + ";"
		rest := g.stmtList(1+r.Intn(2), d-1, false)
		g.pop()
		return one(l+":{"+inner+brk+rest+"}", false)
	}
	g.fn.loopLbl = append(g.fn.loopLbl, l)
	defer func() { g.fn.loopLbl = g.fn.loopLbl[:len(g.fn.loopLbl)-1] }()
	sts := g.forStmt(d)
	sts[0].s = l + ":" + sts[0].s
	if strings.Contains(sts[0].s, ";for(") && !strings.HasPrefix(sts[0].s, l+":for(") {
		// the label must sit on the loop, not on a preceding statement
		sts[0].s = strings.Replace(sts[0].s[len(l)+1:], ";for(", ";"+l+":for(", 1)
	}
	return sts
}

func (g *gen) jumpStmt(d int) []stmtText {
	r := g.r
	cond := "if(" + g.condTest(d-1).s + ")"
	if r.Chance(1, 4) {
		cond = ""
	}
	switch {
	case g.fn.loop > 0 && g.fn.inFinally == 0 && r.Chance(1, 2):
		g.kindHit("break/continue")
		if len(g.fn.loopLbl) > 0 && r.Chance(1, 3) {
			return one(cond+r.Pick("break ", "continue ")+g.fn.loopLbl[r.Intn(len(g.fn.loopLbl))], true)
		}
		return one(cond+r.Pick("break", "continue"), true)
	case g.fn.isFn && g.fn.inFinally == 0:
		g.kindHit("return")
		return one(cond+g.returnText(d-1), true)
	case len(g.fn.labels) > 0 && g.fn.inFinally == 0:
		g.kindHit("break/continue")
		return one(cond+"break "+g.fn.labels[r.Intn(len(g.fn.labels))], true)
	default:
		g.kindHit("throw")
		if cond == "" {
			cond = "if(" + g.condTest(d-1).s + ")"
		}
		return one("try{"+cond+"throw "+g.w(g.expr(kAny, d-1), pAssign)+";"+g.exprStmtText(g.sideEffectExpr(d-1))+"}catch("+g.fresh("c")+"){}", false)
	}
}

func (g *gen) withStmt(d int) []stmtText {
	g.kindHit("with")
	g.with = true
	obj := g.r.Pick("g4", "o", "{a:1,b:2}", "s")
	return one("with("+obj+"){"+g.host()+"(a,b);"+g.blockBody(1, d-1)+"}", false)
}

func (g *gen) generatorStmt(d int, top bool) []stmtText {
	r := g.r
	g.kindHit("generator")
	name := g.fresh("gn")
	fc := &fctx{isFn: true, isGen: true, strict: g.strictNow(), args: true}
	params, body, arity := g.funcParts(d, fc, 1+r.Intn(2), false)
	pre := "yield " + g.w(g.leaf(kAny), pAssign) + ";"
	g.declare(&variable{name: name, k: kFn, gen: true, mut: false, decl: "fn", arity: arity})
	out := []stmtText{{s: "function*" + r.Pick(" ", "") + name + "(" + params + "){" + pre + body + "}", fn: true}}
	switch r.Intn(3) {
	case 0:
		out = append(out, stmtText{s: g.host() + "([..." + name + g.args(arity, d-1) + "])", semi: true})
	case 1:
		k := g.fresh("k")
		out = append(out, stmtText{s: "for(var " + k + " of " + name + g.args(arity, d-1) + ")h9(" + k + ")", semi: true})
	default:
		it := g.fresh("it")
		out = append(out, stmtText{s: "var " + it + "=" + name + g.args(arity, d-1) + ";h9(" + it + ".next().value," + it + ".next(5).done)", semi: true})
	}
	return out
}

func (g *gen) asyncStmt(d int, top bool) []stmtText {
	r := g.r
	g.kindHit("async")
	name := g.fresh("af")
	fc := &fctx{isFn: true, isAsync: true, strict: g.strictNow(), args: true}
	params, body, arity := g.funcParts(d, fc, 1+r.Intn(2), false)
	g.declare(&variable{name: name, k: kCls + 2, mut: false, decl: "fn", arity: arity})
	out := []stmtText{{s: "async function " + name + "(" + params + "){" + body + "}", fn: true}}
	out = append(out, stmtText{s: name + g.args(arity, d-1) + ".then(h9,h9)", semi: true})
	return out
}

// idiom emits shapes that target specific rewrites of the minifier.
func (g *gen) idiom(d int, top bool) []stmtText {
	r := g.r
	g.kindHit("idiom")
	h := g.host
	e := func() string { return g.w(g.expr(kAny, d-1), pAssign) }
	c := func() string { return g.condTest(d - 1).s }
	cp := func() string { return g.w(g.condTest(d-1), pBitOr) }
	switch r.Intn(51) {
	case 47, 48: // else after an if / else-if chain whose LAST if has no else, with branches that stay statements (loops, try):
		// the braces around the chain must be kept, else the outer else attaches to the innermost if
		g.kindHit("idiom:dangling-else-after-chain")
		st := func(k int) string {
			switch r.Intn(4) {
			case 0:
				return "for(var " + g.fresh("i") + "=0;" + h() + "(" + fmt.Sprint(k) + "),false;);"
			case 1:
				return "try{" + h() + "(" + fmt.Sprint(k) + ")}catch(" + g.fresh("e") + "){}"
			case 2:
				return "while(" + h() + "(" + fmt.Sprint(k) + ")&&0);"
			}
			return "switch(" + h() + "(" + fmt.Sprint(k) + ")){}"
		}
		var chain string
		switch r.Intn(4) {
		case 0:
			chain = "if(" + c() + ")" + st(1) + "else if(" + c() + ")" + st(2)
		case 1:
			chain = "if(" + c() + ")" + st(1) + "else if(" + c() + ")" + st(2) + "else if(" + c() + ")" + st(3)
		case 2:
			chain = "if(" + c() + ")" + st(1) + "else{if(" + c() + ")" + st(2) + "}"
		default:
			chain = "if(" + c() + "){" + st(1) + "}else for(;" + h() + "(4),false;)if(" + c() + ")" + st(2)
		}
		return one("if("+c()+"){"+chain+"}else "+st(9), true)
	case 49, 50: // a var declared two blocks deep is hoisted; a lexical declaration in the block IN BETWEEN must not get the same
		// short name, and another var of the function makes the hoist happen
		g.kindHit("idiom:hoist-across-lexical-scope")
		f, p := g.fresh("f"), g.fresh("p")
		g.declare(&variable{name: f, k: kFn, decl: "fn", arity: 1})
		it, a, z, cc := g.fresh("it"), g.fresh("a"), g.fresh("z"), g.fresh("c")
		var body string
		switch r.Intn(3) {
		case 0:
			body = "for(const " + it + " of " + p + "){if(" + it + ">1){var " + a + "=" + it + "*2," + z + "=1;" + h() + "(" + a + "," + z + ")}" + h() + "(" + it + ")}var " + cc + ";" + cc + "=5;return " + cc
		case 1:
			body = "{let " + it + "=" + p + ".length;{var " + a + "=" + it + "+1," + z + "=2;" + h() + "(" + a + "," + z + ")}" + h() + "(" + it + ")}var " + cc + "=7;return " + cc + "+" + a
		default:
			body = "try{throw " + p + "}catch(" + it + "){if(" + it + "){var " + a + "=" + it + "," + z + "=3;" + h() + "(" + a + "," + z + ")}" + h() + "(" + it + ")}var " + cc + ";" + cc + "=1;return " + cc
		}
		return []stmtText{{s: "function " + f + "(" + p + "){" + body + "}", fn: true}, {s: h() + "(" + f + "([1,2,3]))", semi: true}}
	case 33, 34: // several var declarations in one function (hoisting) with a destructuring declarator after initialised ones:
		// the pattern must not be moved in front of the initialisers it follows (K121)
		a, b, z := g.fresh("v"), g.fresh("v"), g.fresh("v")
		g.kindHit("idiom:hoist-destructuring-order")
		pat := r.Pick("["+b+"]=["+a+"]", "{p:"+b+"}={p:"+a+"}", "["+b+"]=["+h()+"(3)]", "{p:"+b+"}={p:"+h()+"(4)}", "["+b+"="+a+"]=[]")
		first := r.Pick(a+"="+h()+"(1)", a+"=5", a+"="+e())
		mid := r.Pick("", "", ","+g.fresh("v"), ","+g.fresh("v")+"="+h()+"(2)")
		return one(h()+"(function(){var "+z+";"+h()+"(0);var "+first+mid+","+pat+";return["+a+","+b+"]}())", true)
	case 41, 42: // a block whose only statement is a function declaration, as the body of a loop / if / label: the braces stay (K125).
		// The function is not referred to outside its block (Annex B hoisting of block functions is outside C01's domain)
		g.kindHit("idiom:lone-function-declaration-body")
		fn := g.fresh("f") // not declared to the generator: nothing else may refer to it
		decl := r.Pick("function "+fn+"(){return 1}", "function "+fn+"(){return 1}", "function*"+fn+"(){}", "async function "+fn+"(){}")
		if g.level < 2017 {
			decl = "function " + fn + "(){return 1}"
		}
		switch r.Intn(5) {
		case 0:
			return one("for(var k=0;k<1;k++){"+decl+"}"+h()+"(3)", true)
		case 1:
			return one("if("+c()+"){"+decl+"}"+h()+"(3)", true)
		case 2:
			return one("if("+c()+"){"+decl+"}else{"+h()+"(2)}"+h()+"(3)", true)
		case 3:
			return one("do{"+decl+"}while(0);"+h()+"(3)", true)
		default:
			return one("lb:{"+decl+"}"+h()+"(3)", true)
		}
	case 45, 46: // regular expressions whose escapes matter: \, inside braces, an escaped dash after [ inside a class (K127)
		g.kindHit("idiom:regexp-escapes-that-matter")
		type rt struct{ re, subj string }
		t := []rt{{`/a{1\,2}/`, "aa"}, {`/a{1\,2}/`, "a{1,2}"}, {`/[a[\-z]/`, "b"}, {`/[a[\-z]/`, "-"}, {`/[[\-\]]/`, "\\\\"}, {`/[[\-\]]/`, "-"},
			{`/^a{2\,}$/`, "aaa"}, {`/[x\-z]/`, "y"}, {`/[\-z]/`, "-"}, {`/[a\-]/`, "-"}, {`/[\^a]/`, "b"}, {`/[^\-a]/`, "-"}, {`/[.\-\/]/`, "-"}, {`/x\-y/`, "x-y"},
			// (K134 repaired) the v flag: escaped punctuators in a class are not the bare characters (&& is intersection, !! is reserved)
			{`/[a\&\&b]/v`, "&"}, {`/[a\&\&b]/v`, "a"}, {`/[\!\!]/v`, "!"}, {`/[a\-\-b]/v`, "-"}, {`/[x\~\~]/v`, "~"}}[r.Intn(19)]
		return one(h()+"("+t.re+".test(\""+t.subj+"\"),String("+t.re+".exec(\""+t.subj+"\")))", true)
	case 43, 44: // class fields with numeric / string names after static (K126)
		g.kindHit("idiom:static-field-names")
		if g.level < 2022 {
			return one(h()+"(1)", true)
		}
		cn := g.fresh("C")
		nm := r.Pick("1", "0x10", ".5", "1e3", "\"a b\"", "\"q\"", "2")
		key := map[string]string{"1": "1", "0x10": "16", ".5": "0.5", "1e3": "1000", "\"a b\"": "\"a b\"", "\"q\"": "\"q\"", "2": "2"}[nm]
		return one("class "+cn+"{static "+nm+"="+h()+"(7);"+r.Pick("", "static x=1;", nm+"=3;")+"}"+h()+"("+cn+"["+key+"],Object.keys("+cn+").join())", true)
	case 37, 38: // inner scopes of every kind whose own declarations already carry the short names the renamer hands out first
		// (e, t, n, r, i): if such a scope is skipped by the renamer, the enclosing function's renamed variables are captured
		g.kindHit("idiom:short-names-in-inner-scope")
		f, p1, p2 := g.fresh("f"), g.fresh("p"), g.fresh("p")
		g.declare(&variable{name: f, k: kFn, decl: "fn", arity: 2})
		sn := r.Pick("e", "t", "n", "r", "i")
		sn2 := r.Pick("e", "t", "n")
		use := h() + "(" + sn + "," + p1 + "," + p2 + ")"
		var body string
		switch r.Intn(7) {
		case 0:
			body = "try{" + h() + "(1)}finally{let " + sn + "=" + h() + "(2);" + use + "}"
		case 1:
			body = "try{throw " + p1 + "}catch(" + sn + "){" + use + "}"
		case 2:
			body = "try{throw 1}catch{let " + sn + "=" + p2 + "+1;" + use + "}"
		case 3:
			body = "{let " + sn + "=" + p1 + "+" + p2 + ";" + use + "}"
		case 4:
			body = "for(let " + sn + "=0;" + sn + "<1;" + sn + "++){" + use + "}"
		case 5:
			body = "switch(" + p1 + "){default:let " + sn + "=" + p2 + ";" + use + "}"
		default:
			body = "try{" + h() + "(1)}catch(" + sn2 + "){}finally{const " + sn + "=[" + p1 + "];" + use + "}"
		}
		return []stmtText{{s: "function " + f + "(" + p1 + "," + p2 + "){" + body + "}", fn: true}, {s: f + "(3,4)", semi: true}}
	case 39, 40: // shorthand properties and patterns over a renamed local of an ENCLOSING scope: the property name stays
		g.kindHit("idiom:shorthand-from-enclosing-scope")
		f := g.fresh("f")
		g.declare(&variable{name: f, k: kFn, decl: "fn", arity: 1})
		nm := r.Pick("name", "value", "key", "alpha")
		inner := r.Pick(
			"return function(){return{"+nm+"}}()",
			"return(()=>({"+nm+"}))()",
			"{let q=1;return{"+nm+",q}}",
			"for(var k=0;k<1;k++){"+h()+"({"+nm+"})}return 0",
			"var o={"+nm+":5};return function(){({"+nm+"}=o);return "+nm+"}()",
			"return function(o){var{"+nm+"="+nm+"}=o;return "+nm+"}({})")
		return []stmtText{{s: "function " + f + "(" + nm + "){" + inner + "}", fn: true}, {s: h() + "(JSON.stringify(" + f + "(7)))", semi: true}}
	case 35, 36: // an if / else whose branch is a labelled block ending in a break to its own label: control continues after
		// the if, so the else must not be flattened into the surrounding list (lastStmt does not look through labels)
		g.kindHit("idiom:labelled-block-branch")
		l := g.fresh("l")
		lb := l + ":{" + h() + "(1);" + r.Pick("break "+l, "if("+c()+")break "+l+";"+h()+"(5);break "+l) + "}"
		if r.Bool() {
			return one("if("+c()+")"+lb+"else "+h()+"(2);"+h()+"(3)", true)
		}
		return one("if(!("+c()+"))"+h()+"(2);else "+lb+h()+"(3)", true)
	case 31, 32: // (x, E) op y as a statement: the parentheses are unwrapped and E becomes the left operand of op (K119)
		last := r.Pick("!("+c()+"&&"+c()+")", "!("+c()+"||"+c()+")", "!("+cp()+"=="+cp()+")", c()+"?"+e()+":"+e(), "true", "!("+c()+"&&"+c()+")")
		op := r.Pick("&&", "&&", "||", "&&")
		g.kindHit("idiom:comma-group-left-operand")
		return one("("+h()+"(1),"+last+")"+op+h()+"(2)", true)
	case 29, 30: // a captured variable used at every level of a closure chain, locals declared at the bottom (renamer: link chain)
		x := g.fresh("v")
		g.declare(&variable{name: x, k: kNum, decl: "var"})
		depth := 2 + r.Intn(3)
		var b strings.Builder
		b.WriteString("var " + x + "=" + r.Pick("7", "11", "3") + ";" + h() + "(")
		closers := ""
		for d := 0; d < depth; d++ {
			m := g.fresh("m")
			switch r.Intn(3) {
			case 0:
				b.WriteString("function(){var " + m + "=" + x + "+" + fmt.Sprint(d) + ";" + h() + "(" + m + ");return ")
				closers = "}()" + closers
			case 1:
				b.WriteString("(()=>{let " + m + "=" + x + "*2;" + h() + "(" + m + ");return ")
				closers = "})()" + closers
			default:
				b.WriteString("function " + g.fresh("n") + "(){" + h() + "(" + x + ");return ")
				closers = "}()" + closers
			}
		}
		l1, l2 := g.fresh("l"), g.fresh("l")
		b.WriteString("function(){var " + l1 + "=1," + l2 + "=2;return " + x + "+" + l1 + "*10+" + l2 + "*100}()")
		b.WriteString(closers + ")")
		g.kindHit("idiom:closure-chain")
		return one(b.String(), true)
	case 27, 28: // c?f(x):f(y) where evaluating c rebinds f: the callee must be read AFTER the condition (K117)
		f := g.fresh("f")
		s := g.fresh("f")
		g.declare(&variable{name: f, k: kFn, decl: "var", arity: 1})
		g.declare(&variable{name: s, k: kFn, decl: "fn", arity: 0})
		cond := s + "()"
		switch r.Intn(4) {
		case 0:
			cond = "(" + f + "=function(v){return " + h() + "(\"n\",v)}," + r.Pick("1", "0", "h9()") + ")"
		case 1:
			cond = s + "()" + r.Pick("&&", "||") + c()
		}
		g.kindHit("idiom:callee-rebound-by-condition")
		return one("var "+f+"=function(v){return "+h()+"(\"o\",v)};function "+s+"(){"+f+"=function(v){return "+h()+"(\"n\",v)};return "+r.Pick("1", "0", "h9()")+"}"+
			h()+"("+cond+"?"+f+"("+e()+"):"+f+"("+e()+"))", true)
	case 0: // return merging inside a function
		f := g.fresh("f")
		p := g.fresh("p")
		g.declare(&variable{name: f, k: kFn, decl: "fn", arity: 1})
		var body string
		switch r.Intn(8) {
		case 0:
			body = "if(" + p + ")return " + h() + "(1);return " + h() + "(2)"
		case 1:
			body = "if(" + p + "){return 1}else{return 2}"
		case 2:
			body = "if(" + p + ")return;h9(" + p + ");return"
		case 3:
			body = "if(!" + p + ")throw 1;else throw 2"
		case 4:
			body = "if(" + p + "){h9(1);return 1}else{h9(2)}h9(3);return 3"
		case 5:
			body = "if(" + p + ")throw " + p + ";h9(0);throw 3"
		case 6:
			body = "h9(1);if(" + p + ")return 5;h9(2);if(" + p + "===0)return 6;return 7"
		default:
			body = "if(" + p + "){return}else{return}"
		}
		return []stmtText{{s: "function " + f + "(" + p + "){" + body + "}", fn: true},
			{s: "try{" + h() + "(" + f + "(" + e() + "))}catch(" + g.fresh("c") + "){h9(\"c\")}", semi: false}}
	case 1: // var hoisting: use before declaration, redeclaration, declaration in nested block
		v := g.fresh("v")
		g.declare(&variable{name: v, k: kAny, mut: true, decl: "var"})
		switch r.Intn(4) {
		case 0:
			return one(h()+"("+v+");var "+v+"="+e()+";"+h()+"("+v+")", true)
		case 1:
			return one("var "+v+"=1;var "+v+";"+h()+"("+v+");var "+v+"=2", true)
		case 2:
			return one("if("+c()+"){var "+v+"="+e()+"}"+h()+"("+v+")", true)
		default:
			return one(v+"=1;var "+v+";"+h()+"("+v+")", true)
		}
	case 2: // expression statement merged into the following statement
		switch r.Intn(6) {
		case 0:
			return one(h()+"(1);if("+c()+")"+h()+"(2)", true)
		case 1:
			return one(h()+"(1);switch("+e()+"){case 1:"+h()+"(2)}", false)
		case 2:
			return one(h()+"(1);"+h()+"(2);for(;;){break}", false)
		case 3:
			return one(h()+"(1);try{throw ("+h()+"(2),"+e()+")}catch("+g.fresh("c")+"){}", false)
		case 4:
			w := g.fresh("w")
			g.declare(&variable{name: w, k: kNum, decl: "var"})
			return one("var "+w+"=0;"+h()+"(1);while("+w+"<2)"+w+"++", true)
		default:
			v := g.fresh("v")
			g.declare(&variable{name: v, k: kAny, mut: true, decl: "var"})
			return one(h()+"(1);var "+v+"="+e(), true)
		}
	case 3: // undefined / Infinity / booleans
		return one(h()+"(undefined,Infinity,-Infinity,true,false,void 0,!0,!1,NaN,1/0)", true)
	case 4: // undefined/Infinity as operands with precedence
		return one(h()+"(undefined+1,Infinity*2,-Infinity,typeof undefined,Infinity.toString(),true+1,false.toString(),!true,true&&1,2**-1)", true)
	case 5: // string concatenation with quotes
		return one(h()+"('a\\'b'+\"c\\\"d\",\"a\"+'b'+`c`,'\"'+\"'\",\"x\"+("+g.leaf(kStr).s+"+\"y\")+'z')", true)
	case 6: // property names
		ob := g.varOf(kObj)
		n := "g4"
		if ob != nil {
			n = ob.name
		}
		return one(h()+"("+n+"[\"a\"],"+n+"['b'],"+n+"[\"a-b\"],"+n+"[\"1\"],"+n+"[1],"+n+"[\"if\"],"+n+"[\"\"],"+n+"[\"a b\"])", true)
	case 7: // object literal keys
		return one(h()+"({\"a\":1,'b':2,\"c-d\":3,1:4,\"2\":5,if:6,\"é\":7,[\"k\"+1]:8})", true)
	case 8: // number member access
		return one(h()+"(1..toString(),1.0.toFixed(1),(1).toString(),1 .toString(),1.5.toFixed(0),0x10.toString(),1e3.toString(),.5.toFixed(1))", true)
	case 9: // unary/binary sign adjacency
		v := g.varOf(kNum)
		n := "g0"
		if v != nil {
			n = v.name
		}
		return one(h()+"("+n+"- -"+n+","+n+"+ +"+n+","+n+" - -1,"+n+"+ +1,- -"+n+",+ +"+n+",-(-"+n+"),+(+"+n+"),"+n+"-(-1),"+n+"+(+1))", true)
	case 10: // increments next to signs
		v := g.mutVarOf(kNum)
		if v == nil {
			break
		}
		n := v.name
		return one(h()+"("+n+"++ + 1,"+n+"-- - 1,1+ ++"+n+",1- --"+n+","+n+"+ ++"+n+","+n+"- --"+n+","+n+"++ + +"+n+","+n+"-- - -"+n+")", true)
	case 11: // html-comment like sequences
		v := g.mutVarOf(kNum)
		if v == nil {
			break
		}
		n := v.name
		return one(h()+"(1<! --"+n+","+n+"-- >0,"+n+"< !--"+n+")", true)
	case 12: // regex next to division
		v := g.mutVarOf(kNum)
		n := "g0"
		if v != nil {
			n = v.name
		}
		return one(h()+"("+n+"/2/1,"+n+" / /a/.exec(\"a\").length,"+n+"++ /2,4/ +"+n+",/=/.test(\"=\"),"+n+"/ /[/]/.exec(\"/\").length)", true)
	case 13: // arrow function bodies
		if g.level < 2015 {
			break
		}
		return one(h()+"((()=>{return "+e()+"})(),(()=>({a:1}))(),(()=>{})(),(x=>{return})(1),((x,y)=>{h9(x);return y})(1,2),(()=>({}).a)(),(x=>x?1:2)(0))", true)
	case 14: // unused trailing / catch parameters
		f := g.fresh("f")
		g.declare(&variable{name: f, k: kFn, decl: "fn", arity: 3})
		p1, p2, p3 := g.fresh("p"), g.fresh("p"), g.fresh("p")
		return []stmtText{{s: "function " + f + "(" + p1 + "," + p2 + "," + p3 + "){return " + r.Pick(p1, p2, "arguments.length", "arguments[2]", p1+"+"+p3) + "}", fn: true},
			{s: h() + "(" + f + "(1,2,3))", semi: true}}
	case 15: // typeof guards
		return one("if(typeof "+r.Pick("nope1", "g0", "h0", "undefined")+r.Pick("===", "!==", "==", "!=")+r.Pick("\"undefined\"", "'function'", "\"number\"")+")"+h()+"(1);else "+h()+"(2)", true)
	case 16: // comma / conditional chains at statement level
		return one(g.exprStmtText(ex{s: cp() + "?" + h() + "(1):" + cp() + "?" + h() + "(2):" + h() + "(3)", p: pCond}), true)
	case 17: // logical statement chains
		return one(g.exprStmtText(ex{s: cp() + "&&" + h() + "(1)||" + h() + "(2)", p: pOr}), true)
	case 18: // nested function declarations with closures over renamed locals
		f, inner := g.fresh("f"), g.fresh("f")
		a, b := g.fresh("v"), g.fresh("v")
		g.declare(&variable{name: f, k: kFn, decl: "fn", arity: 1})
		p := g.fresh("p")
		free := r.Pick("e", "t", "n", "ee", "te", "i", "o.a", "s", "a")
		return []stmtText{{s: "function " + f + "(" + p + "){var " + a + "=" + p + "," + b + "=2;function " + inner + "(" + b + "){var " + a + "x=3;return " + a + "+" + b + "+" + a + "x+" + free + "}return " + inner + "(" + a + ")+" + b + "}", fn: true},
			{s: h() + "(" + f + "(" + e() + "))", semi: true}}
	case 19: // block scoped shadowing
		if g.level < 2015 {
			break
		}
		v := g.fresh("v")
		return one("{let "+v+"=1;{let "+v+"=2;"+h()+"("+v+")}"+h()+"("+v+")}", false)
	case 20: // closures in loops
		if g.level < 2015 {
			break
		}
		fs, i := g.fresh("v"), g.fresh("i")
		g.declare(&variable{name: fs, k: kCls + 3, decl: "var"})
		return one("var "+fs+"=[];for(let "+i+"=0;"+i+"<3;"+i+"++){"+fs+".push(()=>"+i+")}"+h()+"("+fs+".map(function(f){return f()}))", true)
	case 21: // getters and setters
		v := g.fresh("v")
		g.declare(&variable{name: v, k: kObj, decl: "var"})
		return one("var "+v+"={get a(){return "+h()+"(1)},set a(x){"+h()+"(x)},b:2};"+v+".a="+v+".a;"+h()+"("+v+".b)", true)
	case 22: // switch with lexical declaration and fallthrough
		return one("switch("+e()+"){case 0:case 1:"+h()+"(1);default:"+h()+"(2);break;case \"a\":{"+h()+"(3)}}", false)
	case 23: // try/finally with return override
		f := g.fresh("f")
		g.declare(&variable{name: f, k: kFn, decl: "fn", arity: 0})
		return []stmtText{{s: "function " + f + "(){try{return " + h() + "(1)}finally{" + h() + "(2)}}", fn: true}, {s: h() + "(" + f + "())", semi: true}}
	case 24: // optional catch binding candidate and rethrow
		cn := g.fresh("c")
		return one("try{try{throw "+e()+"}catch("+cn+"){"+h()+"(0)}finally{"+h()+"(1)}}catch("+g.fresh("c")+"){}", false)
	case 26: // destructuring assignment statements (never as call arguments: V8 rejects f(a+=1,[x]=y))
		if g.level < 2015 {
			break
		}
		a, b := g.mutVarOf(kAny), g.mutVarOf(kAny)
		if a == nil || b == nil || a == b {
			break
		}
		if r.Bool() {
			return one(";["+a.name+","+b.name+"]=["+b.name+","+a.name+"]", true)
		}
		return one(";({a:"+a.name+",b:"+b.name+"=1}="+r.Pick("g4", "o", "{a:1}")+")", true)
	case 25: // many locals
		if r.Chance(1, 2) {
			return g.bigFunction(top)
		}
	}
	return one(g.exprStmtText(g.sideEffectExpr(d)), true)
}

// bigFunction declares a function with more local bindings than there are short names.
func (g *gen) bigFunction(top bool) []stmtText {
	r := g.r
	g.kindHit("big-function")
	n := 60 + r.Intn(300)
	switch r.Intn(10) {
	case 0:
		n = 1100 + r.Intn(300)
	case 1:
		n = 2800 + r.Intn(1300)
	case 2, 3:
		n = 160 + r.Intn(140)
	}
	f := g.fresh("big")
	g.declare(&variable{name: f, k: kFn, decl: "fn", arity: 1})
	var b strings.Builder
	p := g.fresh("p")
	b.WriteString("function " + f + "(" + p + "){")
	kw := "var"
	if g.level >= 2015 && r.Bool() {
		kw = r.Pick("let", "var", "const")
	}
	names := make([]string, n)
	pre := g.fresh("b")
	for i := range names {
		names[i] = fmt.Sprintf("%s_%d", pre, i)
	}
	// declarations in chunks
	for i := 0; i < n; i += 50 {
		b.WriteString(kw + " ")
		for j := i; j < n && j < i+50; j++ {
			if j > i {
				b.WriteString(",")
			}
			fmt.Fprintf(&b, "%s=%d", names[j], j)
		}
		b.WriteString(";")
	}
	// uses of free globals named like generated names, directly and in a closure
	b.WriteString("h9(e,t,n,i,ee,te,et,typeof tt);")
	inner := g.fresh("f")
	q := g.fresh("q")
	b.WriteString("function " + inner + "(" + q + "){var " + q + "a=" + q + "+1;return " + q + "a+" + names[r.Intn(n)] + "+" + names[r.Intn(n)] + "+e+i+ee+et}")
	b.WriteString("h9(" + inner + "(" + p + "));")
	// extra uses to perturb the frequency order
	for k := 0; k < 10; k++ {
		v := names[r.Intn(n)]
		b.WriteString("h9(" + strings.Repeat(v+"+", r.Intn(5)) + v + ");")
	}
	if g.level >= 2015 && r.Bool() {
		b.WriteString("{let " + pre + "x=1," + pre + "y=2;h9(" + pre + "x+" + pre + "y+" + names[0] + "+" + names[n-1] + ")}")
	}
	// report every value in order
	for i := 0; i < n; i += 200 {
		b.WriteString("h9(")
		for j := i; j < n && j < i+200; j++ {
			if j > i {
				b.WriteString(",")
			}
			b.WriteString(names[j])
		}
		b.WriteString(");")
	}
	b.WriteString("return " + names[n/2] + "}")
	return []stmtText{{s: b.String(), fn: true}, {s: g.host() + "(" + f + "(1))", semi: true}}
}
