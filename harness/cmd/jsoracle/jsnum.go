package main

// Correspondence data for the Coq model Js/NumLit.v (numeric literals of js/util.go: separators, BigInt suffix, 0b / 0o / 0x
// literals rewritten in decimal) and, later, Js/StrLit.v: generated literals are handed to the real functions through
// the verif hook; the extracted model must print the same bytes.

import (
	"fmt"
	"os"
	"path/filepath"
	"strings"

	minjs "github.com/tdewolff/minify/v2/js"
	"verifharness/internal/vh"
)

func digitsOf(r *vh.Rand, alphabet string, n int, seps bool) string {
	var b strings.Builder
	for i := 0; i < n; i++ {
		c := alphabet[r.Intn(len(alphabet))]
		switch r.Intn(12) {
		case 0:
			c = alphabet[0]
		case 1:
			c = alphabet[len(alphabet)-1]
		}
		b.WriteByte(c)
		if seps && i+1 < n && r.Intn(6) == 0 {
			b.WriteByte('_')
		}
	}
	return b.String()
}

func runNumLitCases(seed uint64, n int, outDir string, extra map[string]interface{}) {
	r := vh.NewRand(seed ^ 0x6e75)
	fin, _ := os.OpenFile(filepath.Join(outDir, "cases.in"), os.O_APPEND|os.O_WRONLY, 0o644)
	fout, _ := os.OpenFile(filepath.Join(outDir, "cases.go.out"), os.O_APPEND|os.O_WRONLY, 0o644)
	fsrc, _ := os.OpenFile(filepath.Join(outDir, "cases.src"), os.O_APPEND|os.O_WRONLY, 0o644)
	defer fin.Close()
	defer fout.Close()
	defer fsrc.Close()
	hist := map[string]int{}
	changed := 0
	emit := func(kind, lit string) {
		out := string(minjs.VerifNumberLiteral(kind, []byte(lit), 0))
		fmt.Fprintf(fin, "jsnum\t%s\t%s\n", kind, hexd([]byte(lit)))
		fmt.Fprintf(fout, "%s\n", hexd([]byte(out)))
		fmt.Fprintf(fsrc, "x0=%s\n", lit)
		hist[kind]++
		if out != lit {
			changed++
		}
	}
	for k := 0; k < n; k++ {
		seps := r.Intn(4) == 0
		suffix := ""
		if r.Intn(5) == 0 {
			suffix = "n"
		}
		switch r.Intn(4) {
		case 0: // binary: lengths around the 63-digit guard
			ln := []int{1, 2, 3, 8, 31, 32, 33, 53, 54, 62, 63, 64, 65, 70}[r.Intn(14)]
			if r.Intn(3) == 0 {
				ln = 1 + r.Intn(70)
			}
			emit("binary", r.Pick("0b", "0B")+digitsOf(r, "01", ln, seps)+suffix)
		case 1: // octal: around 21 digits
			ln := []int{1, 2, 7, 11, 18, 20, 21, 22, 23, 30}[r.Intn(10)]
			if r.Intn(3) == 0 {
				ln = 1 + r.Intn(26)
			}
			emit("octal", r.Pick("0o", "0O")+digitsOf(r, "01234567", ln, seps)+suffix)
		case 2: // hexadecimal: around 10 digits, both cases, leading digit around D / E
			ln := []int{1, 2, 4, 8, 9, 10, 10, 10, 11, 12, 16}[r.Intn(11)]
			d := digitsOf(r, "0123456789abcdefABCDEF", ln, false)
			if ln >= 9 && r.Intn(2) == 0 {
				d = string("cdefCDEF09"[r.Intn(10)]) + d[1:]
			}
			if seps {
				d = d[:1] + "_" + d[1:]
				if ln == 1 {
					d = d[:1]
				}
			}
			emit("hexadecimal", r.Pick("0x", "0X")+d+suffix)
		default: // decimal with separators / suffix; fractions and exponents only without suffix
			ln := 1 + r.Intn(22)
			d := digitsOf(r, "0123456789", ln, seps)
			if suffix == "" {
				for len(d) > 1 && d[0] == '0' { // a leading zero would make a legacy octal / be invalid
					d = d[1:]
				}
				if d[0] == '_' {
					d = "1" + d
				}
				switch r.Intn(4) {
				case 0:
					d += "." + digitsOf(r, "0123456789", 1+r.Intn(6), seps)
				case 1:
					d += r.Pick("e", "E") + r.Pick("", "+", "-") + digitsOf(r, "0123456789", 1+r.Intn(3), false)
				case 2:
					d += "." + digitsOf(r, "0123456789", 1+r.Intn(4), false) + "e" + r.Pick("", "-") + digitsOf(r, "0123456789", 1+r.Intn(2), false)
				}
			} else {
				for len(d) > 1 && (d[0] == '0' || d[0] == '_') {
					d = d[1:]
				}
			}
			emit("decimal", d+suffix)
		}
	}
	extra["jsnum_literals"] = hist
	extra["jsnum_rewritten"] = changed
}
