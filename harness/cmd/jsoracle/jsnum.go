package main

// Correspondence data for the Coq model Js/NumLit.v (numeric literals of js/util.go: separators, BigInt suffix, 0b / 0o / 0x
// literals rewritten in decimal) and, later, Js/StrLit.v: generated literals are handed to the real functions through
// the verif hook; the extracted model must print the same bytes.

import (
	"fmt"
	"os"
	"path/filepath"
	"strings"

	minjs "github.com/tdewolff/minify/v2/js"
	"verifharness/internal/vh"
)

func digitsOf(r *vh.Rand, alphabet string, n int, seps bool) string {
	var b strings.Builder
	for i := 0; i < n; i++ {
		c := alphabet[r.Intn(len(alphabet))]
		switch r.Intn(12) {
		case 0:
			c = alphabet[0]
		case 1:
			c = alphabet[len(alphabet)-1]
		}
		b.WriteByte(c)
		if seps && i+1 < n && r.Intn(6) == 0 {
			b.WriteByte('_')
		}
	}
	return b.String()
}

func runNumLitCases(seed uint64, n int, outDir string, extra map[string]interface{}) {
	r := vh.NewRand(seed ^ 0x6e75)
	fin, _ := os.OpenFile(filepath.Join(outDir, "cases.in"), os.O_APPEND|os.O_WRONLY, 0o644)
	fout, _ := os.OpenFile(filepath.Join(outDir, "cases.go.out"), os.O_APPEND|os.O_WRONLY, 0o644)
	fsrc, _ := os.OpenFile(filepath.Join(outDir, "cases.src"), os.O_APPEND|os.O_WRONLY, 0o644)
	defer fin.Close()
	defer fout.Close()
	defer fsrc.Close()
	hist := map[string]int{}
	changed := 0
	emit := func(kind, lit string) {
		out := string(minjs.VerifNumberLiteral(kind, []byte(lit), 0))
		fmt.Fprintf(fin, "jsnum\t%s\t%s\n", kind, hexd([]byte(lit)))
		fmt.Fprintf(fout, "%s\n", hexd([]byte(out)))
		fmt.Fprintf(fsrc, "x0=%s\n", lit)
		hist[kind]++
		if out != lit {
			changed++
		}
	}
	for k := 0; k < n; k++ {
		seps := r.Intn(4) == 0
		suffix := ""
		if r.Intn(5) == 0 {
			suffix = "n"
		}
		switch r.Intn(4) {
		case 0: // binary: lengths around the 63-digit guard
			ln := []int{1, 2, 3, 8, 31, 32, 33, 53, 54, 62, 63, 64, 65, 70}[r.Intn(14)]
			if r.Intn(3) == 0 {
				ln = 1 + r.Intn(70)
			}
			emit("binary", r.Pick("0b", "0B")+digitsOf(r, "01", ln, seps)+suffix)
		case 1: // octal: around 21 digits
			ln := []int{1, 2, 7, 11, 18, 20, 21, 22, 23, 30}[r.Intn(10)]
			if r.Intn(3) == 0 {
				ln = 1 + r.Intn(26)
			}
			emit("octal", r.Pick("0o", "0O")+digitsOf(r, "01234567", ln, seps)+suffix)
		case 2: // hexadecimal: around 10 digits, both cases, leading digit around D / E
			ln := []int{1, 2, 4, 8, 9, 10, 10, 10, 11, 12, 16}[r.Intn(11)]
			d := digitsOf(r, "0123456789abcdefABCDEF", ln, false)
			if ln >= 9 && r.Intn(2) == 0 {
				d = string("cdefCDEF09"[r.Intn(10)]) + d[1:]
			}
			if seps {
				d = d[:1] + "_" + d[1:]
				if ln == 1 {
					d = d[:1]
				}
			}
			emit("hexadecimal", r.Pick("0x", "0X")+d+suffix)
		default: // decimal with separators / suffix; fractions and exponents only without suffix
			ln := 1 + r.Intn(22)
			d := digitsOf(r, "0123456789", ln, seps)
			if suffix == "" {
				for len(d) > 1 && d[0] == '0' { // a leading zero would make a legacy octal / be invalid
					d = d[1:]
				}
				if d[0] == '_' {
					d = "1" + d
				}
				switch r.Intn(4) {
				case 0:
					d += "." + digitsOf(r, "0123456789", 1+r.Intn(6), seps)
				case 1:
					d += r.Pick("e", "E") + r.Pick("", "+", "-") + digitsOf(r, "0123456789", 1+r.Intn(3), false)
				case 2:
					d += "." + digitsOf(r, "0123456789", 1+r.Intn(4), false) + "e" + r.Pick("", "-") + digitsOf(r, "0123456789", 1+r.Intn(2), false)
				}
			} else {
				for len(d) > 1 && (d[0] == '0' || d[0] == '_') {
					d = d[1:]
				}
			}
			emit("decimal", d+suffix)
		}
	}
	extra["jsnum_literals"] = hist
	extra["jsnum_rewritten"] = changed
}

var strPieces = []string{
	"a", "b", "z", "0", "1", "7", "8", "9", " ", "'", "\"", "`", "$", "{", "}", "${", "$\\{", "\\$", "\\${", "\\\\", "\\'", "\\\"", "\\`",
	"\\n", "\\r", "\\t", "\\b", "\\f", "\\v", "\\0", "\\00", "\\000", "\\1", "\\7", "\\12", "\\42", "\\47", "\\140", "\\134", "\\177", "\\200", "\\377", "\\400", "\\015", "\\08", "\\8", "\\9", "\\44", "\\61",
	"\\x41", "\\x0a", "\\x0A", "\\x22", "\\x27", "\\x60", "\\x5c", "\\x00", "\\x7f", "\\x80", "\\xff", "\\x4", "\\xg1", "\\x24", "\\x31", "\\x38",
	"\\u0041", "\\u000a", "\\u000A", "\\u000d", "\\u0022", "\\u0027", "\\u0060", "\\u005c", "\\u0000", "\\u00e9", "\\u20ac", "\\ud83d", "\\ude00", "\\uD800", "\\uffff", "\\u004", "\\u0024", "\\u0039",
	"\\u{41}", "\\u{a}", "\\u{A}", "\\u{0a}", "\\u{000a}", "\\u{22}", "\\u{27}", "\\u{60}", "\\u{0}", "\\u{000}", "\\u{1F600}", "\\u{10FFFF}", "\\u{10FFFE}", "\\u{110000}", "\\u{}", "\\u{41", "\\u{D800}", "\\u{0000041}", "\\u{24}", "\\u{5c}", "\\u{32}",
	"\\\n", "\\\r", "\\\r\n", "\\\xe2\x80\xa8", "\\\xe2\x80\xa9", "\\\xe2\x80\xaa", "\\\xe2",
	"\\a", "\\q", "\\-", "\\/", "\\(", "\\e", "\\<", "\\u", "\\x", "\\ ", "\\\xc3\xa9",
	"<", "</", "</script>", "<\\/script>", "</script", "</SCRIPT>", "<!--", "\xc3\xa9", "\xe2\x82\xac", "\xf0\x9f\x98\x80",
}

// runStrLitCases: string literals built from every escape form, both delimiters, allowTemplate on and off: the model must
// give the bytes of the real minifyString (jsstr), and the statement of the value theorem is evaluated on each (jsstrv).
func runStrLitCases(seed uint64, n int, outDir string, extra map[string]interface{}) {
	r := vh.NewRand(seed ^ 0x7374)
	fin, _ := os.OpenFile(filepath.Join(outDir, "cases.in"), os.O_APPEND|os.O_WRONLY, 0o644)
	fout, _ := os.OpenFile(filepath.Join(outDir, "cases.go.out"), os.O_APPEND|os.O_WRONLY, 0o644)
	fsrc, _ := os.OpenFile(filepath.Join(outDir, "cases.src"), os.O_APPEND|os.O_WRONLY, 0o644)
	defer fin.Close()
	defer fout.Close()
	defer fsrc.Close()
	changed, templ, panics := 0, 0, 0
	for k := 0; k < n; k++ {
		q := "\"'"[r.Intn(2)]
		var b strings.Builder
		b.WriteByte(q)
		m := r.Intn(7)
		if r.Intn(10) == 0 {
			m = r.Intn(30)
		}
		for i := 0; i < m; i++ {
			p := strPieces[r.Intn(len(strPieces))]
			if len(p) == 1 && p[0] == q { // an unescaped delimiter would end the literal
				p = "\\" + p
			}
			b.WriteString(p)
		}
		b.WriteByte(q)
		lit := b.String()
		if r.Intn(60) == 0 {
			lit = lit[:r.Intn(len(lit)+1)]
		}
		for _, tmpl := range []bool{false, true} {
			out, pan := func() (res []byte, pan bool) {
				defer func() {
					if p := recover(); p != nil {
						pan = true
					}
				}()
				return minjs.VerifMinifyString([]byte(lit), tmpl), false
			}()
			if pan {
				panics++
				continue
			}
			t := "0"
			if tmpl {
				t = "1"
			}
			fmt.Fprintf(fin, "jsstr\t%s\t%s\n", t, hexd([]byte(lit)))
			fmt.Fprintf(fout, "%s\n", hexd(out))
			fmt.Fprintf(fsrc, "x0=%s\n", strings.ReplaceAll(strings.ReplaceAll(lit, "\n", "\\n"), "\r", "\\r"))
			// the value statement: "skip" (input not a valid literal) and "ok" are both fine
			fmt.Fprintf(fin, "jsstrv\t%s\t%s\n", t, hexd([]byte(lit)))
			fmt.Fprintf(fsrc, "x0=%s\n", strings.ReplaceAll(strings.ReplaceAll(lit, "\n", "\\n"), "\r", "\\r"))
			okLine := "ok"
			fmt.Fprintf(fout, "%s\n", okLine)
			if string(out) != lit {
				changed++
			}
			if len(out) > 0 && out[0] == '`' {
				templ++
			}
		}
	}
	// string concatenations: the literal mergeBinaryExpr builds (hook VerifMergeStrings) vs Js.merge_strings, and the statement
	// "the merged and minified literal has the concatenation of the parts' values" evaluated on each case
	mkLit := func() string {
		q := "\"'"[r.Intn(2)]
		var b strings.Builder
		b.WriteByte(q)
		for i, m := 0, r.Intn(5); i < m; i++ {
			p := strPieces[r.Intn(len(strPieces))]
			if len(p) == 1 && p[0] == q {
				p = "\\" + p
			}
			b.WriteString(p)
		}
		if r.Intn(3) == 0 {
			b.WriteString([]string{"\\0", "\\1", "\\12", "\\7", "\\37", "\\377", "\\\\0", "\\x001"}[r.Intn(8)])
		}
		b.WriteByte(q)
		return b.String()
	}
	cats := 0
	for k := 0; k < n/4; k++ {
		m := 2 + r.Intn(3)
		lits := make([][]byte, m)
		hexes := make([]string, m)
		for i := range lits {
			l := mkLit()
			if i > 0 && r.Intn(2) == 0 {
				l = l[:1] + string("0123456789"[r.Intn(10)]) + l[1:] // a part starting with a digit
			}
			lits[i] = []byte(l)
			hexes[i] = hexd(lits[i])
		}
		merged, pan := func() (res []byte, pan bool) {
			defer func() {
				if p := recover(); p != nil {
					pan = true
				}
			}()
			return minjs.VerifMergeStrings(lits), false
		}()
		if pan || merged == nil {
			continue
		}
		src := "x0=" + strings.Join(func() []string {
			o := make([]string, m)
			for i := range lits {
				o[i] = string(lits[i])
			}
			return o
		}(), "+")
		src = strings.ReplaceAll(strings.ReplaceAll(src, "\n", "\\n"), "\r", "\\r") // one line per case in cases.src
		fmt.Fprintf(fin, "jsstrcat\t%s\n", strings.Join(hexes, ","))
		fmt.Fprintf(fout, "%s\n", hexd(merged))
		fmt.Fprintf(fsrc, "%s\n", src)
		for _, t := range []string{"0", "1"} {
			fmt.Fprintf(fin, "jsstrcatv\t%s\t%s\n", t, strings.Join(hexes, ","))
			fmt.Fprintf(fout, "ok\n")
			fmt.Fprintf(fsrc, "%s\n", src)
		}
		cats++
	}
	extra["jsstrcat_cases"] = cats
	extra["jsstr_literals"] = 2 * n
	extra["jsstr_rewritten"] = changed
	extra["jsstr_written_as_template"] = templ
	extra["jsstr_panics"] = panics
}
