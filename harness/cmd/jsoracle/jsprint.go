package main

// Correspondence data for the Coq model Js/PrintModel.v (the parenthesis decisions of the expression printer): random
// operator expressions with explicit parentheses (necessary and redundant ones) are minified by the real js.Minify, the
// output is tokenised, and the extracted model must produce the same token sequence from the same tree.
// Leaves are pairwise different identifiers, so that none of the on-the-fly rewrites of js.go (equal-operand folding,
// boolean/typeof/null folding, string merging) can fire; `!`, `void`, `in`, `instanceof` are left out for the same reason
// (optimizeUnaryExpr, void folding, word spacing / for-header grouping).

import (
	"bytes"
	"fmt"
	"os"
	"path/filepath"
	"strings"

	"github.com/tdewolff/minify/v2"
	minjs "github.com/tdewolff/minify/v2/js"
	"verifharness/internal/vh"
)

type pexpr struct {
	kind string // A B P Q C G K D I
	op   string
	name string
	kids []*pexpr
	flag bool
}

var binOps = []struct {
	tok, s     string
	lv, lf, rt int
}{
	{"EqToken", "=", 1, 16, 1}, {"AddEqToken", "+=", 1, 16, 1}, {"MulEqToken", "*=", 1, 16, 1}, {"ExpEqToken", "**=", 1, 16, 1}, {"BitOrEqToken", "|=", 1, 16, 1},
	{"AndEqToken", "&&=", 1, 16, 1}, {"OrEqToken", "||=", 1, 16, 1}, {"NullishEqToken", "??=", 1, 16, 1}, {"GtGtGtEqToken", ">>>=", 1, 16, 1},
	{"CommaToken", ",", 0, 0, 1}, {"NullishToken", "??", 2, 5, 5}, {"OrToken", "||", 3, 3, 4}, {"AndToken", "&&", 4, 4, 5},
	{"BitOrToken", "|", 5, 5, 6}, {"BitXorToken", "^", 6, 6, 7}, {"BitAndToken", "&", 7, 7, 8},
	{"EqEqToken", "==", 8, 8, 9}, {"NotEqToken", "!=", 8, 8, 9}, {"EqEqEqToken", "===", 8, 8, 9}, {"NotEqEqToken", "!==", 8, 8, 9},
	{"LtToken", "<", 9, 9, 10}, {"LtEqToken", "<=", 9, 9, 10}, {"GtToken", ">", 9, 9, 10}, {"GtEqToken", ">=", 9, 9, 10},
	{"LtLtToken", "<<", 10, 10, 11}, {"GtGtToken", ">>", 10, 10, 11}, {"GtGtGtToken", ">>>", 10, 10, 11},
	{"AddToken", "+", 11, 11, 12}, {"SubToken", "-", 11, 11, 12}, {"MulToken", "*", 12, 12, 13}, {"DivToken", "/", 12, 12, 13}, {"ModToken", "%", 12, 12, 13},
	{"ExpToken", "**", 13, 15, 13},
	{"InToken", "in", 9, 9, 10}, {"InstanceofToken", "instanceof", 9, 9, 10},
}
var preOps = []struct {
	tok, s string
	lv, ol int
}{{"BitNotToken", "~", 14, 14}, {"TypeofToken", "typeof ", 14, 14}, {"PosToken", "+", 14, 14}, {"NegToken", "-", 14, 14}, {"PreIncrToken", "++", 15, 14}, {"PreDecrToken", "--", 15, 14}}
var postOps = []struct {
	tok, s string
	lv, ol int
}{{"PostIncrToken", "++", 15, 16}, {"PostDecrToken", "--", 15, 16}}

var surface = map[string]string{}

func init() {
	for _, o := range binOps {
		surface[o.tok] = o.s
	}
	for _, o := range preOps {
		surface[o.tok] = strings.TrimSpace(o.s)
	}
	for _, o := range postOps {
		surface[o.tok] = o.s
	}
	surface["NotToken"] = "!"
}

type pgen struct {
	r    *vh.Rand
	next int
}

func (g *pgen) atom() *pexpr {
	g.next++
	return &pexpr{kind: "A", name: fmt.Sprintf("v%d", g.next)}
}

// level of an expression as the grammar sees it (groups are primary)
func level(e *pexpr) int {
	switch e.kind {
	case "A", "G", "T":
		return 20
	case "B":
		for _, o := range binOps {
			if o.tok == e.op {
				return o.lv
			}
		}
	case "P":
		for _, o := range preOps {
			if o.tok == e.op {
				return o.lv
			}
		}
	case "Q":
		return 15
	case "C":
		return 1
	case "K":
		return 17
	case "D", "I":
		if e.flag {
			return 17
		}
		return 19
	}
	return 0
}

func chainHasCall(x *pexpr) bool {
	switch x.kind {
	case "K":
		return true
	case "D", "I":
		return x.flag
	}
	return false
}

// fit wraps e in parentheses when its level is below what the position needs; sometimes adds redundant parentheses
func (g *pgen) fit(e *pexpr, need int) *pexpr {
	if level(e) < need || g.r.Intn(4) == 0 {
		return &pexpr{kind: "G", kids: []*pexpr{e}}
	}
	return e
}

// simple assignment targets only on the left of assignments and under ++/--
func (g *pgen) target() *pexpr {
	switch g.r.Intn(3) {
	case 0:
		x := g.atom()
		return &pexpr{kind: "D", kids: []*pexpr{x}, name: "p", flag: false}
	case 1:
		x := g.atom()
		return &pexpr{kind: "I", kids: []*pexpr{x, g.atom()}, flag: false}
	}
	return g.atom()
}

func (g *pgen) expr(depth int) *pexpr {
	if depth <= 0 || g.r.Intn(6) == 0 {
		return g.atom()
	}
	switch k := g.r.Intn(20); {
	case k < 11:
		o := binOps[g.r.Intn(len(binOps))]
		var x *pexpr
		if o.lf == 16 { // assignment: a simple target, sometimes parenthesised
			x = g.target()
			if g.r.Intn(6) == 0 {
				x = &pexpr{kind: "G", kids: []*pexpr{x}}
			}
		} else {
			x = g.expr(depth - 1)
			if o.tok == "CommaToken" {
				// the parser flattens a,b,c into one list: the left operand is never a parenthesised comma list here
				for x.kind == "G" || x.kind == "B" && x.op == "CommaToken" {
					x = g.atom()
				}
				x = g.fit0(x, o.lf)
			} else {
				x = g.fit(x, o.lf)
				// js.go rewrites ((a,b) op c) into (a,b op c) wherever the binary expression is printed at statement level
				// (also directly inside parentheses and brackets): a rewrite outside the model, so this shape is not generated
				if inner := x; inner.kind == "G" && inner.kids[0].kind == "B" && inner.kids[0].op == "CommaToken" {
					x = g.atom()
				}
			}
		}
		y := g.fit(g.expr(depth-1), o.rt)
		if o.tok == "NullishToken" { // nested ?? chains are flattened by js.go (outside the model)
			for isNullish(x) || isNullish(y) {
				x, y = g.fit(g.atom(), o.lf), g.fit(g.atom(), o.rt)
			}
		}
		return &pexpr{kind: "B", op: o.tok, kids: []*pexpr{x, y}}
	case k < 13:
		o := preOps[g.r.Intn(len(preOps))]
		var x *pexpr
		if o.lv == 15 {
			x = g.target()
		} else {
			x = g.fit(g.expr(depth-1), o.ol)
		}
		return &pexpr{kind: "P", op: o.tok, kids: []*pexpr{x}}
	case k < 14:
		o := postOps[g.r.Intn(len(postOps))]
		return &pexpr{kind: "Q", op: o.tok, kids: []*pexpr{g.target()}}
	case k < 16:
		c := g.fit(g.expr(depth-1), 2)
		if c.kind == "G" && c.kids[0].kind == "B" && c.kids[0].op == "CommaToken" {
			c = g.atom() // ((a,b)?c:d) is rewritten to (a,b?c:d) at statement level: outside the model
		}
		x := g.fit(g.expr(depth-1), 1)
		y := g.fit(g.expr(depth-1), 1)
		return &pexpr{kind: "C", kids: []*pexpr{c, x, y}}
	case k < 17:
		f := g.fit(g.expr(depth-1), 17)
		a := g.fit(g.expr(depth-1), 1)
		return &pexpr{kind: "K", kids: []*pexpr{f, a}}
	case k < 19:
		x := g.expr(depth - 1)
		if level(x) < 17 || g.r.Intn(4) == 0 {
			x = &pexpr{kind: "G", kids: []*pexpr{x}}
		}
		return &pexpr{kind: "D", kids: []*pexpr{x}, name: "q", flag: chainHasCall(x)}
	default:
		x := g.expr(depth - 1)
		if level(x) < 17 || g.r.Intn(4) == 0 {
			x = &pexpr{kind: "G", kids: []*pexpr{x}}
		}
		i := g.fit(g.expr(depth-1), 0)
		return &pexpr{kind: "I", kids: []*pexpr{x, i}, flag: chainHasCall(x)}
	}
}

// constOK: operators under which a constant operand triggers no rewrite of js.go other than its replacement by
// !0 / !1 / 0[0] / 1/0 (no truthiness folding, no ==null folding, no string merging)
var constOK = map[string]bool{"ExpToken": true, "MulToken": true, "DivToken": true, "ModToken": true, "SubToken": true, "LtLtToken": true, "GtGtToken": true,
	"GtGtGtToken": true, "BitOrToken": true, "BitXorToken": true, "BitAndToken": true, "LtToken": true, "LtEqToken": true, "GtToken": true, "GtEqToken": true,
	"NegToken": true, "PosToken": true, "BitNotToken": true}

// sprinkle replaces some identifier leaves by the constants true / false / undefined / Infinity where constOK allows
func (g *pgen) sprinkle(e *pexpr, parentOK bool) {
	for i, k := range e.kids {
		ok := false
		switch e.kind {
		case "B", "P":
			ok = constOK[e.op]
		case "G":
			ok = parentOK
		case "D":
			ok = true
		case "I":
			ok = i == 0
		case "K":
			ok = i == 0
		}
		if k.kind == "A" && ok && g.r.Intn(4) == 0 {
			e.kids[i] = &pexpr{kind: "T", name: []string{"true", "false", "undefined", "Infinity"}[g.r.Intn(4)]}
			continue
		}
		g.sprinkle(k, ok)
	}
}

func (g *pgen) fit0(e *pexpr, need int) *pexpr {
	if level(e) < need {
		return &pexpr{kind: "G", kids: []*pexpr{e}}
	}
	return e
}

func isNullish(e *pexpr) bool {
	for e.kind == "G" {
		e = e.kids[0]
	}
	return e.kind == "B" && e.op == "NullishToken"
}

func (e *pexpr) source(b *strings.Builder) {
	switch e.kind {
	case "A", "T":
		b.WriteString(e.name)
	case "G":
		b.WriteString("(")
		e.kids[0].source(b)
		b.WriteString(")")
	case "B":
		e.kids[0].source(b)
		b.WriteString(" " + surface[e.op] + " ")
		e.kids[1].source(b)
	case "P":
		b.WriteString(surface[e.op])
		if e.op == "TypeofToken" {
			b.WriteString(" ")
		} else {
			b.WriteString(" ")
		}
		e.kids[0].source(b)
	case "Q":
		e.kids[0].source(b)
		b.WriteString(surface[e.op])
	case "C":
		e.kids[0].source(b)
		b.WriteString(" ? ")
		e.kids[1].source(b)
		b.WriteString(" : ")
		e.kids[2].source(b)
	case "K":
		e.kids[0].source(b)
		b.WriteString("(")
		e.kids[1].source(b)
		b.WriteString(")")
	case "D":
		e.kids[0].source(b)
		b.WriteString("." + e.name)
	case "I":
		e.kids[0].source(b)
		b.WriteString("[")
		e.kids[1].source(b)
		b.WriteString("]")
	}
}

func (e *pexpr) sexpr(b *strings.Builder) {
	fl := "0"
	if e.flag {
		fl = "1"
	}
	switch e.kind {
	case "A":
		b.WriteString("A " + e.name + " ")
	case "T":
		b.WriteString("T " + e.name + " ")
	case "G":
		b.WriteString("G ")
	case "B", "P", "Q":
		b.WriteString(e.kind + " " + e.op + " ")
	case "C", "K":
		b.WriteString(e.kind + " ")
	case "D":
		b.WriteString("D " + e.name + " " + fl + " ")
	case "I":
		b.WriteString("I " + fl + " ")
	}
	for _, k := range e.kids {
		k.sexpr(b)
	}
}

var printPuncts = []string{">>>=", "...", "===", "!==", "**=", "<<=", ">>=", ">>>", "&&=", "||=", "??=", "=>", "==", "!=", "<=", ">=", "&&", "||", "??", "?.", "++", "--", "+=", "-=", "*=", "/=", "%=", "&=", "|=", "^=", "<<", ">>", "**"}

func jsTokens(s string) []string {
	var out []string
	for i := 0; i < len(s); {
		c := s[i]
		switch {
		case c == ' ' || c == '\n' || c == '\t':
			i++
		case c == '_' || c == '$' || c >= 'a' && c <= 'z' || c >= 'A' && c <= 'Z' || c >= '0' && c <= '9':
			j := i
			for j < len(s) && (s[j] == '_' || s[j] == '$' || s[j] >= 'a' && s[j] <= 'z' || s[j] >= 'A' && s[j] <= 'Z' || s[j] >= '0' && s[j] <= '9') {
				j++
			}
			out = append(out, s[i:j])
			i = j
		default:
			m := ""
			for _, p := range printPuncts {
				if strings.HasPrefix(s[i:], p) {
					m = p
					break
				}
			}
			if m == "" {
				m = s[i : i+1]
			}
			out = append(out, m)
			i += len(m)
		}
	}
	return out
}

func runPrintCases(seed uint64, n int, outDir string, extra map[string]interface{}) {
	r := vh.NewRand(seed ^ 0x9417)
	fin, _ := os.OpenFile(filepath.Join(outDir, "cases.in"), os.O_APPEND|os.O_WRONLY, 0o644)
	fout, _ := os.OpenFile(filepath.Join(outDir, "cases.go.out"), os.O_APPEND|os.O_WRONLY, 0o644)
	defer fin.Close()
	defer fout.Close()
	// the JS source of every case, line-aligned with cases.in: when the model and the minifier disagree on a case, the check
	// hands that source to the node oracle to look for a behavioural difference (a failing input)
	fsrc, _ := os.Create(filepath.Join(outDir, "cases.src"))
	defer fsrc.Close()
	m := minify.New()
	skipped, done, dropped, byteCases := 0, 0, 0, 0
	hist := map[string]int{}
	for k := 0; k < n; k++ {
		g := &pgen{r: r.Fork()}
		e := g.expr(2 + r.Intn(4))
		if r.Intn(3) == 0 {
			g.sprinkle(e, false)
		}
		var src strings.Builder
		src.WriteString("x0 = ")
		e.source(&src)
		var out bytes.Buffer
		if err := (&minjs.Minifier{KeepVarNames: true}).Minify(m, &out, strings.NewReader(src.String()), nil); err != nil {
			skipped++ // e.g. an invalid assignment target the generator did not foresee
			continue
		}
		toks := jsTokens(out.String())
		if len(toks) < 2 || toks[0] != "x0" || toks[1] != "=" {
			skipped++
			continue
		}
		var sx strings.Builder
		e.sexpr(&sx)
		fmt.Fprintf(fin, "jsprint\t%s\n", strings.TrimSpace(sx.String()))
		fmt.Fprintf(fout, "%s\n", strings.Join(toks[2:], " "))
		fmt.Fprintf(fsrc, "%s\n", strings.ReplaceAll(src.String(), "\n", " "))
		// the same case byte for byte: the writer's spaces (Js/PrintRender.v)
		if strings.HasPrefix(out.String(), "x0=") {
			fmt.Fprintf(fin, "jsprintb\t%s\n", strings.TrimSpace(sx.String()))
			fmt.Fprintf(fout, "%x\n", strings.TrimPrefix(out.String(), "x0="))
			fmt.Fprintf(fsrc, "%s\n", strings.ReplaceAll(src.String(), "\n", " "))
			byteCases++
		}
		done++
		hist[e.kind]++
		if strings.Count(src.String(), "(") > strings.Count(out.String(), "(") {
			dropped++
		}
	}
	extra["jsprint_expressions"] = done
	extra["jsprint_byte_exact_cases"] = byteCases
	extra["jsprint_skipped"] = skipped
	extra["jsprint_with_dropped_parentheses"] = dropped
	extra["jsprint_root_kinds"] = hist
}

// ---- rewrite correspondence (Js/RewriteModel.v): expressions over few identifiers (so that equal operands occur), true /
// false, ! && || == != === !== < + * , ?: calls and parenthesised assignments; the model's print_rw must give the token
// sequence of the real js.Minify.
type rwgen struct {
	r *vh.Rand
}

func (g *rwgen) atom() *pexpr {
	return &pexpr{kind: "A", name: fmt.Sprintf("v%d", 1+g.r.Intn(4))}
}

var rwBin = []string{"AndToken", "OrToken", "AndToken", "OrToken", "EqEqToken", "NotEqToken", "EqEqEqToken", "NotEqEqToken", "LtToken", "AddToken", "MulToken", "CommaToken", "BitOrToken", "ExpToken", "NullishToken"}

func binInfo(tok string) (lv, lf, rt int) {
	for _, o := range binOps {
		if o.tok == tok {
			return o.lv, o.lf, o.rt
		}
	}
	return 0, 0, 0
}

func (g *rwgen) fit(e *pexpr, need int) *pexpr {
	if level(e) < need || g.r.Intn(5) == 0 {
		return &pexpr{kind: "G", kids: []*pexpr{e}}
	}
	return e
}

func (g *rwgen) expr(depth int) *pexpr {
	if depth <= 0 {
		if g.r.Intn(5) == 0 {
			return &pexpr{kind: "T", name: []string{"true", "false"}[g.r.Intn(2)]}
		}
		return g.atom()
	}
	switch k := g.r.Intn(100); {
	case k < 18:
		return g.atom()
	case k < 26:
		return &pexpr{kind: "T", name: []string{"true", "false"}[g.r.Intn(2)]}
	case k < 42:
		return &pexpr{kind: "P", op: "NotToken", kids: []*pexpr{g.fit(g.expr(depth-1), 14)}}
	case k < 66:
		op := rwBin[g.r.Intn(len(rwBin))]
		_, lf, rt := binInfo(op)
		x := g.expr(depth - 1)
		if op == "CommaToken" {
			// the parser flattens a,b,c: the left operand is a comma list only without parentheses
			for x.kind == "G" && x.kids[0].kind == "B" && x.kids[0].op == "CommaToken" {
				x = x.kids[0]
			}
			if level(x) < lf {
				x = &pexpr{kind: "G", kids: []*pexpr{x}}
			}
		} else {
			x = g.fit(x, lf)
		}
		y := g.fit(g.expr(depth-1), rt)
		if op == "NullishToken" { // nested ?? chains are flattened by js.go ((a??b)??(c??d) => a??b??c??d): outside the model
			for isNullish(x) || isNullish(y) {
				x, y = g.fit(g.atom(), lf), g.fit(g.atom(), rt)
			}
		}
		if op == "CommaToken" {
			for y.kind == "B" && y.op == "CommaToken" {
				y = &pexpr{kind: "G", kids: []*pexpr{y}}
			}
		}
		return &pexpr{kind: "B", op: op, kids: []*pexpr{x, y}}
	case k < 88:
		c := g.fit(g.expr(depth-1), 2)
		x := g.fit(g.expr(depth-1), 1)
		y := g.fit(g.expr(depth-1), 1)
		if g.r.Intn(4) == 0 { // equal bodies / body equal to the condition's variable
			switch g.r.Intn(3) {
			case 0:
				y = g.atom()
				x = &pexpr{kind: "A", name: y.name}
			case 1:
				c = g.atom()
				x = &pexpr{kind: "A", name: c.name}
			default:
				c = g.atom()
				y = &pexpr{kind: "A", name: c.name}
			}
		}
		if g.r.Intn(4) == 0 { // true / false bodies under a condition that is already boolean: c?x:false -> c&&x etc.
			cmpOps := []string{"LtToken", "EqEqToken", "NotEqEqToken"}
			cmp := func() *pexpr {
				if g.r.Intn(4) == 0 {
					return &pexpr{kind: "P", op: "NotToken", kids: []*pexpr{g.atom()}}
				}
				return &pexpr{kind: "B", op: cmpOps[g.r.Intn(3)], kids: []*pexpr{g.atom(), g.atom()}}
			}
			switch g.r.Intn(4) {
			case 0:
				c = &pexpr{kind: "B", op: "OrToken", kids: []*pexpr{cmp(), cmp()}}
			case 1:
				c = &pexpr{kind: "B", op: "AndToken", kids: []*pexpr{cmp(), cmp()}}
			case 2:
				c = cmp()
			}
			lit := &pexpr{kind: "T", name: []string{"true", "false"}[g.r.Intn(2)]}
			if g.r.Intn(2) == 0 {
				x = lit
			} else {
				y = lit
			}
			if g.r.Intn(4) == 0 {
				x = &pexpr{kind: "T", name: "true"}
				y = &pexpr{kind: "T", name: "false"}
				if g.r.Intn(2) == 0 {
					x, y = y, x
				}
			}
		}
		if g.r.Intn(5) == 0 { // calls of the same function in both bodies
			f := fmt.Sprintf("f%d", 1+g.r.Intn(2))
			x = &pexpr{kind: "K", kids: []*pexpr{{kind: "A", name: f}, g.fit(g.expr(depth-2), 1)}}
			y = &pexpr{kind: "K", kids: []*pexpr{{kind: "A", name: f}, g.fit(g.expr(depth-2), 1)}}
		}
		return &pexpr{kind: "C", kids: []*pexpr{c, x, y}}
	case k < 94:
		f := &pexpr{kind: "A", name: fmt.Sprintf("f%d", 1+g.r.Intn(2))}
		return &pexpr{kind: "K", kids: []*pexpr{f, g.fit(g.expr(depth-1), 1)}}
	default:
		a := &pexpr{kind: "B", op: "EqToken", kids: []*pexpr{g.atom(), g.fit(g.expr(depth-1), 1)}}
		return &pexpr{kind: "G", kids: []*pexpr{a}}
	}
}

func runRewriteCases(seed uint64, n int, outDir string, extra map[string]interface{}) {
	r := vh.NewRand(seed ^ 0x7e31)
	fin, _ := os.OpenFile(filepath.Join(outDir, "cases.in"), os.O_APPEND|os.O_WRONLY, 0o644)
	fout, _ := os.OpenFile(filepath.Join(outDir, "cases.go.out"), os.O_APPEND|os.O_WRONLY, 0o644)
	fsrc, _ := os.OpenFile(filepath.Join(outDir, "cases.src"), os.O_APPEND|os.O_WRONLY, 0o644)
	defer fin.Close()
	defer fout.Close()
	defer fsrc.Close()
	m := minify.New()
	done, skipped, changed, bareN := 0, 0, 0, 0
	for k := 0; k < n; k++ {
		g := &rwgen{r: r.Fork()}
		e := g.expr(1 + r.Intn(4))
		// one case in three is a bare expression statement (position precedence OpExpr: the (a,b) op c unwrapping can fire);
		// roots that statement-level rewrites of stmtlist.go touch (conditionals, &&, ||, !) are kept under `x0 =`
		bare := k%3 == 0 && e.kind == "B" && e.op != "AndToken" && e.op != "OrToken" && e.op != "CommaToken" && e.op != "EqToken"
		if k%6 == 0 {
			// a statement (x, LAST) op y built on purpose: LAST just below / at / above the level the left operand of op needs
			op := []string{"ExpToken", "NullishToken", "MulToken", "AddToken", "LtToken", "EqEqToken", "BitOrToken", "ExpToken"}[r.Intn(8)]
			var last *pexpr
			switch r.Intn(8) {
			case 0:
				last = &pexpr{kind: "P", op: "NotToken", kids: []*pexpr{g.fit(g.expr(1), 14)}}
			case 1:
				last = &pexpr{kind: "B", op: "ExpToken", kids: []*pexpr{g.atom(), g.atom()}}
			case 2:
				last = &pexpr{kind: "T", name: []string{"true", "false"}[r.Intn(2)]}
			case 3:
				last = &pexpr{kind: "P", op: "NotToken", kids: []*pexpr{{kind: "G", kids: []*pexpr{{kind: "B", op: []string{"AndToken", "OrToken", "EqEqToken"}[r.Intn(3)], kids: []*pexpr{g.atom(), g.atom()}}}}}}
			case 4:
				last = &pexpr{kind: "B", op: []string{"MulToken", "AddToken", "LtToken", "BitOrToken", "AndToken"}[r.Intn(5)], kids: []*pexpr{g.atom(), g.atom()}}
			default:
				last = g.fit(g.expr(2), 1)
			}
			_, _, rt := binInfo(op)
			right := g.fit(g.expr(1), rt)
			if op == "NullishToken" { // nested ?? chains are flattened by js.go: outside the model
				if isNullish(right) {
					right = g.atom()
				}
				if isNullish(last) {
					last = g.atom()
				}
			}
			l := &pexpr{kind: "B", op: "CommaToken", kids: []*pexpr{g.fit(g.expr(1), 1), last}}
			e = &pexpr{kind: "B", op: op, kids: []*pexpr{{kind: "G", kids: []*pexpr{l}}, right}}
			bare = true
		} else if bare {
			// make the left operand a parenthesised comma list more often
			if r.Intn(2) == 0 {
				l := &pexpr{kind: "B", op: "CommaToken", kids: []*pexpr{g.fit(g.expr(1), 1), g.fit(g.expr(2), 1)}}
				e.kids[0] = &pexpr{kind: "G", kids: []*pexpr{l}}
			}
		}
		var src strings.Builder
		if !bare {
			src.WriteString("x0 = ")
		}
		e.source(&src)
		var out bytes.Buffer
		if err := (&minjs.Minifier{KeepVarNames: true}).Minify(m, &out, strings.NewReader(src.String()), nil); err != nil {
			skipped++
			continue
		}
		toks := jsTokens(out.String())
		kind := "jsrw0"
		if !bare {
			if len(toks) < 2 || toks[0] != "x0" || toks[1] != "=" {
				skipped++
				continue
			}
			toks = toks[2:]
			kind = "jsrw"
		}
		var sx strings.Builder
		e.sexpr(&sx)
		fmt.Fprintf(fin, "%s\t%s\n", kind, strings.TrimSpace(sx.String()))
		fmt.Fprintf(fout, "%s\n", strings.Join(toks, " "))
		fmt.Fprintf(fsrc, "%s\n", strings.ReplaceAll(src.String(), "\n", " "))
		if ob := out.String(); bare || strings.HasPrefix(ob, "x0=") {
			fmt.Fprintf(fin, "%sb\t%s\n", kind, strings.TrimSpace(sx.String()))
			fmt.Fprintf(fout, "%x\n", strings.TrimPrefix(ob, map[bool]string{true: "", false: "x0="}[bare]))
			fmt.Fprintf(fsrc, "%s\n", strings.ReplaceAll(src.String(), "\n", " "))
		}
		done++
		st := jsTokens(src.String())
		if !bare {
			st = st[2:]
		}
		if strings.Join(st, " ") != strings.Join(toks, " ") {
			changed++
		}
		if bare {
			bareN++
		}
	}
	extra["jsrw_bare_statements"] = bareN
	extra["jsrw_expressions"] = done
	extra["jsrw_skipped"] = skipped
	extra["jsrw_rewritten_or_regrouped"] = changed
}
