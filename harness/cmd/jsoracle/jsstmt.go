package main

// Correspondence data for the Coq model Js/StmtModel.v (the statement optimiser of js/stmtlist.go): random statement lists
// over if / else, return, throw, break / continue, blocks, empty statements, expression statements and a few statements
// that no rule touches are parsed by the real parser; the parsed list is serialised (the model's input), handed to the
// real optimizeStmtList through the verif hook, and serialised again (the expected output).  Both serialisations come
// from the same function, so the generator only has to produce source text.

import (
	"bytes"
	"encoding/hex"
	"fmt"
	"os"
	"path/filepath"
	"strings"

	"github.com/tdewolff/minify/v2"
	minjs "github.com/tdewolff/minify/v2/js"
	"github.com/tdewolff/parse/v2"
	pjs "github.com/tdewolff/parse/v2/js"
	"verifharness/internal/vh"
)

type unsupported struct{ what string }

var binTokName, preTokName = map[string]string{}, map[string]string{}

func init() {
	for _, o := range binOps {
		binTokName[o.s] = o.tok
	}
	for _, o := range preOps {
		preTokName[strings.TrimSpace(o.s)] = o.tok
	}
	preTokName["!"] = "NotToken"
	preTokName["void"] = "VoidToken"
	preTokName["delete"] = "DeleteToken"
}

func sxExpr(b *strings.Builder, e pjs.IExpr) {
	switch x := e.(type) {
	case *pjs.Var:
		n := string(x.Name())
		if n == "undefined" || n == "Infinity" {
			b.WriteString("T " + n + " ")
		} else {
			b.WriteString("A " + n + " ")
		}
	case *pjs.LiteralExpr:
		switch x.TokenType {
		case pjs.TrueToken:
			b.WriteString("T true ")
		case pjs.FalseToken:
			b.WriteString("T false ")
		case pjs.DecimalToken, pjs.IntegerToken, pjs.NumericToken:
			b.WriteString("A " + string(x.Data) + " ")
		default:
			panic(unsupported{"literal " + x.TokenType.String()})
		}
	case *pjs.GroupExpr:
		b.WriteString("G ")
		sxExpr(b, x.X)
	case *pjs.UnaryExpr:
		if x.Op == pjs.PostIncrToken {
			b.WriteString("Q PostIncrToken ")
		} else if x.Op == pjs.PostDecrToken {
			b.WriteString("Q PostDecrToken ")
		} else if n, ok := preTokName[x.Op.String()]; ok {
			b.WriteString("P " + n + " ")
		} else {
			panic(unsupported{"unary " + x.Op.String()})
		}
		sxExpr(b, x.X)
	case *pjs.BinaryExpr:
		n, ok := binTokName[x.Op.String()]
		if !ok {
			panic(unsupported{"binary " + x.Op.String()})
		}
		b.WriteString("B " + n + " ")
		sxExpr(b, x.X)
		sxExpr(b, x.Y)
	case *pjs.CommaExpr:
		if len(x.List) < 2 {
			panic(unsupported{"short comma list"})
		}
		for i := 1; i < len(x.List); i++ {
			b.WriteString("B CommaToken ")
		}
		for _, it := range x.List {
			sxExpr(b, it)
		}
	case *pjs.CondExpr:
		b.WriteString("C ")
		sxExpr(b, x.Cond)
		sxExpr(b, x.X)
		sxExpr(b, x.Y)
	case *pjs.CallExpr:
		if x.Optional || len(x.Args.List) != 1 || x.Args.List[0].Rest {
			panic(unsupported{"call shape"})
		}
		b.WriteString("K ")
		sxExpr(b, x.X)
		sxExpr(b, x.Args.List[0].Value)
	default:
		panic(unsupported{fmt.Sprintf("expr %T", e)})
	}
}

func sxStmt(b *strings.Builder, s pjs.IStmt) {
	switch x := s.(type) {
	case nil:
		b.WriteString("N ")
	case *pjs.ExprStmt:
		b.WriteString("E ")
		sxExpr(b, x.Value)
	case *pjs.IfStmt:
		if x.Else == nil {
			b.WriteString("F0 ")
		} else {
			b.WriteString("F1 ")
		}
		sxExpr(b, x.Cond)
		sxStmt(b, x.Body)
		if x.Else != nil {
			sxStmt(b, x.Else)
		}
	case *pjs.ReturnStmt:
		if x.Value == nil {
			b.WriteString("R0 ")
		} else {
			b.WriteString("R1 ")
			sxExpr(b, x.Value)
		}
	case *pjs.ThrowStmt:
		b.WriteString("W ")
		sxExpr(b, x.Value)
	case *pjs.BranchStmt:
		b.WriteString("J " + x.Type.String())
		if x.Label != nil {
			b.WriteString(":" + string(x.Label))
		}
		b.WriteString(" ")
	case *pjs.EmptyStmt:
		b.WriteString("N ")
	case *pjs.BlockStmt:
		sxList(b, "BL", x.List)
	case *pjs.DoWhileStmt, *pjs.TryStmt, *pjs.ForInStmt, *pjs.DebuggerStmt, *pjs.LabelledStmt:
		b.WriteString("O " + hex.EncodeToString([]byte(s.String())) + " ")
	default:
		panic(unsupported{fmt.Sprintf("stmt %T", s)})
	}
}

func sxList(b *strings.Builder, tag string, l []pjs.IStmt) {
	fmt.Fprintf(b, "%s %d ", tag, len(l))
	for _, s := range l {
		sxStmt(b, s)
	}
}

type sgen struct {
	r    *vh.Rand
	e    *rwgen
	loop bool
}

func (g *sgen) exprSrc(d int) string {
	var b strings.Builder
	e := g.e.expr(d)
	if g.r.Intn(6) == 0 {
		e = &pexpr{kind: "P", op: "NotToken", kids: []*pexpr{g.e.fit(e, 14)}}
	}
	e.source(&b)
	return b.String()
}

func (g *sgen) effectSrc() string {
	switch g.r.Intn(4) {
	case 0:
		return fmt.Sprintf("v%d=%s", 1+g.r.Intn(4), g.exprSrc(1))
	case 1:
		return fmt.Sprintf("f%d(%s)", 1+g.r.Intn(2), g.exprSrc(1))
	default:
		return g.exprSrc(g.r.Intn(3))
	}
}

func (g *sgen) stmt(d int) string {
	if g.r.Intn(9) == 0 {
		return g.idiom(d)
	}
	k := g.r.Intn(100)
	if d <= 0 && k >= 30 && k < 62 {
		k = g.r.Intn(30)
	}
	switch {
	case k < 22:
		return g.effectSrc() + ";"
	case k < 30:
		if g.r.Intn(3) == 0 {
			return "return;"
		}
		return "return " + g.exprSrc(g.r.Intn(2)) + ";"
	case k < 62:
		c := g.exprSrc(g.r.Intn(2))
		body := g.branch(d - 1)
		switch g.r.Intn(5) {
		case 0, 1:
			return "if(" + c + ")" + body
		default:
			return "if(" + c + ")" + body + "else " + g.branch(d-1)
		}
	case k < 68:
		return "throw " + g.exprSrc(g.r.Intn(2)) + ";"
	case k < 74:
		if g.loop {
			return []string{"break;", "continue;", "break;"}[g.r.Intn(3)]
		}
		return "return " + g.exprSrc(0) + ";"
	case k < 80:
		return ";"
	case k < 90:
		return "{" + g.list(d-1, g.r.Intn(4)) + "}"
	case k < 93:
		return "return undefined;"
	case k < 95:
		return "return " + g.effectSrc() + ",void 0;"
	default:
		return []string{"debugger;", "do f1(v1);while(v2);", "try{f2(v3)}catch{}", "for(v1 in v2)f1(v3);"}[g.r.Intn(4)]
	}
}

// shapes that the list-level rules and the both-branches rules look for
func (g *sgen) idiom(d int) string {
	c := g.exprSrc(g.r.Intn(2))
	x, y := g.exprSrc(g.r.Intn(2)), g.exprSrc(g.r.Intn(2))
	switch g.r.Intn(12) {
	case 0:
		return "if(" + c + ")return;else return;"
	case 1:
		return "if(" + c + ")return;" + g.list(d-1, g.r.Intn(2)) + "return;"
	case 2:
		return "if(" + c + ");else return;return;"
	case 3:
		return "if(" + c + ")return " + x + ";if(" + g.exprSrc(1) + ")return " + y + ";return " + g.exprSrc(0) + ";"
	case 4:
		return "if(" + c + ");else return " + x + ";return " + y + ";"
	case 5:
		return "if(" + c + ")throw " + x + ";throw " + y + ";"
	case 6:
		return "if(" + c + "){}else throw " + x + ";throw " + y + ";"
	case 7:
		return "if(" + c + "){" + g.effectSrc() + ";return " + x + "}else{" + g.list(d-1, 1+g.r.Intn(2)) + "}"
	case 8:
		return "if(!" + c + "){" + g.list(d-1, 1+g.r.Intn(2)) + "}else{" + g.effectSrc() + ";" + []string{"return;", "throw v1;", "return v2;"}[g.r.Intn(3)] + "}"
	case 9:
		return "if(" + c + "){if(" + x + ")" + g.branch(d-1) + "}"
	case 10:
		return "if(" + c + ")return " + x + ";" + g.effectSrc() + ";return " + y + ";"
	default:
		return g.effectSrc() + ";if(" + c + ")" + g.branch(d-1) + "return " + g.effectSrc() + ",(undefined);"
	}
}

// a branch of an if: biased to the shapes the rewrites look at
func (g *sgen) branch(d int) string {
	switch g.r.Intn(10) {
	case 0:
		return ";"
	case 1:
		return "{}"
	case 2, 3:
		return g.effectSrc() + ";"
	case 4:
		if g.r.Intn(4) == 0 {
			return "return;"
		}
		return "return " + g.exprSrc(g.r.Intn(2)) + ";"
	case 5:
		return "{" + g.list(d, 1+g.r.Intn(3)) + "}"
	case 6:
		if g.r.Intn(2) == 0 { // a labelled block that ends in a break to its own label: not a flow statement for its surroundings
			return "l1:{" + g.effectSrc() + ";break l1}"
		}
		return "throw " + g.exprSrc(0) + ";"
	default:
		return g.stmt(d)
	}
}

func (g *sgen) list(d, n int) string {
	var b strings.Builder
	for i := 0; i < n; i++ {
		b.WriteString(g.stmt(d))
	}
	return b.String()
}

func runStmtCases(seed uint64, n int, outDir string, extra map[string]interface{}) {
	r := vh.NewRand(seed ^ 0x51f7)
	fin, _ := os.OpenFile(filepath.Join(outDir, "cases.in"), os.O_APPEND|os.O_WRONLY, 0o644)
	fout, _ := os.OpenFile(filepath.Join(outDir, "cases.go.out"), os.O_APPEND|os.O_WRONLY, 0o644)
	fsrc, _ := os.OpenFile(filepath.Join(outDir, "cases.src"), os.O_APPEND|os.O_WRONLY, 0o644)
	defer fin.Close()
	defer fout.Close()
	defer fsrc.Close()
	done, skipped, changed, loops, printed, printSkipped := 0, 0, 0, 0, 0, 0
	mm := minify.New()
	skipWhy := map[string]int{}
	rules := map[string]int{}
	for k := 0; k < n; k++ {
		rr := r.Fork()
		g := &sgen{r: rr, e: &rwgen{r: rr}, loop: k%4 == 3}
		body := g.list(1+rr.Intn(3), 1+rr.Intn(6))
		src := "x0=(function(){" + body + "})()"
		if g.loop {
			src = "x0=(function(){for(;;){" + body + "break}})()"
		}
		in, out, why := stmtCase(src, g.loop)
		if why != "" {
			skipped++
			skipWhy[why]++
			continue
		}
		fn := "1"
		if g.loop {
			fn = "0"
			loops++
		}
		fmt.Fprintf(fin, "jsstmt\t%s\t%s\n", fn, in)
		fmt.Fprintf(fout, "%s\n", out)
		fmt.Fprintf(fsrc, "%s\n", src)
		done++
		// the whole pipeline on the same list: the tokens js.Minify writes for the function body must be those of the
		// model's optimiser + statement printer + expression printer (function bodies without opaque statements)
		if !g.loop && !strings.Contains(" "+in, " O ") {
			var mo bytes.Buffer
			if err := (&minjs.Minifier{KeepVarNames: true}).Minify(mm, &mo, strings.NewReader(src), nil); err == nil {
				toks := jsTokens(mo.String())
				pre, suf := []string{"x0", "=", "function", "(", ")", "{"}, []string{"}", "(", ")"} // the parentheses around the function are dropped
				if len(toks) >= len(pre)+len(suf) && strings.Join(toks[:len(pre)], " ") == strings.Join(pre, " ") && strings.Join(toks[len(toks)-len(suf):], " ") == strings.Join(suf, " ") {
					fmt.Fprintf(fin, "jsstmtp\t%s\n", in)
					fmt.Fprintf(fout, "%s\n", strings.Join(toks[len(pre):len(toks)-len(suf)], " "))
					fmt.Fprintf(fsrc, "%s\n", src)
					if ob := mo.String(); strings.HasPrefix(ob, "x0=function(){") && strings.HasSuffix(ob, "}()") {
						// the same body byte for byte (Js/StmtRender.v: keywords, raw semicolons, the writer's spaces)
						fmt.Fprintf(fin, "jsstmtpb\t%s\n", in)
						bb := strings.TrimSuffix(strings.TrimPrefix(ob, "x0=function(){"), "}()")
						if bb == "" {
							fmt.Fprintf(fout, "-\n") // the model's driver writes the empty byte string this way
						} else {
							fmt.Fprintf(fout, "%x\n", bb)
						}
						fmt.Fprintf(fsrc, "%s\n", src)
						// the statement of function_body_bytes_lex_back_closed evaluated on the same body (with the bytes tied
						// above, the real output lexes back to the printer's tokens)
						fmt.Fprintf(fin, "jsstmtlx\t%s\n", in)
						fmt.Fprintf(fout, "ok\n")
						fmt.Fprintf(fsrc, "%s\n", src)
					}
					fmt.Fprintf(fin, "jsstmtr\t%s\n", in)
					fmt.Fprintf(fout, "ok\n")
					fmt.Fprintf(fsrc, "%s\n", src)
					printed++
				} else {
					printSkipped++
				}
			}
		}
		if in != out {
			changed++
		}
		for _, t := range []string{"F0", "F1", "R0", "R1", "W", "J", "BL", "N", "O"} {
			ci, co := strings.Count(" "+in, " "+t+" "), strings.Count(" "+out, " "+t+" ")
			if ci != co {
				rules["count_of_"+t+"_changed"]++
			}
		}
	}
	extra["jsstmt_lists"] = done
	extra["jsstmt_printed_bodies"] = printed
	extra["jsstmt_printed_bodies_skipped"] = printSkipped
	extra["jsstmt_loop_bodies"] = loops
	extra["jsstmt_skipped"] = skipped
	extra["jsstmt_skip_reasons"] = skipWhy
	extra["jsstmt_rewritten"] = changed
	extra["jsstmt_shape_changes"] = rules
}

// stmtCase parses src, finds the generated list (the body of the function, or of the for loop in it), serialises it, runs
// the real optimizeStmtList on it and serialises the result
func stmtCase(src string, loop bool) (in, out, why string) {
	defer func() {
		if p := recover(); p != nil {
			if u, ok := p.(unsupported); ok {
				why = "unsupported " + u.what
				return
			}
			panic(p)
		}
	}()
	ast, err := pjs.Parse(parse.NewInputString(src), pjs.Options{})
	if err != nil {
		return "", "", "parse error"
	}
	var list []pjs.IStmt
	func() {
		es := ast.BlockStmt.List[0].(*pjs.ExprStmt)
		call := es.Value.(*pjs.BinaryExpr).Y.(*pjs.CallExpr)
		fun := call.X.(*pjs.GroupExpr).X.(*pjs.FuncDecl)
		list = fun.Body.List
		if loop {
			fs := list[0].(*pjs.ForStmt)
			list = fs.Body.List
			list = list[:len(list)-1] // the closing break that keeps the loop finite when run
		}
	}()
	var bi, bo strings.Builder
	sxList(&bi, "L", list)
	res := minjs.VerifOptimizeStmtList(list, !loop)
	sxList(&bo, "L", res)
	return strings.TrimSpace(bi.String()), strings.TrimSpace(bo.String()), ""
}
