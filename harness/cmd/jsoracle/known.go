package main

// Token-level scanner for the shapes of the already known (K..) and newly recorded (N..)
// genuine defects of the pinned minifier.  It over-approximates: a program without any of
// these shapes cannot trigger a known defect, so
//   - the generator discards programs that contain one (unless -known),
//   - the shrinker refuses candidates that introduce one (no slippage into known bugs),
//   - the classifier names a violation "new:" only when the minimised input has none.

import (
	"regexp"
	"sort"
	"strings"
)

var knownSignatures = map[string]string{
	"K01":  "K01-return-trailing-undefined-dropped",
	"K02":  "K02-cond-call-merge-callee-order",
	"K03":  "K03-hasSideEffects-binary",
	"K04":  "K04-lone-class-decl-in-block-dropped",
	"K05":  "K05-isNaN-Math.abs-Math.trunc-rewrite",
	"K06":  "K06-new-callee-parens-dropped",
	"K07":  "K07-lone-lexical-decl-in-block-replaced",
	"K08":  "K08-unicode-escape-backslash-decoded",
	"K09":  "K09-escaped-dollar-brace-in-template",
	"K10":  "K10-long-bigint-literal-loses-suffix",
	"K11":  "K11-logical-assignment-precedence",
	"K12":  "K12-coalesce-group-before-bitor",
	"K13":  "K13-empty-string-isFalsy",
	"K14":  "K14-K15-with-renaming",
	"K30":  "K30-script-end-tag-decoded",
	"K37":  "K37-Math.pow-to-exponent-ungated",
	"K38":  "K38-shorthand-property-ungated",
	"N01":  "N01-numeric-string-property-key-normalised",
	"N02":  "N02-unused-trailing-param-default-dropped",
	"N03":  "N03-optional-chain-group-before-call-dropped",
	"N04":  "N04-integer-literal-string-index-to-dot",
	"N05":  "N05-octal-escape-above-177-raw-byte",
	"N06":  "N06-prefix-update-group-before-exponent",
	"N07":  "N07-grouped-numeric-literal-before-dot",
	"N08":  "N08-isFalsy-misreads-hex-digits",
	"N09":  "N09-nul-or-octal-escape-joined-with-digit",
	"N10":  "N10-comma-group-left-operand-unwrapped",
	"N11":  "N11-dangling-else-after-empty-else-dropped",
	"K118": "K118-assignment-to-undefined-or-Infinity",
	"N12":  "N12-param-default-reads-name-of-body-var",
}

var reK08 = regexp.MustCompile(`\\u(005[cC]|\{0*5[cC]\})`)
var reK09 = regexp.MustCompile(`(\$|\\x24|\\u0024|\\u\{0*24\}|\\44)(\\(\r\n|\n|\r|\x{2028}|\x{2029}))*(\\?\{|\\x7[bB]|\\u007[bB]|\\u\{0*7[bB]\}|\\173)`)
var reK30 = regexp.MustCompile(`(?i)(<|\\x3c|\\u003c|\\u\{0*3c\}|\\74)\\?/`)
var reN05 = regexp.MustCompile(`\\[23][0-7][0-7]`)
var reN09 = regexp.MustCompile(`\\[0-7]{1,3}(\\(\r\n|\n|\r|\x{2028}|\x{2029})|\x01)+[0-9]`)
var reHost = regexp.MustCompile(`^h[0-9]$`)

var binaryOpTokens = map[string]bool{
	"+": true, "-": true, "*": true, "/": true, "%": true, "**": true, "<<": true, ">>": true, ">>>": true,
	"<": true, ">": true, "<=": true, ">=": true, "==": true, "!=": true, "===": true, "!==": true,
	"&": true, "|": true, "^": true, "&&": true, "||": true, "??": true, "in": true, "instanceof": true,
	"&&=": true, "||=": true, "??=": true,
}

var assignOps = map[string]bool{
	"=": true, "+=": true, "-=": true, "*=": true, "/=": true, "%=": true, "**=": true, "<<=": true, ">>=": true,
	">>>=": true, "&=": true, "|=": true, "^=": true, "&&=": true, "||=": true, "??=": true,
}

func isPunct(t token, s string) bool { return t.k == tPunct && t.s == s }
func isWord(t token, s string) bool  { return t.k == tIdent && t.s == s }
func isName(t token) bool            { return t.k == tIdent && !jsKeywords[t.s] }

// scanKnown returns the sorted ids of the known shapes present in src.
func scanKnown(src string) []string {
	toks := tokenize(src)
	found := map[string]bool{}
	n := len(toks)
	at := func(i int) token {
		if i < 0 || i >= n {
			return token{k: tPunct, s: ""}
		}
		return toks[i]
	}

	// emptyStmt reports whether the statement starting at i may be optimised away entirely.
	var emptyStmt func(i int) (bool, int)
	emptyStmt = func(i int) (bool, int) {
		t := at(i)
		switch {
		case isPunct(t, ";"):
			return true, i + 1
		case isPunct(t, "{"):
			j := matchClose(toks, i)
			k := i + 1
			for k < j {
				ok, k2 := emptyStmt(k)
				if !ok || k2 <= k {
					return false, j + 1
				}
				k = k2
			}
			return true, j + 1
		case isWord(t, "var"):
			depth := 0
			k := i + 1
			for ; k < n; k++ {
				u := toks[k]
				if u.k == tPunct && (u.s == "(" || u.s == "[" || u.s == "{") {
					depth++
				} else if u.k == tPunct && (u.s == ")" || u.s == "]" || u.s == "}") {
					if depth == 0 {
						break
					}
					depth--
				} else if depth == 0 && isPunct(u, ";") {
					k++
					break
				} else if depth == 0 && isPunct(u, "=") {
					return false, k
				} else if depth == 0 && u.nl && k > i+1 && !isPunct(toks[k-1], ",") && !isPunct(u, ",") {
					break
				}
			}
			return true, k
		case isWord(t, "if") && isPunct(at(i+1), "("):
			j := matchClose(toks, i+1)
			b1, k := emptyStmt(j + 1)
			if !b1 {
				return false, k
			}
			if isWord(at(k), "else") {
				b2, k2 := emptyStmt(k + 1)
				return b2, k2
			}
			return true, k
		}
		return false, i
	}

	// stable callee: never assigned anywhere and declared as function/class/const, or a host function.
	stable := func(name string) bool {
		if reHost.MatchString(name) {
			return true
		}
		declared := false
		for i, t := range toks {
			if t.k != tIdent || t.s != name {
				continue
			}
			p, p2, nx := at(i-1), at(i-2), at(i+1)
			if isWord(p, "function") || isWord(p, "class") || isWord(p, "const") || isPunct(p, "*") && isWord(p2, "function") {
				declared = true
				continue
			}
			if nx.k == tPunct && (assignOps[nx.s] || nx.s == "++" || nx.s == "--") || isPunct(p, "++") || isPunct(p, "--") {
				return false
			}
		}
		return declared
	}
	calleeAt := func(i int) (string, int) {
		for isPunct(at(i), "{") || isWord(at(i), "return") || isWord(at(i), "throw") || isPunct(at(i), "(") && false {
			i++
		}
		if isName(at(i)) && isPunct(at(i+1), "(") {
			return at(i).s, matchClose(toks, i+1) + 1
		}
		return "", i
	}

	for i := 0; i < n; i++ {
		t := toks[i]
		switch t.k {
		case tStr, tTemplate:
			body := t.s
			if t.k == tTemplate && strings.HasSuffix(body, "${") {
				body = body[:len(body)-2]
			}
			if reK08.MatchString(body) {
				found["K08"] = true
			}
			if t.k == tStr {
				// literal concatenations are merged before the template conversion
				joined := body[1 : len(body)-1]
				marked := joined
				k := i
				for isPunct(at(k+1), "+") && at(k+2).k == tStr {
					nb := at(k + 2).s
					joined += nb[1 : len(nb)-1]
					marked += "\x01" + nb[1:len(nb)-1]
					k += 2
				}
				if k > i {
					body = joined
				}
				if reN09.MatchString(marked) {
					found["N09"] = true
				}
			}
			for _, m := range reK09.FindAllString(body, -1) {
				if m != "${" && m != "$\\{" {
					found["K09"] = true
				}
			}
			if t.k == tStr && reN05.MatchString(body) {
				found["N05"] = true
			}
			if t.k == tStr && reK30.MatchString(body) {
				found["K30"] = true
			}
			if t.k == tStr && emptyStringValue(t.s) {
				p, nx := at(i-1), at(i+1)
				if isPunct(p, "!") || isPunct(nx, "?") || isPunct(p, "(") && isPunct(nx, ")") {
					found["K13"] = true
				}
				if isPunct(nx, ")") && (isPunct(p, ",") || isPunct(p, "(")) {
					// whole last operand of a parenthesised condition / group (not a call argument)
					depth := 0
					for k := i + 1; k >= 0; k-- {
						u := toks[k]
						if u.k == tPunct && (u.s == ")" || u.s == "]" || u.s == "}") || u.k == tTemplate && u.tmpl == 3 {
							depth++
						} else if u.k == tPunct && (u.s == "(" || u.s == "[" || u.s == "{") || u.k == tTemplate && u.tmpl == 1 {
							depth--
							if depth == 0 {
								q := at(k - 1)
								isCall := q.k == tIdent && !jsKeywords[q.s] || isPunct(q, ")") || isPunct(q, "]") || isWord(q, "super") || q.k == tTemplate && (q.tmpl == 0 || q.tmpl == 3)
								if !isCall {
									found["K13"] = true
								}
								break
							}
						}
					}
				}
			}
			// N01: string keys/indices that look like non-canonical numbers
			if t.k == tStr && len(t.s) > 2 {
				p, nx := at(i-1), at(i+1)
				// (the index form a["1.0"] was repaired in /repo, K128; property NAMES are rewritten by the dependency's parser: K73)
				if (isPunct(p, "{") || isPunct(p, ",")) && (isPunct(nx, ":") || isPunct(nx, "(")) {
					if nonCanonicalNumber(t.s[1 : len(t.s)-1]) {
						found["N01"] = true
					}
				}
			}
		case tNum:
			// N04: 1["a"] / (1)["a"] printed as 1.a
			{
				k := i + 1
				for isPunct(at(k), ")") {
					k++
				}
				if !strings.HasSuffix(t.s, "n") && (isPunct(at(k), "[") || isPunct(at(k), "?.") && isPunct(at(k+1), "[")) {
					if isPunct(at(k), "?.") {
						k++
					}
					st := at(k + 1)
					if st.k == tStr && isPunct(at(k+2), "]") && len(st.s) > 2 && isIdentStart(st.s[1]) {
						found["N04"] = true
					}
				}
			}
			if len(t.s) > 2 && t.s[0] == '0' && (t.s[1] == 'x' || t.s[1] == 'X') {
				// N08: isFalsy scans the literal text; e/E/n stop the scan, 0 . x b o are skipped
				falsy := true
				for _, c := range t.s {
					if c == 'e' || c == 'E' || c == 'n' {
						break
					}
					if !strings.ContainsRune("0.xXbBoO_", c) {
						falsy = false
						break
					}
				}
				zero := strings.Trim(strings.TrimRight(t.s[2:], "n"), "0_") == ""
				if falsy && !zero {
					found["N08"] = true
				}
			}
			// N07: (1.0).a -> 1.a, (1n).a -> 1n..a
			if isPunct(at(i-1), "(") && isPunct(at(i+1), ")") && (isPunct(at(i+2), ".") || isPunct(at(i+2), "?.")) && !isAllDigits(t.s) {
				found["N07"] = true
			}
			s := strings.ReplaceAll(t.s, "_", "")
			if strings.HasSuffix(s, "n") && len(s) > 2 && s[0] == '0' {
				digits := len(s) - 3
				switch s[1] {
				case 'x', 'X':
					if digits >= 10 {
						found["K10"] = true
					}
				case 'o', 'O':
					if digits >= 22 {
						found["K10"] = true
					}
				case 'b', 'B':
					if digits >= 64 {
						found["K10"] = true
					}
				}
			}
		case tIdent:
			switch t.s {
			case "undefined", "Infinity":
				// K118: the global constants as assignment / update targets (their replacement 0[0] / 1/0 is not the same target)
				if nx := at(i + 1); nx.k == tPunct && (nx.s == "=" || nx.s == "++" || nx.s == "--" || len(nx.s) >= 2 && strings.HasSuffix(nx.s, "=") && nx.s != "==" && nx.s != "===" && nx.s != "!=" && nx.s != "!==" && nx.s != "<=" && nx.s != ">=") {
					found["K118"] = true
				}
				if pv := at(i - 1); isPunct(pv, "++") || isPunct(pv, "--") {
					found["K118"] = true
				}
				if isPunct(at(i+1), ")") { // (undefined) = x
					j := i + 1
					for isPunct(at(j), ")") {
						j++
					}
					if isPunct(at(j), "=") {
						found["K118"] = true
					}
				}
			case "with":
				if isPunct(at(i+1), "(") {
					found["K14"] = true
				}
			case "else":
				if empty, _ := emptyStmt(i + 1); empty {
					found["N11"] = true
				}
			case "isNaN":
				if isPunct(at(i+1), "(") && !isPunct(at(i-1), ".") {
					found["K05"] = true
				}
			case "Math":
				if isPunct(at(i+1), ".") && isPunct(at(i+3), "(") {
					switch at(i + 2).s {
					case "abs", "trunc":
						found["K05"] = true
					case "pow":
						found["K37"] = true
					}
				}
			case "new":
				if isPunct(at(i+1), "(") {
					j := matchClose(toks, i+1)
					for k := i + 2; k < j; k++ {
						if isPunct(toks[k], "(") || toks[k].k == tTemplate {
							found["K06"] = true
						}
					}
				}
			case "void":
				nx := at(i + 1)
				simple := nx.k == tNum || nx.k == tStr || nx.k == tRegex || nx.k == tIdent && (!jsKeywords[nx.s] || nx.s == "this" || nx.s == "null" || nx.s == "true" || nx.s == "false")
				if !simple {
					found["K03"] = true
				}
			case "return":
				// last comma operand undefined-like
				depth := 0
				segStart := i + 1
				nseg := 1
				k := i + 1
				for ; k < n; k++ {
					u := toks[k]
					if u.k == tPunct && (u.s == "(" || u.s == "[" || u.s == "{") || u.k == tTemplate && u.tmpl == 1 {
						depth++
					} else if u.k == tPunct && (u.s == ")" || u.s == "]" || u.s == "}") || u.k == tTemplate && u.tmpl == 3 {
						if depth == 0 {
							break
						}
						depth--
					} else if depth == 0 && isPunct(u, ";") {
						break
					} else if depth == 0 && isPunct(u, ",") {
						segStart = k + 1
						nseg++
					} else if depth == 0 && u.nl && k > i+1 {
						pt := toks[k-1]
						contin := pt.k == tPunct && pt.s != ")" && pt.s != "]" && pt.s != "}" && pt.s != "++" && pt.s != "--" || u.k == tPunct && u.s != "(" && u.s != "[" && u.s != "{" && u.s != "++" && u.s != "--" && u.s != "!" && u.s != "~"
						if !contin {
							break
						}
					}
				}
				if segStart < k && !(at(i + 1).nl) {
					s := segStart
					for isPunct(at(s), "(") {
						s++
					}
					if isWord(at(s), "undefined") || isWord(at(s), "void") {
						p := at(i - 1)
						sole := nseg == 1 && (isPunct(p, "{") || isPunct(p, ")") || isWord(p, "else") || isPunct(p, ":") || i == 0)
						plain := k-segStart <= 4
						if !(sole && plain) {
							found["K01"] = true
						}
					}
				}
			case "if":
				if isPunct(at(i+1), "(") {
					j := matchClose(toks, i+1)
					empty, k := emptyStmt(j + 1)
					if empty && isWord(at(k), "else") {
						empty, _ = emptyStmt(k + 1)
					}
					if empty {
						for q := i + 2; q < j; q++ {
							if (toks[q].k == tPunct || toks[q].k == tIdent) && binaryOpTokens[toks[q].s] {
								found["K03"] = true
							}
						}
					}
					// K02: if(c)f(x);else f(y)  /  if(c)return f(x);return f(y)
					if n1, e1 := calleeAt(j + 1); n1 != "" {
						k := e1
						for isPunct(at(k), ";") || isPunct(at(k), "}") {
							k++
						}
						if isWord(at(k), "else") {
							k++
						}
						if n2, _ := calleeAt(k); n2 == n1 && !stable(n1) {
							found["K02"] = true
						}
					}
				}
			}
		case tPunct:
			switch t.s {
			case "&&=", "||=", "??=":
				if isPunct(at(i+1), "(") {
					found["K11"] = true
				}
				{
					// only a plain expression statement `x op= simple` is safe
					k := i - 1
					for k >= 0 && (toks[k].k == tIdent && !jsKeywords[toks[k].s] || isPunct(toks[k], ".")) {
						k--
					}
					p := at(k)
					first := at(k + 1)
					okPrev := k < 0 || isPunct(p, ";") || isPunct(p, "{") || isPunct(p, "}") || first.nl && !(p.k == tPunct && p.s != ")" && p.s != "]")
					if !okPrev {
						found["K11"] = true
					}
					depth := 0
					for q := i + 1; q < n; q++ {
						u := toks[q]
						if u.k == tPunct && (u.s == "(" || u.s == "[" || u.s == "{") {
							depth++
						} else if u.k == tPunct && (u.s == ")" || u.s == "]" || u.s == "}") {
							if depth == 0 {
								if u.s != "}" {
									found["K11"] = true
								}
								break
							}
							depth--
						} else if depth == 0 && isPunct(u, ";") || depth == 0 && u.nl {
							break
						} else if depth == 0 && u.k == tPunct && u.s != "." && u.s != "?." {
							found["K11"] = true
						}
					}
				}
				depth := 0
				for k := i + 1; k < n; k++ {
					u := toks[k]
					if u.k == tPunct && (u.s == "(" || u.s == "[" || u.s == "{") {
						depth++
					} else if u.k == tPunct && (u.s == ")" || u.s == "]" || u.s == "}") {
						if depth == 0 {
							break
						}
						depth--
					} else if depth == 0 && (isPunct(u, ";") || isPunct(u, ",")) {
						break
					} else if depth == 0 && isPunct(u, "?") {
						found["K11"] = true
					}
				}
			case "?":
				if n1, e1 := calleeAt(i + 1); n1 != "" && isPunct(at(e1), ":") {
					if n2, _ := calleeAt(e1 + 1); n2 == n1 && !stable(n1) {
						found["K02"] = true
					}
				}
			case "|":
				if isPunct(at(i-1), ")") {
					// find the matching "("
					depth := 0
					for k := i - 1; k >= 0; k-- {
						u := toks[k]
						if u.k == tPunct && (u.s == ")" || u.s == "]" || u.s == "}") {
							depth++
						} else if u.k == tPunct && (u.s == "(" || u.s == "[" || u.s == "{") {
							depth--
							if depth == 0 {
								break
							}
						} else if isPunct(u, "??") || depth == 1 && isPunct(u, "?") {
							found["K12"] = true // a==null?b:a is rewritten to a??b first
						}
					}
				}
			case "{":
				for isPunct(at(i+1), ";") {
					i++ // leading empty statements are removed first
				}
				kw := at(i + 1)
				if kw.k == tIdent && (kw.s == "let" || kw.s == "const" || kw.s == "class") {
					nx := at(i + 2)
					if nx.k == tPunct && (nx.s == ":" || nx.s == "," || nx.s == "}" || nx.s == "(") {
						break
					}
					open := i
					for open > 0 && isPunct(toks[open], ";") {
						open--
					}
					close := matchClose(toks, open)
					end := close
					if kw.s == "class" {
						depth := 0
						for k := i + 2; k < close; k++ {
							u := toks[k]
							if isPunct(u, "(") {
								depth++
							} else if isPunct(u, ")") {
								depth--
							} else if depth == 0 && isPunct(u, "{") {
								end = matchClose(toks, k) + 1
								break
							}
						}
					} else {
						depth := 0
						for k := i + 2; k < close; k++ {
							u := toks[k]
							if u.k == tPunct && (u.s == "(" || u.s == "[" || u.s == "{") || u.k == tTemplate && u.tmpl == 1 {
								depth++
							} else if u.k == tPunct && (u.s == ")" || u.s == "]" || u.s == "}") || u.k == tTemplate && u.tmpl == 3 {
								depth--
							} else if depth == 0 && isPunct(u, ";") {
								end = k + 1
								break
							} else if depth == 0 && u.nl && k > i+3 {
								pt := toks[k-1]
								if !(pt.k == tPunct && pt.s != ")" && pt.s != "]" && pt.s != "}") && !(u.k == tPunct && u.s != "{" && u.s != "[" && u.s != "(") && !isWord(u, "in") && !isWord(u, "instanceof") {
									end = k
									break
								}
							}
						}
					}
					// anything non-empty after the declaration(s)?
					k := end
					lone := true
					for k < close {
						if isWord(at(k), "let") || isWord(at(k), "const") {
							// a following lexical declaration is merged into the first one
							depth := 0
							k2 := k + 1
							for ; k2 < close; k2++ {
								u := toks[k2]
								if u.k == tPunct && (u.s == "(" || u.s == "[" || u.s == "{") || u.k == tTemplate && u.tmpl == 1 {
									depth++
								} else if u.k == tPunct && (u.s == ")" || u.s == "]" || u.s == "}") || u.k == tTemplate && u.tmpl == 3 {
									depth--
								} else if depth == 0 && isPunct(u, ";") {
									k2++
									break
								} else if depth == 0 && u.nl && k2 > k+1 {
									pt := toks[k2-1]
									if !(pt.k == tPunct && pt.s != ")" && pt.s != "]" && pt.s != "}") && !(u.k == tPunct && u.s != "{" && u.s != "[" && u.s != "(") && !isWord(u, "in") && !isWord(u, "instanceof") {
										break
									}
								}
							}
							k = k2
							continue
						}
						ok, k2 := emptyStmt(k)
						if !ok || k2 <= k {
							lone = false
							break
						}
						k = k2
					}
					if lone {
						if kw.s == "class" {
							found["K04"] = true
						} else {
							found["K07"] = true
						}
					}
				}
			case "(":
				// N06 through the Math.pow rewrite: Math.pow(++a, b) becomes ++a**b, which the minifier's own parser rejects (K76)
				if isWord(at(i-1), "pow") && isPunct(at(i-2), ".") && isWord(at(i-3), "Math") {
					nx := at(i + 1)
					for k := i + 1; isPunct(nx, "("); k++ {
						nx = at(k + 1)
					}
					if isPunct(nx, "++") || isPunct(nx, "--") {
						found["N06"] = true
					}
				}
			case "**", "**=":
				if t.s == "**" && isPunct(at(i-1), ")") {
					depth := 0
					for k := i - 1; k >= 0; k-- {
						u := toks[k]
						if u.k == tPunct && (u.s == ")" || u.s == "]" || u.s == "}") {
							depth++
						} else if u.k == tPunct && (u.s == "(" || u.s == "[" || u.s == "{") {
							depth--
							if depth == 0 {
								nx := at(k + 1)
								for isPunct(nx, "(") {
									k++
									nx = at(k + 1)
								}
								if isPunct(nx, "++") || isPunct(nx, "--") {
									found["N06"] = true
								}
								break
							}
						}
					}
				}
			case ")":
				// N10: (a,b) OP c with OP other than && and ||
				if nx := at(i + 1); (nx.k == tPunct || nx.k == tIdent) && binaryOpTokens[nx.s] && nx.s != "&&" && nx.s != "||" && nx.s != "&&=" && nx.s != "||=" && nx.s != "??=" {
					depth := 0
					hasComma := false
					for k := i; k >= 0; k-- {
						u := toks[k]
						if u.k == tPunct && (u.s == ")" || u.s == "]" || u.s == "}") || u.k == tTemplate && u.tmpl == 3 {
							depth++
						} else if u.k == tPunct && (u.s == "(" || u.s == "[" || u.s == "{") || u.k == tTemplate && u.tmpl == 1 {
							depth--
							if depth == 0 {
								// a call's argument list is not a group
								p := at(k - 1)
								isCall := p.k == tIdent && !jsKeywords[p.s] || isPunct(p, ")") || isPunct(p, "]") || isWord(p, "this") || isWord(p, "super") || p.k == tTemplate && (p.tmpl == 0 || p.tmpl == 3)
								if hasComma && !isCall && u.s == "(" {
									found["N10"] = true
								}
								break
							}
						} else if depth == 1 && isPunct(u, ",") {
							hasComma = true
						}
					}
				}
				// N03: (a?.b)(...)  /  (a?.b)`..`  : group around an optional chain followed by a call
				nx := at(i + 1)
				if isPunct(nx, "(") || nx.k == tTemplate && (nx.tmpl == 0 || nx.tmpl == 1) {
					depth := 0
					for k := i; k >= 0; k-- {
						u := toks[k]
						if u.k == tPunct && (u.s == ")" || u.s == "]" || u.s == "}") {
							depth++
						} else if u.k == tPunct && (u.s == "(" || u.s == "[" || u.s == "{") {
							depth--
							if depth == 0 {
								break
							}
						} else if depth == 1 && isPunct(u, "?.") {
							found["N03"] = true
						}
					}
				}
			}
		}
	}
	// K38: {a:a} is printed as {a} for every Version; renaming can also make {a:v} into {a}.
	// Only relevant for plain ES5 inputs (otherwise the C16 shorthand check is not applied).
	if len(features(toks)) == 0 {
		for i := 0; i+3 < n; i++ {
			if (isPunct(toks[i], "{") && !toks[i].block || isPunct(toks[i], ",")) && toks[i+1].k == tIdent && isPunct(toks[i+2], ":") && isName(toks[i+3]) && (isPunct(at(i+4), ",") || isPunct(at(i+4), "}")) {
				found["K38"] = true
			}
		}
	}
	// N02: trailing parameters with a default value that has side effects
	for i := 0; i < n; i++ {
		if !isPunct(toks[i], "(") {
			continue
		}
		j := matchClose(toks, i)
		if j >= n {
			continue
		}
		nx := at(j + 1)
		isParams := isPunct(nx, "=>") || isPunct(nx, "{") && (isWord(at(i-1), "function") || isName(at(i-1)) || isPunct(at(i-1), "*") || at(i-1).k == tStr || at(i-1).k == tNum || isPunct(at(i-1), "]")) && !isWord(at(i-1), "if") && !isWord(at(i-1), "for") && !isWord(at(i-1), "while") && !isWord(at(i-1), "switch") && !isWord(at(i-1), "catch") && !isWord(at(i-1), "with")
		if !isParams {
			continue
		}
		hasDefault := false
		{
			dd := 0
			for k := i + 1; k < j; k++ {
				u := toks[k]
				if u.k == tPunct && (u.s == "(" || u.s == "[" || u.s == "{") {
					dd++
				} else if u.k == tPunct && (u.s == ")" || u.s == "]" || u.s == "}") {
					dd--
				} else if dd == 0 && isPunct(u, "=") {
					hasDefault = true
				}
			}
		}
		if hasDefault && isPunct(nx, "{") {
			// removing a defaulted parameter turns the unmapped arguments object into a mapped one
			be := matchClose(toks, j+1)
			for k := j + 2; k < be && k < n; k++ {
				if isWord(toks[k], "arguments") {
					found["N02"] = true
				}
			}
		}
		if hasDefault && isPunct(nx, "{") {
			// N12 (K133): a default value reads a name that the body declares with var: the parser of the dependency binds
			// the uses in the body to the outer variable, the renamer renames only the declaration
			used := map[string]bool{}
			dd, inDef := 0, false
			for k := i + 1; k < j; k++ {
				u := toks[k]
				if u.k == tPunct && (u.s == "(" || u.s == "[" || u.s == "{") {
					dd++
				} else if u.k == tPunct && (u.s == ")" || u.s == "]" || u.s == "}") {
					dd--
				} else if isPunct(u, "=") {
					inDef = true
				} else if dd == 0 && isPunct(u, ",") {
					inDef = false
				} else if inDef && u.k == tIdent && !jsKeywords[u.s] {
					used[u.s] = true
				}
			}
			if len(used) > 0 {
				be := matchClose(toks, j+1)
				inVar := false
				for k := j + 2; k < be && k < n; k++ {
					u := toks[k]
					if isWord(u, "var") {
						inVar = true
					} else if isPunct(u, ";") || u.nl && !isPunct(at(k-1), ",") && !isWord(at(k-1), "var") {
						inVar = false
					} else if inVar && u.k == tIdent && used[u.s] {
						found["N12"] = true
					}
				}
			}
		}
		depth := 0
		inDefault := false
		for k := i + 1; k < j; k++ {
			u := toks[k]
			if u.k == tPunct && (u.s == "(" || u.s == "[" || u.s == "{") || u.k == tTemplate && u.tmpl == 1 {
				if inDefault && u.s == "(" {
					found["N02"] = true
				}
				if inDefault && u.k == tTemplate {
					found["N02"] = true
				}
				depth++
			} else if u.k == tPunct && (u.s == ")" || u.s == "]" || u.s == "}") || u.k == tTemplate && u.tmpl == 3 {
				depth--
			} else if depth == 0 && isPunct(u, "=") {
				inDefault = true
			} else if depth == 0 && isPunct(u, ",") {
				inDefault = false
			} else if inDefault && isName(u) && !sandboxNames[u.s] && !paramBefore(toks, i, k, u.s) {
				found["N02"] = true // a default that may throw a ReferenceError
			} else if inDefault && (u.k == tPunct && (assignOps[u.s] || u.s == "++" || u.s == "--" || u.s == "." || u.s == "?.") || isWord(u, "new") || isWord(u, "yield") || isWord(u, "await") || isWord(u, "delete") || u.k == tTemplate && u.tmpl != 0) {
				found["N02"] = true
			}
		}
	}
	var ids []string
	for id := range found {
		ids = append(ids, id)
	}
	sort.Strings(ids)
	return ids
}

// nonCanonicalNumber reports whether s is accepted as a decimal literal but is not the
// canonical string of its numeric value (so that using it as a number changes the key).
func nonCanonicalNumber(s string) bool {
	if s == "" {
		return false
	}
	digits, dot, exp := 0, false, false
	for i := 0; i < len(s); i++ {
		c := s[i]
		switch {
		case isDigit(c):
			digits++
		case c == '.' && !dot && !exp:
			dot = true
		case (c == 'e' || c == 'E') && !exp && digits > 0:
			exp = true
		case (c == '+' || c == '-') && i > 0 && (s[i-1] == 'e' || s[i-1] == 'E'):
		default:
			return false
		}
	}
	if digits == 0 {
		return false
	}
	if !dot && !exp {
		// plain integer: canonical iff no leading zero (or just "0") and not too long
		if len(s) > 1 && s[0] == '0' {
			return true
		}
		return len(s) > 15
	}
	return true // any fraction/exponent spelling is treated as suspicious
}

// emptyStringValue: "" ” or only line continuations.
func emptyStringValue(lit string) bool {
	if len(lit) < 2 {
		return false
	}
	b := lit[1 : len(lit)-1]
	b = strings.ReplaceAll(b, "\\\r\n", "")
	b = strings.ReplaceAll(b, "\\\n", "")
	b = strings.ReplaceAll(b, "\\\r", "")
	b = strings.ReplaceAll(b, "\\\u2028", "")
	b = strings.ReplaceAll(b, "\\\u2029", "")
	return b == ""
}

var sandboxNames = func() map[string]bool {
	m := map[string]bool{"undefined": true, "NaN": true, "Infinity": true}
	for _, g := range globalsTable {
		m[g.name] = true
	}
	for i := 0; i < 10; i++ {
		m["h"+string(rune('0'+i))] = true
	}
	return m
}()

// paramBefore: name occurs as an identifier earlier in the same parameter list.
func paramBefore(toks []token, open, k int, name string) bool {
	for q := open + 1; q < k; q++ {
		if toks[q].k == tIdent && toks[q].s == name {
			return true
		}
	}
	return false
}

func isAllDigits(s string) bool {
	for i := 0; i < len(s); i++ {
		if !isDigit(s[i]) {
			return false
		}
	}
	return s != ""
}

func hasID(ids []string, id string) bool {
	for _, x := range ids {
		if x == id {
			return true
		}
	}
	return false
}
