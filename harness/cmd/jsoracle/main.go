// Command jsoracle is a differential search oracle for the JS minifier of tdewolff/minify:
// C01 (observational equivalence), C02 (renaming hygiene), C09-JS (output parses and is
// accepted again) and C16-JS (no syntax newer than the requested Version).
//
//	jsoracle -seed N -n COUNT -out DIR [-tier quick|thorough] [-witness FILE] [-known] [-dir SCRIPTDIR]
package main

import (
	"crypto/sha256"
	"encoding/hex"
	"encoding/json"
	"flag"
	"fmt"
	"os"
	"path/filepath"
	"runtime"
	"sort"
	"strings"
	"sync"
	"time"

	"verifharness/internal/vh"
)

type witnessFile struct {
	Input    string            `json:"input"`
	InputHex string            `json:"input_hex"` // used when input is empty (sources that are not valid UTF-8)
	Options  map[string]string `json:"options"`
	Strict   bool              `json:"strict"`
}

type caseResult struct {
	prog     program
	cfgs     []config
	verdicts []verdict
}

func sourceDir() string {
	_, file, _, ok := runtime.Caller(0)
	if ok {
		return filepath.Dir(file)
	}
	return "."
}

func main() {
	seed := flag.Uint64("seed", 1, "PRNG seed")
	n := flag.Int("n", 1000, "number of programs")
	outDir := flag.String("out", "", "output directory (result.json)")
	tier := flag.String("tier", "quick", "quick|thorough")
	witness := flag.String("witness", "", "witness JSON file to replay")
	known := flag.Bool("known", false, "also generate the shapes of known defects")
	dir := flag.String("dir", sourceDir(), "directory holding runner.js")
	workers := flag.Int("workers", 0, "node processes (default: cores-2)")
	dump := flag.String("dump", "", "debug: write generated programs to this file")
	doShrink := flag.Bool("shrink", false, "witness mode: also shrink a failing witness (triage aid)")
	casesKind := flag.String("cases", "all", "model correspondence data to write: rename | print | all | none")
	flag.Parse()
	if *outDir == "" {
		fmt.Fprintln(os.Stderr, "jsoracle: -out is required")
		os.Exit(2)
	}
	if err := os.MkdirAll(*outDir, 0o755); err != nil {
		fmt.Fprintln(os.Stderr, "jsoracle:", err)
		os.Exit(2)
	}
	if _, err := os.Stat(filepath.Join(*dir, "runner.js")); err != nil {
		fmt.Fprintln(os.Stderr, "jsoracle: runner.js not found in", *dir, "(use -dir)")
		os.Exit(2)
	}
	nw := *workers
	if nw <= 0 {
		nw = runtime.NumCPU() - 2
		if nw < 2 {
			nw = 2
		}
		if nw > 14 {
			nw = 14
		}
	}
	if *witness != "" {
		nw = 2
	}
	p, err := newPool(*dir, nw)
	if err != nil {
		fmt.Fprintln(os.Stderr, "jsoracle: cannot start node:", err)
		os.Exit(2)
	}
	defer p.close()
	ev := &evaluator{pool: p, timeout: 400}

	res := &vh.Result{Engine: "jsoracle", Seed: *seed, Tier: *tier, Extra: map[string]interface{}{}}
	res.Rule = "distinct_nontrivial counts the distinct generated programs (by SHA-256 of the text) that were judged under at least one configuration and whose default-configuration minified text differs from the input after removing all whitespace"
	start := time.Now()
	if *witness != "" {
		if err := runWitness(ev, res, *witness, *doShrink); err != nil {
			fmt.Fprintln(os.Stderr, "jsoracle:", err)
			os.Exit(2)
		}
	} else {
		runGeneration(ev, res, *seed, *n, *tier, *known, nw, *dump)
		runRename(res, *seed, *n, *known, *outDir, *casesKind)
	}
	res.Extra["wall_seconds"] = time.Since(start).Seconds()
	res.Extra["node_workers"] = nw
	if err := res.Write(filepath.Join(*outDir, "result.json")); err != nil {
		fmt.Fprintln(os.Stderr, "jsoracle:", err)
		os.Exit(2)
	}
}

func parseConfig(opts map[string]string) config {
	c := config{}
	if v, ok := opts["KeepVarNames"]; ok {
		c.Keep = v == "true" || v == "1"
	}
	if v, ok := opts["Version"]; ok {
		fmt.Sscan(v, &c.Version)
	}
	return c
}

func runWitness(ev *evaluator, res *vh.Result, file string, doShrink bool) error {
	b, err := os.ReadFile(file)
	if err != nil {
		return err
	}
	var w witnessFile
	if err := json.Unmarshal(b, &w); err != nil {
		return fmt.Errorf("%s: %v", file, err)
	}
	input := w.Input
	if input == "" && w.InputHex != "" {
		if hb, err := hex.DecodeString(w.InputHex); err == nil {
			input = string(hb)
		}
	}
	if w.Strict {
		input = "\"use strict\";" + input
	}
	c := parseConfig(w.Options)
	v := ev.evalProgram(input, nil, []config{c})[0]
	res.Hist("config", c.String())
	res.Samples = append(res.Samples, map[string]interface{}{"input": input, "options": c.options(), "output": v.output})
	if !v.judged {
		res.NotJudged = 1
		res.Hist("not_judged", v.reason)
		res.Extra["not_judged_detail"] = v.detail
		return nil
	}
	res.Evaluations = 1
	if stripWS(v.output) != stripWS(input) {
		res.DistinctNontrivial = 1
	}
	if v.kind != "" {
		note := "witness replay (not shrunk)"
		if doShrink {
			input, v, note = shrinkCase(ev, input, nil, c, v, time.Now().Add(60*time.Second))
		}
		res.Violations = append(res.Violations, makeViolation(input, c, v, 0, note))
	}
	return nil
}

func stripWS(s string) string {
	return strings.Map(func(r rune) rune {
		if r == ' ' || r == '\n' || r == '\t' || r == '\r' {
			return -1
		}
		return r
	}, s)
}

func sizeBucket(n int) string {
	switch {
	case n < 200:
		return "<200"
	case n < 500:
		return "200-499"
	case n < 1000:
		return "500-999"
	case n < 2000:
		return "1000-1999"
	case n < 5000:
		return "2000-4999"
	case n < 20000:
		return "5000-19999"
	}
	return ">=20000"
}

var sampledVersions = []int{5, 2015, 2016, 2017, 2018, 2019, 2020, 2021, 2022}

func chooseConfigs(r *vh.Rand, prog program) []config {
	if prog.HasWith {
		// renaming inside/around `with` is a known defect (K14/K15): name-keeping configurations only
		return []config{{Keep: true, Version: 0}, {Keep: true, Version: sampledVersions[r.Intn(len(sampledVersions))]}}
	}
	cfgs := []config{{Keep: false, Version: 0}, {Keep: true, Version: 0}}
	v1 := sampledVersions[r.Intn(len(sampledVersions))]
	cfgs = append(cfgs, config{Keep: r.Chance(1, 4), Version: v1})
	if r.Chance(1, 2) {
		// a version at or just above the dialect of the program makes the C16 check meaningful
		v2 := prog.Level
		if r.Chance(1, 3) {
			v2 = sampledVersions[r.Intn(len(sampledVersions))]
		}
		if v2 != v1 {
			cfgs = append(cfgs, config{Keep: false, Version: v2})
		}
	}
	return cfgs
}

var fixedInRepo = map[string]bool{"K04": true, "K07": true, "N02": true, "K02": true, "K03": true, "K09": true, "K30": true, "K06": true, "K08": true, "K10": true, "K11": true, "K12": true, "K13": true, "K37": true, "K38": true,
	"N03": true, "N04": true, "N05": true, "N07": true, "N08": true, "N09": true, "N10": true, "N11": true}

func runGeneration(ev *evaluator, res *vh.Result, seed uint64, n int, tier string, known bool, nw int, dump string) {
	master := vh.NewRand(seed)
	cases := make([]*caseResult, n)
	discarded := 0
	for i := 0; i < n; i++ {
		var prog program
		for attempt := 0; ; attempt++ {
			prog = generateProgram(master.Fork(), known)
			if known {
				break
			}
			ids := scanKnown(prog.Text)
			// findings repaired in /repo: their shapes belong to the default stream again
			kept := ids[:0]
			for _, id := range ids {
				if !fixedInRepo[id] {
					kept = append(kept, id)
				}
			}
			ids = kept
			if len(ids) == 0 || len(ids) == 1 && ids[0] == "K14" && prog.HasWith {
				break
			}
			discarded++
			for _, id := range ids {
				res.Hist("discarded_known_shape", id)
			}
			if attempt > 20 {
				prog = program{Text: "h0(1)", Kinds: map[string]int{"expr": 1}, Level: 5}
				break
			}
		}
		cases[i] = &caseResult{prog: prog, cfgs: chooseConfigs(master.Fork(), prog)}
	}
	if dump != "" {
		var b strings.Builder
		for i, c := range cases {
			fmt.Fprintf(&b, "// ---- case %d level=%d strict=%v\n%s\n", i, c.prog.Level, c.prog.Strict, c.prog.Text)
		}
		os.WriteFile(dump, []byte(b.String()), 0o644)
	}
	// evaluate in parallel
	var wg sync.WaitGroup
	sem := make(chan struct{}, nw+2)
	for i := range cases {
		wg.Add(1)
		sem <- struct{}{}
		go func(c *caseResult) {
			defer wg.Done()
			defer func() { <-sem }()
			c.verdicts = ev.evalProgram(c.prog.Text, c.prog.Probes, c.cfgs)
		}(cases[i])
	}
	wg.Wait()
	// confirm every failure once more (doubled timeout) to rule out load-dependent flakes
	{
		var wgc sync.WaitGroup
		semc := make(chan struct{}, nw)
		slow := &evaluator{pool: ev.pool, timeout: 2 * ev.timeout}
		verySlow := &evaluator{pool: ev.pool, timeout: 2000, outTimeout: 20000}
		for _, c := range cases {
			for j := range c.verdicts {
				if c.verdicts[j].kind == "" || !c.verdicts[j].judged {
					continue
				}
				wgc.Add(1)
				semc <- struct{}{}
				go func(c *caseResult, j int) {
					defer wgc.Done()
					defer func() { <-semc }()
					e2 := slow
					if c.verdicts[j].kind == "timeout" {
						e2 = verySlow // an output timeout must survive a 20 s budget to count
					}
					v2 := e2.evalProgram(c.prog.Text, c.prog.Probes, []config{c.cfgs[j]})[0]
					if !v2.judged || v2.kind != c.verdicts[j].kind {
						c.verdicts[j] = verdict{judged: false, kind: "unconfirmed", detail: c.verdicts[j].kind}
						return
					}
					c.verdicts[j] = v2
				}(c, j)
			}
		}
		wgc.Wait()
	}

	type failing struct {
		idx int
		cfg config
		v   verdict
	}
	var fails []failing
	seenNontrivial := map[[32]byte]bool{}
	njExamples := map[string]int{}
	var njList []interface{}
	for i, c := range cases {
		for k, cnt := range c.prog.Kinds {
			res.Histograms = ensure(res.Histograms, "statement_kinds")
			res.Histograms["statement_kinds"][k] += cnt
		}
		res.Hist("size", sizeBucket(len(c.prog.Text)))
		res.Hist("dialect", fmt.Sprint(c.prog.Level))
		if c.prog.Strict {
			res.Hist("mode", "strict")
		} else {
			res.Hist("mode", "sloppy")
		}
		anyJudged := false
		for j, v := range c.verdicts {
			if v.kind == "unconfirmed" {
				res.NotJudged++
				res.Hist("not_judged", "unconfirmed-"+v.detail)
				continue
			}
			if !v.judged {
				res.NotJudged++
				res.Hist("not_judged", v.reason)
				if njExamples[v.reason] < 4 && j == 0 {
					njExamples[v.reason]++
					njList = append(njList, map[string]interface{}{"reason": v.reason, "detail": v.detail, "case": i, "input": clip(c.prog.Text, 3000)})
				}
				continue
			}
			anyJudged = true
			if v.kind == "unconfirmed" {
				res.NotJudged++
				res.Hist("not_judged", "unconfirmed-"+v.detail)
				continue
			}
			res.Evaluations++
			res.Hist("config", c.cfgs[j].String())
			if v.kind != "" {
				fails = append(fails, failing{i, c.cfgs[j], v})
			}
		}
		if anyJudged && len(c.verdicts) > 0 && c.verdicts[0].output != "" && stripWS(c.verdicts[0].output) != stripWS(c.prog.Text) {
			seenNontrivial[sha256.Sum256([]byte(c.prog.Text))] = true
		}
		if len(res.Samples) < 3 && anyJudged && len(c.prog.Text) < 1500 && i%7 == 3 {
			res.Samples = append(res.Samples, map[string]interface{}{"case": i, "input": c.prog.Text, "options": c.cfgs[0].options(), "output": c.verdicts[0].output})
		}
	}
	for i := 0; len(res.Samples) < 3 && i < len(cases); i++ {
		c := cases[i]
		if len(c.verdicts) > 0 && len(c.prog.Text) < 4000 {
			res.Samples = append(res.Samples, map[string]interface{}{"case": i, "input": c.prog.Text, "options": c.cfgs[0].options(), "output": c.verdicts[0].output})
		}
	}
	res.DistinctNontrivial = len(seenNontrivial)
	res.Extra["programs"] = n
	res.Extra["not_judged_examples"] = njList
	res.Extra["discarded_for_known_shapes"] = discarded

	// shrink and report
	shrinkBudget := 12 * time.Second
	maxShrunk := 10
	perCase := 4 * time.Second
	if tier == "thorough" {
		shrinkBudget, maxShrunk, perCase = 180*time.Second, 40, 20*time.Second
	}
	// one representative per (program) first, smaller programs first
	sort.SliceStable(fails, func(a, b int) bool {
		return len(cases[fails[a].idx].prog.Text) < len(cases[fails[b].idx].prog.Text)
	})
	deadline := time.Now().Add(shrinkBudget)
	type job struct {
		f      failing
		shrink bool
	}
	jobs := make([]job, len(fails))
	for i, f := range fails {
		jobs[i] = job{f: f, shrink: i < maxShrunk}
	}
	viol := make([]vh.Violation, len(jobs))
	var wg2 sync.WaitGroup
	sem2 := make(chan struct{}, nw)
	for i := range jobs {
		wg2.Add(1)
		sem2 <- struct{}{}
		go func(i int) {
			defer wg2.Done()
			defer func() { <-sem2 }()
			j := jobs[i]
			c := cases[j.f.idx]
			input, v, note := c.prog.Text, j.f.v, "not shrunk (budget)"
			if j.shrink && time.Now().Before(deadline) {
				d := time.Now().Add(perCase)
				if d.After(deadline) {
					d = deadline
				}
				input, v, note = shrinkCase(ev, c.prog.Text, c.prog.Probes, j.f.cfg, j.f.v, d)
			}
			viol[i] = makeViolation(input, j.f.cfg, v, j.f.idx, note)
		}(i)
	}
	wg2.Wait()
	res.Violations = append(res.Violations, viol...)
	for _, v := range res.Violations {
		res.Hist("violation_signatures", v.Signature)
	}
}

func ensure(h map[string]map[string]int, name string) map[string]map[string]int {
	if h == nil {
		h = map[string]map[string]int{}
	}
	if h[name] == nil {
		h[name] = map[string]int{}
	}
	return h
}

func kindClass(k string) string { return k }

// shrinkCase minimises a failing input under cfg, keeping the violation kind and not
// introducing any known-defect shape.
func shrinkCase(ev *evaluator, input string, probes []string, cfg config, v0 verdict, deadline time.Time) (string, verdict, string) {
	base := scanKnown(input)
	small := &evaluator{pool: ev.pool, timeout: 150, outTimeout: 1500}
	last := v0
	test := func(cand string) bool {
		if strings.TrimSpace(cand) == "" {
			return false
		}
		for _, id := range scanKnown(cand) {
			if !hasID(base, id) {
				return false
			}
		}
		v := small.evalProgram(cand, probes, []config{cfg})[0]
		if v.judged && v.kind == v0.kind {
			last = v
			return true
		}
		return false
	}
	s := &shrinker{test: test, deadline: deadline, maxTests: 4000}
	out := s.run(input)
	// re-evaluate the final text with the normal timeout
	v := ev.evalProgram(out, probes, []config{cfg})[0]
	if !v.judged || v.kind != v0.kind {
		return input, v0, "shrinking produced an unstable result; original kept"
	}
	_ = last
	return out, v, fmt.Sprintf("shrunk from %d to %d bytes in %d tests", len(input), len(out), s.tests)
}

func makeViolation(input string, c config, v verdict, idx int, note string) vh.Violation {
	sig := classify(input, v.output, c, v)
	kind := "oracle"
	if v.kind == "panic" {
		kind = "panic"
	} else if v.kind == "minify-timeout" {
		kind = "timeout"
	}
	expected := "output observationally equivalent to input (same host-call trace, completion and final globals)"
	switch v.property {
	case "C09":
		expected = "output parses in node and is accepted by the minifier again"
	case "C16":
		expected = "no syntax newer than the requested Version unless the input used it"
	case "C02":
		expected = "identifiers that must be kept are emitted unchanged"
	}
	return vh.Violation{
		Kind:      kind,
		Signature: sig,
		Input:     input,
		InputHex:  vh.Hex([]byte(input)),
		Options:   c.options(),
		Observed:  clip(v.output, 4000),
		Expected:  expected,
		Detail:    v.property + " " + v.kind + ": " + v.detail + " [" + note + "]",
		Case:      idx,
	}
}
