package main

// Pool of persistent `node runner.js` processes.

import (
	"bufio"
	"encoding/json"
	"fmt"
	"io"
	"os/exec"
	"path/filepath"
	"sync"
	"time"
)

type runRequest struct {
	ID         int      `json:"id"`
	Input      string   `json:"input"`
	Outs       []string `json:"outs"`
	Probes     []string `json:"probes"`
	Timeout    int      `json:"timeout"`
	OutTimeout int      `json:"outTimeout"`
	Full       bool     `json:"full,omitempty"`
}

type runIn struct {
	Status string   `json:"status"`
	Comp   string   `json:"comp"`
	NCalls int      `json:"ncalls"`
	Ms     int      `json:"ms"`
	Msg    string   `json:"msg"`
	Trace  []string `json:"trace,omitempty"`
	Gl     []string `json:"gl,omitempty"`
}

type runOut struct {
	Compile bool     `json:"compile"`
	Diff    string   `json:"diff"`
	Detail  string   `json:"detail"`
	Trace   []string `json:"trace,omitempty"`
	Gl      []string `json:"gl,omitempty"`
	Comp    string   `json:"comp,omitempty"`
}

type runReply struct {
	ID    int      `json:"id"`
	In    runIn    `json:"in"`
	Outs  []runOut `json:"outs"`
	Error string   `json:"error,omitempty"`
}

type worker struct {
	cmd   *exec.Cmd
	in    io.WriteCloser
	out   *bufio.Reader
	count int
}

type pool struct {
	dir     string
	free    chan *worker
	mu      sync.Mutex
	all     []*worker
	nextID  int
	closing bool
}

func startWorker(dir string) (*worker, error) {
	cmd := exec.Command("node", filepath.Join(dir, "runner.js"))
	in, err := cmd.StdinPipe()
	if err != nil {
		return nil, err
	}
	outp, err := cmd.StdoutPipe()
	if err != nil {
		return nil, err
	}
	if err := cmd.Start(); err != nil {
		return nil, err
	}
	return &worker{cmd: cmd, in: in, out: bufio.NewReaderSize(outp, 1<<20)}, nil
}

func newPool(dir string, n int) (*pool, error) {
	p := &pool{dir: dir, free: make(chan *worker, n)}
	for i := 0; i < n; i++ {
		w, err := startWorker(dir)
		if err != nil {
			return nil, err
		}
		p.all = append(p.all, w)
		p.free <- w
	}
	return p, nil
}

func (w *worker) kill() {
	if w.cmd != nil && w.cmd.Process != nil {
		w.cmd.Process.Kill()
		w.cmd.Wait()
	}
}

func (p *pool) close() {
	p.mu.Lock()
	p.closing = true
	ws := p.all
	p.mu.Unlock()
	for _, w := range ws {
		w.in.Close()
	}
	time.Sleep(20 * time.Millisecond)
	for _, w := range ws {
		w.kill()
	}
}

func (w *worker) roundTrip(req *runRequest, hard time.Duration) (*runReply, error) {
	b, err := json.Marshal(req)
	if err != nil {
		return nil, err
	}
	b = append(b, '\n')
	type res struct {
		r   *runReply
		err error
	}
	ch := make(chan res, 1)
	go func() {
		if _, err := w.in.Write(b); err != nil {
			ch <- res{nil, err}
			return
		}
		line, err := w.out.ReadBytes('\n')
		if err != nil {
			ch <- res{nil, err}
			return
		}
		var rep runReply
		if err := json.Unmarshal(line, &rep); err != nil {
			ch <- res{nil, fmt.Errorf("bad reply: %v: %.200s", err, line)}
			return
		}
		ch <- res{&rep, nil}
	}()
	select {
	case r := <-ch:
		return r.r, r.err
	case <-time.After(hard):
		return nil, fmt.Errorf("runner hard timeout")
	}
}

// run executes one request on a free worker; a misbehaving worker is replaced.
func (p *pool) run(req *runRequest) (*runReply, error) {
	w := <-p.free
	p.mu.Lock()
	p.nextID++
	req.ID = p.nextID
	p.mu.Unlock()
	hard := 2*(time.Duration(req.Timeout)+time.Duration(req.OutTimeout)*time.Duration(len(req.Outs)))*time.Millisecond + 20*time.Second
	rep, err := w.roundTrip(req, hard)
	w.count++
	if err == nil && rep.Error != "" {
		err = fmt.Errorf("runner error: %s", rep.Error)
	}
	if err != nil || w.count > 3000 {
		if err == nil {
			w.in.Close()
		}
		w.kill()
		nw, err2 := startWorker(p.dir)
		if err2 != nil {
			return nil, fmt.Errorf("cannot restart runner: %v (after %v)", err2, err)
		}
		p.mu.Lock()
		for i := range p.all {
			if p.all[i] == w {
				p.all[i] = nw
			}
		}
		p.mu.Unlock()
		p.free <- nw
		if err != nil {
			return nil, err
		}
		return rep, nil
	}
	p.free <- w
	return rep, nil
}
