package main

// Correspondence data for the Coq model Js/RenameModel.v (property C02): the scope forest the real parser builds for a
// program, the names before minification, and the names the real minifier assigned (read from the same AST after
// js.VerifMinifyAST ran on it).  The model (engine "rename" of mvmodel) must predict every assigned name.
// Also measured here: the hypotheses wf_prog of the capture-freedom theorem on every real scope forest.

import (
	"bytes"
	"fmt"
	"os"
	"path/filepath"
	"sort"
	"strings"

	minjs "github.com/tdewolff/minify/v2/js"
	"github.com/tdewolff/parse/v2"
	pjs "github.com/tdewolff/parse/v2/js"
	"verifharness/internal/vh"
)

type scopeCollector struct {
	scopes []*pjs.Scope
	seen   map[*pjs.Scope]bool
}

func (c *scopeCollector) add(s *pjs.Scope) {
	if !c.seen[s] {
		c.seen[s] = true
		c.scopes = append(c.scopes, s)
	}
}
func (c *scopeCollector) Enter(n pjs.INode) pjs.IVisitor {
	switch x := n.(type) {
	case *pjs.BlockStmt:
		c.add(&x.Scope)
	case *pjs.SwitchStmt:
		c.add(&x.Scope)
	case *pjs.FuncDecl:
		c.add(&x.Body.Scope)
	case *pjs.MethodDecl:
		c.add(&x.Body.Scope)
	case *pjs.ArrowFunc:
		c.add(&x.Body.Scope)
	}
	return c
}
func (c *scopeCollector) Exit(n pjs.INode) {}

func chase(v *pjs.Var) *pjs.Var {
	for v.Link != nil {
		v = v.Link
	}
	return v
}

type renameStats struct {
	programs, scopes, renamedScopes, vars, wfViolations, wfExpected, skipped, unvisited int
	wfKinds                                                                             map[string]int
	maxDeclared                                                                         int
}

// renameCase parses src, records the forest, minifies the same AST, and returns the model case line and the
// implementation's answer ("" when the program is skipped).
func renameCase(src string, keepNames, alphabet bool, st *renameStats, measureWf bool) (string, string) {
	ast, err := pjs.Parse(parse.NewInputString(src), pjs.Options{WhileToFor: true})
	if err != nil {
		st.skipped++
		return "", ""
	}
	col := &scopeCollector{seen: map[*pjs.Scope]bool{}}
	col.add(&ast.BlockStmt.Scope)
	pjs.Walk(col, ast)
	// names before
	orig := map[*pjs.Var]string{}
	for _, s := range col.scopes {
		for _, v := range s.Declared {
			orig[v] = string(v.Data)
		}
		for _, v := range s.Undeclared {
			orig[chase(v)] = string(chase(v).Data)
		}
	}
	o := &minjs.Minifier{KeepVarNames: keepNames}
	minjs.VerifSetAlphabetVarNames(o, alphabet)
	var written bytes.Buffer
	if err := minjs.VerifMinifyAST(o, &written, ast); err != nil {
		st.skipped++
		return "", ""
	}
	// identifiers that occur in the written program: a scope counts as "dropped with its code" only when none of the names
	// it declared is written
	writtenIdents := map[string]bool{}
	for _, t := range tokenize(written.String()) {
		if t.k == tIdent {
			writtenIdents[t.s] = true
		}
	}
	// scopes may have been created / changed by the minifier (hoisting): collect again on the final AST
	col2 := &scopeCollector{seen: map[*pjs.Scope]bool{}}
	col2.add(&ast.BlockStmt.Scope)
	pjs.Walk(col2, ast)
	scopes := col2.scopes
	// order: parents first
	idx := map[*pjs.Scope]int{}
	var ordered []*pjs.Scope
	var place func(s *pjs.Scope)
	root := &ast.BlockStmt.Scope
	// the parser leaves some scope objects that belong to no node (attempted arrow-function parameter scopes around
	// parenthesised expressions, its own copy of the top-level scope): they declare nothing; skip them
	var canon func(s *pjs.Scope) *pjs.Scope
	canon = func(s *pjs.Scope) *pjs.Scope {
		for s != nil && !col2.seen[s] {
			if s.Parent == nil {
				return root
			}
			if len(s.Declared) != 0 {
				return s
			}
			s = s.Parent
		}
		return s
	}
	place = func(s *pjs.Scope) {
		if _, ok := idx[s]; ok {
			return
		}
		if s.Parent != nil {
			place(canon(s.Parent))
		}
		idx[s] = len(ordered)
		ordered = append(ordered, s)
	}
	for _, s := range scopes {
		place(s)
	}
	ids := map[*pjs.Var]int{}
	id := func(v *pjs.Var) int {
		v = chase(v)
		if k, ok := ids[v]; ok {
			return k
		}
		ids[v] = len(ids)
		return ids[v]
	}
	// which scopes renameScope acts on: not the top-level scope; the innermost enclosing function scope must not contain
	// `with`; names are not kept
	renamed := func(s *pjs.Scope) bool {
		if keepNames || s.Parent == nil {
			return false
		}
		if f := s.Func; f != nil && f.Parent != nil && f.HasWith { // Scope.Func: the enclosing function's scope (itself for a function body)
			return false
		}
		return true
	}
	var parts []string
	declaredAt := map[int]int{}
	dupDecl := false
	for i, s := range ordered {
		p := -1
		if s.Parent != nil {
			p = idx[canon(s.Parent)]
		}
		var ds, us []string
		for _, v := range s.Declared {
			k := id(v)
			if _, ok := declaredAt[k]; ok {
				dupDecl = true
			}
			declaredAt[k] = i
			ds = append(ds, fmt.Sprint(k))
		}
		for _, v := range s.Undeclared {
			us = append(us, fmt.Sprint(id(v)))
		}
		r := 0
		if renamed(s) {
			r = 1
			// a scope whose code the minifier dropped (dead branch, unused function expression) is never visited by
			// renameScope: all its names are unchanged.  It is handed to the model as "not renamed" and counted.
			unchanged := len(s.Declared) > 0
			for _, v := range s.Declared {
				if o, ok := orig[v]; !ok || o != string(v.Data) {
					unchanged = false
				} else if len(o) > 1 && writtenIdents[o] && col2.seen[s] {
					// the code of the scope is still there under its old (longer than one character) name: the scope was
					// skipped by the renamer, not dropped.  (Only for scopes still reachable from the final AST: a block that
					// the optimiser replaced by its initialisers is gone, and another variable may carry the same name.)
					unchanged = false
				}
			}
			if unchanged {
				r = 0
				st.unvisited++
			} else {
				st.renamedScopes++
			}
		}
		if len(s.Declared) > st.maxDeclared {
			st.maxDeclared = len(s.Declared)
		}
		parts = append(parts, fmt.Sprintf("%d|%d|%s|%s", p, r, strings.Join(ds, ","), strings.Join(us, ",")))
	}
	st.programs++
	st.scopes += len(ordered)
	// wf_prog measured: closure, disjointness, unique declaration, unrenamed-on-top
	wf := func(kind string) {
		if !measureWf {
			st.wfExpected++ // the with-family puts kept-name functions below renamed ones on purpose (K14/K15 shape)
			return
		}
		st.wfViolations++
		if st.wfKinds == nil {
			st.wfKinds = map[string]int{}
		}
		st.wfKinds[kind]++
	}
	if dupDecl {
		wf("declared-twice")
	}
	for _, s := range ordered {
		dset := map[int]bool{}
		for _, v := range s.Declared {
			dset[id(v)] = true
		}
		for _, v := range s.Undeclared {
			k := id(v)
			if dset[k] {
				wf("undeclared-and-declared")
			}
			if s.Parent != nil {
				ok := false
				par := canon(s.Parent)
				for _, w := range par.Declared {
					if id(w) == k {
						ok = true
					}
				}
				for _, w := range par.Undeclared {
					if id(w) == k {
						ok = true
					}
				}
				if !ok {
					wf("closure")
					if os.Getenv("JSRENAME_DEBUG") == "wf" && st.wfViolations < 6 {
						fmt.Printf("closure: var %q (decl %v) in scope %v not in parent %v\n  src=%q\n", chase(v).Data, chase(v).Decl, s.String(), par.String(), src)
					}
				}
			} else if _, ok := declaredAt[k]; ok {
				wf("global-declared-somewhere")
			}
		}
		if !renamed(s) && s.Parent != nil && renamed(canon(s.Parent)) {
			wf("unrenamed-below-renamed")
		}
	}
	// names: original per variable id, final per variable id
	n := len(ids)
	on := make([]string, n)
	fn := make([]string, n)
	for v, k := range ids {
		if s, ok := orig[v]; ok {
			on[k] = hexd([]byte(s))
		} else {
			on[k] = hexd(v.Data) // variable created by the minifier
		}
		fn[k] = hexd(v.Data)
	}
	st.vars += n
	a := "0"
	if alphabet {
		a = "1"
	}
	return "rename\t" + a + "\t" + strings.Join(parts, ";") + "\t" + strings.Join(on, ","), strings.Join(fn, ",")
}

func hexd(b []byte) string {
	if len(b) == 0 {
		return "-"
	}
	return vh.Hex(b)
}

// bigScopePrograms: scopes with more bindings than there are one- and two-character names, free variables and globals
// whose names equal the first names the renamer hands out, keywords reachable as generated names (do, if, in, of).
func bigScopePrograms(r *vh.Rand, n int) []string {
	var out []string
	first := strings.Split("e t n s o i a r c l d u h m f p g v b j y _ w O x C E k A S M F T z D N L R P H I B V $ W U K q Y G X Q Z J", " ")
	for k := 0; k < n; k++ {
		var b bytes.Buffer
		nv := []int{5, 30, 60, 70, 120, 400}[r.Intn(6)]
		if k == 0 {
			nv = 3600 // three-character names (index >= 54 + 54*64); one per run: the extracted model uses unary numbers
		}
		// globals / free variables named like generated names
		var globals []string
		for i := 0; i < 3+r.Intn(12); i++ {
			g := first[r.Intn(len(first))]
			if r.Intn(3) == 0 {
				g = first[r.Intn(len(first))] + first[r.Intn(len(first))]
			}
			globals = append(globals, g)
		}
		sort.Strings(globals)
		fmt.Fprintf(&b, "function big%d(p0,p1){", k)
		b.WriteString("var ")
		for i := 0; i < nv; i++ {
			if i > 0 {
				b.WriteString(",")
			}
			fmt.Fprintf(&b, "v%d=%d", i, i%7)
		}
		b.WriteString(";var s=p0+p1;")
		for i := 0; i < nv; i += 1 + r.Intn(3) {
			fmt.Fprintf(&b, "s+=v%d;", i)
		}
		for _, g := range globals {
			if g == "do" || g == "if" || g == "in" || g == "of" {
				continue
			}
			fmt.Fprintf(&b, "s+=typeof %s;", g)
		}
		// a nested function using some outer variables and its own locals, and a block scope
		fmt.Fprintf(&b, "function inner(q){var w0=q,w1=v0,w2=v%d;{let x0=w0+w1,x1=w2;s+=x0+x1}return function(){return w0+w1+w2+s+%s}}", nv-1, globals[0])
		b.WriteString("try{s+=inner(1)()}catch(e0){s+=e0}return s}")
		out = append(out, b.String())
	}
	return out
}

// runRename writes cases.in / cases.go.out for the rename model: the generated programs of this run (regenerated from
// the same seed stream) plus the big-scope family.
func runRename(res *vh.Result, seed uint64, n int, known bool, outDir string, kind string) {
	fin, _ := os.Create(filepath.Join(outDir, "cases.in"))
	fout, _ := os.Create(filepath.Join(outDir, "cases.go.out"))
	defer fin.Close()
	defer fout.Close()
	var kws []string
	for k := range pjs.Keywords {
		kws = append(kws, k)
	}
	sort.Strings(kws)
	var kh []string
	for _, k := range kws {
		kh = append(kh, hexd([]byte(k)))
	}
	if kind == "none" {
		return
	}
	if kind == "print" {
		fin.Close()
		fout.Close()
		runPrintCases(seed, 6000, outDir, res.Extra)
		runRewriteCases(seed, 6000, outDir, res.Extra)
		runStmtCases(seed, 6000, outDir, res.Extra)
		runNumLitCases(seed, 6000, outDir, res.Extra)
		runStrLitCases(seed, 10000, outDir, res.Extra)
		return
	}
	fmt.Fprintf(fin, "rename_keywords\t%s\n", strings.Join(kh, ","))
	fmt.Fprintf(fout, "ok %d\n", len(kws))
	// getName itself, through the hook: the first indices and a stride across the 2- and 3-character range
	for _, alpha := range []bool{false, true} {
		for i := 0; i < 4200; i++ {
			k := i
			if i >= 3700 {
				k = 3510 + (i-3700)*449
			}
			a := "0"
			if alpha {
				a = "1"
			}
			fmt.Fprintf(fin, "get_name\t%s\t%d\n", a, k)
			fmt.Fprintf(fout, "%s\n", hexd(minjs.VerifGetName(!alpha, k)))
		}
	}
	st := &renameStats{}
	master := vh.NewRand(seed ^ 0x5eed)
	fsrc, _ := os.Create(filepath.Join(outDir, "cases.src"))
	defer fsrc.Close()
	line := 1 + 2*4200
	measure := true
	emit := func(src string, keep, alpha bool) {
		a, b := renameCase(src, keep, alpha, st, measure)
		if a != "" {
			line++
			fmt.Fprintln(fin, a)
			fmt.Fprintln(fout, b)
			fmt.Fprintf(fsrc, "%d\tkeep=%v alpha=%v\t%q\n", line, keep, alpha, src)
		}
	}
	for i := 0; i < n; i++ {
		prog := generateProgram(master.Fork(), known)
		keep, alpha := master.Intn(10) == 0, master.Intn(4) == 0
		if d := os.Getenv("JSRENAME_DEBUG"); d != "" && fmt.Sprint(i) == d {
			fmt.Println(prog.Text, "\nkeep", keep, "alpha", alpha)
			debugRename(prog.Text)
		}
		emit(prog.Text, keep, alpha)
	}
	nb := 12
	for _, src := range bigScopePrograms(master.Fork(), nb) {
		emit(src, false, master.Intn(4) == 0)
	}
	for _, src := range chainFamily(master.Fork(), 60) {
		emit(src, false, master.Intn(4) == 0)
	}
	measure = false
	for _, src := range withFamily(master.Fork(), 40) {
		emit(src, false, master.Intn(4) == 0)
	}
	fin.Close()
	fout.Close()
	if kind != "rename" {
		runPrintCases(seed, 6000, outDir, res.Extra)
	}
	res.Extra["rename_programs"] = st.programs
	res.Extra["rename_scopes"] = st.scopes
	res.Extra["rename_renamed_scopes"] = st.renamedScopes
	res.Extra["rename_variables"] = st.vars
	res.Extra["rename_max_declared_in_one_scope"] = st.maxDeclared
	res.Extra["rename_skipped"] = st.skipped
	res.Extra["rename_scopes_left_unrenamed_by_the_minifier"] = st.unvisited
	res.Extra["wf_prog_violations"] = st.wfViolations
	res.Extra["wf_prog_not_applicable_with_family"] = st.wfExpected
	res.Extra["wf_prog_violation_kinds"] = st.wfKinds
}

// debugRename prints the forest of one program (triage aid: JSRENAME_DEBUG=<substring of source>)
func debugRename(src string) {
	ast, err := pjs.Parse(parse.NewInputString(src), pjs.Options{WhileToFor: true})
	if err != nil {
		fmt.Println("parse error", err)
		return
	}
	col := &scopeCollector{seen: map[*pjs.Scope]bool{}}
	col.add(&ast.BlockStmt.Scope)
	pjs.Walk(col, ast)
	for i, s := range col.scopes {
		fmt.Printf("scope %d func=%v with=%v declared=%s undeclared=%s\n", i, s.IsGlobalOrFunc, s.HasWith, s.Declared.String(), s.Undeclared.String())
	}
	o := &minjs.Minifier{}
	var w bytes.Buffer
	minjs.VerifMinifyAST(o, &w, ast)
	fmt.Println(w.String())
	for i, s := range col.scopes {
		fmt.Printf("after scope %d declared=%s undeclared=%s\n", i, s.Declared.String(), s.Undeclared.String())
	}
}

// withFamily: functions that contain `with` keep every name in all their scopes, also in the scopes that follow a nested
// function / arrow function / method (which are renamed on their own); the programs mix those in random order.
// chainFamily: a variable of an outer function captured through several nested scopes, each of which uses it itself (the
// parser links inner -> middle -> ... -> declaration), while the innermost scopes declare locals of their own: the names
// given to those locals must avoid the name given to the captured variable however long the link chain is.
func chainFamily(r *vh.Rand, n int) []string {
	var out []string
	for k := 0; k < n; k++ {
		var b bytes.Buffer
		depth := 2 + r.Intn(4)
		nouter := 1 + r.Intn(3)
		b.WriteString("function chain(cp){")
		for i := 0; i < nouter; i++ {
			fmt.Fprintf(&b, "var outer%d=cp+%d;", i, i)
		}
		uses := func() string {
			var u []string
			for i := 0; i < nouter; i++ {
				if r.Intn(4) > 0 {
					u = append(u, fmt.Sprintf("outer%d", i))
				}
			}
			if len(u) == 0 {
				u = append(u, "outer0")
			}
			return strings.Join(u, "+")
		}
		closers := ""
		for d := 0; d < depth; d++ {
			switch r.Intn(4) {
			case 0:
				fmt.Fprintf(&b, "return function(){var mid%d=%s;", d, uses())
				closers = "}" + closers
			case 1:
				fmt.Fprintf(&b, "return (m%d)=>{let mid%d=%s;", d, d, uses())
				closers = "}" + closers
			case 2:
				fmt.Fprintf(&b, "{let mid%d=%s;return function(){", d, uses())
				closers = "}}" + closers
			default:
				fmt.Fprintf(&b, "return function named%d(){var mid%d=%s;", d, d, uses())
				closers = "}" + closers
			}
		}
		fmt.Fprintf(&b, "var loc1=1,loc2=2;return %s+loc1+loc2", uses())
		b.WriteString(closers)
		b.WriteString("}")
		out = append(out, b.String())
	}
	return out
}

func withFamily(r *vh.Rand, n int) []string {
	var out []string
	for k := 0; k < n; k++ {
		var b bytes.Buffer
		top := r.Intn(2) == 0
		if !top {
			b.WriteString("function outer(po){var ov=po;") // the with-function below a renamed one (K14/K15 territory for capture, fine for names)
		}
		fmt.Fprintf(&b, "function wf%d(obj,inc){var keep1=1,keep2=2;", k)
		parts := []string{
			"const arrow=(q)=>{let aq=q+keep1;return aq};inc(arrow(1));",
			"var fe=function(fp){var fl=fp+1;return fl};inc(fe(2));",
			"var ob={meth(mp){let ml=mp;return ml}};inc(ob.meth(3));",
			"class Cl{cm(cp){const cl=cp;return cl}}inc(new Cl().cm(4));",
			"for(let idx=0;idx<2;idx++){with(obj){inc(idx)}}",
			"try{inc(keep1)}catch(err){inc(err)}",
			"switch(keep2){case 2:{let blk=keep1;inc(blk)}}",
			"{let b1=1;{const b2=b1;inc(b2)}}",
			"for(const fo of [1]){inc(fo)}",
			"with(obj){inc(keep1+keep2)}",
			"function inner(ip){var il=ip*2;return il}inc(inner(5));",
		}
		// random order, a with statement guaranteed
		order := make([]int, len(parts))
		for i := range order {
			order[i] = i
		}
		for i := len(order) - 1; i > 0; i-- {
			j := r.Intn(i + 1)
			order[i], order[j] = order[j], order[i]
		}
		cnt := 4 + r.Intn(len(parts)-3)
		has := false
		for _, i := range order[:cnt] {
			b.WriteString(parts[i])
			if strings.Contains(parts[i], "with(") {
				has = true
			}
		}
		if !has {
			b.WriteString(parts[9])
		}
		b.WriteString("return keep1}")
		if !top {
			fmt.Fprintf(&b, "return wf%d({},function(x){return x+ov})}", k)
		}
		out = append(out, b.String())
	}
	return out
}
