// runner.js - persistent differential executor for jsoracle.
// Protocol: one JSON request per line on stdin, one JSON reply per line on stdout.
// Request : {id, input, outs:[text,...], probes:[name,...], timeout}
// Reply   : {id, in:{status, comp, ncalls, ms}, outs:[{compile, diff, detail}]}
// status  : ok | syntax | timeout | tdz | stack
// diff    : "" | syntax | trace | completion | globals | timeout
'use strict';
const vm = require('vm');
const readline = require('readline');

const BUILTIN_ERRORS = new Set(['Error', 'TypeError', 'RangeError', 'ReferenceError', 'SyntaxError', 'EvalError', 'URIError', 'AggregateError']);
const toStr = Object.prototype.toString;
const HOSTS = ['h0', 'h1', 'h2', 'h3', 'h4', 'h5', 'h6', 'h7', 'h8', 'h9'];

function errClass(x) {
  try {
    let p = x;
    for (let i = 0; i < 8 && p; i++) {
      const d = Object.getOwnPropertyDescriptor(p, 'constructor');
      if (d && typeof d.value === 'function') {
        const nd = Object.getOwnPropertyDescriptor(d.value, 'name');
        if (nd && typeof nd.value === 'string' && BUILTIN_ERRORS.has(nd.value)) return nd.value;
      }
      p = Object.getPrototypeOf(p);
    }
  } catch (e) { }
  return 'Error';
}

function mkSer(state) {
  // state: {tdz:false, stack:false, hostfn: function}
  function ser(x, seen, d) {
    switch (typeof x) {
      case 'undefined': return 'undefined';
      case 'number': return Object.is(x, -0) ? '-0' : String(x);
      case 'string':
        if (x.length > 8 && /\bfunction\b|=>|\bclass\b|\[native code\]/.test(x) && /[{(]/.test(x)) state.reflect = true; // source text of a function leaked into a value
        if (x.length > 12 && /is not a function|is not defined|Cannot read propert|Cannot set propert|is not iterable|is not a constructor|before initialization|Cannot access|already been declared|Assignment to constant|Cannot convert|Cannot mix BigInt|Invalid array length|is not an? object|Cannot destructure|Class constructor|Unexpected token|Invalid left-hand|Cannot delete|Cannot assign|Cannot redefine|circular structure|read-only property|Reduce of empty|toString\(\) radix|toFixed\(\) digits|argument must be|Invalid count|Maximum call stack/.test(x)) state.errmsg = true; // wording of an engine error message leaked into a value
        return JSON.stringify(x);
      case 'boolean': return String(x);
      case 'bigint': return x + 'n';
      case 'symbol': return 'Symbol(' + String(x.description) + ')';
      case 'function': return '[fn]' + props(x, seen, d, true);
    }
    if (x === null) return 'null';
    if (seen.indexOf(x) >= 0) return '<cycle>';
    if (d > 6) return '<deep>';
    let tag;
    try { tag = toStr.call(x); } catch (e) { tag = '[object ?]'; }
    if (tag === '[object Error]') {
      let msg = '';
      try { const md = Object.getOwnPropertyDescriptor(x, 'message'); if (md && typeof md.value === 'string') msg = md.value; else msg = String(x.message); } catch (e) { }
      if (/before initialization/.test(msg)) state.tdz = true;
      if (/Maximum call stack/.test(msg)) state.stack = true;
      return 'Error:' + errClass(x);
    }
    if (tag === '[object RegExp]') return '[re]';
    if (tag === '[object Promise]') return '[promise]';
    if (tag === '[object Generator]') return '[generator]';
    try { if (x.h9 === state.hostfn) return '[global]'; } catch (e) { }
    seen.push(x);
    let r;
    try {
      if (Array.isArray(x)) {
        const n = x.length, parts = [];
        for (let i = 0; i < n && i < 40; i++) {
          const pd = Object.getOwnPropertyDescriptor(x, i);
          if (!pd) parts.push('<hole>');
          else if ('value' in pd) parts.push(ser(pd.value, seen, d + 1));
          else parts.push('<accessor>');
        }
        if (n > 40) parts.push('...' + n);
        r = '[' + parts.join(',') + ']';
        const extra = props(x, seen, d, true, true);
        if (extra) r += extra;
      } else if (tag === '[object Map]' || tag === '[object Set]') {
        r = tag + ':' + x.size;
      } else {
        r = props(x, seen, d, false);
      }
    } catch (e) { r = '<unserialisable>'; }
    seen.pop();
    return r;
  }
  function props(x, seen, d, optional, skipIndex) {
    let keys;
    try { keys = Object.keys(x); } catch (e) { return optional ? '' : '{?}'; }
    if (skipIndex) keys = keys.filter(k => !/^(0|[1-9]\d*)$/.test(k));
    if (optional && keys.length === 0) return '';
    const parts = [];
    let cnt = 0;
    for (const k of keys) {
      if (++cnt > 60) { parts.push('...'); break; }
      let pd;
      try { pd = Object.getOwnPropertyDescriptor(x, k); } catch (e) { pd = null; }
      if (!pd) { parts.push(JSON.stringify(k) + ':?'); continue; }
      if ('value' in pd) parts.push(JSON.stringify(k) + ':' + ser(pd.value, seen, d + 1));
      else parts.push(JSON.stringify(k) + ':<accessor' + (pd.get ? 'G' : '') + (pd.set ? 'S' : '') + '>');
    }
    return '{' + parts.join(',') + '}';
  }
  return function (x) {
    let s = ser(x, [], 0);
    if (s.length > 1500) s = s.slice(0, 1500) + '<trunc' + s.length + '>';
    return s;
  };
}

// Return-value cycles (chosen by the global call index).
const ANY = [0, 1, '', 'a', null, undefined, true, false, NaN, 2, -1, '1', -0, 'b', 3.5, Infinity];
const NUMS = [0, 1, 2, -1, 3.5, 7, -0, 10, NaN, 255, 1e21, 4];
const STRS = ['', 'a', 'b', '1', 'abc', 'a-b', 'x/y', '0', 'A1$'];
const BOOLS = [true, false, false, true, true, 1, 0, '', 'y', null];
function mkObj(k) {
  switch (k % 6) {
    case 0: return { a: 1, b: { c: 2 } };
    case 1: return [1, 2, 3];
    case 2: return { a: null, b: [4, 5], c: 'q' };
    case 3: return { x: 1, y: 2, a: { b: { c: 3 } } };
    case 4: return [[1, 2], [3, 4]];
    default: return { a: 'a', b: 'b', length: 2 };
  }
}

function mkSandbox(trace, state) {
  const sb = {};
  let k = 0;
  const ser = mkSer(state);
  state.ser = ser;
  function rec(name, args) {
    if (trace.length < 5000) {
      const parts = [];
      for (let i = 0; i < args.length; i++) parts.push(ser(args[i]));
      trace.push(name + '(' + parts.join(',') + ')');
    } else state.overflow = true;
    return k++;
  }
  sb.h0 = function (...a) { const i = rec('h0', a); return ANY[i % ANY.length]; };
  sb.h1 = function (...a) { const i = rec('h1', a); return ANY[(i * 7 + 3) % ANY.length]; };
  sb.h2 = function (...a) { const i = rec('h2', a); return ANY[(i * 5 + 1) % ANY.length]; };
  sb.h3 = function (...a) { const i = rec('h3', a); return ANY[(i * 3 + 2) % ANY.length]; };
  sb.h4 = function (...a) { const i = rec('h4', a); return NUMS[i % NUMS.length]; };
  sb.h5 = function (...a) { const i = rec('h5', a); return STRS[i % STRS.length]; };
  sb.h6 = function (...a) { const i = rec('h6', a); return mkObj(i); };
  sb.h7 = function (...a) { const i = rec('h7', a); return BOOLS[i % BOOLS.length]; };
  sb.h8 = function (...a) { rec('h8', a); return a[0]; };
  sb.h9 = function (...a) { rec('h9', a); return undefined; };
  state.hostfn = sb.h9;
  // Pre-declared plain data globals (kept in sync with gen.go globalsTable).
  sb.g0 = 1; sb.g1 = 's'; sb.g2 = null; sb.g3 = undefined; sb.g4 = { a: 1, b: { c: 2 } }; sb.g5 = [1, 2, 3];
  sb.e = 5; sb.t = 't'; sb.n = null; sb.s = { a: { b: 1 }, b: null }; sb.o = { a: { b: 1 }, b: null, c: [1, 2] };
  sb.i = 0; sb.a = [1, 2]; sb.r = true; sb.c = undefined; sb.l = 2.5; sb.d = 'd'; sb.u = -1;
  sb.ee = 11; sb.te = 'te'; sb.et = 3; sb.tt = { a: 1 };
  return sb;
}

function classifyThrow(e, state) {
  if (e && typeof e === 'object') {
    let msg = '';
    try { msg = String(e.message); } catch (x) { }
    let code = '';
    try { code = String(e.code); } catch (x) { }
    if (code === 'ERR_SCRIPT_EXECUTION_TIMEOUT') return { kind: 'timeout' };
  }
  return { kind: 'throw', val: state.ser(e) };
}

function compile(src) {
  try { new vm.Script(src, { filename: 'p.js' }); return null; } catch (e) { return String(e && e.message); }
}

function runOne(src, probes, timeout) {
  const trace = [], state = { tdz: false, stack: false, overflow: false };
  const sb = mkSandbox(trace, state);
  const ctx = vm.createContext(sb, { microtaskMode: 'afterEvaluate' });
  let script;
  try { script = new vm.Script(src, { filename: 'p.js' }); } catch (e) { return { status: 'syntax', msg: String(e && e.message) }; }
  let comp = 'normal', status = 'ok';
  const t0 = Date.now();
  try { script.runInContext(ctx, { timeout }); } catch (e) {
    const c = classifyThrow(e, state);
    if (c.kind === 'timeout') { status = 'timeout'; comp = 'timeout'; } else comp = 'throw:' + c.val;
  }
  const ms = Date.now() - t0;
  const gl = [];
  if (status === 'ok') {
    let keys = [];
    try { keys = Object.keys(sb); } catch (e) { }
    keys = keys.filter(n => HOSTS.indexOf(n) < 0).sort();
    for (const n of keys) {
      let v;
      try { const pd = Object.getOwnPropertyDescriptor(sb, n); v = pd && 'value' in pd ? state.ser(pd.value) : '<accessor>'; } catch (e) { v = '<err>'; }
      gl.push(n + '=' + v);
    }
    if (probes && probes.length) {
      const names = probes.filter(n => /^[A-Za-z_$][A-Za-z0-9_$]*$/.test(n) && !Object.prototype.hasOwnProperty.call(sb, n));
      // one evaluation for all names; a top-level let/const/class binding is visible to later scripts
      const code = '[' + names.map(n => '(()=>{try{return typeof ' + n + '==="undefined"?"<undeclared>":[' + n + ']}catch(e){return "<throws>"}})()').join(',') + ']';
      try {
        const r = vm.runInContext(code, ctx, { timeout: 3000 });
        for (let i = 0; i < names.length; i++) {
          const v = typeof r[i] === 'string' ? r[i] : state.ser(r[i][0]);
          if (v !== '<undeclared>') gl.push('~' + names[i] + '=' + v);
        }
      } catch (e) { status = 'probe-failure'; }
    }
  }
  if (state.tdz) status = status === 'ok' ? 'tdz' : status;
  else if (state.stack && status === 'ok') status = 'stack';
  if (state.overflow && status === 'ok') status = 'traceoverflow';
  if (state.reflect && status === 'ok') status = 'reflection';
  if (state.errmsg && status === 'ok') status = 'errmsg';
  return { status, comp, trace, gl, ms };
}

function firstDiff(a, b) {
  const n = Math.min(a.length, b.length);
  for (let i = 0; i < n; i++) if (a[i] !== b[i]) return i;
  return a.length === b.length ? -1 : n;
}
function clip(s) { s = String(s); return s.length > 300 ? s.slice(0, 300) + '...' : s; }

function handle(req) {
  const timeout = req.timeout || 400;
  const A = runOne(req.input, req.probes, timeout);
  const reply = { id: req.id, in: { status: A.status, comp: A.comp, ncalls: A.trace ? A.trace.length : 0, ms: A.ms, msg: A.msg }, outs: [] };
  if (req.full && A.trace) { reply.in.trace = A.trace; reply.in.gl = A.gl; }
  for (const out of req.outs || []) {
    const o = { compile: true, diff: '', detail: '' };
    if (A.status === 'syntax') {
      // input does not parse: only report whether the output does
      o.compile = compile(out) === null;
      reply.outs.push(o); continue;
    }
    const B = runOne(out, req.probes, A.status === 'ok' ? (req.outTimeout || timeout * 5) : timeout);
    if (req.full && B.trace) { o.trace = B.trace; o.gl = B.gl; o.comp = B.comp; }
    if (B.status === 'syntax') { o.compile = false; o.diff = 'syntax'; o.detail = clip(B.msg); reply.outs.push(o); continue; }
    if (A.status !== 'ok') { reply.outs.push(o); continue; } // not judged (timeout/tdz/stack)
    if (B.status === 'timeout') { o.diff = 'timeout'; o.detail = 'output timed out, input took ' + A.ms + 'ms'; reply.outs.push(o); continue; }
    const i = firstDiff(A.trace, B.trace);
    if (i >= 0) {
      o.diff = 'trace';
      o.detail = 'call #' + i + ': input ' + clip(A.trace[i] === undefined ? '<end of trace; completion ' + A.comp + '>' : A.trace[i]) + ' | output ' + clip(B.trace[i] === undefined ? '<end of trace; completion ' + B.comp + '>' : B.trace[i]);
    } else if (A.comp !== B.comp) {
      o.diff = 'completion'; o.detail = 'input ' + clip(A.comp) + ' | output ' + clip(B.comp);
    } else {
      const j = firstDiff(A.gl, B.gl);
      if (j >= 0) { o.diff = 'globals'; o.detail = 'input ' + clip(A.gl[j]) + ' | output ' + clip(B.gl[j]); }
    }
    reply.outs.push(o);
  }
  return reply;
}

process.on('unhandledRejection', () => { });
process.on('uncaughtException', () => { });
const rl = readline.createInterface({ input: process.stdin, terminal: false, crlfDelay: Infinity });
rl.on('line', line => {
  if (!line) return;
  let req;
  try { req = JSON.parse(line); } catch (e) { process.stdout.write(JSON.stringify({ id: -1, error: 'bad request' }) + '\n'); return; }
  let reply;
  try { reply = handle(req); } catch (e) { reply = { id: req.id, error: String(e && e.stack || e) }; }
  process.stdout.write(JSON.stringify(reply) + '\n');
});
rl.on('close', () => process.exit(0));
