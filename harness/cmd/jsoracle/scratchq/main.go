package main

import (
	"bufio"
	"bytes"
	"fmt"
	"os"
	"strings"

	"github.com/tdewolff/minify/v2"
	"github.com/tdewolff/minify/v2/js"
)

func main() {
	sc := bufio.NewScanner(os.Stdin)
	sc.Buffer(make([]byte, 1<<22), 1<<22)
	m := minify.New()
	for sc.Scan() {
		var out bytes.Buffer
		err := (&js.Minifier{}).Minify(m, &out, strings.NewReader(sc.Text()), nil)
		fmt.Printf("%s\n  => %s   %v\n", sc.Text(), out.String(), err)
	}
}
