package main

// Token-level hierarchical delta debugging.  Candidates are re-validated through the real
// minifier and node by the caller-supplied predicate.

import (
	"strings"
	"time"
)

func renderTokens(toks []token) string {
	var b strings.Builder
	prev := ""
	for i, t := range toks {
		if i > 0 {
			if t.nl {
				b.WriteByte('\n')
			} else if needSpace(prev, t.s) || (len(prev) > 0 && len(t.s) > 0 && isOpChar(prev[len(prev)-1]) && isOpChar(t.s[0])) {
				b.WriteByte(' ')
			}
		}
		b.WriteString(t.s)
		prev = t.s
	}
	return b.String()
}

func isOpChar(c byte) bool { return strings.IndexByte("+-*/%<>=!&|^?.~:", c) >= 0 }

type shrinker struct {
	test     func(string) bool
	deadline time.Time
	tests    int
	maxTests int
}

func (s *shrinker) ok(toks []token) bool {
	if s.tests >= s.maxTests || time.Now().After(s.deadline) {
		return false
	}
	s.tests++
	return s.test(renderTokens(toks))
}

func without(toks []token, from, to int) []token {
	out := make([]token, 0, len(toks)-(to-from))
	out = append(out, toks[:from]...)
	out = append(out, toks[to:]...)
	return out
}

func replaceRange(toks []token, from, to int, repl []token) []token {
	out := make([]token, 0, len(toks)-(to-from)+len(repl))
	out = append(out, toks[:from]...)
	out = append(out, repl...)
	out = append(out, toks[to:]...)
	return out
}

// chunksIn splits the token range (from,to) (exclusive bounds: inside a bracket pair, or the
// whole program with from=-1,to=len) into removable chunks ending at depth-0 ';' ',' or '}'.
func chunksIn(toks []token, from, to int) [][2]int {
	var out [][2]int
	depth := 0
	start := from + 1
	for i := from + 1; i < to; i++ {
		t := toks[i]
		open := t.k == tPunct && (t.s == "(" || t.s == "[" || t.s == "{") || t.k == tTemplate && t.tmpl == 1
		closeB := t.k == tPunct && (t.s == ")" || t.s == "]" || t.s == "}") || t.k == tTemplate && t.tmpl == 3
		if open {
			depth++
		} else if closeB {
			depth--
		}
		if depth == 0 && (isPunct(t, ";") || isPunct(t, ",") || isPunct(t, "}") && !(i+1 < to && (isPunct(toks[i+1], ";") || isPunct(toks[i+1], ",") || isPunct(toks[i+1], ")") || isPunct(toks[i+1], ".") || isPunct(toks[i+1], "(") || isWord(toks[i+1], "else") || isWord(toks[i+1], "catch") || isWord(toks[i+1], "finally") || isWord(toks[i+1], "while")))) {
			out = append(out, [2]int{start, i + 1})
			start = i + 1
		}
	}
	if start < to {
		out = append(out, [2]int{start, to})
	}
	return out
}

func (s *shrinker) run(src string) string {
	toks := tokenize(src)
	if !s.ok(toks) {
		return src
	}
	for pass := 0; pass < 6; pass++ {
		before := len(toks)
		toks = s.chunkPass(toks)
		toks = s.unwrapPass(toks)
		toks = s.replacePass(toks)
		if len(toks) <= 60 || pass > 1 {
			toks = s.tokenPass(toks)
		}
		if len(toks) == before || time.Now().After(s.deadline) || s.tests >= s.maxTests {
			break
		}
	}
	return renderTokens(toks)
}

// chunkPass removes statement/element chunks at every nesting level, outermost first.
func (s *shrinker) chunkPass(toks []token) []token {
	type rng struct{ from, to int }
	changed := true
	for changed {
		changed = false
		// collect ranges: whole program and every bracket group
		ranges := []rng{{-1, len(toks)}}
		for i, t := range toks {
			if t.k == tPunct && (t.s == "(" || t.s == "[" || t.s == "{") {
				j := matchClose(toks, i)
				if j < len(toks) && j > i+1 {
					ranges = append(ranges, rng{i, j})
				}
			}
		}
		for _, r := range ranges {
			if r.to > len(toks) {
				continue
			}
			chunks := chunksIn(toks, r.from, r.to)
			if len(chunks) == 0 {
				continue
			}
			// try removing halves, then single chunks (from the end so indices stay valid)
			if len(chunks) >= 4 {
				mid := len(chunks) / 2
				cand := without(toks, chunks[mid][0], chunks[len(chunks)-1][1])
				if s.ok(cand) {
					toks = cand
					changed = true
					break
				}
				cand = without(toks, chunks[0][0], chunks[mid-1][1])
				if s.ok(cand) {
					toks = cand
					changed = true
					break
				}
			}
			removed := false
			for k := len(chunks) - 1; k >= 0; k-- {
				c := chunks[k]
				if c[1] > len(toks) {
					continue
				}
				cand := without(toks, c[0], c[1])
				if s.ok(cand) {
					toks = cand
					removed = true
					// later chunks moved; earlier ones keep their indices
				} else if k == len(chunks)-1 && c[1]-c[0] > 1 && c[0] > 0 && (isPunct(toks[c[0]-1], ",") || isPunct(toks[c[0]-1], ";")) {
					// last element: also drop the preceding separator
					cand := without(toks, c[0]-1, c[1])
					if s.ok(cand) {
						toks = cand
						removed = true
					}
				}
			}
			if removed {
				changed = true
				break
			}
		}
		if time.Now().After(s.deadline) || s.tests >= s.maxTests {
			break
		}
	}
	return toks
}

// unwrapPass replaces a bracket group by its contents, and `head(...){body}` constructs by body.
func (s *shrinker) unwrapPass(toks []token) []token {
	for i := 0; i < len(toks); i++ {
		t := toks[i]
		if !(t.k == tPunct && (t.s == "(" || t.s == "{" || t.s == "[")) {
			continue
		}
		j := matchClose(toks, i)
		if j >= len(toks) {
			continue
		}
		// group -> contents
		cand := replaceRange(toks, i, j+1, toks[i+1:j])
		if s.ok(cand) {
			toks = cand
			i--
			continue
		}
		// `kw ( ... ) { body }` -> body   (if/for/while/function headers)
		if t.s == "{" && i >= 1 && isPunct(toks[i-1], ")") {
			depth := 0
			k := i - 1
			for ; k >= 0; k-- {
				if isPunct(toks[k], ")") {
					depth++
				} else if isPunct(toks[k], "(") {
					depth--
					if depth == 0 {
						break
					}
				}
			}
			if k >= 1 && toks[k-1].k == tIdent {
				start := k - 1
				cand := replaceRange(toks, start, j+1, toks[i+1:j])
				if s.ok(cand) {
					toks = cand
					i = start - 1
					if i < -1 {
						i = -1
					}
					continue
				}
			}
		}
		if time.Now().After(s.deadline) || s.tests >= s.maxTests {
			break
		}
	}
	return toks
}

// replacePass replaces call expressions and bracket groups by simple atoms.
func (s *shrinker) replacePass(toks []token) []token {
	zero := token{k: tNum, s: "0"}
	for i := 0; i < len(toks); i++ {
		t := toks[i]
		if t.k == tPunct && (t.s == "(" || t.s == "[" || t.s == "{") {
			j := matchClose(toks, i)
			if j >= len(toks) || j == i+1 {
				continue
			}
			// empty the group
			cand := without(toks, i+1, j)
			if s.ok(cand) {
				toks = cand
				continue
			}
			// group (and a preceding callee name) -> 0
			from := i
			if t.s == "(" && i > 0 && toks[i-1].k == tIdent && !jsKeywords[toks[i-1].s] {
				from = i - 1
			}
			cand = replaceRange(toks, from, j+1, []token{zero})
			if s.ok(cand) {
				toks = cand
				continue
			}
		} else if t.k == tStr && len(t.s) > 3 || t.k == tTemplate && t.tmpl == 0 && len(t.s) > 3 {
			cand := replaceRange(toks, i, i+1, []token{{k: tStr, s: `"a"`}})
			if s.ok(cand) {
				toks = cand
			}
		} else if t.k == tNum && len(t.s) > 1 {
			cand := replaceRange(toks, i, i+1, []token{{k: tNum, s: "1"}})
			if s.ok(cand) {
				toks = cand
			}
		}
		if time.Now().After(s.deadline) || s.tests >= s.maxTests {
			break
		}
	}
	return toks
}

// tokenPass deletes single tokens and short runs.
func (s *shrinker) tokenPass(toks []token) []token {
	for width := 3; width >= 1; width-- {
		for i := 0; i+width <= len(toks); i++ {
			cand := without(toks, i, i+width)
			if s.ok(cand) {
				toks = cand
				i--
			}
			if time.Now().After(s.deadline) || s.tests >= s.maxTests {
				return toks
			}
		}
	}
	return toks
}
