package main

// A small independent ECMAScript tokenizer (deliberately NOT the lexer of the system under
// test).  It is used for the identifier/feature checks (C02, C16), the known-shape scanner
// and the token-level shrinker.  Regex-vs-division is decided by the usual previous-token
// heuristic, which is exact for the programs produced by gen.go and by the minifier.

import "strings"

type tkind int

const (
	tIdent   tkind = iota // identifiers and keywords
	tPrivate              // #name
	tNum
	tStr
	tTemplate // one template chunk: `..${  }..${  }..`  or a complete `..`
	tRegex
	tPunct
)

type token struct {
	k     tkind
	s     string
	pos   int  // byte offset in the source
	end   int  // byte offset after the token
	nl    bool // a line terminator precedes the token
	tmpl  int  // for tTemplate: 0 complete, 1 head, 2 middle, 3 tail
	block bool // for "{": opens a block/body (not an object literal or pattern)
}

var puncts = []string{
	">>>=", "...", "===", "!==", "**=", "<<=", ">>=", ">>>", "&&=", "||=", "??=",
	"=>", "==", "!=", "<=", ">=", "&&", "||", "??", "?.", "++", "--", "+=", "-=", "*=", "/=", "%=",
	"&=", "|=", "^=", "<<", ">>", "**",
}

var regexPrecedingKeywords = map[string]bool{
	"return": true, "typeof": true, "instanceof": true, "in": true, "of": true, "new": true, "delete": true,
	"void": true, "throw": true, "case": true, "do": true, "else": true, "yield": true, "await": true,
}

func isIdentStart(c byte) bool {
	return c == '_' || c == '$' || 'a' <= c && c <= 'z' || 'A' <= c && c <= 'Z' || c >= 0x80
}
func isIdentPart(c byte) bool { return isIdentStart(c) || '0' <= c && c <= '9' }
func isDigit(c byte) bool     { return '0' <= c && c <= '9' }

// tokenize never fails; on malformed input it degrades to single-character punctuators.
func tokenize(src string) []token {
	var toks []token
	var tmplStack []int // brace depth at which each open template substitution started
	brace := 0
	// stmtAfter[k] records, for every open "(" / "{" / "[", whether a statement (and therefore
	// possibly a regular expression) may follow its closing bracket.
	var stmtAfter []bool
	var kinds []byte // 'B' block, 'O' object literal/pattern, 'P' paren, 'S' square
	lastClosedStmt := false
	nl := false
	i := 0
	n := len(src)
	regexAllowed := func() bool {
		if len(toks) == 0 {
			return true
		}
		p := toks[len(toks)-1]
		switch p.k {
		case tIdent:
			return regexPrecedingKeywords[p.s]
		case tNum, tStr, tRegex, tPrivate:
			return false
		case tTemplate:
			return p.tmpl == 1 || p.tmpl == 2
		case tPunct:
			switch p.s {
			case ")", "}":
				return lastClosedStmt
			case "]":
				return false
			case "++", "--":
				if len(toks) >= 2 {
					q := toks[len(toks)-2]
					if q.k == tIdent && !regexPrecedingKeywords[q.s] || q.k == tNum || q.k == tPunct && (q.s == ")" || q.s == "]") {
						return false
					}
				}
				return true
			}
			return true
		}
		return true
	}
	readTemplate := func(start int, kindIfClosed, kindIfSubst int) {
		// start points after the opening ` or }
		j := start
		for j < n {
			c := src[j]
			if c == '\\' {
				j += 2
				continue
			}
			if c == '`' {
				j++
				toks = append(toks, token{k: tTemplate, s: src[i:j], pos: i, end: j, nl: nl, tmpl: kindIfClosed})
				i = j
				return
			}
			if c == '$' && j+1 < n && src[j+1] == '{' {
				j += 2
				toks = append(toks, token{k: tTemplate, s: src[i:j], pos: i, end: j, nl: nl, tmpl: kindIfSubst})
				tmplStack = append(tmplStack, brace)
				i = j
				return
			}
			j++
		}
		if j > n {
			j = n
		}
		toks = append(toks, token{k: tTemplate, s: src[i:j], pos: i, end: j, nl: nl, tmpl: kindIfClosed})
		i = j
	}
	for i < n {
		c := src[i]
		// whitespace
		if c == ' ' || c == '\t' || c == '\v' || c == '\f' {
			i++
			continue
		}
		if c == '\n' || c == '\r' {
			nl = true
			i++
			continue
		}
		if c == 0xE2 && i+2 < n && src[i+1] == 0x80 && (src[i+2] == 0xA8 || src[i+2] == 0xA9) {
			nl = true
			i += 3
			continue
		}
		if c == 0xC2 && i+1 < n && src[i+1] == 0xA0 {
			i += 2
			continue
		}
		if c == 0xEF && i+2 < n && src[i+1] == 0xBB && src[i+2] == 0xBF {
			i += 3
			continue
		}
		// comments
		if c == '/' && i+1 < n && src[i+1] == '/' {
			for i < n && src[i] != '\n' && src[i] != '\r' {
				i++
			}
			continue
		}
		if c == '/' && i+1 < n && src[i+1] == '*' {
			j := strings.Index(src[i+2:], "*/")
			var body string
			if j < 0 {
				body = src[i:]
				i = n
			} else {
				body = src[i : i+2+j+2]
				i = i + 2 + j + 2
			}
			if strings.ContainsAny(body, "\n\r") {
				nl = true
			}
			continue
		}
		start := i
		switch {
		case isIdentStart(c) || c == '\\':
			j := i
			for j < n && (isIdentPart(src[j]) || src[j] == '\\') {
				if src[j] == '\\' { // unicode escape in identifier
					j++
					if j < n && src[j] == 'u' {
						j++
						if j < n && src[j] == '{' {
							for j < n && src[j] != '}' {
								j++
							}
						}
					}
				}
				j++
			}
			if j > n {
				j = n
			}
			toks = append(toks, token{k: tIdent, s: src[i:j], pos: i, end: j, nl: nl})
			i = j
		case c == '#' && i+1 < n && isIdentStart(src[i+1]):
			j := i + 1
			for j < n && isIdentPart(src[j]) {
				j++
			}
			toks = append(toks, token{k: tPrivate, s: src[i:j], pos: i, end: j, nl: nl})
			i = j
		case isDigit(c) || c == '.' && i+1 < n && isDigit(src[i+1]):
			j := i
			if c == '0' && j+1 < n && strings.IndexByte("xXoObB", src[j+1]) >= 0 {
				j += 2
				for j < n && (isIdentPart(src[j])) {
					j++
				}
			} else {
				for j < n && (isDigit(src[j]) || src[j] == '_') {
					j++
				}
				if j < n && src[j] == '.' {
					j++
					for j < n && (isDigit(src[j]) || src[j] == '_') {
						j++
					}
				}
				if j < n && (src[j] == 'e' || src[j] == 'E') {
					k := j + 1
					if k < n && (src[k] == '+' || src[k] == '-') {
						k++
					}
					if k < n && isDigit(src[k]) {
						j = k
						for j < n && (isDigit(src[j]) || src[j] == '_') {
							j++
						}
					}
				}
				if j < n && src[j] == 'n' {
					j++
				}
			}
			toks = append(toks, token{k: tNum, s: src[i:j], pos: i, end: j, nl: nl})
			i = j
		case c == '"' || c == '\'':
			j := i + 1
			for j < n && src[j] != c {
				if src[j] == '\\' {
					j++
				}
				if j < n && (src[j] == '\n') && src[j-1] != '\\' {
					break
				}
				j++
			}
			if j < n {
				j++
			}
			if j > n {
				j = n
			}
			toks = append(toks, token{k: tStr, s: src[i:j], pos: i, end: j, nl: nl})
			i = j
		case c == '`':
			readTemplate(i+1, 0, 1)
		case c == '}' && len(tmplStack) > 0 && tmplStack[len(tmplStack)-1] == brace:
			tmplStack = tmplStack[:len(tmplStack)-1]
			readTemplate(i+1, 3, 2)
		case c == '/' && regexAllowed():
			j := i + 1
			inClass := false
			for j < n {
				ch := src[j]
				if ch == '\\' {
					j += 2
					continue
				}
				if ch == '\n' {
					break
				}
				if ch == '[' {
					inClass = true
				} else if ch == ']' {
					inClass = false
				} else if ch == '/' && !inClass {
					break
				}
				j++
			}
			if j < n && src[j] == '/' {
				j++
				for j < n && isIdentPart(src[j]) {
					j++
				}
				toks = append(toks, token{k: tRegex, s: src[i:j], pos: i, end: j, nl: nl})
				i = j
			} else {
				toks = append(toks, token{k: tPunct, s: "/", pos: i, end: i + 1, nl: nl})
				i++
			}
		default:
			matched := ""
			openBlock := false
			for _, p := range puncts {
				if strings.HasPrefix(src[i:], p) {
					if p == "?." && i+2 < n && isDigit(src[i+2]) {
						continue
					}
					matched = p
					break
				}
			}
			if matched == "" {
				matched = src[i : i+1]
			}
			switch matched {
			case "(":
				prevKw := len(toks) > 0 && toks[len(toks)-1].k == tIdent && (toks[len(toks)-1].s == "if" || toks[len(toks)-1].s == "while" || toks[len(toks)-1].s == "for" || toks[len(toks)-1].s == "with")
				stmtAfter = append(stmtAfter, prevKw)
				kinds = append(kinds, 'P')
			case "[":
				stmtAfter = append(stmtAfter, false)
				kinds = append(kinds, 'S')
			case "{":
				brace++
				block := true
				if len(toks) > 0 {
					p := toks[len(toks)-1]
					switch p.k {
					case tPunct:
						// after "]", "++", "--" (the end of an expression) a "{" can only start a block (ASI) — an object literal needs
						// an operator or an opening bracket before it
						block = p.s == ")" || p.s == ";" || p.s == "{" || p.s == "}" || p.s == "=>" || p.s == "]" || p.s == "++" || p.s == "--"
						if p.s == ":" {
							// label / case clause => block; property value or conditional branch => object
							encl := byte('B')
							if len(kinds) > 0 {
								encl = kinds[len(kinds)-1]
							}
							block = false
							if encl == 'B' && len(toks) >= 2 {
								lab := toks[len(toks)-2]
								if lab.k == tIdent && lab.s == "default" {
									block = true
								} else if lab.k == tIdent && !jsKeywords[lab.s] {
									if len(toks) == 2 || lab.nl {
										block = true
									} else {
										q := toks[len(toks)-3]
										block = q.k == tPunct && (q.s == "{" || q.s == ";" || q.s == "}" || q.s == ")") || q.k == tIdent && (q.s == "else" || q.s == "do")
										if q.k == tPunct && q.s == ":" {
											// label chain or case clause, unless a conditional operator is open
											block = true
											depth := 0
											for k := len(toks) - 3; k >= 0 && k > len(toks)-80; k-- {
												u := toks[k]
												if u.k == tPunct && (u.s == ")" || u.s == "]" || u.s == "}") {
													depth++
												} else if u.k == tPunct && (u.s == "(" || u.s == "[" || u.s == "{") {
													if depth == 0 {
														break
													}
													depth--
												} else if depth == 0 && u.k == tPunct && u.s == "?" {
													block = false
													break
												} else if depth == 0 && u.k == tPunct && u.s == ";" {
													break
												}
											}
										}
									}
								}
								if !block {
									// case <expr>: scan back for `case` before any statement boundary
									for k := len(toks) - 2; k >= 0 && k > len(toks)-40; k-- {
										u := toks[k]
										if u.k == tIdent && u.s == "case" {
											block = true
											break
										}
										if u.k == tPunct && (u.s == ";" || u.s == "{" || u.s == "}" || u.s == "?") {
											break
										}
									}
								}
							}
						}
					case tIdent:
						// after var / let / const / import / export a "{" opens a binding pattern or a name list, not a block
						block = !(p.s == "return" || p.s == "typeof" || p.s == "in" || p.s == "of" || p.s == "instanceof" || p.s == "new" || p.s == "void" || p.s == "delete" || p.s == "throw" || p.s == "case" || p.s == "yield" || p.s == "await" ||
							p.s == "var" || p.s == "let" || p.s == "const" || p.s == "import" || p.s == "export")
					case tTemplate:
						block = p.tmpl == 0 || p.tmpl == 3 // after a complete template only ASI + block is possible
					default:
						block = true // after a literal a "{" can only start a block (ASI) or a body
					}
				}
				stmtAfter = append(stmtAfter, block)
				if block {
					kinds = append(kinds, 'B')
				} else {
					kinds = append(kinds, 'O')
				}
				openBlock = block
			case ")", "]", "}":
				if matched == "}" {
					brace--
				}
				lastClosedStmt = false
				if len(stmtAfter) > 0 {
					lastClosedStmt = stmtAfter[len(stmtAfter)-1]
					stmtAfter = stmtAfter[:len(stmtAfter)-1]
				}
				if len(kinds) > 0 {
					kinds = kinds[:len(kinds)-1]
				}
			}
			toks = append(toks, token{k: tPunct, s: matched, pos: i, end: i + len(matched), nl: nl, block: openBlock})
			openBlock = false
			i += len(matched)
		}
		if i == start { // safety against no progress
			i++
		}
		nl = false
	}
	return toks
}

func (t token) is(s string) bool { return (t.k == tPunct || t.k == tIdent) && t.s == s }

// matchClose returns the index of the token closing the bracket opened at toks[i] ("(", "[", "{" or
// a template head), or len(toks) if unbalanced.
func matchClose(toks []token, i int) int {
	depth := 0
	for j := i; j < len(toks); j++ {
		t := toks[j]
		switch {
		case t.k == tPunct && (t.s == "(" || t.s == "[" || t.s == "{"):
			depth++
		case t.k == tPunct && (t.s == ")" || t.s == "]" || t.s == "}"):
			depth--
		case t.k == tTemplate && t.tmpl == 1:
			depth++
		case t.k == tTemplate && t.tmpl == 3:
			depth--
		}
		if depth == 0 {
			return j
		}
	}
	return len(toks)
}

var jsKeywords = map[string]bool{
	"await": true, "break": true, "case": true, "catch": true, "class": true, "const": true, "continue": true,
	"debugger": true, "default": true, "delete": true, "do": true, "else": true, "enum": true, "export": true,
	"extends": true, "false": true, "finally": true, "for": true, "function": true, "if": true, "import": true,
	"in": true, "instanceof": true, "new": true, "null": true, "return": true, "super": true, "switch": true,
	"this": true, "throw": true, "true": true, "try": true, "typeof": true, "var": true, "void": true,
	"while": true, "with": true, "yield": true, "let": true, "static": true, "async": true, "of": true,
	"get": true, "set": true,
}
