// numcheck: correspondence data and search oracle for C08 (minify.Number / minify.Decimal).
//
//	numcheck -seed N -out DIR [-tier quick|thorough] [-witness FILE]
//
// Writes DIR/cases.in (lines for the extracted Coq model: "<fn>\t<hex input>"), DIR/cases.go.out (the
// implementation's result for the same lines, hex) and DIR/result.json (oracle verdicts).
package main

import (
	"bufio"
	"encoding/json"
	"flag"
	"fmt"
	"math/big"
	"os"
	"path/filepath"
	"regexp"
	"runtime"
	"sort"
	"strings"
	"sync"

	"github.com/tdewolff/minify/v2"
	"verifharness/internal/vh"
)

var reNumber = regexp.MustCompile(`^[+-]?([0-9]+\.?[0-9]*|\.[0-9]+)([eE][+-]?[0-9]+)?$`)
var reDecimal = regexp.MustCompile(`^[+-]?([0-9]+\.?[0-9]*|\.[0-9]+)$`)
var reSplit = regexp.MustCompile(`^([+-]?)([0-9]*)(?:\.([0-9]*))?(?:[eE]([+-]?[0-9]+))?$`)

const canary = 0xA5

type parsedNum struct {
	neg     bool
	mant    *big.Int // all written digits as an integer
	scale   *big.Int // value = mant * 10^scale
	ndigits int
	first   int // index of first non-zero digit in the written digits
	last    int // index of last non-zero digit
	zero    bool
}

var ten = big.NewInt(10)

func pow10(e int64) *big.Rat {
	if e >= 0 {
		return new(big.Rat).SetInt(new(big.Int).Exp(ten, big.NewInt(e), nil))
	}
	return new(big.Rat).SetFrac(big.NewInt(1), new(big.Int).Exp(ten, big.NewInt(-e), nil))
}

// parseNum is the independent interpretation of a number lexeme: mant * 10^scale with an unbounded scale.
func parseNum(s string) (parsedNum, bool) {
	m := reSplit.FindStringSubmatch(s)
	if m == nil || (m[2] == "" && m[3] == "") {
		return parsedNum{}, false
	}
	digits := m[2] + m[3]
	exp := new(big.Int)
	if m[4] != "" {
		if _, ok := exp.SetString(strings.TrimPrefix(m[4], "+"), 10); !ok {
			return parsedNum{}, false
		}
	}
	mant, _ := new(big.Int).SetString(digits, 10)
	p := parsedNum{neg: m[1] == "-", mant: mant, ndigits: len(digits)}
	p.scale = new(big.Int).Sub(exp, big.NewInt(int64(len(m[3]))))
	if mant.Sign() == 0 {
		p.zero = true
		return p, true
	}
	p.first = strings.IndexFunc(digits, func(r rune) bool { return r != '0' })
	p.last = strings.LastIndexFunc(digits, func(r rune) bool { return r != '0' })
	return p, true
}

// pos returns scale + k as a big.Int
func (p parsedNum) pos(k int) *big.Int { return new(big.Int).Add(p.scale, big.NewInt(int64(k))) }

// rel returns the value with all exponents taken relative to base (|scale-base| must be small)
func (p parsedNum) rel(base *big.Int) *big.Rat {
	d := new(big.Int).Sub(p.scale, base)
	v := new(big.Rat).Mul(new(big.Rat).SetInt(p.mant), pow10(d.Int64()))
	if p.neg {
		v.Neg(v)
	}
	return v
}

type caseResult struct {
	out       string
	panicked  string
	canaryBad bool
	outside   bool
}

func call(fn string, in string, prec int) (r caseResult) {
	const pad = 8
	buf := make([]byte, len(in)+2*pad)
	for i := range buf {
		buf[i] = canary
	}
	copy(buf[pad:], in)
	num := buf[pad : pad+len(in)]
	defer func() {
		if e := recover(); e != nil {
			r.panicked = fmt.Sprint(e)
		}
	}()
	var out []byte
	if fn == "number" {
		out = minify.Number(num, prec)
	} else {
		out = minify.Decimal(num, prec)
	}
	r.out = string(out)
	for i := 0; i < pad; i++ {
		if buf[i] != canary || buf[pad+len(in)+i] != canary {
			r.canaryBad = true
		}
	}
	if len(out) > 0 || cap(out) > 0 {
		off := cap(buf) - cap(out)
		if off < pad || off+len(out) > pad+len(in) {
			r.outside = true
		}
	}
	return
}

// judge returns "" when the property holds for this call, otherwise a signature and a detail.
func judge(fn, in string, prec int, r caseResult) (string, string) {
	if r.panicked != "" {
		return "panic", r.panicked
	}
	if r.canaryBad {
		return "write-outside-slice", "canary bytes next to the slice were overwritten"
	}
	if r.outside {
		return "result-outside-slice", "returned slice is not inside the given slice"
	}
	if len(r.out) > len(in) {
		return "longer", fmt.Sprintf("len %d > %d", len(r.out), len(in))
	}
	if fn == "number" && !reNumber.MatchString(r.out) || fn == "decimal" && !reDecimal.MatchString(r.out) {
		return "invalid-output", "output is not in the number grammar"
	}
	pi, ok1 := parseNum(in)
	po, ok2 := parseNum(r.out)
	if !ok1 || !ok2 {
		return "invalid-output", "unparseable"
	}
	if pi.zero && po.zero {
		return "", ""
	}
	if pi.zero != po.zero {
		if prec <= 0 || po.zero || true {
			return "value-changed", "zero vs non-zero"
		}
	}
	// both non-zero: positions of the most significant digits must be close, otherwise the values differ vastly
	msdIn, msdOut := pi.pos(pi.ndigits-1-pi.first), po.pos(po.ndigits-1-po.first)
	if d := new(big.Int).Sub(msdIn, msdOut); d.CmpAbs(big.NewInt(2)) > 0 {
		return "value-changed", fmt.Sprintf("magnitude differs: msd 10^%s vs 10^%s", msdIn, msdOut)
	}
	if pi.ndigits > 5000 || po.ndigits > 5000 {
		return "", ""
	}
	base := pi.scale
	if po.scale.Cmp(base) < 0 {
		base = po.scale
	}
	if d := new(big.Int).Sub(pi.scale, po.scale); d.CmpAbs(big.NewInt(20000)) > 0 {
		return "", "" // not judged (cannot happen when the msd positions are close and digit counts are bounded)
	}
	vi, vo := pi.rel(base), po.rel(base)
	diff := new(big.Rat).Sub(vo, vi)
	if prec <= 0 {
		if diff.Sign() != 0 {
			return "value-changed", fmt.Sprintf("out=%s in=%s differ", r.out, in)
		}
		return "", ""
	}
	if diff.Sign() == 0 {
		return "", ""
	}
	diff.Abs(diff)
	diff.Mul(diff, big.NewRat(2, 1))
	// bound 1: half a unit of the last retained (non-zero) significant digit of the output
	lastSig := new(big.Int).Sub(po.pos(po.ndigits-1-po.last), base)
	if diff.Cmp(pow10(lastSig.Int64())) > 0 {
		return "rounding-error-too-large", fmt.Sprintf("2*|out-in| > one unit of the last significant digit of the output")
	}
	// bound 2: rounding to prec significant digits never errs by more than half a unit at position msd-prec+1
	b2 := new(big.Int).Sub(msdIn, base)
	b2.Sub(b2, big.NewInt(int64(prec)-1))
	if diff.Cmp(pow10(b2.Int64())) > 0 {
		return "rounding-error-too-large", fmt.Sprintf("2*|out-in| > one unit at significant digit %d of the input", prec)
	}
	return "", ""
}

// knownSignature attributes a failing call to a listed finding when it has that finding's shape.
// K46: Number with prec > 0 and an exponent within 100000 of +-2^63: the exponent arithmetic of the rounding
// step wraps around before the overflow guard, or the guard returns the already-rounded buffer.
func knownSignature(fn, in string, prec int, sig string) string {
	if fn == "number" && prec > 0 {
		if m := reSplit.FindStringSubmatch(in); m != nil && m[4] != "" {
			e, ok := new(big.Int).SetString(strings.TrimPrefix(m[4], "+"), 10)
			lim, _ := new(big.Int).SetString("9223372036854675807", 10)
			if ok && e.CmpAbs(lim) > 0 {
				return "K46-number-prec-exponent-near-maxint"
			}
		}
	}
	return fn + ":" + sig
}

type shard struct {
	evals, nontrivial int
	hist              map[string]int
	viol              []vh.Violation
	in, out           []string
	samples           []interface{}
}

func main() {
	seed := flag.Uint64("seed", 1, "")
	outDir := flag.String("out", ".", "")
	tier := flag.String("tier", "quick", "")
	witness := flag.String("witness", "", "")
	flag.Parse()
	os.MkdirAll(*outDir, 0o755)
	res := &vh.Result{Engine: "numcheck", Seed: *seed, Tier: *tier}

	if *witness != "" {
		var w struct {
			Input   string            `json:"input"`
			Options map[string]string `json:"options"`
		}
		b, err := os.ReadFile(*witness)
		if err != nil {
			panic(err)
		}
		if err := json.Unmarshal(b, &w); err != nil {
			panic(err)
		}
		fn := w.Options["fn"]
		prec := 0
		fmt.Sscan(w.Options["prec"], &prec)
		r := call(fn, w.Input, prec)
		res.Evaluations = 1
		if sig, det := judge(fn, w.Input, prec, r); sig != "" {
			res.Violations = append(res.Violations, vh.Violation{Kind: "oracle", Signature: knownSignature(fn, w.Input, prec, sig), Input: w.Input, Options: w.Options, Observed: r.out, Detail: det})
		}
		res.Samples = []interface{}{map[string]string{"fn": fn, "in": w.Input, "out": r.out}}
		res.Write(filepath.Join(*outDir, "result.json"))
		return
	}

	L := 6
	precs := []int{0, -1, 1, 2, 3, 5, 17, 20}
	nRandom := 20000
	if *tier == "thorough" {
		L = 8
		precs = nil
		for p := -1; p <= 20; p++ {
			precs = append(precs, p)
		}
		nRandom = 400000
	}
	alpha := []byte("01459.eE+-")

	// enumerate valid strings, sharded by first two characters
	var prefixes []string
	for _, a := range alpha {
		prefixes = append(prefixes, string(a))
	}
	workers := runtime.NumCPU()
	jobs := make(chan string, len(alpha)*len(alpha))
	for _, a := range alpha {
		for _, b := range alpha {
			jobs <- string([]byte{a, b})
		}
	}
	close(jobs)
	shards := make([]*shard, workers)
	var wg sync.WaitGroup
	for wi := 0; wi < workers; wi++ {
		sh := &shard{hist: map[string]int{}}
		shards[wi] = sh
		wg.Add(1)
		go func() {
			defer wg.Done()
			var rec func(b []byte)
			rec = func(b []byte) {
				if reNumber.Match(b) {
					sh.check(string(b), precs, true)
				}
				if len(b) == L {
					return
				}
				for _, a := range alpha {
					rec(append(b, a))
				}
			}
			for p := range jobs {
				rec([]byte(p))
			}
		}()
	}
	wg.Wait()
	// single characters (prefix length 1) are not covered by the two-character shards
	extra := &shard{hist: map[string]int{}}
	for _, a := range alpha {
		if reNumber.MatchString(string(a)) {
			extra.check(string(a), precs, true)
		}
	}
	enumerated := extra.evals
	for _, sh := range shards {
		enumerated += sh.evals
	}

	// random long lexemes and hostile byte strings (totality), from the one seed
	rnd := vh.NewRand(*seed)
	rs := &shard{hist: map[string]int{}}
	for i := 0; i < nRandom; i++ {
		s := randomNumber(rnd)
		ps := []int{0, precs[rnd.Intn(len(precs))], rnd.Intn(22) - 1}
		rs.check(s, ps, len(s) <= 40 && i%4 == 0)
	}
	hostile := 0
	for i := 0; i < nRandom/2; i++ {
		s := randomBytes(rnd)
		for _, fn := range []string{"number", "decimal"} {
			p := rnd.Intn(24) - 2
			r := call(fn, s, p)
			hostile++
			if r.panicked != "" || r.canaryBad || r.outside {
				sig, det := judge(fn, s, p, r)
				rs.viol = append(rs.viol, vh.Violation{Kind: "panic", Signature: knownSignature(fn, s, p, sig), Input: fmt.Sprintf("%q", s), InputHex: vh.Hex([]byte(s)), Options: map[string]string{"fn": fn, "prec": fmt.Sprint(p)}, Observed: r.out, Detail: det})
			}
		}
	}

	all := append(shards, extra, rs)
	fin, _ := os.Create(filepath.Join(*outDir, "cases.in"))
	fout, _ := os.Create(filepath.Join(*outDir, "cases.go.out"))
	win, wout := bufio.NewWriterSize(fin, 1<<20), bufio.NewWriterSize(fout, 1<<20)
	hist := map[string]int{}
	for _, sh := range all {
		res.Evaluations += sh.evals
		res.DistinctNontrivial += sh.nontrivial
		for k, v := range sh.hist {
			hist[k] += v
		}
		res.Violations = append(res.Violations, sh.viol...)
		for i := range sh.in {
			win.WriteString(sh.in[i])
			win.WriteByte('\n')
			wout.WriteString(sh.out[i])
			wout.WriteByte('\n')
		}
		if len(res.Samples) < 6 {
			res.Samples = append(res.Samples, sh.samples...)
		}
	}
	win.Flush()
	wout.Flush()
	fin.Close()
	fout.Close()
	res.Evaluations += hostile
	res.Histograms = map[string]map[string]int{"outcome": hist}
	res.Rule = fmt.Sprintf("every string of the number grammar up to length %d over the alphabet 01459.eE+- (exhaustive) x precisions %v x {Number,Decimal}, plus %d random long lexemes and %d hostile byte strings from the seed; a case is non-trivial when the returned bytes differ from the input; distinct = distinct (function, input, precision) triples (the enumeration never repeats a triple)", L, precs, nRandom, hostile)
	res.Exhaustive = false
	res.Extra = map[string]interface{}{"enumerated_calls": enumerated, "enumeration_length": L, "enumeration_exhaustive": true, "random_lexemes": nRandom, "hostile_calls": hostile}
	sort.Slice(res.Violations, func(i, j int) bool { return len(res.Violations[i].Input) < len(res.Violations[j].Input) })
	if len(res.Violations) > 200 {
		res.Extra["violations_total"] = len(res.Violations)
		res.Violations = res.Violations[:200]
	}
	if len(res.Samples) > 6 {
		res.Samples = res.Samples[:6]
	}
	if err := res.Write(filepath.Join(*outDir, "result.json")); err != nil {
		panic(err)
	}
}

func (sh *shard) check(s string, precs []int, model bool) {
	for _, fn := range []string{"number", "decimal"} {
		if fn == "decimal" && !reDecimal.MatchString(s) {
			continue
		}
		for _, p := range precs {
			r := call(fn, s, p)
			sh.evals++
			if r.out != s {
				sh.nontrivial++
				sh.hist["changed"]++
			} else {
				sh.hist["unchanged"]++
			}
			if sig, det := judge(fn, s, p, r); sig != "" {
				sh.viol = append(sh.viol, vh.Violation{Kind: "oracle", Signature: knownSignature(fn, s, p, sig), Input: s, InputHex: vh.Hex([]byte(s)), Options: map[string]string{"fn": fn, "prec": fmt.Sprint(p)}, Observed: r.out, Detail: det})
			}
			if p == 0 && model && r.panicked == "" {
				sh.in = append(sh.in, fn+"0\t"+vh.Hex([]byte(s)))
				sh.out = append(sh.out, vh.Hex([]byte(r.out)))
			}
			if len(sh.samples) < 2 && r.out != s && len(s) >= 5 {
				sh.samples = append(sh.samples, map[string]interface{}{"fn": fn, "prec": p, "in": s, "out": r.out})
			}
		}
	}
}

func randomNumber(r *vh.Rand) string {
	var b strings.Builder
	b.WriteString(r.Pick("", "", "+", "-"))
	digits := func(n int) {
		for i := 0; i < n; i++ {
			switch r.Intn(6) {
			case 0, 1:
				b.WriteByte('0')
			case 2:
				b.WriteByte('9')
			default:
				b.WriteByte(byte('0' + r.Intn(10)))
			}
		}
	}
	size := func() int {
		switch r.Intn(8) {
		case 0:
			return r.Intn(400)
		case 1:
			return r.Intn(40)
		default:
			return r.Intn(8)
		}
	}
	ni, nf := size(), size()
	hasDot := r.Bool()
	if ni == 0 && (!hasDot || nf == 0) {
		ni = 1
	}
	digits(ni)
	if hasDot {
		b.WriteByte('.')
		digits(nf)
	}
	if r.Chance(2, 3) {
		b.WriteString(r.Pick("e", "E"))
		b.WriteString(r.Pick("", "+", "-"))
		switch r.Intn(10) {
		case 0:
			b.WriteString(r.Pick("9223372036854775807", "9223372036854775808", "9223372036854775806", "9223372036854775799", "18446744073709551616", "99999999999999999999"))
		case 1:
			fmt.Fprintf(&b, "%d", 9223372036854775807-uint64(r.Intn(500)))
		case 2:
			digits(1 + r.Intn(25))
		default:
			for i := r.Intn(3); i > 0; i-- {
				b.WriteByte('0')
			}
			fmt.Fprintf(&b, "%d", r.Intn(400))
		}
	}
	return b.String()
}

func randomBytes(r *vh.Rand) string {
	n := r.Intn(12)
	b := make([]byte, n)
	al := []byte("0019.eE+-- \x00x5")
	for i := range b {
		if r.Chance(1, 8) {
			b[i] = byte(r.Intn(256))
		} else {
			b[i] = al[r.Intn(len(al))]
		}
	}
	return string(b)
}
