// Command optcheck decides the command-line half of property C16 on the real binary: for every documented flag and every
// media type served by the flag's minifier family, `minify --type=T --flag[=v]` on stdin must produce exactly what the
// library produces with the corresponding option field set (and, without the flag, what the library produces with the
// zero option struct).  The flag -> field table below is the documented one (README / usage text); the Coq side checks
// the same table against the AddOpt calls regenerated from cmd/minify/main.go and the order of parsing and struct copies.
// It also checks the options that have no search tool of their own: svg KeepComments, json KeepNumbers.
package main

import (
	"bytes"
	"context"
	"flag"
	"fmt"
	"os"
	"os/exec"
	"path/filepath"
	"regexp"
	"strings"
	"time"

	"github.com/tdewolff/minify/v2"
	"github.com/tdewolff/minify/v2/css"
	"github.com/tdewolff/minify/v2/html"
	"github.com/tdewolff/minify/v2/js"
	"github.com/tdewolff/minify/v2/json"
	"github.com/tdewolff/minify/v2/svg"
	"github.com/tdewolff/minify/v2/xml"
	"verifharness/internal/vh"
)

type opts struct {
	css  css.Minifier
	html html.Minifier
	js   js.Minifier
	json json.Minifier
	svg  svg.Minifier
	xml  xml.Minifier
}

type flagSpec struct {
	name, family, arg string
	set               func(o *opts)
}

var flags = []flagSpec{
	{"css-precision", "css", "3", func(o *opts) { o.css.Precision = 3 }},
	{"html-keep-comments", "html", "", func(o *opts) { o.html.KeepComments = true }},
	{"html-keep-special-comments", "html", "", func(o *opts) { o.html.KeepSpecialComments = true }},
	{"html-keep-default-attrvals", "html", "", func(o *opts) { o.html.KeepDefaultAttrVals = true }},
	{"html-keep-document-tags", "html", "", func(o *opts) { o.html.KeepDocumentTags = true }},
	{"html-keep-end-tags", "html", "", func(o *opts) { o.html.KeepEndTags = true }},
	{"html-keep-whitespace", "html", "", func(o *opts) { o.html.KeepWhitespace = true }},
	{"html-keep-quotes", "html", "", func(o *opts) { o.html.KeepQuotes = true }},
	{"js-precision", "js", "3", func(o *opts) { o.js.Precision = 3 }},
	{"js-keep-var-names", "js", "", func(o *opts) { o.js.KeepVarNames = true }},
	{"js-version", "js", "2015", func(o *opts) { o.js.Version = 2015 }},
	{"json-precision", "json", "3", func(o *opts) { o.json.Precision = 3 }},
	{"json-keep-numbers", "json", "", func(o *opts) { o.json.KeepNumbers = true }},
	{"svg-keep-comments", "svg", "", func(o *opts) { o.svg.KeepComments = true }},
	{"svg-precision", "svg", "3", func(o *opts) { o.svg.Precision = 3 }},
	{"xml-keep-whitespace", "xml", "", func(o *opts) { o.xml.KeepWhitespace = true }},
}

// the media types the CLI documents (minify --list), with their family, and the template delimiters of the html variants
var types = []struct {
	typ, family string
	delims      [2]string
}{
	{"css", "css", [2]string{}}, {"text/css", "css", [2]string{}},
	{"html", "html", [2]string{}}, {"text/html", "html", [2]string{}},
	{"application/x-httpd-php", "html", [2]string{"<?", "?>"}}, {"text/asp", "html", [2]string{"<%", "%>"}},
	{"text/x-ejs-template", "html", [2]string{"<%", "%>"}}, {"text/x-go-template", "html", [2]string{"{{", "}}"}},
	{"text/x-mustache-template", "html", [2]string{"{{", "}}"}}, {"text/x-handlebars-template", "html", [2]string{"{{", "}}"}},
	{"js", "js", [2]string{}}, {"application/javascript", "js", [2]string{}}, {"text/javascript", "js", [2]string{}},
	{"json", "json", [2]string{}}, {"application/json", "json", [2]string{}}, {"application/ld+json", "json", [2]string{}},
	{"svg", "svg", [2]string{}}, {"image/svg+xml", "svg", [2]string{}},
	{"xml", "xml", [2]string{}}, {"text/xml", "xml", [2]string{}}, {"application/rss+xml", "xml", [2]string{}},
}

var samples = map[string][]string{
	"css":  {"a { margin : 0.50000px 1.23456789px ; color : #ff0000 }", "@media screen { b { width : 100.123456% } }"},
	"html": {"<!doctype html><html><head><title>t</title></head><body><!-- c --><!--[if IE]>x<![endif]--><!--# ssi --><p class=\"a\" id='b c'>x <b> y </b> </p><ul><li>1</li><li>2</li></ul><form method=\"get\"><input type=\"text\"></form><script type=\"text/javascript\">var   longname = 1.234567 ;</script></body></html>"},
	"js":   {"function f(longname){var other=longname*1.23456789;return other==null?undefined:other.x}f(`t`)", "var o={a:a,b:Math.pow(x,2)};try{g()}catch(e){}"},
	"json": {"{ \"a\" : 1.234567e+03 , \"b\" : [ 0.00001000 , 100000 ] }"},
	"svg":  {"<svg xmlns=\"http://www.w3.org/2000/svg\"><!-- note --><path d=\"M 10.123456 20.5 L 30.987654 40\"/></svg>"},
	"xml":  {"<a> <b> x </b> <c/> </a>"},
}

func library(o *opts, family string, delims [2]string, src string) (string, error) {
	m := minify.New()
	h := o.html
	h.TemplateDelims = delims
	m.Add("text/css", &o.css)
	m.Add("text/html", &h)
	m.Add("image/svg+xml", &o.svg)
	m.AddRegexp(regexp.MustCompile("^(application|text)/(x-)?(java|ecma|j|live)script(1\\.[0-5])?$|^module$"), &o.js)
	m.AddRegexp(regexp.MustCompile("[/+]json$"), &o.json)
	m.AddRegexp(regexp.MustCompile("[/+]xml$"), &o.xml)
	mt := map[string]string{"css": "text/css", "html": "text/html", "js": "application/javascript", "json": "application/json", "svg": "image/svg+xml", "xml": "text/xml"}[family]
	return m.String(mt, src)
}

func cli(bin string, args []string, src string) (string, error) {
	ctx, cancel := context.WithTimeout(context.Background(), 20*time.Second)
	defer cancel()
	cmd := exec.CommandContext(ctx, bin, args...)
	cmd.Stdin = strings.NewReader(src)
	var out, errb bytes.Buffer
	cmd.Stdout, cmd.Stderr = &out, &errb
	err := cmd.Run()
	if err != nil {
		return out.String(), fmt.Errorf("%v: %s", err, errb.String())
	}
	return out.String(), nil
}

func main() {
	outDir := flag.String("out", "", "output directory")
	repo := flag.String("repo", "/repo", "repository")
	seed := flag.Uint64("seed", 1, "seed (unused: the sweep is exhaustive over flags x types x samples)")
	tier := flag.String("tier", "quick", "tier")
	witness := flag.String("witness", "", "unused")
	flag.Parse()
	_ = witness
	if *outDir == "" {
		fmt.Fprintln(os.Stderr, "optcheck: -out DIR required")
		os.Exit(2)
	}
	os.MkdirAll(*outDir, 0o755)
	res := &vh.Result{Engine: "optcheck", Seed: *seed, Tier: *tier, Exhaustive: true,
		Rule: "Evaluations = (flag or no flag, media type, sample) triples run through the real CLI binary and the library; DistinctNontrivial = triples where the flag changes the library's output (the flag is observable on that sample)"}
	bin := filepath.Join(*outDir, "minify-cli")
	b := exec.Command("go", "build", "-o", bin, "./cmd/minify")
	b.Dir = *repo
	b.Env = append(os.Environ(), "GOFLAGS=-mod=mod", "GOPROXY=off", "GOSUMDB=off", "GOTOOLCHAIN=local")
	if o, err := b.CombinedOutput(); err != nil {
		fmt.Fprintf(os.Stderr, "optcheck: building cmd/minify failed: %v\n%s", err, o)
		os.Exit(2)
	}
	defer os.Remove(bin)
	seen := map[string]bool{}
	add := func(v vh.Violation) {
		if !seen[v.Signature] {
			seen[v.Signature] = true
			res.Violations = append(res.Violations, v)
		}
	}
	observable := map[string]bool{}
	for _, t := range types {
		for _, src := range samples[t.family] {
			// no flag: defaults
			var o0 opts
			want0, err0 := library(&o0, t.family, t.delims, src)
			got0, cerr0 := cli(bin, []string{"--type=" + t.typ}, src)
			res.Evaluations++
			if (err0 != nil) != (cerr0 != nil) || err0 == nil && got0 != want0 {
				add(vh.Violation{Kind: "oracle", Signature: "cli-default-differs:" + t.typ, Input: src, Options: map[string]string{"type": t.typ},
					Observed: got0 + fmt.Sprint(cerr0), Expected: want0 + fmt.Sprint(err0), Detail: "minify --type=" + t.typ + " without flags differs from the library with zero options"})
			}
			for _, f := range flags {
				if f.family != t.family {
					continue
				}
				var o opts
				f.set(&o)
				want, err := library(&o, t.family, t.delims, src)
				arg := "--" + f.name
				if f.arg != "" {
					arg += "=" + f.arg
				}
				got, cerr := cli(bin, []string{"--type=" + t.typ, arg}, src)
				res.Evaluations++
				if err == nil && want != want0 {
					res.DistinctNontrivial++
					observable[f.name] = true
				}
				res.Hist("flag", f.name)
				res.Hist("type", t.typ)
				if (err != nil) != (cerr != nil) || err == nil && got != want {
					add(vh.Violation{Kind: "oracle", Signature: "cli-flag-not-honoured:" + f.name + ":" + t.typ, Input: src,
						Options: map[string]string{"type": t.typ, "flag": arg}, Observed: got + fmt.Sprint(cerr), Expected: want + fmt.Sprint(err),
						Detail: "minify --type=" + t.typ + " " + arg + " differs from the library with the documented option field set"})
				}
			}
		}
	}
	for _, f := range flags {
		if !observable[f.name] {
			add(vh.Violation{Kind: "oracle", Signature: "flag-unobservable:" + f.name, Input: strings.Join(samples[f.family], "\n"), Observed: "the option changes no sample output",
				Expected: "every documented flag is observable on the samples of its family", Detail: "either the option has no effect any more or the samples of optcheck need extending"})
		}
	}
	// kept constructs without a search tool of their own
	{
		src := samples["svg"][0]
		out, err := (&svgKeep{}).run(src)
		res.Evaluations++
		if err != nil || !strings.Contains(out, "<!-- note -->") {
			add(vh.Violation{Kind: "oracle", Signature: "svg-keep-comments-not-kept", Input: src, Observed: out, Expected: "comment kept verbatim"})
		}
		js0 := samples["json"][0]
		m := minify.New()
		var ob bytes.Buffer
		err = (&json.Minifier{KeepNumbers: true}).Minify(m, &ob, strings.NewReader(js0), nil)
		res.Evaluations++
		for _, lex := range []string{"1.234567e+03", "0.00001000", "100000"} {
			if err != nil || !strings.Contains(ob.String(), lex) {
				add(vh.Violation{Kind: "oracle", Signature: "json-keep-numbers-not-kept", Input: js0, Observed: ob.String(), Expected: "number lexeme " + lex + " kept"})
			}
		}
	}
	res.Extra = map[string]interface{}{"flags": len(flags), "types": len(types), "observable_flags": len(observable)}
	if err := res.Write(filepath.Join(*outDir, "result.json")); err != nil {
		fmt.Fprintln(os.Stderr, "optcheck:", err)
		os.Exit(2)
	}
	fmt.Printf("optcheck: %d evaluations, %d observable flag/type/sample triples, %d violations\n", res.Evaluations, res.DistinctNontrivial, len(res.Violations))
}

type svgKeep struct{}

func (*svgKeep) run(src string) (string, error) {
	m := minify.New()
	var ob bytes.Buffer
	err := (&svg.Minifier{KeepComments: true}).Minify(m, &ob, strings.NewReader(src), nil)
	return ob.String(), err
}
