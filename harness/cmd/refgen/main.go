// refgen: one-off generator of the pinned reference tables under coq/theories/Ref (kept so that they can be re-derived).
// Sources: Go standard library html/entity.go (HTML5 named character references, via html.UnescapeString, cross-checked
// against golang.org/x/net/html) and golang.org/x/image/colornames (SVG/CSS named colours) + rebeccapurple (CSS Color 4).
//
//	refgen -out /verif/coq/theories/Ref
package main

import (
	"flag"
	"fmt"
	"go/ast"
	"go/parser"
	"go/token"
	stdhtml "html"
	"os"
	"path/filepath"
	"runtime"
	"sort"
	"strconv"
	"strings"

	"golang.org/x/image/colornames"
	xhtml "golang.org/x/net/html"
)

func coqBytes(s string) string {
	var b strings.Builder
	b.WriteByte('[')
	for i := 0; i < len(s); i++ {
		if i > 0 {
			b.WriteByte(';')
		}
		fmt.Fprintf(&b, "%d", s[i])
	}
	b.WriteByte(']')
	return b.String()
}

func main() {
	out := flag.String("out", ".", "")
	flag.Parse()
	// names from the standard library's entity tables
	f, err := parser.ParseFile(token.NewFileSet(), filepath.Join(runtime.GOROOT(), "src", "html", "entity.go"), nil, 0)
	if err != nil {
		panic(err)
	}
	names := map[string]bool{}
	ast.Inspect(f, func(n ast.Node) bool {
		if kv, ok := n.(*ast.KeyValueExpr); ok {
			if bl, ok := kv.Key.(*ast.BasicLit); ok && bl.Kind == token.STRING {
				s, _ := strconv.Unquote(bl.Value)
				names[s] = true
			}
		}
		return true
	})
	var list []string
	for n := range names {
		list = append(list, n)
	}
	sort.Strings(list)
	var w strings.Builder
	w.WriteString("(* Ref/RefHtml5Entities.v — HTML5 named character references: name (with its trailing ';' when the standard's name has one)\n   -> UTF-8 text. PINNED reference, generated once by harness/cmd/refgen from Go's html/entity.go and cross-checked\n   with golang.org/x/net/html; independent of /repo. *)\nFrom MV Require Import Base.MvBytes.\n\n")
	fmt.Fprintf(&w, "Definition ref_entities : list (bytes * bytes) := [\n")
	for i, n := range list {
		ref := "&" + n
		a := stdhtml.UnescapeString(ref)
		b := xhtml.UnescapeString(ref)
		if a != b || a == ref {
			panic("reference sources disagree on " + n)
		}
		sep := ";"
		if i == len(list)-1 {
			sep = ""
		}
		fmt.Fprintf(&w, "  (%s, %s)%s\n", coqBytes(n), coqBytes(a), sep)
	}
	w.WriteString("].\n")
	os.WriteFile(filepath.Join(*out, "RefHtml5Entities.v"), []byte(w.String()), 0o644)

	var c strings.Builder
	c.WriteString("(* Ref/RefCssColors.v — CSS named colours (CSS Color 4: the 147 SVG keywords of golang.org/x/image/colornames plus\n   rebeccapurple) -> (r, g, b). PINNED reference, generated once by harness/cmd/refgen; independent of /repo. *)\nFrom MV Require Import Base.MvBytes.\n\n")
	var cn []string
	for n := range colornames.Map {
		cn = append(cn, n)
	}
	sort.Strings(cn)
	c.WriteString("Definition ref_colors : list (bytes * (Z * Z * Z)) := [\n")
	for _, n := range cn {
		v := colornames.Map[n]
		fmt.Fprintf(&c, "  (%s, (%d, %d, %d)); (* %s *)\n", coqBytes(n), v.R, v.G, v.B, n)
	}
	fmt.Fprintf(&c, "  (%s, (102, 51, 153)) (* rebeccapurple *)\n].\n", coqBytes("rebeccapurple"))
	os.WriteFile(filepath.Join(*out, "RefCssColors.v"), []byte(c.String()), 0o644)
	fmt.Println(len(list), "entities,", len(cn)+1, "colours")
}
