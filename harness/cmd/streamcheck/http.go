package main

// ResponseWriter / Middleware against the Coq model Stream/StreamHttp.v (engine "http" of mvmodel):
// random handler scripts (set Content-Type / Content-Length, WriteHeader, Write chunks) over a registry of stub
// minifiers registered literally and by overlapping patterns, incl. minifiers that fail after reading, fail without
// reading, and fail after reading one byte. The tables handed to the model come from the PLAIN call
// m.Minify(mediatype, w, r) on the concatenation of the written chunks — the property says the middleware yields what
// the plain call yields — never from Match.

import (
	"bufio"
	"bytes"
	"errors"
	"fmt"
	"io"
	"mime"
	"net/http"
	"net/http/httptest"
	"os"
	"path"
	"path/filepath"
	"regexp"
	"sort"
	"strings"

	"github.com/tdewolff/minify/v2"
	"verifharness/internal/vh"
)

var errStub = errors.New("stub minifier failed")

func stub(id int, mode string) minify.MinifierFunc {
	return func(m *minify.M, w io.Writer, r io.Reader, params map[string]string) error {
		switch mode {
		case "early":
			return errStub
		case "halfread":
			var b [1]byte
			r.Read(b[:])
			return errStub
		}
		in, err := io.ReadAll(r)
		if err != nil {
			return err
		}
		keys := make([]string, 0, len(params))
		for k := range params {
			keys = append(keys, k)
		}
		sort.Strings(keys)
		fmt.Fprintf(w, "%d{", id)
		for _, k := range keys {
			fmt.Fprintf(w, "%s=%s;", k, params[k])
		}
		w.Write([]byte("}["))
		w.Write(bytes.ToUpper(in))
		w.Write([]byte("]"))
		if mode == "fail" {
			return errStub
		}
		_, err = w.Write(nil)
		return err
	}
}

func httpRegistry() *minify.M {
	m := minify.New()
	m.AddFunc("text/a", stub(1, "ok"))
	m.AddFuncRegexp(regexp.MustCompile(`[/+]b$`), stub(2, "ok"))
	m.AddFuncRegexp(regexp.MustCompile(`^text/.+$`), stub(3, "ok"))
	m.AddFunc("x/fail", stub(4, "fail"))
	m.AddFunc("x/early", stub(5, "early"))
	m.AddFunc("x/halfread", stub(6, "halfread"))
	return m
}

var httpTypes = []string{"text/a", "text/a; charset=utf-8", "TEXT/A", "application/b", "application/b; q=1", "image/x+b;charset=utf-8",
	"text/zzz", "text/zzz;x=y", " text/a", "image/none", "x/fail", "x/early", "x/halfread", "x/fail; a=b", "application/octet-stream"}

var httpURIs = []string{"/f.vfa", "/f.vfb", "/f.vfz", "/f.vfn", "/f", "/dir.vfa/f", "/f.vfa?q=1", "/f.vfe", "/f.vfh"}

type hop struct {
	kind string // T L H W
	data []byte
}

func runHTTP(r *vh.Rand, n int, outDir string) {
	mime.AddExtensionType(".vfa", "text/a")
	mime.AddExtensionType(".vfb", "application/b")
	mime.AddExtensionType(".vfz", "text/zzz; charset=utf-8")
	mime.AddExtensionType(".vfn", "image/none")
	mime.AddExtensionType(".vfe", "x/early")
	mime.AddExtensionType(".vfh", "x/halfread")
	fin, _ := os.Create(filepath.Join(outDir, "cases_http.in"))
	fout, _ := os.Create(filepath.Join(outDir, "cases_http.go.out"))
	hin, hout := bufio.NewWriter(fin), bufio.NewWriter(fout)
	defer func() { hin.Flush(); hout.Flush(); fin.Close(); fout.Close() }()
	m := httpRegistry()
	blocked := 0
	for i := 0; i < n && blocked < 3; i++ { // every blocked case costs the 5 s watchdog: three are enough to report
		// a handler script
		var script []hop
		nops := 1 + r.Intn(7)
		nwrites := 0
		for j := 0; j < nops; j++ {
			switch k := r.Intn(10); {
			case k < 3:
				t := httpTypes[r.Intn(len(httpTypes))]
				if r.Intn(8) == 0 {
					t = ""
				}
				script = append(script, hop{"T", []byte(t)})
			case k < 4:
				script = append(script, hop{"L", nil})
			case k < 5:
				script = append(script, hop{"H", nil})
			default:
				ln := []int{0, 1, 1, 2, 3, 5, 9}[r.Intn(7)]
				b := make([]byte, ln)
				for x := range b {
					b[x] = "ab <>\n"[r.Intn(6)]
				}
				script = append(script, hop{"W", b})
				nwrites++
			}
		}
		uri := httpURIs[r.Intn(len(httpURIs))]
		extMT := mime.TypeByExtension(path.Ext(uri))
		var written []byte
		for _, o := range script {
			if o.kind == "W" {
				written = append(written, o.data...)
			}
		}
		// tables from the plain call, for every media type the script can select
		cands := map[string]bool{extMT: true}
		for _, o := range script {
			if o.kind == "T" && len(o.data) > 0 {
				cands[string(o.data)] = true
			}
		}
		var tbl []string
		var names []string
		for c := range cands {
			names = append(names, c)
		}
		sort.Strings(names)
		for _, c := range names {
			var buf bytes.Buffer
			err := m.Minify(c, &buf, bytes.NewReader(written))
			if errors.Is(err, minify.ErrNotExist) {
				tbl = append(tbl, hexd([]byte(c))+"=N")
			} else {
				e := "0"
				if err != nil {
					e = "1"
				}
				tbl = append(tbl, hexd([]byte(c))+"=S"+e+":"+hexd(buf.Bytes()))
			}
		}
		var sc []string
		for _, o := range script {
			switch o.kind {
			case "T", "W":
				sc = append(sc, o.kind+hexd(o.data))
			default:
				sc = append(sc, o.kind)
			}
		}
		fmt.Fprintf(hin, "http\t%s\t%s\t%s\n", strings.Join(tbl, ","), hexd([]byte(extMT)), strings.Join(sc, ","))
		// the real middleware
		var rec *httptest.ResponseRecorder
		var closeErr error
		ok := withTimeout(func() {
			rec = httptest.NewRecorder()
			h := m.MiddlewareWithError(http.HandlerFunc(func(w http.ResponseWriter, rq *http.Request) {
				for _, o := range script {
					switch o.kind {
					case "T":
						if len(o.data) == 0 {
							w.Header().Del("Content-Type")
						} else {
							w.Header().Set("Content-Type", string(o.data))
						}
					case "L":
						w.Header().Set("Content-Length", fmt.Sprint(len(written)))
					case "H":
						w.WriteHeader(200)
					case "W":
						w.Write(o.data)
					}
				}
			}), func(w http.ResponseWriter, rq *http.Request, err error) { closeErr = err })
			rq := httptest.NewRequest("GET", "/", nil)
			rq.RequestURI = uri
			h.ServeHTTP(rec, rq)
		})
		res.Evaluations++
		res.Hist("http", fmt.Sprintf("writes=%d", nwrites))
		opts := map[string]string{"uri": uri, "script": strings.Join(sc, ",")}
		if !ok {
			blocked++
			fmt.Fprintf(hout, "BLOCKED\n")
			res.Violations = append(res.Violations, vh.Violation{Kind: "oracle", Signature: "http:handler-or-close-blocked", Input: "handler script " + strings.Join(sc, ",") + " uri " + uri,
				Options: opts, Observed: "ServeHTTP did not return within 5 s", Expected: "returns"})
			continue
		}
		cl := "0"
		if rec.Result().Header.Get("Content-Length") != "" {
			cl = "1"
		}
		e := "0"
		if closeErr != nil {
			e = "1"
		}
		fmt.Fprintf(hout, "cl=%s err=%s body=%s\n", cl, e, hexd(rec.Body.Bytes()))
		// oracle (independent of the model): when the plain call for the selected type is served, the body must be the
		// plain call's bytes and no Content-Length may be sent unless the handler put one back after its first write
		res.DistinctNontrivial++
		sel, firstW, clAfter := "", false, false
		for _, o := range script {
			switch {
			case o.kind == "T" && !firstW:
				sel = string(o.data)
			case o.kind == "W":
				firstW = true
			case o.kind == "L" && firstW:
				clAfter = true
			}
		}
		if !firstW {
			continue
		}
		if sel == "" {
			sel = extMT
		}
		var pbuf bytes.Buffer
		perr := m.Minify(sel, &pbuf, bytes.NewReader(written))
		in := "handler script " + strings.Join(sc, ",") + " uri " + uri + " (selected media type " + sel + ")"
		if errors.Is(perr, minify.ErrNotExist) {
			if !bytes.Equal(rec.Body.Bytes(), written) {
				res.Violations = append(res.Violations, vh.Violation{Kind: "oracle", Signature: "http:passthrough-differs", Input: in, Options: opts, Observed: rec.Body.String(), Expected: string(written)})
			}
			continue
		}
		if !bytes.Equal(rec.Body.Bytes(), pbuf.Bytes()) {
			res.Violations = append(res.Violations, vh.Violation{Kind: "oracle", Signature: "http:middleware-differs-from-plain-call", Input: in, Options: opts, Observed: rec.Body.String(), Expected: pbuf.String()})
		}
		if cl == "1" && !clAfter {
			res.Violations = append(res.Violations, vh.Violation{Kind: "oracle", Signature: "http:stale-content-length", Input: in, Options: opts, Observed: "Content-Length: " + rec.Result().Header.Get("Content-Length") + " sent with a " + fmt.Sprint(rec.Body.Len()) + "-byte minified body", Expected: "no Content-Length"})
		}
		if (perr != nil) != (closeErr != nil) {
			res.Violations = append(res.Violations, vh.Violation{Kind: "oracle", Signature: "http:close-error-differs", Input: in, Options: opts, Observed: fmt.Sprint(closeErr), Expected: fmt.Sprint(perr)})
		}
	}
}
