// streamcheck: correspondence data and oracles for C12 (same bytes for any chunking through every entry point) and
// C14 (I/O failures surface as errors, never silent truncation or deadlock).
//
//	streamcheck -seed N -n COUNT -out DIR [-tier quick|thorough] [-mode chunk|fault|all] [-witness FILE]
package main

import (
	"bufio"
	"bytes"
	"encoding/json"
	"errors"
	"flag"
	"fmt"
	"io"
	"net/http"
	"net/http/httptest"
	"os"
	"path/filepath"
	"runtime"
	"strings"
	"time"

	"github.com/tdewolff/minify/v2"
	"github.com/tdewolff/minify/v2/css"
	"github.com/tdewolff/minify/v2/html"
	"github.com/tdewolff/minify/v2/js"
	mjson "github.com/tdewolff/minify/v2/json"
	"github.com/tdewolff/minify/v2/svg"
	"github.com/tdewolff/minify/v2/xml"
	"verifharness/internal/vh"
)

var errRead = errors.New("injected read error")
var errWrite = errors.New("injected write error")

var res = &vh.Result{Engine: "streamcheck"}

func newM() *minify.M {
	m := minify.New()
	m.AddFunc("text/css", css.Minify)
	m.AddFunc("text/html", html.Minify)
	m.AddFunc("image/svg+xml", svg.Minify)
	m.AddFunc("application/javascript", js.Minify)
	m.AddFunc("application/json", mjson.Minify)
	m.AddFunc("text/xml", xml.Minify)
	return m
}

type sample struct{ mt, in string }

var fixed = []sample{
	{"text/css", "a { color : #ff0000 ; margin: 0px 0px }  /* c */ b{x:y}"},
	{"text/css", "a{"},
	{"text/html", "<!doctype html><html><body><p class=\"a  b\">Hello   <b>w</b>orld</p> <script>var a = 1 + 2;</script><style>a{b:c}</style></body></html>"},
	{"text/html", "<p>x <span title='&amp;'> y</span>"},
	{"image/svg+xml", "<svg xmlns=\"http://www.w3.org/2000/svg\"><path d=\"M 10 10 L 20 20 z\"/><!-- c --></svg>"},
	{"application/javascript", "function f ( a , b ) { return a + b ; }\nvar x = f ( 1 , 2 ) ;"},
	{"application/javascript", "var a = ;"},
	{"application/json", "{ \"a\" : [ 1.0 , 2e3 , true ] , \"b\" : null }"},
	{"application/json", "{ \"a\" : }"},
	{"text/xml", "<?xml version=\"1.0\"?><a>  <b x='1'> t </b> <![CDATA[ c ]]> </a>"},
	{"text/html", "<script>var a = ;</script><p>x"},
	{"text/css", ""},
	{"application/json", ""},
	{"application/javascript", "var a;foo();var b=1"}, // output not in input order (declarations are merged): output buffers must not alias the input
	// documents whose output is empty: the only write is the final probe w.Write(nil)
	{"application/javascript", ""}, {"application/javascript", ";"}, {"application/javascript", "// c\n{}"},
	{"text/html", ""}, {"text/html", "<!-- c -->"}, {"text/xml", ""}, {"text/xml", "<!-- c -->"},
	{"image/svg+xml", ""}, {"image/svg+xml", "<!-- c -->"}, {"text/css", "/* c */"}, {"application/json", " "},
	{"text/css;inline=1", "color : #ff0000 ; margin : 0px 0px"},
	{"image/svg+xml;inline=1", "<svg><path d=\"M 10 10 L 20 20 z\"/></svg>"},
}

var short = []sample{
	{"text/css", "a{b:0px}"}, {"text/html", "<p> a  b"}, {"application/json", "[1.0, 2]"}, {"application/javascript", "a = 1+2"},
	{"text/xml", "<a> b</a>"}, {"image/svg+xml", "<svg> </svg>"}, {"application/json", "{\"a\":"}, {"application/javascript", "a = ;"},
}

// ---- doubles ----
type chunkReader struct {
	chunks [][]byte
	failAt int // fail after this many bytes were delivered (-1 = never)
	sent   int
	short  bool // deliver the bytes up to failAt together with the error
	calls  int
	err    error // the error to fail with (default errRead)
}

func (r *chunkReader) fail() error {
	if r.err != nil {
		return r.err
	}
	return errRead
}

// reader errors that merely resemble end-of-file must still be reported
var errWrappedEOF = fmt.Errorf("connection reset: %w", io.EOF)

func (r *chunkReader) Read(p []byte) (int, error) {
	r.calls++
	for len(r.chunks) > 0 && len(r.chunks[0]) == 0 {
		r.chunks = r.chunks[1:]
		if r.failAt < 0 || r.sent < r.failAt {
			return 0, nil // an empty read is legal
		}
	}
	if r.failAt >= 0 && r.sent >= r.failAt {
		return 0, r.fail()
	}
	if len(r.chunks) == 0 {
		return 0, io.EOF
	}
	c := r.chunks[0]
	n := len(c)
	if n > len(p) {
		n = len(p)
	}
	if r.failAt >= 0 && r.sent+n >= r.failAt {
		n = r.failAt - r.sent
		copy(p, c[:n])
		r.sent += n
		r.chunks[0] = c[n:]
		if r.short || n == 0 {
			return n, r.fail()
		}
		return n, nil
	}
	copy(p, c[:n])
	r.sent += n
	r.chunks[0] = c[n:]
	return n, nil
}

type recWriter struct {
	calls    [][]byte
	failFrom int   // 1-based call index from which every call fails; 0 = never
	failErr  error // the error returned then (nil = errWrite)
	accepted bytes.Buffer
}

// the error values a destination may return: whatever it is, it has to surface (a destination that is a pipe whose
// reader went away returns io.ErrClosedPipe, a file os.ErrClosed, a short device io.ErrShortWrite)
var writeErrPool = []error{errWrite, io.ErrClosedPipe, io.ErrShortWrite, os.ErrClosed}

func isWriteErr(e error) bool {
	for _, w := range writeErrPool {
		if errors.Is(e, w) {
			return true
		}
	}
	return false
}

func (w *recWriter) Write(p []byte) (int, error) {
	w.calls = append(w.calls, append([]byte{}, p...))
	if w.failFrom > 0 && len(w.calls) >= w.failFrom {
		if w.failErr != nil {
			return 0, w.failErr
		}
		return 0, errWrite
	}
	w.accepted.Write(p)
	return len(p), nil
}

func errStr(e error) string {
	if e == nil {
		return "ok"
	}
	if errors.Is(e, errRead) {
		return "E7"
	}
	if isWriteErr(e) {
		return "E999"
	}
	if errors.Is(e, minify.ErrNotExist) {
		return "E3"
	}
	return "E2"
}

func viol(sig string, s sample, det, obs, exp string, opts map[string]string) {
	res.Violations = append(res.Violations, vh.Violation{Kind: "oracle", Signature: sig, Input: s.mt + " | " + s.in, InputHex: vh.Hex([]byte(s.in)), Options: opts, Detail: det, Observed: obs, Expected: exp})
}

// withTimeout runs fn and reports whether it returned in time (deadlock watchdog)
func withTimeout(fn func()) bool {
	done := make(chan struct{})
	go func() { fn(); close(done) }()
	select {
	case <-done:
		return true
	case <-time.After(5 * time.Second):
		return false
	}
}

type plainRes struct {
	out   []byte
	err   error
	calls [][]byte
}

func plain(m *minify.M, s sample) plainRes {
	w := &recWriter{}
	err := m.Minify(s.mt, w, bytes.NewReader([]byte(s.in)))
	return plainRes{out: w.accepted.Bytes(), err: err, calls: w.calls}
}

func partitions(r *vh.Rand, in []byte, exhaustive bool, count int) [][][]byte {
	n := len(in)
	var out [][][]byte
	if exhaustive && n <= 9 {
		for mask := 0; mask < 1<<uint(maxInt(n-1, 0)); mask++ {
			var cs [][]byte
			start := 0
			for i := 1; i < n; i++ {
				if mask&(1<<uint(i-1)) != 0 {
					cs = append(cs, in[start:i])
					start = i
				}
			}
			cs = append(cs, in[start:])
			out = append(out, cs)
		}
		return out
	}
	for k := 0; k < count; k++ {
		var cs [][]byte
		start := 0
		for start < n {
			var l int
			switch r.Intn(5) {
			case 0:
				l = 1
			case 1:
				l = 0
			case 2:
				l = 1 + r.Intn(4)
			default:
				l = 1 + r.Intn(n)
			}
			if start+l > n {
				l = n - start
			}
			cs = append(cs, in[start:start+l])
			start += l
		}
		if r.Chance(1, 3) {
			cs = append(cs, []byte{})
		}
		out = append(out, cs)
	}
	return out
}

func maxInt(a, b int) int {
	if a > b {
		return a
	}
	return b
}

func copyChunks(cs [][]byte) [][]byte {
	out := make([][]byte, len(cs))
	for i, c := range cs {
		out[i] = append([]byte{}, c...)
	}
	return out
}

func chunkDesc(cs [][]byte) string {
	var parts []string
	for _, c := range cs {
		parts = append(parts, fmt.Sprint(len(c)))
	}
	return strings.Join(parts, ",")
}

var win, wout *bufio.Writer

func hexd(b []byte) string {
	if len(b) == 0 {
		return "-"
	}
	return vh.Hex(b)
}

// modelCase writes one line for the extracted model: entry, run (writes + ending), script, writer failure
func modelCase(entry string, p plainRes, probe bool, script string, wf int, gotRes string, gotOut []byte) {
	var ws []string
	calls := p.calls
	if probe && len(calls) > 0 {
		calls = calls[:len(calls)-1]
	}
	for _, c := range calls {
		ws = append(ws, hexd(c))
	}
	ending := "EOF"
	pf := "0"
	if probe {
		pf = "1"
	}
	if p.err != nil {
		ending = "LEX2"
		if !probe { // an error return that did not pass the final probe: an embedded minifier failed
			ending = "EARLY2"
			pf = "1"
		}
	}
	fmt.Fprintf(win, "stream\t%s\t%s\t%s\t%s\t%s\t%d\n", entry, pf, strings.Join(ws, ","), ending, script, wf)
	fmt.Fprintf(wout, "%s %s\n", gotRes, hexd(gotOut))
}

func scriptOf(cs [][]byte, failAt int) string {
	var parts []string
	sent := 0
	for _, c := range cs {
		if failAt >= 0 && sent+len(c) >= failAt {
			parts = append(parts, "C"+hexd(c[:failAt-sent]), "F7")
			return strings.Join(parts, ",")
		}
		parts = append(parts, "C"+hexd(c))
		sent += len(c)
	}
	if failAt >= 0 {
		parts = append(parts, "F7")
	}
	return strings.Join(parts, ",")
}

// a panic inside an entry point is a violation with the sample as failing input, not a failure of the tool
func recoverAsViolation(s sample, where string) {
	if e := recover(); e != nil {
		viol("panic:"+where, s, fmt.Sprint(e), "panic: "+fmt.Sprint(e), "no panic", map[string]string{"where": where})
	}
}

func runChunk(m *minify.M, s sample, cs [][]byte, r *vh.Rand) {
	defer recoverAsViolation(s, "entry-points")
	p := plain(m, s)
	probe := len(p.calls) > 0 && len(p.calls[len(p.calls)-1]) == 0
	opts := map[string]string{"chunks": chunkDesc(cs)}
	want := errStr(p.err)
	// 1. Minify with a chunked reader
	{
		w := &recWriter{}
		err := m.Minify(s.mt, w, &chunkReader{chunks: copyChunks(cs), failAt: -1})
		res.Evaluations++
		if !bytes.Equal(w.accepted.Bytes(), p.out) || errStr(err) != want {
			viol("chunk:minify-differs", s, "chunked reader", string(w.accepted.Bytes())+" / "+errStr(err), string(p.out)+" / "+want, opts)
		}
		modelCase("minify", p, probe, scriptOf(cs, -1), 0, errStr(err), w.accepted.Bytes())
	}
	// 2. Reader wrapper, consumer paces its reads
	{
		var got []byte
		var rerr error
		ok := withTimeout(func() {
			rd := m.Reader(s.mt, &chunkReader{chunks: copyChunks(cs), failAt: -1})
			buf := make([]byte, 1+r.Intn(7))
			for {
				n, e := rd.Read(buf)
				got = append(got, buf[:n]...)
				if e != nil {
					if e != io.EOF {
						rerr = e
					}
					return
				}
				if r.Chance(1, 4) {
					runtime.Gosched()
				}
			}
		})
		res.Evaluations++
		if !ok {
			viol("chunk:reader-wrapper-blocked", s, "Reader wrapper did not finish", "", "", opts)
		} else if !bytes.Equal(got, p.out) || errStr(rerr) != want {
			viol("chunk:reader-wrapper-differs", s, "", string(got)+" / "+errStr(rerr), string(p.out)+" / "+want, opts)
		}
		modelCase("reader", p, probe, scriptOf(cs, -1), 0, errStr(rerr), got)
	}
	// 3. Writer wrapper, producer writes chunk by chunk
	{
		w := &recWriter{}
		var cerr, cerr2 error
		var werrs []error
		ok := withTimeout(func() {
			z := m.Writer(s.mt, w)
			for _, c := range cs {
				if _, e := z.Write(c); e != nil {
					werrs = append(werrs, e)
				}
				if r.Chance(1, 4) {
					runtime.Gosched()
				}
			}
			cerr = z.Close()
			cerr2 = z.Close()
		})
		res.Evaluations++
		if !ok {
			viol("chunk:writer-wrapper-blocked", s, "Writer wrapper did not finish", "", "", opts)
		} else {
			if !bytes.Equal(w.accepted.Bytes(), p.out) || errStr(cerr) != want {
				viol("chunk:writer-wrapper-differs", s, "output or Close error differs", string(w.accepted.Bytes())+" / "+errStr(cerr), string(p.out)+" / "+want, opts)
			}
			if cerr2 != nil {
				viol("chunk:double-close-errors", s, "", errStr(cerr2), "ok", opts)
			}
			if len(werrs) > 0 {
				viol("chunk:writer-wrapper-write-error", s, "Write returned an error although the minifier reads everything", fmt.Sprint(werrs[0]), "", opts)
			}
		}
		modelCase("writer", p, probe, scriptOf(cs, -1), 0, errStr(cerr), w.accepted.Bytes())
	}
	// 4. Bytes / String
	{
		in := []byte(s.in)
		bo, berr := m.Bytes(s.mt, append([]byte{}, in...))
		so, serr := m.String(s.mt, s.in)
		res.Evaluations += 2
		if p.err == nil {
			if !bytes.Equal(bo, p.out) || so != string(p.out) || berr != nil || serr != nil {
				viol("chunk:bytes-string-differ", s, "", string(bo)+" | "+so, string(p.out), opts)
			}
		} else {
			if berr == nil || serr == nil {
				viol("chunk:bytes-string-no-error", s, "", "", "", opts)
			}
			if so != s.in {
				viol("chunk:string-not-original-on-error", s, "", so, s.in, opts)
			}
			// Bytes on error: known finding K32 (the caller's slice is handed back rewritten) is judged under C10
		}
	}
	// 5. ResponseWriter / Middleware
	for _, variant := range []string{"content-type", "extension", "content-type-params", "writeheader"} {
		ext := map[string]string{"text/css": ".css", "text/html": ".html", "application/javascript": ".js", "application/json": ".json", "text/xml": ".xml", "image/svg+xml": ".svg"}[s.mt]
		if ext == "" && variant == "extension" {
			continue // media types with parameters (inline=1) have no file extension
		}
		var rec *httptest.ResponseRecorder
		ok := withTimeout(func() {
			rec = httptest.NewRecorder()
			h := m.Middleware(http.HandlerFunc(func(w http.ResponseWriter, rq *http.Request) {
				switch variant {
				case "content-type":
					w.Header().Set("Content-Type", s.mt)
				case "content-type-params":
					w.Header().Set("Content-Type", s.mt+"; charset=utf-8")
				case "writeheader":
					w.Header().Set("Content-Type", s.mt)
					w.Header().Set("Content-Length", fmt.Sprint(len(s.in)))
					w.WriteHeader(200)
				}
				if variant != "writeheader" {
					w.Header().Set("Content-Length", fmt.Sprint(len(s.in)))
				}
				for _, c := range cs {
					w.Write(c)
				}
			}))
			url := "/x/file" + ext
			if variant != "extension" {
				url = "/x/file.bin"
			}
			h.ServeHTTP(rec, httptest.NewRequest("GET", url, nil))
		})
		res.Evaluations++
		o := map[string]string{"chunks": chunkDesc(cs), "variant": variant}
		if !ok {
			viol("chunk:middleware-blocked", s, variant, "", "", o)
			continue
		}
		if len(s.in) == 0 {
			continue // nothing is written: no minifier is ever selected
		}
		if variant == "extension" && (s.mt == "text/xml" || s.mt == "application/javascript" || s.mt == "application/json") {
			// mime.TypeByExtension answers text/xml; charset=utf-8, text/javascript ..., depends on the system table: compare only when it maps to a registered type
			if _, _, f := m.Match(mimeByExt(ext)); f == nil {
				continue
			}
		}
		if !bytes.Equal(rec.Body.Bytes(), p.out) {
			viol("chunk:middleware-differs", s, variant, rec.Body.String(), string(p.out), o)
		}
		if cl := rec.Result().Header.Get("Content-Length"); cl != "" && cl != fmt.Sprint(rec.Body.Len()) {
			viol("chunk:stale-content-length", s, variant, cl, fmt.Sprint(rec.Body.Len()), o)
		}
	}
}

func runFault(m *minify.M, s sample, r *vh.Rand) {
	defer recoverAsViolation(s, "fault-injection")
	in := []byte(s.in)
	p := plain(m, s)
	probe := len(p.calls) > 0 && len(p.calls[len(p.calls)-1]) == 0
	ncalls := len(p.calls)
	// reader fails after k bytes, with and without a short final read
	for k := 0; k <= len(in); k++ {
		for _, sh := range []bool{false, true} {
			cs := [][]byte{append([]byte{}, in...)}
			if r.Bool() && len(in) > 1 {
				cut := 1 + r.Intn(len(in)-1)
				cs = [][]byte{append([]byte{}, in[:cut]...), append([]byte{}, in[cut:]...)}
			}
			opts := map[string]string{"fault": "reader", "k": fmt.Sprint(k), "short": fmt.Sprint(sh)}
			w := &recWriter{}
			var err error
			ok := withTimeout(func() { err = m.Minify(s.mt, w, &chunkReader{chunks: copyChunks(cs), failAt: k, short: sh}) })
			res.Evaluations++
			if !ok {
				viol("fault:reader-failure-blocks", s, "", "", "", opts)
				continue
			}
			if !errors.Is(err, errRead) {
				viol("fault:reader-error-not-returned", s, "plain Minify", errStr(err)+" out="+w.accepted.String(), "E7", opts)
			}
			modelCase("minify", p, probe, scriptOf(cs, k), 0, errStr(err), w.accepted.Bytes())
			// through the Reader wrapper
			var rerr error
			var got []byte
			ok = withTimeout(func() {
				rd := m.Reader(s.mt, &chunkReader{chunks: copyChunks(cs), failAt: k, short: sh})
				got, rerr = io.ReadAll(rd)
			})
			res.Evaluations++
			if !ok {
				viol("fault:reader-wrapper-blocks", s, "", "", "", opts)
			} else if !errors.Is(rerr, errRead) {
				viol("fault:reader-error-not-returned", s, "Reader wrapper", errStr(rerr), "E7", opts)
			}
			_ = got
		}
	}
	// reader errors that look like end-of-file (wrapping io.EOF; io.ErrUnexpectedEOF) are still errors
	for _, k := range []int{0, len(in) / 2, len(in)} {
		for _, e := range []error{errWrappedEOF, io.ErrUnexpectedEOF} {
			for _, sh := range []bool{false, true} {
				opts := map[string]string{"fault": "reader", "k": fmt.Sprint(k), "short": fmt.Sprint(sh), "error": e.Error()}
				w := &recWriter{}
				var err error
				ok := withTimeout(func() {
					err = m.Minify(s.mt, w, &chunkReader{chunks: [][]byte{append([]byte{}, in...)}, failAt: k, short: sh, err: e})
				})
				res.Evaluations++
				if !ok {
					viol("fault:reader-failure-blocks", s, "", "", "", opts)
				} else if err == nil || !errors.Is(err, e) {
					viol("fault:reader-error-not-returned", s, "plain Minify, error kind "+e.Error(), errStr(err)+" out="+w.accepted.String(), e.Error(), opts)
				}
				var rerr error
				ok = withTimeout(func() {
					rd := m.Reader(s.mt, &chunkReader{chunks: [][]byte{append([]byte{}, in...)}, failAt: k, short: sh, err: e})
					_, rerr = io.ReadAll(rd)
				})
				res.Evaluations++
				if !ok {
					viol("fault:reader-wrapper-blocks", s, "", "", "", opts)
				} else if rerr == nil || !errors.Is(rerr, e) {
					viol("fault:reader-error-not-returned", s, "Reader wrapper, error kind "+e.Error(), errStr(rerr), e.Error(), opts)
				}
			}
		}
	}
	// writer fails from its k-th call on
	for k := 1; k <= ncalls+2; k++ {
		opts := map[string]string{"fault": "writer", "k": fmt.Sprint(k), "calls": fmt.Sprint(ncalls)}
		we := writeErrPool[(k+len(in))%len(writeErrPool)]
		w := &recWriter{failFrom: k, failErr: we}
		var err error
		ok := withTimeout(func() { err = m.Minify(s.mt, w, bytes.NewReader(in)) })
		res.Evaluations++
		if !ok {
			viol("fault:writer-failure-blocks", s, "", "", "", opts)
			continue
		}
		// (a writer that fails from its FIRST call on must always be noticed: every minifier ends with a write, if only the
		// empty probe w.Write(nil), also when the output is empty)
		if (k <= ncalls || k == 1) && (err == nil || (p.err == nil && !errors.Is(err, we))) {
			viol("fault:writer-error-not-returned", s, "plain Minify", errStr(err), "E999", opts)
		}
		if k > ncalls && errStr(err) != errStr(p.err) {
			viol("fault:late-writer-failure-changes-result", s, "", errStr(err), errStr(p.err), opts)
		}
		if !bytes.HasPrefix(p.out, w.accepted.Bytes()) {
			viol("fault:accepted-bytes-not-a-prefix", s, "", w.accepted.String(), string(p.out), opts)
		}
		modelCase("minify", p, probe, "C"+hexd(in), k, errStr(err), w.accepted.Bytes())
		// through the Writer wrapper: the error must come out of Write or Close, and Close must return
		w2 := &recWriter{failFrom: k, failErr: we}
		var cerr error
		var werr error
		ok = withTimeout(func() {
			z := m.Writer(s.mt, w2)
			for i := 0; i < len(in); i += 3 {
				e := i + 3
				if e > len(in) {
					e = len(in)
				}
				if _, e2 := z.Write(in[i:e]); e2 != nil && werr == nil {
					werr = e2
				}
			}
			cerr = z.Close()
		})
		res.Evaluations++
		if !ok {
			viol("fault:writer-wrapper-close-blocks", s, "", "", "", opts)
		} else if (k <= ncalls || k == 1) && ((cerr == nil && werr == nil) || (p.err == nil && !errors.Is(cerr, we) && !errors.Is(werr, we))) {
			viol("fault:writer-error-not-returned", s, "Writer wrapper", errStr(cerr), "E999", opts)
		}
	}
}

func main() {
	seed := flag.Uint64("seed", 1, "")
	n := flag.Int("n", 40, "")
	outDir := flag.String("out", ".", "")
	tier := flag.String("tier", "quick", "")
	mode := flag.String("mode", "all", "")
	witness := flag.String("witness", "", "")
	flag.Parse()
	os.MkdirAll(*outDir, 0o755)
	res.Seed, res.Tier = *seed, *tier
	res.Engine = "streamcheck-" + *mode
	if *tier == "thorough" && *n == 40 {
		*n = 400
	}
	fin, _ := os.Create(filepath.Join(*outDir, "cases.in"))
	fout, _ := os.Create(filepath.Join(*outDir, "cases.go.out"))
	win, wout = bufio.NewWriterSize(fin, 1<<20), bufio.NewWriterSize(fout, 1<<20)
	m := newM()
	r := vh.NewRand(*seed)
	if *witness != "" {
		var w struct {
			Input   string            `json:"input"`
			Options map[string]string `json:"options"`
		}
		b, _ := os.ReadFile(*witness)
		json.Unmarshal(b, &w)
		parts := strings.SplitN(w.Input, " | ", 2)
		s := sample{parts[0], ""}
		if len(parts) > 1 {
			s.in = parts[1]
		}
		if w.Options["fault"] != "" {
			runFault(m, s, r)
		} else {
			for _, cs := range partitions(r, []byte(s.in), true, 20) {
				runChunk(m, s, cs, r)
			}
		}
		win.Flush()
		wout.Flush()
		res.Samples = []interface{}{w.Input}
		res.Write(filepath.Join(*outDir, "result.json"))
		return
	}
	all := append([]sample{}, fixed...)
	// corpus documents (long inputs): first files of each type
	for _, g := range []struct{ mt, glob string }{{"text/css", "/repo/_benchmarks/sample_normalize.css"}, {"text/html", "/repo/_benchmarks/sample_blogpost.html"}, {"application/json", "/repo/_benchmarks/sample_twitter.json"}, {"text/xml", "/repo/_benchmarks/sample_books.xml"}, {"image/svg+xml", "/repo/_benchmarks/sample_gopher.svg"}, {"application/javascript", "/repo/_benchmarks/sample_dot.js"}} {
		if b, err := os.ReadFile(g.glob); err == nil && len(b) > 0 {
			if len(b) > 60000 {
				b = b[:60000]
			}
			all = append(all, sample{g.mt, string(b)})
		}
	}
	if *mode == "chunk" || *mode == "all" {
		for _, s := range short {
			ps := partitions(r, []byte(s.in), true, 0)
			for _, cs := range ps {
				runChunk(m, s, cs, r)
				res.DistinctNontrivial++
			}
			res.Hist("chunk", "exhaustive-short")
		}
		for _, s := range all {
			cnt := *n / 4
			if len(s.in) > 5000 {
				cnt = *n / 10
			}
			for _, cs := range partitions(r, []byte(s.in), false, cnt+1) {
				runChunk(m, s, cs, r)
				if len(cs) > 1 {
					res.DistinctNontrivial++
				}
			}
			res.Hist("chunk", "random")
		}
		// unknown media type: nothing registered
		for _, cs := range partitions(r, []byte("abc def"), true, 0)[:8] {
			s := sample{"text/unknown", "abc def"}
			w := &recWriter{}
			var cerr error
			ok := withTimeout(func() {
				z := m.Writer(s.mt, w)
				for _, c := range cs {
					z.Write(c)
				}
				cerr = z.Close()
			})
			res.Evaluations++
			if !ok {
				viol("chunk:writer-wrapper-blocked", s, "unregistered media type", "", "", nil)
			} else if !errors.Is(cerr, minify.ErrNotExist) || w.accepted.Len() != 0 {
				viol("chunk:unregistered-type-not-reported", s, "", errStr(cerr), "E3", nil)
			}
		}
	}
	if *mode == "chunk" || *mode == "all" {
		hn := 1500
		if *tier == "thorough" {
			hn = 30000
		}
		runHTTP(r.Fork(), hn, *outDir)
	}
	if *mode == "fault" {
		// minifiers that fail early / after one byte / after reading, through the response writer: Close must return
		runHTTP(r.Fork(), 400, *outDir)
	}
	if *mode == "fault" || *mode == "all" {
		for _, s := range append(append([]sample{}, fixed...), short...) {
			runFault(m, s, r)
			res.DistinctNontrivial += 2*len(s.in) + 2
			res.Hist("fault", s.mt)
		}
		if *tier == "thorough" {
			for _, s := range all[len(fixed):] {
				if len(s.in) > 3000 {
					s.in = s.in[:3000]
				}
				runFault(m, s, r)
			}
		}
	}
	win.Flush()
	wout.Flush()
	fin.Close()
	fout.Close()
	res.Rule = "C12: all partitions of 8 short inputs (exhaustive, incl. 1-byte chunks) and random partitions (empty and 1-byte chunks included) of fixed samples of all six media types and of benchmark documents, through Minify with a chunked reader, Reader (paced consumer), Writer (chunk by chunk, double Close), Bytes, String and Middleware (Content-Type, Content-Type with parameters, path extension, explicit WriteHeader; Content-Length set by the handler; random handler scripts over a registry of literal/pattern/failing stub minifiers compared with the Coq model of responseWriter); C14: reader errors wrapping io.EOF / io.ErrUnexpectedEOF; inline CSS/SVG; reader failing after every k bytes (with/without a short final read), writer failing from every k-th call on, plain and through the wrappers with a 5 s watchdog; distinct_nontrivial = distinct (input, partition) pairs with more than one chunk, plus fault positions"
	res.Samples = []interface{}{map[string]string{"mediatype": fixed[0].mt, "input": fixed[0].in, "partition": "e.g. 3,0,1,17,..."}, map[string]string{"fault": "reader fails after k bytes for every k", "input": fixed[3].in}}
	if len(res.Violations) > 60 {
		res.Extra = map[string]interface{}{"violations_total": len(res.Violations)}
		res.Violations = res.Violations[:60]
	}
	if err := res.Write(filepath.Join(*outDir, "result.json")); err != nil {
		panic(err)
	}
}
