package main

import "mime"

func mimeByExt(ext string) string { return mime.TypeByExtension(ext) }
