package main

// Document sub-oracle: encoding/xml (RawToken, strict) builds a tree with explicit
// namespace resolution; both trees are pruned by the removals C05 allows and compared,
// attribute values by their type (path data, numbers/lengths, colours, style, lists).

import (
	"encoding/xml"
	"fmt"
	"io"
	"math/big"
	"regexp"
	"sort"
	"strings"

	"golang.org/x/image/colornames"
)

const (
	svgNS   = "http://www.w3.org/2000/svg"
	xlinkNS = "http://www.w3.org/1999/xlink"
)

type dattr struct {
	prefix, local, ns string
	val               string
}

func (a dattr) qname() string {
	if a.prefix != "" {
		return a.prefix + ":" + a.local
	}
	return a.local
}

type node struct {
	kind   byte // 'd' document, 'e' element, 't' text, 'c' comment, 'p' PI, 'D' doctype
	prefix string
	local  string
	ns     string
	attrs  []dattr
	kids   []*node
	text   string   // text / comment / PI data / directive
	parts  []string // for merged text nodes: the constituent character-data tokens
}

func (n *node) qname() string {
	if n.prefix != "" {
		return n.prefix + ":" + n.local
	}
	return n.local
}

type parseErr struct {
	stage string
	err   error
}

func (e *parseErr) Error() string { return e.stage + ": " + e.err.Error() }

type docInfo struct {
	root    *node // document node
	toks    []rtok
	ents    map[string]string
	complex bool
	unbound []string // prefixes used but not declared
}

func splitQName(s string) (string, string) {
	if i := strings.IndexByte(s, ':'); i > 0 && i < len(s)-1 {
		return s[:i], s[i+1:]
	}
	return "", s
}

func checkStructure(toks []rtok) *parseErr {
	depth, roots, seenDoctype := 0, 0, false
	for i, t := range toks {
		switch t.kind {
		case tText:
			if depth == 0 && !allSpace(t.data) {
				return &parseErr{"structure", fmt.Errorf("character data outside the root element")}
			}
		case tCDATA:
			if depth == 0 {
				return &parseErr{"structure", fmt.Errorf("CDATA outside the root element")}
			}
		case tDoctype:
			if depth != 0 || roots != 0 || seenDoctype {
				return &parseErr{"structure", fmt.Errorf("misplaced DOCTYPE")}
			}
			seenDoctype = true
		case tPI:
			if strings.EqualFold(t.name, "xml") && (i != 0 || t.name != "xml") {
				return &parseErr{"structure", fmt.Errorf("misplaced XML declaration")}
			}
		case tSTag, tEmpty:
			if depth == 0 {
				roots++
				if roots > 1 {
					return &parseErr{"structure", fmt.Errorf("second root element")}
				}
			}
			if t.kind == tSTag {
				depth++
			}
		case tETag:
			depth--
			if depth < 0 {
				return &parseErr{"structure", fmt.Errorf("unbalanced end tag")}
			}
		}
	}
	if roots != 1 || depth != 0 {
		return &parseErr{"structure", fmt.Errorf("document needs exactly one root element")}
	}
	return nil
}

func allSpace(s string) bool {
	for i := 0; i < len(s); i++ {
		if !isXMLSpace(s[i]) {
			return false
		}
	}
	return true
}

func fields(s string) []string {
	return strings.FieldsFunc(s, func(r rune) bool { return r == ' ' || r == '\t' || r == '\n' || r == '\r' })
}

func collapse(s string) string { return strings.Join(fields(s), " ") }

func parseTree(s string) (*docInfo, *parseErr) {
	di := &docInfo{}
	toks, err := scan(s)
	if err != nil {
		return nil, &parseErr{"scan", err}
	}
	di.toks = toks
	if pe := checkStructure(toks); pe != nil {
		return nil, pe
	}
	di.ents, di.complex = entitiesOf(toks)
	d := xml.NewDecoder(strings.NewReader(s))
	d.Strict = true
	d.Entity = di.ents
	doc := &node{kind: 'd'}
	di.root = doc
	type scope map[string]string
	stack := []*node{doc}
	scopes := []scope{{"xml": "http://www.w3.org/XML/1998/namespace"}}
	lookup := func(p string) (string, bool) {
		for i := len(scopes) - 1; i >= 0; i-- {
			if v, ok := scopes[i][p]; ok {
				return v, true
			}
		}
		return "", false
	}
	unbound := map[string]bool{}
	for {
		t, err := d.RawToken()
		if err == io.EOF {
			break
		}
		if err != nil {
			return nil, &parseErr{"decode", err}
		}
		top := stack[len(stack)-1]
		switch t := t.(type) {
		case xml.StartElement:
			sc := scope{}
			for _, a := range t.Attr {
				if a.Name.Space == "xmlns" {
					sc[a.Name.Local] = a.Value
				} else if a.Name.Space == "" && a.Name.Local == "xmlns" {
					sc[""] = a.Value
				}
			}
			scopes = append(scopes, sc)
			n := &node{kind: 'e', prefix: t.Name.Space, local: t.Name.Local}
			if ns, ok := lookup(n.prefix); ok {
				n.ns = ns
			} else if n.prefix != "" {
				n.ns = "?" + n.prefix
				unbound[n.prefix] = true
			}
			for _, a := range t.Attr {
				da := dattr{prefix: a.Name.Space, local: a.Name.Local, val: a.Value}
				if da.prefix != "" && da.prefix != "xmlns" {
					if ns, ok := lookup(da.prefix); ok {
						da.ns = ns
					} else {
						da.ns = "?" + da.prefix
						unbound[da.prefix] = true
					}
				}
				n.attrs = append(n.attrs, da)
			}
			top.kids = append(top.kids, n)
			stack = append(stack, n)
		case xml.EndElement:
			if top.kind != 'e' || top.prefix != t.Name.Space || top.local != t.Name.Local {
				return nil, &parseErr{"decode", fmt.Errorf("end tag </%s> does not match the open element <%s>", strings.TrimPrefix(t.Name.Space+":"+t.Name.Local, ":"), top.qname())}
			}
			stack = stack[:len(stack)-1]
			scopes = scopes[:len(scopes)-1]
		case xml.CharData:
			top.kids = append(top.kids, &node{kind: 't', text: string(t)})
		case xml.Comment:
			top.kids = append(top.kids, &node{kind: 'c', text: string(t)})
		case xml.ProcInst:
			top.kids = append(top.kids, &node{kind: 'p', local: t.Target, text: string(t.Inst)})
		case xml.Directive:
			top.kids = append(top.kids, &node{kind: 'D', text: string(t)})
		}
	}
	if len(stack) != 1 {
		return nil, &parseErr{"decode", fmt.Errorf("unclosed element <%s>", stack[len(stack)-1].qname())}
	}
	for p := range unbound {
		di.unbound = append(di.unbound, p)
	}
	sort.Strings(di.unbound)
	return di, nil
}

// ---------------------------------------------------------------------------------
// pruning: the removals the property allows, applied to BOTH trees

type cmpOpts struct {
	inline       bool
	keepComments bool
	css          bool
}

func isSVGElem(n *node, local string) bool {
	return n.kind == 'e' && n.local == local && (n.ns == svgNS || n.ns == "")
}

// foreign: an element or attribute with a prefix that is not bound to the SVG namespace
// ("editor metadata ... foreign-namespace elements/attributes").
func foreignElem(n *node) bool { return n.kind == 'e' && n.prefix != "" && n.ns != svgNS }

func attrClass(a dattr) string {
	switch {
	case a.prefix == "":
		return ""
	case a.prefix == "xmlns":
		return "xmlns"
	case a.prefix == "xml":
		return "xml"
	case a.ns == xlinkNS || a.prefix == "xlink" && strings.HasPrefix(a.ns, "?"):
		return "xlink"
	}
	return "foreign"
}

func numericZero(v string) bool {
	ds, ok := parseDims(v)
	return ok && len(ds) == 1 && ds[0].n.Sign() == 0
}

func prune(n *node, o cmpOpts, inForeign bool) {
	var kids []*node
	for _, k := range n.kids {
		switch k.kind {
		case 'c':
			if !o.keepComments {
				continue
			}
		case 'p':
			if k.local != "xml-stylesheet" {
				continue // XML declaration and application PIs carry no rendering information
			}
		case 'D':
			continue
		case 'e':
			if !inForeign {
				if k.prefix == "" && isSVGElem(k, "metadata") || foreignElem(k) {
					continue
				}
			}
			prune(k, o, inForeign || isSVGElem(k, "foreignObject"))
			if !inForeign && isSVGElem(k, "defs") && emptyElem(k) {
				continue
			}
		}
		kids = append(kids, k)
	}
	// merge adjacent text
	var merged []*node
	for _, k := range kids {
		if k.kind == 't' && len(merged) > 0 && merged[len(merged)-1].kind == 't' {
			m := merged[len(merged)-1]
			m.text += k.text
			m.parts = append(m.parts, k.text)
			continue
		}
		if k.kind == 't' {
			k = &node{kind: 't', text: k.text, parts: []string{k.text}}
		}
		merged = append(merged, k)
	}
	n.kids = merged
	if n.kind != 'e' {
		return
	}
	if o.css && isSVGElem(n, "style") {
		var ks []*node
		for _, k := range n.kids {
			if k.kind != 't' {
				ks = append(ks, k)
			}
		}
		n.kids = ks
	}
	var attrs []dattr
	for _, a := range n.attrs {
		cl := attrClass(a)
		if !inForeign {
			if cl == "xmlns" || cl == "foreign" {
				continue
			}
			if cl == "" && a.local == "xmlns" && !o.inline {
				continue // a namespace declaration, not an attribute: its effect is compared through the namespaces of the elements
			}
			if isSVGElem(n, "svg") && cl == "" {
				v := collapse(a.val)
				switch a.local {
				case "xmlns":
					if o.inline {
						continue
					}
				case "version":
					if v == "1.1" {
						continue
					}
				case "x", "y":
					if numericZero(a.val) {
						continue
					}
				case "preserveAspectRatio":
					if v == "xMidYMid meet" {
						continue
					}
				case "baseProfile":
					if v == "none" {
						continue
					}
				case "contentScriptType":
					if v == "application/ecmascript" {
						continue
					}
				case "contentStyleType":
					if v == "text/css" {
						continue
					}
				}
			}
			if isSVGElem(n, "style") && cl == "" && a.local == "type" && collapse(a.val) == "text/css" {
				continue
			}
		}
		attrs = append(attrs, a)
	}
	n.attrs = attrs
}

func emptyElem(n *node) bool {
	for _, k := range n.kids {
		if k.kind == 'e' || k.kind == 'p' || k.kind == 't' && !allSpace(k.text) {
			return false
		}
	}
	return true
}

// ---------------------------------------------------------------------------------
// comparison

type ddiff struct {
	cat     string
	detail  string
	where   string // element path
	attr    dattr
	inNode  *node
	inText  *node
	foreign bool // inside foreignObject
	pd      *pathDiff
	pin     *pathInfo
	pstr    string
	pout    string
}

func sigKids(n *node) []*node {
	var out []*node
	for _, k := range n.kids {
		if k.kind == 't' && allSpace(k.text) {
			continue
		}
		out = append(out, k)
	}
	return out
}

func descNode(n *node) string {
	switch n.kind {
	case 'e':
		return "<" + n.qname() + ">"
	case 't':
		return fmt.Sprintf("text %q", clipS(n.text, 40))
	case 'c':
		return "comment"
	case 'p':
		return "<?" + n.local + "?>"
	}
	return string(n.kind)
}

func clipS(s string, n int) string {
	if len(s) > n {
		return s[:n] + "..."
	}
	return s
}

func flatten(n *node, sb *strings.Builder, parts *[]string) {
	for _, k := range n.kids {
		switch k.kind {
		case 't':
			sb.WriteString(k.text)
			*parts = append(*parts, k.parts...)
		case 'e':
			flatten(k, sb, parts)
		}
	}
}

func compareWords(a, b string) string {
	fa, fb := fields(a), fields(b)
	if len(fa) == len(fb) {
		same := true
		for i := range fa {
			if fa[i] != fb[i] {
				same = false
				break
			}
		}
		if same {
			return ""
		}
	}
	if strings.Join(fa, "") == strings.Join(fb, "") {
		if len(fb) < len(fa) {
			return "text:words-joined"
		}
		return "text:words-split"
	}
	return "text:characters-changed"
}

func compareNodes(a, b *node, o cmpOpts, where string, inForeign, inText bool) *ddiff {
	ka, kb := sigKids(a), sigKids(b)
	n := len(ka)
	if len(kb) < n {
		n = len(kb)
	}
	for i := 0; i < n; i++ {
		x, y := ka[i], kb[i]
		if x.kind != y.kind || x.kind == 'e' && (x.local != y.local || nsKey(x) != nsKey(y) || !o.inline && x.ns != y.ns) || x.kind == 'p' && x.local != y.local {
			cat := "struct:child-differs"
			if x.kind == 'p' && y.kind != 'p' {
				cat = "pi-dropped:" + x.local
			}
			return &ddiff{cat: cat, where: where, inNode: x, foreign: inForeign, detail: fmt.Sprintf("child %d of %s is %s in the input and %s in the output", i, where, descNode(x), descNode(y))}
		}
		switch x.kind {
		case 't':
			if c := compareWords(x.text, y.text); c != "" {
				return &ddiff{cat: c, where: where, inText: x, foreign: inForeign, detail: fmt.Sprintf("text in %s: %q became %q", where, clipS(x.text, 200), clipS(y.text, 200))}
			}
		case 'c':
			if x.text != y.text {
				return &ddiff{cat: "comment-changed", where: where, foreign: inForeign, detail: fmt.Sprintf("comment %q became %q", x.text, y.text)}
			}
		case 'p':
			if collapse(x.text) != collapse(y.text) {
				return &ddiff{cat: "pi-data-changed", where: where, detail: fmt.Sprintf("PI %s: %q became %q", x.local, x.text, y.text)}
			}
		case 'e':
			w := where + "/" + x.qname()
			fo := inForeign || isSVGElem(x, "foreignObject")
			if d := compareAttrs(x, y, o, w, inForeign); d != nil {
				return d
			}
			isText := isSVGElem(x, "text")
			if isText && !inText && !inForeign {
				var sa, sb strings.Builder
				var pa, pb []string
				flatten(x, &sa, &pa)
				flatten(y, &sb, &pb)
				if c := compareWords(sa.String(), sb.String()); c != "" {
					return &ddiff{cat: c, where: w, inText: &node{kind: 't', text: sa.String(), parts: pa}, detail: fmt.Sprintf("rendered text of %s: %q became %q", w, clipS(sa.String(), 200), clipS(sb.String(), 200))}
				}
			}
			if d := compareNodes(x, y, o, w, fo, inText || isText); d != nil {
				return d
			}
		}
	}
	if len(ka) != len(kb) {
		var x *node
		side := "input"
		if len(ka) > n {
			x = ka[n]
		} else {
			x, side = kb[n], "output"
		}
		d := &ddiff{cat: "struct:child-count-differs", where: where, foreign: inForeign, detail: fmt.Sprintf("%s has %d vs %d children; only the %s has %s", where, len(ka), len(kb), side, descNode(x))}
		if side == "input" {
			d.inNode = x
			switch x.kind {
			case 'e':
				d.cat = "struct:element-dropped"
			case 't':
				d.cat = "text:run-dropped"
				d.inText = x
			case 'p':
				d.cat = "pi-dropped:" + x.local
			case 'c':
				d.cat = "comment-dropped"
			}
		} else {
			d.cat = "struct:node-added"
		}
		return d
	}
	return nil
}

func nsKey(n *node) string {
	if n.ns == svgNS {
		return ""
	}
	return n.ns
}

func attrKey(a dattr) string { return attrClass(a) + "|" + a.local }

func compareAttrs(x, y *node, o cmpOpts, where string, inForeign bool) *ddiff {
	bm := map[string]dattr{}
	for _, a := range y.attrs {
		k := attrKey(a)
		if inForeign {
			k = a.qname()
		}
		bm[k] = a
	}
	am := map[string]bool{}
	for _, a := range x.attrs {
		k := attrKey(a)
		if inForeign {
			k = a.qname()
		}
		am[k] = true
		b, ok := bm[k]
		if !ok {
			cat := "attr-dropped:" + attrClass(a)
			if attrClass(a) == "" {
				cat = "attr-dropped:plain"
			}
			return &ddiff{cat: cat, where: where, attr: a, inNode: x, foreign: inForeign, detail: fmt.Sprintf("attribute %s=%q of %s is missing in the output", a.qname(), clipS(a.val, 80), where)}
		}
		if inForeign {
			if attrExact(a.val) != attrExact(b.val) {
				return &ddiff{cat: "attr-value:foreignobject-content", where: where, attr: a, inNode: x, foreign: true, detail: fmt.Sprintf("attribute %s of %s: %q became %q", a.qname(), where, clipS(a.val, 80), clipS(b.val, 80))}
			}
			continue
		}
		if d := compareAttrValue(x, a, b, o); d != nil {
			d.where, d.attr, d.inNode = where, a, x
			if d.detail == "" {
				d.detail = fmt.Sprintf("attribute %s of %s: %q became %q", a.qname(), where, clipS(a.val, 120), clipS(b.val, 120))
			}
			return d
		}
	}
	for _, b := range y.attrs {
		k := attrKey(b)
		if inForeign {
			k = b.qname()
		}
		if !am[k] {
			return &ddiff{cat: "attr-added", where: where, attr: b, inNode: x, foreign: inForeign, detail: fmt.Sprintf("attribute %s appeared on %s", b.qname(), where)}
		}
	}
	return nil
}

// attrExact: XML attribute-value normalisation of literal TAB/LF/CR (the two sides may
// carry them as literal characters or as spaces).
func attrExact(v string) string {
	return strings.Map(func(r rune) rune {
		if r == '\t' || r == '\n' || r == '\r' {
			return ' '
		}
		return r
	}, v)
}

var colourAttrs = map[string]bool{"fill": true, "stroke": true, "color": true, "stop-color": true, "flood-color": true, "lighting-color": true}

// numericAttrs take a number, a length, a percentage or a list of those.
var numericAttrs = map[string]bool{}

func init() {
	for _, a := range strings.Fields(`x y width height rx ry cx cy r x1 y1 x2 y2 fx fy dx dy offset opacity fill-opacity stroke-opacity stop-opacity flood-opacity
		stroke-width stroke-miterlimit stroke-dashoffset stroke-dasharray font-size letter-spacing word-spacing textLength startOffset markerWidth markerHeight refX refY
		stdDeviation k1 k2 k3 k4 scale baseFrequency numOctaves seed pathLength surfaceScale specularConstant specularExponent diffuseConstant elevation azimuth
		limitingConeAngle pointsAtX pointsAtY pointsAtZ bias divisor amplitude exponent slope intercept tableValues rotate kerning font-size-adjust z points
		horiz-adv-x horiz-origin-x horiz-origin-y vert-adv-y vert-origin-x vert-origin-y units-per-em ascent descent x-height cap-height`) {
		numericAttrs[a] = true
	}
}

// wsListAttrs: values that are white-space separated lists or otherwise insensitive to
// white-space collapsing by their SVG grammar.
var wsListAttrs = map[string]bool{"class": true, "preserveAspectRatio": true, "transform": true, "gradientTransform": true, "patternTransform": true,
	"requiredFeatures": true, "requiredExtensions": true, "systemLanguage": true, "values": true, "keyTimes": true, "keySplines": true, "text-decoration": true,
	"enable-background": true, "clip": true, "viewBox": true, "baseProfile": true, "version": true, "contentScriptType": true, "contentStyleType": true, "type": true,
	"font-weight": true, "font-style": true, "text-anchor": true, "display": true, "visibility": true, "fill-rule": true, "clip-rule": true, "stroke-linecap": true,
	"stroke-linejoin": true, "gradientUnits": true, "spreadMethod": true, "patternUnits": true, "clipPathUnits": true, "maskUnits": true, "method": true, "spacing": true,
	"lengthAdjust": true, "markerUnits": true, "orient": true, "overflow": true, "media": true, "zoomAndPan": true, "filter": true, "mask": true, "clip-path": true,
	"marker-start": true, "marker-mid": true, "marker-end": true, "in": true, "in2": true, "result": true, "mode": true, "operator": true, "xmlns": true}

func compareAttrValue(el *node, a, b dattr, o cmpOpts) *ddiff {
	if a.val == b.val {
		return nil
	}
	if attrClass(a) != "" {
		if attrExact(a.val) != attrExact(b.val) {
			return &ddiff{cat: "attr-value:" + attrClass(a)}
		}
		return nil
	}
	switch {
	case a.local == "d":
		pin, err := parsePath(a.val)
		if err != nil {
			// invalid path data in the input is not judged; it must at least stay put
			// up to white space
			return nil
		}
		pout, err := parsePath(b.val)
		if err != nil {
			return &ddiff{cat: "path:output-unparseable", pin: pin, pstr: a.val, pout: b.val, detail: fmt.Sprintf("path data %q became %q: %v", clipS(a.val, 200), clipS(b.val, 200), err)}
		}
		if pd := comparePaths(pin, pout); pd != nil {
			return &ddiff{cat: "path:segment-differs", pd: pd, pin: pin, pstr: a.val, detail: fmt.Sprintf("path data %q became %q: %s", clipS(a.val, 200), clipS(b.val, 200), pd.detail)}
		}
		return nil
	case a.local == "viewBox":
		da, oka := parseDims(a.val)
		db, okb := parseDims(b.val)
		if oka && okb {
			if !dimsEqual(da, db) {
				return &ddiff{cat: "attr-value:viewBox"}
			}
			return nil
		}
	case colourAttrs[a.local]:
		ca, oka := parseColour(a.val)
		cb, okb := parseColour(b.val)
		if oka && okb {
			if ca != cb {
				return &ddiff{cat: "attr-value:colour"}
			}
			return nil
		}
		if oka != okb {
			return &ddiff{cat: "attr-value:colour"}
		}
	case a.local == "style":
		if o.css {
			na, nb := declNames(a.val), declNames(b.val)
			if strings.Join(na, ";") != strings.Join(nb, ";") {
				return &ddiff{cat: "attr-value:style-properties"}
			}
			return nil
		}
	case numericAttrs[a.local]:
		da, oka := parseDims(a.val)
		db, okb := parseDims(b.val)
		if oka && okb {
			if !dimsEqual(da, db) {
				return &ddiff{cat: "attr-value:number"}
			}
			return nil
		}
		if oka != okb {
			return &ddiff{cat: "attr-value:number"}
		}
	}
	if collapse(a.val) == collapse(b.val) {
		if a.local == "d" || a.local == "style" || a.local == "viewBox" || colourAttrs[a.local] || numericAttrs[a.local] || wsListAttrs[a.local] {
			return nil
		}
		if attrExact(a.val) == attrExact(b.val) {
			return nil
		}
		return &ddiff{cat: "attr-value:whitespace-collapsed"}
	}
	cl := "other"
	switch {
	case a.local == "style":
		cl = "style"
	case a.local == "viewBox":
		cl = "viewBox"
	case colourAttrs[a.local]:
		cl = "colour"
	case numericAttrs[a.local]:
		cl = "number"
	case wsListAttrs[a.local]:
		cl = "list"
	}
	return &ddiff{cat: "attr-value:" + cl}
}

// ---------------------------------------------------------------------------------
// typed values

type dim struct {
	n    *big.Rat
	unit string
}

var reDim = regexp.MustCompile(`^[-+]?(?:[0-9]+(?:\.[0-9]*)?|\.[0-9]+)(?:[eE][-+]?[0-9]{1,3})?`)

// parseDims: a comma / white-space separated list of numbers with optional unit.
func parseDims(v string) ([]dim, bool) {
	var out []dim
	s := strings.TrimSpace(attrExact(v))
	if s == "" {
		return nil, false
	}
	for s != "" {
		m := reDim.FindString(s)
		if m == "" {
			return nil, false
		}
		num := m
		if strings.HasSuffix(num, ".") {
			num += "0"
		}
		num = strings.Replace(num, ".e", ".0e", 1)
		num = strings.Replace(num, ".E", ".0E", 1)
		r, ok := new(big.Rat).SetString(num)
		if !ok {
			return nil, false
		}
		s = s[len(m):]
		j := 0
		if s != "" && s[0] == '%' {
			j = 1
		} else {
			for j < len(s) && (s[j] >= 'a' && s[j] <= 'z' || s[j] >= 'A' && s[j] <= 'Z') {
				j++
			}
		}
		out = append(out, dim{r, s[:j]})
		s = s[j:]
		// separator
		k := 0
		for k < len(s) && s[k] == ' ' {
			k++
		}
		if k < len(s) && s[k] == ',' {
			k++
			for k < len(s) && s[k] == ' ' {
				k++
			}
			if k >= len(s) {
				return nil, false
			}
		} else if k == 0 && s != "" && !(s[0] == '-' || s[0] == '+' || s[0] == '.') {
			return nil, false
		}
		s = s[k:]
	}
	return out, true
}

func dimsEqual(a, b []dim) bool {
	if len(a) != len(b) {
		return false
	}
	for i := range a {
		if a[i].n.Cmp(b[i].n) != 0 {
			return false
		}
		if a[i].n.Sign() == 0 {
			continue // zero is zero in any unit
		}
		ua, ub := a[i].unit, b[i].unit
		if ua == "px" {
			ua = "" // one px is one user unit
		}
		if ub == "px" {
			ub = ""
		}
		if ua != ub {
			return false
		}
	}
	return true
}

type rgb struct{ r, g, b uint8 }

var reRGB = regexp.MustCompile(`^rgb\(\s*([0-9]+)(%?)\s*,\s*([0-9]+)(%?)\s*,\s*([0-9]+)(%?)\s*\)$`)

func hexv(c byte) (uint8, bool) {
	switch {
	case c >= '0' && c <= '9':
		return c - '0', true
	case c >= 'a' && c <= 'f':
		return c - 'a' + 10, true
	case c >= 'A' && c <= 'F':
		return c - 'A' + 10, true
	}
	return 0, false
}

// parseColour: SVG 1.1 <color>: #rgb, #rrggbb, rgb(), or one of the 147 keywords.
func parseColour(v string) (rgb, bool) {
	s := collapse(v)
	if strings.HasPrefix(s, "#") {
		h := s[1:]
		var d []uint8
		for i := 0; i < len(h); i++ {
			x, ok := hexv(h[i])
			if !ok {
				return rgb{}, false
			}
			d = append(d, x)
		}
		switch len(d) {
		case 3:
			return rgb{d[0] * 17, d[1] * 17, d[2] * 17}, true
		case 6:
			return rgb{d[0]<<4 | d[1], d[2]<<4 | d[3], d[4]<<4 | d[5]}, true
		}
		return rgb{}, false
	}
	if m := reRGB.FindStringSubmatch(strings.ToLower(s)); m != nil {
		var c [3]uint8
		for i := 0; i < 3; i++ {
			n := 0
			fmt.Sscanf(m[1+2*i], "%d", &n)
			if m[2+2*i] == "%" {
				if n > 100 {
					n = 100
				}
				n = (n*255 + 50) / 100
			}
			if n > 255 {
				n = 255
			}
			c[i] = uint8(n)
		}
		return rgb{c[0], c[1], c[2]}, true
	}
	if c, ok := colornames.Map[strings.ToLower(s)]; ok {
		return rgb{c.R, c.G, c.B}, true
	}
	return rgb{}, false
}

// declNames: the property names of a style attribute, in order.
func declNames(v string) []string {
	var out []string
	depth, quote := 0, byte(0)
	start := 0
	flush := func(end int) {
		d := v[start:end]
		if i := strings.IndexByte(d, ':'); i >= 0 {
			if n := strings.ToLower(strings.TrimSpace(d[:i])); n != "" {
				out = append(out, n)
			}
		}
	}
	for i := 0; i < len(v); i++ {
		c := v[i]
		switch {
		case quote != 0:
			if c == quote {
				quote = 0
			}
		case c == '"' || c == '\'':
			quote = c
		case c == '(':
			depth++
		case c == ')':
			if depth > 0 {
				depth--
			}
		case c == ';' && depth == 0:
			flush(i)
			start = i + 1
		}
	}
	flush(len(v))
	return out
}
