package main

import (
	"bytes"
	"fmt"
	"io"
	"regexp"
	"strconv"
	"strings"

	"github.com/tdewolff/minify/v2"
	"github.com/tdewolff/minify/v2/css"
	"github.com/tdewolff/minify/v2/svg"
)

type sopts struct {
	mode         string // "doc" | "inline" | "path"
	inlineVia    string // "params" | "field" (inline mode)
	keepComments bool
	css          bool
}

func (o sopts) asMap() map[string]string {
	m := map[string]string{"mode": o.mode, "KeepComments": strconv.FormatBool(o.keepComments), "css": strconv.FormatBool(o.css), "Precision": "0"}
	if o.mode == "inline" {
		m["inline_via"] = o.inlineVia
	}
	return m
}

var knownSig = map[string]string{
	"K24": "K24:path:command-letter-elided-after-closepath",
	"K25": "K25:attr-dropped", // + ":xlink" / ":xml" / ":xmlns-still-in-use"
	"K26": "K26:attr-value:number-shortening-of-non-numeric-attribute",
	"K43": "K43:text:escaped-gt-after-brackets-decoded",
	"K44": "K44:path:smooth-after-degenerate-curve",
	"N04": "N04:doctype:bracket-in-literal-or-comment-ends-doctype",
	"N06": "N06:malformed:nul-charref-decoded-second-pass-fails",
	"N07": "N07:illformed:charref-to-markup-decoded",
	"N08": "N08:text:space-next-to-markup-removed",
	"N09": "N09:pi-dropped:xml-stylesheet",
	"N10": "N10:illformed:svg-prefixed-end-tag-kept",
	"N11": "N11:attr-value:whitespace-collapsed",
	"N12": "N12:foreignobject:attribute-bytes-corrupted",
	"N13": "N13:doctype:internal-subset-dropped",
	"N14": "N14:path:smooth-after-removed-zero-length-line",
	"N15": "N15:path:exponent-multiple-of-100-mangled",
	"N16": "N16:path:trailing-dot-number-mislexed",
}

func runSVG(input string, o sopts) (out string, err error, pan interface{}) {
	defer func() {
		if r := recover(); r != nil {
			pan = r
		}
	}()
	m := minify.New()
	m.Add("image/svg+xml", &svg.Minifier{KeepComments: o.keepComments, Inline: o.mode == "inline" && o.inlineVia == "field"})
	if o.css {
		m.Add("text/css", &css.Minifier{})
	}
	mt := "image/svg+xml"
	if o.mode == "inline" && o.inlineVia != "field" {
		mt = "image/svg+xml;inline=1"
	}
	var buf bytes.Buffer
	err = m.Minify(mt, &buf, strings.NewReader(input))
	return buf.String(), err, nil
}

// stubCSSParams runs the svg minifier with a recording stub registered for text/css and reports a dispatch whose parameters
// do not fit its payload ("" when all fit).
func stubCSSParams(input string, o sopts) (bad string) {
	defer func() {
		if r := recover(); r != nil {
			bad = ""
		}
	}()
	m := minify.New()
	m.Add("image/svg+xml", &svg.Minifier{KeepComments: o.keepComments, Inline: o.mode == "inline" && o.inlineVia == "field"})
	m.AddFunc("text/css", func(_ *minify.M, w io.Writer, r io.Reader, params map[string]string) error {
		b, _ := io.ReadAll(r)
		sheet := bytes.IndexByte(b, '{') >= 0
		if sheet && params["inline"] == "1" && bad == "" {
			bad = fmt.Sprintf("style sheet %q dispatched with params %v", clipS(string(b), 120), params)
		}
		if !sheet && bytes.IndexByte(b, ':') >= 0 && !bytes.Contains(b, []byte("/*")) && params["inline"] != "1" && !strings.Contains(input, "<style") && bad == "" {
			bad = fmt.Sprintf("declaration list %q dispatched with params %v", clipS(string(b), 120), params)
		}
		w.Write(b)
		return nil
	})
	mt := "image/svg+xml"
	if o.mode == "inline" && o.inlineVia != "field" {
		mt = "image/svg+xml;inline=1"
	}
	var buf bytes.Buffer
	_ = m.Minify(mt, &buf, strings.NewReader(input))
	return bad
}

func runPath(d string) (out string, pan interface{}) {
	defer func() {
		if r := recover(); r != nil {
			pan = r
		}
	}()
	return string(svg.NewPathData(&svg.Minifier{}).ShortenPathData([]byte(d))), nil
}

type verdict struct {
	judged     bool
	reason     string
	sig        string
	kind       string
	detail     string
	expected   string
	out        string
	nontrivial bool
}

func (v *verdict) fail(kind, sig, detail, expected string) {
	v.kind, v.sig, v.detail, v.expected = kind, sig, detail, expected
}

// ---------------------------------------------------------------------------------
// shapes of known defects in documents (recognised on the input)

var (
	reMarkupRef   = regexp.MustCompile(`&#(0*(60|38)|[xX]0*(3[cC]|26));`)
	reNulRef      = regexp.MustCompile(`&#(0+|[xX]0+);`)
	reEscGt       = regexp.MustCompile(`\]\](&gt;|&#0*62;|&#[xX]0*3[eE];)`)
	reWholeNumber = regexp.MustCompile(`^[-+]?([0-9]+(\.[0-9]+)?|\.[0-9]+)([eE][-+]?[0-9]+)?(%|[a-zA-Z]+)?$`)
)

// n12Attr: an attribute value inside foreignObject that the token buffer rewrites in
// place (white-space collapsing, trimming, entity decoding) before the raw bytes are
// printed.
func n12Attr(raw string) bool {
	if strings.Contains(raw, "  ") || strings.ContainsAny(raw, "\t\n\r") && (strings.Contains(raw, " \n") || strings.Contains(raw, "\n ") || strings.Contains(raw, "\n\n") || strings.Contains(raw, "\t\t") || strings.Contains(raw, " \t") || strings.Contains(raw, "\t ") || strings.Contains(raw, "\r")) {
		return true
	}
	if raw != "" && (isXMLSpace(raw[0]) || isXMLSpace(raw[len(raw)-1])) {
		return true
	}
	for i := 0; i < len(raw); i++ {
		if raw[i] == '&' && !strings.HasPrefix(raw[i:], "&amp;") && !strings.HasPrefix(raw[i:], "&lt;") {
			return true
		}
	}
	return false
}

func docShapes(s string, di *docInfo) map[string]bool {
	sh := map[string]bool{}
	depthFO := 0
	var stack []bool
	for _, t := range di.toks {
		switch t.kind {
		case tSTag, tEmpty:
			_, local := splitQName(t.name)
			isFO := local == "foreignObject"
			if depthFO > 0 {
				for _, a := range t.attrs {
					if n12Attr(a.raw) {
						sh["N12"] = true
					}
				}
			}
			if p, _ := splitQName(t.name); p != "" && depthFO == 0 {
				sh["prefixed-element"] = true
			}
			if t.kind == tSTag {
				stack = append(stack, isFO)
				if isFO {
					depthFO++
				}
			}
			for _, a := range t.attrs {
				if reMarkupRef.MatchString(a.raw) {
					sh["N07"] = true
				}
			}
		case tETag:
			if len(stack) > 0 {
				if stack[len(stack)-1] {
					depthFO--
				}
				stack = stack[:len(stack)-1]
			}
		case tText:
			if reMarkupRef.MatchString(t.data) && depthFO == 0 {
				sh["N07"] = true
			}
		case tDoctype:
			if lexerDoctypeEnd(s, t.pos) != t.pos+len(t.raw) {
				sh["N04"] = true
			}
			body := strings.TrimRight(t.data, " \t\r\n")
			if strings.Contains(t.data, "[") && body != t.data {
				sh["N13"] = true
			}
		case tPI:
			if t.name == "xml-stylesheet" {
				sh["N09"] = true
			}
		}
	}
	if reEscGt.MatchString(s) {
		sh["K43"] = true
	}
	return sh
}

// classify a document difference
func classifyDoc(d *ddiff, s string, di *docInfo) string {
	sh := docShapes(s, di)
	switch {
	case strings.HasPrefix(d.cat, "path:"):
		if d.pd != nil {
			return classifyPathDiff(d.pd, d.pstr, d.pin)
		}
		return classifyUnparseableOutput(d.pstr, d.pin, d.pout, nil)
	case d.cat == "attr-dropped:xlink":
		return knownSig["K25"] + ":xlink"
	case d.cat == "attr-dropped:xml":
		return knownSig["K25"] + ":xml"
	case d.foreign && sh["N12"] && strings.HasPrefix(d.cat, "attr"):
		return knownSig["N12"]
	case d.cat == "attr-value:whitespace-collapsed":
		return knownSig["N11"]
	case d.cat == "attr-value:other" || d.cat == "attr-value:list":
		if reWholeNumber.MatchString(collapse(d.attr.val)) && !numericAttrs[d.attr.local] {
			return knownSig["K26"]
		}
	case d.cat == "text:words-joined" || d.cat == "text:run-dropped":
		if d.inText != nil && n08Parts(d.inText.parts) {
			return knownSig["N08"]
		}
	case d.cat == "pi-dropped:xml-stylesheet":
		return knownSig["N09"]
	}
	if sh["N04"] {
		return knownSig["N04"]
	}
	return "NEW:" + d.cat
}

// n08Parts: white space at a boundary between character-data tokens (or between text
// and a child element) inside one rendered run.
func n08Parts(parts []string) bool {
	for i, p := range parts {
		if p == "" {
			continue
		}
		if i > 0 && isXMLSpace(p[0]) || i < len(parts)-1 && isXMLSpace(p[len(p)-1]) {
			return true
		}
	}
	return false
}

func classifyIllFormedDoc(pe *parseErr, s string, di *docInfo, out string) string {
	sh := docShapes(s, di)
	msg := pe.err.Error()
	switch {
	case sh["N07"]:
		// a raw '<' or '&' from a decoded reference derails the parse in many ways
		return knownSig["N07"]
	case sh["K43"] && strings.Contains(msg, "]]>"):
		return knownSig["K43"]
	case sh["N13"] && !strings.Contains(out, "<!DOCTYPE"):
		return knownSig["N13"]
	case sh["N12"]:
		return knownSig["N12"]
	case sh["prefixed-element"] && strings.Contains(msg, "does not match"):
		return knownSig["N10"]
	case sh["N04"]:
		return knownSig["N04"]
	}
	return "NEW:illformed:" + pe.stage + ":" + stableMsg(msg)
}

var reLineNo = regexp.MustCompile(`^XML syntax error on line \d+: `)

func stableMsg(msg string) string {
	msg = reLineNo.ReplaceAllString(msg, "")
	for _, p := range []string{"invalid character entity", "unescaped < inside quoted string", "unescaped ]]> not in CDATA section", "illegal character code",
		"unexpected EOF", "expected attribute name", "attribute name without = in element", "unquoted or missing attribute value", "invalid sequence", "unexpected end element",
		"duplicate attribute", "document needs exactly one root element", "end tag", "expected element name", "invalid XML name", "expected target name"} {
		if strings.HasPrefix(msg, p) {
			return p
		}
	}
	cut := len(msg)
	for i, r := range msg {
		if r == '&' || r == '<' || r == '"' || r == '\'' || r >= '0' && r <= '9' || r > 126 {
			cut = i
			break
		}
	}
	msg = strings.TrimSuffix(strings.TrimSpace(msg[:cut]), " at")
	if len(msg) > 60 {
		msg = msg[:60]
	}
	return msg
}

// ---------------------------------------------------------------------------------

func evaluateDoc(input string, o sopts) verdict {
	di, pe := parseTree(input)
	if pe != nil {
		return verdict{reason: "input-not-well-formed:" + pe.stage}
	}
	if di.complex {
		return verdict{reason: "entity-declaration-beyond-literal-text"}
	}
	v := verdict{judged: true}
	out, err, pan := runSVG(input, o)
	v.out = out
	if pan != nil {
		v.fail("panic", "NEW:panic", fmt.Sprint(pan), "no panic")
		return v
	}
	if err != nil {
		v.fail("oracle", "NEW:minify-error", err.Error(), "well-formed input minifies without error")
		return v
	}
	v.nontrivial = out != input
	do, pe := parseTree(out)
	if pe != nil {
		v.fail("oracle", classifyIllFormedDoc(pe, input, di, out), "output is not well-formed: "+pe.Error(), "well-formed output")
		return v
	}
	co := cmpOpts{inline: o.mode == "inline", keepComments: o.keepComments, css: o.css}
	// prefixes that were bound in the input must not be left dangling
	for _, p := range do.unbound {
		was := false
		for _, q := range di.unbound {
			if p == q {
				was = true
			}
		}
		if !was {
			v.fail("oracle", knownSig["K25"]+":xmlns-still-in-use", fmt.Sprintf("namespace prefix %q is used in the output but its declaration was dropped", p), "namespace declarations of prefixes still in use are kept")
			return v
		}
	}
	prune(di.root, co, false)
	prune(do.root, co, false)
	if d := compareNodes(di.root, do.root, co, "", false, false); d != nil {
		v.fail("oracle", classifyDoc(d, input, di), d.detail, "same tree, attributes and values modulo the removals C05 allows")
		return v
	}
	if o.css {
		// C11: what the svg minifier hands to the css minifier. A recording stub takes the place of the css minifier: a
		// style sheet (content of a style element: it has a rule block) must arrive without the inline parameter, a
		// declaration list (style attribute) with inline=1 — also when the svg itself is minified inline.
		if bad := stubCSSParams(input, o); bad != "" {
			v.fail("oracle", "NEW:embedded-css-params", bad, "style elements are dispatched as text/css without parameters, style attributes with inline=1")
			return v
		}
	}
	_, err, pan = runSVG(out, o)
	if pan != nil {
		v.fail("panic", "NEW:second-pass-panic", fmt.Sprint(pan), "no panic")
	} else if err != nil {
		v.fail("oracle", "NEW:second-pass-error", err.Error(), "output minifies again without error")
	}
	return v
}

func wrapPath(d string) string {
	return `<svg xmlns="http://www.w3.org/2000/svg"><path d="` + d + `"/></svg>`
}

// evaluatePath: ShortenPathData called directly and through a document.
func evaluatePath(d string) verdict {
	pin, err := parsePath(d)
	if err != nil {
		return verdict{reason: "input-path-not-valid"}
	}
	v := verdict{judged: true}
	out, pan := runPath(d)
	v.out = out
	if pan != nil {
		v.fail("panic", "NEW:panic", fmt.Sprint(pan), "no panic")
		return v
	}
	v.nontrivial = out != d
	check := func(out, via string) bool {
		pout, err := parsePath(out)
		if err != nil {
			v.fail("oracle", classifyUnparseableOutput(d, pin, out, err), fmt.Sprintf("%s: output %q is not valid path data: %v", via, clipS(out, 300), err), "valid path data")
			return false
		}
		if pd := comparePaths(pin, pout); pd != nil {
			v.fail("oracle", classifyPathDiff(pd, d, pin), via+": "+pd.detail, "same absolute segments within tolerance")
			return false
		}
		return true
	}
	if len(d) > 100000 && out != d {
		v.fail("oracle", "NEW:path:long-data-not-passed-through", "path data over 100000 bytes was modified", "pass-through")
		return v
	}
	if !check(out, "ShortenPathData") {
		return v
	}
	if strings.ContainsAny(d, "<&\"") {
		return v
	}
	docOut, err, pan := runSVG(wrapPath(d), sopts{mode: "doc"})
	if pan != nil {
		v.fail("panic", "NEW:panic", fmt.Sprint(pan), "no panic")
		return v
	}
	if err != nil {
		v.fail("oracle", "NEW:minify-error", err.Error(), "no error")
		return v
	}
	do, pe := parseTree(docOut)
	if pe != nil {
		v.out = docOut
		v.fail("oracle", "NEW:illformed:"+pe.stage+":"+stableMsg(pe.err.Error()), "via document: output not well-formed: "+pe.Error(), "well-formed output")
		return v
	}
	got, found := "", false
	var walk func(n *node)
	walk = func(n *node) {
		if n.kind == 'e' && n.local == "path" {
			for _, a := range n.attrs {
				if a.local == "d" && a.prefix == "" {
					got, found = a.val, true
				}
			}
		}
		for _, k := range n.kids {
			walk(k)
		}
	}
	walk(do.root)
	if !found {
		v.out = docOut
		v.fail("oracle", "NEW:attr-dropped:plain", "via document: the d attribute disappeared", "d attribute kept")
		return v
	}
	if !check(got, "via document") {
		v.out = docOut
	}
	return v
}

// malformedCheck: panic and second-pass checks only.
func malformedCheck(input string, o sopts) verdict {
	v := verdict{reason: "malformed-stream(panic+second-pass-only)"}
	if o.mode == "path" {
		out, pan := runPath(input)
		v.out = out
		if pan != nil {
			v.fail("panic", "NEW:panic", fmt.Sprint(pan), "no panic on arbitrary bytes")
			return v
		}
		if _, pan = runPath(out); pan != nil {
			v.fail("panic", "NEW:second-pass-panic", fmt.Sprint(pan), "no panic on own output")
		}
		return v
	}
	out, err, pan := runSVG(input, o)
	v.out = out
	if pan != nil {
		v.fail("panic", "NEW:panic", fmt.Sprint(pan), "no panic on arbitrary bytes")
		return v
	}
	if err != nil {
		return v
	}
	_, err, pan = runSVG(out, o)
	if pan != nil {
		v.fail("panic", "NEW:second-pass-panic", fmt.Sprint(pan), "no panic on own output")
	} else if err != nil {
		sig := "NEW:second-pass-error"
		if reNulRef.MatchString(input) && strings.Contains(err.Error(), "NULL") {
			sig = knownSig["N06"]
		}
		v.fail("oracle", sig, err.Error(), "output of an error-free run minifies again without error")
	}
	return v
}
