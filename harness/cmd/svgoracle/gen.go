package main

import (
	"fmt"
	"sort"
	"strings"

	"golang.org/x/image/colornames"

	"verifharness/internal/vh"
)

// Grammar-directed generator of well-formed SVG documents. With known=false it does
// not produce the input shapes of the known defects (FINDINGS.md lists them).
type sgen struct {
	r      *vh.Rand
	known  bool
	hits   map[string]bool
	pg     *pgen
	ids    []string
	ents   map[string]string // entity name -> value kind
	avoid  []string
	hasInk bool
	hasXl  bool
}

func (g *sgen) hit(k string) { g.hits[k] = true }

var colourNames []string

func init() {
	for k := range colornames.Map {
		colourNames = append(colourNames, k)
	}
	sort.Strings(colourNames)
}

func (g *sgen) indent() string {
	return g.r.Pick("", "", "\n", "\n  ", " ", "\n\t", "\r\n  ", "  ")
}

func (g *sgen) number() string {
	for {
		var s string
		switch g.r.Intn(10) {
		case 0, 1, 2, 3:
			s = g.pg.num(int64(g.r.Intn(300)-20), 0)
		case 4, 5:
			s = g.pg.num(int64(g.r.Intn(4000)-200), 1+g.r.Intn(2))
		case 6:
			s = g.pg.num(int64(g.r.Intn(50))*100, 0)
		case 7:
			s = g.pg.num(0, g.r.Intn(3))
		case 8:
			s = g.r.Pick("1000", "0.0001", "1e3", "1.50E+2", "00100", "0.50", ".50", "+5", "-0.0", "1000000", "0.000001", "123456.789", "1e-3", "12.3400")
		default:
			s = g.pg.num(int64(g.r.Intn(100)), g.r.Intn(4))
		}
		if strings.HasSuffix(s, ".") || strings.Contains(s, ".e") || strings.Contains(s, ".E") {
			continue // not in the attribute number grammar
		}
		return s
	}
}

func (g *sgen) length() string {
	n := g.number()
	u := g.r.Pick("", "", "", "px", "px", "em", "ex", "pt", "pc", "cm", "mm", "in", "%")
	if u != "" {
		g.hit("value:length-unit-" + u)
	}
	return n + u
}

func (g *sgen) colour() string {
	switch g.r.Intn(12) {
	case 0, 1, 2:
		g.hit("value:colour-keyword")
		n := colourNames[g.r.Intn(len(colourNames))]
		if g.r.Chance(1, 8) {
			n = strings.ToUpper(n[:1]) + n[1:]
		}
		return n
	case 3, 4:
		g.hit("value:colour-hex6-of-keyword")
		c := colornames.Map[colourNames[g.r.Intn(len(colourNames))]]
		s := fmt.Sprintf("#%02x%02x%02x", c.R, c.G, c.B)
		if g.r.Chance(1, 4) {
			s = strings.ToUpper(s)
		}
		return s
	case 5:
		g.hit("value:colour-hex6-doubled")
		a, b, c := g.r.Intn(16), g.r.Intn(16), g.r.Intn(16)
		s := fmt.Sprintf("#%x%x%x%x%x%x", a, a, b, b, c, c)
		if g.r.Chance(1, 3) {
			s = strings.ToUpper(s)
		}
		return s
	case 6:
		g.hit("value:colour-hex6")
		return fmt.Sprintf("#%06x", g.r.Intn(1<<24))
	case 7:
		g.hit("value:colour-hex3")
		return fmt.Sprintf("#%03x", g.r.Intn(1<<12))
	case 8:
		g.hit("value:colour-rgb()")
		if g.r.Bool() {
			return fmt.Sprintf("rgb(%d,%s%d, %d)", g.r.Intn(256), g.r.Pick("", " "), g.r.Intn(256), g.r.Intn(256))
		}
		return fmt.Sprintf("rgb(%d%%,%d%%,%d%%)", g.r.Intn(101), g.r.Intn(101), g.r.Intn(101))
	case 9:
		return g.r.Pick("none", "currentColor", "inherit")
	case 10:
		if len(g.ids) > 0 {
			g.hit("value:paint-url")
			return "url(#" + g.ids[g.r.Intn(len(g.ids))] + ")" + g.r.Pick("", "", " none", " red")
		}
		return "none"
	default:
		return g.r.Pick("red", "#ff0000", "#f00", "#FF0000", "#F00", "black", "#000", "#000000", "white", "#ffffff", "#fff")
	}
}

func (g *sgen) newID() string {
	id := g.r.Pick("a", "g", "p", "grad", "clip", "id", "e", "x") + fmt.Sprint(len(g.ids)+1)
	if g.r.Chance(1, 4) {
		id = g.r.Pick("layer_", "path-", "A.", "e") + fmt.Sprint(1000+g.r.Intn(9000))
	}
	g.ids = append(g.ids, id)
	return id
}

func (g *sgen) styleDecls() string {
	var ds []string
	for i, n := 0, 1+g.r.Intn(4); i < n; i++ {
		var d string
		switch g.r.Intn(8) {
		case 0, 1:
			d = g.r.Pick("fill", "stroke", "stop-color") + g.colonWS() + g.r.Pick("red", "#ff0000", "#abc", "none", "blue", "rgb(1,2,3)")
		case 2:
			d = "stroke-width" + g.colonWS() + g.r.Pick("2", "2px", "1.5", "0.50", ".5em")
		case 3:
			d = g.r.Pick("opacity", "fill-opacity") + g.colonWS() + g.r.Pick("0.5", ".5", "1", "0.50")
		case 4:
			d = "font-family" + g.colonWS() + g.r.Pick("Arial", "serif", "Arial, sans-serif")
		case 5:
			d = "font-size" + g.colonWS() + g.r.Pick("12px", "10pt", "1.20em")
		case 6:
			d = "display" + g.colonWS() + g.r.Pick("none", "inline")
		default:
			d = "stroke-dasharray" + g.colonWS() + g.r.Pick("5,5", "5 5", "1.0 2.0")
		}
		ds = append(ds, d)
	}
	s := strings.Join(ds, g.r.Pick(";", "; ", " ; ", ";\n"))
	if g.r.Chance(1, 3) {
		s += ";"
	}
	return g.r.Pick("", "", " ") + s + g.r.Pick("", "", " ")
}

func (g *sgen) colonWS() string { return g.r.Pick(":", ":", ": ", " : ") }

func (g *sgen) viewBox() string {
	sep := g.r.Pick(" ", " ", ",", ", ", "  ", " , ")
	var ps []string
	for i := 0; i < 4; i++ {
		n := g.number()
		if i >= 2 {
			n = strings.TrimLeft(n, "-+")
		}
		ps = append(ps, n)
	}
	g.hit("value:viewBox")
	return g.r.Pick("", "", " ") + strings.Join(ps, sep) + g.r.Pick("", "", " ")
}

func (g *sgen) pointsList() string {
	var ps []string
	for i, n := 0, 2+g.r.Intn(4); i < n; i++ {
		ps = append(ps, g.number()+g.r.Pick(",", " ", ", ")+g.number())
	}
	return strings.Join(ps, g.r.Pick(" ", "  ", "\n", ", "))
}

func (g *sgen) transform() string {
	var ts []string
	for i, n := 0, 1+g.r.Intn(2); i < n; i++ {
		switch g.r.Intn(4) {
		case 0:
			ts = append(ts, "translate("+g.r.Pick("", " ")+g.number()+g.r.Pick(",", " ", " , ")+g.number()+g.r.Pick("", " ")+")")
		case 1:
			ts = append(ts, "scale("+g.number()+")")
		case 2:
			ts = append(ts, "rotate("+g.number()+" "+g.number()+" "+g.number()+")")
		default:
			ts = append(ts, "matrix(1 0 0 1 "+g.number()+" "+g.number()+")")
		}
	}
	return strings.Join(ts, g.r.Pick(" ", "", "  "))
}

// quote wraps an attribute value, escaping what has to be escaped; it varies quote
// kind and the way quote characters inside the value are written.
func (g *sgen) quote(v string) string {
	v = strings.ReplaceAll(v, "&", "&amp;")
	v = strings.ReplaceAll(v, "<", "&lt;")
	q := "\""
	if g.r.Chance(1, 4) {
		q = "'"
	}
	if q == "\"" {
		v = strings.ReplaceAll(v, "\"", g.r.Pick("&quot;", "&#34;"))
	} else {
		v = strings.ReplaceAll(v, "'", g.r.Pick("&apos;", "&#39;"))
	}
	return q + v + q
}

type attrSpec struct{ name, val string }

func (g *sgen) presentation(out *[]attrSpec) {
	for i, n := 0, g.r.Intn(4); i < n; i++ {
		switch g.r.Intn(12) {
		case 0, 1, 2:
			*out = append(*out, attrSpec{g.r.Pick("fill", "stroke", "color", "stop-color", "flood-color", "lighting-color"), g.colour()})
			g.hit("attr:colour")
		case 3, 4:
			*out = append(*out, attrSpec{g.r.Pick("stroke-width", "font-size", "stroke-dashoffset", "letter-spacing"), g.length()})
			g.hit("attr:length")
		case 5:
			*out = append(*out, attrSpec{g.r.Pick("opacity", "fill-opacity", "stroke-opacity", "stroke-miterlimit", "stop-opacity"), g.number()})
			g.hit("attr:number")
		case 6:
			*out = append(*out, attrSpec{"style", g.styleDecls()})
			g.hit("attr:style")
		case 7:
			*out = append(*out, attrSpec{"transform", g.transform()})
			g.hit("attr:transform")
		case 8:
			*out = append(*out, attrSpec{"class", g.r.Pick("a", "a b", "cls-1 cls-2", "st0")})
			g.hit("attr:class")
		case 9:
			*out = append(*out, attrSpec{"stroke-dasharray", g.r.Pick("5,5", "5 5", "5.0 5.0", "1.50", "10", "1e1 2")})
			g.hit("attr:number-list")
		case 10:
			*out = append(*out, attrSpec{g.r.Pick("font-family", "data-name", "fill-rule", "stroke-linecap", "display"), g.r.Pick("Arial", "serif", "'Open Sans'", "evenodd", "round", "none", "a&b", "x<y", "say \"hi\"", "it's")})
			g.hit("attr:keyword-or-string")
		default:
			*out = append(*out, attrSpec{"id", g.newID()})
			g.hit("attr:id")
		}
	}
	if g.hasInk && g.r.Chance(1, 6) {
		*out = append(*out, attrSpec{g.r.Pick("inkscape:label", "sodipodi:nodetypes", "inkscape:connector-curvature"), g.r.Pick("Layer 1", "cc", "0", "x  y")})
		g.hit("attr:foreign-namespace")
	}
	// character references to markup characters in attribute values: repaired in /repo (K63), generated unconditionally
	if g.r.Chance(1, 14) {
		*out = append(*out, attrSpec{g.r.Pick("data-x", "title"), "\x00RAW" + g.r.Pick("&#60;", "&#38; x", "&#x3c;b", "a&#x26;")})
		g.hit("charref-to-markup")
	}
	if g.r.Chance(1, 12) { // (K26 repaired: name-like attributes whose value looks like a number are part of the default stream)
		*out = append(*out, attrSpec{g.r.Pick("id", "class", "unicode", "glyph-name", "data-x", "aria-level", "lang", "name"), g.r.Pick("1000", "0050", "0100", "1.0", "007", "+5", "10px", "1e3")})
		g.hit("numeric-looking-name-attribute")
	}
	if g.r.Chance(1, 14) { // (K131 repaired: attributes in the xml namespace are kept; xml:space="preserve" stays K25)
		*out = append(*out, attrSpec{g.r.Pick("xml:lang", "xml:id", "xml:base"), g.r.Pick("en", "de-CH", "x1", "base/")})
		g.hit("xml-attribute")
	}
	if g.known {
		switch g.r.Intn(14) {
		case 0:
			*out = append(*out, attrSpec{g.r.Pick("xml:space", "xml:lang", "xml:id"), g.r.Pick("preserve", "default", "en")})
			g.hit("known:xml-attribute")
		case 1:
			*out = append(*out, attrSpec{g.r.Pick("id", "class", "unicode", "glyph-name", "data-x"), g.r.Pick("1000", "0050", "0100", "1.0", "007", "+5", "10px", "1e3")})
			g.hit("known:numeric-looking-non-numeric")
		case 2:
			*out = append(*out, attrSpec{g.r.Pick("unicode", "onclick", "data-x", "font-family", "id"), g.r.Pick(" ", "f('a  b')", "a  b", "'Foo  Bar'", " p ", "a\n b")})
			g.hit("known:whitespace-significant-value")
		case 3:
			*out = append(*out, attrSpec{g.r.Pick("data-x", "title"), "\x00RAW" + g.r.Pick("&#60;", "&#38; x", "&#x3c;b", "a&#x26;")})
			g.hit("known:charref-to-markup")
		}
	}
}

func (g *sgen) writeAttrs(sb *strings.Builder, as []attrSpec) {
	seen := map[string]bool{}
	for _, a := range as {
		if seen[a.name] {
			continue
		}
		seen[a.name] = true
		sb.WriteString(g.r.Pick(" ", " ", " ", "  ", "\n", "\t"))
		sb.WriteString(a.name)
		sb.WriteString(g.r.Pick("=", "=", "=", " = ", "= "))
		if strings.HasPrefix(a.val, "\x00RAW") {
			sb.WriteString("\"" + a.val[4:] + "\"")
		} else {
			sb.WriteString(g.quote(a.val))
		}
	}
}

func (g *sgen) geom(names ...string) []attrSpec {
	var out []attrSpec
	for _, n := range names {
		if g.r.Chance(4, 5) {
			out = append(out, attrSpec{n, g.length()})
			g.hit("attr:length")
		}
	}
	return out
}

func (g *sgen) pathData() string {
	d, av := genPath(g.r, g.known, g.hits)
	g.avoid = append(g.avoid, av...)
	g.hit("attr:d")
	if g.r.Chance(1, 6) {
		d = strings.ReplaceAll(d, " ", g.r.Pick("\n", "\t", "  ", " "))
	}
	return d
}

func (g *sgen) word() string {
	return g.r.Pick("Hello", "world", "a", "b", "x1", "é", "日本", "&amp;", "&lt;", "&gt;", "&#65;", "&#xE9;", "&quot;", "1", "-", "a b", "&#160;", "it's", ">")
}

// textRun: words separated by single or multiple white space; no white space at the edges.
func (g *sgen) textRun() string {
	var ws []string
	for i, n := 0, 1+g.r.Intn(4); i < n; i++ {
		ws = append(ws, g.word())
	}
	s := ws[0]
	for _, w := range ws[1:] {
		s += g.r.Pick(" ", " ", "  ", "\n", " \n ", "\t") + w
	}
	g.hit("text:words")
	for strings.Contains(s, "]]>") {
		s = strings.Replace(s, "]]>", "]] >", 1)
	}
	return s
}

func (g *sgen) comment() string {
	g.hit("comment")
	return "<!--" + g.r.Pick("", " c ", " Generator: Adobe Illustrator ", " <g> ", " & ", "a - b") + "-->"
}

// textContent: content of text / tspan. In default mode white space never touches
// markup inside the rendered text (N08), only the two outer edges of the element.
func (g *sgen) textContent(depth int, outer bool) string {
	var sb strings.Builder
	edge := func() {
		_ = outer // (N08 = K64 repaired: white space may touch markup inside the rendered text)
		sb.WriteString(g.r.Pick("", "", " ", "\n  ", "  "))
	}
	edge()
	n := 1 + g.r.Intn(4)
	prevText := false
	for i := 0; i < n; i++ {
		k := g.r.Intn(10)
		if prevText && k < 5 {
			k = 5 + g.r.Intn(5)
		}
		switch {
		case k < 5:
			sb.WriteString(g.textRun())
			prevText = true
			continue
		case k < 7 && depth > 0:
			var as []attrSpec
			if g.r.Bool() {
				as = append(as, attrSpec{g.r.Pick("dx", "dy", "x", "y"), g.length()})
			}
			g.presentation(&as)
			name := g.r.Pick("tspan", "tspan", "a", "textPath")
			if name == "a" || name == "textPath" {
				as = append(as, attrSpec{"href", "#" + g.r.Pick("p1", "a1")})
			}
			sb.WriteString("<" + name)
			g.writeAttrs(&sb, as)
			sb.WriteString(">" + g.textContent(depth-1, false) + "</" + name + ">")
			g.hit("element:" + name)
		case k < 8:
			sb.WriteString(g.comment())
		case k < 9:
			c := g.r.Pick("a < b", "x&y", "cdata", "1 <2", "<<<<<<<<", "é")
			c = g.r.Pick(" ", "", "") + c + g.r.Pick(" ", "", "")
			sb.WriteString("<![CDATA[" + c + "]]>")
			g.hit("cdata:in-text")
		default:
			if g.known {
				sb.WriteString(g.r.Pick(" ", "\n", "]]&gt;", "&#60;", "&#38; ", " &#x3C;"))
				g.hit("known:text-specials")
			} else if g.r.Chance(1, 4) {
				sb.WriteString(g.r.Pick("&#60;", "&#38; ", " &#x3C;", "a&#38;b")) // references to markup characters in text (K63, repaired)
				g.hit("text:charref-to-markup")
			} else {
				sb.WriteString(g.word())
			}
		}
		prevText = false
		if g.known && g.r.Chance(1, 2) {
			sb.WriteString(g.r.Pick(" ", "\n "))
		}
	}
	edge()
	return sb.String()
}

func (g *sgen) cssText() string {
	var rules []string
	for i, n := 0, 1+g.r.Intn(3); i < n; i++ {
		sel := g.r.Pick(".a", "rect", "#p1", ".cls-1", "g > rect", "text, tspan", "circle.b")
		rules = append(rules, sel+g.r.Pick("{", " {", " { ")+strings.TrimSpace(g.styleDecls())+g.r.Pick("}", " }", ";}"))
	}
	return strings.Join(rules, g.r.Pick("", " ", "\n", "\n  "))
}

func (g *sgen) foreignObjectContent(depth int) string {
	var sb strings.Builder
	sb.WriteString(g.r.Pick("", " ", "\n  "))
	sb.WriteString(`<div xmlns="http://www.w3.org/1999/xhtml"`)
	if g.r.Bool() {
		v := g.r.Pick("a", "a b", "x&amp;y", "it's", "1 &lt; 2", "0050", "1000")
		if g.known {
			v = g.r.Pick("a  b", " a", "a ", "&quot;q", "a&gt;b", "a&#65;", "x\n y", "&apos;")
			g.hit("known:foreignobject-attr")
		}
		sb.WriteString(` ` + g.r.Pick("class", "title", "style", "data-x") + `="` + v + `"`)
	}
	sb.WriteString(">")
	for i, n := 0, 1+g.r.Intn(3); i < n; i++ {
		switch g.r.Intn(5) {
		case 0, 1:
			sb.WriteString(g.r.Pick(" ", "", "\n") + g.textRun() + g.r.Pick(" ", "", "  "))
		case 2:
			sb.WriteString("<b>" + g.r.Pick(" bold ", "b", "") + "</b>")
		case 3:
			sb.WriteString(g.comment())
		case 4:
			if depth > 0 {
				sb.WriteString(`<svg xmlns="http://www.w3.org/2000/svg" x="0" version="1.1"><rect width="10.0" fill="#ff0000"/></svg>`)
				g.hit("foreignObject:nested-svg")
			} else {
				sb.WriteString("<br/>")
			}
		}
	}
	sb.WriteString("</div>" + g.r.Pick("", " ", "\n"))
	return sb.String()
}

func (g *sgen) element(depth int) string {
	var sb strings.Builder
	var as []attrSpec
	kinds := []string{"rect", "rect", "circle", "ellipse", "line", "polyline", "polygon", "path", "path", "path", "use", "image", "text", "text", "title", "desc",
		"style", "script", "metadata", "foreign", "foreignObject", "g", "g", "g", "defs", "defs", "svg", "linearGradient", "filter", "glyph", "emptydefs"}
	k := g.r.Pick(kinds...)
	if depth <= 0 && (k == "g" || k == "defs" || k == "svg" || k == "foreign") {
		k = "rect"
	}
	g.hit("element:" + k)
	open := func(name string) {
		sb.WriteString("<" + name)
		g.writeAttrs(&sb, as)
	}
	void := func(name string) string {
		open(name)
		if g.r.Chance(1, 4) {
			sb.WriteString(g.r.Pick(">", " >") + g.r.Pick("", " ", "\n") + "</" + name + g.r.Pick("", " ") + ">")
		} else {
			sb.WriteString(g.r.Pick("/>", " />"))
		}
		return sb.String()
	}
	switch k {
	case "rect":
		as = g.geom("x", "y", "width", "height", "rx", "ry")
		g.presentation(&as)
		return void("rect")
	case "circle":
		as = g.geom("cx", "cy", "r")
		g.presentation(&as)
		return void("circle")
	case "ellipse":
		as = g.geom("cx", "cy", "rx", "ry")
		g.presentation(&as)
		return void("ellipse")
	case "line":
		as = g.geom("x1", "y1", "x2", "y2")
		g.presentation(&as)
		return void("line")
	case "polyline", "polygon":
		as = append(as, attrSpec{"points", g.pointsList()})
		g.hit("attr:points")
		g.presentation(&as)
		return void(k)
	case "path", "glyph":
		as = append(as, attrSpec{"d", g.pathData()})
		if k == "glyph" {
			as = append(as, attrSpec{"unicode", g.r.Pick("A", "b", "é", "fi")}, attrSpec{"horiz-adv-x", g.number()})
		}
		g.presentation(&as)
		return void(k)
	case "use", "image":
		as = g.geom("x", "y", "width", "height")
		h := "href"
		if g.hasXl && g.r.Bool() { // (K131 repaired: xlink:href is kept; only with the prefix declared on the root)
			h = "xlink:href"
			g.hit("xlink-href")
		}
		as = append(as, attrSpec{h, g.r.Pick("#a1", "#p1", "img.png", "a.svg#x", "data:image/png;base64,AAAA", "x?a=1&b=2")})
		g.presentation(&as)
		return void(k)
	case "text":
		as = g.geom("x", "y")
		g.presentation(&as)
		open("text")
		sb.WriteString(">" + g.textContent(2, true) + "</text>")
		return sb.String()
	case "title", "desc":
		open(k)
		sb.WriteString(">" + g.r.Pick("", " ", "\n  ") + g.textRun() + g.r.Pick("", " ", "\n") + "</" + k + ">")
		return sb.String()
	case "style":
		if g.r.Chance(2, 3) {
			as = append(as, attrSpec{"type", g.r.Pick("text/css", "text/css", " text/css")})
		}
		open("style")
		css := g.cssText()
		switch g.r.Intn(3) {
		case 0:
			sb.WriteString(">" + g.r.Pick("", "\n", " ") + strings.ReplaceAll(css, ">", g.r.Pick(">", "&gt;")) + g.r.Pick("", "\n") + "</style>")
		case 1:
			sb.WriteString("><![CDATA[" + g.r.Pick("", "\n", " ") + css + g.r.Pick("", "\n") + "]]></style>")
			g.hit("cdata:style")
		default:
			sb.WriteString("><![CDATA[" + css + " /* <<<< && <<<< */]]></style>")
			g.hit("cdata:kept")
		}
		return sb.String()
	case "script":
		as = append(as, attrSpec{"type", g.r.Pick("text/ecmascript", "application/ecmascript", "text/javascript")})
		open("script")
		if g.r.Bool() {
			sb.WriteString("><![CDATA[" + g.r.Pick(" ", "\n", "") + g.r.Pick("if (a < b && c) { f(); }", "var x = 1;", "f(a<b);\n g();", "a<b<c<d<e<f&&g&&h") + g.r.Pick(" ", "\n", "") + "]]></script>")
			g.hit("cdata:script")
		} else {
			sb.WriteString(">" + g.r.Pick("var x = 1;", " f(); ", "a &lt; b", "") + "</script>")
		}
		return sb.String()
	case "metadata":
		g.presentation(&as)
		open("metadata")
		switch g.r.Intn(4) {
		case 0:
			sb.WriteString("/>")
		case 1:
			sb.WriteString(">" + g.textRun() + "</metadata>")
		default:
			sb.WriteString(">" + g.indent() + `<rdf:RDF xmlns:rdf="http://www.w3.org/1999/02/22-rdf-syntax-ns#"><cc:Work xmlns:cc="http://creativecommons.org/ns#" rdf:about=""><dc:format xmlns:dc="http://purl.org/dc/elements/1.1/">image/svg+xml</dc:format><g/>` + g.r.Pick("", g.comment(), "<![CDATA[ x ]]>") + `</cc:Work></rdf:RDF>` + g.indent() + "</metadata>")
		}
		return sb.String()
	case "foreign":
		if !g.hasInk {
			return g.comment()
		}
		name := g.r.Pick("sodipodi:namedview", "inkscape:perspective", "inkscape:grid")
		as = append(as, attrSpec{"id", g.newID()}, attrSpec{g.r.Pick("pagecolor", "inkscape:zoom", "units"), g.r.Pick("#ffffff", "1.5", "px")})
		open(name)
		if g.r.Bool() {
			sb.WriteString("/>")
		} else {
			sb.WriteString(">" + g.indent() + g.r.Pick(`<inkscape:grid type="xygrid"/>`, `<rect width="1.0"/>`, "text", g.comment(), `<g><path d="M0 0L1 1"/></g>`) + g.indent() + "</" + name + ">")
		}
		return sb.String()
	case "foreignObject":
		as = g.geom("x", "y", "width", "height")
		open("foreignObject")
		if g.r.Chance(1, 6) {
			sb.WriteString("/>")
		} else {
			sb.WriteString(">" + g.foreignObjectContent(depth) + "</foreignObject>")
		}
		return sb.String()
	case "emptydefs":
		if g.r.Bool() {
			as = append(as, attrSpec{"id", g.newID()})
		}
		open("defs")
		sb.WriteString(g.r.Pick("/>", "></defs>", "> </defs>", " />"))
		return sb.String()
	case "linearGradient":
		as = append(as, attrSpec{"id", g.newID()})
		as = append(as, g.geom("x1", "y1", "x2", "y2")...)
		if g.r.Bool() {
			as = append(as, attrSpec{"gradientTransform", g.transform()})
		}
		open("linearGradient")
		sb.WriteString(">")
		for i, n := 0, 1+g.r.Intn(3); i < n; i++ {
			sb.WriteString(g.indent() + "<stop")
			g.writeAttrs(&sb, []attrSpec{{"offset", g.r.Pick("0", "0%", "50%", "100%", "100.0%", "0.5", ".50", "1")}, {"stop-color", g.colour()}, {"stop-opacity", g.number()}})
			sb.WriteString("/>")
		}
		sb.WriteString(g.indent() + "</linearGradient>")
		return sb.String()
	case "filter":
		as = append(as, attrSpec{"id", g.newID()})
		open("filter")
		sb.WriteString("><feGaussianBlur")
		g.writeAttrs(&sb, []attrSpec{{"stdDeviation", g.r.Pick("2", "2.0", "1.50 2.50", "0.0")}, {"in", "SourceGraphic"}})
		sb.WriteString("/><feFlood")
		g.writeAttrs(&sb, []attrSpec{{"flood-color", g.colour()}, {"flood-opacity", g.number()}})
		sb.WriteString("/></filter>")
		return sb.String()
	case "svg":
		as = g.geom("x", "y", "width", "height")
		if g.r.Bool() {
			as = append(as, attrSpec{g.r.Pick("x", "y"), g.r.Pick("0", "0px", "0.0", "0%")})
		}
		if g.r.Bool() {
			as = append(as, attrSpec{"viewBox", g.viewBox()})
		}
		g.presentation(&as)
		open("svg")
		sb.WriteString(">" + g.children(depth-1) + "</svg>")
		return sb.String()
	default: // g, defs
		name := k
		if g.r.Chance(1, 3) || name == "defs" {
			as = append(as, attrSpec{"id", g.newID()})
		}
		g.presentation(&as)
		open(name)
		sb.WriteString(g.r.Pick(">", " >") + g.children(depth-1) + "</" + name + g.r.Pick("", " ") + ">")
		return sb.String()
	}
}

func (g *sgen) children(depth int) string {
	var sb strings.Builder
	n := g.r.Intn(5)
	for i := 0; i < n; i++ {
		sb.WriteString(g.indent())
		switch g.r.Intn(10) {
		case 0:
			sb.WriteString(g.comment())
		default:
			sb.WriteString(g.element(depth))
		}
	}
	sb.WriteString(g.indent())
	return sb.String()
}

func (g *sgen) doc() string {
	var sb strings.Builder
	g.pg = &pgen{r: g.r, known: false, hits: g.hits}
	if g.r.Chance(1, 2) {
		q := g.r.Pick("\"", "'")
		sb.WriteString("<?xml version=" + q + "1.0" + q + g.r.Pick("", " encoding="+q+"UTF-8"+q, " encoding="+q+"utf-8"+q+" standalone="+q+"no"+q) + "?>" + g.r.Pick("", "\n"))
		g.hit("xml-declaration")
	}
	if g.r.Chance(1, 4) {
		sb.WriteString(g.comment() + g.r.Pick("", "\n"))
	}
	if g.known && g.r.Chance(1, 6) {
		sb.WriteString(`<?xml-stylesheet href="s.css" type="text/css"?>`)
		g.hit("known:xml-stylesheet")
	} else if g.r.Chance(1, 10) {
		sb.WriteString(`<?app a="1"?>`)
		g.hit("pi:other")
	}
	entFill, entNum := "", ""
	switch g.r.Intn(8) {
	case 0, 1:
		sb.WriteString(`<!DOCTYPE svg PUBLIC "-//W3C//DTD SVG 1.1//EN"` + g.r.Pick(" ", "\n  ") + `"http://www.w3.org/Graphics/SVG/1.1/DTD/svg11.dtd">` + g.r.Pick("", "\n"))
		g.hit("doctype:public")
	case 2:
		end := "]>"
		if g.r.Chance(1, 3) { // (K69 repaired: white space before the closing angle bracket)
			end = g.r.Pick("] >", "]\n>")
			g.hit("doctype-space-before-gt")
		}
		sb.WriteString(`<!DOCTYPE svg [` + g.r.Pick("", "\n ") + `<!ENTITY c "red">` + g.r.Pick("", " ") + `<!ENTITY w '10.0'>` + g.r.Pick("", "<!-- c -->", "\n") + end)
		entFill, entNum = "&c;", "&w;"
		g.hit("doctype:internal-subset")
	}
	prefixRoot := g.r.Chance(1, 12) // (K66 repaired: the svg: prefix on elements)
	name := "svg"
	var as []attrSpec
	if prefixRoot {
		name = "svg:svg"
		as = append(as, attrSpec{"xmlns:svg", svgNS})
		if g.r.Chance(1, 3) {
			as = append(as, attrSpec{"xmlns", svgNS})
		}
		g.hit("svg-prefix")
	} else if g.r.Chance(6, 7) {
		as = append(as, attrSpec{"xmlns", svgNS})
	}
	if g.r.Bool() {
		as = append(as, attrSpec{"xmlns:xlink", xlinkNS})
		g.hasXl = true
	}
	if g.r.Chance(2, 5) {
		as = append(as, attrSpec{"xmlns:inkscape", "http://www.inkscape.org/namespaces/inkscape"}, attrSpec{"xmlns:sodipodi", "http://sodipodi.sourceforge.net/DTD/sodipodi-0.dtd"})
		g.hasInk = true
	}
	if g.r.Chance(2, 3) {
		as = append(as, attrSpec{"version", g.r.Pick("1.1", "1.1", "1.0", "1.2", " 1.1")})
		g.hit("root:version")
	}
	if g.r.Chance(1, 2) {
		as = append(as, attrSpec{"x", g.r.Pick("0", "0px", "0.0", "0%", "5", "00")}, attrSpec{"y", g.r.Pick("0", "0px", "-0", "1.0", "0em")})
		g.hit("root:x-y")
	}
	as = append(as, g.geom("width", "height")...)
	if g.r.Chance(2, 3) {
		as = append(as, attrSpec{"viewBox", g.viewBox()})
	}
	if g.r.Chance(1, 3) {
		as = append(as, attrSpec{"preserveAspectRatio", g.r.Pick("xMidYMid meet", "xMidYMid meet", "xMidYMid  meet", "xMinYMin slice", "none", "xMidYMid")})
		g.hit("root:preserveAspectRatio")
	}
	if g.r.Chance(1, 4) {
		as = append(as, attrSpec{"baseProfile", g.r.Pick("none", "full", "tiny", "basic")})
		g.hit("root:baseProfile")
	}
	if g.r.Chance(1, 5) {
		as = append(as, attrSpec{"contentScriptType", g.r.Pick("application/ecmascript", "text/ecmascript", "text/javascript")})
		g.hit("root:contentScriptType")
	}
	if g.r.Chance(1, 5) {
		as = append(as, attrSpec{"contentStyleType", "text/css"})
		g.hit("root:contentStyleType")
	}
	if entFill != "" && g.r.Bool() {
		as = append(as, attrSpec{"fill", "\x00RAW" + entFill}, attrSpec{"stroke-width", "\x00RAW" + entNum})
		g.hit("attr:entity-reference")
	}
	g.presentation(&as)
	// shuffle
	for i := len(as) - 1; i > 0; i-- {
		j := g.r.Intn(i + 1)
		as[i], as[j] = as[j], as[i]
	}
	sb.WriteString("<" + name)
	g.writeAttrs(&sb, as)
	if g.r.Chance(1, 25) {
		sb.WriteString("/>")
	} else {
		depth := 1 + g.r.Intn(3)
		body := g.children(depth)
		if prefixRoot {
			body = g.r.Pick("<svg:g><svg:rect/></svg:g>", "<svg:rect width=\"1\"></svg:rect>", "<svg:g/>")
		}
		sb.WriteString(">" + body + "</" + name + ">")
	}
	sb.WriteString(g.r.Pick("", "\n", " "))
	if g.r.Chance(1, 10) {
		sb.WriteString(g.comment())
	}
	return sb.String()
}

const mutChars = "<>&\"'=/?![]- \x00\t\nx;#MmZzLlCcSsQqTtAa0123456789.eE+,"

func mutate(r *vh.Rand, s string) string {
	b := []byte(s)
	for k, n := 0, 1+r.Intn(3); k < n && len(b) > 0; k++ {
		i := r.Intn(len(b))
		switch r.Intn(6) {
		case 0:
			b = b[:i]
		case 1:
			b = append(b[:i], b[i+1:]...)
		case 2:
			b[i] = mutChars[r.Intn(len(mutChars))]
		case 3:
			j := i + r.Intn(len(b)-i)
			b = append(b[:i], b[j:]...)
		case 4:
			ins := r.Pick("<", ">", "&", "<![CDATA[", "]]>", "<!--", "-->", "<?", "?>", "\"", "'", "</", "/>", "<!DOCTYPE", "\x00", "&#", "<foreignObject>", "</foreignObject>", "<metadata>", "<defs", " d=\"", "e", ".", "-", "z", "a1 1 0 0")
			b = append(b[:i], append([]byte(ins), b[i:]...)...)
		case 5:
			j := i + r.Intn(len(b)-i)
			b = append(b[:j], append(append([]byte{}, b[i:j]...), b[j:]...)...)
		}
	}
	return string(b)
}
