// Command svgoracle searches for violations of property C05 (svg.Minify keeps what is
// rendered) with two independent oracles: a path-data interpreter written from SVG 1.1
// section 8.3 and an encoding/xml tree comparison with typed attribute values.
// See FINDINGS.md.
package main

import (
	"encoding/json"
	"flag"
	"fmt"
	"hash/fnv"
	"os"
	"path/filepath"
	"runtime"
	"sort"
	"strconv"
	"strings"
	"sync"
	"unicode/utf8"

	"verifharness/internal/vh"
)

// quickN: about 14 CPU-seconds, i.e. 1-2 s wall on 16 idle cores and still under 10 s
// when the machine is shared three ways.
const quickN = 60000

type caseOut struct {
	malformed bool
	input     string
	size      int
	o         sopts
	v         verdict
	hits      map[string]bool
	avoided   []string
	hash      uint64
}

func printable(s string) string {
	if utf8.ValidString(s) {
		ok := true
		for _, r := range s {
			if r < 0x20 && r != '\n' && r != '\t' || r == 0x7f {
				ok = false
				break
			}
		}
		if ok {
			return s
		}
	}
	return strconv.Quote(s)
}

func clip(s string, n int) string {
	if len(s) > n {
		return s[:n] + fmt.Sprintf("...(%d bytes)", len(s))
	}
	return s
}

func hashCase(s string, o sopts) uint64 {
	h := fnv.New64a()
	h.Write([]byte(s))
	fmt.Fprintf(h, "|%s|%s|%v|%v", o.mode, o.inlineVia, o.keepComments, o.css)
	return h.Sum64()
}

func eval(input string, o sopts) verdict {
	if o.mode == "path" {
		return evaluatePath(input)
	}
	return evaluateDoc(input, o)
}

func runCase(seed uint64, known bool) caseOut {
	r := vh.NewRand(seed)
	c := caseOut{hits: map[string]bool{}}
	c.malformed = r.Chance(1, 10)
	if r.Chance(1, 2) {
		c.o = sopts{mode: "path"}
		if !c.malformed && r.Chance(1, 4000) {
			c.input = hugePath(r)
			c.hits["path:over-100000-bytes"] = true
		} else {
			c.input, c.avoided = genPath(r, known, c.hits)
		}
	} else {
		c.o = sopts{mode: "doc", keepComments: r.Chance(1, 3), css: r.Chance(1, 3)}
		if r.Chance(1, 3) {
			c.o.mode = "inline"
			c.o.inlineVia = r.Pick("params", "field")
		}
		g := &sgen{r: r.Fork(), known: known, hits: c.hits}
		c.input = g.doc()
		c.avoided = g.avoid
	}
	if c.malformed {
		doc := c.input
		c.input = mutate(r, doc)
		for try := 0; !known && reNulRef.MatchString(c.input) && try < 20; try++ {
			c.avoided = append(c.avoided, "N06")
			c.input = mutate(r, doc)
		}
		if !known && reNulRef.MatchString(c.input) {
			c.input = doc
		}
		c.v = malformedCheck(c.input, c.o)
	} else {
		c.v = eval(c.input, c.o)
	}
	c.hash = hashCase(c.input, c.o)
	c.size = len(c.input)
	return c
}

func sizeBucket(n int) string {
	switch {
	case n < 32:
		return "<32"
	case n < 128:
		return "32-127"
	case n < 512:
		return "128-511"
	case n < 2048:
		return "512-2047"
	}
	return ">=2048"
}

func ddmin(data []byte, test func([]byte) bool) []byte {
	n := 2
	for len(data) >= 2 {
		chunk := (len(data) + n - 1) / n
		reduced := false
		for i := 0; i < len(data); i += chunk {
			j := i + chunk
			if j > len(data) {
				j = len(data)
			}
			cand := append(append([]byte{}, data[:i]...), data[j:]...)
			if test(cand) {
				data = cand
				if n > 2 {
					n--
				}
				reduced = true
				break
			}
		}
		if !reduced {
			if n >= len(data) {
				break
			}
			n *= 2
			if n > len(data) {
				n = len(data)
			}
		}
	}
	return data
}

// chunks splits an input into tokens for the first, coarse ddmin pass: markup at tag
// boundaries, path data before every command letter.
func chunks(s string, path bool) []string {
	var out []string
	start := 0
	for i := 0; i < len(s); i++ {
		c := s[i]
		cut := false
		if path {
			cut = i > start && (c >= 'A' && c <= 'Z' || c >= 'a' && c <= 'z') && c != 'e' && c != 'E'
		} else {
			cut = i > start && (c == '<' || s[i-1] == '>')
		}
		if cut {
			out = append(out, s[start:i])
			start = i
		}
	}
	return append(out, s[start:])
}

func ddminChunks(cs []string, test func([]byte) bool) []string {
	n := 2
	join := func(x []string) []byte { return []byte(strings.Join(x, "")) }
	for len(cs) >= 2 {
		chunk := (len(cs) + n - 1) / n
		reduced := false
		for i := 0; i < len(cs); i += chunk {
			j := i + chunk
			if j > len(cs) {
				j = len(cs)
			}
			cand := append(append([]string{}, cs[:i]...), cs[j:]...)
			if test(join(cand)) {
				cs = cand
				if n > 2 {
					n--
				}
				reduced = true
				break
			}
		}
		if !reduced {
			if n >= len(cs) {
				break
			}
			n *= 2
			if n > len(cs) {
				n = len(cs)
			}
		}
	}
	return cs
}

func shrink(c caseOut) caseOut {
	if len(c.input) > 20000 {
		return c
	}
	sig := c.v.sig
	test := func(b []byte) bool {
		if c.malformed {
			return malformedCheck(string(b), c.o).sig == sig
		}
		v := eval(string(b), c.o)
		return v.judged && v.sig == sig
	}
	coarse := strings.Join(ddminChunks(chunks(c.input, c.o.mode == "path"), test), "")
	small := ddmin([]byte(coarse), test)
	small = ddmin(small, test)
	s := c
	s.input = string(small)
	if c.malformed {
		s.v = malformedCheck(s.input, c.o)
	} else {
		s.v = eval(s.input, c.o)
	}
	return s
}

func toViolation(c caseOut, idx int) vh.Violation {
	return vh.Violation{
		Kind: c.v.kind, Signature: c.v.sig, Input: clip(printable(c.input), 4000), InputHex: vh.Hex([]byte(clip(c.input, 20000))),
		Options: c.o.asMap(), Observed: clip(printable(c.v.out), 2000), Expected: c.v.expected, Detail: clip(c.v.detail, 1500), Case: idx,
	}
}

type witness struct {
	Input    string            `json:"input"`
	InputHex string            `json:"input_hex"`
	Options  map[string]string `json:"options"`
	Mode     string            `json:"mode"`
}

func main() {
	seed := flag.Uint64("seed", 1, "seed")
	n := flag.Int("n", 0, "number of cases (default: by tier)")
	out := flag.String("out", "", "output directory")
	tier := flag.String("tier", "quick", "quick|thorough")
	wit := flag.String("witness", "", "evaluate exactly the case in this JSON file")
	known := flag.Bool("known", false, "also generate the input shapes of known defects")
	flag.Parse()
	if *out == "" {
		fmt.Fprintln(os.Stderr, "svgoracle: -out DIR is required")
		os.Exit(2)
	}
	if err := os.MkdirAll(*out, 0o755); err != nil {
		fmt.Fprintln(os.Stderr, "svgoracle:", err)
		os.Exit(2)
	}
	res := &vh.Result{Engine: "svgoracle", Seed: *seed, Tier: *tier,
		Rule: "evaluations = valid path data judged by the SVG 1.1 path interpreter (directly and through a document) plus well-formed SVG documents judged by the encoding/xml tree comparison; distinct_nontrivial = distinct (input, mode, options) hashes among them whose minified output differs from the input"}

	if *wit != "" {
		b, err := os.ReadFile(*wit)
		if err != nil {
			fmt.Fprintln(os.Stderr, "svgoracle:", err)
			os.Exit(2)
		}
		var w witness
		if err := json.Unmarshal(b, &w); err != nil {
			fmt.Fprintln(os.Stderr, "svgoracle: bad witness:", err)
			os.Exit(2)
		}
		if w.Input == "" && w.InputHex != "" {
			w.Input = string(vh.Unhex(w.InputHex))
		}
		o := sopts{mode: w.Mode, keepComments: w.Options["KeepComments"] == "true", css: w.Options["css"] == "true", inlineVia: w.Options["inline_via"]}
		if o.mode == "" {
			o.mode = w.Options["mode"]
		}
		if o.mode == "" {
			o.mode = "doc"
		}
		if o.mode == "inline" && o.inlineVia == "" {
			o.inlineVia = "params"
		}
		var v verdict
		if w.Options["stream"] == "malformed" {
			v = malformedCheck(w.Input, o)
		} else {
			v = eval(w.Input, o)
		}
		res.Tier = "witness"
		res.Hist("mode", o.mode)
		if v.judged {
			res.Evaluations = 1
			if v.nontrivial {
				res.DistinctNontrivial = 1
			}
		} else {
			res.NotJudged = 1
			res.Hist("not_judged", v.reason)
		}
		res.Samples = append(res.Samples, map[string]interface{}{"input": clip(printable(w.Input), 4000), "options": o.asMap(), "output": clip(printable(v.out), 4000), "judged": v.judged})
		if v.sig != "" {
			res.Violations = append(res.Violations, toViolation(caseOut{input: w.Input, o: o, v: v}, 0))
		}
		if err := res.Write(filepath.Join(*out, "result.json")); err != nil {
			fmt.Fprintln(os.Stderr, "svgoracle:", err)
			os.Exit(2)
		}
		return
	}

	if *n <= 0 {
		*n = quickN
		if *tier == "thorough" {
			*n = 10 * quickN
		}
	}
	// Fork first: vh.NewRand(k) and vh.NewRand(k+1) are the same splitmix stream shifted
	// by one draw, so consecutive seeds would otherwise share all but one case.
	master := vh.NewRand(*seed).Fork()
	seeds := make([]uint64, *n)
	for i := range seeds {
		seeds[i] = master.Uint64()
	}
	outs := make([]caseOut, *n)
	var wg sync.WaitGroup
	workers := runtime.GOMAXPROCS(0)
	next := make(chan int, 1024)
	for w := 0; w < workers; w++ {
		wg.Add(1)
		go func() {
			defer wg.Done()
			for i := range next {
				outs[i] = runCase(seeds[i], *known)
				if outs[i].v.sig == "" {
					outs[i].v.out = ""
					if i >= 4000 {
						outs[i].input = ""
					}
				}
			}
		}()
	}
	for i := 0; i < *n; i++ {
		next <- i
	}
	close(next)
	wg.Wait()

	distinct := map[uint64]struct{}{}
	bySig := map[string][]int{}
	malformed := 0
	for i := range outs {
		c := &outs[i]
		for k := range c.hits {
			res.Hist("constructs", k)
		}
		for _, a := range c.avoided {
			res.Hist("avoided_known_shapes", a)
		}
		res.Hist("mode", c.o.mode)
		if c.o.mode != "path" {
			res.Hist("options", "KeepComments="+strconv.FormatBool(c.o.keepComments))
			res.Hist("options", "css="+strconv.FormatBool(c.o.css))
			if c.o.mode == "inline" {
				res.Hist("options", "inline_via="+c.o.inlineVia)
			}
		}
		res.Hist("size_bytes", sizeBucket(c.size))
		if c.malformed {
			malformed++
			res.Hist("stream", "malformed")
		} else {
			res.Hist("stream", "well-formed")
		}
		if c.v.judged {
			res.Evaluations++
			res.Hist("judged_by_mode", c.o.mode)
			if c.v.nontrivial {
				distinct[c.hash] = struct{}{}
			}
		} else {
			res.NotJudged++
			res.Hist("not_judged", c.v.reason)
		}
		if c.v.sig != "" {
			bySig[c.v.sig] = append(bySig[c.v.sig], i)
		}
	}
	res.DistinctNontrivial = len(distinct)

	want := []string{"path", "doc", "inline"}
	for _, m := range want {
		for i := range outs {
			c := &outs[i]
			if c.o.mode == m && c.v.judged && c.v.nontrivial && c.v.sig == "" && c.input != "" && len(c.input) < 500 && len(c.input) > 30 {
				var o string
				if m == "path" {
					o, _ = runPath(c.input)
				} else {
					o, _, _ = runSVG(c.input, c.o)
				}
				res.Samples = append(res.Samples, map[string]interface{}{"case": i, "input": printable(c.input), "options": c.o.asMap(), "output": printable(o)})
				break
			}
		}
	}

	sigs := make([]string, 0, len(bySig))
	for s := range bySig {
		sigs = append(sigs, s)
	}
	sort.Strings(sigs)
	counts := map[string]int{}
	for _, s := range sigs {
		counts[s] = len(bySig[s])
		idxs := bySig[s]
		sort.SliceStable(idxs, func(a, b int) bool { return len(outs[idxs[a]].input) < len(outs[idxs[b]].input) })
		seen := map[string]bool{}
		for k, i := range idxs {
			if k >= 3 {
				break
			}
			sc := shrink(outs[i])
			if sc.v.sig != s {
				sc = outs[i]
			}
			key := sc.input + fmt.Sprint(sc.o)
			if seen[key] {
				continue
			}
			seen[key] = true
			res.Violations = append(res.Violations, toViolation(sc, i))
		}
	}
	var njEx []interface{}
	for i := range outs {
		if c := &outs[i]; !c.malformed && !c.v.judged && len(njEx) < 8 && c.input != "" {
			msg := ""
			if c.o.mode == "path" {
				if _, err := parsePath(c.input); err != nil {
					msg = err.Error()
				}
			} else if _, pe := parseTree(c.input); pe != nil {
				msg = pe.Error()
			}
			njEx = append(njEx, map[string]string{"input": clip(printable(c.input), 600), "reason": c.v.reason, "error": msg})
		}
	}
	res.Extra = map[string]interface{}{
		"violation_counts_by_signature": counts,
		"malformed_stream_cases":        malformed,
		"known_shapes_generated":        *known,
		"workers":                       workers,
		"not_judged_examples":           njEx,
	}
	if res.Extra == nil {
		res.Extra = map[string]interface{}{}
	}
	runSepCases(*seed, 6000, *known, *out, res.Extra)
	if err := res.Write(filepath.Join(*out, "result.json")); err != nil {
		fmt.Fprintln(os.Stderr, "svgoracle:", err)
		os.Exit(2)
	}
	nk := 0
	for s, c := range counts {
		if strings.HasPrefix(s, "NEW:") {
			nk += c
		}
	}
	fmt.Printf("svgoracle: seed=%d cases=%d judged=%d not_judged=%d distinct_nontrivial=%d violations=%d (new=%d)\n", *seed, *n, res.Evaluations, res.NotJudged, res.DistinctNontrivial, len(res.Violations), nk)
	for _, s := range sigs {
		fmt.Printf("  %6d  %s\n", counts[s], s)
	}
}
