package main

// Correspondence data for the Coq model Svg/PathSep.v (separator logic of path data): random item sequences — coordinates
// exactly as minify.Number returns them, arc flags in arc position — are written by the REAL copyNumber/copyFlag (verif
// hook svg.VerifEmitItems) and by the extracted model.  The theorem's hypothesis on coordinates (ok_item') is measured on
// every coordinate.

import (
	"fmt"
	"os"
	"path/filepath"
	"regexp"
	"strings"

	"github.com/tdewolff/minify/v2"
	svgmin "github.com/tdewolff/minify/v2/svg"
	"verifharness/internal/vh"
)

var reMinNumber = regexp.MustCompile(`^-?([0-9]+|[0-9]*\.[0-9]+)(e-?[0-9]+)?$`)

func okCoord(c string) bool {
	if !reMinNumber.MatchString(c) {
		return false
	}
	if len(c) > 2 && strings.HasSuffix(c, "00") { // the "00" -> "e2" rewrite: plain integers only
		d := strings.TrimPrefix(c, "-")
		for _, ch := range d {
			if ch < '0' || ch > '9' {
				return false
			}
		}
	}
	if len(c) > 1 && c[0] == '0' { // a leading zero is the bare "0"
		return false
	}
	if strings.HasPrefix(c, "-0") { // never a negative zero prefix ("-00" would be written "-e2")
		return false
	}
	return true
}

func hx2(b []byte) string {
	if len(b) == 0 {
		return "-"
	}
	return vh.Hex(b)
}

func runSepCases(seed uint64, n int, known bool, outDir string, extra map[string]interface{}) {
	r := vh.NewRand(seed ^ 0x5e9a)
	fin, _ := os.Create(filepath.Join(outDir, "cases.in"))
	fout, _ := os.Create(filepath.Join(outDir, "cases.go.out"))
	defer fin.Close()
	defer fout.Close()
	pool := []string{"0", "1", "2", "9", "10", "12", "100", "1200", "1000000", "-1", "-10", "-100", "-2500", ".5", "0.5", "-.5", "-0.5", "1.5", "12.25",
		"-3.75", "1e3", "1e-3", "2.5e4", "5e30", "1e10", "0.001", "0.0001", "-0.0001", "100.5", "1.00", "10.0", "-0", "0.0", "00", "-00", "000", "+5", "1E2",
		"123456789", "0.1e1", "5.", "-5.", "1e+2", "3e0"}
	// exponents that are multiples of 100 (K70 / N15: the "00" -> "e2" rewrite used to mangle them; repaired in /repo)
	pool = append(pool, "5e300", "1e100", "1e-200")
	coords, bad := 0, 0
	for k := 0; k < n; k++ {
		ln := 1 + r.Intn(10)
		var items [][]byte
		var isFlag []bool
		var desc []string
		arc := r.Intn(3) == 0
		for i := 0; i < ln; i++ {
			if arc && (i%7 == 3 || i%7 == 4) {
				f := []byte{byte('0' + r.Intn(2))}
				items = append(items, f)
				isFlag = append(isFlag, true)
				desc = append(desc, "F"+string(f))
				continue
			}
			raw := pool[r.Intn(len(pool))]
			if r.Intn(4) == 0 {
				raw = fmt.Sprintf("%d", r.Intn(100000)-50000)
				if r.Intn(2) == 0 {
					raw = fmt.Sprintf("%d.%d", r.Intn(2000)-1000, r.Intn(1000))
				}
			}
			c := minify.Number([]byte(raw), 0)
			coords++
			if !okCoord(string(c)) {
				bad++
			}
			items = append(items, append([]byte{}, c...))
			isFlag = append(isFlag, false)
			desc = append(desc, "N"+hx2(c))
		}
		out := svgmin.VerifEmitItems(items, isFlag)
		fmt.Fprintf(fin, "pathsep\t%s\n", strings.Join(desc, ","))
		fmt.Fprintf(fout, "%s\n", hx2(out))
	}
	extra["pathsep_sequences"] = n
	extra["pathsep_coordinates_checked"] = coords
	extra["pathsep_ok_item_violations"] = bad
}
