package main

// Independent interpreter for SVG path data, written from SVG 1.1 section 8.3 (grammar
// 8.3.9): it tokenises by the BNF (compact arc flags, numbers abutting such as ".5.5",
// "1-2", "1e2.5") and produces the absolute segments the data denotes.

import (
	"fmt"
	"math"
	"regexp"
	"strconv"
	"strings"
)

type seg struct {
	k      byte      // 'M' 'L' 'C' 'Q' 'A' 'Z' (H/V become L, S becomes C, T becomes Q)
	v      []float64 // absolute: L x y | C x1 y1 x2 y2 x y | Q x1 y1 x y | A rx ry rot large sweep x y
	src    byte      // command letter the segment came from ('L' for implicit lineto after M)
	x0, y0 float64   // start point of the segment
	raw    int       // index in pathInfo.segs
}

func (s seg) end() (float64, float64) {
	if len(s.v) >= 2 {
		return s.v[len(s.v)-2], s.v[len(s.v)-1]
	}
	return s.x0, s.y0
}

type pathLexer struct {
	s string
	i int
}

func isWsp(c byte) bool   { return c == ' ' || c == '\t' || c == '\n' || c == '\r' }
func isDigit(c byte) bool { return c >= '0' && c <= '9' }

func (l *pathLexer) wsp() {
	for l.i < len(l.s) && isWsp(l.s[l.i]) {
		l.i++
	}
}

// commaWsp: (wsp+ comma? wsp*) | (comma wsp*), all optional here; reports whether a comma was read.
func (l *pathLexer) commaWsp() bool {
	l.wsp()
	if l.i < len(l.s) && l.s[l.i] == ',' {
		l.i++
		l.wsp()
		return true
	}
	return false
}

// number: sign? (digit+ ("." digit*)? | "." digit+) ((e|E) sign? digit+)?
func (l *pathLexer) number() (float64, string, error) {
	s, i := l.s, l.i
	j := i
	if j < len(s) && (s[j] == '+' || s[j] == '-') {
		j++
	}
	nd := 0
	for j < len(s) && isDigit(s[j]) {
		j++
		nd++
	}
	if j < len(s) && s[j] == '.' {
		j++
		for j < len(s) && isDigit(s[j]) {
			j++
			nd++
		}
	}
	if nd == 0 {
		return 0, "", fmt.Errorf("number expected at %d", i)
	}
	if j < len(s) && (s[j] == 'e' || s[j] == 'E') {
		k := j + 1
		if k < len(s) && (s[k] == '+' || s[k] == '-') {
			k++
		}
		if k < len(s) && isDigit(s[k]) {
			for k < len(s) && isDigit(s[k]) {
				k++
			}
			j = k
		}
	}
	tok := s[i:j]
	f, err := strconv.ParseFloat(tok, 64)
	if err != nil && !(math.IsInf(f, 0) || f == 0) { // range errors still give a value
		return 0, tok, fmt.Errorf("bad number %q at %d", tok, i)
	}
	l.i = j
	return f, tok, nil
}

func (l *pathLexer) flag() (float64, error) {
	if l.i < len(l.s) && (l.s[l.i] == '0' || l.s[l.i] == '1') {
		f := float64(l.s[l.i] - '0')
		l.i++
		return f, nil
	}
	return 0, fmt.Errorf("arc flag expected at %d", l.i)
}

var argCount = map[byte]int{'M': 2, 'L': 2, 'H': 1, 'V': 1, 'C': 6, 'S': 4, 'Q': 4, 'T': 2, 'A': 7, 'Z': 0}

type pathInfo struct {
	segs    []seg
	cmds    []byte   // command letters as written
	numbers []string // number tokens as written
	maxAbs  float64
}

func parsePath(s string) (*pathInfo, error) {
	l := &pathLexer{s: s}
	pi := &pathInfo{}
	var cx, cy, sx, sy float64 // current point, subpath start
	var pcx, pcy float64       // previous control point
	var prev byte              // kind of previous segment for reflection: 'C' or 'Q' or 0
	first := true
	l.wsp()
	for l.i < len(l.s) {
		c := l.s[l.i]
		up := c &^ 0x20
		n, ok := argCount[up]
		if !ok || !(c >= 'A' && c <= 'Z' || c >= 'a' && c <= 'z') {
			return pi, fmt.Errorf("command expected at %d, found %q", l.i, c)
		}
		if first && up != 'M' {
			return pi, fmt.Errorf("path data must begin with a moveto")
		}
		first = false
		l.i++
		pi.cmds = append(pi.cmds, c)
		rel := c >= 'a'
		if up == 'Z' {
			pi.segs = append(pi.segs, seg{k: 'Z', src: c, x0: cx, y0: cy, raw: len(pi.segs)})
			cx, cy = sx, sy
			prev = 0
			l.wsp()
			continue
		}
		l.wsp()
		for rep := 0; ; rep++ {
			a := make([]float64, n)
			for k := 0; k < n; k++ {
				if k > 0 {
					l.commaWsp()
				}
				var err error
				if up == 'A' && (k == 3 || k == 4) {
					a[k], err = l.flag()
				} else {
					var tok string
					a[k], tok, err = l.number()
					if err == nil {
						pi.numbers = append(pi.numbers, tok)
					}
				}
				if err != nil {
					return pi, err
				}
			}
			ox, oy := 0.0, 0.0
			if rel {
				ox, oy = cx, cy
			}
			sg := seg{src: c, x0: cx, y0: cy}
			switch up {
			case 'M':
				if rep == 0 {
					cx, cy = a[0]+ox, a[1]+oy
					sx, sy = cx, cy
					sg.k, sg.v = 'M', []float64{cx, cy}
				} else {
					sg.k, sg.v = 'L', []float64{a[0] + ox, a[1] + oy}
					sg.src = 'L' + (c - 'M')
					cx, cy = sg.v[0], sg.v[1]
				}
				prev = 0
			case 'L':
				sg.k, sg.v = 'L', []float64{a[0] + ox, a[1] + oy}
				cx, cy = sg.v[0], sg.v[1]
				prev = 0
			case 'H':
				sg.k, sg.v = 'L', []float64{a[0] + ox, cy}
				cx = sg.v[0]
				prev = 0
			case 'V':
				sg.k, sg.v = 'L', []float64{cx, a[0] + oy}
				cy = sg.v[1]
				prev = 0
			case 'C':
				sg.k, sg.v = 'C', []float64{a[0] + ox, a[1] + oy, a[2] + ox, a[3] + oy, a[4] + ox, a[5] + oy}
				pcx, pcy = sg.v[2], sg.v[3]
				cx, cy = sg.v[4], sg.v[5]
				prev = 'C'
			case 'S':
				x1, y1 := cx, cy
				if prev == 'C' {
					x1, y1 = 2*cx-pcx, 2*cy-pcy
				}
				sg.k, sg.v = 'C', []float64{x1, y1, a[0] + ox, a[1] + oy, a[2] + ox, a[3] + oy}
				pcx, pcy = sg.v[2], sg.v[3]
				cx, cy = sg.v[4], sg.v[5]
				prev = 'C'
			case 'Q':
				sg.k, sg.v = 'Q', []float64{a[0] + ox, a[1] + oy, a[2] + ox, a[3] + oy}
				pcx, pcy = sg.v[0], sg.v[1]
				cx, cy = sg.v[2], sg.v[3]
				prev = 'Q'
			case 'T':
				x1, y1 := cx, cy
				if prev == 'Q' {
					x1, y1 = 2*cx-pcx, 2*cy-pcy
				}
				sg.k, sg.v = 'Q', []float64{x1, y1, a[0] + ox, a[1] + oy}
				pcx, pcy = x1, y1
				cx, cy = sg.v[2], sg.v[3]
				prev = 'Q'
			case 'A':
				sg.k, sg.v = 'A', []float64{a[0], a[1], a[2], a[3], a[4], a[5] + ox, a[6] + oy}
				cx, cy = sg.v[5], sg.v[6]
				prev = 0
			}
			for _, f := range sg.v {
				if m := math.Abs(f); m > pi.maxAbs && !math.IsInf(m, 0) {
					pi.maxAbs = m
				}
			}
			sg.raw = len(pi.segs)
			pi.segs = append(pi.segs, sg)
			// another argument set?
			save := l.i
			comma := l.commaWsp()
			if l.i < len(l.s) {
				d := l.s[l.i]
				if isDigit(d) || d == '.' || d == '+' || d == '-' {
					continue
				}
			}
			if comma {
				return pi, fmt.Errorf("dangling comma at %d", save)
			}
			break
		}
	}
	return pi, nil
}

// ---------------------------------------------------------------------------------
// comparison

type tolr struct{ scale float64 }

// eq: |a-b| <= 1e-9*max(1,|a|), widened by 1e-12 of the largest coordinate of the path:
// the minifier converts between relative and absolute form in float64 and prints 15
// significant digits, so the error of one coordinate is relative to the operands
// (cursor and target), not only to the result.
func (t tolr) eq(a, b float64) bool {
	if a == b {
		return true
	}
	if math.IsNaN(a) || math.IsNaN(b) || math.IsInf(a, 0) || math.IsInf(b, 0) {
		return false
	}
	return math.Abs(a-b) <= 1e-9*math.Max(1, math.Abs(a))+1e-12*t.scale
}

func (t tolr) degenerate(s seg) bool {
	ex, ey := s.end()
	at := func(x, y float64) bool {
		return t.eq(x, s.x0) && t.eq(y, s.y0) || t.eq(x, ex) && t.eq(y, ey)
	}
	switch s.k {
	case 'C':
		return at(s.v[0], s.v[1]) && at(s.v[2], s.v[3])
	case 'Q':
		return at(s.v[0], s.v[1])
	}
	return false
}

func (t tolr) zeroLen(s seg) bool {
	ex, ey := s.end()
	return t.eq(ex, s.x0) && t.eq(ey, s.y0)
}

type pathDiff struct {
	cat     string
	detail  string
	inRaw   int // index into in.segs of the first input segment that has no counterpart (len = none left)
	prevRaw int // index of the last input segment that was matched (-1 = none)
}

var coordNames = map[byte][]string{
	'M': {"end-point", "end-point"}, 'L': {"end-point", "end-point"},
	'C': {"control-point-1", "control-point-1", "control-point-2", "control-point-2", "end-point", "end-point"},
	'Q': {"control-point", "control-point", "end-point", "end-point"},
	'A': {"arc-radius", "arc-radius", "arc-rotation", "arc-flag", "arc-flag", "end-point", "end-point"},
}

// lineLike: a line, or an exactly degenerate curve (both control points on end points),
// which the property allows to be written as a line.
func (t tolr) lineLike(s seg) bool {
	return s.k == 'L' || (s.k == 'C' || s.k == 'Q') && t.degenerate(s)
}

// match: same segment within tolerance. "" = match, otherwise what differs.
func (t tolr) match(x, y seg) string {
	switch {
	case x.k == 'Z' || y.k == 'Z':
		if x.k == y.k {
			return ""
		}
		return "segment-kind"
	case x.k == y.k:
		if (x.k == 'C' || x.k == 'Q') && t.lineLike(x) && t.lineLike(y) {
			// two degenerate curves: only the end point counts
			ex, ey := x.end()
			fx, fy := y.end()
			if t.eq(ex, fx) && t.eq(ey, fy) {
				return ""
			}
			return "end-point"
		}
		for j := range x.v {
			same := t.eq(x.v[j], y.v[j])
			if x.k == 'A' && (j == 3 || j == 4) {
				same = x.v[j] == y.v[j]
			}
			if !same {
				return coordNames[x.k][j]
			}
		}
		return ""
	case x.k != 'M' && y.k != 'M' && t.lineLike(x) && t.lineLike(y):
		ex, ey := x.end()
		fx, fy := y.end()
		if t.eq(ex, fx) && t.eq(ey, fy) {
			return ""
		}
		return "end-point"
	}
	return "segment-kind"
}

// comparePaths aligns the two segment lists. Allowed simplifications are applied only
// where needed to align: a zero-length line (or degenerate curve of zero length) may be
// missing on either side, a closepath directly after a closepath is the same closepath.
func comparePaths(in, out *pathInfo) *pathDiff {
	t := tolr{scale: math.Max(in.maxAbs, out.maxAbs)}
	a, b := in.segs, out.segs
	droppable := func(s []seg, i int) bool {
		if s[i].k == 'Z' {
			// ZZ: skip zero-length lines in between
			for k := i - 1; k >= 0; k-- {
				if s[k].k == 'Z' {
					return true
				}
				if !(t.lineLike(s[k]) && t.zeroLen(s[k])) {
					return false
				}
			}
			return false
		}
		return t.lineLike(s[i]) && t.zeroLen(s[i])
	}
	i, j, prev := 0, 0, -1
	for i < len(a) || j < len(b) {
		what := "segment-count"
		if i < len(a) && j < len(b) {
			what = t.match(a[i], b[j])
			if what == "" {
				prev = i
				i++
				j++
				continue
			}
		}
		if i < len(a) && droppable(a, i) {
			i++
			continue
		}
		if j < len(b) && droppable(b, j) {
			j++
			continue
		}
		d := &pathDiff{cat: what, inRaw: i, prevRaw: prev}
		switch {
		case i < len(a) && j < len(b):
			d.detail = fmt.Sprintf("input segment %d is %s, the output has %s there", i, descSeg(a[i]), descSeg(b[j]))
		case i < len(a):
			d.detail = fmt.Sprintf("input segment %d (%s) has no counterpart: the output ends after %d segments", i, descSeg(a[i]), len(b))
		default:
			d.detail = fmt.Sprintf("the output has an extra segment %d: %s", j, descSeg(b[j]))
		}
		return d
	}
	return nil
}

func descSeg(s seg) string {
	var sb strings.Builder
	sb.WriteByte(s.k)
	for _, f := range s.v {
		sb.WriteByte(' ')
		sb.WriteString(strconv.FormatFloat(f, 'g', -1, 64))
	}
	return sb.String()
}

// ---------------------------------------------------------------------------------
// shapes of known defects, recognised on the INPUT

var (
	reZThenNonM = regexp.MustCompile(`[Zz][\s,]*[^MmZz\s,]`)
)

func smoothFamily(src byte) byte {
	switch src &^ 0x20 {
	case 'C', 'S':
		return 'C'
	case 'Q', 'T':
		return 'Q'
	}
	return 0
}

func isSmooth(src byte) bool { u := src &^ 0x20; return u == 'S' || u == 'T' }

// pathShapes returns the ids of the known defects whose input shape occurs in the data.
func pathShapes(s string, pi *pathInfo) map[string]bool {
	sh := map[string]bool{}
	if reZThenNonM.MatchString(s) {
		sh["K24"] = true
	}
	for _, tok := range pi.numbers {
		// "5." is a number by the SVG 1.1 BNF; the minifier reads "5" and then trips
		// over the dot when an exponent or an arc flag follows
		if strings.HasSuffix(tok, ".") || strings.Contains(tok, ".e") || strings.Contains(tok, ".E") {
			sh["N16"] = true
		}
		f, _ := strconv.ParseFloat(tok, 64)
		if m := math.Abs(f); m >= 1e99 || m != 0 && m <= 1e-99 {
			sh["N15"] = true
		}
	}
	t := tolr{scale: pi.maxAbs}
	for i, sg := range pi.segs {
		if i == 0 {
			continue
		}
		p := pi.segs[i-1]
		// A zero-length line (explicit, implicit after M, or a degenerate curve that
		// collapses to one) is removed from the output, but the minifier goes on as if
		// it were still the predecessor: a following S/T, or a C/Q whose first control
		// point is the current point (rewritten to S/T), then reflects the control point
		// of whatever curve came before the removed segment.
		if t.removable(p) && (isSmooth(sg.src) || (sg.k == 'C' || sg.k == 'Q') && t.eq(sg.v[0], sg.x0) && t.eq(sg.v[1], sg.y0)) {
			sh["N14"] = true
		}
		// a degenerate curve of the same family is rewritten to a line and the stored
		// control point forgotten
		if isSmooth(sg.src) && smoothFamily(p.src) == smoothFamily(sg.src) && (p.k == 'C' || p.k == 'Q') && t.degenerate(p) {
			sh["K44"] = true
		}
	}
	return sh
}

func (t tolr) removable(p seg) bool {
	u := p.src &^ 0x20
	return u != 'H' && u != 'V' && u != 'Z' && u != 'A' && p.k != 'M' && t.zeroLen(p)
}

// classifyPathDiff: root cause of a path difference, by what the input looks like at
// the first differing segment.
func classifyPathDiff(d *pathDiff, s string, in *pathInfo) string {
	sh := pathShapes(s, in)
	t := tolr{scale: in.maxAbs}
	if sh["N16"] {
		return knownSig["N16"]
	}
	if sh["N15"] {
		return knownSig["N15"]
	}
	// raw input segments between the last agreeing segment and the differing one
	lo, hi := d.prevRaw+1, d.inRaw
	if hi >= len(in.segs) {
		hi = len(in.segs) - 1
	}
	for i := lo; i <= hi && i < len(in.segs); i++ {
		if i == 0 {
			continue
		}
		sg, p := in.segs[i], in.segs[i-1]
		if smoothFamily(sg.src) == 0 {
			continue
		}
		if t.removable(p) && sh["N14"] {
			return knownSig["N14"]
		}
		if isSmooth(sg.src) && smoothFamily(p.src) == smoothFamily(sg.src) && t.degenerate(p) && sh["K44"] {
			return knownSig["K44"]
		}
	}
	suffix := ""
	if d.prevRaw >= 0 && in.segs[d.prevRaw].k == 'Z' {
		suffix = ":after-closepath"
	}
	return "NEW:path:segment-differs:" + d.cat + suffix
}

func sameVals(a, b []float64) bool {
	for i := range a {
		if a[i] != b[i] && !(math.IsNaN(a[i]) && math.IsNaN(b[i])) {
			return false
		}
	}
	return true
}

var reZThenNumber = regexp.MustCompile(`[Zz][\s,]*[-+.0-9]`)

func classifyUnparseableOutput(in string, pi *pathInfo, out string, err error) string {
	sh := pathShapes(in, pi)
	switch {
	case sh["K24"] && reZThenNumber.MatchString(out):
		return knownSig["K24"]
	case sh["N15"]:
		return knownSig["N15"]
	case sh["N16"]:
		return knownSig["N16"]
	}
	return "NEW:path:output-unparseable"
}
