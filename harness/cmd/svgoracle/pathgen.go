package main

import (
	"fmt"
	"math"
	"strconv"
	"strings"

	"verifharness/internal/vh"
)

// Grammar-directed generator of valid path data: every command in both cases, implicit
// repetition, implicit lineto after moveto, compact arc flags, every number notation of
// the BNF and all legal ways of abutting numbers without a separator.
type pgen struct {
	r        *vh.Rand
	known    bool
	hits     map[string]bool
	sb       strings.Builder
	pcx, pcy float64 // previous control point (unreflected), a near-miss target
	last     string  // last token written ("" after a command letter)
	lastK    byte    // 'n' number, 'f' flag, 'c' command
}

func (g *pgen) hit(k string) { g.hits[k] = true }

// num renders n * 10^-d in one of the notations of the grammar.
func (g *pgen) num(n int64, d int) string {
	neg := n < 0
	if neg {
		n = -n
	}
	digits := strconv.FormatInt(n, 10)
	plain := func(digits string, d int) string {
		if d == 0 {
			return digits
		}
		for len(digits) <= d {
			digits = "0" + digits
		}
		return digits[:len(digits)-d] + "." + digits[len(digits)-d:]
	}
	s := plain(digits, d)
	form := g.r.Intn(16)
	switch form {
	case 0, 1, 2, 3, 4, 5:
		g.hit("num:plain")
	case 6, 7:
		if strings.HasPrefix(s, "0.") {
			s = s[1:]
			g.hit("num:no-leading-zero")
		}
	case 8:
		e := g.r.Pick("e", "E")
		s = digits + e + "-" + strconv.Itoa(d)
		if d == 0 {
			s = digits + e + g.r.Pick("0", "+0", "-0", "00")
		}
		g.hit("num:integer-mantissa-exponent")
	case 9:
		k := 1 + g.r.Intn(3)
		s = plain(digits, d+k) + g.r.Pick("e", "E", "e+") + strconv.Itoa(k)
		if g.r.Bool() && strings.HasPrefix(s, "0.") {
			s = s[1:]
		}
		g.hit("num:fraction-exponent")
	case 10:
		if !neg {
			s = "+" + s
			g.hit("num:plus-sign")
		}
	case 11:
		s = g.r.Pick("0", "00") + s
		g.hit("num:leading-zeros")
	case 12:
		if d > 0 {
			s += g.r.Pick("0", "00", "000")
			g.hit("num:trailing-zeros")
		} else {
			s += g.r.Pick(".0", ".00")
			g.hit("num:integer-with-zero-fraction")
		}
	case 13:
		if d == 0 && g.known {
			s += "."
			g.hit("num:trailing-dot")
		}
	case 14:
		if d == 0 && g.known {
			s += "." + g.r.Pick("e0", "E1", "e-1", "e+2")
			g.hit("num:trailing-dot-exponent")
		}
	case 15:
		k := 1 + g.r.Intn(2)
		s = digits + strings.Repeat("0", k) + g.r.Pick("e-", "E-") + strconv.Itoa(d+k)
		g.hit("num:scaled-mantissa")
	}
	if neg {
		s = "-" + s
	}
	return s
}

// value picks a number token. near is a value that would create a coincidence
// (zero-length line, degenerate curve, reflected control point) when hit exactly.
func (g *pgen) value(near float64, useNear bool) string {
	if useNear && near == math.Trunc(near*1000)/1000 && math.Abs(near) < 1e9 {
		n := int64(math.Round(near * 1000))
		d := 3
		for d > 0 && n%10 == 0 {
			n /= 10
			d--
		}
		g.hit("num:coincidence")
		return g.num(n, d)
	}
	switch g.r.Intn(20) {
	case 0, 1, 2, 3, 4, 5, 6, 7:
		return g.num(int64(g.r.Intn(41)-10), 0)
	case 8:
		return g.num(0, g.r.Intn(3))
	case 9, 10:
		return g.num(int64(g.r.Intn(400)-100), 1+g.r.Intn(2))
	case 11:
		return g.num(int64(g.r.Intn(2000)-1000)*100, 0) // ends in 00: the e2 rewrite
	case 12:
		return g.num(int64(g.r.Intn(20000)-10000), 3)
	case 13:
		g.hit("num:many-digits")
		return g.r.Pick("0.30000000000000004", "123456789.123456789", "3.14159265358979323846", "-0.1000000000000000055511151231257827", "99999.99999999999", "1.0000000000000002", "4503599627370497", "0.000001234567890123")
	case 14:
		g.hit("num:large-or-tiny")
		return g.r.Pick("1e6", "2.5e7", "1E9", "-3e8", "1e-6", "25e-8", "-1E-7", "1000000", "0.000001", "12345678", "1e12", "1e-12")
	case 15:
		// exponents that are multiples of 100 (K70, repaired in /repo: the 00 => e2 rewrite is for integers only)
		if g.r.Chance(1, 3) {
			g.hit("num:exponent-multiple-of-100")
			return g.r.Pick("1e100", "1e-100", "2E200", "1e+100", "5e-300")
		}
		return g.num(int64(g.r.Intn(100)), 0)
	case 16:
		return g.num(int64(g.r.Intn(9)+1), 0)
	default:
		return g.num(int64(g.r.Intn(21)-10), g.r.Intn(2))
	}
}

func hasDotOrExp(tok string) bool { return strings.ContainsAny(tok, ".eE") }

// put writes a number or flag token with a legal (possibly empty) separator.
func (g *pgen) put(tok string, kind byte) {
	seps := []string{" ", " ", ",", " , ", "\n", "\t", "  ", ", "}
	if g.lastK == 'c' {
		seps = []string{"", "", " ", "\n"}
	} else {
		canAbut := false
		switch {
		case g.lastK == 'f':
			canAbut = true // a flag is one character: anything may follow directly
		case kind == 'f':
			canAbut = false // a number would swallow a following 0/1
		case tok[0] == '-' || tok[0] == '+':
			canAbut = true
		case tok[0] == '.' && hasDotOrExp(g.last):
			canAbut = true
		}
		if canAbut && g.r.Chance(1, 2) {
			seps = []string{""}
			g.hit("sep:none")
		}
	}
	sep := seps[g.r.Intn(len(seps))]
	if sep == "," || sep == " , " || sep == ", " {
		g.hit("sep:comma")
	}
	g.sb.WriteString(sep)
	g.sb.WriteString(tok)
	g.last, g.lastK = tok, kind
}

func (g *pgen) cmd(c byte) {
	if g.lastK != 0 {
		g.sb.WriteString(g.r.Pick("", "", " ", "\n"))
	}
	g.sb.WriteByte(c)
	g.last, g.lastK = "", 'c'
	g.hit("cmd:" + string(c))
}

// state of the path generated so far, from the independent interpreter
func (g *pgen) state() (cx, cy, rx, ry float64, fam byte) {
	defer func() { g.pcx, g.pcy = 2*cx-rx, 2*cy-ry }() // the previous control point itself
	pi, err := parsePath(g.sb.String())
	if err != nil || len(pi.segs) == 0 {
		return
	}
	// replay for the cursor (the interpreter does not export it)
	var sx, sy float64
	for _, s := range pi.segs {
		switch s.k {
		case 'M':
			cx, cy = s.v[0], s.v[1]
			sx, sy = cx, cy
		case 'Z':
			cx, cy = sx, sy
		default:
			cx, cy = s.end()
		}
	}
	l := pi.segs[len(pi.segs)-1]
	rx, ry = cx, cy
	switch l.k {
	case 'C':
		rx, ry, fam = 2*cx-l.v[2], 2*cy-l.v[3], 'C'
	case 'Q':
		rx, ry, fam = 2*cx-l.v[0], 2*cy-l.v[1], 'Q'
	}
	return
}

func (g *pgen) gen() string {
	g.sb.Reset()
	g.lastK = 0
	if g.r.Chance(1, 10) {
		g.sb.WriteString(g.r.Pick(" ", "\n", "  "))
	}
	ncmd := 1 + g.r.Intn(7)
	if g.r.Chance(1, 12) {
		ncmd += g.r.Intn(12)
	}
	prev := byte(0)
	for ci := 0; ci < ncmd; ci++ {
		var c byte
		if ci == 0 {
			c = "Mm"[g.r.Intn(2)]
		} else {
			c = "LlLlHhVvCcCcSsQqQqTtAaZzMm"[g.r.Intn(26)]
			up := prev &^ 0x20
			if !g.known {
				if up == 'Z' {
					c = "Mm"[g.r.Intn(2)] // K24: only a moveto (or the end) follows a closepath
				}
				// bias smooth commands towards their natural predecessors
				if cu := c &^ 0x20; cu == 'S' && up != 'C' && up != 'S' || cu == 'T' && up != 'Q' && up != 'T' {
					if g.r.Chance(9, 10) {
						c = "LlHhVvCcQqAa"[g.r.Intn(12)]
					}
				}
			}
			if g.r.Chance(1, 6) && (up == 'C' || up == 'S') {
				c = "Ss"[g.r.Intn(2)]
			} else if g.r.Chance(1, 6) && (up == 'Q' || up == 'T') {
				c = "Tt"[g.r.Intn(2)]
			}
		}
		up := c &^ 0x20
		rel := c >= 'a'
		cx, cy, rx, ry, fam := g.state()
		g.cmd(c)
		prev = c
		if up == 'Z' {
			if g.r.Chance(1, 8) {
				g.cmd("Zz"[g.r.Intn(2)])
			}
			continue
		}
		reps := 1
		if g.r.Chance(1, 4) {
			reps = 2 + g.r.Intn(2)
			g.hit("implicit-repetition")
		}
		if up == 'M' && reps > 1 {
			g.hit("implicit-lineto-after-moveto")
		}
		for rep := 0; rep < reps; rep++ {
			if rep > 0 {
				cx, cy, rx, ry, fam = g.state()
			}
			ox, oy := 0.0, 0.0
			if rel {
				ox, oy = cx, cy
			}
			coin := g.r.Chance(1, 5) // aim at a coincidence in this argument set
			pair := func(tx, ty float64, use bool) {
				g.put(g.value(tx-ox, use), 'n')
				g.put(g.value(ty-oy, use), 'n')
			}
			switch up {
			case 'M', 'L', 'T':
				pair(cx, cy, coin && g.r.Bool())
			case 'H':
				g.put(g.value(cx-ox, coin), 'n')
			case 'V':
				g.put(g.value(cy-oy, coin), 'n')
			case 'C':
				// the end point is chosen first so that control points can be aimed at it (exactly degenerate curves:
				// both control points on the start or the end point); tokens are still written in path order
				exs, eys := g.value(cx-ox, coin && g.r.Chance(1, 6)), g.value(cy-oy, coin && g.r.Chance(1, 6))
				exv, _ := strconv.ParseFloat(exs, 64)
				eyv, _ := strconv.ParseFloat(eys, 64)
				ex, ey := exv+ox, eyv+oy
				// first control point on the reflection (C becomes S), on an end point, or on the unreflected point
				k := g.r.Intn(5)
				switch {
				case coin && k == 0 && fam == 'C':
					pair(rx, ry, true)
				case coin && k == 1:
					pair(cx, cy, true)
				case coin && k == 2 && fam == 'C':
					pair(g.pcx, g.pcy, true) // near miss: the unreflected point
				case coin && k == 3:
					pair(ex, ey, true)
					g.hit("curve:cp1-on-end")
				default:
					pair(0, 0, false)
				}
				switch {
				case coin && g.r.Chance(1, 3):
					pair(cx, cy, true)
				case coin && g.r.Chance(1, 3):
					pair(ex, ey, true)
					g.hit("curve:cp2-on-end")
				case coin && g.r.Chance(1, 2):
					// near miss: only ONE coordinate of the second control point agrees with an end point (a real curve)
					if g.r.Bool() {
						pair(ex, cy, true)
					} else {
						pair(cx, ey, true)
					}
					g.hit("curve:cp2-half-on-end")
				default:
					pair(cx, cy, false)
				}
				g.put(exs, 'n')
				g.put(eys, 'n')
			case 'S':
				if coin && g.r.Chance(1, 4) {
					// the end point first, the control point sharing one coordinate with it and one with the start
					exs, eys := g.value(cx-ox, false), g.value(cy-oy, false)
					exv, _ := strconv.ParseFloat(exs, 64)
					eyv, _ := strconv.ParseFloat(eys, 64)
					if g.r.Bool() {
						pair(exv+ox, cy, true)
					} else {
						pair(cx, eyv+oy, true)
					}
					g.put(exs, 'n')
					g.put(eys, 'n')
					g.hit("curve:cp2-half-on-end")
					break
				}
				pair(cx, cy, coin && g.r.Chance(1, 3))
				pair(cx, cy, coin && g.r.Chance(1, 6))
			case 'Q':
				k := g.r.Intn(4)
				switch {
				case coin && k == 0 && fam == 'Q':
					pair(rx, ry, true)
				case coin && k == 1:
					pair(cx, cy, true)
				case coin && k == 2 && fam == 'Q':
					pair(g.pcx, g.pcy, true) // near miss: the unreflected point
				default:
					pair(0, 0, false)
				}
				pair(cx, cy, coin && g.r.Chance(1, 6))
			case 'A':
				g.put(g.value(0, false), 'n')
				g.put(g.value(0, false), 'n')
				g.put(g.value(0, false), 'n')
				g.put(g.r.Pick("0", "1"), 'f')
				g.put(g.r.Pick("0", "1"), 'f')
				pair(cx, cy, coin && g.r.Chance(1, 4))
			}
		}
	}
	if g.r.Chance(1, 10) {
		g.sb.WriteString(g.r.Pick(" ", "\n"))
	}
	return g.sb.String()
}

// genPath returns valid path data; with known=false data showing the input shape of a
// known defect is rejected and regenerated (the rejected ids are reported).
func genPath(r *vh.Rand, known bool, hits map[string]bool) (string, []string) {
	var avoided []string
	for try := 0; ; try++ {
		g := &pgen{r: r.Fork(), known: known, hits: map[string]bool{}}
		s := g.gen()
		pi, err := parsePath(s)
		if err != nil {
			// generator bug: surfaces as "not judged" in the statistics
			for k := range g.hits {
				hits[k] = true
			}
			return s, avoided
		}
		sh := pathShapes(s, pi)
		if known || len(sh) == 0 {
			for k := range g.hits {
				hits[k] = true
			}
			return s, avoided
		}
		for k := range sh {
			avoided = append(avoided, k)
		}
		if try > 60 {
			return "M0 0", append(avoided, "gave-up")
		}
	}
}

// hugePath: more than 100000 bytes, which ShortenPathData passes through untouched.
func hugePath(r *vh.Rand) string {
	var sb strings.Builder
	sb.WriteString("M0 0")
	for sb.Len() <= 100000 {
		fmt.Fprintf(&sb, " l%d.0 %d", r.Intn(9), r.Intn(9))
	}
	return sb.String()
}
