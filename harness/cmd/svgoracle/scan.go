package main

// A strict raw scanner for XML 1.0 documents. encoding/xml is the well-formedness
// authority for the token walk, but it (a) does not expose the raw attribute text that
// XML 1.0 section 3.3.3 normalisation is defined on, (b) does not distinguish CDATA from
// character data and (c) is lenient about a few productions (missing white space between
// attributes, duplicate attributes, several roots). This scanner fills those gaps.

import (
	"fmt"
	"regexp"
	"strconv"
	"strings"
	"unicode/utf8"
)

const (
	tText = iota
	tCDATA
	tComment
	tPI
	tDoctype
	tSTag
	tETag
	tEmpty
)

var kindNames = []string{"text", "cdata", "comment", "pi", "doctype", "stag", "etag", "emptytag"}

type rattr struct {
	name  string
	raw   string // raw text between the quotes
	quote byte
}

type rtok struct {
	kind  int
	raw   string
	name  string  // tag name / PI target
	data  string  // text, CDATA content, comment content, PI data, DOCTYPE body
	attrs []rattr // start / empty tags
	pos   int
}

func isXMLSpace(c byte) bool { return c == ' ' || c == '\t' || c == '\n' || c == '\r' }

func isNameStart(r rune) bool {
	return r == ':' || r == '_' || r >= 'A' && r <= 'Z' || r >= 'a' && r <= 'z' || r >= 0xC0 && r != 0xD7 && r != 0xF7 && r < 0x2000 ||
		r >= 0x2070 && r <= 0x218F || r >= 0x2C00 && r <= 0x2FEF || r >= 0x3001 && r <= 0xD7FF || r >= 0xF900 && r <= 0xFDCF || r >= 0xFDF0 && r <= 0xFFFD || r >= 0x10000 && r <= 0xEFFFF
}

func isNameChar(r rune) bool {
	return isNameStart(r) || r == '-' || r == '.' || r >= '0' && r <= '9' || r == 0xB7 || r >= 0x300 && r <= 0x36F || r == 0x203F || r == 0x2040
}

func scanName(s string, i int) int {
	r, n := utf8.DecodeRuneInString(s[i:])
	if n == 0 || !isNameStart(r) {
		return i
	}
	i += n
	for i < len(s) {
		r, n = utf8.DecodeRuneInString(s[i:])
		if !isNameChar(r) {
			break
		}
		i += n
	}
	return i
}

func skipSpace(s string, i int) int {
	for i < len(s) && isXMLSpace(s[i]) {
		i++
	}
	return i
}

// doctypeEnd returns the index just after the '>' that closes the DOCTYPE starting at i
// (s[i:] begins with "<!DOCTYPE"), honouring both quote kinds, comments and PIs in the
// internal subset.
func doctypeEnd(s string, i int) int {
	j := i + len("<!DOCTYPE")
	inSubset := false
	for j < len(s) {
		c := s[j]
		switch {
		case c == '"' || c == '\'':
			k := strings.IndexByte(s[j+1:], c)
			if k < 0 {
				return -1
			}
			j += k + 2
			continue
		case inSubset && strings.HasPrefix(s[j:], "<!--"):
			k := strings.Index(s[j+4:], "-->")
			if k < 0 {
				return -1
			}
			j += 4 + k + 3
			continue
		case inSubset && strings.HasPrefix(s[j:], "<?"):
			k := strings.Index(s[j+2:], "?>")
			if k < 0 {
				return -1
			}
			j += 2 + k + 2
			continue
		case c == '[':
			inSubset = true
		case c == ']':
			inSubset = false
		case c == '>' && !inSubset:
			return j + 1
		}
		j++
	}
	return -1
}

// lexerDoctypeEnd mimics parse/v2/xml.Lexer.shiftDOCTYPEText (only '"' toggles strings,
// every '[' / ']' outside a string switches the bracket state). Used to recognise the
// N04 shape: documents where that simplified scan ends somewhere else than the real end.
func lexerDoctypeEnd(s string, i int) int {
	j := i + len("<!DOCTYPE")
	inString, inBrackets := false, false
	for j < len(s) {
		c := s[j]
		if c == '"' {
			inString = !inString
		} else if (c == '[' || c == ']') && !inString {
			inBrackets = c == '['
		} else if c == '>' && !inString && !inBrackets {
			return j + 1
		}
		j++
	}
	return len(s)
}

// scan tokenises a document. It is strict: anything that is not well-formed at the
// lexical level yields an error.
func scan(s string) ([]rtok, error) {
	var out []rtok
	i := 0
	for i < len(s) {
		if s[i] != '<' {
			j := strings.IndexByte(s[i:], '<')
			if j < 0 {
				j = len(s)
			} else {
				j += i
			}
			out = append(out, rtok{kind: tText, raw: s[i:j], data: s[i:j], pos: i})
			i = j
			continue
		}
		switch {
		case strings.HasPrefix(s[i:], "<!--"):
			k := strings.Index(s[i+4:], "-->")
			if k < 0 {
				return out, fmt.Errorf("unterminated comment at %d", i)
			}
			body := s[i+4 : i+4+k]
			if strings.Contains(body, "--") || strings.HasSuffix(body, "-") {
				return out, fmt.Errorf("-- inside comment at %d", i)
			}
			e := i + 4 + k + 3
			out = append(out, rtok{kind: tComment, raw: s[i:e], data: body, pos: i})
			i = e
		case strings.HasPrefix(s[i:], "<![CDATA["):
			k := strings.Index(s[i+9:], "]]>")
			if k < 0 {
				return out, fmt.Errorf("unterminated CDATA at %d", i)
			}
			e := i + 9 + k + 3
			out = append(out, rtok{kind: tCDATA, raw: s[i:e], data: s[i+9 : i+9+k], pos: i})
			i = e
		case strings.HasPrefix(s[i:], "<!DOCTYPE"):
			e := doctypeEnd(s, i)
			if e < 0 {
				return out, fmt.Errorf("unterminated DOCTYPE at %d", i)
			}
			out = append(out, rtok{kind: tDoctype, raw: s[i:e], data: s[i+9 : e-1], pos: i})
			i = e
		case strings.HasPrefix(s[i:], "<?"):
			k := strings.Index(s[i+2:], "?>")
			if k < 0 {
				return out, fmt.Errorf("unterminated PI at %d", i)
			}
			e := i + 2 + k + 2
			ne := scanName(s, i+2)
			if ne == i+2 || ne > e-2 {
				return out, fmt.Errorf("bad PI target at %d", i)
			}
			data := s[ne : e-2]
			if data != "" && !isXMLSpace(data[0]) {
				return out, fmt.Errorf("no space after PI target at %d", i)
			}
			out = append(out, rtok{kind: tPI, raw: s[i:e], name: s[i+2 : ne], data: strings.TrimLeft(data, " \t\r\n"), pos: i})
			i = e
		case strings.HasPrefix(s[i:], "</"):
			ne := scanName(s, i+2)
			if ne == i+2 {
				return out, fmt.Errorf("bad end tag at %d", i)
			}
			j := skipSpace(s, ne)
			if j >= len(s) || s[j] != '>' {
				return out, fmt.Errorf("bad end tag at %d", i)
			}
			out = append(out, rtok{kind: tETag, raw: s[i : j+1], name: s[i+2 : ne], pos: i})
			i = j + 1
		default:
			ne := scanName(s, i+1)
			if ne == i+1 {
				return out, fmt.Errorf("bad start tag at %d", i)
			}
			t := rtok{kind: tSTag, name: s[i+1 : ne], pos: i}
			j := ne
			seen := map[string]bool{}
			for {
				k := skipSpace(s, j)
				if k >= len(s) {
					return out, fmt.Errorf("unterminated tag at %d", i)
				}
				if s[k] == '>' {
					j = k + 1
					break
				}
				if s[k] == '/' && k+1 < len(s) && s[k+1] == '>' {
					t.kind = tEmpty
					j = k + 2
					break
				}
				if k == j {
					return out, fmt.Errorf("missing white space before attribute at %d", k)
				}
				ae := scanName(s, k)
				if ae == k {
					return out, fmt.Errorf("bad attribute name at %d", k)
				}
				an := s[k:ae]
				if seen[an] {
					return out, fmt.Errorf("duplicate attribute %s at %d", an, k)
				}
				seen[an] = true
				k = skipSpace(s, ae)
				if k >= len(s) || s[k] != '=' {
					return out, fmt.Errorf("attribute without value at %d", k)
				}
				k = skipSpace(s, k+1)
				if k >= len(s) || s[k] != '"' && s[k] != '\'' {
					return out, fmt.Errorf("unquoted attribute value at %d", k)
				}
				q := s[k]
				m := strings.IndexByte(s[k+1:], q)
				if m < 0 {
					return out, fmt.Errorf("unterminated attribute value at %d", k)
				}
				val := s[k+1 : k+1+m]
				if strings.IndexByte(val, '<') >= 0 {
					return out, fmt.Errorf("< in attribute value at %d", k)
				}
				t.attrs = append(t.attrs, rattr{name: an, raw: val, quote: q})
				j = k + 1 + m + 1
			}
			t.raw = s[i:j]
			out = append(out, t)
			i = j
		}
	}
	return out, nil
}

var (
	reDTDComment = regexp.MustCompile(`(?s)<!--.*?-->`)
	reEntity     = regexp.MustCompile(`<!ENTITY\s+([^\s%"'<>]+)\s+(?:"([^"]*)"|'([^']*)')\s*>`)
	reAnyEntity  = regexp.MustCompile(`<!ENTITY\s`)
)

// entitiesOf extracts internal general entities declared in the DOCTYPE. complex is
// true when a declaration cannot be handled faithfully by the literal replacement that
// encoding/xml performs (markup or references inside the value, external or parameter
// entities): such documents are not judged.
func entitiesOf(toks []rtok) (ents map[string]string, complex bool) {
	ents = map[string]string{}
	for _, t := range toks {
		if t.kind != tDoctype {
			continue
		}
		body := reDTDComment.ReplaceAllString(t.data, " ")
		ms := reEntity.FindAllStringSubmatch(body, -1)
		if len(ms) != len(reAnyEntity.FindAllString(body, -1)) {
			complex = true
		}
		for _, m := range ms {
			v := m[2]
			if v == "" {
				v = m[3]
			}
			if strings.ContainsAny(v, "<&%") {
				complex = true
			}
			if _, dup := ents[m[1]]; !dup { // first declaration binds
				ents[m[1]] = v
			}
		}
	}
	return
}

func normLineEnds(s string) string {
	if strings.IndexByte(s, '\r') < 0 {
		return s
	}
	s = strings.ReplaceAll(s, "\r\n", "\n")
	return strings.ReplaceAll(s, "\r", "\n")
}

var predefined = map[string]string{"lt": "<", "gt": ">", "amp": "&", "quot": "\"", "apos": "'"}

// normAttr implements XML 1.0 section 3.3.3 (CDATA attribute type) on the raw text.
func normAttr(raw string, ents map[string]string) (string, error) {
	return normAttrRec(normLineEnds(raw), ents, 0)
}

func normAttrRec(raw string, ents map[string]string, depth int) (string, error) {
	if depth > 8 {
		return "", fmt.Errorf("entity recursion")
	}
	var sb strings.Builder
	for i := 0; i < len(raw); {
		c := raw[i]
		switch {
		case c == '&':
			k := strings.IndexByte(raw[i:], ';')
			if k < 0 {
				return "", fmt.Errorf("unterminated reference")
			}
			ref := raw[i+1 : i+k]
			i += k + 1
			if strings.HasPrefix(ref, "#") {
				r, err := charRef(ref)
				if err != nil {
					return "", err
				}
				sb.WriteRune(r)
			} else if v, ok := predefined[ref]; ok {
				sb.WriteString(v)
			} else if v, ok := ents[ref]; ok {
				n, err := normAttrRec(normLineEnds(v), ents, depth+1)
				if err != nil {
					return "", err
				}
				sb.WriteString(n)
			} else {
				return "", fmt.Errorf("undeclared entity %s", ref)
			}
		case c == ' ' || c == '\t' || c == '\n' || c == '\r':
			sb.WriteByte(' ')
			i++
		default:
			sb.WriteByte(c)
			i++
		}
	}
	return sb.String(), nil
}

func charRef(ref string) (rune, error) {
	var v uint64
	var err error
	if strings.HasPrefix(ref, "#x") {
		v, err = strconv.ParseUint(ref[2:], 16, 32)
	} else {
		v, err = strconv.ParseUint(ref[1:], 10, 32)
	}
	if err != nil {
		return 0, fmt.Errorf("bad character reference &%s;", ref)
	}
	return rune(v), nil
}

var reNumRef = regexp.MustCompile(`&#(x[0-9a-fA-F]+|[0-9]+);`)

// numRefs returns the code points of all numeric character references in raw.
func numRefs(raw string) []rune {
	var out []rune
	for _, m := range reNumRef.FindAllStringSubmatch(raw, -1) {
		if r, err := charRef("#" + m[1]); err == nil {
			out = append(out, r)
		}
	}
	return out
}
