// tablecheck: search oracle for C17 — every entry of the built-in rewrite tables, directly (exported maps) and through
// the public minifiers, against independent sources (Go's html package, golang.org/x/net/html, x/image/colornames and
// hand-written lists from the HTML/CSS standards). Exhaustive over the tables: no randomness.
//
//	tablecheck -out DIR [-seed N] [-tier quick|thorough] [-witness FILE]
package main

import (
	"bytes"
	"encoding/json"
	"flag"
	"fmt"
	stdhtml "html"
	"os"
	"path/filepath"
	"sort"
	"strings"

	"github.com/tdewolff/minify/v2"
	mcss "github.com/tdewolff/minify/v2/css"
	mhtml "github.com/tdewolff/minify/v2/html"
	msvg "github.com/tdewolff/minify/v2/svg"
	mxml "github.com/tdewolff/minify/v2/xml"
	"golang.org/x/image/colornames"
	xhtml "golang.org/x/net/html"
	"verifharness/internal/vh"
)

var res = &vh.Result{Engine: "tablecheck"}

func viol(sig, in, obs, exp, det string) {
	res.Violations = append(res.Violations, vh.Violation{Kind: "oracle", Signature: sig, Input: in, Observed: obs, Expected: exp, Detail: det})
}

func newM() *minify.M {
	m := minify.New()
	m.AddFunc("text/html", mhtml.Minify)
	m.AddFunc("text/css", mcss.Minify)
	m.AddFunc("image/svg+xml", msvg.Minify)
	m.AddFunc("text/xml", mxml.Minify)
	return m
}

// textOf parses an HTML fragment and returns the concatenated text and the attribute values, whitespace-normalised
func textOf(src string) (string, map[string]string) {
	nodes, err := xhtml.ParseFragment(strings.NewReader(src), &xhtml.Node{Type: xhtml.ElementNode, Data: "body", DataAtom: 0})
	if err != nil {
		return "ERR", nil
	}
	var b strings.Builder
	attrs := map[string]string{}
	var walk func(n *xhtml.Node)
	walk = func(n *xhtml.Node) {
		if n.Type == xhtml.TextNode {
			b.WriteString(n.Data)
		}
		for _, a := range n.Attr {
			attrs[a.Key] = a.Val
		}
		for c := n.FirstChild; c != nil; c = c.NextSibling {
			walk(c)
		}
	}
	for _, n := range nodes {
		walk(n)
	}
	return strings.Join(strings.Fields(b.String()), " "), attrs
}

func colorOf(s string) (r, g, b uint8, ok bool) {
	s = strings.ToLower(strings.TrimSpace(s))
	if strings.HasPrefix(s, "#") {
		h := s[1:]
		if len(h) == 3 {
			h = string([]byte{h[0], h[0], h[1], h[1], h[2], h[2]})
		}
		if len(h) != 6 {
			return
		}
		var v [3]uint8
		for i := 0; i < 3; i++ {
			var x int
			if _, err := fmt.Sscanf(h[2*i:2*i+2], "%02x", &x); err != nil {
				return
			}
			v[i] = uint8(x)
		}
		return v[0], v[1], v[2], true
	}
	if strings.HasPrefix(s, "rgb(") {
		var x, y, z int
		if _, err := fmt.Sscanf(strings.ReplaceAll(s, " ", ""), "rgb(%d,%d,%d)", &x, &y, &z); err == nil {
			return uint8(x), uint8(y), uint8(z), true
		}
		return
	}
	if s == "rebeccapurple" {
		return 102, 51, 153, true
	}
	if c, found := colornames.Map[s]; found {
		return c.R, c.G, c.B, true
	}
	return
}

var blockLike = strings.Fields(`address article aside blockquote body center dd details dialog dir div dl dt fieldset figcaption figure footer form
 h1 h2 h3 h4 h5 h6 header hgroup hr html legend listing main menu nav ol optgroup option p plaintext pre search section summary ul xmp frameset frame
 li table caption colgroup col thead tbody tfoot tr td th area base basefont datalist head link meta noembed noframes param rp script style template
 title source track noscript br wbr`)
var booleanAttrs = strings.Fields(`allowfullscreen async autofocus autoplay checked controls default defer disabled formnovalidate inert ismap itemscope loop
 multiple muted nomodule novalidate open playsinline readonly required reversed selected shadowrootdelegatesfocus shadowrootclonable shadowrootserializable`)
var zeroUnits = strings.Fields(`em rem ex rex cap rcap ch rch ic ric lh rlh vw vh vi vb vmin vmax svw svh lvw lvh dvw dvh cm mm q in pt pc px deg grad rad turn`)
var otherUnits = strings.Fields(`s ms hz khz dpi dpcm dppx x fr %`)
var someTags = strings.Fields(`a abbr b bdi bdo button cite code data del dfn em i img input ins kbd label map mark meter object output progress q ruby s samp select
 small span strong sub sup time u var video audio canvas marquee nobr font big tt acronym x-custom slot`)

func has(l []string, s string) bool {
	for _, x := range l {
		if x == s {
			return true
		}
	}
	return false
}

func main() {
	outDir := flag.String("out", ".", "")
	seed := flag.Uint64("seed", 1, "")
	tier := flag.String("tier", "quick", "")
	witness := flag.String("witness", "", "")
	flag.Parse()
	res.Seed, res.Tier = *seed, *tier
	os.MkdirAll(*outDir, 0o755)
	m := newM()
	only := ""
	if *witness != "" {
		var w struct {
			Input string `json:"input"`
		}
		b, _ := os.ReadFile(*witness)
		json.Unmarshal(b, &w)
		only = w.Input
	}
	want := func(key string) bool { return only == "" || only == key }

	// ---- HTML entities: direct + through the minifier, text and attribute context
	var names []string
	for n := range mhtml.EntitiesMap {
		names = append(names, n)
	}
	sort.Strings(names)
	for _, n := range names {
		key := "html-entity:" + n
		if !want(key) {
			continue
		}
		repl := string(mhtml.EntitiesMap[n])
		ref := "&" + n + ";"
		res.Evaluations++
		if stdhtml.UnescapeString(ref) == ref {
			viol("entity:not-an-html5-reference", key, repl, "", "")
			continue
		}
		if stdhtml.UnescapeString(ref) != stdhtml.UnescapeString(repl) && !(repl == "&" || repl == "<") {
			viol("entity:replacement-decodes-differently", key, repl, stdhtml.UnescapeString(ref), "")
		}
		if (repl == "&" && stdhtml.UnescapeString(ref) != "&") || (repl == "<" && stdhtml.UnescapeString(ref) != "<") {
			viol("entity:replacement-decodes-differently", key, repl, stdhtml.UnescapeString(ref), "")
		}
		for _, ctx := range []string{"<p>x%sy</p>", "<p>%s</p>", "<p>a %s= b</p>", "<a title=\"x%sy\">t</a>", "<a title=%s>t</a>", "<a title=\"%s=1\">t</a>"} {
			src := fmt.Sprintf(ctx, ref)
			out, err := m.String("text/html", src)
			res.Evaluations++
			if err != nil {
				viol("entity:minifier-error", key, err.Error(), "", src)
				continue
			}
			t1, a1 := textOf(src)
			t2, a2 := textOf(out)
			if t1 != t2 || a1["title"] != a2["title"] {
				viol("entity:document-text-changed", key, out, src, fmt.Sprintf("text %q vs %q, title %q vs %q", t2, t1, a2["title"], a1["title"]))
			}
			if out != src {
				res.DistinctNontrivial++
			}
		}
	}
	for c, esc := range mhtml.TextRevEntitiesMap {
		res.Evaluations++
		if want("html-rev:"+string(c)) && stdhtml.UnescapeString(string(esc)) != string(c) {
			viol("entity:reverse-escape-wrong", "html-rev:"+string(c), string(esc), string(c), "")
		}
	}
	// ---- XML entities
	xmlRef := map[string]string{"lt": "<", "gt": ">", "amp": "&", "apos": "'", "quot": "\""}
	for n, repl := range mxml.EntitiesMap {
		res.Evaluations++
		if !want("xml-entity:" + n) {
			continue
		}
		if r, ok := xmlRef[n]; !ok || r != string(repl) {
			viol("entity:xml-replacement-wrong", "xml-entity:"+n, string(repl), xmlRef[n], "")
		}
	}
	for c, esc := range mxml.TextRevEntitiesMap {
		res.Evaluations++
		e := string(esc)
		if want("xml-rev:"+string(c)) && !(strings.HasPrefix(e, "&") && strings.HasSuffix(e, ";") && xmlRef[e[1:len(e)-1]] == string(c)) {
			viol("entity:reverse-escape-wrong", "xml-rev:"+string(c), e, string(c), "")
		}
	}
	// ---- colours: direct + through css and svg
	for hex, name := range mcss.ShortenColorHex {
		key := "color-hex:" + hex
		if !want(key) {
			continue
		}
		res.Evaluations++
		r1, g1, b1, ok1 := colorOf(hex)
		r2, g2, b2, ok2 := colorOf(string(name))
		if !ok1 || !ok2 || r1 != r2 || g1 != g2 || b1 != b2 {
			viol("color:hex-to-name-wrong", key, string(name), "", "")
		}
	}
	var allNames []string
	for n := range colornames.Map {
		allNames = append(allNames, n)
	}
	allNames = append(allNames, "rebeccapurple")
	sort.Strings(allNames)
	for h, hex := range mcss.ShortenColorName {
		key := "color-name:" + h.String()
		if !want(key) {
			continue
		}
		res.Evaluations++
		r1, g1, b1, ok1 := colorOf(h.String())
		r2, g2, b2, ok2 := colorOf(string(hex))
		if !ok1 {
			if h.String() == "lightslateblue" {
				viol("K21-lightslateblue-is-not-a-css-colour", key, string(hex), "", "css/table.go ShortenColorName")
			} else {
				viol("color:keyword-is-not-a-css-colour", key, string(hex), "", "")
			}
		} else if !ok2 || r1 != r2 || g1 != g2 || b1 != b2 {
			viol("color:name-to-hex-wrong", key, string(hex), "", "")
		}
	}
	var colorInputs []string
	for _, n := range allNames {
		colorInputs = append(colorInputs, n, strings.ToUpper(n))
		c := colornames.Map[n]
		if n == "rebeccapurple" {
			colorInputs = append(colorInputs, "#663399")
		} else {
			colorInputs = append(colorInputs, fmt.Sprintf("#%02x%02x%02x", c.R, c.G, c.B), fmt.Sprintf("#%02X%02X%02X", c.R, c.G, c.B), fmt.Sprintf("rgb(%d,%d,%d)", c.R, c.G, c.B))
		}
	}
	for _, cin := range colorInputs {
		key := "color-public:" + cin
		if !want(key) {
			continue
		}
		r1, g1, b1, ok1 := colorOf(cin)
		if strings.HasPrefix(cin, "rgb(") {
			fmt.Sscanf(cin, "rgb(%d,%d,%d)", &r1, &g1, &b1)
			ok1 = true
		}
		if !ok1 {
			continue
		}
		src := "a{color:" + cin + "}"
		out, err := m.String("text/css", src)
		res.Evaluations++
		if err != nil || !strings.HasPrefix(out, "a{color:") {
			viol("color:css-output-unreadable", key, out, "", src)
			continue
		}
		val := strings.TrimSuffix(strings.TrimPrefix(out, "a{color:"), "}")
		r2, g2, b2, ok2 := colorOf(val)
		if !ok2 || r1 != r2 || g1 != g2 || b1 != b2 {
			viol("color:css-colour-changed", key, out, src, "")
		}
		if len(out) > len(src) {
			viol("color:css-output-longer", key, out, src, "")
		}
		if out != src {
			res.DistinctNontrivial++
		}
		ssrc := `<svg xmlns="http://www.w3.org/2000/svg"><rect fill="` + cin + `"/></svg>`
		sout, err := m.String("image/svg+xml", ssrc)
		res.Evaluations++
		if err == nil {
			i := strings.Index(sout, "fill=")
			if i < 0 {
				viol("color:svg-attribute-lost", key, sout, ssrc, "")
			} else {
				v := strings.Trim(strings.TrimRight(strings.SplitN(sout[i+5:], "/", 2)[0], ">"), `"' `)
				r3, g3, b3, ok3 := colorOf(v)
				if !ok3 || r1 != r3 || g1 != g3 || b1 != b3 {
					viol("color:svg-colour-changed", key, sout, ssrc, v)
				}
			}
		}
	}
	// ---- zero units through css
	for _, u := range append(append([]string{}, zeroUnits...), otherUnits...) {
		key := "zero-unit:" + u
		if !want(key) {
			continue
		}
		src := "a{width:0" + u + ";transition-delay:0" + u + "}"
		prop := "width"
		if u == "s" || u == "ms" {
			prop = "transition-delay"
		}
		src = "a{" + prop + ":0" + u + "}"
		out, err := m.String("text/css", src)
		res.Evaluations++
		if err != nil {
			continue
		}
		dropped := out == "a{"+prop+":0}"
		if dropped && !has(zeroUnits, u) {
			viol("zero-unit:dropped-from-non-length-angle", key, out, src, "")
		}
		if dropped {
			res.DistinctNontrivial++
		}
	}
	// ---- traits through the HTML minifier
	tags := append(append([]string{}, blockLike...), someTags...)
	for _, tg := range tags {
		key := "tag-whitespace:" + tg
		if !want(key) || has([]string{"html", "head", "body", "plaintext", "xmp", "listing", "pre", "script", "style", "title", "noscript", "template", "frameset", "frame", "noembed", "noframes", "textarea", "option", "optgroup", "select", "colgroup", "col", "caption", "thead", "tbody", "tfoot", "tr", "td", "th", "table", "area", "base", "basefont", "link", "meta", "param", "source", "track", "br", "wbr", "hr", "img", "input", "li", "dd", "dt", "rp", "datalist", "summary", "legend", "map", "object", "video", "audio", "canvas", "ruby", "button", "meter", "progress", "output", "label"}, tg) {
			continue
		}
		src := "<div>a <" + tg + ">b</" + tg + "> c</div>"
		out, err := m.String("text/html", src)
		res.Evaluations++
		if err != nil {
			continue
		}
		lost := !strings.Contains(out, "a <") || !strings.Contains(out, "> c")
		if lost && !has(blockLike, tg) {
			viol("trait:whitespace-dropped-next-to-inline-element", key, out, src, "")
		}
		if lost {
			res.DistinctNontrivial++
		}
	}
	attrsToTry := append(append([]string{}, booleanAttrs...), strings.Fields("title alt class id name value href src type hidden contenteditable draggable spellcheck translate download data-x aria-hidden")...)
	for _, at := range attrsToTry {
		key := "attr-boolean:" + at
		if !want(key) {
			continue
		}
		src := "<input " + at + "=\"" + at + "\">"
		out, err := m.String("text/html", src)
		res.Evaluations++
		if err != nil {
			continue
		}
		if out == "<input "+at+">" && !has(booleanAttrs, at) {
			viol("trait:value-dropped-from-non-boolean-attribute", key, out, src, "")
		}
		src2 := "<input " + at + "=\"other\">"
		out2, _ := m.String("text/html", src2)
		res.Evaluations++
		if out2 == "<input "+at+">" && !has(booleanAttrs, at) {
			viol("trait:value-dropped-from-non-boolean-attribute", key, out2, src2, "")
		}
		if out != src {
			res.DistinctNontrivial++
		}
	}
	// raw text: content of script/style/textarea/title must not be entity-decoded or whitespace-collapsed; content of other
	// elements is
	for _, tg := range []string{"script", "style", "textarea", "title", "div", "span", "p", "code", "pre"} { // obsolete xmp/listing/plaintext are outside "conforming documents"
		key := "tag-raw:" + tg
		if !want(key) {
			continue
		}
		body := "a  &amp;lt;  b"
		src := "<" + tg + ">" + body + "</" + tg + ">"
		mm := minify.New()
		mm.AddFunc("text/html", mhtml.Minify)
		out, err := mm.String("text/html", src)
		res.Evaluations++
		if err != nil {
			continue
		}
		raw := has([]string{"script", "style", "textarea", "title", "iframe", "noscript", "xmp", "noembed", "noframes", "plaintext"}, tg)
		if !raw && tg != "pre" && tg != "code" && !bytes.Contains([]byte(out), []byte("a &amp;lt; b")) && !bytes.Contains([]byte(out), []byte("a &amp;lt b")) {
			viol("trait:normal-element-text-not-collapsed-or-changed", key, out, src, "")
		}
		if strings.Contains(out, "&lt;  b") == false && raw && tg != "title" && tg != "iframe" && tg != "noscript" && !strings.Contains(out, body) {
			viol("trait:raw-text-content-changed", key, out, src, "")
		}
	}
	res.Exhaustive = only == ""
	res.Rule = "every entry of html.EntitiesMap (direct decode vs Go's html package, and through html.Minify in 3 text and 3 attribute contexts re-parsed by x/net/html), TextRevEntitiesMap, xml tables, css.ShortenColorHex/ShortenColorName (direct vs x/image/colornames, and every CSS colour keyword / its hex / rgb() through css.Minify and svg.Minify), every CSS unit on a zero through css.Minify, and element/attribute traits through html.Minify (whitespace next to each element, boolean collapsing of each attribute, raw text); distinct_nontrivial = cases whose output differs from the input"
	res.Samples = []interface{}{
		map[string]string{"entity": "Aacute", "replacement": string(mhtml.EntitiesMap["Aacute"])},
		map[string]string{"colour": "#ff0000", "keyword": string(mcss.ShortenColorHex["#ff0000"])},
	}
	if len(res.Violations) > 60 {
		res.Violations = res.Violations[:60]
	}
	if err := res.Write(filepath.Join(*outDir, "result.json")); err != nil {
		panic(err)
	}
}
