// totalcheck: correspondence data and search for C10 — minifiers are total: no panic, no hang, input handed back on error.
//
//	totalcheck -seed N -n COUNT -out DIR [-tier quick|thorough] [-witness FILE]
//
// (a) look-ahead buffers (html/xml/svg TokenBuffer): random Peek/Shift sequences on real lexers vs the extracted F1 model;
// (b) hostile inputs (mutations, splices, truncations, deep nesting, non-UTF-8) through all six minifiers and the helpers,
//
//	with recover, a per-input time limit proportional to size, and a memory ceiling;
//
// (c) Bytes/String hand back the caller's data unchanged on error; (d) time roughly linear in the input size.
package main

import (
	"bufio"
	"bytes"
	"encoding/json"
	"flag"
	"fmt"
	"os"
	"path/filepath"
	"runtime"
	"runtime/debug"
	"sort"
	"strings"
	"sync"
	"sync/atomic"
	"time"

	"github.com/tdewolff/minify/v2"
	"github.com/tdewolff/minify/v2/css"
	mhtml "github.com/tdewolff/minify/v2/html"
	"github.com/tdewolff/minify/v2/js"
	mjson "github.com/tdewolff/minify/v2/json"
	msvg "github.com/tdewolff/minify/v2/svg"
	mxml "github.com/tdewolff/minify/v2/xml"
	"github.com/tdewolff/parse/v2"
	phtml "github.com/tdewolff/parse/v2/html"
	pxml "github.com/tdewolff/parse/v2/xml"
	"verifharness/internal/vh"
)

var res = &vh.Result{Engine: "totalcheck"}
var mu sync.Mutex

func viol(kind, sig, mt string, in []byte, det string, opts map[string]string) {
	mu.Lock()
	defer mu.Unlock()
	show := in
	if len(show) > 300 {
		show = show[:300]
	}
	o := map[string]string{"mediatype": mt}
	for k, v := range opts {
		o[k] = v
	}
	hx := ""
	if len(in) <= 20000 {
		hx = vh.Hex(in)
	}
	res.Violations = append(res.Violations, vh.Violation{Kind: kind, Signature: sig, Input: fmt.Sprintf("%q", show), InputHex: hx, Detail: det, Options: o})
}

func newM() *minify.M {
	m := minify.New()
	m.AddFunc("text/css", css.Minify)
	m.AddFunc("text/html", mhtml.Minify)
	m.AddFunc("image/svg+xml", msvg.Minify)
	m.AddFunc("application/javascript", js.Minify)
	m.AddFunc("application/json", mjson.Minify)
	m.AddFunc("text/xml", mxml.Minify)
	return m
}

var types = []string{"text/css", "text/html", "image/svg+xml", "application/javascript", "application/json", "text/xml"}
var corpusDir = map[string]string{"text/css": "css", "text/html": "html", "image/svg+xml": "svg", "application/javascript": "js", "application/json": "json", "text/xml": "xml"}
var benchExt = map[string]string{"text/css": ".css", "text/html": ".html", "image/svg+xml": ".svg", "application/javascript": ".js", "application/json": ".json", "text/xml": ".xml"}

// ---------- (a) token buffers ----------
type peeker interface {
	peek(i int) int
	shift() int
}
type htmlTB struct{ tb *mhtml.TokenBuffer }

func (h htmlTB) peek(i int) int { return int(h.tb.Peek(i).TokenType) }
func (h htmlTB) shift() int     { return int(h.tb.Shift().TokenType) }

type xmlTB struct{ tb *mxml.TokenBuffer }

func (h xmlTB) peek(i int) int { return int(h.tb.Peek(i).TokenType) }
func (h xmlTB) shift() int     { return int(h.tb.Shift().TokenType) }

type svgTB struct{ tb *msvg.TokenBuffer }

func (h svgTB) peek(i int) int { return int(h.tb.Peek(i).TokenType) }
func (h svgTB) shift() int     { return int(h.tb.Shift().TokenType) }

func tokenTypes(kind string, src []byte) []int {
	var out []int
	if kind == "html" {
		l := phtml.NewLexer(parse.NewInputBytes(append([]byte{}, src...)))
		for {
			tt, _ := l.Next()
			if tt == phtml.ErrorToken {
				return out
			}
			out = append(out, int(tt))
		}
	}
	l := pxml.NewLexer(parse.NewInputBytes(append([]byte{}, src...)))
	for {
		tt, _ := l.Next()
		if tt == pxml.ErrorToken {
			return out
		}
		out = append(out, int(tt))
	}
}

func bufferCase(r *vh.Rand, kind string, src []byte, win, wout *bufio.Writer) {
	var p peeker
	in := parse.NewInputBytes(append([]byte{}, src...))
	switch kind {
	case "html":
		p = htmlTB{mhtml.NewTokenBuffer(in, phtml.NewLexer(in))}
	case "xml":
		p = xmlTB{mxml.NewTokenBuffer(pxml.NewLexer(in))}
	default:
		p = svgTB{msvg.NewTokenBuffer(in, pxml.NewLexer(in))}
	}
	toks := tokenTypes(kind, src)
	nops := 5 + r.Intn(40)
	var ops, outs []string
	func() {
		defer func() {
			if e := recover(); e != nil {
				outs = append(outs, "PANIC")
				viol("panic", "buffer:panic", kind, src, fmt.Sprint(e), map[string]string{"ops": strings.Join(ops, " ")})
			}
		}()
		for i := 0; i < nops; i++ {
			if r.Chance(2, 5) {
				ops = append(ops, "S")
				t := p.shift()
				outs = append(outs, fmt.Sprint(t))
				if t == 0 {
					// an ErrorToken was consumed: every minifier returns here and never touches the buffer again (a lexer
					// error that is not the end of input, e.g. a NUL byte, would be followed by further tokens)
					break
				}
			} else {
				k := r.Intn(6)
				if r.Chance(1, 8) {
					k = r.Intn(40)
				}
				ops = append(ops, fmt.Sprintf("P%d", k))
				outs = append(outs, fmt.Sprint(p.peek(k)))
			}
		}
	}()
	var ts []string
	for _, t := range toks {
		ts = append(ts, fmt.Sprint(t))
	}
	fmt.Fprintf(win, "tokbuf\t%s\t%s\n", strings.Join(ts, ","), strings.Join(ops, ","))
	fmt.Fprintf(wout, "%s\n", strings.Join(outs, ","))
}

// ---------- (b) hostile inputs ----------
func mutate(r *vh.Rand, b []byte, pool [][]byte) []byte {
	out := append([]byte{}, b...)
	n := 1 + r.Intn(4)
	for i := 0; i < n; i++ {
		if len(out) == 0 {
			out = append(out, byte(r.Intn(256)))
			continue
		}
		switch r.Intn(9) {
		case 0:
			out = out[:r.Intn(len(out))]
		case 1:
			i := r.Intn(len(out))
			out = append(out[:i], out[i+1:]...)
		case 2:
			out[r.Intn(len(out))] = byte(r.Intn(256))
		case 3:
			i := r.Intn(len(out))
			sp := "<>&\"'`{}[]()/*\\;:,.-+=!?#%$@\x00\n\t \xff\xc3e0"
			out = append(out[:i], append([]byte{sp[r.Intn(len(sp))]}, out[i:]...)...)
		case 4: // splice from another document
			o := pool[r.Intn(len(pool))]
			if len(o) > 0 {
				a := r.Intn(len(o))
				e := a + r.Intn(minInt(len(o)-a, 200)+1)
				i := r.Intn(len(out))
				out = append(out[:i], append(append([]byte{}, o[a:e]...), out[i:]...)...)
			}
		case 5: // duplicate a region
			a := r.Intn(len(out))
			e := a + r.Intn(minInt(len(out)-a, 100)+1)
			out = append(out[:e], append(append([]byte{}, out[a:e]...), out[e:]...)...)
		case 6: // keyword-ish insert
			kw := []string{"<script>", "</script>", "<style>", "<!--", "-->", "<![CDATA[", "]]>", "<svg>", "</svg>", "<math>", "url(", "data:", "/*", "*/", "${", "`", "=>", "function", "class", "async", "yield", "@media", "!important", "calc(", "e999999999999", "0x", "1e-", "\\u", "\\x", "&#", "&amp", "<?", "?>", "<!DOCTYPE", "<pre>", "<textarea>", "</", "/>", "{{", "}}"}
			i := r.Intn(len(out))
			out = append(out[:i], append([]byte(kw[r.Intn(len(kw))]), out[i:]...)...)
		case 7: // swap two bytes
			i, j := r.Intn(len(out)), r.Intn(len(out))
			out[i], out[j] = out[j], out[i]
		default: // chop the front
			out = out[r.Intn(len(out)):]
		}
	}
	if len(out) > 300000 {
		out = out[:300000]
	}
	return out
}

func minInt(a, b int) int {
	if a < b {
		return a
	}
	return b
}

type outcome struct {
	err      error
	panicked string
	dur      time.Duration
	out      []byte
}

func runOne(m *minify.M, mt string, in []byte, limit time.Duration) (outcome, bool) {
	ch := make(chan outcome, 1)
	go func() {
		var o outcome
		defer func() {
			if e := recover(); e != nil {
				o.panicked = fmt.Sprintf("%v\n%s", e, firstLines(string(debug.Stack()), 14))
			}
			ch <- o
		}()
		t0 := time.Now()
		var w bytes.Buffer
		o.err = m.Minify(mt, &w, bytes.NewReader(in))
		o.dur = time.Since(t0)
		o.out = w.Bytes()
	}()
	select {
	case o := <-ch:
		return o, true
	case <-time.After(limit):
		return outcome{}, false
	}
}

func firstLines(s string, n int) string {
	l := strings.Split(s, "\n")
	if len(l) > n {
		l = l[:n]
	}
	return strings.Join(l, "\n")
}

func panicSig(p string) string {
	// signature = the innermost minify/parse frame
	for _, l := range strings.Split(p, "\n") {
		l = strings.TrimSpace(l)
		if strings.HasPrefix(l, "github.com/tdewolff/") {
			if i := strings.Index(l, "("); i > 0 {
				l = l[:i]
			}
			return "panic:" + strings.TrimPrefix(l, "github.com/tdewolff/")
		}
	}
	return "panic:unknown-frame"
}

// hangs seen so far; after a few the run stops early (every hung call keeps a core busy until the process exits, and the
// finding is already made)
var hangs int32

func hostile(m *minify.M, mt string, in []byte, tag string) bool {
	if atomic.LoadInt32(&hangs) >= 3 {
		return false
	}
	limit := 2*time.Second + time.Duration(len(in))*20*time.Microsecond
	o, ok := runOne(m, mt, in, limit)
	mu.Lock()
	res.Evaluations++
	res.Hist("hostile", mt)
	mu.Unlock()
	if !ok {
		atomic.AddInt32(&hangs, 1)
		viol("timeout", "hang:"+mt, mt, in, fmt.Sprintf("no result within %v for %d bytes", limit, len(in)), map[string]string{"source": tag})
		return false
	}
	if o.panicked != "" {
		viol("panic", panicSig(o.panicked), mt, in, o.panicked, map[string]string{"source": tag})
		return false
	}
	mu.Lock()
	if o.err != nil {
		res.Hist("hostile-outcome", "error")
	} else {
		res.Hist("hostile-outcome", "accepted")
		if !bytes.Equal(o.out, in) {
			res.DistinctNontrivial++
		}
	}
	mu.Unlock()
	return true
}

// ---------- (c) Bytes / String on error ----------
func bytesOnError(m *minify.M, mt string, in []byte) {
	orig := append([]byte{}, in...)
	arg := append([]byte{}, in...)
	var out []byte
	var err error
	func() {
		defer func() { recover() }()
		out, err = m.Bytes(mt, arg)
	}()
	mu.Lock()
	res.Evaluations++
	mu.Unlock()
	if err == nil {
		return
	}
	mu.Lock()
	res.Hist("bytes-on-error", mt)
	mu.Unlock()
	if !bytes.Equal(out, orig) {
		viol("oracle", "K32-bytes-returns-rewritten-input-on-error", mt, orig, fmt.Sprintf("returned %q", trunc(out, 200)), nil)
	} else if !bytes.Equal(arg, orig) {
		viol("oracle", "K32-bytes-returns-rewritten-input-on-error", mt, orig, "the caller's slice was modified although an error is reported", nil)
	}
	so, serr := m.String(mt, string(orig))
	if serr != nil && so != string(orig) {
		viol("oracle", "string-not-original-on-error", mt, orig, so, nil)
	}
}

func trunc(b []byte, n int) []byte {
	if len(b) > n {
		return b[:n]
	}
	return b
}

// ---------- (d) linear time ----------
func linearity(m *minify.M, mt string, unit []byte, name string) {
	linearityWrapped(m, mt, "", unit, "", name, 0)
}

// linearityDouble: prefix + unit^n + mid + unit^n + suffix at n and 16n
func linearityDouble(m *minify.M, mt, prefix string, unit []byte, mid, suffix, name string) {
	unit2 := unit
	if k := strings.Index(mid, "|"); k >= 0 { // "mid|unit2": the second block repeats another unit
		unit2 = []byte(mid[k+1:])
		mid = mid[:k]
	}
	timeFor := func(rep int) (time.Duration, bool) {
		blk := bytes.Repeat(unit, rep)
		blk2 := bytes.Repeat(unit2, rep)
		in := append(append(append(append([]byte(prefix), blk...), mid...), blk2...), suffix...)
		best := time.Duration(1 << 62)
		for k := 0; k < 2; k++ {
			o, ok := runOne(m, mt, in, 20*time.Second)
			if !ok {
				return 0, false
			}
			if o.dur < best {
				best = o.dur
			}
		}
		return best, true
	}
	base := 32000 / maxInt(len(unit), 1) // 16x = 128k units per block: beyond every size cut-off in the minifiers
	t1, ok1 := timeFor(base)
	t8, ok8 := timeFor(base * 16)
	mu.Lock()
	res.Evaluations += 2
	res.Hist("linearity", mt)
	mu.Unlock()
	if !ok1 || !ok8 {
		viol("timeout", "superlinear:"+name, mt, unit, "repetition did not finish in 20 s", map[string]string{"unit": name, "prefix": prefix, "mid": mid, "suffix": suffix})
		return
	}
	if t1 < 200*time.Microsecond {
		t1 = 200 * time.Microsecond
	}
	if ratio := float64(t8) / float64(t1); ratio > 16*12 && t8 > 300*time.Millisecond {
		viol("timeout", "superlinear:"+name, mt, unit, fmt.Sprintf("16x input cost %.0fx time (%v -> %v)", ratio, t1, t8), map[string]string{"unit": name, "prefix": prefix, "mid": mid, "suffix": suffix})
	}
}

func linearityWrapped(m *minify.M, mt string, prefix string, unit []byte, suffix string, name string, baseRep int) {
	// time for 1x and 16x repetitions of a unit; flag only clearly super-linear growth
	timeFor := func(rep int) (time.Duration, bool) {
		in := append(append([]byte(prefix), bytes.Repeat(unit, rep)...), suffix...)
		best := time.Duration(1 << 62)
		runs := 3
		if baseRep > 0 {
			runs = 1
		}
		for k := 0; k < runs; k++ {
			o, ok := runOne(m, mt, in, 20*time.Second)
			if !ok {
				return 0, false
			}
			if o.dur < best {
				best = o.dur
			}
		}
		return best, true
	}
	base := 4000 / maxInt(len(unit), 1)
	if base < 8 {
		base = 8
	}
	if baseRep > 0 {
		base = baseRep
	}
	t1, ok1 := timeFor(base)
	t8, ok8 := timeFor(base * 16)
	mu.Lock()
	res.Evaluations += 2
	res.Hist("linearity", mt)
	mu.Unlock()
	if !ok1 || !ok8 {
		viol("timeout", "superlinear:"+name, mt, unit, "repetition did not finish in 20 s", map[string]string{"unit": name})
		return
	}
	if t1 < 200*time.Microsecond {
		t1 = 200 * time.Microsecond
	}
	ratio := float64(t8) / float64(t1)
	if ratio > 16*12 && t8 > 300*time.Millisecond { // 16x the input may cost far more than 16x only if super-linear
		viol("timeout", "superlinear:"+name, mt, unit, fmt.Sprintf("16x input cost %.0fx time (%v -> %v)", ratio, t1, t8), map[string]string{"unit": name})
	}
}

func maxInt(a, b int) int {
	if a > b {
		return a
	}
	return b
}

func main() {
	seed := flag.Uint64("seed", 1, "")
	n := flag.Int("n", 6000, "")
	outDir := flag.String("out", ".", "")
	tier := flag.String("tier", "quick", "")
	witness := flag.String("witness", "", "")
	flag.Parse()
	os.MkdirAll(*outDir, 0o755)
	res.Seed, res.Tier = *seed, *tier
	debug.SetMemoryLimit(12 << 30)
	if *tier == "thorough" && *n == 6000 {
		*n = 200000
	}
	m := newM()
	if *witness != "" {
		var w struct {
			InputHex string            `json:"input_hex"`
			Input    string            `json:"input"`
			Options  map[string]string `json:"options"`
		}
		b, _ := os.ReadFile(*witness)
		json.Unmarshal(b, &w)
		in := []byte(w.Input)
		if w.InputHex != "" {
			in = vh.Unhex(w.InputHex)
		}
		mt := w.Options["mediatype"]
		if w.Options["check"] == "linearity" {
			rep := 0
			fmt.Sscan(w.Options["base"], &rep)
			linearityWrapped(m, mt, w.Options["prefix"], []byte(w.Options["unit"]), w.Options["suffix"], w.Options["name"], rep)
		} else if w.Options["check"] == "bytes" {
			bytesOnError(m, mt, in)
		} else {
			if hostile(m, mt, in, "witness") {
				bytesOnError(m, mt, in)
			}
		}
		res.Samples = []interface{}{w.Input}
		res.Write(filepath.Join(*outDir, "result.json"))
		return
	}
	fin, _ := os.Create(filepath.Join(*outDir, "cases.in"))
	fout, _ := os.Create(filepath.Join(*outDir, "cases.go.out"))
	win, wout := bufio.NewWriterSize(fin, 1<<20), bufio.NewWriterSize(fout, 1<<20)
	r := vh.NewRand(*seed)

	// corpora
	pool := map[string][][]byte{}
	var all [][]byte
	for _, mt := range types {
		files, _ := filepath.Glob("/repo/tests/" + corpusDir[mt] + "/corpus/*")
		more, _ := filepath.Glob("/repo/_benchmarks/*" + benchExt[mt])
		sort.Strings(files)
		for _, f := range append(files, more...) {
			b, err := os.ReadFile(f)
			if err != nil || len(b) == 0 {
				continue
			}
			if len(b) > 200000 {
				b = b[:200000]
			}
			pool[mt] = append(pool[mt], b)
			all = append(all, b)
		}
		pool[mt] = append(pool[mt], []byte(seedDocs[mt]))
	}
	// (a) buffers
	nbuf := *n / 3
	for i := 0; i < nbuf; i++ {
		kind := []string{"html", "xml", "svg"}[i%3]
		mt := map[string]string{"html": "text/html", "xml": "text/xml", "svg": "image/svg+xml"}[kind]
		src := pool[mt][r.Intn(len(pool[mt]))]
		if len(src) > 400 {
			a := r.Intn(len(src) - 300)
			src = src[a : a+r.Intn(300)]
		}
		if r.Chance(1, 3) {
			src = mutate(r, src, all)
		}
		bufferCase(r, kind, src, win, wout)
		res.Evaluations++
		res.Hist("buffer", kind)
	}
	win.Flush()
	wout.Flush()
	fin.Close()
	fout.Close()
	// (b) hostile inputs, in parallel
	type job struct {
		mt  string
		in  []byte
		tag string
	}
	jobs := make(chan job, 256)
	var wg sync.WaitGroup
	for w := 0; w < runtime.NumCPU(); w++ {
		wg.Add(1)
		go func() {
			defer wg.Done()
			mm := newM()
			for j := range jobs {
				if hostile(mm, j.mt, j.in, j.tag) && len(j.in) < 5000 {
					bytesOnError(mm, j.mt, j.in)
				}
			}
		}()
	}
	for _, mt := range types {
		for _, d := range pool[mt] {
			jobs <- job{mt, d, "corpus"}
		}
	}
	for i := 0; i < *n; i++ {
		mt := types[r.Intn(len(types))]
		src := pool[mt][r.Intn(len(pool[mt]))]
		if len(src) > 3000 && r.Chance(3, 4) {
			a := r.Intn(len(src) - 2000)
			src = src[a : a+200+r.Intn(1800)]
		}
		in := mutate(r, src, all)
		if r.Chance(1, 10) { // the wrong minifier for the content
			mt = types[r.Intn(len(types))]
		}
		jobs <- job{mt, in, "mutation"}
	}
	// deep nesting and pathological repetition
	deep := 20000
	if *tier == "thorough" {
		deep = 200000
	}
	for _, d := range []struct{ mt, open, mid, close string }{
		{"application/json", "[", "1", "]"}, {"application/json", "{\"a\":", "1", "}"}, {"text/html", "<div>", "x", "</div>"}, {"text/html", "<b>", "x", ""},
		{"text/xml", "<a>", "x", "</a>"}, {"image/svg+xml", "<g>", "<path d='M0 0'/>", "</g>"}, {"text/css", "@media x{", "a{b:c}", "}"}, {"text/css", "a{b:calc(", "1", ")}"},
		{"application/javascript", "(", "1", ")"}, {"application/javascript", "{", "a", "}"}, {"application/javascript", "[", "1", "]"}, {"application/javascript", "a=b?", "c", ":d"},
		{"application/javascript", "if(a)", "b", ""}, {"application/javascript", "a+", "b", ""}, {"application/javascript", "!", "a", ""}, {"application/javascript", "function f(){", "", "}"},
		{"application/javascript", "`${", "a", "}`"}, {"text/css", "a:not(", "b", ")"}, {"text/css", "a{b:url(", "x", ")}"},
	} {
		for _, depth := range []int{100, 2000, deep} {
			if d.mt == "application/javascript" && depth > 2000 {
				depth = 2000 // the recursive-descent parser of the dependency is bounded by the Go stack: see known findings
			}
			in := []byte(strings.Repeat(d.open, depth) + d.mid + strings.Repeat(d.close, depth))
			jobs <- job{d.mt, in, "deep-nesting"}
		}
	}
	// degenerate tokens in every value position of the declarations minifyProperty treats specially (empty strings, lone
	// signs / dots / commas / slashes, empty functions, half numbers), exhaustively over pairs and sampled over triples;
	// the same idea for path data and a few svg attributes
	cssProps := []string{"font", "font-family", "font-weight", "src", "margin", "padding", "border-width", "border", "border-top", "outline", "background", "background-size",
		"background-repeat", "background-position", "box-shadow", "-ms-filter", "filter", "color", "background-color", "border-color", "border-left-color", "fill", "stroke", "column-rule",
		"text-shadow", "text-decoration", "text-emphasis", "flex", "flex-basis", "order", "flex-grow", "flex-shrink", "unicode-range", "transition", "transform", "grid-template-areas", "content", "width", "--x"}
	cssToks := []string{`""`, `''`, "0", ".", "-", "+", ",", "/", "()", "a()", "url()", `url("")`, "#", "#1", "!important", "!", "1e", "1e+", "%", "0%", "1px", "-0", "+.0", "a", "A", "none", "inherit", "bold", "12px", "rgb()",
		"rgb(1,2)", "rgba(0,0,0,0)", "hsl(0)", "var(--a)", "calc()", "U+", "U+0-7F", "u+??", `"a"`, `"a b"`, "sans-serif", "no-repeat", "0 0", "center", "top", "padding-box", "1 1 0", "auto", "\\", "\\0", "{", "[", "]", "(", ";"}
	for _, prop := range cssProps {
		for _, a := range cssToks {
			jobs <- job{"text/css", []byte("a{" + prop + ":" + a + "}"), "degenerate-tokens"}
			for _, b := range cssToks {
				jobs <- job{"text/css", []byte("a{" + prop + ":" + a + " " + b + "}"), "degenerate-tokens"}
			}
		}
		for i := 0; i < 400; i++ {
			k := 3 + r.Intn(3)
			var parts []string
			for j := 0; j < k; j++ {
				parts = append(parts, cssToks[r.Intn(len(cssToks))])
			}
			sep := []string{" ", ",", "/", ""}[r.Intn(4)]
			jobs <- job{"text/css", []byte("a{" + prop + ":" + strings.Join(parts, sep) + "}"), "degenerate-tokens"}
			if i%8 == 0 {
				jobs <- job{"text/css;inline=1", []byte(prop + ":" + strings.Join(parts, sep)), "degenerate-tokens"}
			}
		}
	}
	pathToks := []string{"M", "m", "L", "l", "H", "V", "C", "c", "S", "s", "Q", "q", "T", "t", "A", "a", "Z", "z", "0", "1", "-1", ".", "-", "+", "1e", "1e5", ".5", "1.", "0 0", "1 1", "1,1", "1 1 1 1", "1 1 0 1 1 5 5", "1 1 0 11", "10 10 0 0 0", ","}
	for i := 0; i < 30000; i++ {
		k := 1 + r.Intn(7)
		var parts []string
		for j := 0; j < k; j++ {
			parts = append(parts, pathToks[r.Intn(len(pathToks))])
		}
		d := strings.Join(parts, []string{" ", "", ","}[r.Intn(3)])
		jobs <- job{"image/svg+xml", []byte(`<svg><path d="` + d + `"/></svg>`), "degenerate-tokens"}
	}
	for _, attr := range []string{"points", "transform", "viewBox", "fill", "stroke", "style", "x", "width", "stroke-dasharray", "offset", "d"} {
		for _, a := range append(cssToks, pathToks...) {
			if strings.ContainsAny(a, `"<`) {
				continue
			}
			jobs <- job{"image/svg+xml", []byte(`<svg><polygon ` + attr + `="` + a + `"/></svg>`), "degenerate-tokens"}
			jobs <- job{"image/svg+xml", []byte(`<svg><rect ` + attr + `="` + a + ` ` + a + `"/></svg>`), "degenerate-tokens"}
		}
	}
	for _, tail := range []string{"<?xml", "<?xml version=\"1.0\"", "<?xml version=\"1.0\">", "<svg><?pi", "<svg><?pi a", "<!DOCTYPE", "<!DOCTYPE svg [", "<svg><![CDATA[", "<svg><!--", "<svg a", "<svg a=", "<svg a=\"", "<svg><style>", "<svg><style><![CDATA[a{"} {
		for _, mt := range []string{"image/svg+xml", "text/xml", "text/html"} {
			jobs <- job{mt, []byte(tail), "unterminated"}
			jobs <- job{mt, []byte("<a>" + tail), "unterminated"}
		}
	}
	// JS: every kind of token as the FIRST thing the writer sees (nothing written yet: look-behind on the output must not
	// index an empty buffer), alone and followed by a little more
	jsFirst := []string{"/script>/", "/script>/.test(s)&&f()", "/style>/g", "/a/", "/[/]/", "`t`", "`a${b}`", "'s'", "\"d\"", "1", ".5", "1.", "0x1", "1n", "-1", "+a", "++a", "--a", "!a", "~a", "(a)", "[a]", "{}", "{a}", ";", "a", "a:b", "this", "new a", "typeof a", "void 0", "delete a.b", "in", "a in b", "function(){}", "function f(){}", "class A{}", "()=>1", "async()=>1", "await a", "yield", "...a", "<!--a", "-->a", "#!a", "//a", "/*a*/", "/**/1", "</script>", "<script>", "import a from'b'", "export{}", "return", "break", "if(a)b", "for(;;);", "@a", "\\u0061", "\u2028a", "a\u2029"}
	for _, t := range jsFirst {
		for _, tail := range []string{"", ";", "\n", ".x", "()", " b", "/2/g", "`t`"} {
			jobs <- job{"application/javascript", []byte(t + tail), "first-token"}
		}
		jobs <- job{"text/html", []byte("<script>" + t + "</script>"), "first-token"}
		jobs <- job{"text/html", []byte("<a onclick=\"" + strings.ReplaceAll(t, "\"", "'") + "\">x</a>"), "first-token"}
	}
	close(jobs)
	wg.Wait()
	if atomic.LoadInt32(&hangs) >= 3 {
		res.Rule = "stopped early: three inputs did not return within their time limit (each is reported as a violation)"
		sort.Slice(res.Violations, func(i, j int) bool { return len(res.Violations[i].InputHex) < len(res.Violations[j].InputHex) })
		if len(res.Violations) > 60 {
			res.Violations = res.Violations[:60]
		}
		if err := res.Write(filepath.Join(*outDir, "result.json")); err != nil {
			panic(err)
		}
		os.Exit(0)
	}
	// (d) linearity probes
	for _, p := range []struct{ mt, name, unit string }{
		{"text/css", "css-rules", "a{color:#ff0000;margin:0px 1px 0px 1px}\n"}, {"text/html", "html-paras", "<p class=\"a b\">x &amp; y <b>z</b></p>\n"},
		{"application/json", "json-array", "[1.50,\"a\",{\"b\":null}],"}, {"text/xml", "xml-elems", "<a x='1'> t <![CDATA[c]]></a>"},
		{"image/svg+xml", "svg-paths", "<path d=\"M10 10L20 20 30 30z\"/>"}, {"application/javascript", "js-stmts", "var a=1+2;if(a){b()}else{c()}\n"},
		{"application/javascript", "js-string-concat", "x='a'+'b'+"}, {"text/html", "html-attrs", "<a href=\"http://x/y?z=1&amp;w=2\" title='t'>l</a>"},
		{"text/css", "css-datauri", "a{b:url(data:text/plain,%41%42%43abcdefg%20)}"},
	} {
		linearity(m, p.mt, []byte(p.unit), p.name)
	}
	// probes aimed at the size limits inside the minifiers (hoisting cut-off, value-count limits, long attribute/path lists):
	// prefix + unit^n [+ mid + unit^n] + suffix
	for _, p := range []struct{ mt, name, prefix, unit, mid, suffix string }{
		{"application/javascript", "js-var-declarators", "function f(){var z=0", ",a=1", "", ";return a}"},
		{"application/javascript", "js-var-declarators-two-statements", "function f(){var z=0", ",a=1", ";g();var y=0", ";return a}"},
		{"application/javascript", "js-var-names-two-statements", "function f(){var z", ",b", ";g();var y", ";return b}"},
		{"application/javascript", "js-var-defs-then-names", "function f(){var a=1", ",a=1", ";g();var b|,b", ";return b}"},
		{"application/javascript", "js-var-names-then-defs", "function f(){var b", ",b", ";g();var a=1|,a=1", ";return b}"},
		{"application/javascript", "js-args", "f(0", ",1", "", ")"},
		{"text/css", "css-values", "a{b:0", " 1px", "", "}"},
		{"text/css", "css-selectors", "a", ",b", "", "{c:d}"},
		{"text/css", "css-declarations", "a{", "b:c;", "", "}"},
		{"image/svg+xml", "svg-long-path", "<svg><path d=\"M0 0", "L1 1", "", "\"/></svg>"},
		{"image/svg+xml", "svg-attrs", "<svg", " x=\"1\"", "", "/>"},
		{"text/html", "html-attrs-many", "<a", " x=\"1\"", "", ">t</a>"},
		{"text/xml", "xml-attrs", "<a", " x=\"1\"", "", "/>"},
		{"application/json", "json-flat-array", "[0", ",1", "", "]"},
	} {
		pre, suf := p.prefix, p.suffix
		if p.mid != "" {
			// second block inside the suffix is sized by the same repetition: build it through a closure-free trick:
			// unit^n + mid + unit^n  ==  (unit^n) with the wrapped probe run on the doubled form
			linearityDouble(m, p.mt, pre, []byte(p.unit), p.mid, suf, p.name)
			continue
		}
		linearityWrapped(m, p.mt, pre, []byte(p.unit), suf, p.name, 0)
	}
	res.Rule = "token buffers: random Peek/Shift sequences over real html/xml lexers on corpus slices (model correspondence); hostile stream: every corpus and benchmark file plus deterministic mutations/splices/truncations/duplications/keyword insertions of them (sometimes fed to the wrong minifier), deep nesting and repetition families, each under recover with a time limit proportional to size; Bytes/String checked to hand back the original on every erroring input; 16x size-scaling time probes; distinct_nontrivial = hostile inputs that were accepted and rewritten"
	res.Samples = []interface{}{map[string]string{"mediatype": "text/html", "mutation_of": "tests/html/corpus", "example": "<p class=a  b>x<script></scr<!--ipt>"}, map[string]string{"buffer_ops": "P0,S,P3,P0,S,S,P12"}}
	sort.Slice(res.Violations, func(i, j int) bool { return len(res.Violations[i].InputHex) < len(res.Violations[j].InputHex) })
	if len(res.Violations) > 60 {
		res.Extra = map[string]interface{}{"violations_total": len(res.Violations)}
		res.Violations = res.Violations[:60]
	}
	if err := res.Write(filepath.Join(*outDir, "result.json")); err != nil {
		panic(err)
	}
}

var seedDocs = map[string]string{
	"text/css":               "@charset \"utf-8\";@import url(x.css);a>b~c+d[e=\"f\"]:not(.g)::before{color:rgb(255,0,0);margin:0px 0px 0px 0px;background:url(data:image/png;base64,AAAA) no-repeat 0% 0%;font:bold 12px/1.5 \"Helvetica Neue\",sans-serif!important}@media (min-width:10px){a{b:calc(1px + 2%)}}",
	"text/html":              "<!DOCTYPE html><html lang=en><head><meta charset=utf-8><title>T &amp; t</title><style>a{b:c}</style><script type=\"text/javascript\">var a='</scr'+'ipt>';</script></head><body><p class=\" a  b \">x <b>y</b> z<br><pre> p </pre><textarea> t </textarea><svg><path d=\"M0 0L1 1\"/></svg><math><mi>x</mi></math><a href=\"http://example.com/a b\" onclick=\"javascript:f()\" style=\"color: red\">l</a><!-- c --><!--[if IE]>x<![endif]--></body></html>",
	"image/svg+xml":          "<?xml version=\"1.0\"?><!DOCTYPE svg><svg xmlns=\"http://www.w3.org/2000/svg\" xmlns:xlink=\"http://www.w3.org/1999/xlink\" viewBox=\"0 0 10 10\"><style>a{b:c}</style><g fill=\"#ff0000\" transform=\"translate(1,2)\"><path d=\"M10,10 L20,20 A5 5 0 1 1 3 3 z\"/><rect x=\"0\" y=\"0\" width=\"10px\" height=\"1e1\"/><text>a <![CDATA[b]]></text></g><!-- c --></svg>",
	"application/javascript": "'use strict';var a=1,b=.5e3,c=0x1F,s=\"a\\\"b\"+'c'+`d${a}e`;function f(x,y=2,...z){if(x)return y;else{for(var i=0;i<10;i++){a+=i}}try{g()}catch(e){}finally{}switch(a){case 1:break;default:}return/re/g.test(s)?a:b}class A extends B{constructor(){super()}static m(){}get p(){return 1}}label:while(1){break label}a=b?c:d??e;o={a,b:1,[c]:2,...p};x=async()=>{await y};",
	"application/json":       "{\"a\":[1.0,2e3,-0.5,true,false,null,\"s\\\"\\u00e9\"],\"b\":{\"c\":{}},\"d\":[]}",
	"text/xml":               "<?xml version=\"1.0\" encoding=\"UTF-8\"?><!DOCTYPE r [<!ENTITY e \"v\">]><r xmlns:n=\"u\"><n:a x=\"1\" y='2&amp;3'> t &lt; <![CDATA[ c < d ]]> </n:a><!-- c --><?pi d?><e/></r>",
}
