// Command validcheck searches for violations of property C09 on REAL-WORLD SIZED documents: the repository's benchmark
// samples and fuzz corpora, and byte-level mutations and splices of them.  Whenever a minifier returns without error its
// output must (1) be syntactically valid according to an independent parser whenever the input was, and (2) be accepted
// again by the same minifier.  Independent parsers: V8 (node, syntax only) for JS, encoding/json, encoding/xml (strict) for
// XML and SVG, golang.org/x/net/html plus V8 / the CSS checker below for the script and style elements of HTML, and a
// css-syntax-3 level checker (strings, url(), comments, bracket balance) for CSS.
package main

import (
	"bytes"
	"crypto/sha1"
	stdjson "encoding/json"
	stdxml "encoding/xml"
	"flag"
	"fmt"
	"io"
	"os"
	"os/exec"
	"path/filepath"
	"regexp"
	"sort"
	"strings"
	"sync"
	"time"

	"github.com/tdewolff/minify/v2"
	"github.com/tdewolff/minify/v2/css"
	"github.com/tdewolff/minify/v2/html"
	"github.com/tdewolff/minify/v2/js"
	"github.com/tdewolff/minify/v2/json"
	"github.com/tdewolff/minify/v2/svg"
	"github.com/tdewolff/minify/v2/xml"
	xhtml "golang.org/x/net/html"
	"verifharness/internal/vh"
)

type input struct {
	lang, name string
	data       []byte
	mutated    bool
}

var mimeOf = map[string]string{"css": "text/css", "html": "text/html", "js": "application/javascript", "json": "application/json", "svg": "image/svg+xml", "xml": "text/xml"}

func registry(variant int) *minify.M {
	m := minify.New()
	h := &html.Minifier{}
	j := &js.Minifier{}
	c := &css.Minifier{}
	switch variant {
	case 1:
		h.KeepWhitespace, h.KeepEndTags, h.KeepDocumentTags, h.KeepQuotes = true, true, true, true
		j.KeepVarNames = true
		c.KeepCSS2 = true
	case 2:
		h.KeepComments, h.KeepDefaultAttrVals = true, true
		j.Version = 2015
		c.Precision = 3
	}
	m.Add("text/css", c)
	m.Add("text/html", h)
	m.Add("image/svg+xml", &svg.Minifier{KeepComments: variant == 2, Precision: map[int]int{0: 0, 1: 0, 2: 4}[variant]})
	m.AddRegexp(regexp.MustCompile("^(application|text)/(x-)?(java|ecma|j|live)script(1\\.[0-5])?$|^module$"), j)
	m.AddRegexp(regexp.MustCompile("[/+]json$"), &json.Minifier{KeepNumbers: variant == 1})
	m.AddRegexp(regexp.MustCompile("[/+]xml$"), &xml.Minifier{KeepWhitespace: variant == 1})
	return m
}

func run(m *minify.M, lang string, data []byte) (out []byte, err error, pan interface{}) {
	defer func() {
		if r := recover(); r != nil {
			pan = r
		}
	}()
	var buf bytes.Buffer
	err = m.Minify(mimeOf[lang], &buf, bytes.NewReader(data))
	return buf.Bytes(), err, nil
}

// ---------- independent validity ----------
func xmlValid(b []byte) string {
	d := stdxml.NewDecoder(bytes.NewReader(b))
	d.Strict = true
	d.CharsetReader = func(_ string, r io.Reader) (io.Reader, error) { return r, nil } // well-formedness only: bytes are not decoded
	d.Entity = stdxml.HTMLEntity
	for {
		_, err := d.Token()
		if err == io.EOF {
			return ""
		}
		if err != nil {
			return err.Error()
		}
	}
}

// cssValid: css-syntax-3 tokenisation problems that make a stylesheet mean something else: bad-string (newline in a
// string), bad-url, unterminated string/comment/url at the end of input, unbalanced brackets.
func cssValid(b []byte) string {
	var stack []byte
	i, n := 0, len(b)
	for i < n {
		c := b[i]
		switch {
		case c == '/' && i+1 < n && b[i+1] == '*':
			j := bytes.Index(b[i+2:], []byte("*/"))
			if j < 0 {
				return "unterminated comment"
			}
			i += 2 + j + 2
		case c == '"' || c == '\'':
			j := i + 1
			for {
				if j >= n {
					return "unterminated string"
				}
				if b[j] == '\\' {
					j += 2
					continue
				}
				if b[j] == '\n' || b[j] == '\r' || b[j] == '\f' {
					return "bad-string (newline in string)"
				}
				if b[j] == c {
					break
				}
				j++
			}
			i = j + 1
		case (c == 'u' || c == 'U') && i+3 < n && strings.EqualFold(string(b[i:i+4]), "url(") && (i == 0 || !isIdentByte(b[i-1])):
			j := i + 4
			for j < n && (b[j] == ' ' || b[j] == '\t' || b[j] == '\n' || b[j] == '\r' || b[j] == '\f') {
				j++
			}
			if j < n && (b[j] == '"' || b[j] == '\'') {
				i = j // a function token followed by a string: handled by the generic cases
				stack = append(stack, ')')
				continue
			}
			for {
				if j >= n {
					return "unterminated url"
				}
				ch := b[j]
				if ch == ')' {
					break
				}
				if ch == '\\' {
					j += 2
					continue
				}
				if ch == '"' || ch == '\'' || ch == '(' {
					return "bad-url (quote or parenthesis in unquoted url)"
				}
				if ch == ' ' || ch == '\t' || ch == '\n' || ch == '\r' || ch == '\f' {
					k := j
					for k < n && (b[k] == ' ' || b[k] == '\t' || b[k] == '\n' || b[k] == '\r' || b[k] == '\f') {
						k++
					}
					if k >= n || b[k] != ')' {
						return "bad-url (white space inside unquoted url)"
					}
					j = k
					break
				}
				j++
			}
			i = j + 1
		case c == '\\':
			i += 2
		case c == '(' || c == '[' || c == '{':
			stack = append(stack, map[byte]byte{'(': ')', '[': ']', '{': '}'}[c])
			i++
		case c == ')' || c == ']' || c == '}':
			if len(stack) == 0 || stack[len(stack)-1] != c {
				return "unbalanced " + string(c)
			}
			stack = stack[:len(stack)-1]
			i++
		default:
			i++
		}
	}
	if len(stack) > 0 {
		return "unclosed " + string(stack[len(stack)-1])
	}
	return ""
}

func isIdentByte(c byte) bool {
	return c == '-' || c == '_' || c >= 0x80 || '0' <= c && c <= '9' || 'a' <= c && c <= 'z' || 'A' <= c && c <= 'Z'
}

// scripts and styles of an HTML document, as an HTML5 tree builder sees them
func htmlParts(b []byte) (scripts, styles [][]byte) {
	doc, err := xhtml.Parse(bytes.NewReader(b))
	if err != nil {
		return
	}
	var walk func(n *xhtml.Node)
	walk = func(n *xhtml.Node) {
		if n.Type == xhtml.ElementNode && (n.Data == "script" || n.Data == "style") {
			typ := ""
			for _, a := range n.Attr {
				if a.Key == "type" {
					typ = strings.ToLower(strings.TrimSpace(a.Val))
				}
			}
			var sb strings.Builder
			for c := n.FirstChild; c != nil; c = c.NextSibling {
				if c.Type == xhtml.TextNode {
					sb.WriteString(c.Data)
				}
			}
			if n.Data == "script" && (typ == "" || typ == "text/javascript" || typ == "application/javascript") {
				scripts = append(scripts, []byte(sb.String()))
			} else if n.Data == "style" && (typ == "" || typ == "text/css") {
				styles = append(styles, []byte(sb.String()))
			}
		}
		for c := n.FirstChild; c != nil; c = c.NextSibling {
			walk(c)
		}
	}
	walk(doc)
	return
}

// ---------- node: syntax check of many sources in one process ----------
const nodeScript = `
const fs=require('fs'),vm=require('vm');
const dir=process.argv[2];
const res={};
for(const f of fs.readdirSync(dir)){ if(!f.endsWith('.js'))continue;
  const src=fs.readFileSync(dir+'/'+f,'utf8');
  try{ new vm.Script(src,{filename:f}); res[f]=''; }
  catch(e){ res[f]=String(e&&e.message||e).slice(0,200)||'error'; } }
process.stdout.write(JSON.stringify(res));
`

func nodeCheck(tmp string, srcs map[string][]byte) (map[string]string, error) {
	dir, err := os.MkdirTemp(tmp, "node")
	if err != nil {
		return nil, err
	}
	defer os.RemoveAll(dir)
	for k, v := range srcs {
		os.WriteFile(filepath.Join(dir, k+".js"), v, 0o644)
	}
	sp := filepath.Join(dir, "check.cjs")
	os.WriteFile(sp, []byte(nodeScript), 0o644)
	out, err := exec.Command("node", sp, dir).Output()
	if err != nil {
		return nil, err
	}
	r := map[string]string{}
	if err := stdjson.Unmarshal(out, &r); err != nil {
		return nil, err
	}
	res := map[string]string{}
	for k, v := range r {
		res[strings.TrimSuffix(k, ".js")] = v
	}
	return res, nil
}

// ---------- mutation ----------
func mutate(r *vh.Rand, b []byte, others [][]byte) []byte {
	out := append([]byte{}, b...)
	nm := 1 + r.Intn(3)
	for k := 0; k < nm && len(out) > 4; k++ {
		pos := r.Intn(len(out))
		ln := 1 + r.Intn(12)
		if pos+ln > len(out) {
			ln = len(out) - pos
		}
		switch r.Intn(6) {
		case 0: // delete a run
			out = append(out[:pos], out[pos+ln:]...)
		case 1: // duplicate a run
			dup := append([]byte{}, out[pos:pos+ln]...)
			out = append(out[:pos], append(dup, out[pos:]...)...)
		case 2: // replace a byte by a syntactically interesting one
			out[pos] = "\"'`<>&/\\(){}[];:=,. \n+-*!?#@$%0aZ_"[r.Intn(34)]
		case 3: // splice a run of another document of the same language
			if len(others) > 0 {
				o := others[r.Intn(len(others))]
				if len(o) > 0 {
					p2 := r.Intn(len(o))
					l2 := 1 + r.Intn(200)
					if p2+l2 > len(o) {
						l2 = len(o) - p2
					}
					out = append(out[:pos], append(append([]byte{}, o[p2:p2+l2]...), out[pos:]...)...)
				}
			}
		case 4: // truncate
			if r.Chance(1, 3) {
				out = out[:pos]
			}
		default: // swap two adjacent bytes
			if pos+1 < len(out) {
				out[pos], out[pos+1] = out[pos+1], out[pos]
			}
		}
	}
	return out
}

type job struct {
	in      input
	variant int
	out     []byte
	err     error
	pan     interface{}
	out2err error
	pan2    interface{}
}

func main() {
	outDir := flag.String("out", "", "output directory")
	repo := flag.String("repo", "/repo", "repository (for the corpora)")
	seed := flag.Uint64("seed", 1, "seed")
	tier := flag.String("tier", "quick", "tier")
	nmut := flag.Int("n", 600, "number of mutated documents")
	maxSize := flag.Int("max-mutant-size", 200000, "documents larger than this are mutated on a window only")
	witness := flag.String("witness", "", "JSON {file, lang, input_hex, options{variant}}: evaluate exactly this document")
	flag.Parse()
	if *outDir == "" {
		fmt.Fprintln(os.Stderr, "validcheck: -out DIR required")
		os.Exit(2)
	}
	os.MkdirAll(*outDir, 0o755)
	res := &vh.Result{Engine: "validcheck", Seed: *seed, Tier: *tier,
		Rule: "Evaluations = (document, option variant) pairs the minifier accepted (output validated + second pass); DistinctNontrivial = distinct accepted documents (SHA-1) whose output differs from the input; documents the minifier rejects are counted as not judged"}
	var ins []input
	if *witness != "" {
		b, err := os.ReadFile(*witness)
		if err != nil {
			fmt.Fprintln(os.Stderr, "validcheck:", err)
			os.Exit(2)
		}
		var w struct {
			Input    string            `json:"input"`
			InputHex string            `json:"input_hex"`
			Options  map[string]string `json:"options"`
		}
		if err := stdjson.Unmarshal(b, &w); err != nil {
			fmt.Fprintln(os.Stderr, "validcheck: witness:", err)
			os.Exit(2)
		}
		data := []byte(w.Input)
		if w.InputHex != "" {
			data = vh.Unhex(w.InputHex)
		}
		if f := w.Options["file"]; f != "" && len(data) == 0 {
			data, _ = os.ReadFile(filepath.Join(*repo, f))
		}
		ins = append(ins, input{lang: w.Options["lang"], name: "witness:" + w.Options["file"], data: data})
		res.Tier = "witness"
	} else {
		byLang := map[string][][]byte{}
		add := func(lang, path string) {
			b, err := os.ReadFile(path)
			if err != nil || len(b) == 0 {
				return
			}
			rel, _ := filepath.Rel(*repo, path)
			ins = append(ins, input{lang: lang, name: rel, data: b})
			byLang[lang] = append(byLang[lang], b)
		}
		ext := map[string]string{".css": "css", ".html": "html", ".js": "js", ".json": "json", ".svg": "svg", ".xml": "xml"}
		files, _ := filepath.Glob(filepath.Join(*repo, "_benchmarks", "sample_*"))
		for _, lang := range []string{"css", "html", "js", "json", "svg", "xml"} {
			more, _ := filepath.Glob(filepath.Join(*repo, "tests", lang, "corpus", "*"))
			files = append(files, more...)
		}
		sort.Strings(files)
		for _, f := range files {
			if l := ext[filepath.Ext(f)]; l != "" {
				add(l, f)
			}
		}
		res.Extra = map[string]interface{}{"corpus_documents": len(ins)}
		r := vh.NewRand(*seed ^ 0xC09)
		base := append([]input{}, ins...)
		for k := 0; k < *nmut; k++ {
			b := base[r.Intn(len(base))]
			d := b.data
			off := 0
			if len(d) > *maxSize { // mutate a window of a large document, keep the rest (real-world size is kept for a fraction)
				if r.Chance(1, 4) {
					off = 0
				} else {
					off = r.Intn(len(d) - *maxSize)
					d = d[off : off+*maxSize]
				}
			}
			ins = append(ins, input{lang: b.lang, name: fmt.Sprintf("%s#mut%d@%d", b.name, k, off), data: mutate(r, d, byLang[b.lang]), mutated: true})
		}
	}
	// ---- run the minifiers (parallel)
	var jobs []*job
	for _, in := range ins {
		variants := []int{0}
		if !in.mutated || len(in.data) < 100000 {
			variants = []int{0, 1, 2}
		}
		if *witness != "" {
			variants = []int{0, 1, 2}
		}
		for _, v := range variants {
			jobs = append(jobs, &job{in: in, variant: v})
		}
	}
	var wg sync.WaitGroup
	sem := make(chan struct{}, 16)
	for _, j := range jobs {
		wg.Add(1)
		sem <- struct{}{}
		go func(j *job) {
			defer wg.Done()
			defer func() { <-sem }()
			done := make(chan struct{})
			go func() {
				j.out, j.err, j.pan = run(registry(j.variant), j.in.lang, j.in.data)
				if j.err == nil && j.pan == nil {
					_, j.out2err, j.pan2 = run(registry(j.variant), j.in.lang, j.out)
				}
				close(done)
			}()
			select {
			case <-done:
			case <-time.After(120 * time.Second):
				j.pan = "timeout after 120 s"
			}
		}(j)
	}
	wg.Wait()
	// ---- validity: JS sources for node (inputs and outputs, scripts of html)
	srcs := map[string][]byte{}
	key := func(i int, what string, k int) string { return fmt.Sprintf("j%d_%s_%d", i, what, k) }
	type parts struct{ inS, outS, inC, outC [][]byte }
	hp := map[int]*parts{}
	for i, j := range jobs {
		if j.err != nil || j.pan != nil {
			continue
		}
		switch j.in.lang {
		case "js":
			srcs[key(i, "in", 0)] = j.in.data
			srcs[key(i, "out", 0)] = j.out
		case "html":
			p := &parts{}
			p.inS, p.inC = htmlParts(j.in.data)
			p.outS, p.outC = htmlParts(j.out)
			hp[i] = p
			for k, s := range p.inS {
				srcs[key(i, "in", k)] = s
			}
			for k, s := range p.outS {
				srcs[key(i, "out", k)] = s
			}
		}
	}
	nodeRes, nerr := nodeCheck(*outDir, srcs)
	if nerr != nil {
		fmt.Fprintln(os.Stderr, "validcheck: node:", nerr)
		os.Exit(2)
	}
	distinct := map[[20]byte]bool{}
	seen := map[string]bool{}
	add := func(j *job, sig, obs, exp, detail string) {
		// root cause known under another id: the script-end-tag escape that the JS minifier decodes (K30)
		if j.in.lang == "html" && reK30.Match(j.in.data) && (strings.HasPrefix(sig, "second-pass-error:html") || strings.HasPrefix(sig, "invalid-output:html-script")) {
			sig = "K30:" + sig
		}
		// PI data that is not a pseudo-attribute list is tokenised as attributes by the dependency's lexer (K42)
		if (j.in.lang == "xml" || j.in.lang == "svg") && strings.HasPrefix(sig, "invalid-output:") && oddPI(j.in.data) {
			sig = "K42:" + sig
		}
		res.Hist("violation_signatures", sig)
		if seen[sig] {
			return
		}
		seen[sig] = true
		v := vh.Violation{Kind: "oracle", Signature: sig, Options: map[string]string{"lang": j.in.lang, "variant": fmt.Sprint(j.variant), "file": strings.SplitN(j.in.name, "#", 2)[0]},
			Observed: obs, Expected: exp, Detail: detail + " [" + j.in.name + "]"}
		if len(j.in.data) <= 300000 || j.in.mutated {
			v.InputHex = vh.Hex(j.in.data)
		}
		if len(j.in.data) < 2000 {
			v.Input = string(j.in.data)
		} else {
			v.Input = fmt.Sprintf("(%d bytes, see input_hex / options.file)", len(j.in.data))
		}
		res.Violations = append(res.Violations, v)
	}
	clip := func(b []byte) string {
		if len(b) > 300 {
			return string(b[:300]) + "..."
		}
		return string(b)
	}
	for i, j := range jobs {
		res.Hist("lang", j.in.lang)
		if j.pan != nil {
			add(j, "panic-or-timeout:"+j.in.lang, fmt.Sprint(j.pan), "termination without panic", "first pass")
			continue
		}
		if j.err != nil {
			res.NotJudged++
			res.Hist("rejected", j.in.lang)
			continue
		}
		res.Evaluations++
		if !bytes.Equal(j.out, j.in.data) {
			distinct[sha1.Sum(j.in.data)] = true
		}
		origin := "corpus"
		if j.in.mutated {
			origin = "mutant"
		}
		res.Hist("origin", origin)
		if j.pan2 != nil {
			add(j, "second-pass-panic:"+j.in.lang, fmt.Sprint(j.pan2), "second pass terminates", clip(j.out))
		} else if j.out2err != nil {
			add(j, "second-pass-error:"+j.in.lang+":"+classify(j.out2err.Error()), j.out2err.Error(), "the minifier accepts its own output", clip(j.out))
		}
		switch j.in.lang {
		case "json":
			if stdjson.Valid(j.in.data) && !stdjson.Valid(j.out) {
				add(j, "invalid-output:json", clip(j.out), "valid JSON", "encoding/json rejects the output but accepts the input")
			}
		case "xml", "svg":
			if xmlValid(j.in.data) == "" {
				if e := xmlValid(j.out); e != "" {
					add(j, "invalid-output:"+j.in.lang+":"+classify(e), e, "well-formed XML", "encoding/xml (strict) rejects the output but accepts the input: "+clip(j.out))
				}
			}
		case "css":
			if cssValid(j.in.data) == "" {
				if e := cssValid(j.out); e != "" {
					add(j, "invalid-output:css:"+classify(e), e, "no bad-string / bad-url / unbalanced block", clip(j.out))
				}
			}
		case "js":
			if nodeRes[key(i, "in", 0)] == "" {
				if e := nodeRes[key(i, "out", 0)]; e != "" {
					add(j, "invalid-output:js:"+classify(e), e, "V8 parses the output", clip(j.out))
				}
			}
		case "html":
			p := hp[i]
			inOK := true
			for k := range p.inS {
				if nodeRes[key(i, "in", k)] != "" {
					inOK = false
				}
			}
			if inOK && len(p.inS) == len(p.outS) {
				for k := range p.outS {
					// only a script that had text in the input is judged: on malformed input (a stray </script> inside foreign
					// content) the output can turn markup into script text; that is a change of the document (C03), not of validity
					if len(bytes.TrimSpace(p.inS[k])) == 0 {
						continue
					}
					if e := nodeRes[key(i, "out", k)]; e != "" {
						add(j, "invalid-output:html-script:"+classify(e), e, "every script element of the output parses in V8", clip(p.outS[k]))
					}
				}
			}
			cssOK := true
			for _, c := range p.inC {
				if cssValid(c) != "" {
					cssOK = false
				}
			}
			if cssOK && len(p.inC) == len(p.outC) {
				for _, c := range p.outC {
					if e := cssValid(c); e != "" {
						add(j, "invalid-output:html-style:"+classify(e), e, "every style element of the output tokenises without bad tokens", clip(c))
					}
				}
			}
		}
	}
	res.DistinctNontrivial = len(distinct)
	if res.Extra == nil {
		res.Extra = map[string]interface{}{}
	}
	res.Extra["documents"] = len(ins)
	res.Extra["node_sources_checked"] = len(srcs)
	sort.SliceStable(res.Violations, func(a, b int) bool { return res.Violations[a].Signature < res.Violations[b].Signature })
	if err := res.Write(filepath.Join(*outDir, "result.json")); err != nil {
		fmt.Fprintln(os.Stderr, "validcheck:", err)
		os.Exit(2)
	}
	fmt.Printf("validcheck: %d documents, %d evaluations, %d rejected, %d distinct violation signatures\n", len(ins), res.Evaluations, res.NotJudged, len(res.Violations))
}

var rePI = regexp.MustCompile(`(?s)<\?[A-Za-z_:][^\s?]*(.*?)\?>`)
var rePseudo = regexp.MustCompile(`^(\s+[^\s=<>"']+\s*=\s*("[^"<]*"|'[^'<]*'))*\s*$`)

func oddPI(b []byte) bool {
	for _, m := range rePI.FindAllSubmatch(b, -1) {
		if !rePseudo.Match(m[1]) {
			return true
		}
	}
	return false
}

var reK30 = regexp.MustCompile(`(?i)\\x3c/script|\\u003c/script|<\\/script`)
var reNum = regexp.MustCompile(`[0-9]+`)
var reQuoted = regexp.MustCompile("'[^']*'|\"[^\"]*\"|`[^`]*`")

// classify turns an error message into a root-cause class: positions and quoted lexemes removed
func classify(s string) string {
	s = reQuoted.ReplaceAllString(s, "Q")
	s = reNum.ReplaceAllString(s, "N")
	s = strings.Join(strings.Fields(s), "-")
	if len(s) > 60 {
		s = s[:60]
	}
	return s
}
