package main

import (
	"fmt"
	"strings"

	"verifharness/internal/vh"
)

// Grammar-directed generator of well-formed XML 1.0 documents (productions [1]-[45],
// [66]-[68] of the recommendation, UTF-8, version 1.0). With known=false the generator
// stays away from the input shapes of the known defects (see FINDINGS.md); the shape
// detectors in oracle.go are the backstop for compound shapes.
type xgen struct {
	r     *vh.Rand
	known bool
	keep  bool
	ents  []string // declared internal entities
	hits  map[string]bool
	nsOK  bool
}

func (g *xgen) hit(k string) { g.hits[k] = true }

var elemNames = []string{"a", "b", "c", "x", "y", "item", "ns:z", "é_1", "A-b", "x.y", "_u", "p"}
var attrNames = []string{"id", "k", "v", "w", "xml:lang", "xml:space", "ns:p", "data-x", "B", "é"}
var wordsPool = []string{"a", "bc", "x1", "é", "word", "Z", "42", "-", ".", ";", "=", "/", "%d", "q?", " ", "日本"}

func (g *xgen) ws() string {
	return g.r.Pick(" ", " ", "  ", "\n", "\t", "\n  ", " \n", "\r\n", "\r", "   ")
}

// tagWS is white space inside tags (S production).
func (g *xgen) tagWS() string { return g.r.Pick(" ", " ", " ", "  ", "\n", "\t", "\r\n ") }
func (g *xgen) optWS() string { return g.r.Pick("", "", "", " ", "\n") }

var textRefs = []string{"&amp;", "&lt;", "&gt;", "&quot;", "&apos;", "&#60;", "&#x3C;", "&#x3c;", "&#38;", "&#x26;", "&#9;", "&#10;", "&#13;", "&#xD;", "&#32;", "&#x20;",
	"&#65;", "&#x41;", "&#233;", "&#xE9;", "&#xe9;", "&#x2028;", "&#12345;", "&#x10000;", "&#62;", "&#x3e;", "&#34;", "&#39;", "&#0065;", "&#x0041;", "&#160;", "&#xA0;", "&#127;", "&#x7f;"}

func (g *xgen) text() string {
	var sb strings.Builder
	n := 1 + g.r.Intn(5)
	for i := 0; i < n; i++ {
		switch g.r.Intn(12) {
		case 0, 1, 2, 3:
			sb.WriteString(g.r.Pick(wordsPool...))
			g.hit("text:word")
		case 4, 5, 6:
			sb.WriteString(g.ws())
			g.hit("text:space")
		case 7, 8:
			sb.WriteString(g.r.Pick(textRefs...))
			g.hit("text:reference")
		case 9:
			sb.WriteString(g.r.Pick(">", "]", "]]", "\"", "'", "]>", "-->", "?>"))
			g.hit("text:markup-like-char")
		case 10:
			if len(g.ents) > 0 {
				sb.WriteString("&" + g.ents[g.r.Intn(len(g.ents))] + ";")
				g.hit("text:entity-reference")
			} else {
				sb.WriteString("w")
			}
		case 11:
			if g.known {
				sb.WriteString(g.r.Pick("]]&gt;", "]]&#62;", "]]&#x3E;"))
				g.hit("text:]]&gt;")
			} else {
				sb.WriteString(g.r.Pick("] ]&gt;", "]&gt;", "&gt;"))
			}
		}
	}
	s := sb.String()
	// a literal "]]>" must not appear in character data
	for strings.Contains(s, "]]>") {
		s = strings.Replace(s, "]]>", "]] >", 1)
	}
	return s
}

func (g *xgen) attrValue(q byte) string {
	var sb strings.Builder
	n := g.r.Intn(5)
	other := "'"
	if q == '\'' {
		other = "\""
	}
	for i := 0; i < n; i++ {
		switch g.r.Intn(12) {
		case 0, 1, 2:
			sb.WriteString(g.r.Pick(wordsPool...))
		case 3:
			sb.WriteString(g.r.Pick(" ", "  ", "\t", "\n", "\r", " \n "))
			g.hit("attr:literal-whitespace")
		case 4:
			if g.known {
				sb.WriteString("\r\n")
				g.hit("attr:crlf")
			} else {
				sb.WriteString(" ")
			}
		case 5:
			sb.WriteString(other)
			g.hit("attr:other-quote")
		case 6:
			sb.WriteString(g.r.Pick("&quot;", "&apos;", "&#34;", "&#39;", "&#x22;", "&#x27;"))
			g.hit("attr:quote-reference")
		case 7:
			sb.WriteString(g.r.Pick("&amp;", "&lt;", "&gt;", "&amp;amp;", "&amp;#60;", "&amp;lt;", "&lt;b&gt;"))
			g.hit("attr:predefined-reference")
		case 8:
			ref := g.r.Pick("&#60;", "&#x3C;", "&#38;", "&#x26;", "&#9;", "&#10;", "&#13;", "&#xA;", "&#x9;", "&#xD;", "&#38;amp;", "&#38;#38;")
			if q == '"' && !g.known {
				ref = g.r.Pick("&#65;", "&#x41;", "&#32;", "&#x20;", "&#233;", "&#xE9;", "&#x2028;", "&#62;", "&#x3e;", "&#160;", "&#12345;", "&#x10000;", "&#127;")
			} else {
				g.hit("attr:charref-to-markup-or-space")
			}
			sb.WriteString(ref)
			g.hit("attr:charref")
		case 9:
			sb.WriteString(g.r.Pick(">", "/>", "?>", "]] >", "-->", "=", "/")) // no "]]>": encoding/xml (wrongly) rejects it in attribute values
		case 10:
			if len(g.ents) > 0 {
				sb.WriteString("&" + g.ents[g.r.Intn(len(g.ents))] + ";")
				g.hit("attr:entity-reference")
			}
		case 11:
			if q == '"' {
				sb.WriteString(strings.Repeat(other, 1+g.r.Intn(3)))
			} else {
				sb.WriteString(g.r.Pick("&quot;", "&#34;", "\"\""))
			}
		}
	}
	return sb.String()
}

func (g *xgen) attrs() string {
	var sb strings.Builder
	n := 0
	switch g.r.Intn(6) {
	case 0, 1:
		n = 1
	case 2:
		n = 2
	case 3:
		n = 1 + g.r.Intn(4)
	}
	used := map[string]bool{}
	for i := 0; i < n; i++ {
		name := g.r.Pick(attrNames...)
		if used[name] {
			continue
		}
		used[name] = true
		q := byte('"')
		if g.r.Chance(1, 3) {
			q = '\''
			g.hit("attr:single-quoted")
		} else {
			g.hit("attr:double-quoted")
		}
		v := g.attrValue(q)
		if name == "xml:space" {
			v = g.r.Pick("preserve", "default")
			g.hit("attr:xml:space")
		}
		sb.WriteString(g.tagWS() + name + g.optWS() + "=" + g.optWS() + string(q) + v + string(q))
	}
	return sb.String()
}

func (g *xgen) cdata() string {
	var sb strings.Builder
	n := g.r.Intn(6)
	for i := 0; i < n; i++ {
		switch g.r.Intn(10) {
		case 0, 1, 2:
			sb.WriteString(g.r.Pick(wordsPool...))
		case 3, 4:
			sb.WriteString(g.ws())
		case 5:
			sb.WriteString(g.r.Pick("<", "<b>", "</b>", "<<<", "<<<<<", "<!--"))
			g.hit("cdata:lt")
		case 6:
			sb.WriteString(g.r.Pick("&", "&amp;", "&lt;", "&#60;", "&&", "&x;"))
			g.hit("cdata:amp")
		case 7:
			sb.WriteString(g.r.Pick("]", "]]", "] ]", "]]]"))
			g.hit("cdata:bracket")
		case 8:
			sb.WriteString(g.r.Pick(">", ">x", "\"", "'"))
			g.hit("cdata:gt")
		case 9:
			sb.WriteString(g.r.Pick("  ", "\n\n", " \t "))
			g.hit("cdata:multiple-space")
		}
	}
	s := sb.String()
	for strings.Contains(s, "]]>") {
		s = strings.Replace(s, "]]>", "]] >", 1)
	}
	if s == "" {
		g.hit("cdata:empty")
	}
	return "<![CDATA[" + s + "]]>"
}

func (g *xgen) comment() string {
	s := g.r.Pick("", " c ", "c", " <a> ", " & ", " ]]> ", " a - b ", "\n x \n", " &lt; ", "?>", " <! ", "]", ">", " - - ")
	g.hit("comment")
	return "<!--" + s + "-->"
}

var piTargets = []string{"pi", "xml-stylesheet", "php", "a-b", "x.y", "t", "xmlfoo"}

func (g *xgen) piValue(q byte) string {
	var sb strings.Builder
	for i, n := 0, g.r.Intn(4); i < n; i++ {
		c := g.r.Pick("a", "style.css", "text/css", "x y", "#f", "1", ">", "/", "=", "?", "'", "\"", "é", "]]>", "-->", "  ")
		if c == string(q) {
			c = "q"
		}
		if c == "?" && i == n-1 {
			c = "q" // value followed by quote, never "?>"
		}
		sb.WriteString(c)
	}
	return strings.ReplaceAll(sb.String(), "?>", "? >")
}

func (g *xgen) pi() string {
	t := g.r.Pick(piTargets...)
	g.hit("pi")
	if g.known && g.r.Chance(1, 2) {
		g.hit("pi:free-form-data")
		d := g.r.Pick("echo 1;", "x", "a b c", "a=b", "a = \"1\" b", "a=\"&quot;\"", "a=\"x\ty\"", "a='x\ny'", "= =", "a=\"&#60;\"", "\"q\"", "a=\"1\"b=\"2\"", "if (a<b) { }", "a=\"1\" / ", "  lead", "&amp;")
		return "<?" + t + g.r.Pick(" ", "  ", "\n") + d + g.r.Pick("", " ") + "?>"
	}
	var sb strings.Builder
	sb.WriteString("<?" + t)
	n := g.r.Intn(4)
	for i := 0; i < n; i++ {
		q := byte('"')
		if g.r.Chance(1, 3) {
			q = '\''
		}
		sb.WriteString(g.tagWS() + g.r.Pick("href", "type", "a", "b", "x-y", "n:m", "é") + g.optWS() + "=" + g.optWS() + string(q) + g.piValue(q) + string(q))
		g.hit("pi:pseudo-attribute")
	}
	if n == 0 {
		sb.WriteString(g.r.Pick("", " ", "  "))
		g.hit("pi:empty")
	} else {
		sb.WriteString(g.optWS())
	}
	sb.WriteString("?>")
	return sb.String()
}

func (g *xgen) element(depth int) string {
	name := g.r.Pick(elemNames...)
	g.hit("element")
	var sb strings.Builder
	sb.WriteString("<" + name + g.attrs())
	if g.r.Chance(1, 6) {
		sb.WriteString(g.optWS() + "/>")
		g.hit("element:empty-tag")
		return sb.String()
	}
	sb.WriteString(g.optWS() + ">")
	sb.WriteString(g.content(depth))
	sb.WriteString("</" + name + g.optWS() + ">")
	return sb.String()
}

type piece struct {
	kind int // tText, tCDATA, tComment, tPI, tSTag (element)
	s    string
}

func (g *xgen) content(depth int) string {
	n := 0
	switch g.r.Intn(8) {
	case 0:
		n = 0
	case 1, 2:
		n = 1
	case 3, 4, 5:
		n = 2 + g.r.Intn(3)
	default:
		n = 1 + g.r.Intn(8)
	}
	var ps []piece
	for i := 0; i < n; i++ {
		switch g.r.Intn(16) {
		case 0, 1, 2, 3:
			t := g.text()
			if len(ps) > 0 && ps[len(ps)-1].kind == tText {
				ps[len(ps)-1].s += t
			} else {
				ps = append(ps, piece{tText, t})
			}
		case 4, 5:
			ps = append(ps, piece{tText, g.ws()})
			if len(ps) > 1 && ps[len(ps)-2].kind == tText {
				ps[len(ps)-2].s += ps[len(ps)-1].s
				ps = ps[:len(ps)-1]
			}
		case 6, 7:
			ps = append(ps, piece{tCDATA, g.cdata()})
			g.hit("cdata")
		case 8:
			ps = append(ps, piece{tPI, g.pi()})
		case 9, 10:
			ps = append(ps, piece{tComment, g.comment()})
		default:
			if depth > 0 {
				ps = append(ps, piece{tSTag, g.element(depth - 1)})
			} else {
				ps = append(ps, piece{tText, g.r.Pick(wordsPool...)})
				if len(ps) > 1 && ps[len(ps)-2].kind == tText {
					ps[len(ps)-2].s += ps[len(ps)-1].s
					ps = ps[:len(ps)-1]
				}
			}
		}
	}
	// a text piece ending in "]]" directly followed by text starting with ">" would
	// have been merged above; "]]" + ">" inside one piece was already broken up.
	if !g.known && g.keep {
		// N01: element content that is a single white-space-only text token
		if len(ps) == 1 && ps[0].kind == tText && allSpace(ps[0].s) {
			ps = nil
		}
		// N02: white-space-only text right after a tag, then (comments and) a PI
		for i := 0; i+1 < len(ps); i++ {
			if ps[i].kind != tText || !allSpace(ps[i].s) {
				continue
			}
			j := i + 1
			for j < len(ps) && ps[j].kind == tComment {
				j++
			}
			if j < len(ps) && ps[j].kind == tPI {
				ps[i].s = "w" + ps[i].s
			}
		}
	}
	var sb strings.Builder
	for _, p := range ps {
		if p.kind == tText {
			// merged text pieces must not spell a literal "]]>"
			for strings.Contains(p.s, "]]>") {
				p.s = strings.Replace(p.s, "]]>", "]] >", 1)
			}
		}
		sb.WriteString(p.s)
	}
	return sb.String()
}

func (g *xgen) misc(sb *strings.Builder) {
	for i, n := 0, g.r.Intn(3); i < n; i++ {
		switch g.r.Intn(4) {
		case 0, 1:
			sb.WriteString(g.ws())
		case 2:
			sb.WriteString(g.comment())
		case 3:
			sb.WriteString(g.pi())
		}
	}
}

func (g *xgen) doctype(root string) string {
	var sb strings.Builder
	sb.WriteString("<!DOCTYPE" + g.tagWS() + root)
	switch g.r.Intn(4) {
	case 0:
		sb.WriteString(g.tagWS() + "SYSTEM" + g.tagWS() + g.r.Pick(`"x.dtd"`, `'x.dtd'`, `"a'b.dtd"`, `"http://e/x>y.dtd"`))
		g.hit("doctype:system")
	case 1:
		sb.WriteString(g.tagWS() + "PUBLIC" + g.tagWS() + g.r.Pick(`"-//W3C//DTD X 1.0//EN"`, `'-//X//Y'`) + g.tagWS() + g.r.Pick(`"x.dtd"`, `'x.dtd'`))
		g.hit("doctype:public")
	}
	if g.r.Chance(2, 3) {
		sb.WriteString(g.optWS() + "[")
		g.hit("doctype:internal-subset")
		for i, n := 0, g.r.Intn(5); i < n; i++ {
			switch g.r.Intn(8) {
			case 0, 1, 2:
				name := fmt.Sprintf("e%d", len(g.ents))
				val := g.r.Pick("V", "v w", " lead", "trail ", "x  y", "", "q", "tab\there", "nl\nhere", "é", "it's", "]", ">", "/>")
				q := "\""
				if g.r.Chance(1, 3) && !strings.Contains(val, "'") {
					q = "'"
				}
				if !g.known && q == "'" && strings.ContainsAny(val, "]") {
					q = "\""
				}
				sb.WriteString("<!ENTITY" + g.tagWS() + name + g.tagWS() + q + val + q + g.optWS() + ">")
				g.ents = append(g.ents, name)
				g.hit("doctype:entity-decl")
			case 3:
				sb.WriteString("<!ELEMENT " + g.r.Pick("a", "b", root) + " " + g.r.Pick("ANY", "EMPTY", "(#PCDATA)", "(#PCDATA|a|b)*") + ">")
				g.hit("doctype:element-decl")
			case 4:
				sb.WriteString("<!ATTLIST " + g.r.Pick("a", "b", root) + " " + g.r.Pick("k CDATA #IMPLIED", "v CDATA \"d>e\"", "w (x|y) 'x'") + ">")
				g.hit("doctype:attlist-decl")
			case 5:
				sb.WriteString(g.ws())
			case 6:
				if g.known {
					sb.WriteString(g.r.Pick("<!-- ] > -->", "<!--]-->", "<?p ]?>", "<!ENTITY q ']'>", "<!ENTITY q '\"'>"))
					g.hit("doctype:bracket-in-comment-or-literal")
				} else {
					sb.WriteString(g.r.Pick("<!-- c -->", "<!-- [ -->", "<!-- > -->", "<!--<!ELEMENT a ANY>-->"))
				}
				g.hit("doctype:comment")
			case 7:
				sb.WriteString(g.r.Pick("<?p d=\"1\"?>", "<!NOTATION n SYSTEM \"u\">", "<?p?>"))
			}
		}
		sb.WriteString("]")
	}
	sb.WriteString(g.optWS() + ">")
	return sb.String()
}

func (g *xgen) doc() string {
	var sb strings.Builder
	if g.r.Chance(1, 2) {
		q := g.r.Pick("\"", "'")
		sb.WriteString("<?xml version=" + q + "1.0" + q)
		if g.r.Chance(1, 2) {
			sb.WriteString(" encoding=" + q + g.r.Pick("UTF-8", "utf-8") + q)
		}
		if g.r.Chance(1, 3) {
			sb.WriteString(" standalone=" + q + g.r.Pick("yes", "no") + q)
		}
		sb.WriteString(g.r.Pick("", "", " ") + "?>")
		g.hit("xml-declaration")
	}
	g.misc(&sb)
	root := g.r.Pick(elemNames...)
	if g.r.Chance(1, 3) {
		sb.WriteString(g.doctype(root))
		g.hit("doctype")
		g.misc(&sb)
	}
	// root element
	depth := 1 + g.r.Intn(4)
	sb.WriteString("<" + root)
	if g.r.Chance(3, 4) {
		sb.WriteString(g.tagWS() + "xmlns:ns=" + g.r.Pick(`"urn:n"`, `'urn:n'`))
	}
	sb.WriteString(g.attrs())
	if g.r.Chance(1, 12) {
		sb.WriteString("/>")
	} else {
		sb.WriteString(g.optWS() + ">" + g.content(depth) + "</" + root + g.optWS() + ">")
	}
	g.misc(&sb)
	return sb.String()
}

const mutChars = "<>&\"'=/?![]- \x00\t\nx;#"

// mutate derives a (usually malformed) byte stream from a generated document.
func mutate(r *vh.Rand, s string) string {
	b := []byte(s)
	for k, n := 0, 1+r.Intn(3); k < n && len(b) > 0; k++ {
		i := r.Intn(len(b))
		switch r.Intn(6) {
		case 0:
			b = b[:i] // truncate
		case 1:
			b = append(b[:i], b[i+1:]...) // delete
		case 2:
			b[i] = mutChars[r.Intn(len(mutChars))]
		case 3:
			j := i + r.Intn(len(b)-i)
			b = append(b[:i], b[j:]...) // delete range
		case 4:
			ins := r.Pick("<", ">", "&", "<![CDATA[", "]]>", "<!--", "-->", "<?", "?>", "\"", "'", "</", "/>", "<!DOCTYPE", "\x00", "&#", "&#x;")
			b = append(b[:i], append([]byte(ins), b[i:]...)...)
		case 5:
			j := i + r.Intn(len(b)-i)
			b = append(b[:j], append(append([]byte{}, b[i:j]...), b[j:]...)...) // duplicate range
		}
	}
	return string(b)
}
