// Command xmloracle searches for violations of property C06 (xml.Minify keeps the
// infoset) with encoding/xml as the independent oracle. See FINDINGS.md.
package main

import (
	"encoding/json"
	"flag"
	"fmt"
	"hash/fnv"
	"os"
	"path/filepath"
	"runtime"
	"sort"
	"strconv"
	"strings"
	"sync"
	"unicode/utf8"

	"verifharness/internal/vh"
)

// quickN: about 13 CPU-seconds, i.e. 1-2 s wall on 16 idle cores and still under 10 s
// when the machine is shared three ways.
const quickN = 100000

type caseOut struct {
	malformed bool
	input     string
	keep      bool
	size      int
	v         verdict
	hits      map[string]bool
	avoided   []string
	hash      uint64
}

func optMap(keep bool) map[string]string {
	return map[string]string{"KeepWhitespace": strconv.FormatBool(keep)}
}

func printable(s string) string {
	if utf8.ValidString(s) {
		ok := true
		for _, r := range s {
			if r < 0x20 && r != '\n' && r != '\t' || r == 0x7f {
				ok = false
				break
			}
		}
		if ok {
			return s
		}
	}
	return strconv.Quote(s)
}

func clip(s string, n int) string {
	if len(s) > n {
		return s[:n] + fmt.Sprintf("...(%d bytes)", len(s))
	}
	return s
}

func hashCase(s string, keep bool) uint64 {
	h := fnv.New64a()
	h.Write([]byte(s))
	if keep {
		h.Write([]byte{1})
	} else {
		h.Write([]byte{0})
	}
	return h.Sum64()
}

// malformedCheck: panic and second-pass checks only.
func malformedCheck(input string, keep bool) verdict {
	v := verdict{reason: "malformed-stream(panic+second-pass-only)"}
	out, err, pan := runMinify(input, keep)
	v.out = out
	if pan != nil {
		v.kind, v.sig, v.detail, v.expected = "panic", "NEW:panic", fmt.Sprint(pan), "no panic on arbitrary bytes"
		return v
	}
	if err != nil {
		return v
	}
	_, err, pan = runMinify(out, keep)
	if pan != nil {
		v.kind, v.sig, v.detail, v.expected = "panic", "NEW:second-pass-panic", fmt.Sprint(pan), "no panic on own output"
	} else if err != nil {
		v.kind, v.sig, v.detail, v.expected = "oracle", "NEW:second-pass-error", err.Error(), "output of an error-free run minifies again without error"
		if reNulRef.MatchString(input) && strings.Contains(err.Error(), "NULL") {
			v.sig = knownSig["N06"]
		}
	}
	return v
}

func runCase(seed uint64, known bool) caseOut {
	r := vh.NewRand(seed)
	c := caseOut{hits: map[string]bool{}}
	c.malformed = r.Chance(1, 8)
	c.keep = r.Bool()
	var doc string
	for try := 0; ; try++ {
		g := &xgen{r: r.Fork(), known: known, keep: c.keep, hits: map[string]bool{}}
		doc = g.doc()
		if known || c.malformed {
			c.hits = g.hits
			break
		}
		in, pe := parseDoc(doc)
		if pe != nil { // generator bug: let evaluate report it as not judged
			c.hits = g.hits
			break
		}
		sh := knownShapes(doc, in, c.keep)
		for _, fixed := range []string{"K27", "K28", "N01", "N05"} { // repaired in /repo: their shapes belong to the default stream
			delete(sh, fixed)
		}
		if len(sh) == 0 || try >= 40 {
			if len(sh) != 0 {
				doc = "<a/>"
				c.avoided = append(c.avoided, "gave-up")
			} else {
				c.hits = g.hits
			}
			break
		}
		for k := range sh {
			c.avoided = append(c.avoided, k)
		}
	}
	if c.malformed {
		c.input = mutate(r, doc)
		for try := 0; !known && reNulRef.MatchString(c.input) && try < 20; try++ {
			c.avoided = append(c.avoided, "N06")
			c.input = mutate(r, doc)
		}
		if !known && reNulRef.MatchString(c.input) {
			c.input = doc
		}
		c.v = malformedCheck(c.input, c.keep)
	} else {
		c.input = doc
		c.v = evaluate(doc, c.keep)
	}
	c.v.in = nil
	c.hash = hashCase(c.input, c.keep)
	return c
}

func sizeBucket(n int) string {
	switch {
	case n < 64:
		return "<64"
	case n < 256:
		return "64-255"
	case n < 1024:
		return "256-1023"
	}
	return ">=1024"
}

// ddmin shrinks data while test stays true.
func ddmin(data []byte, test func([]byte) bool) []byte {
	n := 2
	for len(data) >= 2 {
		chunk := (len(data) + n - 1) / n
		reduced := false
		for i := 0; i < len(data); i += chunk {
			j := i + chunk
			if j > len(data) {
				j = len(data)
			}
			cand := append(append([]byte{}, data[:i]...), data[j:]...)
			if test(cand) {
				data = cand
				if n > 2 {
					n--
				}
				reduced = true
				break
			}
		}
		if !reduced {
			if n >= len(data) {
				break
			}
			n *= 2
			if n > len(data) {
				n = len(data)
			}
		}
	}
	return data
}

// chunks splits an input into tokens for the first, coarse ddmin pass: markup at tag
// boundaries, path data before every command letter.
func chunks(s string, path bool) []string {
	var out []string
	start := 0
	for i := 0; i < len(s); i++ {
		c := s[i]
		cut := false
		if path {
			cut = i > start && (c >= 'A' && c <= 'Z' || c >= 'a' && c <= 'z') && c != 'e' && c != 'E'
		} else {
			cut = i > start && (c == '<' || s[i-1] == '>')
		}
		if cut {
			out = append(out, s[start:i])
			start = i
		}
	}
	return append(out, s[start:])
}

func ddminChunks(cs []string, test func([]byte) bool) []string {
	n := 2
	join := func(x []string) []byte { return []byte(strings.Join(x, "")) }
	for len(cs) >= 2 {
		chunk := (len(cs) + n - 1) / n
		reduced := false
		for i := 0; i < len(cs); i += chunk {
			j := i + chunk
			if j > len(cs) {
				j = len(cs)
			}
			cand := append(append([]string{}, cs[:i]...), cs[j:]...)
			if test(join(cand)) {
				cs = cand
				if n > 2 {
					n--
				}
				reduced = true
				break
			}
		}
		if !reduced {
			if n >= len(cs) {
				break
			}
			n *= 2
			if n > len(cs) {
				n = len(cs)
			}
		}
	}
	return cs
}

func shrink(c caseOut) caseOut {
	sig := c.v.sig
	test := func(b []byte) bool {
		if c.malformed {
			return malformedCheck(string(b), c.keep).sig == sig
		}
		v := evaluate(string(b), c.keep)
		return v.judged && v.sig == sig
	}
	coarse := strings.Join(ddminChunks(chunks(c.input, false), test), "")
	small := ddmin([]byte(coarse), test)
	// second round: element-name and word simplifications are covered by byte removal;
	// run ddmin again because removals can enable further removals.
	small = ddmin(small, test)
	s := c
	s.input = string(small)
	if c.malformed {
		s.v = malformedCheck(s.input, c.keep)
	} else {
		s.v = evaluate(s.input, c.keep)
		s.v.in = nil
	}
	return s
}

func toViolation(c caseOut, idx int) vh.Violation {
	return vh.Violation{
		Kind: c.v.kind, Signature: c.v.sig, Input: printable(c.input), InputHex: vh.Hex([]byte(c.input)),
		Options: optMap(c.keep), Observed: clip(printable(c.v.out), 2000), Expected: c.v.expected, Detail: clip(c.v.detail, 1500), Case: idx,
	}
}

type witness struct {
	Input    string            `json:"input"`
	InputHex string            `json:"input_hex"`
	Options  map[string]string `json:"options"`
	Mode     string            `json:"mode"`
}

func main() {
	seed := flag.Uint64("seed", 1, "seed")
	n := flag.Int("n", 0, "number of cases (default: by tier)")
	out := flag.String("out", "", "output directory")
	tier := flag.String("tier", "quick", "quick|thorough")
	wit := flag.String("witness", "", "evaluate exactly the case in this JSON file")
	known := flag.Bool("known", false, "also generate the input shapes of known defects")
	flag.Parse()
	if *out == "" {
		fmt.Fprintln(os.Stderr, "xmloracle: -out DIR is required")
		os.Exit(2)
	}
	if err := os.MkdirAll(*out, 0o755); err != nil {
		fmt.Fprintln(os.Stderr, "xmloracle:", err)
		os.Exit(2)
	}
	res := &vh.Result{Engine: "xmloracle", Seed: *seed, Tier: *tier,
		Rule: "evaluations = well-formed documents judged against C06 by the encoding/xml token walk; distinct_nontrivial = distinct (input, options) hashes among them whose minified output differs from the input"}

	if *wit != "" {
		b, err := os.ReadFile(*wit)
		if err != nil {
			fmt.Fprintln(os.Stderr, "xmloracle:", err)
			os.Exit(2)
		}
		var w witness
		if err := json.Unmarshal(b, &w); err != nil {
			fmt.Fprintln(os.Stderr, "xmloracle: bad witness:", err)
			os.Exit(2)
		}
		if w.Input == "" && w.InputHex != "" {
			w.Input = string(vh.Unhex(w.InputHex))
		}
		keep := w.Options["KeepWhitespace"] == "true"
		var v verdict
		if w.Options["stream"] == "malformed" {
			v = malformedCheck(w.Input, keep)
		} else {
			v = evaluate(w.Input, keep)
		}
		res.Tier = "witness"
		res.Hist("options", "KeepWhitespace="+strconv.FormatBool(keep))
		if v.judged {
			res.Evaluations = 1
			if v.nontrivial {
				res.DistinctNontrivial = 1
			}
		} else {
			res.NotJudged = 1
			res.Hist("not_judged", v.reason)
		}
		res.Samples = append(res.Samples, map[string]interface{}{"input": printable(w.Input), "options": optMap(keep), "output": printable(v.out), "judged": v.judged})
		if v.sig != "" {
			res.Violations = append(res.Violations, toViolation(caseOut{input: w.Input, keep: keep, v: v}, 0))
		}
		if err := res.Write(filepath.Join(*out, "result.json")); err != nil {
			fmt.Fprintln(os.Stderr, "xmloracle:", err)
			os.Exit(2)
		}
		return
	}

	if *n <= 0 {
		*n = quickN
		if *tier == "thorough" {
			*n = 10 * quickN
		}
	}
	// Fork first: vh.NewRand(k) and vh.NewRand(k+1) are the same splitmix stream shifted
	// by one draw, so consecutive seeds would otherwise share all but one case.
	master := vh.NewRand(*seed).Fork()
	seeds := make([]uint64, *n)
	for i := range seeds {
		seeds[i] = master.Uint64()
	}
	outs := make([]caseOut, *n)
	var wg sync.WaitGroup
	workers := runtime.GOMAXPROCS(0)
	next := make(chan int, 1024)
	for w := 0; w < workers; w++ {
		wg.Add(1)
		go func() {
			defer wg.Done()
			for i := range next {
				outs[i] = runCase(seeds[i], *known)
				outs[i].v.out = keepOut(outs[i])
				outs[i].size = len(outs[i].input)
				if outs[i].v.sig == "" && i >= 5000 {
					outs[i].input = "" // only early cases are candidates for samples
				}
			}
		}()
	}
	for i := 0; i < *n; i++ {
		next <- i
	}
	close(next)
	wg.Wait()

	// correspondence data for the Coq model (engine xml of mvmodel): the first cases of the run, regenerated from their seeds
	{
		fin, _ := os.Create(filepath.Join(*out, "cases.in"))
		fout, _ := os.Create(filepath.Join(*out, "cases.go.out"))
		nm := *n
		if nm > 6000 && *tier != "thorough" {
			nm = 6000
		}
		if nm > 40000 {
			nm = 40000
		}
		for i := 0; i < nm; i++ {
			c := runCase(seeds[i], *known)
			if len(c.input) > 20000 {
				continue
			}
			a, b, hi, ho := modelLines(c.input, c.keep)
			fmt.Fprintln(fin, a)
			fmt.Fprintln(fout, b)
			for k := range hi {
				fmt.Fprintln(fin, hi[k])
				fmt.Fprintln(fout, ho[k])
			}
		}
		fin.Close()
		fout.Close()
		if res.Extra == nil {
			res.Extra = map[string]interface{}{}
		}
		res.Extra["wf_tokens_checked"] = wfChecked
		res.Extra["wf_tokens_violations"] = wfViolations
	}
	distinct := map[uint64]struct{}{}
	bySig := map[string][]int{}
	malformed := 0
	for i := range outs {
		c := &outs[i]
		for k := range c.hits {
			res.Hist("constructs", k)
		}
		for _, a := range c.avoided {
			res.Hist("avoided_known_shapes", a)
		}
		res.Hist("options", "KeepWhitespace="+strconv.FormatBool(c.keep))
		res.Hist("size_bytes", sizeBucket(c.size))
		if c.malformed {
			malformed++
			res.Hist("stream", "malformed")
		} else {
			res.Hist("stream", "well-formed")
		}
		if c.v.judged {
			res.Evaluations++
			if c.v.nontrivial {
				distinct[c.hash] = struct{}{}
			}
		} else {
			res.NotJudged++
			res.Hist("not_judged", c.v.reason)
		}
		if c.v.sig != "" {
			bySig[c.v.sig] = append(bySig[c.v.sig], i)
		}
	}
	res.DistinctNontrivial = len(distinct)

	// samples: three real judged cases whose output differs
	for i := range outs {
		if len(res.Samples) >= 3 {
			break
		}
		c := &outs[i]
		if c.v.judged && c.v.nontrivial && c.v.sig == "" && len(c.input) < 400 && len(c.input) > 40 {
			o, _, _ := runMinify(c.input, c.keep)
			res.Samples = append(res.Samples, map[string]interface{}{"case": i, "input": printable(c.input), "options": optMap(c.keep), "output": printable(o)})
		}
	}

	// violations: shrink up to three per signature
	sigs := make([]string, 0, len(bySig))
	for s := range bySig {
		sigs = append(sigs, s)
	}
	sort.Strings(sigs)
	counts := map[string]int{}
	for _, s := range sigs {
		counts[s] = len(bySig[s])
		idxs := bySig[s]
		// prefer the smallest inputs
		sort.SliceStable(idxs, func(a, b int) bool { return len(outs[idxs[a]].input) < len(outs[idxs[b]].input) })
		seen := map[string]bool{}
		for k, i := range idxs {
			if k >= 3 {
				break
			}
			c := outs[i]
			if !c.malformed {
				c.v = evaluate(c.input, c.keep) // restore output text
			} else {
				c.v = malformedCheck(c.input, c.keep)
			}
			sc := shrink(c)
			if sc.v.sig != s { // cannot happen; keep the original
				sc = c
			}
			if seen[sc.input+strconv.FormatBool(sc.keep)] {
				continue
			}
			seen[sc.input+strconv.FormatBool(sc.keep)] = true
			res.Violations = append(res.Violations, toViolation(sc, i))
		}
	}
	var njEx []interface{}
	for i := range outs {
		if c := &outs[i]; !c.malformed && !c.v.judged && len(njEx) < 8 {
			_, pe := parseDoc(c.input)
			msg := ""
			if pe != nil {
				msg = pe.Error()
			}
			njEx = append(njEx, map[string]string{"input": printable(c.input), "reason": c.v.reason, "error": msg})
		}
	}
	res.Extra = map[string]interface{}{
		"not_judged_examples":           njEx,
		"violation_counts_by_signature": counts,
		"malformed_stream_cases":        malformed,
		"known_shapes_generated":        *known,
		"workers":                       workers,
		"wf_tokens_checked":             wfChecked,
		"wf_tokens_violations":          wfViolations,
	}
	if err := res.Write(filepath.Join(*out, "result.json")); err != nil {
		fmt.Fprintln(os.Stderr, "xmloracle:", err)
		os.Exit(2)
	}
	nk := 0
	for s, c := range counts {
		if len(s) >= 4 && s[:4] == "NEW:" {
			nk += c
		}
	}
	fmt.Printf("xmloracle: seed=%d cases=%d judged=%d not_judged=%d distinct_nontrivial=%d violations=%d (new=%d)\n", *seed, *n, res.Evaluations, res.NotJudged, res.DistinctNontrivial, len(res.Violations), nk)
	for _, s := range sigs {
		fmt.Printf("  %6d  %s\n", counts[s], s)
	}
}

// keepOut drops the output text of passing cases to keep memory flat.
func keepOut(c caseOut) string {
	if c.v.sig != "" {
		return c.v.out
	}
	return ""
}
