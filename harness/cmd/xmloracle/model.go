package main

// Correspondence data for the Coq model Xml/XmlModel.v: the token stream of the real parse/xml lexer (with what the
// dependency's entity/white-space helpers make of each token) and the bytes the real xml.Minify produces.

import (
	"bytes"
	"fmt"
	"strings"

	xmlmin "github.com/tdewolff/minify/v2/xml"
	"github.com/tdewolff/parse/v2"
	pxml "github.com/tdewolff/parse/v2/xml"
	"verifharness/internal/vh"
)

func hx(b []byte) string {
	if len(b) == 0 {
		return "-"
	}
	return vh.Hex(b)
}

var wfChecked, wfViolations int

var ttNames = map[pxml.TokenType]int{pxml.ErrorToken: 0, pxml.CommentToken: 1, pxml.DOCTYPEToken: 2, pxml.CDATAToken: 3, pxml.TextToken: 4,
	pxml.StartTagToken: 5, pxml.StartTagPIToken: 6, pxml.AttributeToken: 7, pxml.StartTagCloseToken: 8, pxml.StartTagCloseVoidToken: 9,
	pxml.StartTagClosePIToken: 10, pxml.EndTagToken: 11}

// modelLines returns the case line for mvmodel (engine "xml") and the implementation's answer, plus helper cases.
func modelLines(input string, keep bool) (in, out string, helpersIn, helpersOut []string) {
	src := []byte(input)
	l := pxml.NewLexer(parse.NewInputBytes(append([]byte{}, src...)))
	var toks []string
	for {
		tt, data := l.Next()
		if tt == pxml.ErrorToken {
			break
		}
		d := append([]byte{}, data...)
		text := append([]byte{}, l.Text()...)
		av := append([]byte{}, l.AttrVal()...)
		switch tt {
		case pxml.TextToken:
			text = append([]byte{}, d...)
			d = parse.ReplaceMultipleWhitespaceAndEntities(append([]byte{}, d...), xmlmin.EntitiesMap, xmlmin.TextRevEntitiesMap)
			// hypothesis wf_tokens of Props/C06.v, measured on every token: data not empty; raw starts with white space => data does
			wfChecked++
			if len(d) == 0 || (len(text) > 0 && parse.IsWhitespace(text[0]) && !parse.IsWhitespace(d[0])) {
				wfViolations++
			}
			if len(helpersIn) < 6 {
				helpersIn = append(helpersIn, "ws_collapse\t"+hx(text))
				helpersOut = append(helpersOut, hx(parse.ReplaceMultipleWhitespace(append([]byte{}, text...))))
			}
		case pxml.AttributeToken:
			if len(av) >= 2 && av[0] == '"' && av[len(av)-1] == '"' {
				inner := append([]byte{}, av[1:len(av)-1]...)
				d = parse.ReplaceEntities(inner, xmlmin.EntitiesMap, xmlmin.AttrRevEntitiesMap)
				if len(helpersIn) < 6 {
					var buf []byte
					helpersIn = append(helpersIn, "xml_escattr\t"+hx(d))
					helpersOut = append(helpersOut, hx(pxml.EscapeAttrVal(&buf, append([]byte{}, d...))))
				}
			} else {
				d = nil
			}
		case pxml.CDATAToken:
			if len(helpersIn) < 6 {
				var buf []byte
				e, use := pxml.EscapeCDATAVal(&buf, append([]byte{}, text...))
				helpersIn = append(helpersIn, "xml_esccdata\t"+hx(text))
				helpersOut = append(helpersOut, fmt.Sprintf("%v %s", use, hx(e)))
			}
		}
		toks = append(toks, fmt.Sprintf("%d:%s:%s:%s", ttNames[tt], hx(d), hx(text), hx(av)))
	}
	var w bytes.Buffer
	mz := &xmlmin.Minifier{KeepWhitespace: keep}
	mz.Minify(nil, &w, bytes.NewReader(append([]byte{}, src...)), nil)
	k := "0"
	if keep {
		k = "1"
	}
	return "xml\t" + k + "\t" + strings.Join(toks, ","), hx(w.Bytes()), helpersIn, helpersOut
}
