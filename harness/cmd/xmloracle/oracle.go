package main

import (
	"bytes"
	"encoding/xml"
	"fmt"
	"io"
	"regexp"
	"sort"
	"strings"

	"github.com/tdewolff/minify/v2"
	mxml "github.com/tdewolff/minify/v2/xml"
)

type attr struct{ name, val string }

// event is a structural node boundary of the infoset walk.
type event struct {
	kind  byte // 'S' start element, 'E' end element, 'P' processing instruction, 'D' DOCTYPE
	name  string
	attrs []attr  // normalised per XML 1.0 3.3.3 from the raw text
	raw   []rattr // raw attributes, for classification
	data  string
	tok   int // index in toks of the raw token that produced the event
}

type parsed struct {
	toks    []rtok
	ents    map[string]string
	complex bool
	evs     []event
	runs    []string   // runs[i]: character data (text + CDATA, comments transparent) before evs[i]; one extra at the end
	cdatas  [][]string // per run: CDATA section contents in order
	depth   []int      // element depth at run i
}

type parseErr struct {
	stage string // "scan", "decode", "structure", "entity", "attr"
	err   error
}

func (e *parseErr) Error() string { return e.stage + ": " + e.err.Error() }

func isTagEv(e *event) bool { return e != nil && (e.kind == 'S' || e.kind == 'E') }

func allSpace(s string) bool {
	for i := 0; i < len(s); i++ {
		if !isXMLSpace(s[i]) {
			return false
		}
	}
	return true
}

// fields splits on XML white space only (S ::= #x20 | #x9 | #xD | #xA); NBSP and other
// Unicode spaces are ordinary characters for XML and for the minifier.
func fields(s string) []string {
	return strings.FieldsFunc(s, func(r rune) bool { return r == ' ' || r == '\t' || r == '\n' || r == '\r' })
}

func parseDoc(s string) (*parsed, *parseErr) {
	p := &parsed{}
	toks, err := scan(s)
	if err != nil {
		return nil, &parseErr{"scan", err}
	}
	p.toks = toks
	p.ents, p.complex = entitiesOf(toks)

	// document-level structure that encoding/xml does not enforce
	depth, roots, seenDoctype := 0, 0, false
	for i, t := range toks {
		switch t.kind {
		case tText:
			if depth == 0 && !allSpace(t.data) {
				return nil, &parseErr{"structure", fmt.Errorf("character data outside the root element at %d", t.pos)}
			}
		case tCDATA:
			if depth == 0 {
				return nil, &parseErr{"structure", fmt.Errorf("CDATA outside the root element at %d", t.pos)}
			}
		case tDoctype:
			if depth != 0 || roots != 0 || seenDoctype {
				return nil, &parseErr{"structure", fmt.Errorf("misplaced DOCTYPE at %d", t.pos)}
			}
			seenDoctype = true
		case tPI:
			if strings.EqualFold(t.name, "xml") && (i != 0 || t.name != "xml") {
				return nil, &parseErr{"structure", fmt.Errorf("misplaced XML declaration at %d", t.pos)}
			}
		case tSTag, tEmpty:
			if depth == 0 {
				roots++
				if roots > 1 {
					return nil, &parseErr{"structure", fmt.Errorf("second root element at %d", t.pos)}
				}
			}
			if t.kind == tSTag {
				depth++
			}
		case tETag:
			depth--
			if depth < 0 {
				return nil, &parseErr{"structure", fmt.Errorf("unbalanced end tag at %d", t.pos)}
			}
		}
	}
	if roots != 1 || depth != 0 {
		return nil, &parseErr{"structure", fmt.Errorf("document needs exactly one root element (roots=%d depth=%d)", roots, depth)}
	}

	// structural skeleton from the raw tokens
	type slot struct {
		kind byte
		tok  int
	}
	var skel []slot
	cdataAt := map[int][]string{} // run index -> CDATA contents
	for i, t := range toks {
		switch t.kind {
		case tSTag:
			skel = append(skel, slot{'S', i})
		case tETag:
			skel = append(skel, slot{'E', i})
		case tEmpty:
			skel = append(skel, slot{'S', i}, slot{'E', i})
		case tPI:
			skel = append(skel, slot{'P', i})
		case tDoctype:
			skel = append(skel, slot{'D', i})
		case tCDATA:
			c := normLineEnds(t.data)
			if strings.HasSuffix(t.data, "\r") {
				// a CR that ends a section may pair up with a following LF once the
				// section is inlined (XML 1.0 2.11 line-end handling): white space only
				c = c[:len(c)-1]
			}
			cdataAt[len(skel)] = append(cdataAt[len(skel)], c)
		}
	}

	// the token walk proper
	d := xml.NewDecoder(strings.NewReader(s))
	d.Strict = true
	d.Entity = p.ents
	var cur strings.Builder
	dep := 0
	flush := func() {
		p.runs = append(p.runs, cur.String())
		p.depth = append(p.depth, dep)
		cur.Reset()
	}
	push := func(e event) *parseErr {
		k := len(p.evs)
		if k >= len(skel) || skel[k].kind != e.kind {
			return &parseErr{"structure", fmt.Errorf("raw scanner and encoding/xml disagree at event %d", k)}
		}
		e.tok = skel[k].tok
		flush()
		p.evs = append(p.evs, e)
		return nil
	}
	for {
		t, err := d.Token()
		if err == io.EOF {
			break
		}
		if err != nil {
			return nil, &parseErr{"decode", err}
		}
		var pe *parseErr
		switch t := t.(type) {
		case xml.StartElement:
			pe = push(event{kind: 'S', name: t.Name.Space + " " + t.Name.Local})
			dep++
		case xml.EndElement:
			pe = push(event{kind: 'E', name: t.Name.Space + " " + t.Name.Local})
			dep--
		case xml.CharData:
			cur.Write(t)
		case xml.ProcInst:
			pe = push(event{kind: 'P', name: t.Target, data: string(t.Inst)})
		case xml.Directive:
			pe = push(event{kind: 'D', data: string(t)})
		}
		if pe != nil {
			return nil, pe
		}
	}
	flush()
	if len(p.evs) != len(skel) {
		return nil, &parseErr{"structure", fmt.Errorf("raw scanner and encoding/xml disagree on the number of events")}
	}
	p.cdatas = make([][]string, len(p.runs))
	for k, v := range cdataAt {
		p.cdatas[k] = v
	}
	// names and normalised attribute values from the raw text
	for i := range p.evs {
		e := &p.evs[i]
		if e.kind != 'S' {
			continue
		}
		rt := toks[e.tok]
		e.raw = rt.attrs
		for _, a := range rt.attrs {
			v, err := normAttr(a.raw, p.ents)
			if err != nil {
				return nil, &parseErr{"attr", err}
			}
			e.attrs = append(e.attrs, attr{a.name, v})
		}
		sort.SliceStable(e.attrs, func(a, b int) bool { return e.attrs[a].name < e.attrs[b].name })
	}
	return p, nil
}

// ---------------------------------------------------------------------------------

type diff struct {
	cat      string // category, becomes the signature after classification
	detail   string
	expected string
	ev       int    // event index (or run index for text categories)
	attr     string // attribute name for attr categories
}

var rePseudo = regexp.MustCompile(`^[ \t\r\n]*([^ \t\r\n=?"'<>&]+)[ \t\r\n]*=[ \t\r\n]*(?:"([^"]*)"|'([^']*)')`)

// pseudoAttrs parses PI data of the xml-stylesheet shape (name="value" pairs). ok is
// false when the data has any other shape.
func pseudoAttrs(data string) (out []attr, ok bool) {
	for {
		m := rePseudo.FindStringSubmatchIndex(data)
		if m == nil {
			return out, allSpace(data)
		}
		v := ""
		if m[4] >= 0 {
			v = data[m[4]:m[5]]
		} else {
			v = data[m[6]:m[7]]
		}
		out = append(out, attr{data[m[2]:m[3]], v})
		data = data[m[1]:]
		if data != "" && !isXMLSpace(data[0]) {
			return out, false // pairs must be separated by white space
		}
	}
}

// simplePI: attribute-shaped data whose values contain nothing the attribute code path
// of the minifier could rewrite (no '&', no TAB/LF/CR inside the values).
func simplePI(data string) bool {
	as, ok := pseudoAttrs(data)
	if !ok {
		return false
	}
	for _, a := range as {
		if strings.ContainsAny(a.val, "&\t\r\n") {
			return false
		}
	}
	return true
}

func compare(in, out *parsed, keep bool) *diff {
	n := len(in.evs)
	if len(out.evs) < n {
		n = len(out.evs)
	}
	for i := 0; i <= n; i++ {
		// run before event i
		if i < len(in.runs) && i < len(out.runs) {
			var l, r *event
			if i > 0 {
				l = &in.evs[i-1]
			}
			if i < len(in.evs) {
				r = &in.evs[i]
			}
			if d := compareRun(in, out, i, l, r, keep); d != nil {
				return d
			}
		}
		if i == n {
			break
		}
		a, b := &in.evs[i], &out.evs[i]
		if a.kind != b.kind {
			return &diff{cat: "struct:node-sequence-differs", ev: i, detail: fmt.Sprintf("node %d is %s in the input but %s in the output", i, descEv(a), descEv(b)), expected: "same sequence of elements, PIs and DOCTYPE"}
		}
		switch a.kind {
		case 'S', 'E':
			if a.name != b.name {
				return &diff{cat: "struct:element-name-differs", ev: i, detail: fmt.Sprintf("node %d: %s vs %s", i, descEv(a), descEv(b)), expected: "same element names"}
			}
			if a.kind == 'S' {
				if d := compareAttrs(a, b, i); d != nil {
					return d
				}
			}
		case 'P':
			if a.name != b.name {
				return &diff{cat: "pi:target-differs", ev: i, detail: fmt.Sprintf("PI target %q vs %q", a.name, b.name), expected: "same PI target"}
			}
			if a.data != b.data {
				pa, oka := pseudoAttrs(a.data)
				pb, okb := pseudoAttrs(b.data)
				if !(oka && okb && attrsEqual(pa, pb)) {
					return &diff{cat: "pi-data-changed", ev: i, detail: fmt.Sprintf("PI %s data %q became %q", a.name, a.data, b.data), expected: "PI data unchanged (pseudo-attribute lists compared pair-wise)"}
				}
			}
		case 'D':
			if a.data != b.data {
				return &diff{cat: "doctype-changed", ev: i, detail: fmt.Sprintf("DOCTYPE %q became %q", a.data, b.data), expected: "DOCTYPE unchanged"}
			}
		}
	}
	if len(in.evs) != len(out.evs) {
		var x *event
		side := "input"
		if len(in.evs) > n {
			x = &in.evs[n]
		} else {
			x = &out.evs[n]
			side = "output"
		}
		return &diff{cat: "struct:node-count-differs", ev: n, detail: fmt.Sprintf("only the %s has node %d: %s", side, n, descEv(x)), expected: "same number of nodes"}
	}
	return nil
}

func descEv(e *event) string {
	switch e.kind {
	case 'S':
		return "<" + strings.TrimSpace(e.name) + ">"
	case 'E':
		return "</" + strings.TrimSpace(e.name) + ">"
	case 'P':
		return "<?" + e.name + "?>"
	}
	return "<!DOCTYPE>"
}

func attrsEqual(a, b []attr) bool {
	if len(a) != len(b) {
		return false
	}
	for i := range a {
		if a[i] != b[i] {
			return false
		}
	}
	return true
}

func compareAttrs(a, b *event, i int) *diff {
	am, bm := map[string]string{}, map[string]string{}
	for _, x := range a.attrs {
		am[x.name] = x.val
	}
	for _, x := range b.attrs {
		bm[x.name] = x.val
	}
	for _, x := range a.attrs {
		v, ok := bm[x.name]
		if !ok {
			return &diff{cat: "attr:dropped", ev: i, attr: x.name, detail: fmt.Sprintf("attribute %s of %s is missing in the output", x.name, descEv(a)), expected: "same attribute set"}
		}
		if v != x.val {
			return &diff{cat: "attr:value-changed", ev: i, attr: x.name, detail: fmt.Sprintf("attribute %s of %s: normalised value %q became %q", x.name, descEv(a), x.val, v), expected: "same normalised attribute value"}
		}
	}
	for _, x := range b.attrs {
		if _, ok := am[x.name]; !ok {
			return &diff{cat: "attr:added", ev: i, attr: x.name, detail: fmt.Sprintf("attribute %s appeared on %s", x.name, descEv(a)), expected: "same attribute set"}
		}
	}
	return nil
}

func compareRun(in, out *parsed, i int, l, r *event, keep bool) *diff {
	if in.depth[i] == 0 {
		return nil // white space between top-level markup is not part of the infoset
	}
	a, b := in.runs[i], out.runs[i]
	if a == b {
		return nil
	}
	fa, fb := fields(a), fields(b)
	same := len(fa) == len(fb)
	if same {
		for k := range fa {
			if fa[k] != fb[k] {
				same = false
				break
			}
		}
	}
	if !same {
		cat := "text:characters-changed"
		if strings.Join(fa, "") == strings.Join(fb, "") {
			if len(fb) < len(fa) {
				cat = "text:words-joined"
			} else {
				cat = "text:words-split"
			}
		} else if len(fb) < len(fa) && isSubseq(fb, fa) {
			cat = "text:words-dropped"
		}
		return &diff{cat: cat, ev: i, detail: fmt.Sprintf("text run %d: %q became %q", i, a, b), expected: "same words in the run"}
	}
	la, lb := a != "" && isXMLSpace(a[0]), b != "" && isXMLSpace(b[0])
	ta, tb := a != "" && isXMLSpace(a[len(a)-1]), b != "" && isXMLSpace(b[len(b)-1])
	if !la && lb || !ta && tb {
		return &diff{cat: "text:whitespace-added", ev: i, detail: fmt.Sprintf("text run %d: %q became %q", i, a, b), expected: "no white space where the input had none"}
	}
	// CDATA sections keep exactly their characters
	pos := 0
	for _, c := range in.cdatas[i] {
		if c == "" {
			continue
		}
		k := strings.Index(b[pos:], c)
		if k < 0 {
			return &diff{cat: "cdata:characters-changed", ev: i, detail: fmt.Sprintf("text run %d: CDATA content %q not found verbatim in %q", i, c, b), expected: "CDATA content kept character for character"}
		}
		pos += k + len(c)
	}
	if keep {
		if len(fa) == 0 { // all white space, non-empty (a != b and same words)
			if b == "" && (isTagEv(l) || isTagEv(r)) {
				return &diff{cat: "keepws:whitespace-run-removed", ev: i, detail: fmt.Sprintf("white-space-only run %d (%q) between %s and %s vanished although KeepWhitespace is set", i, a, descEvN(l), descEvN(r)), expected: "at least one white space kept next to a tag"}
			}
			return nil
		}
		if la && !lb && isTagEv(l) {
			return &diff{cat: "keepws:leading-space-removed", ev: i, detail: fmt.Sprintf("text run %d after %s: %q became %q", i, descEvN(l), a, b), expected: "at least one white space kept next to a tag"}
		}
		if ta && !tb && isTagEv(r) {
			return &diff{cat: "keepws:trailing-space-removed", ev: i, detail: fmt.Sprintf("text run %d before %s: %q became %q", i, descEvN(r), a, b), expected: "at least one white space kept next to a tag"}
		}
	}
	return nil
}

func descEvN(e *event) string {
	if e == nil {
		return "(document edge)"
	}
	return descEv(e)
}

func isSubseq(small, big []string) bool {
	j := 0
	for _, w := range big {
		if j < len(small) && small[j] == w {
			j++
		}
	}
	return j == len(small)
}

// ---------------------------------------------------------------------------------
// known shapes: recognised on the INPUT only, so that avoidance never depends on what
// the minifier does.

var reEscGtAfterBrackets = regexp.MustCompile(`\]\](&gt;|&#0*62;|&#[xX]0*3[eE];)`)

type shapes map[string]bool

func attrHasK27(a rattr) bool {
	if a.quote != '"' {
		return false // single-quoted values are copied verbatim
	}
	for _, r := range numRefs(a.raw) {
		switch r {
		case '<', '&', '\t', '\n', '\r':
			return true
		}
	}
	return false
}

func knownShapes(s string, in *parsed, keep bool) shapes {
	sh := shapes{}
	for _, t := range in.toks {
		switch t.kind {
		case tSTag, tEmpty:
			for _, a := range t.attrs {
				if attrHasK27(a) {
					sh["K27"] = true
				}
				if strings.Contains(a.raw, "\r\n") {
					sh["N03"] = true
				}
			}
		case tPI:
			if !simplePI(t.data) {
				sh["K42"] = true
			}
		case tDoctype:
			if lexerDoctypeEnd(s, t.pos) != t.pos+len(t.raw) {
				sh["N04"] = true
			}
		}
	}
	for i, r := range in.runs {
		if in.depth[i] > 0 && strings.Contains(r, "]]>") {
			if reEscGtAfterBrackets.MatchString(s) {
				sh["K43"] = true
			} else {
				sh["K28"] = true
			}
		}
	}
	if keep {
		for i, t := range in.toks {
			if t.kind != tText || !allSpace(t.data) || i == 0 || i+1 >= len(in.toks) {
				continue
			}
			if in.toks[i-1].kind == tSTag && in.toks[i+1].kind == tETag {
				sh["N01"] = true
			}
		}
		// N02: a white-space-only run right after an element tag whose trailing space the
		// minifier gives away because, looking across PIs / comments, the next character
		// data starts with white space again.
		for i := range in.runs {
			if in.depth[i] == 0 || i == 0 || i >= len(in.evs) || in.runs[i] == "" || !allSpace(in.runs[i]) {
				continue
			}
			if !isTagEv(&in.evs[i-1]) || in.evs[i].kind != 'P' {
				continue
			}
			for j := i + 1; j < len(in.runs); j++ {
				if in.runs[j] != "" || len(in.cdatas[j]) > 0 {
					if isXMLSpace(firstByte(in.runs[j])) {
						sh["N02"] = true
					}
					break
				}
				if j >= len(in.evs) || in.evs[j].kind != 'P' {
					break
				}
			}
		}
		// mirrored: PI, white-space-only run, element tag, where the character data
		// before the PI(s) ends with white space
		for i := range in.runs {
			if in.depth[i] == 0 || i == 0 || i >= len(in.evs) || in.runs[i] == "" || !allSpace(in.runs[i]) {
				continue
			}
			if in.evs[i-1].kind != 'P' || !isTagEv(&in.evs[i]) {
				continue
			}
			for j := i - 1; j >= 0; j-- {
				if in.runs[j] != "" {
					if isXMLSpace(in.runs[j][len(in.runs[j])-1]) {
						sh["N02"] = true
					}
					break
				}
				if j == 0 || in.evs[j-1].kind != 'P' {
					break
				}
			}
		}
	}
	if len(n05Runs(in, keep)) > 0 {
		sh["N05"] = true
	}
	return sh
}

var reLeadWSRef = regexp.MustCompile(`^&#(0*(9|10|13|32)|[xX]0*(9|[aAdD]|20));`)
var reTrailWSRef = regexp.MustCompile(`&#(0*(9|10|13|32)|[xX]0*(9|[aAdD]|20));$`)

var reAnyWSRef = regexp.MustCompile(`&#(0*(9|10|13|32)|[xX]0*(9|[aAdD]|20));`)

func startsWS(raw string) bool {
	return raw != "" && (isXMLSpace(raw[0]) || reLeadWSRef.MatchString(raw))
}
func endsWS(raw string) bool {
	return raw != "" && (isXMLSpace(raw[len(raw)-1]) || reTrailWSRef.MatchString(raw))
}

// n05Runs recognises the N05 shape: a text token that starts with white space and is
// preceded (comments / PIs / empty CDATA aside) by a non-empty CDATA section that does
// not end in white space, in a context where the minifier's "omit next leading space"
// flag is (or may be) still set from before the CDATA section. It returns the indices
// of the text runs that contain such a token.
func n05Runs(in *parsed, keep bool) map[int]bool {
	out := map[int]bool{}
	toks := in.toks
	runOf := make([]int, len(toks))
	k := 0
	for i, t := range toks {
		runOf[i] = k
		switch t.kind {
		case tSTag, tETag, tPI, tDoctype:
			k++
		case tEmpty:
			k += 2
		}
	}
	for k, t := range toks {
		if t.kind != tText || !startsWS(t.data) {
			continue
		}
		saw := false
		flagged := false
		j := k - 1
	walk:
		for ; j >= 0; j-- {
			u := toks[j]
			switch u.kind {
			case tComment, tPI, tDoctype:
				continue
			case tCDATA:
				if u.data == "" {
					continue
				}
				if isXMLSpace(u.data[len(u.data)-1]) {
					flagged = saw
					break walk
				}
				saw = true
			case tText:
				if saw && endsWS(u.data) {
					// the trailing space of u is given up only when the next CDATA
					// section starts with white space; otherwise the flag stays set
					// (a white-space-only u may vanish altogether with the flag left set)
					flagged = true
					for m := j + 1; m < k && !allSpace(reAnyWSRef.ReplaceAllString(u.data, " ")); m++ {
						if toks[m].kind == tCDATA {
							if toks[m].data != "" && isXMLSpace(toks[m].data[0]) {
								flagged = false
							}
							break
						}
					}
				}
				break walk
			default: // element tags
				flagged = saw && !keep
				break walk
			}
		}
		if j < 0 && saw {
			flagged = true
		}
		if flagged {
			out[runOf[k]] = true
		}
	}
	return out
}

func firstByte(s string) byte {
	if s == "" {
		return 0
	}
	return s[0]
}

// reNulRef: a character reference to U+0000 (never well-formed) is decoded to a raw NUL
// byte, which the lexer then refuses on a second pass (N06, malformed stream only).
var reNulRef = regexp.MustCompile(`&#(0+|[xX]0+);`)

var knownSig = map[string]string{
	"N06": "N06:malformed:nul-charref-decoded-second-pass-fails",
	"K27": "K27:attr:charref-decoded-to-raw-character",
	"K28": "K28:text:cdata-end-marker-formed-by-joining",
	"K42": "K42:pi-data-changed",
	"K43": "K43:text:escaped-gt-after-brackets-decoded",
	"N01": "N01:keepws:whitespace-only-element-collapsed",
	"N02": "N02:keepws:space-between-tag-and-pi-removed",
	"N03": "N03:attr:crlf-becomes-two-spaces",
	"N04": "N04:doctype:bracket-in-literal-or-comment-ends-doctype",
	"N05": "N05:text:space-after-cdata-dropped",
}

// classify turns an oracle difference into a root-cause signature. Known ids are only
// assigned when the difference is of the kind that the known defect produces AND the
// input has the corresponding shape at that place; everything else is "NEW:".
func classifyDiff(d *diff, s string, in *parsed, keep bool) string {
	sh := knownShapes(s, in, keep)
	switch d.cat {
	case "attr:value-changed":
		e := &in.evs[d.ev]
		for _, a := range e.raw {
			if a.name != d.attr {
				continue
			}
			// N03 first: a literal CRLF explains a value that gained a space; K27 (fixed in /repo) was about references
			// decoded to raw characters, which cannot add a character
			if strings.Contains(a.raw, "\r\n") {
				return knownSig["N03"]
			}
			if attrHasK27(a) {
				return knownSig["K27"]
			}
		}
	case "pi-data-changed":
		if !simplePI(in.evs[d.ev].data) {
			return knownSig["K42"]
		}
	case "doctype-changed", "struct:node-sequence-differs", "struct:node-count-differs":
		if sh["N04"] {
			return knownSig["N04"]
		}
	case "text:words-joined", "keepws:trailing-space-removed", "keepws:leading-space-removed":
		if n05Runs(in, keep)[d.ev] {
			return knownSig["N05"]
		}
	case "keepws:whitespace-run-removed":
		i := d.ev
		if n05Runs(in, keep)[i] {
			return knownSig["N05"]
		}
		if i > 0 && i < len(in.evs) {
			l, r := &in.evs[i-1], &in.evs[i]
			if l.kind == 'S' && r.kind == 'E' && sh["N01"] && len(in.cdatas[i]) == 0 {
				return knownSig["N01"]
			}
			if (isTagEv(l) && r.kind == 'P' || l.kind == 'P' && isTagEv(r)) && sh["N02"] {
				return knownSig["N02"]
			}
		}
	}
	if sh["N04"] {
		// once the DOCTYPE is mis-lexed the rest of the document is read in the wrong
		// state; any difference downstream has that root cause
		return knownSig["N04"]
	}
	return "NEW:" + d.cat
}

var reErrTail = regexp.MustCompile(`^XML syntax error on line \d+: `)

func classifyIllFormed(pe *parseErr, s string, in *parsed, keep bool) string {
	sh := knownShapes(s, in, keep)
	msg := reErrTail.ReplaceAllString(pe.err.Error(), "")
	switch {
	case strings.Contains(msg, "]]>") && sh["K43"]:
		return knownSig["K43"]
	case strings.Contains(msg, "]]>") && sh["K28"]:
		return knownSig["K28"]
	case sh["K27"] && (strings.Contains(msg, "unescaped <") || strings.Contains(msg, "< in attribute value") || strings.Contains(msg, "invalid character entity") || strings.Contains(msg, "unterminated reference") || strings.Contains(msg, "undeclared entity") || strings.Contains(msg, "bad character reference")):
		return knownSig["K27"]
	case sh["K42"] && pe.stage == "scan" && strings.Contains(msg, "PI"):
		return knownSig["K42"]
	case sh["N04"]:
		return knownSig["N04"]
	case strings.Contains(msg, "]]>") && sh["N05"]:
		return knownSig["N05"] // "]] &gt;" lost its space after a CDATA section
	}
	return "NEW:illformed:" + pe.stage + ":" + stableMsg(msg)
}

// stableMsg reduces an error message to its constant part so that one root cause gives
// one signature.
func stableMsg(msg string) string {
	for _, p := range []string{"invalid character entity", "unescaped < inside quoted string", "unescaped ]]> not in CDATA section", "illegal character code",
		"unexpected EOF", "expected attribute name", "attribute name without = in element", "unquoted or missing attribute value", "invalid sequence", "unexpected end element",
		"duplicate attribute", "document needs exactly one root element", "element <", "expected element name", "invalid XML name", "expected target name"} {
		if strings.HasPrefix(msg, p) {
			return strings.TrimSpace(strings.TrimSuffix(p, "<"))
		}
	}
	cut := len(msg)
	for i, r := range msg {
		if r == '&' || r == '<' || r == '"' || r == '\'' || r >= '0' && r <= '9' || r > 126 {
			cut = i
			break
		}
	}
	msg = strings.TrimSuffix(strings.TrimSpace(msg[:cut]), " at")
	if len(msg) > 60 {
		msg = msg[:60]
	}
	return msg
}

// ---------------------------------------------------------------------------------

func runMinify(input string, keep bool) (out string, err error, panicked interface{}) {
	defer func() {
		if r := recover(); r != nil {
			panicked = r
		}
	}()
	m := minify.New()
	var buf bytes.Buffer
	err = (&mxml.Minifier{KeepWhitespace: keep}).Minify(m, &buf, strings.NewReader(input), nil)
	return buf.String(), err, nil
}

type verdict struct {
	judged     bool
	reason     string // why not judged
	sig        string // "" = pass
	kind       string
	detail     string
	expected   string
	out        string
	nontrivial bool
	in         *parsed
}

func evaluate(input string, keep bool) verdict {
	in, pe := parseDoc(input)
	if pe != nil {
		return verdict{reason: "input-not-well-formed:" + pe.stage}
	}
	if in.complex {
		return verdict{reason: "entity-declaration-beyond-literal-text"}
	}
	v := verdict{judged: true, in: in}
	out, err, pan := runMinify(input, keep)
	v.out = out
	if pan != nil {
		v.kind, v.sig, v.detail, v.expected = "panic", "NEW:panic", fmt.Sprint(pan), "no panic"
		return v
	}
	if err != nil {
		v.kind, v.sig, v.detail, v.expected = "oracle", "NEW:minify-error", err.Error(), "well-formed input minifies without error"
		return v
	}
	v.nontrivial = out != input
	op, pe := parseDoc(out)
	if pe != nil {
		v.kind, v.sig = "oracle", classifyIllFormed(pe, input, in, keep)
		v.detail, v.expected = "output is not well-formed: "+pe.Error(), "well-formed output"
		return v
	}
	if d := compare(in, op, keep); d != nil {
		v.kind, v.sig, v.detail, v.expected = "oracle", classifyDiff(d, input, in, keep), d.detail, d.expected
		return v
	}
	out2, err, pan := runMinify(out, keep)
	if pan != nil {
		v.kind, v.sig, v.detail, v.expected = "panic", "NEW:second-pass-panic", fmt.Sprint(pan), "no panic"
		return v
	}
	if err != nil {
		v.kind, v.sig, v.detail, v.expected = "oracle", "NEW:second-pass-error", err.Error(), "output minifies again without error"
		return v
	}
	_ = out2
	return v
}
