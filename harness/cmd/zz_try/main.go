package main

import (
	"bufio"
	"fmt"
	"os"
	"strconv"

	"github.com/tdewolff/minify/v2"
	"github.com/tdewolff/minify/v2/css"
	"github.com/tdewolff/minify/v2/svg"
	mxml "github.com/tdewolff/minify/v2/xml"
)

// usage: try xml|xmlk|svg|svgcss|svgi|path  ; reads Go-quoted or raw lines from stdin
func main() {
	mode := os.Args[1]
	m := minify.New()
	m.Add("text/xml", &mxml.Minifier{KeepWhitespace: mode == "xmlk"})
	m.Add("image/svg+xml", &svg.Minifier{Inline: mode == "svgi"})
	if mode == "svgcss" {
		m.Add("text/css", &css.Minifier{})
	}
	sc := bufio.NewScanner(os.Stdin)
	sc.Buffer(make([]byte, 1<<20), 1<<20)
	for sc.Scan() {
		in := sc.Text()
		if len(in) > 0 && in[0] == '"' {
			if s, err := strconv.Unquote(in); err == nil {
				in = s
			}
		}
		var out string
		var err error
		switch mode {
		case "xml", "xmlk":
			out, err = m.String("text/xml", in)
		case "path":
			out = string(svg.NewPathData(&svg.Minifier{}).ShortenPathData([]byte(in)))
		default:
			out, err = m.String("image/svg+xml", in)
		}
		fmt.Printf("%q\n  -> %q err=%v\n", in, out, err)
	}
}
