module verifharness

go 1.18

require (
	github.com/tdewolff/minify/v2 v2.0.0
	github.com/tdewolff/parse/v2 v2.7.23
	golang.org/x/net v0.34.0
	golang.org/x/image v0.0.0-20190802002840-cff245a6509b
)

replace github.com/tdewolff/minify/v2 => /repo
