// Package vh holds the few helpers shared by all harness commands: one seeded PRNG,
// the result-file format read by bin/check, and small encoding helpers.
package vh

import (
	"encoding/hex"
	"encoding/json"
	"os"
	"sort"
)

// Rand is splitmix64; every random choice of a run derives from one seed.
type Rand struct{ s uint64 }

func NewRand(seed uint64) *Rand {
	// mix the seed so that consecutive seeds give unrelated streams (the raw splitmix state is a counter)
	z := seed + 0x9E3779B97F4A7C15
	z = (z ^ (z >> 30)) * 0xBF58476D1CE4E5B9
	z = (z ^ (z >> 27)) * 0x94D049BB133111EB
	return &Rand{s: z ^ (z >> 31) ^ 0x1234567}
}

func (r *Rand) Uint64() uint64 {
	r.s += 0x9E3779B97F4A7C15
	z := r.s
	z = (z ^ (z >> 30)) * 0xBF58476D1CE4E5B9
	z = (z ^ (z >> 27)) * 0x94D049BB133111EB
	return z ^ (z >> 31)
}

// Intn returns a value in [0,n).
func (r *Rand) Intn(n int) int {
	if n <= 0 {
		return 0
	}
	return int(r.Uint64() % uint64(n))
}

func (r *Rand) Bool() bool          { return r.Uint64()&1 == 1 }
func (r *Rand) Chance(p, q int) bool { return r.Intn(q) < p }

// Pick returns one of the strings.
func (r *Rand) Pick(xs ...string) string { return xs[r.Intn(len(xs))] }

// Fork derives an independent stream (so that sub-generators do not perturb each other).
func (r *Rand) Fork() *Rand { return NewRand(r.Uint64()) }

// Violation is one definite failure of a property found by an oracle or a correspondence.
type Violation struct {
	Kind      string            `json:"kind"`      // "oracle" | "correspondence" | "panic" | "timeout"
	Signature string            `json:"signature"` // root-cause signature matched against known_findings.json
	Input     string            `json:"input"`     // printable form
	InputHex  string            `json:"input_hex,omitempty"`
	Options   map[string]string `json:"options,omitempty"`
	Observed  string            `json:"observed"`
	Expected  string            `json:"expected"`
	Detail    string            `json:"detail,omitempty"`
	Case      int               `json:"case"`
}

// Result is what every harness command writes to <out>/result.json.
type Result struct {
	Engine             string                 `json:"engine"`
	Seed               uint64                 `json:"seed"`
	Tier               string                 `json:"tier"`
	Evaluations        int                    `json:"evaluations"`
	DistinctNontrivial int                    `json:"distinct_nontrivial"`
	Rule               string                 `json:"rule"`
	Exhaustive         bool                   `json:"exhaustive"`
	NotJudged          int                    `json:"not_judged"`
	Histograms         map[string]map[string]int `json:"histograms,omitempty"`
	Samples            []interface{}          `json:"samples"`
	Violations         []Violation            `json:"violations"`
	Extra              map[string]interface{} `json:"extra,omitempty"`
}

func (res *Result) Hist(name, key string) {
	if res.Histograms == nil {
		res.Histograms = map[string]map[string]int{}
	}
	if res.Histograms[name] == nil {
		res.Histograms[name] = map[string]int{}
	}
	res.Histograms[name][key]++
}

func (res *Result) Write(path string) error {
	if res.Samples == nil {
		res.Samples = []interface{}{}
	}
	if res.Violations == nil {
		res.Violations = []Violation{}
	}
	b, err := json.MarshalIndent(res, "", " ")
	if err != nil {
		return err
	}
	return os.WriteFile(path, b, 0o644)
}

func Hex(b []byte) string { return hex.EncodeToString(b) }

func Unhex(s string) []byte {
	b, err := hex.DecodeString(s)
	if err != nil {
		panic(err)
	}
	return b
}

// SortedKeys returns the keys of a string map in order (map order must never be observed).
func SortedKeys(m map[string]string) []string {
	ks := make([]string, 0, len(m))
	for k := range m {
		ks = append(ks, k)
	}
	sort.Strings(ks)
	return ks
}
