"""Shared machinery of bin/check: build steps, Coq obligations, tool runs, correspondence diffs,
known-finding matching, verdict and evidence. See DESIGN.md sections 2.3-2.7."""
import fcntl, hashlib, json, os, re, subprocess, sys, time, glob, shutil

ROOT = os.path.dirname(os.path.dirname(os.path.abspath(__file__)))
REPO = os.environ.get("VERIF_REPO", "/repo")
BUILD = os.path.join(ROOT, "build")
BIN = os.path.join(BUILD, "bin")
GOENV = dict(os.environ, GOFLAGS="-mod=mod", GOPROXY="off", GOSUMDB="off", GOTOOLCHAIN="local",
             CARGO_NET_OFFLINE="true", PIP_NO_INDEX="1")

TRUSTED_BASE_COMMON = [
    "Coq 8.16.1 kernel (coqc; coqchk -o re-checks the property file and its dependencies in the thorough tier of every check); vm_compute used, native_compute not used",
    "no Axiom/Parameter/Admitted in the development (lint in every check); Print Assumptions output recorded per theorem",
    "extraction: Coq extraction plugin + ExtrOcamlBasic directives only (bool, option, unit, list, prod, sumbool, sumor, andb, orb); Z/positive/nat stay inductive; OCaml 4.13.1; hand-written driver ocaml/mvmodel.ml + ocaml/util.ml",
    "translator/ (Go go/ast): transcribes literal tables and skeleton facts from /repo into coq/gen/*_gen.v",
    "Go harness + oracles (test equipment): decide nothing about the model, only compare it with the code and search for failing inputs",
    "modelled rather than verified: all Go code (theorems are about Gallina models tied to the code by the correspondence run); parse/v2 front ends are run, not modelled, unless stated",
]


def log(*a):
    print(*a, file=sys.stderr, flush=True)


def sh(cmd, cwd=None, env=None, timeout=3600, check=False, capture=True):
    t0 = time.time()
    p = subprocess.run(cmd, cwd=cwd, env=env or GOENV, shell=isinstance(cmd, str), timeout=timeout,
                       stdout=subprocess.PIPE if capture else None, stderr=subprocess.STDOUT if capture else None, text=True)
    if check and p.returncode != 0:
        raise RuntimeError("command failed (%d): %s\n%s" % (p.returncode, cmd, (p.stdout or "")[-4000:]))
    p.wall = time.time() - t0
    return p


class Lock:
    def __init__(self, name):
        os.makedirs(BUILD, exist_ok=True)
        self.path = os.path.join(BUILD, name + ".lock")

    def __enter__(self):
        self.f = open(self.path, "w")
        fcntl.flock(self.f, fcntl.LOCK_EX)
        return self

    def __exit__(self, *a):
        fcntl.flock(self.f, fcntl.LOCK_UN)
        self.f.close()


def file_hash(path):
    h = hashlib.sha256()
    with open(path, "rb") as f:
        h.update(f.read())
    return h.hexdigest()


def tree_hash(paths):
    h = hashlib.sha256()
    for p in sorted(paths):
        h.update(p.encode())
        h.update(file_hash(p).encode())
    return h.hexdigest()


# ---------------------------------------------------------------- build steps
class BuildState:
    """What the build steps found; a broken step is a broken proof obligation or a broken tie."""

    def __init__(self):
        self.coq_ok = True
        self.coq_log = ""
        self.gen_changed = []
        self.translator_ok = True
        self.translator_log = ""
        self.go_ok = True
        self.go_log = ""
        self.cmds = []
        self.extract_failed = False


def lint_coq():
    """No axioms/admits/guard switches anywhere in the development."""
    bad = []
    pat = re.compile(r"\b(Admitted|admit|Axiom|Axioms|Parameter|Parameters|Conjecture|Hypothesis|Variable|Abort All|Unset Guard Checking|bypass_check|Admit Obligations|type-in-type|impredicative-set)\b")
    def strip_comments(text):
        """blank out (possibly nested, multi-line) comments, keeping line structure"""
        out, i, lvl = [], 0, 0
        while i < len(text):
            two = text[i:i + 2]
            if two == "(*":
                lvl += 1
                out.append("  ")
                i += 2
            elif two == "*)" and lvl > 0:
                lvl -= 1
                out.append("  ")
                i += 2
            else:
                out.append(text[i] if lvl == 0 or text[i] == "\n" else " ")
                i += 1
        return "".join(out)
    for f in glob.glob(os.path.join(ROOT, "coq", "**", "*.v"), recursive=True):
        depth = 0
        raw_lines = open(f, errors="replace").read().split("\n")
        for n, (code, line) in enumerate(zip(strip_comments("\n".join(raw_lines)).split("\n"), raw_lines), 1):
            if re.match(r"\s*Section\b", code):
                depth += 1
            if re.match(r"\s*End\b", code) and depth > 0:
                depth -= 1
            m = pat.search(code)
            if m:
                w = m.group(1)
                if w in ("Hypothesis", "Variable", "Parameter", "Parameters") and depth > 0 and w in ("Hypothesis", "Variable"):
                    continue  # section-local assumption, discharged at End (listed in the trusted base)
                bad.append("%s:%d: %s" % (os.path.relpath(f, ROOT), n, line.strip()))
    return bad


def ensure_built(tools=()):
    """Regenerate facts from /repo, rebuild Coq (.vo, full), extraction + OCaml driver and the Go harness.
    Serialised by a lock so that checks can run side by side."""
    st = BuildState()
    with Lock("build"):
        os.makedirs(BIN, exist_ok=True)
        # 1. translator: /repo -> coq/gen/*_gen.v
        tdir = os.path.join(ROOT, "translator")
        if os.path.isdir(tdir) and glob.glob(os.path.join(tdir, "*.go")):
            before = {f: file_hash(f) for f in glob.glob(os.path.join(ROOT, "coq", "gen", "*.v"))}
            p = sh("go build -o %s/translator . && %s/translator -repo %s -out %s" % (BIN, BIN, REPO, os.path.join(ROOT, "coq", "gen")), cwd=tdir, timeout=600)
            st.cmds.append("translator -repo %s -out coq/gen" % REPO)
            st.translator_ok = p.returncode == 0
            st.translator_log = p.stdout
            after = {f: file_hash(f) for f in glob.glob(os.path.join(ROOT, "coq", "gen", "*.v"))}
            st.gen_changed = sorted(os.path.basename(f) for f in after if before.get(f) != after[f])
        # 2. Coq
        p = sh("./build.sh", cwd=os.path.join(ROOT, "coq"), timeout=3400)
        st.cmds.append("coq/build.sh  (coq_makefile -f _CoqProject; make -j16, full .vo)")
        st.coq_ok = p.returncode == 0
        st.coq_log = p.stdout
        # 3. extraction + driver, when any model/gen/driver source is newer than the binary
        mv = os.path.join(BIN, "mvmodel")
        srcs = glob.glob(os.path.join(ROOT, "coq", "theories", "**", "*.v"), recursive=True) + glob.glob(os.path.join(ROOT, "coq", "gen", "*.v")) + \
            glob.glob(os.path.join(ROOT, "coq", "extract", "*.v")) + glob.glob(os.path.join(ROOT, "ocaml", "*"))
        stamp = os.path.join(BUILD, "mvmodel.stamp")
        cur = tree_hash([s for s in srcs if "/Props/" not in s and "Proof" not in os.path.basename(s)])
        old = open(stamp).read() if os.path.exists(stamp) else ""
        if cur != old or not os.path.exists(mv):
            p = sh("./ocaml/build.sh", cwd=ROOT, timeout=1800)
            st.cmds.append("ocaml/build.sh  (coqc coq/extract/Extract.v; ocamlfind ocamlopt)")
            if p.returncode == 0:
                open(stamp, "w").write(cur)
            else:
                st.extract_failed = True
                if os.path.exists(stamp):
                    os.remove(stamp)
                st.coq_log += "\n" + p.stdout
        # 4. Go harness against /repo's working tree, hooks on
        if tools == "all":
            tools = sorted(os.path.basename(d) for d in glob.glob(os.path.join(ROOT, "harness", "cmd", "*")) if os.path.isdir(d))
        for t in tools:
            p = sh("go build -tags verif -o %s/%s ./cmd/%s" % (BIN, t, t), cwd=os.path.join(ROOT, "harness"), timeout=1200)
            st.cmds.append("cd harness && go build -tags verif -o build/bin/%s ./cmd/%s  (go.mod: replace minify/v2 => /repo)" % (t, t))
            if p.returncode != 0:
                st.go_ok = False
                st.go_log += p.stdout
    return st


# ---------------------------------------------------------------- Coq obligations
def props_obligations(pid):
    """Re-check coq/theories/Props/<pid>.v with coqc and read the Print Assumptions blocks."""
    f = os.path.join(ROOT, "coq", "theories", "Props", pid + ".v")
    src = open(f).read()
    src_nc = re.sub(r"\(\*.*?\*\)", "", src, flags=re.S)
    names = re.findall(r"^\s*(?:Theorem|Example|Lemma|Corollary)\s+([A-Za-z0-9_']+)", src_nc, flags=re.M)
    cmd = "coqc -Q theories MV -Q gen MVGen -w -notation-overridden theories/Props/%s.v" % pid
    with Lock("build"):
        p = sh("timeout 1500 " + cmd, cwd=os.path.join(ROOT, "coq"), timeout=1600)
    out = p.stdout or ""
    assumptions = {}
    # output order follows the Print Assumptions commands in the file
    printed = re.findall(r"^\s*Print Assumptions\s+([A-Za-z0-9_'.]+)\s*\.", src_nc, flags=re.M)
    blocks = re.split(r"(?=Closed under the global context|Axioms:)", out)
    blocks = [b for b in blocks if b.startswith("Closed under") or b.startswith("Axioms:")]
    for n, b in zip(printed, blocks):
        assumptions[n] = "closed" if b.startswith("Closed") else " ".join(b.split())[:600]
    ok = p.returncode == 0
    discharged = len(names) if ok else 0
    return {"file": "coq/theories/Props/%s.v" % pid, "theorems": names, "obligations": len(names), "discharged": discharged,
            "ok": ok, "assumptions": assumptions, "cmd": "cd coq && " + cmd, "log": out[-3000:] if not ok else ""}


# ---------------------------------------------------------------- tools and correspondence
def run_tool(tool, args, outdir, timeout=3000):
    os.makedirs(outdir, exist_ok=True)
    rj = os.path.join(outdir, "result.json")
    if os.path.exists(rj):
        os.remove(rj)
    cmd = [os.path.join(BIN, tool)] + [str(a) for a in args] + ["-out", outdir]
    try:
        p = sh(cmd, cwd=ROOT, timeout=timeout)
    except subprocess.TimeoutExpired:
        return None, "tool %s timed out" % tool
    if p.returncode != 0 or not os.path.exists(rj):
        out = p.stdout or ""
        excerpt = out[-2000:]
        k = out.find("WARNING: DATA RACE")
        if k >= 0 and k < len(out) - 2000:
            excerpt = out[k:k + 2500] + "\n...\n" + excerpt      # the race detector's first report, not only the tail of the output
        return None, "tool %s failed (exit %d): %s" % (tool, p.returncode, excerpt)
    return json.load(open(rj)), None


def run_model(cases_in, model_out):
    with open(cases_in) as fi, open(model_out, "w") as fo:
        p = subprocess.run([os.path.join(BIN, "mvmodel")], stdin=fi, stdout=fo, stderr=subprocess.PIPE, text=True, timeout=3000)
    return p.returncode == 0, p.stderr


def diff_corr(name, outdir, cases="cases.in", impl="cases.go.out", max_report=5):
    """Run the extracted model on the case file and compare line by line with the implementation."""
    cin, cgo, cmo = (os.path.join(outdir, x) for x in (cases, impl, cases.replace(".in", ".model.out")))
    ok, err = run_model(cin, cmo)
    if not ok:
        return {"name": name, "cases": 0, "mismatches": -1, "error": err[-1000:], "examples": []}
    n = bad = 0
    ex = []
    with open(cin) as a, open(cgo) as b, open(cmo) as c:
        for la, lb, lc in zip(a, b, c):
            n += 1
            if lb.rstrip("\n") != lc.rstrip("\n"):
                bad += 1
                if len(ex) < max_report:
                    ex.append({"case": la.rstrip("\n"), "impl": lb.rstrip("\n"), "model": lc.rstrip("\n"), "line": n})
    nb = sum(1 for _ in open(cgo))
    if nb != n or sum(1 for _ in open(cmo)) != n:
        return {"name": name, "cases": n, "mismatches": -1, "error": "line counts differ", "examples": ex}
    return {"name": name, "cases": n, "mismatches": bad, "examples": ex}


def unhex(s):
    try:
        return bytes.fromhex(s).decode("latin-1")
    except Exception:
        return s


# ---------------------------------------------------------------- known findings
def load_known(pid):
    kf = json.load(open(os.path.join(ROOT, "known_findings.json")))
    return [e for e in kf["findings"] if pid in e["properties"]]


def match_known(sig, known, tool=None):
    for e in known:
        if e["status"] != "open":
            continue
        if tool and e.get("tool") and e["tool"] != tool and tool not in e.get("also_tools", []):
            continue     # signature namespaces are per search tool (xmloracle N02 is not htmloracle N02)
        for pat in e.get("signatures", []):
            if sig == pat or (pat.endswith("*") and sig.startswith(pat[:-1])):
                return e
    return None


# ---------------------------------------------------------------- check context
class Check:
    def __init__(self, pid, tier, seed):
        self.pid, self.tier, self.seed = pid, tier, seed
        self.t0 = time.time()
        self.outdir = os.path.join(BUILD, "run", pid)
        shutil.rmtree(self.outdir, ignore_errors=True)
        os.makedirs(self.outdir, exist_ok=True)
        self.known = load_known(pid)
        self.broken = []          # names of theorems / correspondences that no longer check
        self.new_violations = []  # oracle failures not covered by an open known finding
        self.known_hits = {}      # finding id -> (entry, example)
        self.cov = {"evaluations": 0, "distinct_nontrivial": 0, "rule": "", "samples": [], "obligations": 0, "discharged": 0,
                    "checker_cmd": "", "trusted_base": list(TRUSTED_BASE_COMMON), "traces_validated_against_impl": 0,
                    "correspondences": [], "tools": [], "theorems": {}, "exhaustive": False}
        self.assumptions = []
        self.rules = []
        self.notes = []

    # -- steps
    def build(self, tools=()):
        bad = lint_coq()
        if bad:
            self.broken.append("lint: forbidden declaration in the Coq development: " + "; ".join(bad[:5]))
        st = ensure_built(tools)
        self.build_state = st
        self.cov["gen_changed_by_this_run"] = st.gen_changed
        if not st.translator_ok:
            self.broken.append("translator failed on /repo: " + st.translator_log[-800:])
        if not st.coq_ok:
            # make -k built everything that still checks; whether THIS property is affected is decided by props()
            # (coqc on its Props file fails iff something it depends on is broken) and by the extraction step
            self.notes.append("coq: some file of the development does not build on this tree: " + " | ".join(re.findall(r'File "([^"]+)", line \d+', st.coq_log)[:5]))
            if not os.path.exists(os.path.join(BIN, "mvmodel")) or st.extract_failed:
                self.broken.append("extraction of the models failed: " + st.coq_log[-1500:])
        if not st.go_ok:
            self.broken.append("harness does not build against /repo: " + st.go_log[-1500:])
        return st

    def props(self, pid=None):
        o = props_obligations(pid or self.pid)
        self.cov["obligations"] += o["obligations"]
        self.cov["discharged"] += o["discharged"]
        self.cov["checker_cmd"] = (self.cov["checker_cmd"] + " ; " if self.cov["checker_cmd"] else "") + "; ".join(self.build_state.cmds[:2]) + " ; " + o["cmd"]
        self.cov["theorems"][o["file"]] = {n: o["assumptions"].get(n, "not printed") for n in o["theorems"]}
        if not o["ok"]:
            self.broken.append("Props.%s does not check: %s" % (pid or self.pid, o["log"][-1200:]))
        for n, a in o["assumptions"].items():
            if a != "closed":
                self.assumptions.append("theorem %s depends on: %s" % (n, a))
        if self.tier == "thorough" and o["ok"]:
            # independent re-check of the compiled property file and everything it depends on
            cmd = "coqchk -silent -o -Q theories MV -Q gen MVGen MV.Props.%s" % (pid or self.pid)
            with Lock("build"):
                p = sh("timeout 3000 " + cmd, cwd=os.path.join(ROOT, "coq"), timeout=3100)
                if p.returncode != 0 and not (p.stdout or "").strip():
                    # killed without a word (observed once under memory pressure from unrelated jobs): not a verdict, run again
                    p = sh("timeout 3000 " + cmd, cwd=os.path.join(ROOT, "coq"), timeout=3100)
            out = p.stdout or ""
            summ = out[out.find("CONTEXT SUMMARY"):] if "CONTEXT SUMMARY" in out else out[-800:]
            self.cov["coqchk"] = {"cmd": "cd coq && " + cmd, "exit": p.returncode, "summary": " ".join(summ.split())[:900]}
            if p.returncode != 0:
                self.broken.append("coqchk rejects Props.%s: %s" % (pid or self.pid, out[-1200:]))
            elif "Axioms: <none>" not in " ".join(summ.split()):
                self.assumptions.append("coqchk context summary: " + " ".join(summ.split())[:600])
        return o

    def tool(self, tool, args, sub=None, count=True, timeout=3000):
        d = os.path.join(self.outdir, sub or tool)
        res, err = run_tool(tool, args, d, timeout)
        if res is None:
            self.broken.append("harness: " + err)
            return None, d
        if count:
            self.cov["evaluations"] += res.get("evaluations", 0)
            self.cov["distinct_nontrivial"] += res.get("distinct_nontrivial", 0)
            if res.get("rule"):
                self.rules.append("[%s] %s" % (res.get("engine", tool), res["rule"]))
            for s in res.get("samples", [])[:3]:
                if len(self.cov["samples"]) < 12:
                    self.cov["samples"].append({"tool": sub or tool, "case": s})
        self.cov["tools"].append({"tool": sub or tool, "args": " ".join(str(a) for a in args), "evaluations": res.get("evaluations", 0),
                                  "distinct_nontrivial": res.get("distinct_nontrivial", 0), "not_judged": res.get("not_judged", 0),
                                  "violations": len(res.get("violations", [])), "histograms": res.get("histograms"), "extra": res.get("extra")})
        for v in res.get("violations", []):
            self.violation(v, sub or tool, binary=tool)
        return res, d

    # -- composite properties (C09, C11, C16): search tools of other properties are re-used with a filter
    def tool_filtered(self, tool, args, sub=None, keep=None, timeout=3000):
        """Runs a search tool; a violation counts for THIS property when keep(v) holds and it is not an open finding that
        is listed for other properties only (those are reported by the checks of the properties that list them)."""
        d = os.path.join(self.outdir, sub or tool)
        res, err = run_tool(tool, args, d, timeout)
        if res is None:
            self.broken.append("harness: " + err)
            return None, d
        self.cov["evaluations"] += res.get("evaluations", 0)
        self.cov["distinct_nontrivial"] += res.get("distinct_nontrivial", 0)
        if res.get("rule"):
            self.rules.append("[%s] %s" % (res.get("engine", tool), res["rule"]))
        for smp in res.get("samples", [])[:2]:
            if len(self.cov["samples"]) < 12:
                self.cov["samples"].append({"tool": sub or tool, "case": smp})
        allknown = json.load(open(os.path.join(ROOT, "known_findings.json")))["findings"]
        skipped_other, skipped_filter = 0, 0
        for v in res.get("violations", []):
            sig = v.get("signature", "")
            if keep is not None and not keep(v) and match_known(sig, self.known, tool) is None:
                skipped_filter += 1
                continue
            if match_known(sig, self.known, tool) is None and match_known(sig, allknown, tool) is not None:
                skipped_other += 1
                continue
            self.violation(v, sub or tool, binary=tool)
        self.cov["tools"].append({"tool": sub or tool, "args": " ".join(str(a) for a in args), "evaluations": res.get("evaluations", 0),
                                  "distinct_nontrivial": res.get("distinct_nontrivial", 0), "not_judged": res.get("not_judged", 0),
                                  "violations": len(res.get("violations", [])), "violations_outside_this_property": skipped_filter,
                                  "open_findings_of_other_properties": skipped_other, "histograms": res.get("histograms"), "extra": res.get("extra")})
        return res, d

    def replay_any(self):
        """Replay of a stored failing input with the tool that produced it."""
        v = self.replay_file["failing_input"]
        tool = v.get("tool", "")
        binary = {"replay": v.get("binary", "")}.get(tool, tool).split(":")[0]
        o = v.get("options", {}) or {}
        wj = {"input": v.get("input", ""), "input_hex": v.get("input_hex", ""), "options": o}
        if binary == "jsoracle":
            wj["strict"] = o.get("strict") == "true"
        elif binary == "cssoracle":
            wj["inline"] = o.get("inline") == "true"
        elif binary == "svgoracle":
            wj["mode"] = o.get("mode", "doc")
        elif binary == "htmloracle":
            wj["fragment"] = v.get("fragment", o.get("fragment", "true") != "false")
            wj["registry"] = v.get("registry", o.get("registry", "none"))
        w = os.path.join(self.outdir, "witness.json")
        json.dump(wj, open(w, "w"))
        res, d = self.tool(binary, ["-witness", w], sub="replay:" + binary)
        return self.finish()

    def violation(self, v, tool, binary=None):
        e = match_known(v.get("signature", ""), self.known, binary)
        v = dict(v, tool=tool, binary=binary or tool)
        if e is not None:
            self.known_hits.setdefault(e["id"], (e, v))
        else:
            self.new_violations.append(v)

    def corr(self, name, d, **kw):
        c = diff_corr(name, d, **kw)
        self.cov["correspondences"].append({k: c[k] for k in ("name", "cases", "mismatches")})
        if c["mismatches"] != 0:
            self.broken.append("corr:%s — model and implementation disagree on %s of %d cases; first: %s" % (
                name, c["mismatches"], c["cases"], json.dumps(c["examples"][:2])[:1500] + (" " + c.get("error", ""))))
            self.corr_examples = c["examples"]
        else:
            self.cov["traces_validated_against_impl"] += c["cases"]
        return c

    def replay_known(self, tool_for):
        """Replay every open finding's witness against the current tree."""
        for e in self.known:
            if e["status"] != "open" or e["id"] in self.known_hits:
                continue
            w = e.get("witness_file")
            tool = e.get("tool")
            if not w or not tool:
                continue
            res, err = run_tool(tool, ["-witness", os.path.join(ROOT, w)] + e.get("tool_args", []), os.path.join(self.outdir, "known-" + e["id"]))
            if res is None:
                self.notes.append("known finding %s: witness replay failed to run: %s" % (e["id"], err))
                continue
            if res.get("violations"):
                self.known_hits[e["id"]] = (e, dict(res["violations"][0], tool=tool))
            else:
                self.notes.append("known finding %s no longer reproduces on this tree" % e["id"])

    # -- verdict
    def finish(self, level="proof", explanation=""):
        rc = 0
        os.makedirs(os.path.join(ROOT, "replays"), exist_ok=True)
        os.makedirs(os.path.join(ROOT, "evidence"), exist_ok=True)
        for fid, (e, v) in sorted(self.known_hits.items()):
            print("KNOWN-FINDING: property=%s %s: %s" % (self.pid, fid, e["what"]))
        replay = None
        if self.new_violations or self.broken:
            rc = 1
            replay = os.path.join("replays", "%s-%s-%d.json" % (self.pid, self.tier, self.seed))
            body = {"property": self.pid, "tier": self.tier, "seed": self.seed,
                    "broken": self.broken, "violations": self.new_violations[:20],
                    "how_to_replay": "bin/check %s --replay %s" % (self.pid, replay)}
            if self.new_violations:
                body["failing_input"] = self.new_violations[0]
            json.dump(body, open(os.path.join(ROOT, replay), "w"), indent=1)
            if self.new_violations:
                v = self.new_violations[0]
                log("failing input (%s): %s -> %s  [%s] %s" % (v.get("tool"), v.get("input", "")[:300], v.get("observed", "")[:300], v.get("signature"), v.get("detail", "")[:300]))
                print("VIOLATION property=%s replay=%s" % (self.pid, replay))
            else:
                for b in self.broken:
                    log("BROKEN: " + b[:2000])
                print("VIOLATION property=%s replay=%s no-failing-input-found" % (self.pid, replay))
        self.cov["rule"] = " || ".join(self.rules) if self.rules else "see tools"
        if explanation:
            self.cov["explanation"] = explanation
        self.cov["known_findings_reproduced"] = sorted(self.known_hits)
        self.cov["notes"] = self.notes
        self.cov["broken"] = [b[:500] for b in self.broken]
        if not self.cov["samples"]:
            self.cov["samples"] = [{"note": "no generated cases in this run"}]
        ev = {"property_id": self.pid, "tier": self.tier, "seed": self.seed, "level": level, "coverage": self.cov,
              "assumptions": self.assumptions or ["see coverage.trusted_base"], "wall_s": round(time.time() - self.t0, 2),
              "violations": len(self.new_violations) + (1 if self.broken and not self.new_violations else 0)}
        json.dump(ev, open(os.path.join(ROOT, "evidence", self.pid + ".json"), "w"), indent=1)
        return rc
