#!/bin/bash
# Extract the models (coqc on coq/extract/Extract.v, run inside build/extract) and build mvmodel.
set -e
cd "$(dirname "$0")/.."
mkdir -p build/extract build/bin
cd build/extract
rm -f *.ml *.mli *.cm* *.o
timeout 900 coqc -Q ../../coq/theories MV -Q ../../coq/gen MVGen ../../coq/extract/Extract.v > extract.log 2>&1 || { cat extract.log; exit 1; }
rm -f ../../coq/extract/*.vo ../../coq/extract/*.glob ../../coq/extract/.*.aux ../../coq/extract/*.vos ../../coq/extract/*.vok
cp ../../ocaml/*.ml .
# dependency order via ocamlfind ocamldep -sort
FILES=$(ocamlfind ocamldep -sort *.mli *.ml)
ocamlfind ocamlopt -O3 -w -a -o ../bin/mvmodel $FILES 2>/dev/null || ocamlfind ocamlopt -w -a -o ../bin/mvmodel $FILES
echo "built build/bin/mvmodel"
