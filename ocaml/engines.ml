(* further engines register their handlers here *)
open Util
let register (reg : string -> (string list -> string) -> unit) = ignore reg; ignore hex_of_bytes
